import Proofs.Effort
/-!
Frame lemmas: what the scheduling of one task leaves untouched — the ledger entries of every other task,
and the `done` flag of every other task.  Used to lift the per-task effort theorem to whole scenarios.
-/
namespace SP

/-! ### task table -/

theorem tst_setT (σ : St) (t : Nat) (x : TSt) (t' : Nat) :
    (σ.setT t x).tst t' = if t = t' ∧ t < σ.ts.size then x else σ.tst t' := by
  unfold St.setT St.tst
  simp only [Array.getD_eq_getD_getElem?, Array.getElem?_setIfInBounds]
  by_cases h : t = t'
  · subst h
    by_cases hb : t < σ.ts.size
    · simp [hb]
    · simp [hb]
  · simp [h]

theorem tst_setT_other (σ : St) (t : Nat) (x : TSt) (t' : Nat) (h : t ≠ t') : (σ.setT t x).tst t' = σ.tst t' := by
  rw [tst_setT]; simp [h]

end SP

namespace SP

/-! ### ledger entries of other tasks -/

/-- `σ'` records for task `t` exactly what `σ` records, in every slot of every resource -/
def SameEntries (σ σ' : St) (t : Nat) : Prop :=
  ∀ r i, usageOf (σ'.led.get r i).usage t = usageOf (σ.led.get r i).usage t

theorem SameEntries.refl (σ : St) (t : Nat) : SameEntries σ σ t := fun _ _ => rfl

theorem SameEntries.trans {σ σ' σ'' : St} {t : Nat} (h1 : SameEntries σ σ' t) (h2 : SameEntries σ' σ'' t) :
    SameEntries σ σ'' t := fun r i => (h2 r i).trans (h1 r i)

theorem SameEntries.of_led {σ σ' : St} {t : Nat} (h : σ'.led = σ.led) : SameEntries σ σ' t := by
  intro r i; rw [h]

theorem usageOf_append_other (u : List (Nat × Rat)) (t t0 : Nat) (a : Rat) (h : t0 ≠ t) :
    usageOf (u ++ [(t0, a)]) t = usageOf u t := by
  unfold usageOf
  induction u with
  | nil =>
    have : ((t0 == t) = false) := by simpa using h
    simp [List.find?_cons, this]
  | cons x xs ih =>
    simp only [List.cons_append, List.find?_cons]
    split
    · rfl
    · exact ih

theorem usageOf_setUsage_other (u : List (Nat × Rat)) (t t0 : Nat) (v : Rat) (h : t0 ≠ t) :
    usageOf (setUsage u t0 v) t = usageOf u t := by
  induction u with
  | nil => rfl
  | cons x xs ih =>
    simp only [setUsage]
    have hf : ((t0 == t) = false) := by simpa using h
    by_cases hx : x.1 == t0
    · have hx' : x.1 = t0 := by simpa using hx
      have hxt : ((x.1 == t) = false) := by rw [hx']; exact hf
      simp only [hx, if_true]
      unfold usageOf
      simp only [List.find?_cons, hf, hxt]
    · simp only [hx, Bool.false_eq_true, if_false]
      unfold usageOf at ih ⊢
      simp only [List.find?_cons]
      split
      · rfl
      · exact ih

theorem book_other (G : Int) (s : Slot) (t t0 : Nat) (h : t0 ≠ t) :
    usageOf (s.book G t0).usage t = usageOf s.usage t := by
  simp only [Slot.book]; exact usageOf_append_other _ _ _ _ h

theorem release_other (s : Slot) (t t0 : Nat) (a : Rat) (h : t0 ≠ t) :
    usageOf (s.release t0 a).usage t = usageOf s.usage t := by
  unfold Slot.release
  split
  · rfl
  · split
    · exact usageOf_setUsage_other _ _ _ _ h
    · rfl

/-- replacing one slot by a slot with the same entry of `t` -/
theorem sameEntries_set (σ σ' : St) (t r : Nat) (i : Int) (s' : Slot) (hl : σ'.led = σ.led.set r i s')
    (hs : usageOf s'.usage t = usageOf (σ.led.get r i).usage t) : SameEntries σ σ' t := by
  intro r' i'
  rw [hl, Ledger.get_set]
  split
  · rename_i h; rw [← h.1, ← h.2]; exact hs
  · rfl

theorem bookSlot_same (e : Env) (σ : St) (r : Nat) (i : Int) (t0 t : Nat) (h : t0 ≠ t) :
    SameEntries σ (bookSlot e σ r i t0).1 t := by
  apply sameEntries_set σ _ t r i ((σ.led.get r i).book e.G t0)
  · rw [bookSlot_eq, incAll_led]
  · exact book_other _ _ _ _ h

theorem reserveAt_same (σ : St) (r : Nat) (i : Int) (c : Rat) (t : Nat) : SameEntries σ (reserveAt σ r i c) t := by
  apply sameEntries_set σ _ t r i ((σ.led.get r i).reserve c) rfl
  rw [reserve_usage]

theorem reserveStep_same (σ : St) (w : Walk) (r t : Nat) : SameEntries σ (reserveStep σ w r) t := by
  intro r' i'; rw [reserveStep_get]

theorem foldl_same {α : Type} (f : St → α → St) (l : List α) (σ : St) (t : Nat)
    (hf : ∀ acc a, SameEntries acc (f acc a) t) : SameEntries σ (l.foldl f σ) t := by
  induction l generalizing σ with
  | nil => exact SameEntries.refl σ t
  | cons x xs ih => exact (hf σ x).trans (ih (f σ x))

theorem levelTeam_same (σ : St) (cur : Int) (sel : List Nat) (t : Nat) : SameEntries σ (levelTeam σ cur sel) t := by
  unfold levelTeam
  exact foldl_same _ sel σ t (fun acc r => reserveAt_same acc r cur _ t)

theorem leveled_same (e : Env) (σ : St) (t0 : Nat) (cur : Int) (sel : List Nat) (t : Nat) :
    SameEntries σ (leveled e σ t0 cur sel) t := by
  unfold leveled; split
  · exact levelTeam_same σ cur sel t
  · exact SameEntries.refl σ t

theorem bookResource_same (e : Env) (σ : St) (t0 : Nat) (w : Walk) (r t : Nat) (h : t0 ≠ t) :
    SameEntries σ (bookResource e σ t0 w r).1 t := by
  rw [bookResource_books_iff]
  split
  · exact (reserveStep_same σ w r t).trans (bookSlot_same e _ r w.cur t0 t h)
  · exact reserveStep_same σ w r t

theorem bookAll_same (e : Env) (σ : St) (t0 : Nat) (w : Walk) (sel : List Nat) (t : Nat) (h : t0 ≠ t) :
    SameEntries σ (bookAll e σ t0 w sel).σ t := by
  unfold bookAll
  have : ∀ (l : List Nat) (a : BookAcc), SameEntries a.σ (l.foldl (bookOne e t0 w) a).σ t := by
    intro l
    induction l with
    | nil => intro a; exact SameEntries.refl _ t
    | cons x xs ih =>
      intro a
      simp only [List.foldl_cons]
      have h1 : SameEntries a.σ (bookOne e t0 w a x).σ t := by
        unfold bookOne; simp only []
        split <;> exact bookResource_same e a.σ t0 w x t h
      exact h1.trans (ih _)
  exact this sel _

theorem bookResources_same (e : Env) (σ : St) (t0 : Nat) (w : Walk) (t : Nat) (h : t0 ≠ t) :
    SameEntries σ (bookResources e σ t0 w).1 t := by
  unfold bookResources
  split
  · exact SameEntries.refl σ t
  · simp only []
    split
    · exact SameEntries.refl σ t
    · split
      · exact SameEntries.refl σ t
      · have h1 := (leveled_same e σ t0 w.cur (selectedOf e σ t0 w) t).trans
            (bookAll_same e _ t0 { w with selected := some (selectedOf e σ t0 w) } (selectedOf e σ t0 w) t h)
        split
        · exact h1.trans (SameEntries.of_led (markStart_led e _ t0 _))
        · exact h1

theorem releaseOthers_same (σ : St) (t0 : Nat) (cur : Int) (r : Nat) (need : Rat) (sel : List Nat) (t : Nat)
    (h : t0 ≠ t) : SameEntries σ (releaseOthers σ t0 cur r need sel) t := by
  unfold releaseOthers
  apply foldl_same
  intro acc m
  split
  · exact SameEntries.refl acc t
  · split
    · exact SameEntries.refl acc t
    · exact sameEntries_set acc _ t m cur _ rfl (release_other _ _ _ _ h)

theorem finishTask_same (e : Env) (σ : St) (t0 : Nat) (w : Walk) (before : Rat) (fwd : Bool) (t : Nat) (h : t0 ≠ t) :
    SameEntries σ (finishTask e σ t0 w before fwd).1 t := by
  unfold finishTask
  split
  · exact SameEntries.refl σ t
  · simp only []
    exact (sameEntries_set σ _ t _ w.cur _ rfl (release_other _ _ _ _ h)).trans (releaseOthers_same _ t0 w.cur _ _ _ t h)

end SP

namespace SP

theorem scheduleSlot_same (e : Env) (σ : St) (t0 : Nat) (w : Walk) (t : Nat) (h : t0 ≠ t) :
    SameEntries σ (scheduleSlot e σ t0 w).1 t := by
  unfold scheduleSlot
  simp only []
  split
  · split
    · split <;> exact SameEntries.of_led rfl
    · split <;> exact SameEntries.of_led rfl
  · have h1 := bookResources_same e σ t0 w t h
    split
    · have h2 := finishTask_same e (bookResources e σ t0 w).1 t0 (bookResources e σ t0 w).2 w.done (σ.tst t0).forward t h
      exact (h1.trans h2).trans (SameEntries.of_led rfl)
    · exact h1

theorem walkLoop_same (e : Env) (t0 : Nat) (fwd : Bool) (fuel : Nat) (σ : St) (w : Walk) (t : Nat) (h : t0 ≠ t) :
    SameEntries σ (walkLoop e t0 fwd fuel σ w).1 t := by
  induction fuel generalizing σ w with
  | zero => exact SameEntries.refl σ t
  | succ f ih =>
    unfold walkLoop
    simp only []
    have h1 := scheduleSlot_same e σ t0 w t h
    split
    · exact h1
    · split
      · exact h1
      · exact h1.trans (ih _ _)

/-- **frame**: scheduling task `t0` changes no ledger entry of any other task -/
theorem scheduleTask_same (e : Env) (σ : St) (t0 t : Nat) (h : t0 ≠ t) : SameEntries σ (scheduleTask e σ t0).1 t := by
  unfold scheduleTask
  simp only []
  split
  · exact SameEntries.refl σ t
  · split
    · exact SameEntries.of_led rfl
    · have h1 : SameEntries σ (σ.setT t0 (preStartT e σ t0 (initCursor e σ t0).1)) t := SameEntries.of_led rfl
      have h2 := walkLoop_same e t0 (σ.tst t0).forward (e.size.toNat + 3) (σ.setT t0 (preStartT e σ t0 (initCursor e σ t0).1))
        { cur := preStartCursor e σ t0 (initCursor e σ t0).1, offset := (initCursor e σ t0).2 } t h
      split
      · exact (h1.trans h2).trans (SameEntries.of_led rfl)
      · exact (h1.trans h2).trans (SameEntries.of_led rfl)

theorem foldl_setT_led (f : St → Nat → TSt) (l : List Nat) (σ : St) :
    (l.foldl (fun (acc : St) t => acc.setT t (f acc t)) σ).led = σ.led := by
  induction l generalizing σ with
  | nil => rfl
  | cons x xs ih => simp only [List.foldl_cons]; rw [ih]; rfl

theorem updateContainers_led (e : Env) (σ : St) : (updateContainers e σ).led = σ.led := by
  unfold updateContainers; exact foldl_setT_led _ _ σ

/-- the exact-effort outcome of a task survives whatever leaves its entries alone -/
theorem Exact.of_same {e : Env} {σ σ' : St} {t r : Nat} {vis : List Int} (hs : SameEntries σ σ' t)
    (h : Exact e σ t r vis) : Exact e σ' t r vis := by
  unfold Exact at *
  obtain ⟨h1, h2, h3⟩ := h
  refine ⟨h1, fun i hi => by rw [hs r i]; exact h2 i hi, ?_⟩
  have : sumOver σ'.led r t vis = sumOver σ.led r t vis := by
    clear h1 h2 h3
    induction vis with
    | nil => rfl
    | cons i is ih =>
      simp only [sumOver, taskSecs]
      rw [hs r i, ih]
  rw [this]; exact h3

end SP

namespace SP

/-! ### task attributes of other tasks, and the `done` flag -/

/-- `σ'` differs from `σ` in the attributes of task `t0` only, and not in its `done` flag -/
def TsFrame (σ σ' : St) (t0 : Nat) : Prop :=
  (∀ t, t ≠ t0 → σ'.tst t = σ.tst t) ∧ (σ'.tst t0).done = (σ.tst t0).done ∧
  (σ'.tst t0).scheduled = (σ.tst t0).scheduled ∧ (σ'.tst t0).forward = (σ.tst t0).forward ∧
  σ'.ts.size = σ.ts.size

theorem TsFrame.refl (σ : St) (t0 : Nat) : TsFrame σ σ t0 := ⟨fun _ _ => rfl, rfl, rfl, rfl, rfl⟩

theorem TsFrame.trans {σ σ' σ'' : St} {t0 : Nat} (h1 : TsFrame σ σ' t0) (h2 : TsFrame σ' σ'' t0) : TsFrame σ σ'' t0 :=
  ⟨fun t ht => (h2.1 t ht).trans (h1.1 t ht), h2.2.1.trans h1.2.1, h2.2.2.1.trans h1.2.2.1,
   h2.2.2.2.1.trans h1.2.2.2.1, h2.2.2.2.2.trans h1.2.2.2.2⟩

theorem TsFrame.of_ts {σ σ' : St} {t0 : Nat} (h : σ'.ts = σ.ts) : TsFrame σ σ' t0 := by
  unfold TsFrame St.tst; rw [h]; exact ⟨fun _ _ => rfl, rfl, rfl, rfl, rfl⟩

theorem size_setT (σ : St) (t : Nat) (x : TSt) : (σ.setT t x).ts.size = σ.ts.size := by
  unfold St.setT; simp

/-- updating task `t0` with attributes that keep its `done`, `scheduled` and `forward` flags -/
theorem TsFrame.setT (σ : St) (t0 : Nat) (x : TSt) (hx : x.done = (σ.tst t0).done)
    (hs : x.scheduled = (σ.tst t0).scheduled) (hf : x.forward = (σ.tst t0).forward := by rfl) :
    TsFrame σ (σ.setT t0 x) t0 := by
  refine ⟨fun t ht => tst_setT_other σ t0 x t (Ne.symm ht), ?_, ?_, ?_, size_setT σ t0 x⟩
  · rw [tst_setT]
    split
    · exact hx
    · rfl
  · rw [tst_setT]
    split
    · exact hs
    · rfl
  · rw [tst_setT]
    split
    · exact hf
    · rfl

theorem bookSlot_ts (e : Env) (σ : St) (r : Nat) (i : Int) (t : Nat) : (bookSlot e σ r i t).1.ts = σ.ts := by
  rw [bookSlot_eq, incAll_ts]

theorem reserveStep_ts (σ : St) (w : Walk) (r : Nat) : (reserveStep σ w r).ts = σ.ts := by
  unfold reserveStep; split <;> rfl

theorem foldl_ts {α : Type} (f : St → α → St) (l : List α) (σ : St) (hf : ∀ acc a, (f acc a).ts = acc.ts) :
    (l.foldl f σ).ts = σ.ts := by
  induction l generalizing σ with
  | nil => rfl
  | cons x xs ih => simp only [List.foldl_cons]; rw [ih, hf]

theorem levelTeam_ts (σ : St) (cur : Int) (sel : List Nat) : (levelTeam σ cur sel).ts = σ.ts := by
  unfold levelTeam; exact foldl_ts _ sel σ (fun _ _ => rfl)

theorem leveled_ts (e : Env) (σ : St) (t0 : Nat) (cur : Int) (sel : List Nat) : (leveled e σ t0 cur sel).ts = σ.ts := by
  unfold leveled; split
  · exact levelTeam_ts σ cur sel
  · rfl

theorem bookResource_ts (e : Env) (σ : St) (t0 : Nat) (w : Walk) (r : Nat) : (bookResource e σ t0 w r).1.ts = σ.ts := by
  rw [bookResource_books_iff]
  split
  · rw [bookSlot_ts, reserveStep_ts]
  · exact reserveStep_ts σ w r

theorem bookAll_ts (e : Env) (σ : St) (t0 : Nat) (w : Walk) (sel : List Nat) : (bookAll e σ t0 w sel).σ.ts = σ.ts := by
  unfold bookAll
  have : ∀ (l : List Nat) (a : BookAcc), (l.foldl (bookOne e t0 w) a).σ.ts = a.σ.ts := by
    intro l
    induction l with
    | nil => intro a; rfl
    | cons x xs ih =>
      intro a
      simp only [List.foldl_cons]
      rw [ih]
      unfold bookOne; simp only []
      split <;> exact bookResource_ts e a.σ t0 w x
  exact this sel _

theorem markStart_frame (e : Env) (σ : St) (t0 : Nat) (w : Walk) : TsFrame σ (markStart e σ t0 w) t0 := by
  unfold markStart
  split
  · exact TsFrame.setT σ t0 _ rfl rfl
  · exact TsFrame.refl σ t0

theorem bookResources_frame (e : Env) (σ : St) (t0 : Nat) (w : Walk) : TsFrame σ (bookResources e σ t0 w).1 t0 := by
  unfold bookResources
  split
  · exact TsFrame.refl σ t0
  · simp only []
    split
    · exact TsFrame.refl σ t0
    · split
      · exact TsFrame.refl σ t0
      · have h1 : TsFrame σ (bookAll e (leveled e σ t0 w.cur (selectedOf e σ t0 w)) t0
            { w with selected := some (selectedOf e σ t0 w) } (selectedOf e σ t0 w)).σ t0 :=
          TsFrame.of_ts (by rw [bookAll_ts, leveled_ts])
        split
        · exact h1.trans (markStart_frame e _ t0 _)
        · exact h1

theorem releaseOthers_ts (σ : St) (t0 : Nat) (cur : Int) (r : Nat) (need : Rat) (sel : List Nat) :
    (releaseOthers σ t0 cur r need sel).ts = σ.ts := by
  unfold releaseOthers
  apply foldl_ts
  intro acc m
  split
  · rfl
  · split <;> rfl

theorem finishTask_ts (e : Env) (σ : St) (t0 : Nat) (w : Walk) (before : Rat) (fwd : Bool) :
    (finishTask e σ t0 w before fwd).1.ts = σ.ts := by
  unfold finishTask
  split
  · rfl
  · simp only []; rw [releaseOthers_ts]

theorem scheduleSlot_frame (e : Env) (σ : St) (t0 : Nat) (w : Walk) : TsFrame σ (scheduleSlot e σ t0 w).1 t0 := by
  unfold scheduleSlot
  simp only []
  split
  · split
    · split <;> exact TsFrame.setT σ t0 _ rfl rfl
    · split <;> exact TsFrame.setT σ t0 _ rfl rfl
  · have h1 := bookResources_frame e σ t0 w
    split
    · have h2 : TsFrame (bookResources e σ t0 w).1
          (finishTask e (bookResources e σ t0 w).1 t0 (bookResources e σ t0 w).2 w.done (σ.tst t0).forward).1 t0 :=
        TsFrame.of_ts (finishTask_ts _ _ _ _ _ _)
      refine (h1.trans h2).trans ?_
      have h3 := TsFrame.setT (finishTask e (bookResources e σ t0 w).1 t0 (bookResources e σ t0 w).2 w.done (σ.tst t0).forward).1 t0
        (if (σ.tst t0).forward then
          { (finishTask e (bookResources e σ t0 w).1 t0 (bookResources e σ t0 w).2 w.done (σ.tst t0).forward).1.tst t0 with
            stop := some (finishTask e (bookResources e σ t0 w).1 t0 (bookResources e σ t0 w).2 w.done (σ.tst t0).forward).2 }
         else
          { (finishTask e (bookResources e σ t0 w).1 t0 (bookResources e σ t0 w).2 w.done (σ.tst t0).forward).1.tst t0 with
            start := some (finishTask e (bookResources e σ t0 w).1 t0 (bookResources e σ t0 w).2 w.done (σ.tst t0).forward).2 })
        (by split <;> rfl) (by split <;> rfl) (by split <;> rfl)
      exact h3.trans (TsFrame.of_ts rfl)
    · exact h1

theorem walkLoop_frame (e : Env) (t0 : Nat) (fwd : Bool) (fuel : Nat) (σ : St) (w : Walk) :
    TsFrame σ (walkLoop e t0 fwd fuel σ w).1 t0 := by
  induction fuel generalizing σ w with
  | zero => exact TsFrame.refl σ t0
  | succ f ih =>
    unfold walkLoop
    simp only []
    have h1 := scheduleSlot_frame e σ t0 w
    split
    · exact h1
    · split
      · exact h1
      · exact h1.trans (ih _ _)

end SP

namespace SP

theorem preStartT_done (e : Env) (σ : St) (t : Nat) (c : Int) : (preStartT e σ t c).done = (σ.tst t).done := by
  unfold preStartT; simp only []; split <;> rfl

theorem preStartT_scheduled (e : Env) (σ : St) (t : Nat) (c : Int) : (preStartT e σ t c).scheduled = (σ.tst t).scheduled := by
  unfold preStartT; simp only []; split <;> rfl

theorem preStartT_forward (e : Env) (σ : St) (t : Nat) (c : Int) : (preStartT e σ t c).forward = (σ.tst t).forward := by
  unfold preStartT; simp only []; split <;> rfl

/-- scheduling `t0` leaves every other task's attributes alone -/
theorem scheduleTask_other (e : Env) (σ : St) (t0 t : Nat) (h : t ≠ t0) : (scheduleTask e σ t0).1.tst t = σ.tst t := by
  unfold scheduleTask
  simp only []
  split
  · rfl
  · have h0 := TsFrame.setT σ t0 (preStartT e σ t0 (initCursor e σ t0).1) (preStartT_done e σ t0 _) (preStartT_scheduled e σ t0 _) (preStartT_forward e σ t0 _)
    split
    · rw [tst_setT_other _ _ _ _ (Ne.symm h)]; exact h0.1 t h
    · have h1 := walkLoop_frame e t0 (σ.tst t0).forward (e.size.toNat + 3) (σ.setT t0 (preStartT e σ t0 (initCursor e σ t0).1))
        { cur := preStartCursor e σ t0 (initCursor e σ t0).1, offset := (initCursor e σ t0).2 }
      split
      · rw [tst_setT_other _ _ _ _ (Ne.symm h)]; exact (h0.trans h1).1 t h
      · rw [tst_setT_other _ _ _ _ (Ne.symm h)]; exact (h0.trans h1).1 t h

theorem done_setT_runaway (X : St) (t0 : Nat) :
    ((X.setT t0 { X.tst t0 with runaway := true }).tst t0).done = (X.tst t0).done := by
  rw [tst_setT]; split <;> rfl

/-- the `done` flag of a task is set by a successful `scheduleTask` only -/
theorem scheduleTask_done (e : Env) (σ : St) (t0 : Nat) (hnd : (σ.tst t0).done = false)
    (hd : ((scheduleTask e σ t0).1.tst t0).done = true) : (scheduleTask e σ t0).2 = true := by
  unfold scheduleTask at hd ⊢
  simp only [hnd, Bool.false_eq_true, if_false] at hd ⊢
  have h0 := TsFrame.setT σ t0 (preStartT e σ t0 (initCursor e σ t0).1) (preStartT_done e σ t0 _) (preStartT_scheduled e σ t0 _) (preStartT_forward e σ t0 _)
  by_cases hout : (preStartCursor e σ t0 (initCursor e σ t0).1 < 0 || preStartCursor e σ t0 (initCursor e σ t0).1 > e.upper) = true
  · exfalso
    simp only [hout, if_true] at hd
    rw [done_setT_runaway, h0.2.1, hnd] at hd
    exact Bool.noConfusion hd
  · simp only [hout, Bool.false_eq_true, if_false] at hd ⊢
    have h1 := walkLoop_frame e t0 (σ.tst t0).forward (e.size.toNat + 3) (σ.setT t0 (preStartT e σ t0 (initCursor e σ t0).1))
        { cur := preStartCursor e σ t0 (initCursor e σ t0).1, offset := (initCursor e σ t0).2 }
    have h01 := (h0.trans h1).2.1
    by_cases hfin : (walkLoop e t0 (σ.tst t0).forward (e.size.toNat + 3) (σ.setT t0 (preStartT e σ t0 (initCursor e σ t0).1))
        { cur := preStartCursor e σ t0 (initCursor e σ t0).1, offset := (initCursor e σ t0).2 }).2.2 = true
    · simp only [hfin, Bool.not_true, Bool.false_eq_true, if_false]
    · exfalso
      have hfin' : (walkLoop e t0 (σ.tst t0).forward (e.size.toNat + 3) (σ.setT t0 (preStartT e σ t0 (initCursor e σ t0).1))
        { cur := preStartCursor e σ t0 (initCursor e σ t0).1, offset := (initCursor e σ t0).2 }).2.2 = false := by simpa using hfin
      simp only [hfin', Bool.not_false, if_true] at hd
      rw [done_setT_runaway, h01, hnd] at hd
      exact Bool.noConfusion hd

/-- the container roll-up does not touch leaf tasks -/
theorem updateContainers_leaf (e : Env) (σ : St) (t : Nat) (hlf : (e.taskD t).leaf = true) :
    (updateContainers e σ).tst t = σ.tst t := by
  unfold updateContainers
  have : ∀ (l : List Nat) (acc : St), (l.foldl (fun (acc : St) x => acc.setT x (rollupT e acc x)) acc).tst t = acc.tst t := by
    intro l
    induction l with
    | nil => intro acc; rfl
    | cons x xs ih =>
      intro acc
      simp only [List.foldl_cons]
      rw [ih, tst_setT]
      split
      · rename_i hx
        rw [hx.1]
        unfold rollupT
        simp [hlf]
      · rfl
  exact this _ σ

end SP
