import Model.Cli
import Proofs.Cli
import Proofs.CliClean
/-!
The output contract of `plan report` as a table (`expectedExit`, `expectedStdout`) and the proof that
the effect program realises it (`run_contract`), by Floyd-style assertions: `Good` says, program
point by program point, what is known when control is there; `good_step` checks every statement
against it.  Used by Properties/C19.lean.
-/
set_option linter.unusedSimpArgs false
namespace SP.Cli
variable {B R : Type}

/-- the bytes `plan` goes on to process, or `none` when the input is rejected up front -/
def accepted (env : Env B R) (c : Config B) (fs0 : FS B R) : Option B :=
  match c.channel with
  | .stdin => if env.blank c.stdin then none else some (env.stdinCopy c.stdin)
  | .file =>
    match fs0 c.inPath with
    | some (.file (.raw b)) => if env.empty b then none else some b
    | _ => none

/-- faults between "input accepted and hashed" and "engine has produced the report file" -/
def midFaults : List Fault := [.mkdtemp, .copyRead, .mkstempAuto, .copyWrite, .engineRaise, .engineNoOutput]

/-- **the exit-code contract** (stdout target), in program order: the first thing that goes wrong decides -/
def expectedExit (env : Env B R) (c : Config B) (fs0 : FS B R) : Nat :=
  match accepted env c fs0 with
  | none => 1                                                                  -- missing / directory / empty / blank stdin
  | some b =>
    if c.channel = .stdin ∧ (c.fault = .stdinMkstemp ∨ c.fault = .stdinWrite) then 2
    else if c.fault = .readInput then 1                                        -- unreadable input
    else if c.fault ∈ midFaults then 2
    else if env.engineOk b = false then 2                                      -- syntax error, engine failure
    else if c.fault = .readReport then 2
    else if c.fault = .echo then 2
    else 0

/-- **the stdout contract**: the auto report of the accepted bytes on success, nothing otherwise -/
def expectedStdout (env : Env B R) (c : Config B) (fs0 : FS B R) : List (Emitted R) :=
  match accepted env c fs0 with
  | none => []
  | some b =>
    if expectedExit env c fs0 = 0 then
      [⟨c.fmt, (match c.fmt with | .json => some (env.H b) | .csv => none), env.autoBody b c.fmt⟩]
    else []

structure WellFormed (c : Config B) (fs0 : FS B R) : Prop where
  inp : ∃ n, c.inPath = .user n
  raw : ∀ x, fs0 c.inPath = some (.file x) → ∃ b, x = .raw b
  out : c.out = none
  fresh : Fresh c.pid fs0

/-! ### rejected inputs: a run of at most five steps, evaluated directly -/

theorem run_rejected (env : Env B R) (c : Config B) (fs0 : FS B R) (hwf : WellFormed c fs0)
    (hacc : accepted env c fs0 = none) :
    (run env .repaired c fs0).1.exit = some 1 ∧ (run env .repaired c fs0).1.stdout = [] := by
  obtain ⟨n, hn⟩ := hwf.inp
  have hraw := hwf.raw
  unfold accepted at hacc
  cases hch : c.channel
  · -- file
    rw [hch] at hacc
    simp only at hacc
    cases hnode : fs0 c.inPath with
    | none =>
      simp [run, fuel, iter, step, stepCore, raise, goto, viewOf, hch, hnode, Exc.code]
    | some nd =>
      cases nd with
      | dir => simp [run, fuel, iter, step, stepCore, raise, goto, viewOf, hch, hnode, Exc.code]
      | file x =>
        obtain ⟨b, rfl⟩ := hraw x hnode
        rw [hnode] at hacc
        simp only at hacc
        have hemp : env.empty b = true := by
          cases h : env.empty b
          · simp [h] at hacc
          · rfl
        simp [run, fuel, iter, step, stepCore, raise, goto, viewOf, hch, hnode, hemp, Exc.code]
  · -- stdin
    rw [hch] at hacc
    simp only at hacc
    have hbl : env.blank c.stdin = true := by
      cases h : env.blank c.stdin
      · simp [h] at hacc
      · rfl
    simp [run, fuel, iter, step, stepCore, raise, goto, hch, hbl, Exc.code]

/-! ### accepted inputs: Floyd assertions -/

/-- what is known about the configuration when control has reached the point after which `k`
    potential failures lie behind (program order) -/
def Passed (env : Env B R) (c : Config B) (b : B) : Nat → Prop
  | 0 => True
  | 1 => ¬(c.channel = .stdin ∧ (c.fault = .stdinMkstemp ∨ c.fault = .stdinWrite))   -- at `hash`
  | 2 => Passed env c b 1 ∧ c.fault ≠ .readInput                                       -- at `mkOutDir`
  | 3 => Passed env c b 2 ∧ c.fault ≠ .mkdtemp                                         -- at `autoA`
  | 4 => Passed env c b 3 ∧ c.fault ≠ .copyRead                                        -- at `autoB`
  | 5 => Passed env c b 4 ∧ c.fault ≠ .mkstempAuto                                     -- at `autoC`
  | 6 => Passed env c b 5 ∧ c.fault ≠ .copyWrite                                       -- at `engine`
  | 7 => Passed env c b 6 ∧ c.fault ≠ .engineRaise                                     -- at `select`
  | 8 => Passed env c b 7 ∧ c.fault ≠ .engineNoOutput ∧ env.engineOk b = true          -- at `readRep`
  | 9 => Passed env c b 8 ∧ c.fault ≠ .readReport                                      -- at `emit`
  | _ + 10 => False

def autoNode (env : Env B R) (c : Config B) (b : B) : Option (Node B R) :=
  some (.file (.report c.rid (env.autoBody b c.fmt)))

def emitted (env : Env B R) (c : Config B) (b : B) : Emitted R :=
  ⟨c.fmt, (match c.fmt with | .json => some (env.H b) | .csv => none), env.autoBody b c.fmt⟩

/-- the assertion attached to each program point (for a run whose input `b` was accepted) -/
def Good (env : Env B R) (c : Config B) (fs0 : FS B R) (b : B) (s : Local B R × FS B R) : Prop :=
  let nodir := ∀ f, s.2 (.inDir c.pid f) = none
  let tjp := tjpNode c (viewOf c s.2) = some (.file (.raw b))
  match s.1.pc with
  | .start => s.1.stdout = [] ∧ s.2 = fs0
  | .validate => c.channel = .file ∧ s.1.stdout = [] ∧ s.2 = fs0
  | .stdinMk => c.channel = .stdin ∧ s.1.stdout = [] ∧ s.2 = fs0
  | .stdinWrite => c.channel = .stdin ∧ c.fault ≠ .stdinMkstemp ∧ s.1.stdout = [] ∧ nodir
  | .hash => Passed env c b 1 ∧ s.1.stdout = [] ∧ nodir ∧ tjp
  | .mkOutDir => Passed env c b 2 ∧ s.1.stdout = [] ∧ nodir ∧ tjp ∧ s.1.hash = some (env.H b)
  | .autoA => Passed env c b 3 ∧ s.1.stdout = [] ∧ nodir ∧ tjp ∧ s.1.hash = some (env.H b)
  | .autoB => Passed env c b 4 ∧ s.1.stdout = [] ∧ nodir ∧ s.1.hash = some (env.H b) ∧ s.1.orig = some b
  | .autoC => Passed env c b 5 ∧ s.1.stdout = [] ∧ nodir ∧ s.1.hash = some (env.H b) ∧ s.1.orig = some b
  | .engine => Passed env c b 6 ∧ s.1.stdout = [] ∧ nodir ∧ s.1.hash = some (env.H b) ∧
      s.2 (.tmp c.pid .autoCopy) = some (.file (.combined b c.rid c.fmt))
  | .select => Passed env c b 7 ∧ s.1.stdout = [] ∧ s.1.hash = some (env.H b) ∧
      ((c.fault = .engineNoOutput ∧ nodir) ∨
       (c.fault ≠ .engineNoOutput ∧ env.engineOk b = true ∧
        s.2 (.inDir c.pid (fileName c.rid c.fmt)) = autoNode env c b))
  | .readRep => Passed env c b 8 ∧ s.1.stdout = [] ∧ s.1.hash = some (env.H b) ∧
      s.1.sel = some (fileName c.rid c.fmt) ∧ s.2 (.inDir c.pid (fileName c.rid c.fmt)) = autoNode env c b
  | .emit => Passed env c b 9 ∧ s.1.stdout = [] ∧ s.1.content = some (emitted env c b)
  | .rmOut | .rmAuto | .rmIn => expectedExit env c fs0 = 0 ∧ s.1.stdout = expectedStdout env c fs0
  | .h1 e | .h2 e | .h3 e => e.code = expectedExit env c fs0 ∧ s.1.stdout = [] ∧ expectedStdout env c fs0 = []
  | .exited => s.1.exit = some (expectedExit env c fs0) ∧ s.1.stdout = expectedStdout env c fs0

theorem good_init (env : Env B R) (c : Config B) (fs0 : FS B R) (b : B) : Good env c fs0 b ({}, fs0) := by
  simp [Good]

-- `Good … (run …)` must never be unfolded by the elaborator's `whnf` (it would evaluate the run)
attribute [irreducible] Good

/-- what `accepted = some b` and well-formedness say, in the form the step lemmas use -/
structure Acc (env : Env B R) (c : Config B) (fs0 : FS B R) (b : B) (n : Nat) : Prop where
  hn : c.inPath = .user n
  hout : c.out = none
  hf1 : ∀ k, fs0 (.tmp c.pid k) = none
  hf2 : ∀ f, fs0 (.inDir c.pid f) = none
  hS : c.channel = .stdin → env.blank c.stdin = false ∧ env.stdinCopy c.stdin = b
  hFi : c.channel = .file → fs0 (.user n) = some (.file (.raw b)) ∧ env.empty b = false
  hacc : accepted env c fs0 = some b

set_option maxHeartbeats 2000000 in
theorem good_step_start (env : Env B R) (c : Config B) (fs0 : FS B R) (b : B) {n : Nat} (a : Acc env c fs0 b n)
    (fs : FS B R) (finSet fautoSet dirSet : Bool) (orig : Option B) (hash : Option String) (sel : Option Name)
    (content : Option (Emitted R)) (stdout : List (Emitted R)) (exit : Option Nat) (trace : List (Op B R))
    (h : Good env c fs0 b (⟨.start, finSet, fautoSet, dirSet, orig, hash, sel, content, stdout, exit, trace⟩, fs)) :
    Good env c fs0 b (step env .repaired c (⟨.start, finSet, fautoSet, dirSet, orig, hash, sel, content, stdout, exit, trace⟩, fs)) := by
  obtain ⟨hn, hout, hf1, hf2, hS, hFi, hacc⟩ := a
  simp only [Good] at h
  simp only [step, stepCore, raise, goto, hout, Variant.repaired]
  repeat' split
  all_goals (try (simp_all [Good, Passed, tjpNode, viewOf, tp, expectedExit, expectedStdout, midFaults, Exc.code,
      engine_auto, autoNode, emitted, isFile]; done))

set_option maxHeartbeats 2000000 in
theorem good_step_stdinMk (env : Env B R) (c : Config B) (fs0 : FS B R) (b : B) {n : Nat} (a : Acc env c fs0 b n)
    (fs : FS B R) (finSet fautoSet dirSet : Bool) (orig : Option B) (hash : Option String) (sel : Option Name)
    (content : Option (Emitted R)) (stdout : List (Emitted R)) (exit : Option Nat) (trace : List (Op B R))
    (h : Good env c fs0 b (⟨.stdinMk, finSet, fautoSet, dirSet, orig, hash, sel, content, stdout, exit, trace⟩, fs)) :
    Good env c fs0 b (step env .repaired c (⟨.stdinMk, finSet, fautoSet, dirSet, orig, hash, sel, content, stdout, exit, trace⟩, fs)) := by
  obtain ⟨hn, hout, hf1, hf2, hS, hFi, hacc⟩ := a
  simp only [Good] at h
  simp only [step, stepCore, raise, goto, hout, Variant.repaired]
  repeat' split
  all_goals (try (simp_all [Good, Passed, tjpNode, viewOf, tp, expectedExit, expectedStdout, midFaults, Exc.code,
      engine_auto, autoNode, emitted, isFile]; done))

set_option maxHeartbeats 2000000 in
theorem good_step_stdinWrite (env : Env B R) (c : Config B) (fs0 : FS B R) (b : B) {n : Nat} (a : Acc env c fs0 b n)
    (fs : FS B R) (finSet fautoSet dirSet : Bool) (orig : Option B) (hash : Option String) (sel : Option Name)
    (content : Option (Emitted R)) (stdout : List (Emitted R)) (exit : Option Nat) (trace : List (Op B R))
    (h : Good env c fs0 b (⟨.stdinWrite, finSet, fautoSet, dirSet, orig, hash, sel, content, stdout, exit, trace⟩, fs)) :
    Good env c fs0 b (step env .repaired c (⟨.stdinWrite, finSet, fautoSet, dirSet, orig, hash, sel, content, stdout, exit, trace⟩, fs)) := by
  obtain ⟨hn, hout, hf1, hf2, hS, hFi, hacc⟩ := a
  simp only [Good] at h
  simp only [step, stepCore, raise, goto, hout, Variant.repaired]
  repeat' split
  all_goals (try (simp_all [Good, Passed, tjpNode, viewOf, tp, expectedExit, expectedStdout, midFaults, Exc.code,
      engine_auto, autoNode, emitted, isFile]; done))

set_option maxHeartbeats 2000000 in
theorem good_step_validate (env : Env B R) (c : Config B) (fs0 : FS B R) (b : B) {n : Nat} (a : Acc env c fs0 b n)
    (fs : FS B R) (finSet fautoSet dirSet : Bool) (orig : Option B) (hash : Option String) (sel : Option Name)
    (content : Option (Emitted R)) (stdout : List (Emitted R)) (exit : Option Nat) (trace : List (Op B R))
    (h : Good env c fs0 b (⟨.validate, finSet, fautoSet, dirSet, orig, hash, sel, content, stdout, exit, trace⟩, fs)) :
    Good env c fs0 b (step env .repaired c (⟨.validate, finSet, fautoSet, dirSet, orig, hash, sel, content, stdout, exit, trace⟩, fs)) := by
  obtain ⟨hn, hout, hf1, hf2, hS, hFi, hacc⟩ := a
  simp only [Good] at h
  obtain ⟨hch, hst, rfl⟩ := h
  obtain ⟨hnode, hemp⟩ := hFi hch
  simp [step, stepCore, goto, viewOf, hn, hnode, hemp, Good, Passed, tjpNode, hch, hst, hf2]

set_option maxHeartbeats 2000000 in
theorem good_step_hash (env : Env B R) (c : Config B) (fs0 : FS B R) (b : B) {n : Nat} (a : Acc env c fs0 b n)
    (fs : FS B R) (finSet fautoSet dirSet : Bool) (orig : Option B) (hash : Option String) (sel : Option Name)
    (content : Option (Emitted R)) (stdout : List (Emitted R)) (exit : Option Nat) (trace : List (Op B R))
    (h : Good env c fs0 b (⟨.hash, finSet, fautoSet, dirSet, orig, hash, sel, content, stdout, exit, trace⟩, fs)) :
    Good env c fs0 b (step env .repaired c (⟨.hash, finSet, fautoSet, dirSet, orig, hash, sel, content, stdout, exit, trace⟩, fs)) := by
  obtain ⟨hn, hout, hf1, hf2, hS, hFi, hacc⟩ := a
  simp only [Good] at h
  obtain ⟨hp, hst, hnd, htj⟩ := h
  simp only [Passed] at hp
  by_cases hfl : c.fault = .readInput
  · simp [step, stepCore, raise, hfl, Variant.repaired, Good, Exc.code, expectedExit, expectedStdout, hacc, hst, hp]
  · simp [step, stepCore, hfl, htj, Good, Passed, hst, hp]
    exact hnd

set_option maxHeartbeats 2000000 in
theorem good_step_mkOutDir (env : Env B R) (c : Config B) (fs0 : FS B R) (b : B) {n : Nat} (a : Acc env c fs0 b n)
    (fs : FS B R) (finSet fautoSet dirSet : Bool) (orig : Option B) (hash : Option String) (sel : Option Name)
    (content : Option (Emitted R)) (stdout : List (Emitted R)) (exit : Option Nat) (trace : List (Op B R))
    (h : Good env c fs0 b (⟨.mkOutDir, finSet, fautoSet, dirSet, orig, hash, sel, content, stdout, exit, trace⟩, fs)) :
    Good env c fs0 b (step env .repaired c (⟨.mkOutDir, finSet, fautoSet, dirSet, orig, hash, sel, content, stdout, exit, trace⟩, fs)) := by
  obtain ⟨hn, hout, hf1, hf2, hS, hFi, hacc⟩ := a
  simp only [Good] at h
  simp only [step, stepCore, raise, goto, hout, Variant.repaired]
  repeat' split
  all_goals (try (simp_all [Good, Passed, tjpNode, viewOf, tp, expectedExit, expectedStdout, midFaults, Exc.code,
      engine_auto, autoNode, emitted, isFile]; done))

set_option maxHeartbeats 2000000 in
theorem good_step_autoA (env : Env B R) (c : Config B) (fs0 : FS B R) (b : B) {n : Nat} (a : Acc env c fs0 b n)
    (fs : FS B R) (finSet fautoSet dirSet : Bool) (orig : Option B) (hash : Option String) (sel : Option Name)
    (content : Option (Emitted R)) (stdout : List (Emitted R)) (exit : Option Nat) (trace : List (Op B R))
    (h : Good env c fs0 b (⟨.autoA, finSet, fautoSet, dirSet, orig, hash, sel, content, stdout, exit, trace⟩, fs)) :
    Good env c fs0 b (step env .repaired c (⟨.autoA, finSet, fautoSet, dirSet, orig, hash, sel, content, stdout, exit, trace⟩, fs)) := by
  obtain ⟨hn, hout, hf1, hf2, hS, hFi, hacc⟩ := a
  simp only [Good] at h
  obtain ⟨hp, hst, hnd, htj, hh⟩ := h
  simp only [Passed] at hp
  by_cases hfl : c.fault = .copyRead
  · simp [step, stepCore, raise, hfl, Variant.repaired, Good, Exc.code, expectedExit, expectedStdout, hacc, hst, hp, midFaults]
  · simp [step, stepCore, hfl, htj, Variant.repaired, Good, Passed, hst, hp, hh]
    exact hnd

set_option maxHeartbeats 2000000 in
theorem good_step_autoB (env : Env B R) (c : Config B) (fs0 : FS B R) (b : B) {n : Nat} (a : Acc env c fs0 b n)
    (fs : FS B R) (finSet fautoSet dirSet : Bool) (orig : Option B) (hash : Option String) (sel : Option Name)
    (content : Option (Emitted R)) (stdout : List (Emitted R)) (exit : Option Nat) (trace : List (Op B R))
    (h : Good env c fs0 b (⟨.autoB, finSet, fautoSet, dirSet, orig, hash, sel, content, stdout, exit, trace⟩, fs)) :
    Good env c fs0 b (step env .repaired c (⟨.autoB, finSet, fautoSet, dirSet, orig, hash, sel, content, stdout, exit, trace⟩, fs)) := by
  obtain ⟨hn, hout, hf1, hf2, hS, hFi, hacc⟩ := a
  simp only [Good] at h
  simp only [step, stepCore, raise, goto, hout, Variant.repaired]
  repeat' split
  all_goals (try (simp_all [Good, Passed, tjpNode, viewOf, tp, expectedExit, expectedStdout, midFaults, Exc.code,
      engine_auto, autoNode, emitted, isFile]; done))

set_option maxHeartbeats 2000000 in
theorem good_step_autoC (env : Env B R) (c : Config B) (fs0 : FS B R) (b : B) {n : Nat} (a : Acc env c fs0 b n)
    (fs : FS B R) (finSet fautoSet dirSet : Bool) (orig : Option B) (hash : Option String) (sel : Option Name)
    (content : Option (Emitted R)) (stdout : List (Emitted R)) (exit : Option Nat) (trace : List (Op B R))
    (h : Good env c fs0 b (⟨.autoC, finSet, fautoSet, dirSet, orig, hash, sel, content, stdout, exit, trace⟩, fs)) :
    Good env c fs0 b (step env .repaired c (⟨.autoC, finSet, fautoSet, dirSet, orig, hash, sel, content, stdout, exit, trace⟩, fs)) := by
  obtain ⟨hn, hout, hf1, hf2, hS, hFi, hacc⟩ := a
  simp only [Good] at h
  simp only [step, stepCore, raise, goto, hout, Variant.repaired]
  repeat' split
  all_goals (try (simp_all [Good, Passed, tjpNode, viewOf, tp, expectedExit, expectedStdout, midFaults, Exc.code,
      engine_auto, autoNode, emitted, isFile]; done))

set_option maxHeartbeats 2000000 in
theorem good_step_engine (env : Env B R) (c : Config B) (fs0 : FS B R) (b : B) {n : Nat} (a : Acc env c fs0 b n)
    (fs : FS B R) (finSet fautoSet dirSet : Bool) (orig : Option B) (hash : Option String) (sel : Option Name)
    (content : Option (Emitted R)) (stdout : List (Emitted R)) (exit : Option Nat) (trace : List (Op B R))
    (h : Good env c fs0 b (⟨.engine, finSet, fautoSet, dirSet, orig, hash, sel, content, stdout, exit, trace⟩, fs)) :
    Good env c fs0 b (step env .repaired c (⟨.engine, finSet, fautoSet, dirSet, orig, hash, sel, content, stdout, exit, trace⟩, fs)) := by
  obtain ⟨hn, hout, hf1, hf2, hS, hFi, hacc⟩ := a
  simp only [Good] at h
  obtain ⟨hp, hst, hnd, hh, hfa⟩ := h
  simp only [Passed] at hp
  by_cases h1 : c.fault = .engineRaise
  · simp [step, stepCore, raise, h1, Good, Exc.code, expectedExit, expectedStdout, hacc, hst, hp, midFaults]
  · by_cases h2 : c.fault = .engineNoOutput
    · simp [step, stepCore, goto, h1, h2, Good, Passed, hst, hp, hh]
      exact hnd
    · cases hok : env.engineOk b
      · simp [step, stepCore, raise, viewOf, h1, h2, hfa, hok, Good, Exc.code, expectedExit, expectedStdout, hacc, hst, hp, midFaults]
      · simp [step, stepCore, viewOf, h1, h2, hfa, hok, Good, Passed, hst, hp, hh, engine_auto, autoNode]

set_option maxHeartbeats 2000000 in
theorem good_step_select (env : Env B R) (c : Config B) (fs0 : FS B R) (b : B) {n : Nat} (a : Acc env c fs0 b n)
    (fs : FS B R) (finSet fautoSet dirSet : Bool) (orig : Option B) (hash : Option String) (sel : Option Name)
    (content : Option (Emitted R)) (stdout : List (Emitted R)) (exit : Option Nat) (trace : List (Op B R))
    (h : Good env c fs0 b (⟨.select, finSet, fautoSet, dirSet, orig, hash, sel, content, stdout, exit, trace⟩, fs)) :
    Good env c fs0 b (step env .repaired c (⟨.select, finSet, fautoSet, dirSet, orig, hash, sel, content, stdout, exit, trace⟩, fs)) := by
  obtain ⟨hn, hout, hf1, hf2, hS, hFi, hacc⟩ := a
  simp only [Good] at h
  obtain ⟨hp, hst, hh, hd⟩ := h
  simp only [Passed] at hp
  rcases hd with ⟨h2, hnd⟩ | ⟨h2, hok, hau⟩
  · simp [step, stepCore, raise, viewOf, Variant.repaired, hnd, isFile, h2, Good, Exc.code, expectedExit, expectedStdout, hacc, hst, hp, midFaults]
  · simp [step, stepCore, viewOf, Variant.repaired, hau, autoNode, isFile, h2, hok, Good, Passed, hst, hp, hh]

set_option maxHeartbeats 2000000 in
theorem good_step_readRep (env : Env B R) (c : Config B) (fs0 : FS B R) (b : B) {n : Nat} (a : Acc env c fs0 b n)
    (fs : FS B R) (finSet fautoSet dirSet : Bool) (orig : Option B) (hash : Option String) (sel : Option Name)
    (content : Option (Emitted R)) (stdout : List (Emitted R)) (exit : Option Nat) (trace : List (Op B R))
    (h : Good env c fs0 b (⟨.readRep, finSet, fautoSet, dirSet, orig, hash, sel, content, stdout, exit, trace⟩, fs)) :
    Good env c fs0 b (step env .repaired c (⟨.readRep, finSet, fautoSet, dirSet, orig, hash, sel, content, stdout, exit, trace⟩, fs)) := by
  obtain ⟨hn, hout, hf1, hf2, hS, hFi, hacc⟩ := a
  simp only [Good] at h
  simp only [step, stepCore, raise, goto, hout, Variant.repaired]
  repeat' split
  all_goals (try (simp_all [Good, Passed, tjpNode, viewOf, tp, expectedExit, expectedStdout, midFaults, Exc.code,
      engine_auto, autoNode, emitted, isFile]; done))

set_option maxHeartbeats 2000000 in
theorem good_step_emit (env : Env B R) (c : Config B) (fs0 : FS B R) (b : B) {n : Nat} (a : Acc env c fs0 b n)
    (fs : FS B R) (finSet fautoSet dirSet : Bool) (orig : Option B) (hash : Option String) (sel : Option Name)
    (content : Option (Emitted R)) (stdout : List (Emitted R)) (exit : Option Nat) (trace : List (Op B R))
    (h : Good env c fs0 b (⟨.emit, finSet, fautoSet, dirSet, orig, hash, sel, content, stdout, exit, trace⟩, fs)) :
    Good env c fs0 b (step env .repaired c (⟨.emit, finSet, fautoSet, dirSet, orig, hash, sel, content, stdout, exit, trace⟩, fs)) := by
  obtain ⟨hn, hout, hf1, hf2, hS, hFi, hacc⟩ := a
  simp only [Good] at h
  simp only [step, stepCore, raise, goto, hout, Variant.repaired]
  repeat' split
  all_goals (try (simp_all [Good, Passed, tjpNode, viewOf, tp, expectedExit, expectedStdout, midFaults, Exc.code,
      engine_auto, autoNode, emitted, isFile]; done))

set_option maxHeartbeats 2000000 in
theorem good_step_rmOut (env : Env B R) (c : Config B) (fs0 : FS B R) (b : B) {n : Nat} (a : Acc env c fs0 b n)
    (fs : FS B R) (finSet fautoSet dirSet : Bool) (orig : Option B) (hash : Option String) (sel : Option Name)
    (content : Option (Emitted R)) (stdout : List (Emitted R)) (exit : Option Nat) (trace : List (Op B R))
    (h : Good env c fs0 b (⟨.rmOut, finSet, fautoSet, dirSet, orig, hash, sel, content, stdout, exit, trace⟩, fs)) :
    Good env c fs0 b (step env .repaired c (⟨.rmOut, finSet, fautoSet, dirSet, orig, hash, sel, content, stdout, exit, trace⟩, fs)) := by
  obtain ⟨hn, hout, hf1, hf2, hS, hFi, hacc⟩ := a
  simp only [Good] at h
  simp only [step, stepCore, raise, goto, hout, Variant.repaired]
  repeat' split
  all_goals (try (simp_all [Good, Passed, tjpNode, viewOf, tp, expectedExit, expectedStdout, midFaults, Exc.code,
      engine_auto, autoNode, emitted, isFile]; done))

set_option maxHeartbeats 2000000 in
theorem good_step_rmAuto (env : Env B R) (c : Config B) (fs0 : FS B R) (b : B) {n : Nat} (a : Acc env c fs0 b n)
    (fs : FS B R) (finSet fautoSet dirSet : Bool) (orig : Option B) (hash : Option String) (sel : Option Name)
    (content : Option (Emitted R)) (stdout : List (Emitted R)) (exit : Option Nat) (trace : List (Op B R))
    (h : Good env c fs0 b (⟨.rmAuto, finSet, fautoSet, dirSet, orig, hash, sel, content, stdout, exit, trace⟩, fs)) :
    Good env c fs0 b (step env .repaired c (⟨.rmAuto, finSet, fautoSet, dirSet, orig, hash, sel, content, stdout, exit, trace⟩, fs)) := by
  obtain ⟨hn, hout, hf1, hf2, hS, hFi, hacc⟩ := a
  simp only [Good] at h
  simp only [step, stepCore, raise, goto, hout, Variant.repaired]
  repeat' split
  all_goals (try (simp_all [Good, Passed, tjpNode, viewOf, tp, expectedExit, expectedStdout, midFaults, Exc.code,
      engine_auto, autoNode, emitted, isFile]; done))

set_option maxHeartbeats 2000000 in
theorem good_step_rmIn (env : Env B R) (c : Config B) (fs0 : FS B R) (b : B) {n : Nat} (a : Acc env c fs0 b n)
    (fs : FS B R) (finSet fautoSet dirSet : Bool) (orig : Option B) (hash : Option String) (sel : Option Name)
    (content : Option (Emitted R)) (stdout : List (Emitted R)) (exit : Option Nat) (trace : List (Op B R))
    (h : Good env c fs0 b (⟨.rmIn, finSet, fautoSet, dirSet, orig, hash, sel, content, stdout, exit, trace⟩, fs)) :
    Good env c fs0 b (step env .repaired c (⟨.rmIn, finSet, fautoSet, dirSet, orig, hash, sel, content, stdout, exit, trace⟩, fs)) := by
  obtain ⟨hn, hout, hf1, hf2, hS, hFi, hacc⟩ := a
  simp only [Good] at h
  simp only [step, stepCore, raise, goto, hout, Variant.repaired]
  repeat' split
  all_goals (try (simp_all [Good, Passed, tjpNode, viewOf, tp, expectedExit, expectedStdout, midFaults, Exc.code,
      engine_auto, autoNode, emitted, isFile]; done))

set_option maxHeartbeats 2000000 in
theorem good_step_h1 (env : Env B R) (c : Config B) (fs0 : FS B R) (b : B) {n : Nat} (a : Acc env c fs0 b n) (e : Exc)
    (fs : FS B R) (finSet fautoSet dirSet : Bool) (orig : Option B) (hash : Option String) (sel : Option Name)
    (content : Option (Emitted R)) (stdout : List (Emitted R)) (exit : Option Nat) (trace : List (Op B R))
    (h : Good env c fs0 b (⟨.h1 e, finSet, fautoSet, dirSet, orig, hash, sel, content, stdout, exit, trace⟩, fs)) :
    Good env c fs0 b (step env .repaired c (⟨.h1 e, finSet, fautoSet, dirSet, orig, hash, sel, content, stdout, exit, trace⟩, fs)) := by
  obtain ⟨hn, hout, hf1, hf2, hS, hFi, hacc⟩ := a
  simp only [Good] at h
  simp only [step, stepCore, raise, goto, hout, Variant.repaired]
  repeat' split
  all_goals (try (simp_all [Good, Passed, tjpNode, viewOf, tp, expectedExit, expectedStdout, midFaults, Exc.code,
      engine_auto, autoNode, emitted, isFile]; done))

set_option maxHeartbeats 2000000 in
theorem good_step_h2 (env : Env B R) (c : Config B) (fs0 : FS B R) (b : B) {n : Nat} (a : Acc env c fs0 b n) (e : Exc)
    (fs : FS B R) (finSet fautoSet dirSet : Bool) (orig : Option B) (hash : Option String) (sel : Option Name)
    (content : Option (Emitted R)) (stdout : List (Emitted R)) (exit : Option Nat) (trace : List (Op B R))
    (h : Good env c fs0 b (⟨.h2 e, finSet, fautoSet, dirSet, orig, hash, sel, content, stdout, exit, trace⟩, fs)) :
    Good env c fs0 b (step env .repaired c (⟨.h2 e, finSet, fautoSet, dirSet, orig, hash, sel, content, stdout, exit, trace⟩, fs)) := by
  obtain ⟨hn, hout, hf1, hf2, hS, hFi, hacc⟩ := a
  simp only [Good] at h
  simp only [step, stepCore, raise, goto, hout, Variant.repaired]
  repeat' split
  all_goals (try (simp_all [Good, Passed, tjpNode, viewOf, tp, expectedExit, expectedStdout, midFaults, Exc.code,
      engine_auto, autoNode, emitted, isFile]; done))

set_option maxHeartbeats 2000000 in
theorem good_step_h3 (env : Env B R) (c : Config B) (fs0 : FS B R) (b : B) {n : Nat} (a : Acc env c fs0 b n) (e : Exc)
    (fs : FS B R) (finSet fautoSet dirSet : Bool) (orig : Option B) (hash : Option String) (sel : Option Name)
    (content : Option (Emitted R)) (stdout : List (Emitted R)) (exit : Option Nat) (trace : List (Op B R))
    (h : Good env c fs0 b (⟨.h3 e, finSet, fautoSet, dirSet, orig, hash, sel, content, stdout, exit, trace⟩, fs)) :
    Good env c fs0 b (step env .repaired c (⟨.h3 e, finSet, fautoSet, dirSet, orig, hash, sel, content, stdout, exit, trace⟩, fs)) := by
  obtain ⟨hn, hout, hf1, hf2, hS, hFi, hacc⟩ := a
  simp only [Good] at h
  simp only [step, stepCore, raise, goto, hout, Variant.repaired]
  repeat' split
  all_goals (try (simp_all [Good, Passed, tjpNode, viewOf, tp, expectedExit, expectedStdout, midFaults, Exc.code,
      engine_auto, autoNode, emitted, isFile]; done))

set_option maxHeartbeats 2000000 in
theorem good_step_exited (env : Env B R) (c : Config B) (fs0 : FS B R) (b : B) {n : Nat} (a : Acc env c fs0 b n)
    (fs : FS B R) (finSet fautoSet dirSet : Bool) (orig : Option B) (hash : Option String) (sel : Option Name)
    (content : Option (Emitted R)) (stdout : List (Emitted R)) (exit : Option Nat) (trace : List (Op B R))
    (h : Good env c fs0 b (⟨.exited, finSet, fautoSet, dirSet, orig, hash, sel, content, stdout, exit, trace⟩, fs)) :
    Good env c fs0 b (step env .repaired c (⟨.exited, finSet, fautoSet, dirSet, orig, hash, sel, content, stdout, exit, trace⟩, fs)) := by
  obtain ⟨hn, hout, hf1, hf2, hS, hFi, hacc⟩ := a
  simp only [Good] at h
  simp only [step, stepCore, raise, goto, hout, Variant.repaired]
  repeat' split
  all_goals (try (simp_all [Good, Passed, tjpNode, viewOf, tp, expectedExit, expectedStdout, midFaults, Exc.code,
      engine_auto, autoNode, emitted, isFile]; done))

theorem good_step (env : Env B R) (c : Config B) (fs0 : FS B R) (b : B) {n : Nat} (a : Acc env c fs0 b n)
    (s : Local B R × FS B R) (h : Good env c fs0 b s) : Good env c fs0 b (step env .repaired c s) := by
  obtain ⟨⟨pc, finSet, fautoSet, dirSet, orig, hash, sel, content, stdout, exit, trace⟩, fs⟩ := s
  cases pc with
  | start => exact good_step_start env c fs0 b a _ _ _ _ _ _ _ _ _ _ _ h
  | stdinMk => exact good_step_stdinMk env c fs0 b a _ _ _ _ _ _ _ _ _ _ _ h
  | stdinWrite => exact good_step_stdinWrite env c fs0 b a _ _ _ _ _ _ _ _ _ _ _ h
  | validate => exact good_step_validate env c fs0 b a _ _ _ _ _ _ _ _ _ _ _ h
  | hash => exact good_step_hash env c fs0 b a _ _ _ _ _ _ _ _ _ _ _ h
  | mkOutDir => exact good_step_mkOutDir env c fs0 b a _ _ _ _ _ _ _ _ _ _ _ h
  | autoA => exact good_step_autoA env c fs0 b a _ _ _ _ _ _ _ _ _ _ _ h
  | autoB => exact good_step_autoB env c fs0 b a _ _ _ _ _ _ _ _ _ _ _ h
  | autoC => exact good_step_autoC env c fs0 b a _ _ _ _ _ _ _ _ _ _ _ h
  | engine => exact good_step_engine env c fs0 b a _ _ _ _ _ _ _ _ _ _ _ h
  | select => exact good_step_select env c fs0 b a _ _ _ _ _ _ _ _ _ _ _ h
  | readRep => exact good_step_readRep env c fs0 b a _ _ _ _ _ _ _ _ _ _ _ h
  | emit => exact good_step_emit env c fs0 b a _ _ _ _ _ _ _ _ _ _ _ h
  | rmOut => exact good_step_rmOut env c fs0 b a _ _ _ _ _ _ _ _ _ _ _ h
  | rmAuto => exact good_step_rmAuto env c fs0 b a _ _ _ _ _ _ _ _ _ _ _ h
  | rmIn => exact good_step_rmIn env c fs0 b a _ _ _ _ _ _ _ _ _ _ _ h
  | h1 e => exact good_step_h1 env c fs0 b a _ _ _ _ _ _ _ _ _ _ _ _ h
  | h2 e => exact good_step_h2 env c fs0 b a _ _ _ _ _ _ _ _ _ _ _ _ h
  | h3 e => exact good_step_h3 env c fs0 b a _ _ _ _ _ _ _ _ _ _ _ _ h
  | exited => exact good_step_exited env c fs0 b a _ _ _ _ _ _ _ _ _ _ _ h

theorem good_run (env : Env B R) (c : Config B) (fs0 : FS B R) (b : B) {n : Nat} (a : Acc env c fs0 b n) :
    Good env c fs0 b (run env .repaired c fs0) := by
  unfold run
  generalize fuel = k
  induction k with
  | zero => exact good_init env c fs0 b
  | succ k ih => exact good_step env c fs0 b a _ ih

theorem acc_of_accepted (env : Env B R) (c : Config B) (fs0 : FS B R) (b : B) (hwf : WellFormed c fs0)
    (hacc : accepted env c fs0 = some b) : ∃ n, Acc env c fs0 b n := by
  obtain ⟨n, hn⟩ := hwf.inp
  refine ⟨n, hn, hwf.out, fun k => hwf.fresh _ (by simp [owns]), fun f => hwf.fresh _ (by simp [owns]), ?_, ?_, hacc⟩
  · intro hch
    simp only [accepted, hch] at hacc
    cases hb : env.blank c.stdin <;> simp_all
  · intro hch
    simp only [accepted, hch, hn] at hacc
    split at hacc
    · rename_i b' hb'
      cases he : env.empty b' <;> simp_all
    · simp at hacc

/-- **The contract.**  For every environment, every input and every fault point: the exit code and
    the bytes on stdout of a solitary `plan report` run (stdout target) are the ones in the table. -/
theorem run_contract (env : Env B R) (c : Config B) (fs0 : FS B R) (hwf : WellFormed c fs0) :
    (run env .repaired c fs0).1.exit = some (expectedExit env c fs0) ∧
    (run env .repaired c fs0).1.stdout = expectedStdout env c fs0 := by
  cases hacc : accepted env c fs0 with
  | none =>
    have := run_rejected env c fs0 hwf hacc
    simp [expectedExit, expectedStdout, hacc, this]
  | some b =>
    obtain ⟨n, a⟩ := acc_of_accepted env c fs0 b hwf hacc
    have hg : Good env c fs0 b (run env .repaired c fs0) := good_run env c fs0 b a
    have hx : (run env .repaired c fs0).1.pc = .exited := run_exited env .repaired c fs0
    generalize run env .repaired c fs0 = s at hg hx
    obtain ⟨l, fs⟩ := s
    simp only at hx
    simp only [Good, hx] at hg
    exact hg

end SP.Cli
