import Model.Ledger
/-! Slot-level invariants of the ledger operations (book / reserve / release). -/
namespace SP

def usageSum : List (Nat × Rat) → Rat
  | [] => 0
  | e :: es => e.2 + usageSum es

@[simp] theorem usageSum_nil : usageSum [] = 0 := rfl
@[simp] theorem usageSum_cons (e : Nat × Rat) (es) : usageSum (e :: es) = e.2 + usageSum es := rfl

theorem usageSum_append (a b : List (Nat × Rat)) : usageSum (a ++ b) = usageSum a + usageSum b := by
  induction a with
  | nil => simp only [List.nil_append, usageSum_nil]; grind
  | cons e es ih => simp only [List.cons_append, usageSum_cons, ih]; grind

/-- the slot invariant: what C01 needs of every (resource, slot) -/
structure SlotInv (G : Int) (s : Slot) : Prop where
  used_nonneg : 0 ≤ s.used
  used_le : s.used ≤ (G : Rat)
  sum_le : usageSum s.usage ≤ s.used
  entries_nonneg : ∀ e ∈ s.usage, 0 ≤ e.2

theorem slotInv_empty (G : Int) (hG : 0 < G) : SlotInv G {} := by
  have hG' : (0 : Rat) ≤ (G : Rat) := by
    have : (0 : Int) ≤ G := Int.le_of_lt hG
    exact_mod_cast this
  exact ⟨by show (0 : Rat) ≤ 0; grind, hG', by show usageSum [] ≤ (0 : Rat); simp, by intro e he; cases he⟩

theorem availSecs_nonneg (G : Int) (s : Slot) : 0 ≤ availSecs G s := by
  unfold availSecs; grind

theorem availSecs_le (G : Int) (s : Slot) (h : s.used ≤ (G : Rat)) : s.used + availSecs G s ≤ (G : Rat) := by
  unfold availSecs; grind

theorem availSecs_le_G (G : Int) (s : Slot) (h : 0 ≤ s.used) (hG : (0 : Rat) ≤ (G : Rat)) : availSecs G s ≤ (G : Rat) := by
  unfold availSecs; grind

theorem book_inv (G : Int) (s : Slot) (t : Nat) (h : SlotInv G s) : SlotInv G (s.book G t) := by
  obtain ⟨h1, h2, h3, h4⟩ := h
  have a0 := availSecs_nonneg G s
  have a1 := availSecs_le G s h2
  refine ⟨?_, ?_, ?_, ?_⟩
  · simp only [Slot.book]; grind
  · simp only [Slot.book]; exact a1
  · simp only [Slot.book, usageSum_append, usageSum_cons, usageSum_nil]; grind
  · intro e he
    simp only [Slot.book, List.mem_append, List.mem_singleton] at he
    rcases he with he | he
    · exact h4 e he
    · rw [he]; exact a0

theorem reserve_inv (G : Int) (s : Slot) (off : Rat) (h0 : 0 ≤ off) (h1 : off ≤ (G : Rat)) (h : SlotInv G s) :
    SlotInv G (s.reserve off) := by
  obtain ⟨a, b, c, d⟩ := h
  unfold Slot.reserve
  split
  · exact ⟨h0, h1, by simp only []; grind, d⟩
  · exact ⟨a, b, c, d⟩

theorem usageOf_mem {u : List (Nat × Rat)} {t : Nat} {b : Rat} (h : usageOf u t = some b) : (t, b) ∈ u := by
  induction u with
  | nil => simp [usageOf] at h
  | cons e es ih =>
    unfold usageOf at h
    simp only [List.find?_cons] at h
    by_cases he : e.1 == t
    · simp only [he, Option.map_some, Option.some.injEq] at h
      have : e = (t, b) := by
        have h1 : e.1 = t := by simpa using he
        cases e; simp_all
      rw [this]; exact List.mem_cons_self
    · simp only [he] at h
      exact List.mem_cons_of_mem _ (ih (by unfold usageOf; simpa using h))

theorem usageSum_setUsage {u : List (Nat × Rat)} {t : Nat} {b : Rat} (v : Rat) (h : usageOf u t = some b) :
    usageSum (setUsage u t v) = usageSum u - b + v := by
  induction u with
  | nil => simp [usageOf] at h
  | cons e es ih =>
    unfold usageOf at h
    simp only [List.find?_cons] at h
    by_cases he : e.1 == t
    · simp only [he, Option.map_some, Option.some.injEq] at h
      simp only [setUsage, he, if_true, usageSum_cons]
      grind
    · simp only [he] at h
      have ih' := ih (by unfold usageOf; simpa using h)
      simp only [setUsage, he, usageSum_cons]
      simp only [Bool.false_eq_true, if_false, usageSum_cons, ih']
      grind

theorem mem_setUsage {u : List (Nat × Rat)} {t : Nat} {v : Rat} {x : Nat × Rat} (h : x ∈ setUsage u t v) :
    x ∈ u ∨ x = (t, v) := by
  induction u with
  | nil => simp [setUsage] at h
  | cons e es ih =>
    simp only [setUsage] at h
    by_cases he : e.1 == t
    · simp only [he, if_true, List.mem_cons] at h
      rcases h with h | h
      · exact Or.inr h
      · exact Or.inl (List.mem_cons_of_mem _ h)
    · simp only [he, Bool.false_eq_true, if_false, List.mem_cons] at h
      rcases h with h | h
      · exact Or.inl (by rw [h]; exact List.mem_cons_self)
      · rcases ih h with h' | h'
        · exact Or.inl (List.mem_cons_of_mem _ h')
        · exact Or.inr h'

theorem release_inv (G : Int) (s : Slot) (t : Nat) (actual : Rat) (h0 : 0 ≤ actual) (h : SlotInv G s) :
    SlotInv G (s.release t actual) := by
  obtain ⟨a, b, c, d⟩ := h
  unfold Slot.release
  cases hu : usageOf s.usage t with
  | none => exact ⟨a, b, c, d⟩
  | some booked =>
    simp only []
    split
    · rename_i hpos
      have hs := usageSum_setUsage actual hu
      have hent : ∀ e ∈ setUsage s.usage t actual, 0 ≤ e.2 := by
        intro e he
        rcases mem_setUsage he with h' | h'
        · exact d e h'
        · rw [h']; exact h0
      have hsumnn : ∀ (l : List (Nat × Rat)), (∀ e ∈ l, 0 ≤ e.2) → 0 ≤ usageSum l := by
        intro l hl
        induction l with
        | nil => simp
        | cons x xs ih =>
          have := hl x List.mem_cons_self
          have := ih (fun e he => hl e (List.mem_cons_of_mem _ he))
          simp only [usageSum_cons]; grind
      have hnn := hsumnn _ hent
      refine ⟨?_, ?_, ?_, hent⟩
      · simp only []; grind
      · simp only []; grind
      · simp only []; grind
    · exact ⟨a, b, c, d⟩

/-- booked portions can be laid out inside the slot without overlapping: with
    `start k = Σ first k entries`, `end k = start k + entry k`, consecutive portions do not overlap and
    the last one ends at or before `used ≤ G` -/
theorem layout_disjoint (G : Int) (s : Slot) (h : SlotInv G s) (i j : Nat) (hij : i < j) (hj : j ≤ s.usage.length) :
    0 ≤ usageSum (s.usage.take i) ∧
    usageSum (s.usage.take (i + 1)) ≤ usageSum (s.usage.take j) ∧
    usageSum (s.usage.take j) ≤ (G : Rat) := by
  obtain ⟨a, b, c, d⟩ := h
  have mono : ∀ (l : List (Nat × Rat)), (∀ e ∈ l, 0 ≤ e.2) → ∀ m n, m ≤ n → usageSum (l.take m) ≤ usageSum (l.take n) ∧ 0 ≤ usageSum (l.take m) ∧ usageSum (l.take n) ≤ usageSum l := by
    intro l
    induction l with
    | nil => intro _ m n _; simp
    | cons x xs ih =>
      intro hl m n hmn
      have hx := hl x List.mem_cons_self
      have hxs : ∀ e ∈ xs, 0 ≤ e.2 := fun e he => hl e (List.mem_cons_of_mem _ he)
      cases m with
      | zero =>
        cases n with
        | zero => simp; have := (ih hxs 0 0 (Nat.le_refl _)).2.2; simp at this; grind
        | succ n =>
          have := ih hxs 0 n (Nat.zero_le _)
          simp only [List.take_zero, usageSum_nil, List.take_succ_cons, usageSum_cons] at *
          grind
      | succ m =>
        cases n with
        | zero => omega
        | succ n =>
          have := ih hxs m n (by omega)
          simp only [List.take_succ_cons, usageSum_cons] at *
          grind
  have m1 := mono s.usage d (i + 1) j (by omega)
  have m0 := mono s.usage d i (i + 1) (by omega)
  refine ⟨m0.2.1, m1.1, ?_⟩
  have := m1.2.2
  grind

end SP
