import Proofs.Frame
/-!
The per-task effort theorem lifted to the pick loop and to whole scenarios: every eligible task that ends up
`done` holds exactly its effort in the final ledger.
-/
namespace SP

/-- an effort task (no milestone) whose allocation always selects the single resource `r` -/
structure Elig (e : Env) (t r : Nat) : Prop where
  leaf : (e.taskD t).leaf = true
  alloc : (e.taskD t).hasAlloc = true
  nomile : (e.taskD t).milestone = false
  effort : 0 < (e.taskD t).effort
  sel : ∀ σ c, selectBest e σ (e.taskD t).alloc (e.taskD t).alt (e.taskD t).effort c = [r]

/-- what holds of every eligible task that is `done` -/
def DoneExact (e : Env) (σ : St) : Prop :=
  ∀ t r, Elig e t r → (σ.tst t).done = true → ∃ vis, Exact e σ t r vis

structure PickInv (e : Env) (σ : St) (tasks : List Nat) : Prop where
  inv : Inv e σ
  nodup : tasks.Nodup
  leaf : ∀ t ∈ tasks, (e.taskD t).leaf = true
  pending : ∀ t ∈ tasks, (σ.tst t).done = false ∧ ∀ r i, usageOf (σ.led.get r i).usage t = none
  exact : DoneExact e σ

theorem DoneExact.of_eq {e : Env} {σ σ' : St} (hl : σ'.led = σ.led) (ht : ∀ t, (σ'.tst t).done = (σ.tst t).done)
    (h : DoneExact e σ) : DoneExact e σ' := by
  intro t r hel hd
  rw [ht] at hd
  obtain ⟨vis, hv⟩ := h t r hel hd
  exact ⟨vis, Exact.of_led hl hv⟩

/-- one round of the pick loop keeps the invariant -/
theorem pickInv_step (e : Env) (wf : WF e) (σ : St) (tasks : List Nat) (t0 : Nat) (h : PickInv e σ tasks)
    (hmem : t0 ∈ tasks) : PickInv e (updateContainers e (scheduleTask e σ t0).1) (tasks.erase t0) := by
  have hlf0 := h.leaf t0 hmem
  have hinv1 := scheduleTask_inv e σ t0 wf h.inv hlf0
  refine ⟨updateContainers_inv e _ hinv1, h.nodup.erase t0, fun t ht => h.leaf t (List.mem_of_mem_erase ht), ?_, ?_⟩
  · intro t ht
    have htm : t ∈ tasks := List.mem_of_mem_erase ht
    have hne : t ≠ t0 := fun heq => by
      rw [heq] at ht; exact (List.Nodup.not_mem_erase h.nodup) ht
    obtain ⟨hd, hc⟩ := h.pending t htm
    refine ⟨?_, ?_⟩
    · rw [updateContainers_leaf e _ t (h.leaf t htm), scheduleTask_other e σ t0 t hne]; exact hd
    · intro r i
      rw [updateContainers_led, scheduleTask_same e σ t0 t (Ne.symm hne) r i]
      exact hc r i
  · intro t r hel hd
    rw [updateContainers_leaf e _ t hel.leaf] at hd
    by_cases heq : t = t0
    · subst heq
      obtain ⟨hnd, hclean⟩ := h.pending t hmem
      have hok := scheduleTask_done e σ t hnd hd
      obtain ⟨vis, hv⟩ := scheduleTask_exact e wf σ t r h.inv hel.leaf hel.alloc hel.nomile hel.effort hel.sel hnd
        (hclean r) hok
      exact ⟨vis, Exact.of_led (updateContainers_led e _) hv⟩
    · rw [scheduleTask_other e σ t0 t heq] at hd
      obtain ⟨vis, hv⟩ := h.exact t r hel hd
      exact ⟨vis, Exact.of_led (updateContainers_led e _) (Exact.of_same (scheduleTask_same e σ t0 t (Ne.symm heq)) hv)⟩

/-- the pick loop: every eligible task that is `done` at the end holds exactly its effort -/
theorem pickLoop_doneExact (e : Env) (wf : WF e) (fuel : Nat) (tasks failed : List Nat) (σ : St)
    (h : PickInv e σ tasks) : DoneExact e (pickLoop e fuel tasks failed σ).1 := by
  induction fuel generalizing tasks failed σ with
  | zero => exact h.exact
  | succ f ih =>
    unfold pickLoop
    split
    · exact h.exact
    · split
      · rename_i t0 hfind
        have hmem : t0 ∈ tasks := List.mem_of_find?_eq_some hfind
        exact ih _ _ _ (pickInv_step e wf σ tasks t0 h hmem)
      · split
        · exact DoneExact.of_eq (σ := σ) rfl (fun _ => rfl) h.exact
        · exact h.exact

end SP

namespace SP

/-! ### before the loop: nothing is done, nothing is booked -/

def DoneFalse (σ : St) : Prop := ∀ t, (σ.tst t).done = false

theorem doneFalse_init (e : Env) : DoneFalse (initState e) := by
  intro t
  unfold initState St.tst
  simp only [Array.getD_eq_getD_getElem?, Array.getElem?_map]
  cases e.tasks[t]? <;> rfl

theorem doneFalse_setT (σ : St) (t : Nat) (x : TSt) (h : DoneFalse σ) (hx : x.done = false) : DoneFalse (σ.setT t x) := by
  intro t'
  rw [tst_setT]
  split
  · exact hx
  · exact h t'

theorem foldl_setT_doneFalse (f : St → Nat → TSt) (l : List Nat) (σ : St) (h : DoneFalse σ)
    (hf : ∀ acc t, DoneFalse acc → (f acc t).done = false) :
    DoneFalse (l.foldl (fun (acc : St) t => acc.setT t (f acc t)) σ) := by
  induction l generalizing σ with
  | nil => exact h
  | cons x xs ih =>
    simp only [List.foldl_cons]
    exact ih _ (doneFalse_setT σ x _ h (hf σ x h))

theorem projAlapT_done (e : Env) (σ : St) (t : Nat) : (projAlapT e σ t).done = (σ.tst t).done := by
  unfold projAlapT; simp only []; split <;> rfl

theorem containerEndT_done (e : Env) (σ0 acc : St) (t : Nat) : (containerEndT e σ0 acc t).done = (acc.tst t).done := by
  unfold containerEndT; simp only []
  repeat' split
  all_goals rfl

theorem prepassT_done (e : Env) (σ : St) (t : Nat) : (prepassT e σ t).done = (σ.tst t).done := by
  unfold prepassT; simp only []
  repeat' split
  all_goals rfl

theorem rollupT_done (e : Env) (σ : St) (t : Nat) : (rollupT e σ t).done = (σ.tst t).done := by
  unfold rollupT; simp only []
  repeat' split
  all_goals rfl

theorem prepare_doneFalse (e : Env) (σ : St) (h : DoneFalse σ) : DoneFalse (prepare e σ) := by
  unfold prepare propagateContainerEnds
  apply foldl_setT_doneFalse
  · apply foldl_setT_doneFalse _ _ _ h
    intro acc t hacc
    rw [projAlapT_done]; exact hacc t
  · intro acc t hacc
    rw [containerEndT_done]; exact hacc t

theorem prepare_led (e : Env) (σ : St) : (prepare e σ).led = σ.led := by
  unfold prepare propagateContainerEnds
  rw [foldl_setT_led, foldl_setT_led]

theorem milestonePrepass_doneFalse (e : Env) (σ : St) (h : DoneFalse σ) : DoneFalse (milestonePrepass e σ) := by
  unfold milestonePrepass
  apply foldl_setT_doneFalse _ _ _ h
  intro acc t hacc
  rw [prepassT_done]; exact hacc t

theorem milestonePrepass_led (e : Env) (σ : St) : (milestonePrepass e σ).led = σ.led := by
  unfold milestonePrepass; exact foldl_setT_led _ _ σ

theorem markAlap_doneFalse (e : Env) (fuel : Nat) (stack processed : List Nat) (σ : St) (h : DoneFalse σ) :
    DoneFalse (markAlap e fuel stack processed σ).1 := by
  induction fuel generalizing stack processed σ with
  | zero => unfold markAlap; exact h
  | succ f ih =>
    cases stack with
    | nil => unfold markAlap; exact h
    | cons t stack =>
      unfold markAlap
      simp only []
      split
      · exact ih _ _ _ h
      · split
        · exact ih _ _ _ h
        · split
          · exact ih _ _ _ h
          · exact ih _ _ _ (doneFalse_setT σ t _ h (h t))

theorem markAlap_led (e : Env) (fuel : Nat) (stack processed : List Nat) (σ : St) :
    (markAlap e fuel stack processed σ).1.led = σ.led := by
  induction fuel generalizing stack processed σ with
  | zero => unfold markAlap; rfl
  | succ f ih =>
    cases stack with
    | nil => unfold markAlap; rfl
    | cons t stack =>
      unfold markAlap
      simp only []
      split
      · exact ih _ _ _
      · split
        · exact ih _ _ _
        · split
          · exact ih _ _ _
          · rw [ih]; rfl

theorem propagateAlap_doneFalse (e : Env) (σ : St) (h : DoneFalse σ) : DoneFalse (propagateAlap e σ) := by
  unfold propagateAlap
  simp only []
  have : ∀ (l : List Nat) (acc : St × List Nat), DoneFalse acc.1 →
      DoneFalse (l.foldl (fun (acc : St × List Nat) a =>
        markAlap e (e.tasks.size * e.tasks.size + e.tasks.size + 1)
          (((e.taskD a).deps.map (·.target)).filter (fun p => !(if acc.2.contains a then acc.2 else a :: acc.2).contains p))
          (if acc.2.contains a then acc.2 else a :: acc.2) acc.1) acc).1 := by
    intro l
    induction l with
    | nil => intro acc hacc; exact hacc
    | cons x xs ih =>
      intro acc hacc
      simp only [List.foldl_cons]
      exact ih _ (markAlap_doneFalse e _ _ _ _ hacc)
  exact this _ (σ, []) h

theorem propagateAlap_led (e : Env) (σ : St) : (propagateAlap e σ).led = σ.led := by
  unfold propagateAlap
  simp only []
  have : ∀ (l : List Nat) (acc : St × List Nat),
      (l.foldl (fun (acc : St × List Nat) a =>
        markAlap e (e.tasks.size * e.tasks.size + e.tasks.size + 1)
          (((e.taskD a).deps.map (·.target)).filter (fun p => !(if acc.2.contains a then acc.2 else a :: acc.2).contains p))
          (if acc.2.contains a then acc.2 else a :: acc.2) acc.1) acc).1.led = acc.1.led := by
    intro l
    induction l with
    | nil => intro acc; rfl
    | cons x xs ih =>
      intro acc
      simp only [List.foldl_cons]
      rw [ih, markAlap_led]
  exact this _ (σ, [])

theorem updateContainers_doneFalse (e : Env) (σ : St) (h : DoneFalse σ) : DoneFalse (updateContainers e σ) := by
  unfold updateContainers
  apply foldl_setT_doneFalse _ _ _ h
  intro acc t hacc
  rw [rollupT_done]; exact hacc t

theorem preLoop_doneFalse (e : Env) (σ : St) (h : DoneFalse σ) : DoneFalse (preLoop e σ) := by
  unfold preLoop
  exact updateContainers_doneFalse e _ (propagateAlap_doneFalse e _ (milestonePrepass_doneFalse e σ h))

theorem preLoop_led (e : Env) (σ : St) : (preLoop e σ).led = σ.led := by
  unfold preLoop
  rw [updateContainers_led, propagateAlap_led, milestonePrepass_led]

end SP

namespace SP

theorem todoOf_nodup (e : Env) (σ : St) : (todoOf e σ).Nodup := by
  unfold todoOf
  exact ((List.mergeSort_perm _ _).nodup_iff).mpr (List.Nodup.sublist List.filter_sublist List.nodup_range)

/-- a whole scenario, started with an empty ledger and no task done -/
theorem scheduleScenario_doneExact (e : Env) (wf : WF e) (σ : St) (hinv : Inv e σ) (hd : DoneFalse σ)
    (hempty : ∀ r i, (σ.led.get r i).usage = []) : DoneExact e (scheduleScenario e σ) := by
  unfold scheduleScenario
  simp only []
  have h2 : PickInv e (preLoop e σ) (todoOf e (preLoop e σ)) := by
    refine ⟨preLoop_inv e σ hinv, todoOf_nodup e _, todoOf_leaf e _, ?_, ?_⟩
    · intro t _
      refine ⟨preLoop_doneFalse e σ hd t, fun r i => ?_⟩
      rw [preLoop_led, hempty r i]; rfl
    · intro t r _ hdone
      rw [preLoop_doneFalse e σ hd t] at hdone
      exact Bool.noConfusion hdone
  have h3 := pickLoop_doneExact e wf ((todoOf e (preLoop e σ)).length + 1) (todoOf e (preLoop e σ)) [] (preLoop e σ) h2
  split
  · exact h3
  · exact DoneExact.of_eq (σ := (pickLoop e ((todoOf e (preLoop e σ)).length + 1) (todoOf e (preLoop e σ)) [] (preLoop e σ)).1)
      rfl (fun _ => rfl) h3

theorem scheduleContainer_leafT (e : Env) (σ : St) (x t : Nat) (hx : (e.taskD x).leaf = false) (ht : (e.taskD t).leaf = true) :
    (scheduleContainer e σ x).tst t = σ.tst t := by
  unfold scheduleContainer
  rw [tst_setT]
  split
  · rename_i h; rw [h.1] at hx; rw [hx] at ht; exact Bool.noConfusion ht
  · rfl

theorem finishScenario_led (e : Env) (σ : St) : (finishScenario e σ).led = σ.led := by
  unfold finishScenario
  have : ∀ (l : List Nat) (acc : St),
      (l.foldl (fun acc t => if (e.taskD t).leaf then acc else scheduleContainer e acc t) acc).led = acc.led := by
    intro l
    induction l with
    | nil => intro acc; rfl
    | cons x xs ih =>
      intro acc
      simp only [List.foldl_cons]
      rw [ih]
      split
      · rfl
      · rfl
  exact this _ σ

theorem finishScenario_leafT (e : Env) (σ : St) (t : Nat) (ht : (e.taskD t).leaf = true) :
    (finishScenario e σ).tst t = σ.tst t := by
  unfold finishScenario
  have : ∀ (l : List Nat) (acc : St),
      (l.foldl (fun acc t => if (e.taskD t).leaf then acc else scheduleContainer e acc t) acc).tst t = acc.tst t := by
    intro l
    induction l with
    | nil => intro acc; rfl
    | cons x xs ih =>
      intro acc
      simp only [List.foldl_cons]
      rw [ih]
      split
      · rfl
      · rename_i hx
        exact scheduleContainer_leafT e acc x t (by simpa using hx) ht
  exact this _ σ

/-- **C03, end to end.**  After scheduling any well-formed project, every effort task whose allocation selects a
    single resource `r` and that the scheduler completed (`done`) holds, in the final ledger, entries on `r` whose
    seconds weighted by `r`'s efficiency add up to exactly the requested effort; and it has no entry on `r` outside
    those slots. -/
theorem runScenario_effort_exact (e : Env) (wf : WF e) (t r : Nat) (hel : Elig e t r)
    (hdone : ((runScenario e).tst t).done = true) : ∃ vis, Exact e (runScenario e) t r vis := by
  unfold runScenario at hdone ⊢
  rw [finishScenario_leafT e _ t hel.leaf] at hdone
  have hprep : Inv e (prepare e (initState e)) := prepare_inv e _ (inv_init e wf)
  have hd : DoneFalse (prepare e (initState e)) := prepare_doneFalse e _ (doneFalse_init e)
  have hempty : ∀ r i, ((prepare e (initState e)).led.get r i).usage = [] := by
    intro r i; rw [prepare_led]; simp [initState, Ledger.get_empty]
  obtain ⟨vis, hv⟩ := scheduleScenario_doneExact e wf _ hprep hd hempty t r hel hdone
  exact ⟨vis, Exact.of_led (finishScenario_led e _) hv⟩

end SP

namespace SP

/-! ### `scheduled` and `done` coincide for effort leaves -/

/-- a leaf task with effort that is no milestone -/
def EffLeaf (e : Env) (t : Nat) : Prop :=
  (e.taskD t).leaf = true ∧ 0 < (e.taskD t).effort ∧ (e.taskD t).milestone = false

def SchedDone (e : Env) (σ : St) : Prop :=
  ∀ t, EffLeaf e t → (σ.tst t).scheduled = true → (σ.tst t).done = true

theorem scheduleTask_schedDone (e : Env) (σ : St) (t0 : Nat) (h : SchedDone e σ) : SchedDone e (scheduleTask e σ t0).1 := by
  intro t hel hs
  by_cases heq : t = t0
  · subst heq
    unfold scheduleTask at hs ⊢
    simp only [] at hs ⊢
    by_cases hdn : (σ.tst t).done = true
    · simp only [hdn, if_true] at hs ⊢
    · have hdn' : (σ.tst t).done = false := by simpa using hdn
      simp only [hdn', Bool.false_eq_true, if_false] at hs ⊢
      have h0 := TsFrame.setT σ t (preStartT e σ t (initCursor e σ t).1) (preStartT_done e σ t _) (preStartT_scheduled e σ t _) (preStartT_forward e σ t _)
      have hns : (σ.tst t).scheduled = false := by
        cases hsc : (σ.tst t).scheduled with
        | false => rfl
        | true => have := h t hel hsc; rw [hdn'] at this; exact Bool.noConfusion this
      by_cases hout : (preStartCursor e σ t (initCursor e σ t).1 < 0 || preStartCursor e σ t (initCursor e σ t).1 > e.upper) = true
      · exfalso
        simp only [hout, if_true] at hs
        rw [tst_setT] at hs
        split at hs
        · simp only [] at hs; rw [h0.2.2.1, hns] at hs; exact Bool.noConfusion hs
        · rw [h0.2.2.1, hns] at hs; exact Bool.noConfusion hs
      · simp only [hout, Bool.false_eq_true, if_false] at hs ⊢
        have h1 := walkLoop_frame e t (σ.tst t).forward (e.size.toNat + 3) (σ.setT t (preStartT e σ t (initCursor e σ t).1))
          { cur := preStartCursor e σ t (initCursor e σ t).1, offset := (initCursor e σ t).2 }
        have h01 := (h0.trans h1)
        by_cases hfin : (walkLoop e t (σ.tst t).forward (e.size.toNat + 3) (σ.setT t (preStartT e σ t (initCursor e σ t).1))
          { cur := preStartCursor e σ t (initCursor e σ t).1, offset := (initCursor e σ t).2 }).2.2 = true
        · simp only [hfin, Bool.not_true, Bool.false_eq_true, if_false] at hs ⊢
          rw [tst_setT] at hs ⊢
          by_cases hb : t < (walkLoop e t (σ.tst t).forward (e.size.toNat + 3) (σ.setT t (preStartT e σ t (initCursor e σ t).1))
              { cur := preStartCursor e σ t (initCursor e σ t).1, offset := (initCursor e σ t).2 }).1.ts.size
          · simp only [hb, and_self, if_true]
            unfold finalT; simp only []
          · exfalso
            simp only [hb, and_false, if_false] at hs
            rw [h01.2.2.1, hns] at hs; exact Bool.noConfusion hs
        · exfalso
          have hfin' : (walkLoop e t (σ.tst t).forward (e.size.toNat + 3) (σ.setT t (preStartT e σ t (initCursor e σ t).1))
            { cur := preStartCursor e σ t (initCursor e σ t).1, offset := (initCursor e σ t).2 }).2.2 = false := by simpa using hfin
          simp only [hfin', Bool.not_false, if_true] at hs
          rw [tst_setT] at hs
          split at hs
          · simp only [] at hs; rw [h01.2.2.1, hns] at hs; exact Bool.noConfusion hs
          · rw [h01.2.2.1, hns] at hs; exact Bool.noConfusion hs
  · rw [scheduleTask_other e σ t0 t heq] at hs ⊢
    exact h t hel hs

end SP

namespace SP

theorem updateContainers_schedDone (e : Env) (σ : St) (h : SchedDone e σ) : SchedDone e (updateContainers e σ) := by
  intro t hel hs
  rw [updateContainers_leaf e σ t hel.1] at hs ⊢
  exact h t hel hs

theorem pickLoop_schedDone (e : Env) (fuel : Nat) (tasks failed : List Nat) (σ : St) (h : SchedDone e σ) :
    SchedDone e (pickLoop e fuel tasks failed σ).1 := by
  induction fuel generalizing tasks failed σ with
  | zero => exact h
  | succ f ih =>
    unfold pickLoop
    split
    · exact h
    · split
      · exact ih _ _ _ (updateContainers_schedDone e _ (scheduleTask_schedDone e σ _ h))
      · split
        · exact h
        · exact h

/-- before the loop no effort leaf is marked scheduled -/
def UnschedEff (e : Env) (σ : St) : Prop := ∀ t, EffLeaf e t → (σ.tst t).scheduled = false

theorem unschedEff_init (e : Env) : UnschedEff e (initState e) := by
  intro t _
  unfold initState St.tst
  simp only [Array.getD_eq_getD_getElem?, Array.getElem?_map]
  cases e.tasks[t]? <;> rfl

theorem unschedEff_setT (e : Env) (σ : St) (x : Nat) (v : TSt) (h : UnschedEff e σ)
    (hv : EffLeaf e x → v.scheduled = false) : UnschedEff e (σ.setT x v) := by
  intro t hel
  rw [tst_setT]
  split
  · rename_i hx; exact hv (hx.1 ▸ hel)
  · exact h t hel

theorem foldl_setT_unschedEff (e : Env) (f : St → Nat → TSt) (l : List Nat) (σ : St) (h : UnschedEff e σ)
    (hf : ∀ acc t, UnschedEff e acc → EffLeaf e t → (f acc t).scheduled = false) :
    UnschedEff e (l.foldl (fun (acc : St) t => acc.setT t (f acc t)) σ) := by
  induction l generalizing σ with
  | nil => exact h
  | cons x xs ih =>
    simp only [List.foldl_cons]
    exact ih _ (unschedEff_setT e σ x _ h (hf σ x h))

theorem projAlapT_scheduled (e : Env) (σ : St) (t : Nat) : (projAlapT e σ t).scheduled = (σ.tst t).scheduled := by
  unfold projAlapT; simp only []; split <;> rfl

theorem containerEndT_scheduled (e : Env) (σ0 acc : St) (t : Nat) :
    (containerEndT e σ0 acc t).scheduled = (acc.tst t).scheduled := by
  unfold containerEndT; simp only []
  repeat' split
  all_goals rfl

theorem prepassT_effLeaf (e : Env) (σ : St) (t : Nat) (hel : EffLeaf e t) : prepassT e σ t = σ.tst t := by
  unfold prepassT
  have hz : ((e.taskD t).effort == 0) = false := by
    simp only [beq_eq_false_iff_ne, ne_eq]; have := hel.2.1; grind
  simp only [hel.1, hel.2.2, hz, Bool.not_true, Bool.false_eq_true, if_false, Bool.and_false, Bool.or_self]

theorem rollupT_leaf (e : Env) (σ : St) (t : Nat) (hlf : (e.taskD t).leaf = true) : rollupT e σ t = σ.tst t := by
  unfold rollupT; simp [hlf]

theorem prepare_unschedEff (e : Env) (σ : St) (h : UnschedEff e σ) : UnschedEff e (prepare e σ) := by
  unfold prepare propagateContainerEnds
  apply foldl_setT_unschedEff
  · apply foldl_setT_unschedEff e _ _ _ h
    intro acc t hacc hel
    rw [projAlapT_scheduled]; exact hacc t hel
  · intro acc t hacc hel
    rw [containerEndT_scheduled]; exact hacc t hel

theorem markAlap_unschedEff (e : Env) (fuel : Nat) (stack processed : List Nat) (σ : St) (h : UnschedEff e σ) :
    UnschedEff e (markAlap e fuel stack processed σ).1 := by
  induction fuel generalizing stack processed σ with
  | zero => unfold markAlap; exact h
  | succ f ih =>
    cases stack with
    | nil => unfold markAlap; exact h
    | cons t stack =>
      unfold markAlap
      simp only []
      split
      · exact ih _ _ _ h
      · split
        · exact ih _ _ _ h
        · split
          · exact ih _ _ _ h
          · exact ih _ _ _ (unschedEff_setT e σ t _ h (fun hel => h t hel))

theorem propagateAlap_unschedEff (e : Env) (σ : St) (h : UnschedEff e σ) : UnschedEff e (propagateAlap e σ) := by
  unfold propagateAlap
  simp only []
  have : ∀ (l : List Nat) (acc : St × List Nat), UnschedEff e acc.1 →
      UnschedEff e (l.foldl (fun (acc : St × List Nat) a =>
        markAlap e (e.tasks.size * e.tasks.size + e.tasks.size + 1)
          (((e.taskD a).deps.map (·.target)).filter (fun p => !(if acc.2.contains a then acc.2 else a :: acc.2).contains p))
          (if acc.2.contains a then acc.2 else a :: acc.2) acc.1) acc).1 := by
    intro l
    induction l with
    | nil => intro acc hacc; exact hacc
    | cons x xs ih =>
      intro acc hacc
      simp only [List.foldl_cons]
      exact ih _ (markAlap_unschedEff e _ _ _ _ hacc)
  exact this _ (σ, []) h

theorem preLoop_unschedEff (e : Env) (σ : St) (h : UnschedEff e σ) : UnschedEff e (preLoop e σ) := by
  unfold preLoop
  have h1 : UnschedEff e (milestonePrepass e σ) := by
    unfold milestonePrepass
    apply foldl_setT_unschedEff e _ _ _ h
    intro acc t hacc hel
    rw [prepassT_effLeaf e acc t hel]; exact hacc t hel
  have h2 := propagateAlap_unschedEff e _ h1
  unfold updateContainers
  apply foldl_setT_unschedEff e _ _ _ h2
  intro acc t hacc hel
  rw [rollupT_leaf e acc t hel.1]; exact hacc t hel

/-- **reported as scheduled ⇒ completed by `scheduleTask`**, for every effort leaf of every project -/
theorem runScenario_scheduled_done (e : Env) (t : Nat) (hel : EffLeaf e t)
    (hs : ((runScenario e).tst t).scheduled = true) : ((runScenario e).tst t).done = true := by
  unfold runScenario at hs ⊢
  rw [finishScenario_leafT e _ t hel.1] at hs ⊢
  have h0 : UnschedEff e (preLoop e (prepare e (initState e))) :=
    preLoop_unschedEff e _ (prepare_unschedEff e _ (unschedEff_init e))
  have h1 : SchedDone e (preLoop e (prepare e (initState e))) := by
    intro t' hel' hs'
    rw [h0 t' hel'] at hs'; exact Bool.noConfusion hs'
  have h2 := pickLoop_schedDone e ((todoOf e (preLoop e (prepare e (initState e)))).length + 1)
    (todoOf e (preLoop e (prepare e (initState e)))) [] _ h1
  unfold scheduleScenario at hs ⊢
  simp only [] at hs ⊢
  split at hs <;> (split <;> exact h2 t hel hs)

end SP
