import Model.Macro
/-! Lemmas about the macro preprocessor model. -/
namespace SP.Macro

/-! ### strip_shell_comments -/

/-- scanning the output again, the scanner is in the same state at corresponding positions -/
theorem stripGo_idem (l : List Char) :
    stripGo .normal (stripGo .normal l) = stripGo .normal l ∧
    (∀ q, stripGo (.str q) (stripGo (.str q) l) = stripGo (.str q) l) ∧
    stripGo .normal (stripGo .comment l) = stripGo .comment l := by
  induction l with
  | nil => simp [stripGo]
  | cons c cs ih =>
    obtain ⟨ihn, ihs, ihc⟩ := ih
    refine ⟨?_, ?_, ?_⟩
    · simp only [stripGo]
      by_cases h1 : c = '"' ∨ c = '\''
      · simp only [h1, if_true, stripGo, ihs]
      · by_cases h2 : c = '#'
        · simp only [h2, if_true]
          simpa [h2] using ihc
        · simp only [h1, h2, if_false, stripGo, ihn]
    · intro q
      simp only [stripGo]
      by_cases h : c = q
      · simp only [h, if_true, stripGo, ihn]
      · simp only [h, if_false, stripGo, ihs]
    · simp only [stripGo]
      by_cases h : c = '\n'
      · subst h
        simp only [if_true, stripGo]
        have h1 : ¬ ('\n' = '"' ∨ '\n' = '\'') := by decide
        have h2 : ¬ ('\n' = '#') := by decide
        simp only [h1, h2, if_false, ihn]
      · simp only [h, if_false, ihc]

/-! ### bracket / brace scanning -/

theorem scanClose_append (o c : Char) (d : Nat) (t y inner rest : List Char)
    (h : scanClose o c d t = some (inner, rest)) : scanClose o c d (t ++ y) = some (inner, rest ++ y) := by
  induction t generalizing d inner rest with
  | nil => simp [scanClose] at h
  | cons x xs ih =>
    simp only [scanClose, List.cons_append] at h ⊢
    by_cases h1 : x = o
    · simp only [h1, if_true, Option.map_eq_some_iff] at h ⊢
      obtain ⟨p, hp, he⟩ := h
      refine ⟨(p.1, p.2 ++ y), ih (d + 1) p.1 p.2 hp, ?_⟩
      cases he; rfl
    · simp only [h1, if_false] at h ⊢
      by_cases h2 : x = c
      · simp only [h2, if_true] at h ⊢
        by_cases h3 : d ≤ 1
        · simp only [h3, if_true, Option.some.injEq, Prod.mk.injEq] at h ⊢
          obtain ⟨rfl, rfl⟩ := h
          exact ⟨rfl, rfl⟩
        · simp only [h3, if_false, Option.map_eq_some_iff] at h ⊢
          obtain ⟨p, hp, he⟩ := h
          refine ⟨(p.1, p.2 ++ y), ih (d - 1) p.1 p.2 hp, ?_⟩
          cases he; rfl
      · simp only [h2, if_false, Option.map_eq_some_iff] at h ⊢
        obtain ⟨p, hp, he⟩ := h
        refine ⟨(p.1, p.2 ++ y), ih d p.1 p.2 hp, ?_⟩
        cases he; rfl

/-- what was scanned: `t = inner ++ close :: rest` -/
theorem scanClose_split (o c : Char) (d : Nat) (t inner rest : List Char)
    (h : scanClose o c d t = some (inner, rest)) : t = inner ++ c :: rest := by
  induction t generalizing d inner rest with
  | nil => simp [scanClose] at h
  | cons x xs ih =>
    simp only [scanClose] at h
    by_cases h1 : x = o
    · simp only [h1, if_true, Option.map_eq_some_iff] at h
      obtain ⟨p, hp, he⟩ := h
      cases he
      rw [ih (d + 1) p.1 p.2 hp, h1]; rfl
    · simp only [h1, if_false] at h
      by_cases h2 : x = c
      · simp only [h2, if_true] at h
        by_cases h3 : d ≤ 1
        · simp only [h3, if_true, Option.some.injEq, Prod.mk.injEq] at h
          obtain ⟨rfl, rfl⟩ := h
          simp [h2]
        · simp only [h3, if_false, Option.map_eq_some_iff] at h
          obtain ⟨p, hp, he⟩ := h
          cases he
          rw [ih (d - 1) p.1 p.2 hp, h2]; rfl
      · simp only [h2, if_false, Option.map_eq_some_iff] at h
        obtain ⟨p, hp, he⟩ := h
        cases he
        rw [ih d p.1 p.2 hp]; rfl

/-- a text without the two delimiters, followed by the close -/
theorem scanClose_plain (o c : Char) (hoc : c ≠ o) (m v : List Char) (hm : ∀ x ∈ m, x ≠ o ∧ x ≠ c) :
    scanClose o c 1 (m ++ c :: v) = some (m, v) := by
  induction m with
  | nil => simp [scanClose, hoc]
  | cons x xs ih =>
    have hx := hm x (by simp)
    simp only [List.cons_append, scanClose, hx.1, hx.2, if_false]
    rw [ih (fun y hy => hm y (by simp [hy]))]
    rfl

/-! ### one pass: segments -/

theorem segGo_skip (k : Nat) (s : List Char) : segGo k s = segGo 0 (s.drop k) := by
  induction k generalizing s with
  | zero => simp
  | succ k ih =>
    cases s with
    | nil => simp [segGo]
    | cons c cs => simp [segGo, ih cs]

@[simp] theorem segments_nil : segments [] = [] := by simp [segments, segGo]

/-- at `${`: the call when the brace closes, else the `$` is copied -/
theorem segments_dollar_brace (t : List Char) :
    segments ('$' :: '{' :: t) =
      match scanClose '{' '}' 1 t with
      | some (inner, rest) => .call inner :: segments rest
      | none => .unmatched :: segments ('{' :: t) := by
  simp only [segments, segGo, if_true]
  cases h : scanClose '{' '}' 1 t with
  | none => rfl
  | some p =>
    obtain ⟨inner, rest⟩ := p
    simp only
    rw [segGo_skip]
    have := scanClose_split _ _ _ _ _ _ h
    congr 2
    subst this
    simp only [List.length_cons, List.length_append]
    have e : inner.length + (rest.length + 1) + 1 - rest.length = inner.length + 2 := by omega
    rw [e]
    have : '{' :: (inner ++ '}' :: rest) = ('{' :: inner ++ ['}']) ++ rest := by simp
    rw [this, List.drop_left' (by simp)]

/-- anywhere else the character is copied -/
theorem segments_plain (c : Char) (cs : List Char) (h : c ≠ '$' ∨ cs.head? ≠ some '{') :
    segments (c :: cs) = .plain c :: segments cs := by
  simp only [segments, segGo]
  by_cases hc : c = '$'
  · subst hc
    simp only [if_true]
    cases cs with
    | nil => rfl
    | cons d ds =>
      have hd : d ≠ '{' := by
        rcases h with h | h
        · exact absurd rfl h
        · simpa using h
      split
      · next t heq => cases heq; exact absurd rfl hd
      · rfl
  · simp [hc]

/-! ### a pass treats a closed prefix separately -/

theorem getLast?_append_ne (a b : List Char) (h : b ≠ []) : (a ++ b).getLast? = b.getLast? := by
  rw [List.getLast?_append]
  cases b with
  | nil => exact absurd rfl h
  | cons x xs =>
    cases hx : (x :: xs).getLast? with
    | none => simp at hx
    | some v => rfl



theorem closed_iff (x : List Char) :
    Closed x = true ↔ Seg.unmatched ∉ segments x ∧ x.getLast? ≠ some '$' := by
  simp [Closed]

theorem segments_append_aux (n : Nat) :
    ∀ x : List Char, x.length ≤ n → Closed x = true → ∀ y, segments (x ++ y) = segments x ++ segments y := by
  induction n with
  | zero =>
    intro x hx _ y
    have : x = [] := List.length_eq_zero_iff.mp (by omega)
    subst this; simp
  | succ n ih =>
    intro x hx hc y
    cases x with
    | nil => simp
    | cons c cs =>
      rw [closed_iff] at hc
      obtain ⟨hun, hlast⟩ := hc
      by_cases hcall : c = '$' ∧ cs.head? = some '{'
      · obtain ⟨rfl, hhead⟩ := hcall
        cases cs with
        | nil => simp at hhead
        | cons d t =>
          simp only [List.head?_cons, Option.some.injEq] at hhead
          subst hhead
          rw [segments_dollar_brace] at hun ⊢
          cases hs : scanClose '{' '}' 1 t with
          | none => simp [hs] at hun
          | some p =>
            obtain ⟨inner, rest⟩ := p
            have hsplit := scanClose_split _ _ _ _ _ _ hs
            simp only [hs, List.mem_cons, not_or] at hun
            have happ := scanClose_append '{' '}' 1 t y inner rest hs
            have e : '$' :: '{' :: t ++ y = '$' :: '{' :: (t ++ y) := by simp
            rw [e, segments_dollar_brace, happ]
            simp only [List.cons_append, List.cons.injEq, true_and]
            apply ih rest
            · subst hsplit; simp at hx ⊢; omega
            · rw [closed_iff]
              refine ⟨hun.2, ?_⟩
              intro hl
              apply hlast
              subst hsplit
              cases rest with
              | nil => simp at hl
              | cons r rs =>
                have : '$' :: '{' :: (inner ++ '}' :: r :: rs) = ('$' :: '{' :: inner ++ ['}']) ++ (r :: rs) := by simp
                rw [this, getLast?_append_ne _ _ (by simp)]
                exact hl
      · have hp : c ≠ '$' ∨ cs.head? ≠ some '{' := by
          by_cases h1 : c = '$'
          · right; intro h2; exact hcall ⟨h1, h2⟩
          · left; exact h1
        rw [segments_plain c cs hp] at hun ⊢
        simp only [List.mem_cons, not_or] at hun
        have hp' : c ≠ '$' ∨ (cs ++ y).head? ≠ some '{' := by
          rcases hp with h | h
          · left; exact h
          · by_cases h1 : c = '$'
            · right
              cases cs with
              | nil => subst h1; simp at hlast
              | cons d ds => simpa using h
            · left; exact h1
        rw [List.cons_append, segments_plain c (cs ++ y) hp']
        simp only [List.cons_append, List.cons.injEq, true_and]
        apply ih cs (by simp at hx; omega)
        rw [closed_iff]
        refine ⟨hun.2, ?_⟩
        intro hl
        apply hlast
        cases cs with
        | nil => simp at hl
        | cons d ds =>
          rw [List.getLast?_cons_cons]
          exact hl

theorem segments_append (x y : List Char) (h : Closed x = true) :
    segments (x ++ y) = segments x ++ segments y :=
  segments_append_aux x.length x (Nat.le_refl _) h y

/-! ### plain text, one call -/

theorem segments_of_no_dollar (b v : List Char) (hb : ∀ x ∈ b, x ≠ '$') :
    segments (b ++ v) = b.map Seg.plain ++ segments v := by
  induction b with
  | nil => simp
  | cons c cs ih =>
    have hc : c ≠ '$' := hb c (by simp)
    rw [List.cons_append, segments_plain c (cs ++ v) (Or.inl hc), ih (fun x hx => hb x (by simp [hx]))]
    simp

theorem closed_of_no_dollar (b : List Char) (hb : ∀ x ∈ b, x ≠ '$') : Closed b = true := by
  rw [closed_iff]
  have := segments_of_no_dollar b [] hb
  simp only [List.append_nil, segments_nil] at this
  refine ⟨by simp [this], ?_⟩
  intro h
  exact hb '$' (List.mem_of_getLast? h) rfl

theorem flatMap_render_plain (E : Env) (b : List Char) : (b.map Seg.plain).flatMap (Seg.render E) = b := by
  induction b with
  | nil => rfl
  | cons c cs ih => simp [List.flatMap_cons, Seg.render, ih]

theorem expandOnce_append (E : Env) (x y : List Char) (h : Closed x = true) :
    expandOnce E (x ++ y) = expandOnce E x ++ expandOnce E y := by
  simp [expandOnce, segments_append x y h]

theorem expandOnce_no_dollar (E : Env) (b v : List Char) (hb : ∀ x ∈ b, x ≠ '$') :
    expandOnce E (b ++ v) = b ++ expandOnce E v := by
  simp [expandOnce, segments_of_no_dollar b v hb, flatMap_render_plain]

/-- a call `${m}` whose text `m` contains no brace -/
theorem expandOnce_call (E : Env) (m v : List Char) (hm : ∀ x ∈ m, x ≠ '{' ∧ x ≠ '}') :
    expandOnce E ('$' :: '{' :: (m ++ '}' :: v)) = expandCall E (strip m) ++ expandOnce E v := by
  simp only [expandOnce]
  rw [segments_dollar_brace, scanClose_plain '{' '}' (by decide) m v hm]
  simp [List.flatMap_cons, Seg.render]

/-! ### `hasCall` -/

theorem hasCall_false_no_call (s : List Char) (h : hasCall s = false) :
    segments s = s.map Seg.plain := by
  induction s with
  | nil => simp
  | cons c cs ih =>
    cases cs with
    | nil =>
      rw [segments_plain c [] (Or.inr (by simp))]; simp
    | cons d ds =>
      simp only [hasCall, Bool.or_eq_false_iff, Bool.and_eq_false_iff, beq_eq_false_iff_ne] at h
      have hp : c ≠ '$' ∨ (d :: ds).head? ≠ some '{' := by
        rcases h.1 with h1 | h1
        · exact Or.inl h1
        · exact Or.inr (by simpa using h1)
      rw [segments_plain c (d :: ds) hp, ih h.2]
      simp

theorem expandOnce_of_not_hasCall (E : Env) (s : List Char) (h : hasCall s = false) : expandOnce E s = s := by
  simp [expandOnce, hasCall_false_no_call s h, flatMap_render_plain]

theorem hasCall_append_call (u w : List Char) : hasCall (u ++ '$' :: '{' :: w) = true := by
  induction u with
  | nil => simp [hasCall]
  | cons c cs ih =>
    cases cs with
    | nil => simp [hasCall]
    | cons d ds =>
      simp only [List.cons_append, hasCall, Bool.or_eq_true]
      right
      simpa using ih

/-! ### the bounded pass = the plain pass + a length test -/

theorem renderB_none (E : Env) (segs : List Seg) (acc : List Char) :
    renderB E none segs acc = some (acc.reverse ++ segs.flatMap (Seg.render E)) := by
  induction segs generalizing acc with
  | nil => simp [renderB]
  | cons sg ss ih =>
    cases sg <;> simp [renderB, ih, List.flatMap_cons, Seg.render]

theorem ite_none_congr {γ : Type} (P Q : Prop) [Decidable P] [Decidable Q] (a b : Option γ)
    (hpq : P ↔ Q) (hab : a = b) : (if P then a else none) = (if Q then b else none) := by
  subst hab
  by_cases h : P
  · simp [h, hpq.mp h]
  · have : ¬ Q := fun q => h (hpq.mpr q)
    simp [h, this]

theorem renderB_some (E : Env) (n : Nat) (segs : List Seg) (acc : List Char) :
    renderB E (some n) segs acc =
      if acc.length + (segs.flatMap (Seg.render E)).length ≤ n
      then some (acc.reverse ++ segs.flatMap (Seg.render E)) else none := by
  induction segs generalizing acc with
  | nil =>
    simp only [renderB, List.flatMap_nil, List.length_nil, Nat.add_zero, List.append_nil]
    by_cases h : acc.length > n
    · have : ¬ acc.length ≤ n := by omega
      simp [h, this]
    · have : acc.length ≤ n := by omega
      simp [h, this]
  | cons sg ss ih =>
    rw [List.flatMap_cons]
    generalize hT : List.flatMap (Seg.render E) ss = T at ih
    cases sg with
    | plain c =>
      simp only [renderB, Seg.render, ih]
      apply ite_none_congr
      · simp only [List.length_append, List.length_reverse, List.length_cons, List.length_nil]; omega
      · simp
    | unmatched =>
      simp only [renderB, Seg.render, ih]
      apply ite_none_congr
      · simp only [List.length_append, List.length_reverse, List.length_cons, List.length_nil]; omega
      · simp
    | call inner =>
      show (match (some n : Option Nat) with
            | some n => if ((expandCall E (strip inner)).reverse ++ acc).length > n then none
                        else renderB E (some n) ss ((expandCall E (strip inner)).reverse ++ acc)
            | none => renderB E (some n) ss ((expandCall E (strip inner)).reverse ++ acc)) =
          if acc.length + (expandCall E (strip inner) ++ T).length ≤ n
          then some (acc.reverse ++ (expandCall E (strip inner) ++ T)) else none
      simp only []
      by_cases h : ((expandCall E (strip inner)).reverse ++ acc).length > n
      · have : ¬ (acc.length + (expandCall E (strip inner) ++ T).length ≤ n) := by
          simp only [List.length_append, List.length_reverse] at h ⊢; omega
        rw [if_pos h, if_neg this]
      · rw [if_neg h, ih]
        apply ite_none_congr
        · simp only [List.length_append, List.length_reverse]; omega
        · simp

theorem expandOnceB_none (E : Env) (s : List Char) : expandOnceB E none s = some (expandOnce E s) := by
  simp [expandOnceB, expandOnce, renderB_none]

theorem expandOnceB_some (E : Env) (n : Nat) (s : List Char) :
    expandOnceB E (some n) s = if (expandOnce E s).length ≤ n then some (expandOnce E s) else none := by
  simp [expandOnceB, expandOnce, renderB_some]

/-- the pass depends on the text only through the unbounded pass -/
theorem expandOnceB_congr (E : Env) (cap : Option Nat) (s t : List Char) (h : expandOnce E s = expandOnce E t) :
    expandOnceB E cap s = expandOnceB E cap t := by
  cases cap with
  | none => simp [expandOnceB_none, h]
  | some n => simp [expandOnceB_some, h]

/-! ### a call that is just a name -/

theorem dropWhile_eq_self_of_head (p : Char → Bool) (l : List Char) (h : ∀ x, l.head? = some x → p x = false) :
    l.dropWhile p = l := by
  cases l with
  | nil => rfl
  | cons c cs => simp [List.dropWhile, h c rfl]

theorem strip_of_no_space (m : List Char) (hm : ∀ x ∈ m, isSpace x = false) : strip m = m := by
  unfold strip
  rw [dropWhile_eq_self_of_head isSpace m (fun x hx => hm x (List.mem_of_mem_head? hx))]
  rw [dropWhile_eq_self_of_head isSpace m.reverse
    (fun x hx => hm x (List.mem_reverse.mp (List.mem_of_mem_head? hx)))]
  simp

theorem splitWsGo_of_no_space (m cur : List Char) (hm : ∀ x ∈ m, isSpace x = false) :
    splitWsGo cur m = if (m.reverse ++ cur).isEmpty then [] else [(m.reverse ++ cur).reverse] := by
  induction m generalizing cur with
  | nil => simp [splitWsGo]
  | cons c cs ih =>
    have hc : isSpace c = false := hm c (by simp)
    simp only [splitWsGo, hc, Bool.false_eq_true, if_false]
    rw [ih (c :: cur) (fun x hx => hm x (by simp [hx]))]
    simp

theorem splitWs_of_plainName (m : List Char) (h : PlainName m) : splitWs m = [m] := by
  obtain ⟨hne, hm⟩ := h
  unfold splitWs
  rw [splitWsGo_of_no_space m [] (fun x hx => (hm x hx).1)]
  simp [hne]

theorem expandCall_plainName (E : Env) (m body : List Char) (h : PlainName m)
    (hb : m ∉ builtinNames) (hl : lookup E.defs m = some body) : expandCall E (strip m) = body := by
  rw [strip_of_no_space m (fun x hx => (h.2 x hx).1)]
  unfold expandCall
  rw [splitWs_of_plainName m h]
  simp only [builtinNames, List.mem_cons, List.not_mem_nil, or_false, not_or] at hb
  simp only [if_neg hb.1, if_neg hb.2.1, if_neg hb.2.2.1, if_neg hb.2.2.2, hl, substArgs]

/-! ### the loop -/

theorem expandLoop_of_not_hasCall (E : Env) (cap : Option Nat) (n : Nat) (s : List Char) (h : hasCall s = false) :
    expandLoop E cap n s = .ok s := by
  cases n <;> simp [expandLoop, h]

/-- one pass over a text with the call = one pass over the text with the body written out -/
theorem expandOnce_inline (E : Env) (u m body v : List Char) (hu : Closed u = true) (hm : PlainName m)
    (hb : m ∉ builtinNames) (hl : lookup E.defs m = some body) (hbody : ∀ x ∈ body, x ≠ '$') :
    expandOnce E (u ++ '$' :: '{' :: (m ++ '}' :: v)) = expandOnce E (u ++ (body ++ v)) := by
  rw [expandOnce_append E u _ hu, expandOnce_append E u _ hu,
    expandOnce_call E m v (fun x hx => (hm.2 x hx).2), expandCall_plainName E m body hm hb hl,
    expandOnce_no_dollar E body v hbody]

theorem expandLoop_inline (E : Env) (cap : Option Nat) (u m body v : List Char) (hu : Closed u = true)
    (hm : PlainName m) (hb : m ∉ builtinNames) (hl : lookup E.defs m = some body)
    (hbody : ∀ x ∈ body, x ≠ '$') (hcap : ∀ k, cap = some k → (u ++ (body ++ v)).length ≤ k)
    (n : Nat) :
    expandLoop E cap (n + 1) (u ++ '$' :: '{' :: (m ++ '}' :: v)) = expandLoop E cap (n + 1) (u ++ (body ++ v)) := by
  have hpass := expandOnce_inline E u m body v hu hm hb hl hbody
  have hB := expandOnceB_congr E cap _ _ hpass
  simp only [expandLoop, hasCall_append_call, if_true, hB]
  by_cases hc : hasCall (u ++ (body ++ v)) = true
  · simp [hc]
  · have hc' : hasCall (u ++ (body ++ v)) = false := by simpa using hc
    have hid := expandOnce_of_not_hasCall E _ hc'
    have : expandOnceB E cap (u ++ (body ++ v)) = some (u ++ (body ++ v)) := by
      cases cap with
      | none => simp [expandOnceB_none, hid]
      | some k =>
        have hk := hcap k rfl
        rw [expandOnceB_some, hid, if_pos hk]
    simp only [hc', this, Bool.false_eq_true, if_false]
    exact expandLoop_of_not_hasCall E cap n _ hc'

/-! ### bound -/

theorem expandOnceB_le (E : Env) (k : Nat) (s out : List Char) (h : expandOnceB E (some k) s = some out) :
    out.length ≤ k := by
  rw [expandOnceB_some] at h
  by_cases hl : (expandOnce E s).length ≤ k
  · simp only [hl, if_true, Option.some.injEq] at h; exact h ▸ hl
  · simp [hl] at h

theorem expandTrace_bounded (E : Env) (k n : Nat) (s : List Char) :
    (expandTrace E (some k) n s).length ≤ n ∧ ∀ c ∈ expandTrace E (some k) n s, c.length ≤ k := by
  induction n generalizing s with
  | zero => simp [expandTrace]
  | succ n ih =>
    simp only [expandTrace]
    by_cases hc : hasCall s = true
    · simp only [hc, if_true]
      cases h : expandOnceB E (some k) s with
      | none => simp
      | some s' =>
        have := ih s'
        refine ⟨by simp; omega, ?_⟩
        intro c hcm
        rcases List.mem_cons.mp hcm with e | e
        · exact e ▸ expandOnceB_le E k s s' h
        · exact this.2 c e
    · simp [hc]

theorem expandLoop_bounded (E : Env) (k n : Nat) (s out : List Char)
    (h : expandLoop E (some k) n s = .ok out) : out = s ∨ out.length ≤ k := by
  induction n generalizing s with
  | zero => simp only [expandLoop, Outcome.ok.injEq] at h; exact Or.inl h.symm
  | succ n ih =>
    simp only [expandLoop] at h
    by_cases hc : hasCall s = true
    · simp only [hc, if_true] at h
      cases h1 : expandOnceB E (some k) s with
      | none => simp [h1] at h
      | some s' =>
        simp only [h1] at h
        rcases ih s' h with e | e
        · right; rw [e]; exact expandOnceB_le E k s s' h1
        · exact Or.inr e
    · simp only [hc, Bool.false_eq_true, if_false, Outcome.ok.injEq] at h
      exact Or.inl h.symm

/-! ### growth of the pinned expander on `macro a [${a} ${a}]` -/

theorem blow_head (k : Nat) : ∃ w, blow k = '$' :: '{' :: w := by
  induction k with
  | zero => exact ⟨_, rfl⟩
  | succ k ih =>
    obtain ⟨w, hw⟩ := ih
    exact ⟨w ++ ' ' :: blow k, by simp [blow, hw]⟩

theorem blow_ne_nil (k : Nat) : blow k ≠ [] := by
  obtain ⟨w, hw⟩ := blow_head k
  simp [hw]

theorem hasCall_blow (k : Nat) : hasCall (blow k) = true := by
  obtain ⟨w, hw⟩ := blow_head k
  have := hasCall_append_call [] w
  simpa [hw] using this

theorem blow_length (k : Nat) : (blow k).length + 1 = 5 * 2 ^ k := by
  induction k with
  | zero => rfl
  | succ k ih =>
    simp only [blow, List.length_append, List.length_cons, Nat.pow_succ]
    omega

theorem closed_blow (k : Nat) : Closed (blow k) = true := by
  induction k with
  | zero => decide
  | succ k ih =>
    rw [closed_iff] at ih ⊢
    have hsp : segments (' ' :: blow k) = Seg.plain ' ' :: segments (blow k) :=
      segments_plain ' ' (blow k) (Or.inl (by decide))
    refine ⟨?_, ?_⟩
    · simp only [blow]
      rw [segments_append _ _ ((closed_iff _).mpr ih), hsp]
      simp [ih.1]
    · simp only [blow]
      rw [getLast?_append_ne _ _ (by simp)]
      cases hb : blow k with
      | nil => exact absurd hb (blow_ne_nil k)
      | cons c cs =>
        rw [List.getLast?_cons_cons, ← hb]
        exact ih.2

theorem expandOnce_blow (k : Nat) : expandOnce selfDouble (blow k) = blow (k + 1) := by
  induction k with
  | zero => decide
  | succ k ih =>
    have e : blow (k + 1) = blow k ++ ([' '] ++ blow k) := by simp [blow]
    rw [e, expandOnce_append _ _ _ (closed_blow k), expandOnce_no_dollar _ [' '] _ (by decide), ih]
    simp [blow]

theorem expandLoop_blow (n k : Nat) : expandLoop selfDouble none n (blow k) = .ok (blow (k + n)) := by
  induction n generalizing k with
  | zero => simp [expandLoop]
  | succ n ih =>
    simp only [expandLoop, hasCall_blow, if_true, expandOnceB_none, expandOnce_blow, ih]
    congr 2
    omega

/-! ### extraction of one definition at the head of the text -/

theorem isWord_not_space (c : Char) (h : isWord c = true) : isSpace c = false := by
  simp only [isWord, Char.isAlphanum, Char.isAlpha, Char.isUpper, Char.isLower, Char.isDigit, isSpace, Char.toNat,
    Bool.or_eq_true, Bool.and_eq_true, decide_eq_true_eq, beq_iff_eq] at h ⊢
  rcases h with ((⟨h1, h2⟩ | ⟨h1, h2⟩) | ⟨h1, h2⟩) | h
  · have a : 65 ≤ c.val.toNat := by simpa [UInt32.le_iff_toNat_le] using h1
    have b : c.val.toNat ≤ 90 := by simpa [UInt32.le_iff_toNat_le] using h2
    have e : c.toNat = c.val.toNat := rfl
    simp; omega
  · have a : 97 ≤ c.val.toNat := by simpa [UInt32.le_iff_toNat_le] using h1
    have b : c.val.toNat ≤ 122 := by simpa [UInt32.le_iff_toNat_le] using h2
    have e : c.toNat = c.val.toNat := rfl
    simp; omega
  · have a : 48 ≤ c.val.toNat := by simpa [UInt32.le_iff_toNat_le] using h1
    have b : c.val.toNat ≤ 57 := by simpa [UInt32.le_iff_toNat_le] using h2
    have e : c.toNat = c.val.toNat := rfl
    simp; omega
  · subst h; decide

theorem takeWhile_append_stop (p : Char → Bool) (a b : List Char) (ha : ∀ x ∈ a, p x = true)
    (hb : ∀ x, b.head? = some x → p x = false) : (a ++ b).takeWhile p = a := by
  induction a with
  | nil =>
    cases b with
    | nil => rfl
    | cons c cs => simp [hb c rfl]
  | cons c cs ih =>
    simp [ha c (by simp), ih (fun x hx => ha x (by simp [hx]))]

theorem dropWhile_append_stop (p : Char → Bool) (a b : List Char) (ha : ∀ x ∈ a, p x = true)
    (hb : ∀ x, b.head? = some x → p x = false) : (a ++ b).dropWhile p = b := by
  induction a with
  | nil =>
    cases b with
    | nil => rfl
    | cons c cs => simp [hb c rfl]
  | cons c cs ih =>
    simp [ha c (by simp), ih (fun x hx => ha x (by simp [hx]))]

theorem extractGo_skip (k : Nat) (s : List Char) : extractGo k s = extractGo 0 (s.drop k) := by
  induction k generalizing s with
  | zero => simp
  | succ k ih =>
    cases s with
    | nil => simp [extractGo]
    | cons c cs => simp [extractGo, ih cs]

theorem matchMacroHead_defText (name raw rest : List Char) (hne : name ≠ [])
    (hn : ∀ x ∈ name, isWord x = true) :
    matchMacroHead (defText name raw ++ rest) = some (name, raw ++ ']' :: rest) := by
  obtain ⟨n0, ns, rfl⟩ : ∃ n0 ns, name = n0 :: ns := by
    cases name with
    | nil => exact absurd rfl hne
    | cons a as => exact ⟨a, as, rfl⟩
  have hn0 : isSpace n0 = false := isWord_not_space n0 (hn n0 (by simp))
  have hm : isSpace 'm' = false := by decide
  have h1 : (defText (n0 :: ns) raw ++ rest).dropWhile isSpace = defText (n0 :: ns) raw ++ rest := by
    simp [defText, hm]
  have hsp : isSpace ' ' = true := by decide
  have hwsp : isWord ' ' = false := by decide
  have hbr : isSpace '[' = false := by decide
  have e3 : ((n0 :: ns) ++ ' ' :: '[' :: (raw ++ ']' :: rest)).takeWhile isWord = n0 :: ns :=
    takeWhile_append_stop isWord _ _ hn (by intro x hx; simp at hx; subst hx; exact hwsp)
  have e4 : ((n0 :: ns) ++ ' ' :: '[' :: (raw ++ ']' :: rest)).dropWhile isWord = ' ' :: '[' :: (raw ++ ']' :: rest) :=
    dropWhile_append_stop isWord _ _ hn (by intro x hx; simp at hx; subst hx; exact hwsp)
  unfold matchMacroHead
  rw [h1]
  have e2 : stripPrefix? ['m', 'a', 'c', 'r', 'o'] (defText (n0 :: ns) raw ++ rest) =
      some (' ' :: ((n0 :: ns) ++ ' ' :: '[' :: (raw ++ ']' :: rest))) := by
    simp [defText, stripPrefix?]
  rw [e2]
  simp only [hsp, Bool.not_true, Bool.false_eq_true, if_false]
  have e5 : (' ' :: ((n0 :: ns) ++ ' ' :: '[' :: (raw ++ ']' :: rest))).dropWhile isSpace =
      (n0 :: ns) ++ ' ' :: '[' :: (raw ++ ']' :: rest) := by
    simp [List.dropWhile, hsp, hn0]
  rw [e5, e3, e4]
  simp [List.dropWhile, hsp, hbr]

theorem extract_defText (name raw rest : List Char) (hne : name ≠ []) (hn : ∀ x ∈ name, isWord x = true)
    (hraw : ∀ x ∈ raw, x ≠ '[' ∧ x ≠ ']') :
    extractMacros (defText name raw ++ rest) =
      ((name, strip (stripShellComments raw)) :: (extractMacros rest).1, (extractMacros rest).2) := by
  have hmm := matchMacroHead_defText name raw rest hne hn
  have hsc := scanClose_plain '[' ']' (by decide) raw rest hraw
  have hshape : defText name raw ++ rest = 'm' :: (['a', 'c', 'r', 'o', ' '] ++ name ++ [' ', '['] ++ raw ++ [']'] ++ rest) := by
    simp [defText]
  unfold extractMacros
  rw [hshape] at hmm ⊢
  simp only [extractGo, hmm, hsc]
  rw [extractGo_skip]
  have hd : (['a', 'c', 'r', 'o', ' '] ++ name ++ [' ', '['] ++ raw ++ [']'] ++ rest).drop
      ((['a', 'c', 'r', 'o', ' '] ++ name ++ [' ', '['] ++ raw ++ [']'] ++ rest).length - rest.length) = rest := by
    rw [List.drop_left' (by simp; omega)]
  rw [hd]

end SP.Macro
