import Model.Hidden
/-! helper lemmas for Properties/C12.lean -/
namespace SP.Hidden

/-- the probe is `runProg` followed by the reports (the definition only exposes the leading `setMode 0`) -/
theorem probeProg_eq (t : TextAbs) : probeProg t = if t.lexOk then runProg t ++ reportProg t else [] := by
  unfold probeProg runProg newProg
  cases t.lexOk <;> simp

/-! ### components no action writes -/

theorem execAct_keeps (c : Ctx) (a : Act) :
    (execAct c a).1.h.tz = c.h.tz ∧ (execAct c a).1.h.cfg = c.h.cfg ∧
    (execAct c a).1.h.cacheLen = c.h.cacheLen ∧ (execAct c a).1.h.errors = c.h.errors := by
  cases a <;> simp [execAct]

theorem execProg_keeps (c : Ctx) (p : List Act) :
    (execProg c p).1.h.tz = c.h.tz ∧ (execProg c p).1.h.cfg = c.h.cfg ∧
    (execProg c p).1.h.cacheLen = c.h.cacheLen ∧ (execProg c p).1.h.errors = c.h.errors := by
  induction p generalizing c with
  | nil => simp [execProg]
  | cons a as ih =>
    have h1 := execAct_keeps c a
    have h2 := ih (execAct c a).1
    simp only [execProg]
    refine ⟨h2.1.trans h1.1, h2.2.1.trans h1.2.1, h2.2.2.1.trans h1.2.2.1, h2.2.2.2.trans h1.2.2.2⟩

/-- the message log only grows -/
theorem execAct_msgs (c : Ctx) (a : Act) : ∃ l, (execAct c a).1.h.msgs = c.h.msgs ++ l := by
  cases a with
  | warn id => exact ⟨[id], by simp [execAct]⟩
  | _ => exact ⟨[], by simp [execAct]⟩

theorem execProg_msgs (c : Ctx) (p : List Act) : ∃ l, (execProg c p).1.h.msgs = c.h.msgs ++ l := by
  induction p generalizing c with
  | nil => exact ⟨[], by simp [execProg]⟩
  | cons a as ih =>
    obtain ⟨l1, h1⟩ := execAct_msgs c a
    obtain ⟨l2, h2⟩ := ih (execAct c a).1
    refine ⟨l1 ++ l2, ?_⟩
    simp only [execProg]
    rw [h2, h1, List.append_assoc]

/-- the cache singleton, once created, stays -/
theorem execAct_cacheInst (c : Ctx) (a : Act) : c.h.cacheInst = true → (execAct c a).1.h.cacheInst = true := by
  cases a <;> simp [execAct]

theorem execProg_cacheInst (c : Ctx) (p : List Act) : c.h.cacheInst = true → (execProg c p).1.h.cacheInst = true := by
  induction p generalizing c with
  | nil => simp [execProg]
  | cons a as ih => intro h; simp only [execProg]; exact ih _ (execAct_cacheInst c a h)

/-! ### simulation: what a program's observations can depend on -/

/-- two contexts agree on everything an action can read -/
def Sim (c1 c2 : Ctx) : Prop :=
  c1.f = c2.f ∧ c1.h.mode = c2.h.mode ∧ c1.h.tz = c2.h.tz ∧ c1.h.cfg = c2.h.cfg

/-- agreement on everything except the mode -/
def Sim0 (c1 c2 : Ctx) : Prop :=
  c1.f = c2.f ∧ c1.h.tz = c2.h.tz ∧ c1.h.cfg = c2.h.cfg

theorem sim_act {c1 c2 : Ctx} (h : Sim c1 c2) (a : Act) :
    Sim (execAct c1 a).1 (execAct c2 a).1 ∧ (execAct c1 a).2 = (execAct c2 a).2 := by
  obtain ⟨hf, hm, ht, hc⟩ := h
  cases a <;> simp [execAct, Sim, hf, hm, ht, hc]

theorem sim_prog {c1 c2 : Ctx} (h : Sim c1 c2) (p : List Act) :
    Sim (execProg c1 p).1 (execProg c2 p).1 ∧ (execProg c1 p).2 = (execProg c2 p).2 := by
  induction p generalizing c1 c2 with
  | nil => exact ⟨h, rfl⟩
  | cons a as ih =>
    have h1 := sim_act h a
    have h2 := ih h1.1
    simp only [execProg]
    refine ⟨h2.1, ?_⟩
    rw [h1.2, h2.2]

/-- a program that starts by writing the mode does not see the mode it was started in -/
theorem sim0_setMode {c1 c2 : Ctx} (h : Sim0 c1 c2) (v : Nat) (p : List Act) :
    (execProg c1 (.setMode v :: p)).2 = (execProg c2 (.setMode v :: p)).2 ∧
    Sim (execProg c1 (.setMode v :: p)).1 (execProg c2 (.setMode v :: p)).1 := by
  obtain ⟨hf, ht, hc⟩ := h
  have hs : Sim (execAct c1 (.setMode v)).1 (execAct c2 (.setMode v)).1 := by
    simp [execAct, Sim, hf, ht, hc]
  have h2 := sim_prog hs p
  simp only [execProg]
  refine ⟨?_, h2.1⟩
  rw [h2.2]
  simp [execAct]

/-- the observations of a run are a function of the text, the time-zone variable and the message
    handler's configuration — of nothing else in the process -/
theorem obsRun_congr (w1 w2 : World) (t : TextAbs) (htz : w1.h.tz = w2.h.tz) (hcfg : w1.h.cfg = w2.h.cfg) :
    obsRun w1 t = obsRun w2 t := by
  unfold obsRun probeProg
  cases hl : t.lexOk
  · simp [execProg]
  · simp only [if_true]
    have := (sim0_setMode (c1 := ⟨w1.h, []⟩) (c2 := ⟨w2.h, []⟩) ⟨rfl, htz, hcfg⟩ 0
      ((newProg t).drop 1 ++ buildProg t ++ topProg t ++
        (if t.hasTasks then loopProg t.scens [] 0 none else []) ++ reportProg t)).1
    rw [this]

/-! ### steps and histories -/

@[simp] theorem put_h (w : World) (k : Option Nat) (p : ProjSt) (h : HState) : (w.put k p h).h = h := by
  cases k <;> simp [World.put]

theorem step_keeps (w : World) (o : Op) :
    (step w o).1.h.tz = w.h.tz ∧ (step w o).1.h.cfg = w.h.cfg ∧
    (step w o).1.h.cacheLen = w.h.cacheLen ∧ (step w o).1.h.errors = w.h.errors := by
  cases o with
  | run t keep =>
    simp only [step]
    split
    · simpa using execProg_keeps ⟨w.h, []⟩ (runProg t)
    · simp
  | parseOnly t keep =>
    simp only [step]
    split
    · simpa using execProg_keeps ⟨w.h, []⟩ (parseProg t)
    · simp
  | failRun t pt =>
    simp only [step]
    split
    · simpa using execProg_keeps ⟨w.h, []⟩ (failProg t pt)
    · simp
  | schedule s fail =>
    simp only [step]
    split
    · simp
    · rename_i p _
      simpa [schedApply] using execProg_keeps ⟨w.h, p.f⟩ (schedProg p fail)
  | report s =>
    simp only [step]
    split
    · simp
    · rename_i p _
      simpa using execProg_keeps ⟨w.h, p.f⟩ (reportProg p.t)

theorem runHist_keeps (w : World) (h : List Op) :
    (runHist w h).h.tz = w.h.tz ∧ (runHist w h).h.cfg = w.h.cfg ∧
    (runHist w h).h.cacheLen = w.h.cacheLen ∧ (runHist w h).h.errors = w.h.errors := by
  induction h generalizing w with
  | nil => simp [runHist]
  | cons o os ih =>
    have h1 := step_keeps w o
    have h2 := ih (step w o).1
    simp only [runHist]
    exact ⟨h2.1.trans h1.1, h2.2.1.trans h1.2.1, h2.2.2.1.trans h1.2.2.1, h2.2.2.2.trans h1.2.2.2⟩

theorem step_msgs (w : World) (o : Op) : ∃ l, (step w o).1.h.msgs = w.h.msgs ++ l := by
  cases o with
  | run t keep =>
    simp only [step]
    split
    · simpa using execProg_msgs ⟨w.h, []⟩ (runProg t)
    · exact ⟨[], by simp⟩
  | parseOnly t keep =>
    simp only [step]
    split
    · simpa using execProg_msgs ⟨w.h, []⟩ (parseProg t)
    · exact ⟨[], by simp⟩
  | failRun t pt =>
    simp only [step]
    split
    · simpa using execProg_msgs ⟨w.h, []⟩ (failProg t pt)
    · exact ⟨[], by simp⟩
  | schedule s fail =>
    simp only [step]
    split
    · exact ⟨[], by simp⟩
    · rename_i p _
      simpa [schedApply] using execProg_msgs ⟨w.h, p.f⟩ (schedProg p fail)
  | report s =>
    simp only [step]
    split
    · exact ⟨[], by simp⟩
    · rename_i p _
      simpa using execProg_msgs ⟨w.h, p.f⟩ (reportProg p.t)

/-! ### repeated `schedule()` -/

theorem get_set (f : Flags) (a : String) (v : AFlag) : Flags.get (Flags.set f a v) a = v := by
  unfold Flags.set
  split
  · assumption
  · simp [Flags.get, List.lookup]

theorem flagAfterSet_idem (m : Nat) (x : AFlag) : flagAfterSet m (flagAfterSet m x) = flagAfterSet m x := by
  unfold flagAfterSet
  split
  · rfl
  · split <;> rfl

/-- forcing the same attribute again under the same mode changes nothing -/
theorem attrSet_twice (c : Ctx) (a : String) :
    (execAct (execAct c (.attrSet a)).1 (.attrSet a)).1 = (execAct c (.attrSet a)).1 := by
  simp only [execAct]
  rw [get_set, flagAfterSet_idem]
  congr 1
  unfold Flags.set
  have := get_set c.f a (flagAfterSet c.h.mode (c.f.get a))
  unfold Flags.set at this
  simp [this]

theorem attrSet_obs (c : Ctx) (a : String) : (execAct c (.attrSet a)).2.1 = [] := by simp [execAct]

/-- `n` forced writes of one attribute = the first of them -/
theorem replicate_attrSet (c : Ctx) (a : String) (n : Nat) :
    (execProg c (List.replicate (n + 1) (.attrSet a))).1 = (execAct c (.attrSet a)).1 ∧
    (execProg c (List.replicate (n + 1) (.attrSet a))).2.1 = [] := by
  induction n generalizing c with
  | zero => simp [execProg, execAct]
  | succ k ih =>
    have h := ih (execAct c (.attrSet a)).1
    rw [List.replicate_succ]
    simp only [execProg]
    rw [h.1, h.2, attrSet_twice]
    simp [execAct]

/-- the head of `schedule()` (`p.index()`) executed again in the same mode changes nothing -/
theorem topProg_again (c : Ctx) (t : TextAbs) :
    (execProg (execProg c (topProg t)).1 (topProg t)).1 = (execProg c (topProg t)).1 ∧
    (execProg (execProg c (topProg t)).1 (topProg t)).2.1 = [] := by
  unfold topProg
  cases hn : t.props with
  | zero => simp [execProg]
  | succ n =>
    have h1 := replicate_attrSet c "bsi" n
    have h2 := replicate_attrSet (execProg c (List.replicate (n + 1) (.attrSet "bsi"))).1 "bsi" n
    rw [h2.1, h2.2, h1.1, attrSet_twice]
    simp

theorem loopDone_all (ss : List ScenAbs) (d : List Bool) (k : Nat) :
    loopDone ss d k none = List.replicate ss.length true := by
  induction ss generalizing k with
  | nil => simp [loopDone]
  | cons s ss ih =>
    simp only [loopDone]
    split <;> simp [ih, List.replicate_succ]

theorem allDone_replicate (n : Nat) : allDone n (List.replicate n true) = true := by
  simp only [allDone, List.all_eq_true, List.mem_range]
  intro i hi
  simp [List.getD, hi]

theorem anyDone_replicate (n : Nat) : anyDone (List.replicate (n + 1) true) = true := by
  simp [anyDone, List.replicate_succ]

end SP.Hidden

namespace SP.Hidden

theorem execProg_append_nil (c : Ctx) (p : List Act) : execProg c (p ++ []) = execProg c p := by simp

theorem anyDone_nil : anyDone [] = false := rfl

/-- `Project.schedule()` twice in a row on the same project = once (hidden state and project state),
    and the second call reads nothing the output could depend on -/
theorem schedApply_idem (h : HState) (p : ProjSt) :
    (schedApply (schedApply h p none).1.1 (schedApply h p none).1.2 none).1 = (schedApply h p none).1 ∧
    (schedApply (schedApply h p none).1.1 (schedApply h p none).1.2 none).2.1 = [] := by
  obtain ⟨t, f, done, runs⟩ := p
  by_cases hc : (anyDone done && allDone t.scens.length done) = true
  · -- nothing left to schedule: both calls return at once
    simp [schedApply, schedProg, schedDone, schedRuns, hc, execProg]
  · have hc' : (anyDone done && allDone t.scens.length done) = false := by simpa using hc
    cases ht : t.hasTasks
    · -- no tasks: only `index()` runs, twice in the same mode
      have h1 := topProg_again ⟨h, f⟩ t
      simp only [schedApply, schedProg, schedDone, schedRuns, hc', ht, Bool.false_eq_true, if_false,
        List.append_nil]
      refine ⟨?_, h1.2⟩
      rw [h1.1]
    · cases hs : t.scens with
      | nil =>
        have h1 := topProg_again ⟨h, f⟩ t
        rw [hs] at hc'
        simp only [schedApply, schedProg, schedDone, schedRuns, hc', ht, hs, loopProg, loopDone, loopRuns,
          Bool.false_eq_true, if_false, if_true, List.append_nil, anyDone_nil, Bool.false_and]
        refine ⟨?_, h1.2⟩
        rw [h1.1]
      | cons s ss =>
        rw [hs] at hc'
        have hd : loopDone (s :: ss) done 0 none = List.replicate (ss.length + 1) true := by
          simpa using loopDone_all (s :: ss) done 0
        have hc2 : (anyDone (List.replicate (ss.length + 1) true) &&
            allDone (s :: ss).length (List.replicate (ss.length + 1) true)) = true := by
          rw [anyDone_replicate]
          simpa using allDone_replicate (ss.length + 1)
        simp only [schedApply, schedProg, schedDone, schedRuns, hc', ht, hs, hd, hc2,
          Bool.false_eq_true, if_false, if_true, execProg]
        exact ⟨trivial, trivial⟩

end SP.Hidden
