import Proofs.TeamFit
import Proofs.NoIdleBack
/-!
C08, backward mode, for teams: between the end of the team task and its deadline, every slot in which ALL members are
working carries the task on every member or a booking on some member, or a limit has no room there for the whole team.
-/
namespace SP

/-- **along the backward walk of a team**: a visited slot in which all members are working ends up carrying the task
    on every member, or some member carries an entry there, or a limit has no room for the whole team -/
theorem walkLoopB_team_no_idle (e : Env) (wf : WF e) (t : Nat) (sel : List Nat) (fuel : Nat) (σ : St) (w : Walk)
    (vis : List Int) (hinv : Inv e σ) (hs : Solid e σ) (hlf : (e.taskD t).leaf = true) (hw : WalkOk e t w) (hin : WalkIn e w)
    (ha : (e.taskD t).hasAlloc = true) (hm : (e.taskD t).milestone = false)
    (hsel : selectedOf e σ t w = sel) (hteam : isTeam e t sel = true) (hnd : sel.Nodup) (hpos : 0 < (e.taskD t).effort)
    (hts : TS σ t sel false w vis)
    (hleaf : ∀ m ∈ sel, (e.resD m).leaf = true) :
    ∀ p ∈ walkVisitsB e t fuel σ w, AllWorking e sel p.2.cur →
      (∀ m ∈ sel, usageOf ((walkLoop e t false fuel σ w).1.led.get m p.2.cur).usage t ≠ none) ∨
      (∃ m ∈ sel, Has m p.2.cur (walkLoop e t false fuel σ w).1) ∨
      TeamTight e (walkLoop e t false fuel σ w).1 t sel p.2.cur := by
  induction fuel generalizing σ w vis with
  | zero => intro p hp; simp [walkVisitsB] at hp
  | succ f ih =>
    have hsi := scheduleSlot_inv e σ t w wf hinv hlf hw
    have hsa := scheduleSlot_ts e wf σ t sel false w vis hinv ha hm hsel hteam hnd hpos hts
    have hss := closed_scheduleSlot (solid_closed e wf) wf σ t w hinv hlf trivial hw hin hs
    have hcur_notin : w.cur ∉ vis := by
      intro hin'
      have := hts.before _ hin'
      simp at this
    have hclean : ∀ r ∈ sel, usageOf (σ.led.get r w.cur).usage t = none := fun r hr => hts.only r hr _ hcur_notin
    obtain ⟨hselw, hcurw, hcase⟩ := bookResources_team_last e wf σ t w sel hinv ha hsel hteam hnd hclean
    have hz : ((e.taskD t).effort == 0) = false := by
      simp only [beq_eq_false_iff_ne, ne_eq]; grind
    have hne' : sel ≠ [] := by
      intro h; rw [h] at hteam; simp [isTeam] at hteam
    -- what the slot of this visit holds right after `scheduleSlot`
    have hslot : AllWorking e sel w.cur →
        (∀ m ∈ sel, usageOf ((scheduleSlot e σ t w).1.led.get m w.cur).usage t ≠ none) ∨
        (∃ m ∈ sel, Has m w.cur (scheduleSlot e σ t w).1) ∨ TeamTight e (scheduleSlot e σ t w).1 t sel w.cur := by
      intro hall
      rcases hcase with hnone | ⟨a, ha0, hent, hlast⟩
      · right
        rcases bookResources_team_nobody_reason e wf σ t w sel hinv hs hin ha hsel hteam hnd hclean hleaf hnone with ⟨m, hm', hr⟩ | htight
        · left
          rcases hr with hr | hr | hr
          · rw [(hall m hm').1] at hr; exact Bool.noConfusion hr
          · rw [(hall m hm').2] at hr; exact Bool.noConfusion hr
          · exact ⟨m, hm', closed_scheduleSlot (has_closed e m w.cur) wf σ t w hinv hlf trivial hw hin hr⟩
        · right
          exact teamTight_closed_step (fun lid ro hr =>
            closed_scheduleSlot (tight_closed e lid w.cur ro _) wf σ t w hinv hlf trivial hw hin hr) htight
      · left
        intro m hm'
        unfold scheduleSlot
        simp only [hm, hz, Bool.or_self, Bool.false_eq_true, if_false]
        by_cases hfin : (bookResources e σ t w).2.done ≥ (e.taskD t).effort
        · simp only [hfin, if_true]
          obtain ⟨rl, hrl', hrlmem⟩ := getLast?_mem_of_ne_nil sel hne'
          have hlast' : (bookResources e σ t w).2.last = some rl := by rw [hlast, hrl']
          have hle := needSecs_le_booked e (bookResources e σ t w).1 t (bookResources e σ t w).2 w.done rl a
            (by rw [hcurw]; exact hent rl hrlmem)
          have hft := finishTask_team e (bookResources e σ t w).1 t (bookResources e σ t w).2 w.done (σ.tst t).forward sel rl a
            hlast' hselw hrlmem hnd (by rw [hcurw]; exact hent) hle
          rw [hcurw] at hft
          show usageOf ((finishTask e (bookResources e σ t w).1 t (bookResources e σ t w).2 w.done (σ.tst t).forward).1.led.get m w.cur).usage t ≠ none
          rw [hft m hm']; simp
        · simp only [hfin, if_false]
          rw [hent m hm']; simp
    unfold walkLoop
    unfold walkVisitsB
    simp only []
    by_cases hc : (scheduleSlot e σ t w).2.2 = true
    · simp only [hc, Bool.not_true, Bool.false_eq_true, if_false]
      obtain ⟨hts', hsel'⟩ := hsa.1 hc
      have hw1 := hsi.2 hc
      by_cases hout : ((advance false w (scheduleSlot e σ t w).2.1).cur < 0 || (advance false w (scheduleSlot e σ t w).2.1).cur > e.upper) = true
      · simp only [hout, if_true]
        intro p hp hall
        have hp' : p = (σ, w) := by simpa using hp
        subst hp'
        exact hslot hall
      · simp only [hout, Bool.false_eq_true, if_false]
        have hcur2 : (advance false w (scheduleSlot e σ t w).2.1).cur = w.cur - 1 := by
          rw [advance_cur, scheduleSlot_cur]; simp; omega
        have hin2 : WalkIn e (advance false w (scheduleSlot e σ t w).2.1) := by
          refine ⟨?_, ?_, ?_⟩
          · simp only [Bool.or_eq_true, decide_eq_true_eq, not_or, Int.not_lt] at hout
            exact hout.1
          · show (0 : Rat) ≤ (e.G : Rat) - 1 / 1000000
            have : (1 : Int) ≤ e.G := wf.G_pos
            have : (1 : Rat) ≤ (e.G : Rat) := by exact_mod_cast this
            grind
          · simp only [Bool.or_eq_true, decide_eq_true_eq, not_or, Int.not_lt] at hout
            exact hout.2
        intro p hp hall
        rcases List.mem_cons.mp hp with hp | hp
        · subst hp
          simp only [] at hall ⊢
          rcases hslot hall with h1 | ⟨m, hm', h1⟩ | h1
          · left
            intro m hm'
            rw [walkLoop_after e t f _ _ m w.cur (by rw [hcur2]; omega)]
            exact h1 m hm'
          · right; left
            exact ⟨m, hm', closed_walkLoop (has_closed e m w.cur) wf t false f _ _ hsi.1 hlf trivial
              (walkOk_advance e t wf _ _ _ hw1) hin2 h1⟩
          · right; right
            exact teamTight_closed_step (fun lid ro hr =>
              closed_walkLoop (tight_closed e lid w.cur ro _) wf t false f _ _ hsi.1 hlf trivial
                (walkOk_advance e t wf _ _ _ hw1) hin2 hr) h1
        · exact ih (scheduleSlot e σ t w).1 (advance false w (scheduleSlot e σ t w).2.1) (w.cur :: vis) hsi.1 hss
            (walkOk_advance e t wf _ _ _ hw1) hin2 (selectedOf_some e _ t _ sel hsel') hts' p hp hall
    · have hc' : (scheduleSlot e σ t w).2.2 = false := by simpa using hc
      simp only [hc', Bool.not_false, if_true]
      intro p hp hall
      have hp' : p = (σ, w) := by simpa using hp
      subst hp'
      exact hslot hall

/-- a backward team task: several pairwise different leaf resources (limits allowed) -/
structure TeamUB (e : Env) (t : Nat) (sel : List Nat) : Prop where
  el : TeamAny e t sel
  rleaf : ∀ m ∈ sel, (e.resD m).leaf = true
  mem : ∀ m ∈ sel, m ∈ (e.taskD t).alloc ++ (e.taskD t).alt

/-- **one backward team task**: between any slot the team is booked in and the slot its walk started in, a slot in which all
    members are working carries the task on every member or an entry on some member -/
theorem scheduleTaskB_team_no_idle_interval (e : Env) (wf : WF e) (σ : St) (t : Nat) (sel : List Nat)
    (hinv : Inv e σ) (hs : Solid e σ) (hel : TeamUB e t sel) (hf : (σ.tst t).forward = false)
    (hnd : (σ.tst t).done = false) (hclean : ∀ r i, usageOf (σ.led.get r i).usage t = none) :
    ∀ L m0, m0 ∈ sel → usageOf ((scheduleTask e σ t).1.led.get m0 L).usage t ≠ none →
      ∀ i, L ≤ i → i ≤ (initCursor e σ t).1 → AllWorking e sel i →
        (∀ m ∈ sel, usageOf ((scheduleTask e σ t).1.led.get m i).usage t ≠ none) ∨
        (∃ m ∈ sel, Has m i (scheduleTask e σ t).1) ∨ TeamTight e (scheduleTask e σ t).1 t sel i := by
  have hpc : preStartCursor e σ t (initCursor e σ t).1 = (initCursor e σ t).1 := by
    unfold preStartCursor; simp [hel.el.alloc]
  have hpt : preStartT e σ t (initCursor e σ t).1 = σ.tst t := by
    unfold preStartT; simp [hel.el.alloc]
  have hoff := initCursor_off e σ t wf
  intro L m0 hm0 hL i hLi hic hall
  unfold scheduleTask at hL ⊢
  simp only [hnd, Bool.false_eq_true, if_false, hpc, hpt, hf] at hL ⊢
  have h0 : Inv e (σ.setT t (σ.tst t)) := inv_setT _ _ hinv
  have hs0 : Solid e (σ.setT t (σ.tst t)) := (solid_closed e wf).setT σ t _ hs
  by_cases hout : ((initCursor e σ t).1 < 0 || (initCursor e σ t).1 > e.upper) = true
  · simp only [hout, if_true] at hL
    exact absurd (hclean m0 L) hL
  · simp only [hout, Bool.false_eq_true, if_false] at hL ⊢
    have hw : WalkOk e t { cur := (initCursor e σ t).1, offset := (initCursor e σ t).2 } :=
      ⟨hoff.1, hoff.2, wf.effort_nonneg t⟩
    have hin : WalkIn e { cur := (initCursor e σ t).1, offset := (initCursor e σ t).2 } := by
      simp only [Bool.or_eq_true, decide_eq_true_eq, not_or, Int.not_lt] at hout
      exact ⟨hout.1, initCursor_room e σ t wf, hout.2⟩
    have hts : TS (σ.setT t (σ.tst t)) t sel false { cur := (initCursor e σ t).1, offset := (initCursor e σ t).2 } [] :=
      ⟨fun r _ i _ => hclean r i, fun i hi => absurd hi List.not_mem_nil,
        fun r _ r' _ i => by
          show usageOf (σ.led.get r i).usage t = usageOf (σ.led.get r' i).usage t
          rw [hclean r i, hclean r' i]⟩
    have hsel0 : selectedOf e (σ.setT t (σ.tst t)) t { cur := (initCursor e σ t).1, offset := (initCursor e σ t).2 } = sel := by
      unfold selectedOf; exact hel.el.pick _ _
    have hLw : usageOf ((walkLoop e t false (e.size.toNat + 3) (σ.setT t (σ.tst t))
        { cur := (initCursor e σ t).1, offset := (initCursor e σ t).2 }).1.led.get m0 L).usage t ≠ none := by
      split at hL <;> exact hL
    have hLvis : ∃ p ∈ walkVisitsB e t (e.size.toNat + 3) (σ.setT t (σ.tst t))
        { cur := (initCursor e σ t).1, offset := (initCursor e σ t).2 }, p.2.cur = L := by
      apply Classical.byContradiction
      intro hno
      have hno' : ∀ p ∈ walkVisitsB e t (e.size.toNat + 3) (σ.setT t (σ.tst t))
          { cur := (initCursor e σ t).1, offset := (initCursor e σ t).2 }, p.2.cur ≠ L :=
        fun p hp heq => hno ⟨p, hp, heq⟩
      have := walkLoopB_unvisited e t _ _ _ m0 L hno'
      apply hLw
      rw [this]
      exact hclean m0 L
    obtain ⟨pL, hpL, hcurL⟩ := hLvis
    obtain ⟨k, hk, hkeq⟩ := List.getElem_of_mem hpL
    have hkc := walkVisitsB_consecutive e t _ _ _ k hk
    rw [hkeq, hcurL] at hkc
    simp only [] at hkc
    have hj : ((initCursor e σ t).1 - i).toNat < (walkVisitsB e t (e.size.toNat + 3) (σ.setT t (σ.tst t))
        { cur := (initCursor e σ t).1, offset := (initCursor e σ t).2 }).length := by omega
    have hjc := walkVisitsB_consecutive e t _ _ _ _ hj
    simp only [] at hjc
    have hcur : ((walkVisitsB e t (e.size.toNat + 3) (σ.setT t (σ.tst t))
        { cur := (initCursor e σ t).1, offset := (initCursor e σ t).2 })[((initCursor e σ t).1 - i).toNat]).2.cur = i := by
      rw [hjc]; omega
    have := walkLoopB_team_no_idle e wf t sel _ _ _ [] h0 hs0 hel.el.leaf hw hin hel.el.alloc hel.el.nomile
      hsel0 hel.el.isTeam hel.el.nodup hel.el.effort hts hel.rleaf
      _ (List.getElem_mem hj) (by rw [hcur]; exact hall)
    rw [hcur] at this
    split <;> exact this

/-! ### the pick loop -/

def NoIdleBackAtT (e : Env) (σ0 σ : St) (t : Nat) (sel : List Nat) : Prop :=
  ∀ L m0, m0 ∈ sel → usageOf (σ.led.get m0 L).usage t ≠ none →
    ∀ i, L ≤ i → i ≤ e.idx (deadlineG e σ0 σ t) - 1 → AllWorking e sel i →
      (∀ m ∈ sel, usageOf (σ.led.get m i).usage t ≠ none) ∨ (∃ m ∈ sel, Has m i σ) ∨ TeamTight e σ t sel i

def DoneIdleBT (e : Env) (σ0 σ : St) : Prop :=
  ∀ t sel, TeamUB e t sel → (σ.tst t).done = true → (σ.tst t).forward = false →
    ((σ0.tst t).stop = none → Settled e σ t) ∧
    (∃ v, (σ.tst t).stop = some v ∧ v ≤ deadlineG e σ0 σ t) ∧ NoIdleBackAtT e σ0 σ t sel

structure BIdleInvT (e : Env) (σ0 σ : St) (tasks : List Nat) : Prop where
  base : BIdleInv e σ0 σ tasks
  okT : DoneIdleBT e σ0 σ

theorem bIdleInvT_step (e : Env) (wf : WF e) (σ0 σ : St) (tasks : List Nat) (t0 : Nat) (hT : BIdleInvT e σ0 σ tasks)
    (hmem : t0 ∈ tasks) (hready : ready e σ t0 = true) :
    BIdleInvT e σ0 (updateContainers e (scheduleTask e σ t0).1) (tasks.erase t0) := by
  refine ⟨bIdleInv_step e wf σ0 σ tasks t0 hT.base hmem hready, ?_⟩
  have h := hT.base
  have hlf0 := h.leaf t0 hmem
  obtain ⟨heq0, hus0, hnd0, hclean0⟩ := h.pending t0 hmem
  have hsame : ∀ x, x ≠ t0 → ((e.taskD x).leaf = true ∨ (σ.tst x).scheduled = true) →
      (updateContainers e (scheduleTask e σ t0).1).tst x = σ.tst x := by
    intro x hne hx
    rw [updateContainers_fixed e _ x (by rw [scheduleTask_other e σ t0 x hne]; exact hx), scheduleTask_other e σ t0 x hne]
  have hsettled : ∀ t, Settled e σ t → Settled e (updateContainers e (scheduleTask e σ t0).1) t ∧
      (∀ dp ∈ (e.taskD t).allDeps, dp.onstart = true →
        ((updateContainers e (scheduleTask e σ t0).1).tst dp.target).start = (σ.tst dp.target).start) ∧
      (∀ s ∈ successors e t, ((updateContainers e (scheduleTask e σ t0).1).tst s).start = (σ.tst s).start) := by
    intro t hst
    have hd : ∀ dp ∈ (e.taskD t).allDeps, dp.onstart = true →
        (updateContainers e (scheduleTask e σ t0).1).tst dp.target = σ.tst dp.target := by
      intro dp hdp ho
      have hxs := hst.1 dp hdp ho
      exact hsame dp.target (fun hx => by rw [hx, hus0] at hxs; exact Bool.noConfusion hxs) (Or.inr hxs)
    have hsu : ∀ s ∈ successors e t, (updateContainers e (scheduleTask e σ t0).1).tst s = σ.tst s := by
      intro s hs
      have hxs := hst.2 s hs
      exact hsame s (fun hx => by rw [hx, hus0] at hxs; exact Bool.noConfusion hxs) (Or.inr hxs)
    exact ⟨⟨fun dp hdp ho => by rw [hd dp hdp ho]; exact hst.1 dp hdp ho, fun s hs => by rw [hsu s hs]; exact hst.2 s hs⟩,
      fun dp hdp ho => by rw [hd dp hdp ho], fun s hs => by rw [hsu s hs]⟩
  intro t sel hel hd hfw
  by_cases heq : t = t0
  · subst heq
    rw [updateContainers_leaf e _ t hel.el.leaf] at hd hfw
    rw [scheduleTask_self_forward] at hfw
    have hok := scheduleTask_done e σ t hnd0 hd
    have hst : (σ0.tst t).stop = none → Settled e σ t := fun hns =>
      alapReady_settled e σ t hfw (by rw [heq0]; exact hns) hready
    have hdl : deadlineG e σ0 σ t = deadlineOf e σ t := by
      unfold deadlineG deadlineOf; rw [heq0]; cases (σ0.tst t).stop <;> rfl
    have hdc := deadlineG_congr e σ0 σ (updateContainers e (scheduleTask e σ t).1) t (fun hns => (hsettled t (hst hns)).2)
    refine ⟨fun hns => (hsettled t (hst hns)).1, ?_, ?_⟩
    · obtain ⟨v, hv, hle⟩ := scheduleTask_stop_le e wf σ t (h.inrange t hmem) hfw hel.el.effort hnd0 hok
      refine ⟨v, by rw [updateContainers_leaf e _ t hel.el.leaf]; exact hv, ?_⟩
      rw [hdc, hdl]; exact hle
    intro L m0 hm0 hL i hLi hid hall
    rw [hdc] at hid
    rw [hdl] at hid
    rw [updateContainers_led] at hL
    by_cases hic : i ≤ (initCursor e σ t).1
    · have := scheduleTaskB_team_no_idle_interval e wf σ t sel h.inv h.solid hel hfw hnd0 hclean0 L m0 hm0 hL i hLi hic hall
      rcases this with h1 | ⟨m, hm, h1⟩ | h1
      · left; intro m hm; rw [updateContainers_led]; exact h1 m hm
      · right; left; exact ⟨m, hm, by unfold Has at h1 ⊢; rw [updateContainers_led]; exact h1⟩
      · right; right
        exact teamTight_closed_step (fun lid ro hr => closed_updateContainers (tight_closed e lid i ro _) _ hr) h1
    · exfalso
      have := initCursor_back_gap e σ t m0 hfw hel.el.effort hel.el.alloc (hel.mem m0 hm0) i (by omega) hid
      rw [(hall m0 hm0).1] at this; exact Bool.noConfusion this
  · have htsame := hsame t heq (Or.inl hel.el.leaf)
    rw [htsame] at hd hfw
    obtain ⟨hst, hend, hidle⟩ := hT.okT t sel hel hd hfw
    refine ⟨fun hns => (hsettled t (hst hns)).1, ?_, ?_⟩
    · obtain ⟨v, hv, hle⟩ := hend
      refine ⟨v, by rw [htsame]; exact hv, ?_⟩
      rw [deadlineG_congr e σ0 σ _ t (fun hns => (hsettled t (hst hns)).2)]; exact hle
    intro L m0 hm0 hL i hLi hid hall
    rw [deadlineG_congr e σ0 σ _ t (fun hns => (hsettled t (hst hns)).2)] at hid
    rw [updateContainers_led, scheduleTask_same e σ t0 t (Ne.symm heq) m0 L] at hL
    rcases hidle L m0 hm0 hL i hLi hid hall with h1 | ⟨m, hm, h1⟩ | h1
    · left
      intro m hm
      rw [updateContainers_led, scheduleTask_same e σ t0 t (Ne.symm heq) m i]
      exact h1 m hm
    · right; left
      refine ⟨m, hm, ?_⟩
      have h2 := closed_scheduleTask (has_closed e m i) wf σ t0 h.inv hlf0 trivial h1
      unfold Has at h2 ⊢
      rw [updateContainers_led]; exact h2
    · right; right
      exact teamTight_closed_step (fun lid ro hr =>
        closed_updateContainers (tight_closed e lid i ro _) _
          (closed_scheduleTask (tight_closed e lid i ro _) wf σ t0 h.inv hlf0 trivial hr)) h1

theorem DoneIdleBT.of_eq {e : Env} {σ0 σ σ' : St} (hl : σ'.led = σ.led) (ht : σ'.ts = σ.ts) (hc : σ'.cnt = σ.cnt)
    (h : DoneIdleBT e σ0 σ) : DoneIdleBT e σ0 σ' := by
  unfold DoneIdleBT NoIdleBackAtT Settled deadlineG latestEnd Has TeamTight Tight St.tst at *
  rw [hl, ht, hc]; exact h

theorem pickLoop_doneIdleBT (e : Env) (wf : WF e) (σ0 : St) (fuel : Nat) (tasks failed : List Nat) (σ : St)
    (h : BIdleInvT e σ0 σ tasks) : DoneIdleBT e σ0 (pickLoop e fuel tasks failed σ).1 := by
  induction fuel generalizing tasks failed σ with
  | zero => exact h.okT
  | succ f ih =>
    unfold pickLoop
    split
    · exact h.okT
    · split
      · rename_i t0 hfind
        have hmem : t0 ∈ tasks := List.mem_of_find?_eq_some hfind
        have hready : ready e σ t0 = true := by
          have := List.find?_some hfind; simpa using this
        exact ih _ _ _ (bIdleInvT_step e wf σ0 σ tasks t0 h hmem hready)
      · split
        · exact DoneIdleBT.of_eq (σ := σ) rfl rfl rfl h.okT
        · exact h.okT

/-- **C08, backward mode, teams, end to end.**  After scheduling any well-formed project: every completed backward
    (ALAP) team task — several pairwise different leaf resources, limits allowed — ends by its deadline, and
    between any slot `L` in which it is booked and the last slot before the deadline, every slot in which ALL its members are on
    shift and not on leave carries the task on every member, or a booking on some member, or some limit of a member or of the
    task has no room left there for the whole team (`TeamTight`). -/
theorem runScenario_doneIdleBT (e : Env) (wf : WF e) (tr : Tree e) : DoneIdleBT e (loopStart e) (runScenario e) := by
  have hdf : DoneFalse (prepare e (initState e)) := prepare_doneFalse e _ (doneFalse_init e)
  have hprep : Inv e (prepare e (initState e)) := prepare_inv e _ (inv_init e wf)
  have hsol : Solid e (prepare e (initState e)) := closed_prepare (solid_closed e wf) _ (solid_init e wf)
  have hempty : ∀ r i, ((prepare e (initState e)).led.get r i).usage = [] := by
    intro r i; rw [prepare_led]; simp [initState, Ledger.get_empty]
  have h2 : BIdleInv e (loopStart e) (loopStart e) (todoOf e (loopStart e)) := by
    refine ⟨preLoop_inv e _ hprep, closed_preLoop (solid_closed e wf) _ hsol, todoOf_nodup e _, todoOf_leaf e _, ?_, ?_, ?_⟩
    · intro x hx; unfold loopStart; rw [preLoop_size, prepare_size, initState_size]; exact (todoOf_mem e _ x hx).1
    · intro x hx
      refine ⟨rfl, (todoOf_mem e _ x hx).2, by unfold loopStart; exact preLoop_doneFalse e _ hdf x, fun r i => ?_⟩
      unfold loopStart
      rw [preLoop_led, hempty r i]; rfl
    · intro x r _ hdone
      have : ((loopStart e).tst x).done = false := by unfold loopStart; exact preLoop_doneFalse e _ hdf x
      rw [this] at hdone; exact Bool.noConfusion hdone
  have h2T : BIdleInvT e (loopStart e) (loopStart e) (todoOf e (loopStart e)) := by
    refine ⟨h2, ?_⟩
    intro x sel _ hdone
    have : ((loopStart e).tst x).done = false := by unfold loopStart; exact preLoop_doneFalse e _ hdf x
    rw [this] at hdone; exact Bool.noConfusion hdone
  have h3 := pickLoop_doneIdleBT e wf (loopStart e) ((todoOf e (loopStart e)).length + 1) (todoOf e (loopStart e)) [] (loopStart e) h2T
  have h4 : DoneIdleBT e (loopStart e) (scheduleScenario e (prepare e (initState e))) := by
    unfold scheduleScenario
    simp only []
    split
    · exact h3
    · exact DoneIdleBT.of_eq (σ := (pickLoop e ((todoOf e (loopStart e)).length + 1) (todoOf e (loopStart e)) [] (loopStart e)).1)
        rfl rfl rfl h3
  unfold runScenario
  intro t sel hel hd hfw
  rw [finishScenario_leafT e _ t hel.el.leaf] at hd hfw
  obtain ⟨hst, hend, hidle⟩ := h4 t sel hel hd hfw
  have hc := scheduleScenario_cont e tr
  have hsd := finishScenario_sameDates e _ hc.1 hc.2
  refine ⟨fun hns => ?_, ?_, ?_⟩
  · have := hst hns
    exact ⟨fun dp hdp ho => by rw [(hsd dp.target).2.2]; exact this.1 dp hdp ho,
      fun s hs => by rw [(hsd s).2.2]; exact this.2 s hs⟩
  · obtain ⟨v, hv, hle⟩ := hend
    refine ⟨v, by rw [finishScenario_leafT e _ t hel.el.leaf]; exact hv, ?_⟩
    rw [deadlineG_congr e (loopStart e) (scheduleScenario e (prepare e (initState e))) _ t
      (fun _ => ⟨fun dp _ _ => (hsd dp.target).1, fun s _ => (hsd s).1⟩)]
    exact hle
  · intro L m0 hm0 hL i hLi hid hall
    rw [deadlineG_congr e (loopStart e) (scheduleScenario e (prepare e (initState e))) _ t
      (fun _ => ⟨fun dp _ _ => (hsd dp.target).1, fun s _ => (hsd s).1⟩)] at hid
    rw [finishScenario_led] at hL
    rcases hidle L m0 hm0 hL i hLi hid hall with h1 | ⟨m, hm, h1⟩ | h1
    · left; intro m hm; rw [finishScenario_led]; exact h1 m hm
    · right; left; exact ⟨m, hm, by unfold Has at h1 ⊢; rw [finishScenario_led]; exact h1⟩
    · right; right
      exact teamTight_closed_step (fun lid ro hr => closed_finishScenario (tight_closed e lid i ro _) _ hr) h1

end SP
