import Proofs.Frame
import Proofs.DepGlobal
import Proofs.Containers
import Proofs.Order
/-!
C09 as a relation between two runs: the project `ext e zd` is the project `e` with one more task `zd` appended
(index `n = e.tasks.size`).  If the added task is a top-level leaf without dependencies and limits, nothing refers to it, and
its priority is strictly the lowest, then every other task has the same attributes (start, end, scheduled, …) after
`runScenario (ext e zd)` as after `runScenario e`.

Part 1: congruence — every function of the scheduler, applied to the extended environment and to a state with one more task
slot (`lift σ a`), does to the old tasks what it does in the base environment.
-/
namespace SP

/-- the environment with one more task -/
def ext (e : Env) (zd : TaskD) : Env := { e with tasks := e.tasks.push zd }

/-- the state with one more task slot -/
def lift (σ : St) (a : TSt) : St := { σ with ts := σ.ts.push a }

@[simp] theorem lift_led (σ : St) (a : TSt) : (lift σ a).led = σ.led := rfl
@[simp] theorem lift_cnt (σ : St) (a : TSt) : (lift σ a).cnt = σ.cnt := rfl
@[simp] theorem lift_marks (σ : St) (a : TSt) : (lift σ a).marks = σ.marks := rfl
@[simp] theorem lift_warnings (σ : St) (a : TSt) : (lift σ a).warnings = σ.warnings := rfl
theorem lift_size (σ : St) (a : TSt) : (lift σ a).ts.size = σ.ts.size + 1 := by simp [lift]

theorem lift_tst (σ : St) (a : TSt) (t : Nat) (h : t ≠ σ.ts.size) : (lift σ a).tst t = σ.tst t := by
  unfold lift St.tst
  simp only [Array.getD_eq_getD_getElem?, Array.getElem?_push]
  have : ¬ (t = σ.ts.size) := h
  simp [this]

theorem lift_tst_self (σ : St) (a : TSt) : (lift σ a).tst σ.ts.size = a := by
  unfold lift St.tst
  simp [Array.getD_eq_getD_getElem?, Array.getElem?_push]

theorem push_setIfInBounds {α : Type} (xs : Array α) (a x : α) (t : Nat) (h : t ≠ xs.size) :
    (xs.push a).setIfInBounds t x = (xs.setIfInBounds t x).push a := by
  apply Array.ext_getElem?
  intro i
  simp only [Array.getElem?_setIfInBounds, Array.getElem?_push, Array.size_push, Array.size_setIfInBounds]
  by_cases h1 : t = i
  · subst h1
    simp only [if_true, h, if_false]
    by_cases h2 : t < xs.size
    · have : t < xs.size + 1 := by omega
      simp [h2, this]
    · have : ¬ t < xs.size + 1 := by omega
      simp [h2, this]
  · simp [h1]

theorem push_setIfInBounds_self {α : Type} (xs : Array α) (a x : α) : (xs.push a).setIfInBounds xs.size x = xs.push x := by
  apply Array.ext_getElem?
  intro i
  simp only [Array.getElem?_setIfInBounds, Array.getElem?_push, Array.size_push]
  by_cases h1 : xs.size = i
  · subst h1; simp
  · have : ¬ (i = xs.size) := fun h => h1 h.symm
    simp [h1, this]

theorem lift_setT (σ : St) (a : TSt) (t : Nat) (x : TSt) (h : t ≠ σ.ts.size) :
    (lift σ a).setT t x = lift (σ.setT t x) a := by
  unfold lift St.setT
  simp only [push_setIfInBounds _ _ _ _ h]

theorem lift_setT_self (σ : St) (a : TSt) (x : TSt) : (lift σ a).setT σ.ts.size x = lift σ x := by
  unfold lift St.setT
  simp only [push_setIfInBounds_self]

theorem lift_setT_at (σ : St) (a : TSt) (n : Nat) (x : TSt) (h : σ.ts.size = n) : (lift σ a).setT n x = lift σ x := by
  rw [← h]; exact lift_setT_self σ a x

theorem lift_with_led (σ : St) (a : TSt) (L : Ledger) : ({ lift σ a with led := L } : St) = lift { σ with led := L } a := rfl
theorem lift_with_cnt (σ : St) (a : TSt) (C : Counters) : ({ lift σ a with cnt := C } : St) = lift { σ with cnt := C } a := rfl

/-! ### the environment -/

theorem ext_taskD (e : Env) (zd : TaskD) (t : Nat) (h : t ≠ e.tasks.size) : (ext e zd).taskD t = e.taskD t := by
  unfold ext Env.taskD
  simp only [Array.getD_eq_getD_getElem?, Array.getElem?_push]
  have : ¬ (t = e.tasks.size) := h
  simp [this]

theorem ext_taskD_self (e : Env) (zd : TaskD) : (ext e zd).taskD e.tasks.size = zd := by
  unfold ext Env.taskD
  simp [Array.getD_eq_getD_getElem?, Array.getElem?_push]

theorem ext_size (e : Env) (zd : TaskD) : (ext e zd).tasks.size = e.tasks.size + 1 := by simp [ext]

/-- what the congruence needs of the base environment: parents precede their children -/
def ParentLt (e : Env) : Prop := ∀ t p, (e.taskD t).parent = some p → p < t

theorem taskD_default (e : Env) (t : Nat) (h : e.tasks.size ≤ t) : e.taskD t = {} := by
  unfold Env.taskD
  simp [Array.getD_eq_getD_getElem?, Array.getElem?_eq_none h]

theorem parent_in_range (e : Env) (hp : ParentLt e) (t p : Nat) (h : (e.taskD t).parent = some p) :
    t < e.tasks.size ∧ p < t := by
  refine ⟨?_, hp t p h⟩
  by_cases ht : t < e.tasks.size
  · exact ht
  · rw [taskD_default e t (by omega)] at h; cases h

theorem taskChainAux_ext (e : Env) (zd : TaskD) (hp : ParentLt e) (f t : Nat) (h : t ≠ e.tasks.size) :
    (ext e zd).taskChainAux f t = e.taskChainAux f t := by
  induction f generalizing t with
  | zero => rfl
  | succ f ih =>
    unfold Env.taskChainAux
    rw [ext_taskD e zd t h]
    cases hpar : (e.taskD t).parent with
    | none => rfl
    | some p =>
      simp only []
      have := parent_in_range e hp t p hpar
      rw [ih p (by omega)]

theorem taskChainAux_fuel (e : Env) (hp : ParentLt e) (f t : Nat) (h : t ≤ f ∨ e.tasks.size ≤ t) :
    e.taskChainAux (f + 1) t = e.taskChainAux f t := by
  induction f generalizing t with
  | zero =>
    unfold Env.taskChainAux
    cases hpar : (e.taskD t).parent with
    | none => rfl
    | some p =>
      have := parent_in_range e hp t p hpar
      omega
  | succ f ih =>
    rw [Env.taskChainAux.eq_def e (f + 1 + 1), Env.taskChainAux.eq_def e (f + 1)]
    simp only []
    cases hpar : (e.taskD t).parent with
    | none => rfl
    | some p =>
      simp only []
      have := parent_in_range e hp t p hpar
      rw [ih p (by omega)]

theorem taskChain_ext (e : Env) (zd : TaskD) (hp : ParentLt e) (t : Nat) (h : t ≠ e.tasks.size) :
    (ext e zd).taskChain t = e.taskChain t := by
  unfold Env.taskChain
  rw [ext_size, taskChainAux_ext e zd hp _ t h]
  exact taskChainAux_fuel e hp _ t (by omega)

theorem taskChainAux_mem (e : Env) (hp : ParentLt e) (f t x : Nat) (hx : x ∈ e.taskChainAux f t) : x ≤ t := by
  induction f generalizing t with
  | zero => simp [Env.taskChainAux] at hx; omega
  | succ f ih =>
    unfold Env.taskChainAux at hx
    cases hpar : (e.taskD t).parent with
    | none => simp [hpar] at hx; omega
    | some p =>
      simp only [hpar, List.mem_cons] at hx
      have := parent_in_range e hp t p hpar
      rcases hx with h | h
      · omega
      · have := ih p h; omega

/-- no ancestor of an old task is the new task -/
theorem taskChain_ne (e : Env) (hp : ParentLt e) (t x : Nat) (h : t ≠ e.tasks.size) (hx : x ∈ e.taskChain t) :
    x ≠ e.tasks.size := by
  unfold Env.taskChain at hx
  by_cases ht : t < e.tasks.size
  · have := taskChainAux_mem e hp _ t x hx; omega
  · -- beyond the array: the chain is [t]
    have hd := taskD_default e t (by omega)
    cases hf : e.tasks.size with
    | zero => rw [hf] at hx; simp [Env.taskChainAux] at hx; omega
    | succ f =>
      rw [hf] at hx
      unfold Env.taskChainAux at hx
      rw [hd] at hx
      simp at hx
      omega

theorem taskLimitIds_ext (e : Env) (zd : TaskD) (hp : ParentLt e) (t : Nat) (h : t ≠ e.tasks.size) :
    taskLimitIds (ext e zd) t = taskLimitIds e t := by
  unfold taskLimitIds
  rw [taskChain_ext e zd hp t h]
  have : ∀ (l : List Nat), (∀ x ∈ l, x ≠ e.tasks.size) →
      l.flatMap (fun x => ((ext e zd).taskD x).limits) = l.flatMap (fun x => (e.taskD x).limits) := by
    intro l
    induction l with
    | nil => intro _; rfl
    | cons y ys ih =>
      intro hl
      simp only [List.flatMap_cons]
      rw [ext_taskD e zd y (hl y List.mem_cons_self), ih (fun x hx => hl x (List.mem_cons_of_mem _ hx))]
  exact this _ (fun x hx => taskChain_ne e hp t x h hx)

/-! ### functions that read neither the task table nor the task states -/

section
variable (e : Env) (zd : TaskD)

theorem limitOk_env (σ : St) (lid : Nat) (i : Int) (r : Option Nat) :
    limitOk (ext e zd) σ lid i r = limitOk e σ lid i r := rfl
theorem limitInc_env (σ : St) (lid : Nat) (i : Int) (r : Option Nat) :
    limitInc (ext e zd) σ lid i r = limitInc e σ lid i r := rfl
theorem resChainAux_env (f r : Nat) : (ext e zd).resChainAux f r = e.resChainAux f r := by
  induction f generalizing r with
  | zero => rfl
  | succ f ih =>
    unfold Env.resChainAux
    show (match (e.resD r).parent with | none => [r] | some p => r :: (ext e zd).resChainAux f p) = _
    cases (e.resD r).parent with
    | none => rfl
    | some p => simp only [ih]
theorem resLimitIds_env (r : Nat) : resLimitIds (ext e zd) r = resLimitIds e r := by
  unfold resLimitIds Env.resChain
  rw [show (ext e zd).res.size = e.res.size from rfl, resChainAux_env]
  rfl
theorem available_env (σ : St) (r : Nat) (i : Int) : available (ext e zd) σ r i = available e σ r i := by
  unfold available
  rw [resLimitIds_env]
  rfl

theorem limitOk_lift (σ : St) (a : TSt) (lid : Nat) (i : Int) (r : Option Nat) :
    limitOk e (lift σ a) lid i r = limitOk e σ lid i r := rfl
theorem available_lift (σ : St) (a : TSt) (r : Nat) (i : Int) : available e (lift σ a) r i = available e σ r i := rfl

theorem limitInc_lift (σ : St) (a : TSt) (lid : Nat) (i : Int) (r : Option Nat) :
    limitInc e (lift σ a) lid i r = lift (limitInc e σ lid i r) a := by
  unfold limitInc
  simp only [lift_cnt]
  split
  · rfl
  · split <;> rfl

theorem foldl_limitInc_lift (σ : St) (a : TSt) (l : List Nat) (i : Int) (r : Option Nat) :
    l.foldl (fun acc lid => limitInc e acc lid i r) (lift σ a) = lift (l.foldl (fun acc lid => limitInc e acc lid i r) σ) a := by
  induction l generalizing σ with
  | nil => rfl
  | cons x xs ih => simp only [List.foldl_cons, limitInc_lift, ih]

theorem foldl_limitInc_env (σ : St) (l : List Nat) (i : Int) (r : Option Nat) :
    l.foldl (fun acc lid => limitInc (ext e zd) acc lid i r) σ = l.foldl (fun acc lid => limitInc e acc lid i r) σ := rfl

theorem taskLimitsOk_ext (hp : ParentLt e) (σ : St) (a : TSt) (t : Nat) (i : Int) (r : Nat) (h : t ≠ e.tasks.size) :
    taskLimitsOk (ext e zd) (lift σ a) t i r = taskLimitsOk e σ t i r := by
  unfold taskLimitsOk
  rw [taskLimitIds_ext e zd hp t h]
  rfl

theorem bookSlot_ext (hp : ParentLt e) (σ : St) (a : TSt) (r : Nat) (i : Int) (t : Nat) (h : t ≠ e.tasks.size) :
    bookSlot (ext e zd) (lift σ a) r i t = (lift (bookSlot e σ r i t).1 a, (bookSlot e σ r i t).2) := by
  unfold bookSlot
  simp only []
  rw [taskLimitIds_ext e zd hp t h]
  refine Prod.ext ?_ rfl
  simp only []
  rw [resLimitIds_env]
  show (taskLimitIds e t).foldl (fun acc lid => limitInc e acc lid i (some r))
      ((resLimitIds e r).foldl (fun acc lid => limitInc e acc lid i none)
        (lift { σ with led := σ.led.set r i ((σ.led.get r i).book e.G t), marks := σ.marks.set r (e.norm i) } a)) = _
  rw [foldl_limitInc_lift, foldl_limitInc_lift]

theorem bookResource_ext (hp : ParentLt e) (σ : St) (a : TSt) (t : Nat) (w : Walk) (r : Nat) (h : t ≠ e.tasks.size) :
    bookResource (ext e zd) (lift σ a) t w r = (lift (bookResource e σ t w r).1 a, (bookResource e σ t w r).2) := by
  unfold bookResource
  simp only []
  by_cases hc : (w.offset > 0 && w.done == 0) = true
  · simp only [hc, if_true]
    show (if available (ext e zd) (lift { σ with led := σ.led.set r w.cur ((σ.led.get r w.cur).reserve w.offset) } a) r w.cur &&
          taskLimitsOk (ext e zd) (lift { σ with led := σ.led.set r w.cur ((σ.led.get r w.cur).reserve w.offset) } a) t w.cur r
        then bookSlot (ext e zd) (lift { σ with led := σ.led.set r w.cur ((σ.led.get r w.cur).reserve w.offset) } a) r w.cur t
        else (lift { σ with led := σ.led.set r w.cur ((σ.led.get r w.cur).reserve w.offset) } a, 0)) = _
    rw [taskLimitsOk_ext e zd hp _ a t w.cur r h, bookSlot_ext e zd hp _ a r w.cur t h]
    rw [available_env, available_lift]
    split <;> rfl
  · simp only [hc, Bool.false_eq_true, if_false]
    rw [taskLimitsOk_ext e zd hp _ a t w.cur r h, bookSlot_ext e zd hp _ a r w.cur t h]
    rw [available_env, available_lift]
    split <;> rfl

end

/-! ### selection, the team gate, one slot of bookings -/

section
variable (e : Env) (zd : TaskD)

theorem estimateAux_ext (σ : St) (a : TSt) (r : Nat) (perSlot : Rat) (f : Nat) (cur : Int) (rem : Rat) :
    estimateAux (ext e zd) (lift σ a) r perSlot f cur rem = estimateAux e σ r perSlot f cur rem := by
  induction f generalizing cur rem with
  | zero => rfl
  | succ f ih =>
    unfold estimateAux
    rw [available_env, available_lift]
    show (if (rem > 0 && decide (cur < e.size)) = true then _ else _) = _
    simp only [ih]

theorem estimate_ext (σ : St) (a : TSt) (rs : List Nat) (effort : Rat) (cur : Int) :
    estimate (ext e zd) (lift σ a) rs effort cur = estimate e σ rs effort cur := by
  unfold estimate
  cases rs with
  | nil => rfl
  | cons r _ =>
    simp only []
    rw [estimateAux_ext]
    rfl

theorem selectBest_ext (σ : St) (a : TSt) (prim alt : List Nat) (effort : Rat) (cur : Int) :
    selectBest (ext e zd) (lift σ a) prim alt effort cur = selectBest e σ prim alt effort cur := by
  unfold selectBest
  simp only [estimate_ext]

theorem countMember_ext (hp : ParentLt e) (σ : St) (a : TSt) (t : Nat) (i : Int) (r : Nat) (h : t ≠ e.tasks.size) :
    countMember (ext e zd) (lift σ a) t i r = lift (countMember e σ t i r) a := by
  unfold countMember
  simp only []
  rw [taskLimitIds_ext e zd hp t h, resLimitIds_env]
  show (taskLimitIds e t).foldl (fun acc lid => limitInc e acc lid i (some r))
      ((resLimitIds e r).foldl (fun acc lid => limitInc e acc lid i none) (lift σ a)) = _
  rw [foldl_limitInc_lift, foldl_limitInc_lift]

theorem teamGateOk_ext (hp : ParentLt e) (t : Nat) (i : Int) (σ : St) (a : TSt) (sel : List Nat) (h : t ≠ e.tasks.size) :
    teamGateOk (ext e zd) t i (lift σ a) sel = teamGateOk e t i σ sel := by
  induction sel generalizing σ with
  | nil => rfl
  | cons r rs ih =>
    unfold teamGateOk
    rw [available_env, available_lift, taskLimitsOk_ext e zd hp σ a t i r h, countMember_ext e zd hp σ a t i r h, ih]

theorem isTeam_ext (t : Nat) (sel : List Nat) (h : t ≠ e.tasks.size) : isTeam (ext e zd) t sel = isTeam e t sel := by
  unfold isTeam; rw [ext_taskD e zd t h]

theorem teamGateFails_ext (hp : ParentLt e) (σ : St) (a : TSt) (t : Nat) (w : Walk) (sel : List Nat) (h : t ≠ e.tasks.size) :
    teamGateFails (ext e zd) (lift σ a) t w sel = teamGateFails e σ t w sel := by
  unfold teamGateFails; rw [isTeam_ext e zd t sel h, teamGateOk_ext e zd hp t w.cur σ a sel h]

theorem teamCommon_lift (σ : St) (a : TSt) (cur : Int) (sel : List Nat) : teamCommon (lift σ a) cur sel = teamCommon σ cur sel := rfl

theorem reserveAt_lift (σ : St) (a : TSt) (r : Nat) (i : Int) (off : Rat) :
    reserveAt (lift σ a) r i off = lift (reserveAt σ r i off) a := rfl

theorem levelTeam_lift (σ : St) (a : TSt) (cur : Int) (sel : List Nat) :
    levelTeam (lift σ a) cur sel = lift (levelTeam σ cur sel) a := by
  unfold levelTeam
  rw [teamCommon_lift]
  have : ∀ (l : List Nat) (acc : St) (c : Rat),
      l.foldl (fun acc r => reserveAt acc r cur c) (lift acc a) = lift (l.foldl (fun acc r => reserveAt acc r cur c) acc) a := by
    intro l
    induction l with
    | nil => intro acc c; rfl
    | cons x xs ih => intro acc c; simp only [List.foldl_cons, reserveAt_lift, ih]
  exact this _ _ _

theorem leveled_ext (σ : St) (a : TSt) (t : Nat) (cur : Int) (sel : List Nat) (h : t ≠ e.tasks.size) :
    leveled (ext e zd) (lift σ a) t cur sel = lift (leveled e σ t cur sel) a := by
  unfold leveled
  rw [isTeam_ext e zd t sel h]
  split
  · exact levelTeam_lift σ a cur sel
  · rfl

theorem markStart_ext (σ : St) (a : TSt) (t : Nat) (w : Walk) (h : t ≠ e.tasks.size) (hsz : σ.ts.size = e.tasks.size) :
    markStart (ext e zd) (lift σ a) t w = lift (markStart e σ t w) a := by
  have ht : t ≠ σ.ts.size := by rw [hsz]; exact h
  unfold markStart
  rw [ext_taskD e zd t h, lift_tst σ a t ht]
  split
  · rw [lift_setT σ a t _ ht]; rfl
  · rfl

theorem selectedOf_ext (σ : St) (a : TSt) (t : Nat) (w : Walk) (h : t ≠ e.tasks.size) :
    selectedOf (ext e zd) (lift σ a) t w = selectedOf e σ t w := by
  unfold selectedOf
  cases w.selected with
  | some s => rfl
  | none => simp only []; rw [ext_taskD e zd t h, selectBest_ext]

/-- the accumulator of the booking loop with one more task slot -/
def liftAcc (b : BookAcc) (a : TSt) : BookAcc := { b with σ := lift b.σ a }

theorem bookOne_ext (hp : ParentLt e) (t : Nat) (w : Walk) (b : BookAcc) (a : TSt) (r : Nat) (h : t ≠ e.tasks.size) :
    bookOne (ext e zd) t w (liftAcc b a) r = liftAcc (bookOne e t w b r) a := by
  have hb := bookResource_ext e zd hp b.σ a t w r h
  unfold bookOne liftAcc
  simp only [hb]
  split <;> rfl

theorem bookAll_ext (hp : ParentLt e) (σ : St) (a : TSt) (t : Nat) (w : Walk) (sel : List Nat) (h : t ≠ e.tasks.size) :
    bookAll (ext e zd) (lift σ a) t w sel = liftAcc (bookAll e σ t w sel) a := by
  unfold bookAll
  have : ∀ (l : List Nat) (b : BookAcc),
      l.foldl (bookOne (ext e zd) t w) (liftAcc b a) = liftAcc (l.foldl (bookOne e t w) b) a := by
    intro l
    induction l with
    | nil => intro b; rfl
    | cons x xs ih => intro b; simp only [List.foldl_cons, bookOne_ext e zd hp t w b a x h, ih]
  exact this sel { σ := σ, last := w.last }

theorem bookResources_ext (hp : ParentLt e) (σ : St) (a : TSt) (t : Nat) (w : Walk) (h : t ≠ e.tasks.size)
    (hsz : σ.ts.size = e.tasks.size) :
    bookResources (ext e zd) (lift σ a) t w = (lift (bookResources e σ t w).1 a, (bookResources e σ t w).2) := by
  unfold bookResources
  rw [ext_taskD e zd t h]
  split
  · rfl
  · simp only []
    rw [selectedOf_ext e zd σ a t w h]
    split
    · rfl
    · rw [teamGateFails_ext e zd hp σ a t _ _ h]
      split
      · rfl
      · rw [leveled_ext e zd σ a t _ _ h, bookAll_ext e zd hp _ a t _ _ h]
        show (if (bookAll e (leveled e σ t w.cur (selectedOf e σ t w)) t _ (selectedOf e σ t w)).any = true then _ else _) = _
        split
        · refine Prod.ext ?_ rfl
          show markStart (ext e zd) (lift (bookAll e (leveled e σ t w.cur (selectedOf e σ t w)) t _ (selectedOf e σ t w)).σ a) t _ = _
          rw [markStart_ext e zd _ a t _ h (by rw [bookAll_ts, leveled_ts]; exact hsz)]
        · rfl

end

/-! ### finishing, one slot, the walk -/

section
variable (e : Env) (zd : TaskD)

theorem releaseOthers_lift (σ : St) (a : TSt) (t : Nat) (cur : Int) (r : Nat) (need : Rat) (sel : List Nat) :
    releaseOthers (lift σ a) t cur r need sel = lift (releaseOthers σ t cur r need sel) a := by
  unfold releaseOthers
  induction sel generalizing σ with
  | nil => rfl
  | cons m ms ih =>
    simp only [List.foldl_cons]
    by_cases hm : (m == r) = true
    · simp only [hm, if_true]; exact ih σ
    · simp only [hm, Bool.false_eq_true, if_false, lift_led]
      cases hu : usageOf (σ.led.get m cur).usage t with
      | none => simp only []; exact ih σ
      | some secs =>
        simp only []
        exact ih { σ with led := σ.led.set m cur ((σ.led.get m cur).release t (min need secs)) }

theorem needSecs_ext (σ : St) (a : TSt) (t : Nat) (w : Walk) (before : Rat) (r : Nat) (h : t ≠ e.tasks.size) :
    needSecs (ext e zd) (lift σ a) t w before r = needSecs e σ t w before r := by
  unfold needSecs
  rw [ext_taskD e zd t h]
  rfl

theorem finishTask_ext (σ : St) (a : TSt) (t : Nat) (w : Walk) (before : Rat) (fwd : Bool) (h : t ≠ e.tasks.size) :
    finishTask (ext e zd) (lift σ a) t w before fwd = (lift (finishTask e σ t w before fwd).1 a, (finishTask e σ t w before fwd).2) := by
  unfold finishTask
  cases hl : w.last with
  | none =>
    simp only []
    rw [ext_taskD e zd t h]
    rfl
  | some r =>
    simp only []
    rw [needSecs_ext e zd σ a t w before r h]
    refine Prod.ext ?_ rfl
    simp only []
    exact releaseOthers_lift { σ with led := σ.led.set r w.cur ((σ.led.get r w.cur).release t (needSecs e σ t w before r)) } a t w.cur r _ _

theorem finishIsTie_ext (σ : St) (a : TSt) (t : Nat) (w : Walk) (before : Rat) (h : t ≠ e.tasks.size) :
    finishIsTie (ext e zd) (lift σ a) t w before = finishIsTie e σ t w before := by
  unfold finishIsTie
  cases hl : w.last with
  | none => rfl
  | some r =>
    simp only []
    rw [needSecs_ext e zd σ a t w before r h]
    rfl

end

section
variable (e : Env) (zd : TaskD)

theorem scheduleSlot_ext (hp : ParentLt e) (σ : St) (a : TSt) (t : Nat) (w : Walk) (h : t ≠ e.tasks.size)
    (hsz : σ.ts.size = e.tasks.size) :
    scheduleSlot (ext e zd) (lift σ a) t w = (lift (scheduleSlot e σ t w).1 a, (scheduleSlot e σ t w).2) := by
  have ht : t ≠ σ.ts.size := by rw [hsz]; exact h
  unfold scheduleSlot
  simp only []
  rw [ext_taskD e zd t h, lift_tst σ a t ht]
  split
  · split
    · split
      · rw [lift_setT σ a t _ ht]
      · rw [lift_setT σ a t _ ht]; rfl
    · split
      · rw [lift_setT σ a t _ ht]
      · rw [lift_setT σ a t _ ht]; rfl
  · rw [bookResources_ext e zd hp σ a t w h hsz]
    simp only []
    split
    · have hsz1 : (bookResources e σ t w).1.ts.size = σ.ts.size := (bookResources_frame e σ t w).2.2.2.2
      have hsz2 : (finishTask e (bookResources e σ t w).1 t (bookResources e σ t w).2 w.done (σ.tst t).forward).1.ts.size = σ.ts.size := by
        rw [finishTask_ts]; exact hsz1
      rw [finishTask_ext e zd _ a t _ _ _ h, finishIsTie_ext e zd _ a t _ _ h]
      simp only []
      rw [lift_tst _ a t (by rw [hsz2]; exact ht), lift_setT _ a t _ (by rw [hsz2]; exact ht)]
      rfl
    · rfl

theorem walkLoop_ext (hp : ParentLt e) (t : Nat) (fwd : Bool) (fuel : Nat) (σ : St) (a : TSt) (w : Walk) (h : t ≠ e.tasks.size)
    (hsz : σ.ts.size = e.tasks.size) :
    walkLoop (ext e zd) t fwd fuel (lift σ a) w = (lift (walkLoop e t fwd fuel σ w).1 a, (walkLoop e t fwd fuel σ w).2) := by
  induction fuel generalizing σ w with
  | zero => rfl
  | succ f ih =>
    unfold walkLoop
    simp only []
    rw [scheduleSlot_ext e zd hp σ a t w h hsz]
    simp only []
    split
    · rfl
    · show (if _ then _ else _) = _
      rw [show (ext e zd).upper = e.upper from rfl]
      split
      · rfl
      · exact ih _ _ (by rw [(scheduleSlot_frame e σ t w).2.2.2.2]; exact hsz)

end

/-! ### the added task: a top-level leaf nothing refers to -/

structure Intr (e : Env) (zd : TaskD) : Prop where
  par : ParentLt e
  leaf : zd.leaf = true
  noparent : zd.parent = none
  zdeps : ∀ dp ∈ zd.allDeps, dp.target < e.tasks.size
  nolimits : zd.limits = []
  noref : ∀ t, ∀ dp ∈ (e.taskD t).allDeps, dp.target ≠ e.tasks.size
  noref' : ∀ t, ∀ dp ∈ (e.taskD t).deps, dp.target ≠ e.tasks.size
  nochild : ∀ t, e.tasks.size ∉ (e.taskD t).children

section
variable (e : Env) (zd : TaskD)

theorem foldl_congr_mem {α β : Type} (f g : β → α → β) (l : List α) (i1 i2 : β)
    (h : ∀ acc, ∀ x ∈ l, f acc x = g acc x) (hi : i1 = i2) : l.foldl f i1 = l.foldl g i2 := by
  subst hi
  induction l generalizing i1 with
  | nil => rfl
  | cons x xs ih =>
    simp only [List.foldl_cons]
    rw [h i1 x List.mem_cons_self]
    exact ih _ (fun acc y hy => h acc y (List.mem_cons_of_mem _ hy))

theorem earliestStart_lift (σ : St) (a : TSt) (deps : List Dep) (base : Int) (h : ∀ dp ∈ deps, dp.target ≠ σ.ts.size) :
    earliestStart e (lift σ a) deps base = earliestStart e σ deps base := by
  unfold earliestStart
  induction deps generalizing base with
  | nil => rfl
  | cons d ds ih =>
    simp only [List.foldl_cons]
    rw [lift_tst σ a d.target (h d List.mem_cons_self)]
    exact ih _ (fun dp hdp => h dp (List.mem_cons_of_mem _ hdp))

theorem successors_lt (t s : Nat) (hs : s ∈ successors e t) : s < e.tasks.size := by
  unfold successors at hs
  exact List.mem_range.mp (List.mem_filter.mp hs).1

end

section
variable (e : Env) (zd : TaskD)

theorem backToWork_env (p : Int → Bool) (f : Nat) (c : Int) : backToWork (ext e zd) p f c = backToWork e p f c := by
  induction f generalizing c with
  | zero => rfl
  | succ f ih => unfold backToWork; simp only [ih]

theorem lenWalk_env (f : Nat) (rem i dt : Int) : lenWalk (ext e zd) f rem i dt = lenWalk e f rem i dt := by
  induction f generalizing rem i dt with
  | zero => rfl
  | succ f ih =>
    unfold lenWalk
    rw [show (ext e zd).upper = e.upper from rfl, show (ext e zd).projWork = e.projWork from rfl,
      show (ext e zd).G = e.G from rfl, show (ext e zd).time = e.time from rfl]
    simp only [ih]

theorem earliestStart_env (σ : St) (deps : List Dep) (base : Int) :
    earliestStart (ext e zd) σ deps base = earliestStart e σ deps base := by
  unfold earliestStart depDate
  simp only [lenWalk_env]
  rfl

theorem fwdToWork_env (f : Nat) (c : Int) : fwdToWork (ext e zd) f c = fwdToWork e f c := by
  induction f generalizing c with
  | zero => rfl
  | succ f ih =>
    unfold fwdToWork
    rw [show (ext e zd).upper = e.upper from rfl, show (ext e zd).projWork = e.projWork from rfl]
    simp only [ih]

theorem anyOnShift_ext (t : Nat) (h : t ≠ e.tasks.size) : anyOnShift (ext e zd) t = anyOnShift e t := by
  funext i
  unfold anyOnShift
  rw [ext_taskD e zd t h]
  rfl

theorem initCursor_ext (hi : Intr e zd) (σ : St) (a : TSt) (t : Nat) (h : t ≠ e.tasks.size) (hsz : σ.ts.size = e.tasks.size)
    (hf : (σ.tst t).forward = true) :
    initCursor (ext e zd) (lift σ a) t = initCursor e σ t := by
  have ht : t ≠ σ.ts.size := by rw [hsz]; exact h
  have hdeps : ∀ dp ∈ (e.taskD t).allDeps, dp.target ≠ σ.ts.size := fun dp hdp => by rw [hsz]; exact hi.noref t dp hdp
  unfold initCursor
  simp only []
  rw [ext_taskD e zd t h, lift_tst σ a t ht]
  simp only [hf, if_true]
  cases (σ.tst t).start with
  | some s0 =>
    simp only []
    split
    · rfl
    · rw [earliestStart_env, earliestStart_lift e σ a _ _ hdeps]; rfl
  | none =>
    simp only []
    rw [earliestStart_env, earliestStart_lift e σ a _ _ hdeps]; rfl

theorem preStartCursor_ext (σ : St) (a : TSt) (t : Nat) (c0 : Int) (h : t ≠ e.tasks.size) (hsz : σ.ts.size = e.tasks.size) :
    preStartCursor (ext e zd) (lift σ a) t c0 = preStartCursor e σ t c0 := by
  unfold preStartCursor
  rw [ext_taskD e zd t h, lift_tst σ a t (by rw [hsz]; exact h), fwdToWork_env]
  rfl

theorem preStartT_ext (σ : St) (a : TSt) (t : Nat) (c0 : Int) (h : t ≠ e.tasks.size) (hsz : σ.ts.size = e.tasks.size) :
    preStartT (ext e zd) (lift σ a) t c0 = preStartT e σ t c0 := by
  unfold preStartT
  rw [ext_taskD e zd t h, lift_tst σ a t (by rw [hsz]; exact h), fwdToWork_env]
  rfl

theorem finalT_ext (t : Nat) (fwd : Bool) (c1 : Int) (ts1 : TSt) (w1 : Walk) (h : t ≠ e.tasks.size) :
    finalT (ext e zd) t fwd c1 ts1 w1 = finalT e t fwd c1 ts1 w1 := by
  unfold finalT
  rw [ext_taskD e zd t h]
  rfl

theorem scheduleTask_ext (hi : Intr e zd) (σ : St) (a : TSt) (t : Nat) (h : t ≠ e.tasks.size) (hsz : σ.ts.size = e.tasks.size)
    (hf : (σ.tst t).forward = true) :
    scheduleTask (ext e zd) (lift σ a) t = (lift (scheduleTask e σ t).1 a, (scheduleTask e σ t).2) := by
  have ht : t ≠ σ.ts.size := by rw [hsz]; exact h
  unfold scheduleTask
  simp only []
  rw [lift_tst σ a t ht]
  split
  · rfl
  · rw [initCursor_ext e zd hi σ a t h hsz hf, preStartCursor_ext e zd σ a t _ h hsz, preStartT_ext e zd σ a t _ h hsz,
      lift_setT σ a t _ ht]
    have hsz0 : (σ.setT t (preStartT e σ t (initCursor e σ t).1)).ts.size = e.tasks.size := by rw [size_setT]; exact hsz
    rw [show (ext e zd).upper = e.upper from rfl]
    split
    · rw [lift_tst _ a t (by rw [hsz0]; exact h), lift_setT _ a t _ (by rw [hsz0]; exact h)]
    · rw [show (ext e zd).size = e.size from rfl, walkLoop_ext e zd hi.par t _ _ _ a _ h hsz0]
      simp only []
      have hsz1 : (walkLoop e t (σ.tst t).forward (e.size.toNat + 3) (σ.setT t (preStartT e σ t (initCursor e σ t).1))
          { cur := preStartCursor e σ t (initCursor e σ t).1, offset := (initCursor e σ t).2 }).1.ts.size = e.tasks.size := by
        rw [(walkLoop_frame e t _ _ _ _).2.2.2.2]; exact hsz0
      split
      · rw [lift_tst _ a t (by rw [hsz1]; exact h), lift_setT _ a t _ (by rw [hsz1]; exact h)]
      · rw [lift_tst _ a t (by rw [hsz1]; exact h), lift_setT _ a t _ (by rw [hsz1]; exact h), finalT_ext e zd t _ _ _ _ h]

end

/-! ### states that agree on the old tasks -/

/-- `σ'` gives every task other than `n` the attributes `σ` gives it -/
def Agree (n : Nat) (σ σ' : St) : Prop := ∀ t, t ≠ n → σ'.tst t = σ.tst t

theorem agree_lift (σ : St) (a : TSt) : Agree σ.ts.size σ (lift σ a) := fun t ht => lift_tst σ a t ht

theorem all_congr_mem {α : Type} (l : List α) (f g : α → Bool) (h : ∀ x ∈ l, f x = g x) : l.all f = l.all g := by
  induction l with
  | nil => rfl
  | cons x xs ih =>
    simp only [List.all_cons]
    rw [h x List.mem_cons_self, ih (fun y hy => h y (List.mem_cons_of_mem _ hy))]

theorem any_congr_mem {α : Type} (l : List α) (f g : α → Bool) (h : ∀ x ∈ l, f x = g x) : l.any f = l.any g := by
  induction l with
  | nil => rfl
  | cons x xs ih =>
    simp only [List.any_cons]
    rw [h x List.mem_cons_self, ih (fun y hy => h y (List.mem_cons_of_mem _ hy))]

section
variable (e : Env) (zd : TaskD)

theorem rollupT_agree (hi : Intr e zd) (σ σ' : St) (hag : Agree e.tasks.size σ σ') (t : Nat) (h : t ≠ e.tasks.size) :
    rollupT (ext e zd) σ' t = rollupT e σ t := by
  have hch : ∀ c ∈ (e.taskD t).children, σ'.tst c = σ.tst c := fun c hc =>
    hag c (fun heq => hi.nochild t (heq ▸ hc))
  unfold rollupT
  simp only []
  rw [ext_taskD e zd t h, hag t h]
  rw [all_congr_mem (e.taskD t).children (fun c => (σ'.tst c).scheduled) (fun c => (σ.tst c).scheduled)
      (fun c hc => by show _ = _; rw [hch c hc])]
  rw [childMinStart_congr σ σ' _ (fun c hc => by rw [hch c hc]), childMaxEnd_congr σ σ' _ (fun c hc => by rw [hch c hc])]

theorem containerT_agree (hi : Intr e zd) (σ σ' : St) (hag : Agree e.tasks.size σ σ') (t : Nat) (h : t ≠ e.tasks.size) :
    containerT (ext e zd) σ' t = containerT e σ t := by
  have hch : ∀ c ∈ (e.taskD t).children, σ'.tst c = σ.tst c := fun c hc =>
    hag c (fun heq => hi.nochild t (heq ▸ hc))
  unfold containerT
  simp only []
  rw [ext_taskD e zd t h, hag t h]
  rw [any_congr_mem (e.taskD t).children
      (fun c => !(σ'.tst c).scheduled || (σ'.tst c).start.isNone || (σ'.tst c).stop.isNone)
      (fun c => !(σ.tst c).scheduled || (σ.tst c).start.isNone || (σ.tst c).stop.isNone)
      (fun c hc => by show _ = _; rw [hch c hc])]
  rw [childMinStart_congr σ σ' _ (fun c hc => by rw [hch c hc]), childMaxEnd_congr σ σ' _ (fun c hc => by rw [hch c hc])]

theorem ready_agree (hi : Intr e zd) (σ σ' : St) (hag : Agree e.tasks.size σ σ') (t : Nat) (h : t ≠ e.tasks.size)
    (hf : (σ.tst t).forward = true) :
    ready (ext e zd) σ' t = ready e σ t := by
  unfold ready asapReady
  rw [hag t h, ext_taskD e zd t h]
  simp only [hf, if_true]
  exact all_congr_mem (e.taskD t).allDeps (fun dp => (σ'.tst dp.target).scheduled) (fun dp => (σ.tst dp.target).scheduled)
      (fun dp hdp => by show _ = _; rw [hag dp.target (hi.noref t dp hdp)])

end

/-! ### the folds over all tasks -/

theorem foldl_setT_lift (n : Nat) (f f' : St → Nat → TSt) (a : TSt) (l : List Nat) (σ : St) (hsz : σ.ts.size = n)
    (hl : ∀ t ∈ l, t ≠ n)
    (hf : ∀ (acc : St) t, t ∈ l → acc.ts.size = n → f' (lift acc a) t = f acc t) :
    l.foldl (fun (acc : St) t => acc.setT t (f' acc t)) (lift σ a) = lift (l.foldl (fun (acc : St) t => acc.setT t (f acc t)) σ) a := by
  induction l generalizing σ with
  | nil => rfl
  | cons x xs ih =>
    simp only [List.foldl_cons]
    rw [hf σ x List.mem_cons_self hsz, lift_setT σ a x _ (by rw [hsz]; exact hl x List.mem_cons_self)]
    exact ih _ (by rw [size_setT]; exact hsz) (fun t ht => hl t (List.mem_cons_of_mem _ ht))
      (fun acc t ht hacc => hf acc t (List.mem_cons_of_mem _ ht) hacc)

theorem range_ne (n t : Nat) (h : t ∈ List.range n) : t ≠ n := by
  have := List.mem_range.mp h; omega

section
variable (e : Env) (zd : TaskD)

theorem updateContainers_ext (hi : Intr e zd) (σ : St) (a : TSt) (hsz : σ.ts.size = e.tasks.size) :
    updateContainers (ext e zd) (lift σ a) = lift (updateContainers e σ) a := by
  unfold updateContainers
  rw [ext_size, List.range_succ, List.reverse_append, List.reverse_singleton, List.singleton_append, List.foldl_cons]
  have h0 : (lift σ a).setT e.tasks.size (rollupT (ext e zd) (lift σ a) e.tasks.size) = lift σ a := by
    have : rollupT (ext e zd) (lift σ a) e.tasks.size = a := by
      unfold rollupT
      simp only []
      rw [ext_taskD_self, hi.leaf, ← hsz, lift_tst_self]
      rfl
    rw [this, ← hsz, lift_setT_self]
  rw [h0]
  apply foldl_setT_lift e.tasks.size _ _ a _ σ hsz
  · intro t ht; exact range_ne _ _ (List.mem_reverse.mp ht)
  · intro acc t ht hacc
    exact rollupT_agree e zd hi acc (lift acc a) (hacc ▸ agree_lift acc a) t (range_ne _ _ (List.mem_reverse.mp ht))

theorem prepassT_ext (σ : St) (a : TSt) (t : Nat) (h : t ≠ e.tasks.size) (hsz : σ.ts.size = e.tasks.size) :
    prepassT (ext e zd) (lift σ a) t = prepassT e σ t := by
  unfold prepassT
  rw [ext_taskD e zd t h, lift_tst σ a t (by rw [hsz]; exact h)]

theorem milestonePrepass_ext (σ : St) (a : TSt) (hsz : σ.ts.size = e.tasks.size) :
    ∃ a', milestonePrepass (ext e zd) (lift σ a) = lift (milestonePrepass e σ) a' := by
  unfold milestonePrepass
  rw [ext_size, List.range_succ, List.foldl_append]
  rw [foldl_setT_lift e.tasks.size (prepassT e) (prepassT (ext e zd)) a _ σ hsz (fun t ht => range_ne _ _ ht)
      (fun acc t ht hacc => prepassT_ext e zd acc a t (range_ne _ _ ht) hacc)]
  simp only [List.foldl_cons, List.foldl_nil]
  have hs : ((List.range e.tasks.size).foldl (fun (acc : St) t => acc.setT t (prepassT e acc t)) σ).ts.size = e.tasks.size := by
    rw [foldl_setT_size]; exact hsz
  exact ⟨_, lift_setT_at _ a _ _ hs⟩

theorem projAlapT_ext (σ : St) (a : TSt) (t : Nat) (h : t ≠ e.tasks.size) (hsz : σ.ts.size = e.tasks.size) :
    projAlapT (ext e zd) (lift σ a) t = projAlapT e σ t := by
  unfold projAlapT
  rw [ext_taskD e zd t h, lift_tst σ a t (by rw [hsz]; exact h)]
  rfl

theorem inheritedEnd_ext (hi : Intr e zd) (σ : St) (a : TSt) (t : Nat) (h : t ≠ e.tasks.size) (hsz : σ.ts.size = e.tasks.size) :
    inheritedEnd (ext e zd) (lift σ a) t = inheritedEnd e σ t := by
  unfold inheritedEnd
  simp only []
  rw [taskChain_ext e zd hi.par t h]
  have hne : ∀ x ∈ (e.taskChain t).reverse, x ≠ σ.ts.size := fun x hx => by
    rw [hsz]; exact taskChain_ne e hi.par t x h (List.mem_reverse.mp hx)
  cases hc : (e.taskChain t).reverse with
  | nil => rfl
  | cons root rest =>
    simp only []
    rw [hc] at hne
    rw [lift_tst σ a root (hne root List.mem_cons_self)]
    apply foldl_congr_mem
    · intro acc x hx
      rw [lift_tst σ a x (hne x (List.mem_cons_of_mem _ (List.dropLast_subset _ hx)))]
    · rfl

theorem leaves_any_ext (f f' : Nat → Bool) (p p' : Nat → Bool) (n : Nat) (hn : (p' n && f' n) = false)
    (hp : ∀ s, s < n → p' s = p s) (hf : ∀ s, s < n → f' s = f s) :
    ((List.range (n + 1)).filter p').any f' = ((List.range n).filter p).any f := by
  rw [List.range_succ, List.filter_append, List.any_append]
  have h1 : ((List.range n).filter p').any f' = ((List.range n).filter p).any f := by
    have : (List.range n).filter p' = (List.range n).filter p :=
      List.filter_congr (fun s hs => hp s (List.mem_range.mp hs))
    rw [this]
    exact any_congr_mem _ _ _ (fun s hs => hf s (List.mem_range.mp (List.mem_filter.mp hs).1))
  have h2 : ([n].filter p').any f' = false := by
    simp only [List.filter_cons, List.filter_nil]
    cases hpn : p' n with
    | false => simp
    | true => rw [hpn] at hn; simp at hn; simp [hn]
  rw [h1, h2, Bool.or_false]

end

/-! ### forward projects: no backward propagation -/

def FwdSt (σ : St) : Prop := ∀ t, (σ.tst t).forward = true

theorem propagateAlap_id (e : Env) (σ : St) (h : FwdSt σ) : propagateAlap e σ = σ := by
  unfold propagateAlap
  simp only []
  have : (List.range e.tasks.size).filter (fun t => (e.taskD t).leaf && !(σ.tst t).forward && (σ.tst t).stop.isSome) = [] := by
    apply List.filter_eq_nil_iff.mpr
    intro t _
    simp [h t]
  rw [this]
  rfl

theorem fwdSt_setT (σ : St) (t : Nat) (x : TSt) (h : FwdSt σ) (hx : x.forward = true) : FwdSt (σ.setT t x) := by
  intro t'
  rw [tst_setT]
  split
  · exact hx
  · exact h t'

theorem foldl_setT_fwd (f : St → Nat → TSt) (l : List Nat) (σ : St) (h : FwdSt σ)
    (hf : ∀ acc t, FwdSt acc → (f acc t).forward = true) : FwdSt (l.foldl (fun (acc : St) t => acc.setT t (f acc t)) σ) := by
  induction l generalizing σ with
  | nil => exact h
  | cons x xs ih => simp only [List.foldl_cons]; exact ih _ (fwdSt_setT σ x _ h (hf σ x h))

/-- a forward project: no project-wide ALAP, no task in ALAP mode -/
def FwdEnv (e : Env) : Prop := e.projAlap = false ∧ ∀ t, (e.taskD t).forward = true

theorem fwdSt_init (e : Env) (h : FwdEnv e) : FwdSt (initState e) := by
  intro t
  unfold initState St.tst
  simp only [Array.getD_eq_getD_getElem?, Array.getElem?_map]
  cases ht : e.tasks[t]? with
  | none => rfl
  | some d =>
    simp only [Option.map_some, Option.getD_some]
    have := h.2 t
    unfold Env.taskD at this
    simp only [Array.getD_eq_getD_getElem?, ht, Option.getD_some] at this
    exact this

theorem fwdSt_prepare (e : Env) (h : FwdEnv e) (σ : St) (hs : FwdSt σ) : FwdSt (prepare e σ) := by
  unfold prepare propagateContainerEnds
  apply foldl_setT_fwd
  · apply foldl_setT_fwd _ _ _ hs
    intro acc t hacc
    unfold projAlapT
    simp only [h.1, Bool.false_and, Bool.false_eq_true, if_false]
    exact hacc t
  · intro acc t hacc
    have : (containerEndT e (List.foldl (fun (acc : St) t => acc.setT t (projAlapT e acc t)) σ (List.range e.tasks.size)) acc t).forward
        = (acc.tst t).forward := by
      unfold containerEndT; simp only []
      repeat' split
      all_goals rfl
    rw [this]; exact hacc t

theorem fwdSt_milestonePrepass (e : Env) (σ : St) (hs : FwdSt σ) : FwdSt (milestonePrepass e σ) := by
  unfold milestonePrepass
  apply foldl_setT_fwd _ _ _ hs
  intro acc t hacc
  have : (prepassT e acc t).forward = (acc.tst t).forward := by
    unfold prepassT; simp only []
    repeat' split
    all_goals rfl
  rw [this]; exact hacc t

theorem fwdEnv_ext (e : Env) (zd : TaskD) (h : FwdEnv e) (hz : zd.forward = true) : FwdEnv (ext e zd) := by
  refine ⟨h.1, fun t => ?_⟩
  by_cases ht : t = e.tasks.size
  · rw [ht, ext_taskD_self]; exact hz
  · rw [ext_taskD e zd t ht]; exact h.2 t

/-! ### `prepare` in a forward project -/

theorem containerEndT_fwd (e : Env) (σ0 acc : St) (t : Nat) (hf : (acc.tst t).forward = true) :
    containerEndT e σ0 acc t = acc.tst t := by
  unfold containerEndT
  simp only [hf, Bool.not_true, Bool.false_and, Bool.false_eq_true, if_false]
  split <;> rfl

theorem foldl_setT_lift_inv (n : Nat) (Q : St → Prop) (f f' : St → Nat → TSt) (a : TSt) (l : List Nat) (σ : St)
    (hsz : σ.ts.size = n) (hQ : Q σ) (hQs : ∀ acc t, Q acc → Q (acc.setT t (f acc t)))
    (hl : ∀ t ∈ l, t ≠ n)
    (hf : ∀ (acc : St) t, t ∈ l → acc.ts.size = n → Q acc → f' (lift acc a) t = f acc t) :
    l.foldl (fun (acc : St) t => acc.setT t (f' acc t)) (lift σ a) = lift (l.foldl (fun (acc : St) t => acc.setT t (f acc t)) σ) a := by
  induction l generalizing σ with
  | nil => rfl
  | cons x xs ih =>
    simp only [List.foldl_cons]
    rw [hf σ x List.mem_cons_self hsz hQ, lift_setT σ a x _ (by rw [hsz]; exact hl x List.mem_cons_self)]
    exact ih _ (by rw [size_setT]; exact hsz) (hQs σ x hQ) (fun t ht => hl t (List.mem_cons_of_mem _ ht))
      (fun acc t ht hacc hq => hf acc t (List.mem_cons_of_mem _ ht) hacc hq)

theorem prepare_ext (e : Env) (zd : TaskD) (hfe : FwdEnv e) (σ : St) (a : TSt) (hsz : σ.ts.size = e.tasks.size) (hfs : FwdSt σ) :
    ∃ a', prepare (ext e zd) (lift σ a) = lift (prepare e σ) a' := by
  unfold prepare propagateContainerEnds
  rw [ext_size, List.range_succ, List.foldl_append, List.foldl_append]
  rw [foldl_setT_lift e.tasks.size (projAlapT e) (projAlapT (ext e zd)) a _ σ hsz (fun t ht => range_ne _ _ ht)
      (fun acc t ht hacc => projAlapT_ext e zd acc a t (range_ne _ _ ht) hacc)]
  simp only [List.foldl_cons, List.foldl_nil]
  have hs1 : ((List.range e.tasks.size).foldl (fun (acc : St) t => acc.setT t (projAlapT e acc t)) σ).ts.size = e.tasks.size := by
    rw [foldl_setT_size]; exact hsz
  have hf1 : FwdSt ((List.range e.tasks.size).foldl (fun (acc : St) t => acc.setT t (projAlapT e acc t)) σ) := by
    apply foldl_setT_fwd _ _ _ hfs
    intro acc t hacc
    unfold projAlapT
    simp only [hfe.1, Bool.false_and, Bool.false_eq_true, if_false]
    exact hacc t
  generalize (List.range e.tasks.size).foldl (fun (acc : St) t => acc.setT t (projAlapT e acc t)) σ = σ1 at hs1 hf1
  rw [lift_setT_at σ1 a _ _ hs1]
  generalize projAlapT (ext e zd) (lift σ1 a) e.tasks.size = a1
  rw [foldl_setT_lift_inv e.tasks.size FwdSt (containerEndT e σ1) (containerEndT (ext e zd) (lift σ1 a1)) a1 _ σ1 hs1 hf1
      (fun acc t hacc => fwdSt_setT acc t _ hacc (by rw [containerEndT_fwd e σ1 acc t (hacc t)]; exact hacc t))
      (fun t ht => range_ne _ _ ht)
      (fun acc t ht hacc hq => by
        have hne := range_ne _ _ ht
        have h1 : ((lift acc a1).tst t).forward = true := by rw [lift_tst acc a1 t (by rw [hacc]; exact hne)]; exact hq t
        rw [containerEndT_fwd _ _ _ t h1, containerEndT_fwd e σ1 acc t (hq t), lift_tst acc a1 t (by rw [hacc]; exact hne)])]
  have hs2 : ((List.range e.tasks.size).foldl (fun (acc : St) t => acc.setT t (containerEndT e σ1 acc t)) σ1).ts.size = e.tasks.size := by
    rw [foldl_setT_size]; exact hs1
  exact ⟨_, lift_setT_at _ a1 _ _ hs2⟩

/-! ### the work list -/

section
variable (e : Env) (zd : TaskD)

theorem preLoop_ext (hi : Intr e zd) (σ : St) (a : TSt) (hsz : σ.ts.size = e.tasks.size) (hf : FwdSt σ) (hf' : FwdSt (lift σ a)) :
    ∃ a', preLoop (ext e zd) (lift σ a) = lift (preLoop e σ) a' ∧ a'.forward = true := by
  unfold preLoop
  obtain ⟨a1, h1⟩ := milestonePrepass_ext e zd σ a hsz
  have hm := fwdSt_milestonePrepass e σ hf
  have hm' := fwdSt_milestonePrepass (ext e zd) (lift σ a) hf'
  have hsm : (milestonePrepass e σ).ts.size = e.tasks.size := by rw [milestonePrepass_size]; exact hsz
  have ha1 : a1.forward = true := by
    have := hm' e.tasks.size
    rw [h1, ← hsm, lift_tst_self] at this
    exact this
  rw [propagateAlap_id _ _ hm', propagateAlap_id _ _ hm, h1]
  exact ⟨a1, updateContainers_ext e zd hi _ a1 hsm, ha1⟩

theorem prioLe_ext (x y : Nat) (hx : x ≠ e.tasks.size) (hy : y ≠ e.tasks.size) : prioLe (ext e zd) x y = prioLe e x y := by
  unfold prioLe; rw [ext_taskD e zd x hx, ext_taskD e zd y hy]

theorem prioLe_antisymm (e : Env) (x y : Nat) (h1 : prioLe e x y = true) (h2 : prioLe e y x = true) : x = y := by
  unfold prioLe at h1 h2
  simp only [Bool.or_eq_true, Bool.and_eq_true, decide_eq_true_eq, beq_iff_eq] at h1 h2
  omega

theorem todoOf_ext (σ : St) (a : TSt) (hsz : σ.ts.size = e.tasks.size) (hleaf : zd.leaf = true)
    (hlow : ∀ t, t < e.tasks.size → (e.taskD t).prio > zd.prio) :
    todoOf (ext e zd) (lift σ a) = todoOf e σ ++ (if a.scheduled then [] else [e.tasks.size]) := by
  unfold todoOf
  rw [ext_size, List.range_succ, List.filter_append]
  have h1 : (List.range e.tasks.size).filter (fun t => ((ext e zd).taskD t).leaf && !((lift σ a).tst t).scheduled)
      = (List.range e.tasks.size).filter (fun t => (e.taskD t).leaf && !(σ.tst t).scheduled) :=
    List.filter_congr (fun t ht => by
      have := range_ne _ _ ht
      rw [ext_taskD e zd t this, lift_tst σ a t (by rw [hsz]; exact this)])
  have h2 : [e.tasks.size].filter (fun t => ((ext e zd).taskD t).leaf && !((lift σ a).tst t).scheduled)
      = (if a.scheduled then [] else [e.tasks.size]) := by
    simp only [List.filter_cons, List.filter_nil, ext_taskD_self, hleaf, Bool.true_and]
    rw [← hsz, lift_tst_self]
    cases a.scheduled <;> rfl
  rw [h1, h2]
  have hl : ∀ x ∈ (List.range e.tasks.size).filter (fun t => (e.taskD t).leaf && !(σ.tst t).scheduled), x < e.tasks.size :=
    fun x hx => List.mem_range.mp (List.mem_filter.mp hx).1
  generalize (List.range e.tasks.size).filter (fun t => (e.taskD t).leaf && !(σ.tst t).scheduled) = l at hl
  have hconv : ∀ (m : List Nat), (∀ x ∈ m, x < e.tasks.size) → m.Pairwise (fun a b => prioLe e a b = true) →
      m.Pairwise (fun a b => prioLe (ext e zd) a b = true) := by
    intro m hm hpw
    exact hpw.imp_of_mem (fun {a b} ha hb hab => by
      rw [prioLe_ext e zd a b (by have := hm a ha; omega) (by have := hm b hb; omega)]; exact hab)
  have hsl : ∀ x ∈ l.mergeSort (prioLe e), x < e.tasks.size := fun x hx => hl x (List.mem_mergeSort.mp hx)
  by_cases hs : a.scheduled = true
  · simp only [hs, if_true, List.append_nil]
    exact List.Perm.eq_of_pairwise (fun a b _ _ hab hba => prioLe_antisymm (ext e zd) a b hab hba)
      (todo_sorted (ext e zd) l) (hconv _ hsl (todo_sorted e l))
      ((List.mergeSort_perm l _).trans (List.mergeSort_perm l _).symm)
  · simp only [hs, Bool.false_eq_true, if_false]
    refine List.Perm.eq_of_pairwise (fun a b _ _ hab hba => prioLe_antisymm (ext e zd) a b hab hba)
      (todo_sorted (ext e zd) _) ?_ ?_
    · rw [List.pairwise_append]
      refine ⟨hconv _ hsl (todo_sorted e l), List.pairwise_singleton _ _, ?_⟩
      intro x hx y hy
      rw [List.mem_singleton] at hy
      subst hy
      have hx' := hsl x hx
      unfold prioLe
      rw [ext_taskD e zd x (by omega), ext_taskD_self]
      have := hlow x hx'
      simp only [Bool.or_eq_true, decide_eq_true_eq]
      exact Or.inl this
    · exact (List.mergeSort_perm _ _).trans (List.Perm.append_right _ (List.mergeSort_perm l _).symm)

end

/-! ### the pick loop -/

theorem find?_congr_mem {α : Type} (l : List α) (p q : α → Bool) (h : ∀ x ∈ l, p x = q x) : l.find? p = l.find? q := by
  induction l with
  | nil => rfl
  | cons x xs ih =>
    simp only [List.find?_cons]
    rw [h x List.mem_cons_self, ih (fun y hy => h y (List.mem_cons_of_mem _ hy))]

theorem rollupT_fix_of_complete (e : Env) (σ : St) (hco : Complete e σ) (t : Nat) : rollupT e σ t = σ.tst t := by
  unfold rollupT
  simp only []
  by_cases h1 : ((e.taskD t).leaf || (σ.tst t).scheduled || (e.taskD t).children.isEmpty) = true
  · simp only [h1, if_true]
  · simp only [h1, Bool.false_eq_true, if_false]
    by_cases h2 : (!(e.taskD t).children.all (fun c => (σ.tst c).scheduled)) = true
    · simp only [h2, if_true]
    · exfalso
      simp only [Bool.or_eq_true, not_or, Bool.not_eq_true] at h1
      have hall : ∀ ch ∈ (e.taskD t).children, (σ.tst ch).scheduled = true := by
        simpa [List.all_eq_true] using h2
      have hne : (e.taskD t).children ≠ [] := by
        intro hnil; rw [hnil] at h1; simp at h1
      have := hco t h1.1.1 hne hall
      rw [this] at h1
      exact Bool.noConfusion h1.1.2

section
variable (e : Env) (zd : TaskD)

/-- a further roll-up in the extended project leaves the old tasks alone when the base state is already rolled up -/
theorem updateContainers_agree_fix (hi : Intr e zd) (σ σ' : St) (hag : Agree e.tasks.size σ σ')
    (hfix : ∀ t, rollupT e σ t = σ.tst t) : Agree e.tasks.size σ (updateContainers (ext e zd) σ') := by
  unfold updateContainers
  apply foldl_inv (fun acc => Agree e.tasks.size σ acc) _ _ σ' hag
  intro acc t hacc t' ht'
  rw [tst_setT]
  split
  · rename_i heq
    rw [← heq.1] at ht'
    rw [rollupT_agree e zd hi σ acc hacc t ht', hfix t, heq.1]
  · exact hacc t' ht'

/-- in forward mode the added task is ready when its predecessors are scheduled -/
theorem ready_new (σ' : St) (hf : (σ'.tst e.tasks.size).forward = true) :
    ready (ext e zd) σ' e.tasks.size = zd.allDeps.all (fun dp => (σ'.tst dp.target).scheduled) := by
  unfold ready asapReady
  simp only [hf, if_true, ext_taskD_self]

theorem fwdSt_round (σ : St) (t0 : Nat) (h : FwdSt σ) : FwdSt (updateContainers e (scheduleTask e σ t0).1) := by
  have h1 : FwdSt (scheduleTask e σ t0).1 := by
    intro t
    by_cases ht : t = t0
    · rw [ht, scheduleTask_self_forward]; exact h t0
    · rw [scheduleTask_other e σ t0 t ht]; exact h t
  unfold updateContainers
  apply foldl_setT_fwd _ _ _ h1
  intro acc t hacc
  have : (rollupT e acc t).forward = (acc.tst t).forward := by
    unfold rollupT; simp only []
    repeat' split
    all_goals rfl
  rw [this]; exact hacc t

/-- the pick loop when the added task is not in the work list -/
theorem pickLoop_ext (hi : Intr e zd) (f : Nat) (tasks failed : List Nat) (σ : St) (a : TSt)
    (hsz : σ.ts.size = e.tasks.size) (hmem : ∀ t ∈ tasks, t ≠ e.tasks.size) (hfs : FwdSt σ) :
    pickLoop (ext e zd) f tasks failed (lift σ a) = (lift (pickLoop e f tasks failed σ).1 a, (pickLoop e f tasks failed σ).2) := by
  induction f generalizing tasks failed σ with
  | zero => rfl
  | succ f ih =>
    unfold pickLoop
    split
    · rfl
    · rw [find?_congr_mem tasks (fun t => ready (ext e zd) (lift σ a) t) (fun t => ready e σ t)
        (fun t ht => ready_agree e zd hi σ (lift σ a) (hsz ▸ agree_lift σ a) t (hmem t ht) (hfs t))]
      cases hfind : tasks.find? (fun t => ready e σ t) with
      | some t =>
        simp only []
        have htm : t ∈ tasks := List.mem_of_find?_eq_some hfind
        rw [scheduleTask_ext e zd hi σ a t (hmem t htm) hsz (hfs t)]
        simp only []
        rw [updateContainers_ext e zd hi _ a (by rw [scheduleTask_size]; exact hsz)]
        exact ih _ _ _ (by rw [updateContainers_size, scheduleTask_size]; exact hsz)
          (fun x hx => hmem x (List.mem_of_mem_erase hx)) (fwdSt_round e σ t hfs)
      | none =>
        simp only []
        split <;> rfl

end

section
variable (e : Env) (zd : TaskD)

/-- what happens when the added task is picked: it is scheduled, the roll-up runs, the old tasks keep their attributes -/
theorem pick_new_agree (hi : Intr e zd) (σ : St) (a : TSt) (hsz : σ.ts.size = e.tasks.size)
    (hfix : ∀ t, rollupT e σ t = σ.tst t) :
    Agree e.tasks.size σ (updateContainers (ext e zd) (scheduleTask (ext e zd) (lift σ a) e.tasks.size).1) := by
  apply updateContainers_agree_fix e zd hi σ _ _ hfix
  intro t ht
  rw [scheduleTask_other (ext e zd) (lift σ a) e.tasks.size t ht, lift_tst σ a t (by rw [hsz]; exact ht)]

/-- the pick loop with the added task at the end of the work list: the old tasks end with the attributes the base loop
    gives them -/
theorem pickLoop_sim (hi : Intr e zd) (tr : Tree e) (f : Nat) (tasks failed failed' : List Nat) (σ : St) (a : TSt)
    (hsz : σ.ts.size = e.tasks.size) (hlen : tasks.length < f) (hmem : ∀ t ∈ tasks, t < e.tasks.size)
    (hfix : ∀ t, rollupT e σ t = σ.tst t) (hfw : a.forward = true) (hfs : FwdSt σ) :
    Agree e.tasks.size (pickLoop e f tasks failed σ).1
      (pickLoop (ext e zd) (f + 1) (tasks ++ [e.tasks.size]) failed' (lift σ a)).1 := by
  induction f generalizing tasks failed failed' σ with
  | zero => omega
  | succ f ih =>
    have hne : ∀ t ∈ tasks, t ≠ e.tasks.size := fun t ht => by have := hmem t ht; omega
    have hnotin : e.tasks.size ∉ tasks := fun h => (hne _ h) rfl
    have hzr := ready_new e zd (lift σ a) (by rw [← hsz, lift_tst_self]; exact hfw)
    have hfcongr : tasks.find? (fun t => ready (ext e zd) (lift σ a) t) = tasks.find? (fun t => ready e σ t) :=
      find?_congr_mem tasks _ _ (fun t ht => ready_agree e zd hi σ (lift σ a) (hsz ▸ agree_lift σ a) t (hne t ht) (hfs t))
    have hlift : Agree e.tasks.size σ (lift σ a) := hsz ▸ agree_lift σ a
    rw [pickLoop.eq_def (ext e zd) (f + 1 + 1)]
    rw [pickLoop.eq_def e (f + 1)]
    simp only []
    have hne' : (tasks ++ [e.tasks.size]).isEmpty = false := by
      cases tasks <;> rfl
    simp only [hne', Bool.false_eq_true, if_false]
    rw [List.find?_append, hfcongr]
    -- what the base loop returns when it stops here agrees with σ on the task attributes
    have hbase : ∀ t, (if failed.isEmpty = true then ({ σ with warnings := σ.warnings ++ ["deadlock"] }, failed ++ tasks) else (σ, failed)).1.tst t
          = σ.tst t := by
      intro t; split <;> rfl
    by_cases hzready : zd.allDeps.all (fun dp => ((lift σ a).tst dp.target).scheduled) = true
    · rw [hzready] at hzr
      by_cases hemp : tasks.isEmpty = true
      · -- nothing left in the base project: the added task is scheduled last
        have hnil : tasks = [] := List.isEmpty_iff.mp hemp
        subst hnil
        simp only [List.isEmpty_nil, if_true, List.find?_nil, Option.none_or, List.find?_cons, hzr, List.nil_append]
        rw [pickLoop.eq_def (ext e zd) (f + 1)]
        simp only [List.erase_cons_head, List.isEmpty_nil, if_true]
        exact pick_new_agree e zd hi σ a hsz hfix
      · simp only [hemp, Bool.false_eq_true, if_false]
        cases hfind : tasks.find? (fun t => ready e σ t) with
        | some t =>
          simp only [Option.some_or]
          have htm : t ∈ tasks := List.mem_of_find?_eq_some hfind
          rw [scheduleTask_ext e zd hi σ a t (hne t htm) hsz (hfs t)]
          simp only []
          rw [updateContainers_ext e zd hi _ a (by rw [scheduleTask_size]; exact hsz)]
          rw [List.erase_append_left _ htm]
          have hsz' : (updateContainers e (scheduleTask e σ t).1).ts.size = e.tasks.size := by
            rw [updateContainers_size, scheduleTask_size]; exact hsz
          apply ih
          · exact hsz'
          · rw [List.length_erase_of_mem htm]
            have : 0 < tasks.length := List.length_pos_of_mem htm
            omega
          · exact fun x hx => hmem x (List.mem_of_mem_erase hx)
          · exact rollupT_fix_of_complete e _ (updateContainers_complete e tr _ (by rw [scheduleTask_size]; exact hsz))
          · exact fwdSt_round e σ t hfs
        | none =>
          -- the base loop is stuck (or has failed tasks only): the added task is scheduled, the others stay stuck
          simp only [Option.none_or, List.find?_cons, hzr]
          have hag := pick_new_agree e zd hi σ a hsz hfix
          rw [List.erase_append_right _ hnotin]
          simp only [List.erase_cons_head, List.append_nil]
          rw [pickLoop.eq_def (ext e zd) (f + 1)]
          simp only [hemp, Bool.false_eq_true, if_false]
          rw [find?_congr_mem tasks (fun t => ready (ext e zd) _ t) (fun t => ready e σ t)
            (fun t ht => ready_agree e zd hi σ _ hag t (hne t ht) (hfs t)), hfind]
          simp only []
          intro t ht
          rw [hbase t]
          split
          · split
            · exact hag t ht
            · exact hag t ht
          · split
            · exact hag t ht
            · exact hag t ht
    · -- the added task is not ready: it is never the one picked here
      have hzr' : ready (ext e zd) (lift σ a) e.tasks.size = false := by rw [hzr]; simpa using hzready
      by_cases hemp : tasks.isEmpty = true
      · have hnil : tasks = [] := List.isEmpty_iff.mp hemp
        subst hnil
        simp only [List.isEmpty_nil, if_true, List.find?_nil, Option.none_or, List.find?_cons, hzr', List.nil_append]
        intro t ht
        split
        · exact hlift t ht
        · exact hlift t ht
      · simp only [hemp, Bool.false_eq_true, if_false]
        cases hfind : tasks.find? (fun t => ready e σ t) with
        | some t =>
          simp only [Option.some_or]
          have htm : t ∈ tasks := List.mem_of_find?_eq_some hfind
          rw [scheduleTask_ext e zd hi σ a t (hne t htm) hsz (hfs t)]
          simp only []
          rw [updateContainers_ext e zd hi _ a (by rw [scheduleTask_size]; exact hsz)]
          rw [List.erase_append_left _ htm]
          have hsz' : (updateContainers e (scheduleTask e σ t).1).ts.size = e.tasks.size := by
            rw [updateContainers_size, scheduleTask_size]; exact hsz
          apply ih
          · exact hsz'
          · rw [List.length_erase_of_mem htm]
            have : 0 < tasks.length := List.length_pos_of_mem htm
            omega
          · exact fun x hx => hmem x (List.mem_of_mem_erase hx)
          · exact rollupT_fix_of_complete e _ (updateContainers_complete e tr _ (by rw [scheduleTask_size]; exact hsz))
          · exact fwdSt_round e σ t hfs
        | none =>
          simp only [Option.none_or, List.find?_cons, hzr', List.find?_nil]
          intro t ht
          rw [hbase t]
          split
          · exact hlift t ht
          · exact hlift t ht

end

/-! ### the scenario -/

theorem pickLoop_size (e : Env) (f : Nat) (tasks failed : List Nat) (σ : St) :
    (pickLoop e f tasks failed σ).1.ts.size = σ.ts.size := by
  induction f generalizing tasks failed σ with
  | zero => rfl
  | succ f ih =>
    unfold pickLoop
    split
    · rfl
    · split
      · rw [ih, updateContainers_size, scheduleTask_size]
      · split <;> rfl

theorem scheduleScenario_size (e : Env) (σ : St) : (scheduleScenario e σ).ts.size = σ.ts.size := by
  unfold scheduleScenario
  simp only []
  split
  · rw [pickLoop_size, preLoop_size]
  · show (pickLoop e _ _ [] (preLoop e σ)).1.ts.size = _
    rw [pickLoop_size, preLoop_size]

section
variable (e : Env) (zd : TaskD)

theorem fwdSt_updateContainers (σ : St) (h : FwdSt σ) : FwdSt (updateContainers e σ) := by
  unfold updateContainers
  apply foldl_setT_fwd _ _ _ h
  intro acc t hacc
  have : (rollupT e acc t).forward = (acc.tst t).forward := by
    unfold rollupT; simp only []
    repeat' split
    all_goals rfl
  rw [this]; exact hacc t

theorem fwdSt_preLoop (σ : St) (h : FwdSt σ) : FwdSt (preLoop e σ) := by
  unfold preLoop
  have hm := fwdSt_milestonePrepass e σ h
  rw [propagateAlap_id _ _ hm]
  exact fwdSt_updateContainers e _ hm

theorem scheduleScenario_sim (hi : Intr e zd) (tr : Tree e) (σ : St) (a : TSt) (hsz : σ.ts.size = e.tasks.size)
    (hf : FwdSt σ) (hf' : FwdSt (lift σ a)) (hlow : ∀ t, t < e.tasks.size → (e.taskD t).prio > zd.prio) :
    Agree e.tasks.size (scheduleScenario e σ) (scheduleScenario (ext e zd) (lift σ a)) := by
  obtain ⟨a2, h2, hfw2⟩ := preLoop_ext e zd hi σ a hsz hf hf'
  have hsz2 : (preLoop e σ).ts.size = e.tasks.size := by rw [preLoop_size]; exact hsz
  have hfix : ∀ t, rollupT e (preLoop e σ) t = (preLoop e σ).tst t := by
    apply rollupT_fix_of_complete
    unfold preLoop
    exact updateContainers_complete e tr _ (by rw [propagateAlap_size, milestonePrepass_size]; exact hsz)
  have hmain : Agree e.tasks.size
      (pickLoop e ((todoOf e (preLoop e σ)).length + 1) (todoOf e (preLoop e σ)) [] (preLoop e σ)).1
      (pickLoop (ext e zd) ((todoOf (ext e zd) (lift (preLoop e σ) a2)).length + 1) (todoOf (ext e zd) (lift (preLoop e σ) a2)) []
        (lift (preLoop e σ) a2)).1 := by
    rw [todoOf_ext e zd _ a2 hsz2 hi.leaf hlow]
    by_cases hs : a2.scheduled = true
    · simp only [hs, if_true, List.append_nil]
      rw [pickLoop_ext e zd hi _ _ _ _ a2 hsz2 (fun t ht => by have := (todoOf_mem e _ t ht).1; omega) (fwdSt_preLoop e σ hf)]
      simp only []
      have := agree_lift (pickLoop e ((todoOf e (preLoop e σ)).length + 1) (todoOf e (preLoop e σ)) [] (preLoop e σ)).1 a2
      rw [pickLoop_size, hsz2] at this
      exact this
    · simp only [hs, Bool.false_eq_true, if_false, List.length_append, List.length_singleton]
      exact pickLoop_sim e zd hi tr _ _ [] [] _ a2 hsz2 (by omega) (fun t ht => (todoOf_mem e _ t ht).1) hfix hfw2
        (fwdSt_preLoop e σ hf)
  unfold scheduleScenario
  simp only []
  rw [h2]
  intro t ht
  have := hmain t ht
  split <;> split <;> exact this

theorem finishScenario_agree (hi : Intr e zd) (σ σ' : St) (hag : Agree e.tasks.size σ σ')
    (hsz : σ.ts.size = e.tasks.size) (hsz' : σ'.ts.size = e.tasks.size + 1) :
    Agree e.tasks.size (finishScenario e σ) (finishScenario (ext e zd) σ') := by
  unfold finishScenario
  rw [ext_size, List.range_succ, List.reverse_append, List.reverse_singleton, List.singleton_append, List.foldl_cons]
  simp only [ext_taskD_self, hi.leaf, if_true]
  have : ∀ (l : List Nat) (acc acc' : St), (∀ t ∈ l, t < e.tasks.size) → Agree e.tasks.size acc acc' →
      acc.ts.size = e.tasks.size → acc'.ts.size = e.tasks.size + 1 →
      Agree e.tasks.size (l.foldl (fun acc t => if (e.taskD t).leaf then acc else scheduleContainer e acc t) acc)
        (l.foldl (fun acc t => if ((ext e zd).taskD t).leaf then acc else scheduleContainer (ext e zd) acc t) acc') := by
    intro l
    induction l with
    | nil => intro acc acc' _ h _ _; exact h
    | cons x xs ih =>
      intro acc acc' hl h hs hs'
      simp only [List.foldl_cons]
      have hx := hl x List.mem_cons_self
      rw [ext_taskD e zd x (by omega)]
      by_cases hlf : (e.taskD x).leaf = true
      · simp only [hlf, if_true]
        exact ih acc acc' (fun t ht => hl t (List.mem_cons_of_mem _ ht)) h hs hs'
      · simp only [hlf, Bool.false_eq_true, if_false]
        apply ih _ _ (fun t ht => hl t (List.mem_cons_of_mem _ ht))
        · intro t ht
          unfold scheduleContainer
          rw [containerT_agree e zd hi acc acc' h x (by omega), tst_setT, tst_setT]
          have h1 : x < acc.ts.size := by omega
          have h2 : x < acc'.ts.size := by omega
          by_cases hxt : x = t
          · simp [hxt ▸ h1, hxt ▸ h2, hxt]
          · simp only [hxt, false_and, if_false]; exact h t ht
        · unfold scheduleContainer; rw [size_setT]; exact hs
        · unfold scheduleContainer; rw [size_setT]; exact hs'
  exact this _ σ σ' (fun t ht => List.mem_range.mp (List.mem_reverse.mp ht)) hag hsz hsz'

end

section
variable (e : Env) (zd : TaskD)

theorem initState_ext : initState (ext e zd) = lift (initState e) { start := zd.start, stop := zd.stop, forward := zd.forward } := by
  unfold initState ext lift
  simp only [Array.map_push]

/-- **C09 as a relation between two runs.**  Let `ext e zd` be the forward project `e` with one more task `zd` appended: a
    top-level leaf without dependencies and limits that nothing refers to, whose priority is strictly lower than that of every
    other task (same resources, calendars, horizon).  Then every other task ends with exactly the attributes — start, end,
    scheduled, … — it has in the schedule of `e`. -/
theorem runScenario_intruder (hi : Intr e zd) (tr : Tree e) (hfe : FwdEnv e) (hz : zd.forward = true)
    (hlow : ∀ t, t < e.tasks.size → (e.taskD t).prio > zd.prio) :
    ∀ t, t ≠ e.tasks.size → (runScenario (ext e zd)).tst t = (runScenario e).tst t := by
  unfold runScenario
  rw [initState_ext]
  have hsz0 : (initState e).ts.size = e.tasks.size := initState_size e
  obtain ⟨a1, h1⟩ := prepare_ext e zd hfe (initState e) _ hsz0 (fwdSt_init e hfe)
  have hszp : (prepare e (initState e)).ts.size = e.tasks.size := by rw [prepare_size]; exact hsz0
  have hfp : FwdSt (prepare e (initState e)) := fwdSt_prepare e hfe _ (fwdSt_init e hfe)
  have hfp' : FwdSt (lift (prepare e (initState e)) a1) := by
    rw [← h1, ← initState_ext]
    exact fwdSt_prepare _ (fwdEnv_ext e zd hfe hz) _ (fwdSt_init _ (fwdEnv_ext e zd hfe hz))
  rw [h1]
  have hs := scheduleScenario_sim e zd hi tr _ a1 hszp hfp hfp' hlow
  exact finishScenario_agree e zd hi _ _ hs (by rw [scheduleScenario_size]; exact hszp)
    (by rw [scheduleScenario_size, lift_size, hszp])

end

end SP
