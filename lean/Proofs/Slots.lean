import Model.Slots
/-! Helper lemmas about slot/time arithmetic. -/
namespace SP

theorem ceilDiv_mul_ge (a G : Int) (hG : 0 < G) : a ≤ ceilDiv a G * G := by
  unfold ceilDiv
  have h1 := Int.ediv_mul_le (-a) (Int.ne_of_gt hG)
  have : -(-a / G) * G = -((-a / G) * G) := by rw [Int.neg_mul]
  omega

theorem ceilDiv_mul_lt (a G : Int) (hG : 0 < G) : (ceilDiv a G - 1) * G < a := by
  unfold ceilDiv
  have h1 := Int.lt_ediv_add_one_mul_self (-a) hG
  have e : (-(-a / G) - 1) * G = -((-a / G + 1) * G) := by
    rw [← Int.neg_mul]; congr 1; omega
  omega

theorem floor_le_ceil (a G : Int) (hG : 0 < G) : a / G ≤ ceilDiv a G := by
  have h1 := Int.ediv_mul_le a (Int.ne_of_gt hG)
  have h2 := ceilDiv_mul_ge a G hG
  have h3 : a / G * G ≤ ceilDiv a G * G := Int.le_trans h1 h2
  exact Int.le_of_mul_le_mul_right h3 hG

theorem tdiv_eq_ediv_nonneg (a G : Int) (ha : 0 ≤ a) : Int.tdiv a G = a / G :=
  Int.tdiv_eq_ediv_of_nonneg ha

theorem Board.time_lt (b : Board) (hG : 0 < b.G) {i j : Int} (h : i < j) : b.time i < b.time j := by
  unfold Board.time
  have : i * b.G < j * b.G := Int.mul_lt_mul_of_pos_right h hG
  omega

theorem Board.rawIdx_time (b : Board) (hG : 0 < b.G) (i : Int) : b.rawIdx (b.time i) = i := by
  unfold Board.rawIdx Board.time
  have : b.start + i * b.G - b.start = i * b.G := by omega
  rw [this]
  exact Int.mul_tdiv_cancel i (Int.ne_of_gt hG)

theorem Board.rawIdx_floor (b : Board) (hG : 0 < b.G) {t : Int} (ht : b.start ≤ t) :
    b.time (b.rawIdx t) ≤ t ∧ t < b.time (b.rawIdx t + 1) := by
  unfold Board.rawIdx Board.time
  rw [tdiv_eq_ediv_nonneg _ _ (by omega)]
  have h1 := Int.ediv_mul_le (t - b.start) (Int.ne_of_gt hG)
  have h2 := Int.lt_ediv_add_one_mul_self (t - b.start) hG
  constructor <;> omega

theorem Board.rawIdx_nonneg (b : Board) (hG : 0 < b.G) {t : Int} (ht : b.start ≤ t) : 0 ≤ b.rawIdx t := by
  unfold Board.rawIdx
  rw [tdiv_eq_ediv_nonneg _ _ (by omega)]
  exact Int.ediv_nonneg (by omega) (Int.le_of_lt hG)

theorem Board.rawIdx_mono_le (b : Board) (hG : 0 < b.G) {t u : Int} (ht : b.start ≤ t) (htu : t ≤ u) :
    b.rawIdx t ≤ b.rawIdx u := by
  unfold Board.rawIdx
  rw [tdiv_eq_ediv_nonneg _ _ (by omega), tdiv_eq_ediv_nonneg _ _ (by omega)]
  exact Int.ediv_le_ediv hG (by omega)

theorem Board.rawIdx_lt_size (b : Board) (hG : 0 < b.G) {t : Int} (ht : b.start ≤ t) (hte : t ≤ b.stop) :
    b.rawIdx t < b.size := by
  have h1 := b.rawIdx_mono_le hG ht hte
  have h2 : b.rawIdx b.stop ≤ ceilDiv (b.stop - b.start) b.G := by
    unfold Board.rawIdx
    rw [tdiv_eq_ediv_nonneg _ _ (by omega)]
    exact floor_le_ceil _ _ hG
  unfold Board.size
  omega

/-- before the window the conversion truncates toward zero: instants less than one slot before
    `start` are mapped to slot 0 (not rejected) — stated, not hidden by totalisation -/
theorem Board.rawIdx_before (b : Board) (hG : 0 < b.G) {t : Int} (ht : t < b.start) :
    b.rawIdx t ≤ 0 ∧ (b.start - b.G < t → b.rawIdx t = 0) ∧ t ≤ b.time (b.rawIdx t) := by
  unfold Board.rawIdx Board.time
  have hneg : t - b.start = -(b.start - t) := by omega
  rw [hneg, Int.neg_tdiv]
  rw [tdiv_eq_ediv_nonneg _ _ (by omega)]
  have h0 : 0 ≤ (b.start - t) / b.G := Int.ediv_nonneg (by omega) (Int.le_of_lt hG)
  have h1 := Int.ediv_mul_le (b.start - t) (Int.ne_of_gt hG)
  refine ⟨by omega, ?_, ?_⟩
  · intro h
    have : (b.start - t) / b.G = 0 := Int.ediv_eq_zero_of_lt (by omega) (by omega)
    omega
  · have : -((b.start - t) / b.G) * b.G = -(((b.start - t) / b.G) * b.G) := by rw [Int.neg_mul]
    omega

end SP
