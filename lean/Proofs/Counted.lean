import Proofs.Closed
import Proofs.Frame
/-!
C05, the link between the ledger and the limit counters: in every state the scheduler reaches, every limit counter is at
least the number of ledger entries the limit covers in that period.  Together with `Inv.cnt` (counter ≤ value) this
bounds the *booked* slots, and with `SlotInv` the booked seconds, by the limit.
-/
namespace SP

/-- a ledger entry: resource, slot, task -/
abbrev Trip := Nat × Int × Nat

/-- `Limit.inc(index, resource)` counts (no resource filter, or the filter names this resource) -/
def applies (e : Env) (q : Nat × Option Nat) : Bool := !((e.limitD q.1).res.isSome && (e.limitD q.1).res != q.2)

/-- limit `lid` is one of those a booking of resource `r` by task `t` increments -/
def covers (e : Env) (lid r t : Nat) : Prop := ∃ q ∈ bookPairs e r t, q.1 = lid ∧ applies e q = true

def hasEntry (σ : St) (x : Trip) : Prop := usageOf (σ.led.get x.1 x.2.1).usage x.2.2 ≠ none

/-- a duplicate-free list of entries of the ledger that limit `lid` covers in its period `p` -/
def Valid (e : Env) (σ : St) (lid : Nat) (p : Int) (L : List Trip) : Prop :=
  L.Nodup ∧ ∀ x ∈ L, hasEntry σ x ∧ covers e lid x.1 x.2.2 ∧ e.period (e.limitD lid) x.2.1 = p

/-- every counter is at least the number of covered entries -/
def Counted (e : Env) (σ : St) : Prop :=
  ∀ lid p L, 0 ≤ p → Valid e σ lid p L → (L.length : Int) ≤ σ.cnt.get lid p

/-! ### counters only grow, and grow where a booking is covered -/

theorem limitInc_cnt_ge (e : Env) (σ : St) (lid : Nat) (i : Int) (r : Option Nat) (l : Nat) (k : Int) :
    σ.cnt.get l k ≤ (limitInc e σ lid i r).cnt.get l k := by
  unfold limitInc; simp only []
  split
  · exact Int.le_refl _
  · split
    · exact Int.le_refl _
    · simp only [Counters.get_set]
      split
      · rename_i h; rw [← h.1, ← h.2]; omega
      · exact Int.le_refl _

theorem incAll_cnt_ge (e : Env) (σ : St) (ps : List (Nat × Option Nat)) (i : Int) (l : Nat) (k : Int) :
    σ.cnt.get l k ≤ (incAll e σ ps i).cnt.get l k := by
  induction ps generalizing σ with
  | nil => exact Int.le_refl _
  | cons q qs ih =>
    simp only [incAll, List.foldl_cons]
    exact Int.le_trans (limitInc_cnt_ge e σ q.1 i q.2 l k) (ih (limitInc e σ q.1 i q.2))

theorem limitInc_cnt_self (e : Env) (σ : St) (q : Nat × Option Nat) (i : Int) (ha : applies e q = true)
    (hp : 0 ≤ e.period (e.limitD q.1) i) :
    (limitInc e σ q.1 i q.2).cnt.get q.1 (e.period (e.limitD q.1) i) = σ.cnt.get q.1 (e.period (e.limitD q.1) i) + 1 := by
  unfold applies at ha
  unfold limitInc; simp only []
  have h1 : ((e.limitD q.1).res.isSome && (e.limitD q.1).res != q.2) = false := by
    cases hb : ((e.limitD q.1).res.isSome && (e.limitD q.1).res != q.2) with
    | false => rfl
    | true => rw [hb] at ha; exact Bool.noConfusion ha
  have h2 : ¬ (e.period (e.limitD q.1) i < 0) := by omega
  simp only [h1, Bool.false_eq_true, if_false, h2, Counters.get_set, and_self, if_true]

theorem incAll_cnt_covered (e : Env) (σ : St) (ps : List (Nat × Option Nat)) (i : Int) (q : Nat × Option Nat) (hq : q ∈ ps)
    (ha : applies e q = true) (hp : 0 ≤ e.period (e.limitD q.1) i) :
    σ.cnt.get q.1 (e.period (e.limitD q.1) i) + 1 ≤ (incAll e σ ps i).cnt.get q.1 (e.period (e.limitD q.1) i) := by
  induction ps generalizing σ with
  | nil => cases hq
  | cons x xs ih =>
    simp only [incAll, List.foldl_cons]
    rcases List.mem_cons.mp hq with h | h
    · subst h
      have h1 := limitInc_cnt_self e σ q i ha hp
      have h2 := incAll_cnt_ge e (limitInc e σ q.1 i q.2) xs i q.1 (e.period (e.limitD q.1) i)
      simp only [incAll] at h2
      omega
    · have h1 := limitInc_cnt_ge e σ x.1 i x.2 q.1 (e.period (e.limitD q.1) i)
      have h2 := ih (limitInc e σ x.1 i x.2) h
      simp only [incAll] at h2
      omega

/-! ### entries -/

theorem release_entry (s : Slot) (t t' : Nat) (a : Rat) (h : usageOf (s.release t a).usage t' ≠ none) :
    usageOf s.usage t' ≠ none := by
  by_cases ht : t = t'
  · subst ht
    cases hu : usageOf s.usage t with
    | none =>
      have : s.release t a = s := by unfold Slot.release; simp only [hu]
      rw [this] at h; exact absurd hu h
    | some b => simp
  · rw [release_other s t' t a ht] at h; exact h

theorem book_entry (G : Int) (s : Slot) (t t' : Nat) (h : usageOf (s.book G t).usage t' ≠ none) :
    usageOf s.usage t' ≠ none ∨ t' = t := by
  by_cases ht : t = t'
  · exact Or.inr ht.symm
  · rw [book_other G s t' t ht] at h; exact Or.inl h

theorem Counted.mono {e : Env} {σ σ' : St} (h : Counted e σ) (hent : ∀ x, hasEntry σ' x → hasEntry σ x)
    (hcnt : ∀ lid p, σ.cnt.get lid p ≤ σ'.cnt.get lid p) : Counted e σ' := by
  intro lid p L hp hv
  have : Valid e σ lid p L := ⟨hv.1, fun x hx => ⟨hent x (hv.2 x hx).1, (hv.2 x hx).2⟩⟩
  exact Int.le_trans (h lid p L hp this) (hcnt lid p)

theorem counted_set_slot {e : Env} {σ : St} (h : Counted e σ) (r : Nat) (i : Int) (s' : Slot)
    (hs : ∀ t, usageOf s'.usage t ≠ none → usageOf (σ.led.get r i).usage t ≠ none) :
    Counted e { σ with led := σ.led.set r i s' } := by
  apply h.mono
  · intro x hx
    unfold hasEntry at hx ⊢
    simp only [Ledger.get_set] at hx
    split at hx
    · rename_i heq; rw [← heq.1, ← heq.2]; exact hs _ hx
    · exact hx
  · intro lid p; exact Int.le_refl _

/-- the ledger and mark part of `bookSlot` -/
def bookLed (e : Env) (σ : St) (r : Nat) (i : Int) (t : Nat) : St :=
  { σ with led := σ.led.set r i ((σ.led.get r i).book e.G t), marks := σ.marks.set r (e.norm i) }

theorem bookSlot_eq' (e : Env) (σ : St) (r : Nat) (i : Int) (t : Nat) :
    (bookSlot e σ r i t).1 = incAll e (bookLed e σ r i t) (bookPairs e r t) i := bookSlot_eq e σ r i t

theorem counted_bookSlot (e : Env) (σ : St) (r : Nat) (i : Int) (t : Nat) (h : Counted e σ) :
    Counted e (bookSlot e σ r i t).1 := by
  rw [bookSlot_eq']
  intro lid p L hp hv
  -- entries of the new state: the old ones and (r, i, t)
  have hent : ∀ x : Trip, hasEntry (incAll e (bookLed e σ r i t) (bookPairs e r t) i) x → hasEntry σ x ∨ x = (r, i, t) := by
    intro x hx
    unfold hasEntry at hx ⊢
    rw [incAll_led] at hx
    simp only [bookLed, Ledger.get_set] at hx
    split at hx
    · rename_i heq
      rcases book_entry e.G _ t _ hx with h1 | h1
      · left; rw [← heq.1, ← heq.2]; exact h1
      · right
        obtain ⟨a, b, c⟩ := x
        simp only at heq h1 ⊢
        rw [← heq.1, ← heq.2, h1]
    · exact Or.inl hx
  have hge := incAll_cnt_ge e (bookLed e σ r i t) (bookPairs e r t) i lid p
  have hge' : σ.cnt.get lid p ≤ (incAll e (bookLed e σ r i t) (bookPairs e r t) i).cnt.get lid p := hge
  by_cases hnew : (r, i, t) ∈ L ∧ ¬ hasEntry σ (r, i, t)
  · obtain ⟨hmem, hne⟩ := hnew
    -- drop the new entry: what is left was already there
    have hv' : Valid e σ lid p (L.erase (r, i, t)) := by
      refine ⟨hv.1.erase _, fun x hx => ?_⟩
      have hxL : x ∈ L := List.mem_of_mem_erase hx
      have hxne : x ≠ (r, i, t) := fun heq => by
        rw [heq] at hx; exact (List.Nodup.not_mem_erase hv.1) hx
      obtain ⟨h1, h2⟩ := hv.2 x hxL
      rcases hent x h1 with h3 | h3
      · exact ⟨h3, h2⟩
      · exact absurd h3 hxne
    have hlen := h lid p _ hp hv'
    rw [List.length_erase_of_mem hmem] at hlen
    have hpos : 0 < L.length := List.length_pos_of_mem hmem
    obtain ⟨_, ⟨q, hq, hq1, hqa⟩, hper⟩ := hv.2 _ hmem
    simp only at hper
    have hinc := incAll_cnt_covered e (bookLed e σ r i t) (bookPairs e r t) i q hq hqa (by rw [hq1, hper]; exact hp)
    rw [hq1, hper] at hinc
    have hinc' : σ.cnt.get lid p + 1 ≤ (incAll e (bookLed e σ r i t) (bookPairs e r t) i).cnt.get lid p := hinc
    omega
  · have hv' : Valid e σ lid p L := by
      refine ⟨hv.1, fun x hx => ?_⟩
      obtain ⟨h1, h2⟩ := hv.2 x hx
      rcases hent x h1 with h3 | h3
      · exact ⟨h3, h2⟩
      · subst h3
        by_cases hh : hasEntry σ (r, i, t)
        · exact ⟨hh, h2⟩
        · exact absurd ⟨hx, hh⟩ hnew
    exact Int.le_trans (h lid p L hp hv') hge'

/-- `Counted` is closed under everything the scheduler does -/
theorem counted_closed (e : Env) : Closed e (Counted e) where
  eq := by
    intro σ σ' hl hc _ h
    apply h.mono
    · intro x hx; unfold hasEntry at hx ⊢; rw [hl] at hx; exact hx
    · intro lid p; rw [hc]; exact Int.le_refl _
  reserve := by
    intro σ r i off _ _ _ h
    unfold reserveAt
    exact counted_set_slot h r i _ (fun t ht => by rw [reserve_usage] at ht; exact ht)
  release := by
    intro σ r i t a _ _ _ _ h
    exact counted_set_slot h r i _ (fun t' ht => release_entry _ t t' a ht)
  book := by
    intro σ r i t _ _ _ _ _ _ _ h
    exact counted_bookSlot e σ r i t h

theorem counted_init (e : Env) : Counted e (initState e) := by
  intro lid p L _ hv
  cases L with
  | nil => simp [initState, Counters.get_empty]
  | cons x xs =>
    have := (hv.2 x List.mem_cons_self).1
    unfold hasEntry at this
    simp [initState, Ledger.get_empty, usageOf] at this

/-- **every state a scenario run ends in**: each counter is at least the number of ledger entries its limit covers -/
theorem runScenario_counted (e : Env) (wf : WF e) : Counted e (runScenario e) :=
  runScenario_closed (counted_closed e) wf (fun _ => trivial) (counted_init e)

/-- hence the number of covered ledger entries of any period is at most the limit -/
theorem runScenario_entries_le_limit (e : Env) (wf : WF e) (lid : Nat) (p : Int) (L : List Trip) (hp : 0 ≤ p)
    (hv : Valid e (runScenario e) lid p L) : (L.length : Int) ≤ max 0 (e.limitD lid).value :=
  Int.le_trans (runScenario_counted e wf lid p L hp hv) ((runScenario_inv e wf).cnt lid p)

/-! ### seconds -/

theorem usageSum_nonneg (u : List (Nat × Rat)) (h : ∀ x ∈ u, 0 ≤ x.2) : 0 ≤ usageSum u := by
  induction u with
  | nil => simp only [usageSum_nil]; grind
  | cons x xs ih =>
    simp only [usageSum_cons]
    have h1 := h x List.mem_cons_self
    have h2 := ih (fun y hy => h y (List.mem_cons_of_mem _ hy))
    grind

/-- seconds the ledger records for an entry -/
def tripSecs (σ : St) (x : Trip) : Rat := (usageOf (σ.led.get x.1 x.2.1).usage x.2.2).getD 0

def sumTrips (σ : St) : List Trip → Rat
  | [] => 0
  | x :: xs => tripSecs σ x + sumTrips σ xs

theorem tripSecs_le_G {e : Env} {σ : St} (wf : WF e) (hi : Inv e σ) (x : Trip) : tripSecs σ x ≤ (e.G : Rat) := by
  unfold tripSecs
  have hs := hi.slot x.1 x.2.1
  cases hu : usageOf (σ.led.get x.1 x.2.1).usage x.2.2 with
  | none => exact G_rat_nonneg wf
  | some b =>
    have hm := mem_le_usageSum _ hs.entries_nonneg _ (usageOf_mem hu)
    have h1 := hs.sum_le
    have h2 := hs.used_le
    show b ≤ (e.G : Rat)
    simp only at hm
    grind

theorem sumTrips_le {e : Env} {σ : St} (wf : WF e) (hi : Inv e σ) (L : List Trip) :
    sumTrips σ L ≤ (L.length : Rat) * (e.G : Rat) := by
  induction L with
  | nil => simp only [sumTrips, List.length_nil]; grind
  | cons x xs ih =>
    simp only [sumTrips, List.length_cons]
    have := tripSecs_le_G wf hi x
    have hc : ((xs.length + 1 : Nat) : Rat) = (xs.length : Rat) + 1 := by push_cast; rfl
    rw [hc, Rat.add_mul, Rat.one_mul, Rat.add_comm]
    grind

/-- **booked time per period ≤ limit**: the seconds the final ledger records in any duplicate-free list of entries a limit
    covers in one of its periods are at most `value` slots of `G` seconds -/
theorem runScenario_secs_le_limit (e : Env) (wf : WF e) (lid : Nat) (p : Int) (L : List Trip) (hp : 0 ≤ p)
    (hv : Valid e (runScenario e) lid p L) :
    sumTrips (runScenario e) L ≤ (max 0 (e.limitD lid).value : Int) * (e.G : Rat) := by
  have h1 := sumTrips_le wf (runScenario_inv e wf) L
  have h2 := runScenario_entries_le_limit e wf lid p L hp hv
  have hG := G_rat_nonneg wf
  have h3 : (L.length : Rat) ≤ ((max 0 (e.limitD lid).value : Int) : Rat) := by exact_mod_cast h2
  have h4 : (L.length : Rat) * (e.G : Rat) ≤ ((max 0 (e.limitD lid).value : Int) : Rat) * (e.G : Rat) :=
    Rat.mul_le_mul_of_nonneg_right h3 hG
  exact Rat.le_trans h1 h4

end SP
