import Proofs.TeamAll
import Proofs.Visits
/-!
C03 for teams with one common efficiency, one slot: what `bookResources` credits is exactly (the seconds every member
was booked for) x efficiency / 3600, and after the tail release every member keeps the same seconds.
-/
namespace SP

/-- the accumulator of the booking loop after a team whose members are all booked for `a > 0` seconds -/
theorem bookAll_team_all_acc (e : Env) (σ0 : St) (t : Nat) (w : Walk) (c η : Rat)
    (hpos : 0 < availOf e.G (teamU c w)) (hη : 0 < η) :
    ∀ (l : List Nat) (acc : BookAcc) (σg : St), l.Nodup → (∀ r ∈ l, (e.resD r).eff = η) →
      TeamRel e σ0 σg acc.σ w.cur c t l → teamGateOk e t w.cur σg l = true → l ≠ [] →
      (l.foldl (bookOne e t w) acc).total = max acc.total (availOf e.G (teamU c w) / 3600 * η) ∧
      (l.foldl (bookOne e t w) acc).any = true ∧
      (l.foldl (bookOne e t w) acc).last = l.getLast? := by
  intro l
  induction l with
  | nil => intro acc σg _ _ _ _ hne; exact absurd rfl hne
  | cons r rs ih =>
    intro acc σg hnd heff hrel hgate _
    simp only [teamGateOk, Bool.and_eq_true] at hgate
    obtain ⟨⟨hav, htl⟩, hrest⟩ := hgate
    have hr_mem : r ∈ r :: rs := List.mem_cons_self
    have hnd' := List.nodup_cons.mp hnd
    have hU := reserveStep_used acc.σ w r c (hrel.useda r hr_mem)
    have hav' : available e (reserveStep acc.σ w r) r w.cur = true := by
      apply available_transfer e σg (reserveStep acc.σ w r) r w.cur (teamU c w) hav
      · rw [reserveStep_cnt]; exact hrel.cnt
      · rw [reserveStep_marks, hrel.marksa r hr_mem, hrel.marksg]
      · exact hU
      · rw [hrel.ledg]; exact (hrel.used0 r hr_mem).1
      · rw [hrel.ledg]; exact Rat.le_trans (hrel.used0 r hr_mem).2 (teamU_ge c w)
      · exact hpos
    have htl' : taskLimitsOk e (reserveStep acc.σ w r) t w.cur r = true := by
      rw [taskLimitsOk_cnt e σg _ t w.cur r (by rw [reserveStep_cnt]; exact hrel.cnt)]; exact htl
    have hbook : bookResource e acc.σ t w r = bookSlot e (reserveStep acc.σ w r) r w.cur t := by
      rw [bookResource_books_iff]; simp [hav', htl']
    have hgain : (bookSlot e (reserveStep acc.σ w r) r w.cur t).2 = availOf e.G (teamU c w) / 3600 * η := by
      rw [bookSlot_gain, availSecs_eq, hU, heff r hr_mem]
    have hgpos : 0 < availOf e.G (teamU c w) / 3600 * η := by
      have h36 : (0 : Rat) < 3600 := by decide +kernel
      exact Rat.mul_pos (by rw [Rat.div_def]; exact Rat.mul_pos hpos (Rat.inv_pos.mpr h36)) hη
    have hone : bookOne e t w acc r =
        { σ := (bookSlot e (reserveStep acc.σ w r) r w.cur t).1,
          total := max acc.total (availOf e.G (teamU c w) / 3600 * η), last := some r, any := true } := by
      unfold bookOne
      simp only [hbook, hgain, hgpos, if_true]
    simp only [List.foldl_cons]
    cases hrs : rs with
    | nil =>
      simp only [List.foldl_nil, hone, List.getLast?_singleton]
      exact ⟨trivial, trivial, trivial⟩
    | cons r2 rs2 =>
      have hσ1 : (bookOne e t w acc r).σ = (bookSlot e (reserveStep acc.σ w r) r w.cur t).1 := by rw [hone]
      have hrel' : TeamRel e σ0 (countMember e σg t w.cur r) (bookOne e t w acc r).σ w.cur c t rs := by
        refine ⟨?_, ?_, ?_, ?_, ?_, ?_, ?_⟩
        · rw [hσ1, bookSlot_cnt, countMember_eq, countMember_eq]
          exact incAll_cnt_congr e σg _ _ w.cur (by rw [reserveStep_cnt]; exact hrel.cnt)
        · rw [countMember_led]; exact hrel.ledg
        · rw [countMember_marks]; exact hrel.marksg
        · intro r' hr'
          have hne : r ≠ r' := fun h => hnd'.1 (h ▸ hr')
          rw [hσ1, bookSlot_marks, Marks.get_set, reserveStep_marks]
          simp only [hne, false_and, if_false]
          exact hrel.marksa r' (List.mem_cons_of_mem _ hr')
        · intro r' hr'
          have hne : ¬ (r = r' ∧ w.cur = w.cur) := fun h => hnd'.1 (h.1 ▸ hr')
          rw [hσ1, bookSlot_frame _ _ _ _ _ _ _ hne, reserveStep_frame _ _ _ _ _ hne]
          exact hrel.useda r' (List.mem_cons_of_mem _ hr')
        · intro r' hr'
          have hne : ¬ (r = r' ∧ w.cur = w.cur) := fun h => hnd'.1 (h.1 ▸ hr')
          rw [hσ1, bookSlot_frame _ _ _ _ _ _ _ hne, reserveStep_frame _ _ _ _ _ hne]
          exact hrel.clean r' (List.mem_cons_of_mem _ hr')
        · intro r' hr'; exact hrel.used0 r' (List.mem_cons_of_mem _ hr')
      have := ih (bookOne e t w acc r) (countMember e σg t w.cur r) hnd'.2
        (fun r' hr' => heff r' (List.mem_cons_of_mem _ hr')) hrel' hrest (by rw [hrs]; simp)
      rw [hrs] at this
      obtain ⟨h1, h2, h3⟩ := this
      refine ⟨?_, h2, ?_⟩
      · rw [h1, hone]
        simp only []
        grind
      · rw [h3]; simp

/-- … and after a team nobody of which could be booked: the accumulator is unchanged -/
theorem bookAll_team_none_acc (e : Env) (t : Nat) (w : Walk) (c : Rat)
    (hz : ¬ 0 < availOf e.G (teamU c w)) :
    ∀ (l : List Nat) (acc : BookAcc), l.Nodup →
      (∀ r ∈ l, (acc.σ.led.get r w.cur).used = c ∧ usageOf (acc.σ.led.get r w.cur).usage t = none) →
      (l.foldl (bookOne e t w) acc).total = acc.total ∧ (l.foldl (bookOne e t w) acc).any = acc.any ∧
      (l.foldl (bookOne e t w) acc).last = acc.last := by
  intro l
  induction l with
  | nil => intro acc _ _; exact ⟨rfl, rfl, rfl⟩
  | cons r rs ih =>
    intro acc hnd hpre
    have hnd' := List.nodup_cons.mp hnd
    obtain ⟨hu, hcl⟩ := hpre r List.mem_cons_self
    have hU := reserveStep_used acc.σ w r c hu
    have hav : available e (reserveStep acc.σ w r) r w.cur = false :=
      available_false_of_no_time e _ r w.cur (by rw [hU]; exact hz)
    have hbook : bookResource e acc.σ t w r = (reserveStep acc.σ w r, 0) := by
      rw [bookResource_books_iff]; simp [hav]
    have hone : bookOne e t w acc r = { acc with σ := reserveStep acc.σ w r } := by
      unfold bookOne
      simp only [hbook]
      have : ¬ ((0 : Rat) > 0) := by grind
      simp only [this, if_false]
    have hpre' : ∀ r' ∈ rs, ((bookOne e t w acc r).σ.led.get r' w.cur).used = c ∧
        usageOf ((bookOne e t w acc r).σ.led.get r' w.cur).usage t = none := by
      intro r' hr'
      have hne : ¬ (r = r' ∧ w.cur = w.cur) := fun h => hnd'.1 (h.1 ▸ hr')
      rw [hone]
      simp only []
      rw [reserveStep_frame _ _ _ _ _ hne]
      exact hpre r' (List.mem_cons_of_mem _ hr')
    obtain ⟨h1, h2, h3⟩ := ih (bookOne e t w acc r) hnd'.2 hpre'
    simp only [List.foldl_cons]
    rw [h1, h2, h3, hone]
    exact ⟨rfl, rfl, rfl⟩

end SP

namespace SP

theorem availOf_le_G (G : Int) (u : Rat) (hu : 0 ≤ u) (hG : (0 : Rat) ≤ (G : Rat)) : availOf G u ≤ (G : Rat) := by
  unfold availOf; grind

theorem teamCommon_nonneg (σ : St) (cur : Int) (sel : List Nat) : 0 ≤ teamCommon σ cur sel := by
  unfold teamCommon
  exact foldMax_ge_init sel (fun r => (σ.led.get r cur).used) 0

/-- **`bookResources` of a team with one common efficiency, one slot**: nobody is booked and nothing is credited, or every
    member is booked for the same `a` seconds and exactly `a x efficiency / 3600` is credited -/
theorem bookResources_team_full (e : Env) (wf : WF e) (σ : St) (t : Nat) (w : Walk) (sel : List Nat) (η : Rat)
    (hinv : Inv e σ) (ha : (e.taskD t).hasAlloc = true) (hsel : selectedOf e σ t w = sel)
    (hteam : isTeam e t sel = true) (hnd : sel.Nodup) (heff : ∀ r ∈ sel, (e.resD r).eff = η) (hη : 0 < η)
    (hclean : ∀ r ∈ sel, usageOf (σ.led.get r w.cur).usage t = none) :
    (bookResources e σ t w).2.selected = some sel ∧ (bookResources e σ t w).2.cur = w.cur ∧
    (((∀ r ∈ sel, usageOf ((bookResources e σ t w).1.led.get r w.cur).usage t = none) ∧
        (bookResources e σ t w).2.done = w.done ∧ (bookResources e σ t w).2.last = w.last) ∨
     (∃ a, 0 < a ∧ a ≤ (e.G : Rat) ∧
        (∀ r ∈ sel, usageOf ((bookResources e σ t w).1.led.get r w.cur).usage t = some a) ∧
        (bookResources e σ t w).2.done = w.done + a / 3600 * η ∧
        (bookResources e σ t w).2.last = sel.getLast?)) := by
  have hne : sel.isEmpty = false := by
    unfold isTeam at hteam
    simp only [Bool.and_eq_true, decide_eq_true_eq] at hteam
    cases hs : sel with
    | nil => rw [hs] at hteam; simp at hteam
    | cons x xs => rfl
  have hne' : sel ≠ [] := by intro h; rw [h] at hne; simp at hne
  unfold bookResources
  simp only [ha, Bool.not_true, Bool.false_eq_true, if_false, hsel, hne]
  by_cases hg : teamGateOk e t w.cur σ sel = true
  · have hgf : teamGateFails e σ t { w with selected := some sel } sel = false := by
      unfold teamGateFails; simp [hteam, hg]
    simp only [hgf, Bool.false_eq_true, if_false]
    have hlev : leveled e σ t w.cur sel = levelTeam σ w.cur sel := by unfold leveled; simp [hteam]
    simp only [hlev]
    have hused : ∀ r ∈ sel, ((levelTeam σ w.cur sel).led.get r w.cur).used = teamCommon σ w.cur sel :=
      fun r hr => levelTeam_used σ w.cur sel r hr
    have hcl : ∀ r ∈ sel, usageOf ((levelTeam σ w.cur sel).led.get r w.cur).usage t = none := by
      intro r hr; rw [levelTeam_usage]; exact hclean r hr
    by_cases hpos : 0 < availOf e.G (teamU (teamCommon σ w.cur sel) w)
    · have hrel : TeamRel e σ σ (levelTeam σ w.cur sel) w.cur (teamCommon σ w.cur sel) t sel := by
        refine ⟨levelTeam_cnt σ w.cur sel, rfl, rfl, fun r _ => by rw [levelTeam_marks], hused, hcl, fun r hr => ?_⟩
        exact ⟨(hinv.slot r w.cur).used_nonneg, le_teamCommon σ w.cur sel r hr⟩
      have hent := (bookAll_team_all e σ t { w with selected := some sel } _ hpos sel
        { σ := levelTeam σ w.cur sel, last := w.last } σ hnd hrel hg).1
      obtain ⟨htot, hany, hlast⟩ := bookAll_team_all_acc e σ t { w with selected := some sel } _ η hpos hη sel
        { σ := levelTeam σ w.cur sel, last := w.last } σ hnd heff hrel hg hne'
      unfold bookAll
      simp only [hany, if_true, markStart_led]
      refine ⟨trivial, trivial, Or.inr ⟨_, hpos, ?_, hent, ?_, hlast⟩⟩
      · exact availOf_le_G e.G _ (Rat.le_trans (teamCommon_nonneg σ w.cur sel) (teamU_ge _ _)) (G_rat_nonneg wf)
      · show w.done + (sel.foldl (bookOne e t { w with selected := some sel }) { σ := levelTeam σ w.cur sel, last := w.last }).total = _
        rw [htot]
        have h36 : (0 : Rat) < 3600 := by decide +kernel
        have : 0 < availOf e.G (teamU (teamCommon σ w.cur sel) w) / 3600 * η :=
          Rat.mul_pos (by rw [Rat.div_def]; exact Rat.mul_pos hpos (Rat.inv_pos.mpr h36)) hη
        have hmax : max (0 : Rat) (availOf e.G (teamU (teamCommon σ w.cur sel) w) / 3600 * η) =
            availOf e.G (teamU (teamCommon σ w.cur sel) w) / 3600 * η := by
          rw [Rat.max_def]; split
          · rfl
          · grind
        show w.done + max (0 : Rat) (availOf e.G (teamU (teamCommon σ w.cur sel) w) / 3600 * η) = _
        rw [hmax]
    · have hent := (bookAll_team_none e t { w with selected := some sel } _ hpos sel
        { σ := levelTeam σ w.cur sel, last := w.last } hnd (fun r hr => ⟨hused r hr, hcl r hr⟩)).1
      obtain ⟨_, hany, hlast⟩ := bookAll_team_none_acc e t { w with selected := some sel } _ hpos sel
        { σ := levelTeam σ w.cur sel, last := w.last } hnd (fun r hr => ⟨hused r hr, hcl r hr⟩)
      unfold bookAll
      simp only [hany, Bool.false_eq_true, if_false]
      exact ⟨trivial, trivial, Or.inl ⟨hent, trivial, hlast⟩⟩
  · have hgf : teamGateFails e σ t { w with selected := some sel } sel = true := by
      unfold teamGateFails
      have : teamGateOk e t w.cur σ sel = false := by simpa using hg
      simp [hteam, this]
    simp only [hgf, if_true]
    exact ⟨trivial, trivial, Or.inl ⟨hclean, trivial, trivial⟩⟩

end SP

namespace SP

theorem releaseOthers_team (t : Nat) (cur : Int) (rl : Nat) (need a : Rat) (hle : need ≤ a) :
    ∀ (l : List Nat) (σ : St), l.Nodup →
      usageOf (σ.led.get rl cur).usage t = some need →
      (∀ m ∈ l, m ≠ rl → usageOf (σ.led.get m cur).usage t = some a) →
      (∀ m ∈ l, usageOf ((releaseOthers σ t cur rl need l).led.get m cur).usage t = some need) ∧
      (∀ m, m ∉ l → (releaseOthers σ t cur rl need l).led.get m cur = σ.led.get m cur) := by
  intro l
  induction l with
  | nil => intro σ _ _ _; exact ⟨fun m hm => absurd hm List.not_mem_nil, fun _ _ => rfl⟩
  | cons x xs ih =>
    intro σ hnd hrl hpre
    have hnd' := List.nodup_cons.mp hnd
    unfold releaseOthers
    simp only [List.foldl_cons]
    by_cases hx : x = rl
    · subst hx
      simp only [beq_self_eq_true, if_true]
      have := ih σ hnd'.2 hrl (fun m hm hne => hpre m (List.mem_cons_of_mem _ hm) hne)
      unfold releaseOthers at this
      refine ⟨?_, ?_⟩
      · intro m hm
        rcases List.mem_cons.mp hm with h | h
        · subst h; rw [this.2 m hnd'.1]; exact hrl
        · exact this.1 m h
      · intro m hm
        exact this.2 m (fun h => hm (List.mem_cons_of_mem _ h))
    · have hbeq : (x == rl) = false := by simpa using hx
      have hxa := hpre x List.mem_cons_self hx
      simp only [hbeq, Bool.false_eq_true, if_false, hxa]
      have hmin : min need a = need := by grind
      rw [hmin]
      have hrl' : usageOf (({ σ with led := σ.led.set x cur ((σ.led.get x cur).release t need) } : St).led.get rl cur).usage t = some need := by
        show usageOf ((σ.led.set x cur ((σ.led.get x cur).release t need)).get rl cur).usage t = some need
        rw [Ledger.get_set]
        simp only [hx, false_and, if_false]; exact hrl
      have hpre' : ∀ m ∈ xs, m ≠ rl →
          usageOf (({ σ with led := σ.led.set x cur ((σ.led.get x cur).release t need) } : St).led.get m cur).usage t = some a := by
        intro m hm hne
        show usageOf ((σ.led.set x cur ((σ.led.get x cur).release t need)).get m cur).usage t = some a
        rw [Ledger.get_set]
        have hxm : ¬ x = m := fun h => hnd'.1 (h ▸ hm)
        simp only [hxm, false_and, if_false]
        exact hpre m (List.mem_cons_of_mem _ hm) hne
      have := ih _ hnd'.2 hrl' hpre'
      unfold releaseOthers at this
      refine ⟨?_, ?_⟩
      · intro m hm
        rcases List.mem_cons.mp hm with h | h
        · subst h
          rw [this.2 m hnd'.1]
          show usageOf ((σ.led.set m cur ((σ.led.get m cur).release t need)).get m cur).usage t = some need
          rw [Ledger.get_set]
          simp only [and_self, if_true]
          exact release_secs _ t need a hxa hle
        · exact this.1 m h
      · intro m hm
        have hm1 : m ∉ xs := fun h => hm (List.mem_cons_of_mem _ h)
        have hne : x ≠ m := fun h => hm (h ▸ List.mem_cons_self)
        rw [this.2 m hm1]
        show (σ.led.set x cur ((σ.led.get x cur).release t need)).get m cur = σ.led.get m cur
        rw [Ledger.get_set]
        simp only [hne, false_and, if_false]

/-- the finishing slot of a team: every member keeps exactly the seconds the task still needed -/
theorem finishTask_team (e : Env) (σ : St) (t : Nat) (w : Walk) (before : Rat) (fwd : Bool) (sel : List Nat) (rl : Nat)
    (a : Rat) (hlast : w.last = some rl) (hsel : w.selected = some sel) (hrl : rl ∈ sel) (hnd : sel.Nodup)
    (hent : ∀ r ∈ sel, usageOf (σ.led.get r w.cur).usage t = some a)
    (hle : needSecs e σ t w before rl ≤ a) :
    ∀ r ∈ sel, usageOf ((finishTask e σ t w before fwd).1.led.get r w.cur).usage t = some (needSecs e σ t w before rl) := by
  unfold finishTask
  simp only [hlast, hsel, Option.getD_some]
  have hrl' : usageOf (({ σ with led := σ.led.set rl w.cur ((σ.led.get rl w.cur).release t (needSecs e σ t w before rl)) } : St).led.get rl w.cur).usage t
      = some (needSecs e σ t w before rl) := by
    show usageOf ((σ.led.set rl w.cur ((σ.led.get rl w.cur).release t (needSecs e σ t w before rl))).get rl w.cur).usage t = _
    rw [Ledger.get_set]
    simp only [and_self, if_true]
    exact release_secs _ t _ a (hent rl hrl) hle
  have hpre : ∀ m ∈ sel, m ≠ rl →
      usageOf (({ σ with led := σ.led.set rl w.cur ((σ.led.get rl w.cur).release t (needSecs e σ t w before rl)) } : St).led.get m w.cur).usage t = some a := by
    intro m hm hne
    show usageOf ((σ.led.set rl w.cur ((σ.led.get rl w.cur).release t (needSecs e σ t w before rl))).get m w.cur).usage t = some a
    rw [Ledger.get_set]
    have hrm : ¬ rl = m := fun h => hne h.symm
    simp only [hrm, false_and, if_false]
    exact hent m hm
  exact (releaseOthers_team t w.cur rl _ a hle sel _ hnd hrl' hpre).1

end SP

namespace SP

/-- accounting invariant of the walk of a team task whose members `sel` share the efficiency `η` -/
structure TAcc (e : Env) (σ : St) (t : Nat) (sel : List Nat) (η : Rat) (fwd : Bool) (w : Walk) (vis : List Int) : Prop where
  only : ∀ r ∈ sel, ∀ i, i ∉ vis → usageOf (σ.led.get r i).usage t = none
  before : ∀ i ∈ vis, (if fwd then i < w.cur else w.cur < i)
  credit : ∀ r ∈ sel, w.done = sumOver σ.led r t vis / 3600 * η
  nodup : vis.Nodup
  same : ∀ r ∈ sel, ∀ r' ∈ sel, ∀ i, usageOf (σ.led.get r i).usage t = usageOf (σ.led.get r' i).usage t

/-- outcome of a finished team walk: every member holds exactly the effort, and all members hold the same seconds in every slot -/
def TExact (e : Env) (σ : St) (t : Nat) (sel : List Nat) (η : Rat) (vis : List Int) : Prop :=
  vis.Nodup ∧ (∀ r ∈ sel, ∀ i, i ∉ vis → usageOf (σ.led.get r i).usage t = none) ∧
  (∀ r ∈ sel, sumOver σ.led r t vis / 3600 * η = (e.taskD t).effort) ∧
  ∀ r ∈ sel, ∀ r' ∈ sel, ∀ i, usageOf (σ.led.get r i).usage t = usageOf (σ.led.get r' i).usage t

theorem getLast?_mem_of_ne_nil (l : List Nat) (h : l ≠ []) : ∃ x, l.getLast? = some x ∧ x ∈ l := by
  cases hl : l.getLast? with
  | none => rw [List.getLast?_eq_none_iff] at hl; exact absurd hl h
  | some x => exact ⟨x, rfl, List.mem_of_getLast? hl⟩

theorem scheduleSlot_tacc (e : Env) (wf : WF e) (σ : St) (t : Nat) (sel : List Nat) (η : Rat) (fwd : Bool) (w : Walk)
    (vis : List Int) (hinv : Inv e σ) (hlf : (e.taskD t).leaf = true) (hw : WalkOk e t w)
    (ha : (e.taskD t).hasAlloc = true) (hm : (e.taskD t).milestone = false)
    (hsel : selectedOf e σ t w = sel) (hteam : isTeam e t sel = true) (hnd : sel.Nodup)
    (heff : ∀ r ∈ sel, (e.resD r).eff = η) (hη : 0 < η)
    (hlt : w.done < (e.taskD t).effort) (hpos : 0 < (e.taskD t).effort)
    (hacc : TAcc e σ t sel η fwd w vis) :
    ((scheduleSlot e σ t w).2.2 = true →
        TAcc e (scheduleSlot e σ t w).1 t sel η fwd (advance fwd w (scheduleSlot e σ t w).2.1) (w.cur :: vis) ∧
        (scheduleSlot e σ t w).2.1.selected = some sel ∧
        (scheduleSlot e σ t w).2.1.done < (e.taskD t).effort) ∧
    ((scheduleSlot e σ t w).2.2 = false → TExact e (scheduleSlot e σ t w).1 t sel η (w.cur :: vis)) := by
  have hcur_notin : w.cur ∉ vis := by
    intro hin
    have := hacc.before _ hin
    split at this <;> omega
  have hclean : ∀ r ∈ sel, usageOf (σ.led.get r w.cur).usage t = none := fun r hr => hacc.only r hr _ hcur_notin
  obtain ⟨hselw, hcurw, hcase⟩ := bookResources_team_full e wf σ t w sel η hinv ha hsel hteam hnd heff hη hclean
  have hother := bookResources_other e σ t w
  have hz : ((e.taskD t).effort == 0) = false := by
    simp only [beq_eq_false_iff_ne, ne_eq]; grind
  have hnodup : (w.cur :: vis).Nodup := List.nodup_cons.mpr ⟨hcur_notin, hacc.nodup⟩
  have hvis_same : ∀ r i, i ∈ vis → (bookResources e σ t w).1.led.get r i = σ.led.get r i := by
    intro r i hi; apply hother; intro h; exact hcur_notin (h ▸ hi)
  have hsum_vis : ∀ r, sumOver (bookResources e σ t w).1.led r t vis = sumOver σ.led r t vis :=
    fun r => sumOver_congr _ _ r t vis (fun i hi => hvis_same r i hi)
  have hne' : sel ≠ [] := by
    intro h; rw [h] at hteam; simp [isTeam] at hteam
  unfold scheduleSlot
  simp only [hm, hz, Bool.or_self, Bool.false_eq_true, if_false]
  by_cases hfin : (bookResources e σ t w).2.done ≥ (e.taskD t).effort
  · simp only [hfin, if_true]
    refine ⟨fun hc => Bool.noConfusion hc, fun _ => ?_⟩
    rcases hcase with ⟨_, hd, _⟩ | ⟨a, ha0, haG, hent, hd, hlast⟩
    · exfalso; rw [hd] at hfin; grind
    · obtain ⟨rl, hrl, hrlmem⟩ := getLast?_mem_of_ne_nil sel hne'
      have hlast' : (bookResources e σ t w).2.last = some rl := by rw [hlast, hrl]
      have hge : (e.taskD t).effort ≤ w.done + a / 3600 * (e.resD rl).eff := by
        rw [heff rl hrlmem, ← hd]; exact hfin
      have heffrl : 0 < (e.resD rl).eff := by rw [heff rl hrlmem]; exact hη
      have hneed := needSecs_eq e (bookResources e σ t w).1 t (bookResources e σ t w).2 w.done rl a heffrl hlt hge haG
        (by rw [hcurw]; exact hent rl hrlmem)
      have fe := finish_exact (e.taskD t).effort w.done a (e.resD rl).eff heffrl hlt hge
      simp only [] at fe
      have hft := finishTask_team e (bookResources e σ t w).1 t (bookResources e σ t w).2 w.done (σ.tst t).forward sel rl a
        hlast' hselw hrlmem hnd (by rw [hcurw]; exact hent) (by rw [hneed]; exact fe.2.1)
      rw [hcurw, hneed] at hft
      have hfo := finishTask_other e (bookResources e σ t w).1 t (bookResources e σ t w).2 w.done (σ.tst t).forward
      unfold TExact
      refine ⟨hnodup, ?_, ?_, ?_⟩
      rotate_left 2
      · intro r hr r' hr' i
        show usageOf ((finishTask e (bookResources e σ t w).1 t (bookResources e σ t w).2 w.done (σ.tst t).forward).1.led.get r i).usage t
          = usageOf ((finishTask e (bookResources e σ t w).1 t (bookResources e σ t w).2 w.done (σ.tst t).forward).1.led.get r' i).usage t
        by_cases hi : i = w.cur
        · subst hi; rw [hft r hr, hft r' hr']
        · rw [hfo r i (by rw [hcurw]; exact hi), hfo r' i (by rw [hcurw]; exact hi), hother r i hi, hother r' i hi]
          exact hacc.same r hr r' hr' i
      · intro r hr i hi
        have hne : i ≠ w.cur := by intro h; exact hi (h ▸ List.mem_cons_self)
        have hnv : i ∉ vis := fun h => hi (List.mem_cons_of_mem _ h)
        show usageOf ((finishTask e (bookResources e σ t w).1 t (bookResources e σ t w).2 w.done (σ.tst t).forward).1.led.get r i).usage t = none
        rw [hfo r i (by rw [hcurw]; exact hne), hother r i hne]
        exact hacc.only r hr i hnv
      · intro r hr
        show sumOver (finishTask e (bookResources e σ t w).1 t (bookResources e σ t w).2 w.done (σ.tst t).forward).1.led r t (w.cur :: vis) / 3600 * η = (e.taskD t).effort
        simp only [sumOver]
        have h1 : taskSecs ((finishTask e (bookResources e σ t w).1 t (bookResources e σ t w).2 w.done (σ.tst t).forward).1.led.get r w.cur) t
            = ((e.taskD t).effort - w.done) / ((e.resD rl).eff / 3600) := by
          unfold taskSecs; rw [hft r hr]; rfl
        have h2 : sumOver (finishTask e (bookResources e σ t w).1 t (bookResources e σ t w).2 w.done (σ.tst t).forward).1.led r t vis
            = sumOver σ.led r t vis := by
          apply sumOver_congr
          intro i hi
          have hne : i ≠ w.cur := by intro h; exact hcur_notin (h ▸ hi)
          rw [hfo r i (by rw [hcurw]; exact hne)]
          exact hvis_same r i hi
        rw [h1, h2]
        have hc := hacc.credit r hr
        have h3 := fe.2.2
        rw [heff rl hrlmem] at h3 ⊢
        grind
  · simp only [hfin, if_false]
    refine ⟨fun _ => ⟨⟨?_, ?_, ?_, hnodup, ?_⟩, hselw, by grind⟩, fun hc => Bool.noConfusion hc⟩
    rotate_left 3
    · intro r hr r' hr' i
      by_cases hi : i = w.cur
      · subst hi
        rcases hcase with ⟨hnone, _, _⟩ | ⟨a, _, _, hent, _, _⟩
        · rw [hnone r hr, hnone r' hr']
        · rw [hent r hr, hent r' hr']
      · rw [hother r i hi, hother r' i hi]
        exact hacc.same r hr r' hr' i
    · intro r hr i hi
      have hne : i ≠ w.cur := by intro h; exact hi (h ▸ List.mem_cons_self)
      have hnv : i ∉ vis := fun h => hi (List.mem_cons_of_mem _ h)
      rw [hother r i hne]
      exact hacc.only r hr i hnv
    · intro i hi
      have hadv : (advance fwd w (bookResources e σ t w).2).cur = w.cur + (if fwd then 1 else -1) := by
        rw [advance_cur, hcurw]
      rw [hadv]
      rcases List.mem_cons.mp hi with h | h
      · subst h; cases fwd <;> simp <;> omega
      · have := hacc.before i h
        cases fwd <;> simp at this ⊢ <;> omega
    · intro r hr
      show (bookResources e σ t w).2.done = sumOver (bookResources e σ t w).1.led r t (w.cur :: vis) / 3600 * η
      simp only [sumOver]
      rw [hsum_vis r]
      have hc := hacc.credit r hr
      rcases hcase with ⟨hnone, hd, _⟩ | ⟨a, _, _, hent, hd, _⟩
      · have : taskSecs ((bookResources e σ t w).1.led.get r w.cur) t = 0 := by unfold taskSecs; rw [hnone r hr]; rfl
        rw [this, hd]; grind
      · have : taskSecs ((bookResources e σ t w).1.led.get r w.cur) t = a := by unfold taskSecs; rw [hent r hr]; rfl
        rw [this, hd]; grind

end SP

namespace SP

theorem TExact.of_led {e : Env} {σ σ' : St} {t : Nat} {sel : List Nat} {η : Rat} {vis : List Int} (hl : σ'.led = σ.led)
    (h : TExact e σ t sel η vis) : TExact e σ' t sel η vis := by
  unfold TExact at *; rw [hl]; exact h

theorem TExact.of_same {e : Env} {σ σ' : St} {t : Nat} {sel : List Nat} {η : Rat} {vis : List Int}
    (hs : SameEntries σ σ' t) (h : TExact e σ t sel η vis) : TExact e σ' t sel η vis := by
  unfold TExact at *
  obtain ⟨h1, h2, h3, h4⟩ := h
  refine ⟨h1, fun r hr i hi => by rw [hs r i]; exact h2 r hr i hi, fun r hr => ?_,
    fun r hr r' hr' i => by rw [hs r i, hs r' i]; exact h4 r hr r' hr' i⟩
  have : sumOver σ'.led r t vis = sumOver σ.led r t vis := by
    clear h1 h2 h3 h4
    induction vis with
    | nil => rfl
    | cons i is ih => simp only [sumOver, taskSecs]; rw [hs r i, ih]
  rw [this]; exact h3 r hr

theorem walkLoop_texact (e : Env) (wf : WF e) (t : Nat) (sel : List Nat) (η : Rat) (fwd : Bool) (fuel : Nat) (σ : St) (w : Walk)
    (vis : List Int) (hinv : Inv e σ) (hlf : (e.taskD t).leaf = true) (hw : WalkOk e t w)
    (ha : (e.taskD t).hasAlloc = true) (hm : (e.taskD t).milestone = false)
    (hsel : selectedOf e σ t w = sel) (hteam : isTeam e t sel = true) (hnd : sel.Nodup)
    (heff : ∀ r ∈ sel, (e.resD r).eff = η) (hη : 0 < η)
    (hlt : w.done < (e.taskD t).effort) (hpos : 0 < (e.taskD t).effort)
    (hacc : TAcc e σ t sel η fwd w vis) (hok : (walkLoop e t fwd fuel σ w).2.2 = true) :
    ∃ vis', TExact e (walkLoop e t fwd fuel σ w).1 t sel η vis' := by
  induction fuel generalizing σ w vis with
  | zero => simp [walkLoop] at hok
  | succ f ih =>
    have hs := scheduleSlot_inv e σ t w wf hinv hlf hw
    have hsa := scheduleSlot_tacc e wf σ t sel η fwd w vis hinv hlf hw ha hm hsel hteam hnd heff hη hlt hpos hacc
    unfold walkLoop at hok ⊢
    simp only [] at hok ⊢
    by_cases hc : (scheduleSlot e σ t w).2.2 = true
    · simp only [hc, Bool.not_true, Bool.false_eq_true, if_false] at hok ⊢
      obtain ⟨hacc', hsel', hlt'⟩ := hsa.1 hc
      have hw1 := hs.2 hc
      by_cases hout : ((advance fwd w (scheduleSlot e σ t w).2.1).cur < 0 || (advance fwd w (scheduleSlot e σ t w).2.1).cur > e.upper) = true
      · simp only [hout, if_true] at hok
        exact Bool.noConfusion hok
      · simp only [hout, Bool.false_eq_true, if_false] at hok ⊢
        exact ih (scheduleSlot e σ t w).1 (advance fwd w (scheduleSlot e σ t w).2.1) (w.cur :: vis) hs.1
          (walkOk_advance e t wf _ _ _ hw1) (selectedOf_some e _ t _ sel hsel') hlt' hacc' hok
    · have hc' : (scheduleSlot e σ t w).2.2 = false := by simpa using hc
      simp only [hc', Bool.not_false, if_true] at hok ⊢
      exact ⟨_, hsa.2 hc'⟩

/-- a team task: its selection is always the list `sel` of more than one pairwise different members that share the
    efficiency `η` -/
structure TeamElig (e : Env) (t : Nat) (sel : List Nat) (η : Rat) : Prop where
  leaf : (e.taskD t).leaf = true
  alloc : (e.taskD t).hasAlloc = true
  nomile : (e.taskD t).milestone = false
  effort : 0 < (e.taskD t).effort
  pick : ∀ σ c, selectBest e σ (e.taskD t).alloc (e.taskD t).alt (e.taskD t).effort c = sel
  many : 1 < sel.length
  nodup : sel.Nodup
  eff : ∀ r ∈ sel, (e.resD r).eff = η
  effpos : 0 < η

theorem TeamElig.isTeam {e : Env} {t : Nat} {sel : List Nat} {η : Rat} (h : TeamElig e t sel η) : isTeam e t sel = true := by
  unfold SP.isTeam
  have h1 := h.effort
  have h2 := h.many
  simp [h1, h2]

/-- **one team task, end to end**: a successful `scheduleTask` leaves every member with entries in the same slots and nowhere
    else, whose seconds x efficiency / 3600 add up to exactly the effort -/
theorem scheduleTask_texact (e : Env) (wf : WF e) (σ : St) (t : Nat) (sel : List Nat) (η : Rat)
    (hinv : Inv e σ) (hel : TeamElig e t sel η) (hnd : (σ.tst t).done = false)
    (hclean : ∀ r ∈ sel, ∀ i, usageOf (σ.led.get r i).usage t = none)
    (hok : (scheduleTask e σ t).2 = true) :
    ∃ vis, TExact e (scheduleTask e σ t).1 t sel η vis := by
  unfold scheduleTask at hok ⊢
  simp only [hnd, Bool.false_eq_true, if_false] at hok ⊢
  have hoff := initCursor_off e σ t wf
  have h0 : Inv e (σ.setT t (preStartT e σ t (initCursor e σ t).1)) := inv_setT _ _ hinv
  by_cases hout : (preStartCursor e σ t (initCursor e σ t).1 < 0 || preStartCursor e σ t (initCursor e σ t).1 > e.upper) = true
  · simp only [hout, if_true] at hok
    exact Bool.noConfusion hok
  · simp only [hout, Bool.false_eq_true, if_false] at hok ⊢
    have hw : WalkOk e t { cur := preStartCursor e σ t (initCursor e σ t).1, offset := (initCursor e σ t).2 } :=
      ⟨hoff.1, hoff.2, wf.effort_nonneg t⟩
    have hacc : TAcc e (σ.setT t (preStartT e σ t (initCursor e σ t).1)) t sel η (σ.tst t).forward
        { cur := preStartCursor e σ t (initCursor e σ t).1, offset := (initCursor e σ t).2 } [] :=
      ⟨fun r hr i _ => hclean r hr i, fun i hi => absurd hi List.not_mem_nil,
       fun r _ => by show (0 : Rat) = sumOver _ r t [] / 3600 * η; simp only [sumOver]; grind, List.nodup_nil,
       fun r hr r' hr' i => by
         show usageOf (σ.led.get r i).usage t = usageOf (σ.led.get r' i).usage t
         rw [hclean r hr i, hclean r' hr' i]⟩
    have hs0 : selectedOf e (σ.setT t (preStartT e σ t (initCursor e σ t).1)) t
        { cur := preStartCursor e σ t (initCursor e σ t).1, offset := (initCursor e σ t).2 } = sel := by
      unfold selectedOf; exact hel.pick _ _
    by_cases hfin : (walkLoop e t (σ.tst t).forward (e.size.toNat + 3) (σ.setT t (preStartT e σ t (initCursor e σ t).1))
        { cur := preStartCursor e σ t (initCursor e σ t).1, offset := (initCursor e σ t).2 }).2.2 = true
    · simp only [hfin, Bool.not_true, Bool.false_eq_true, if_false] at hok ⊢
      obtain ⟨vis, hex⟩ := walkLoop_texact e wf t sel η (σ.tst t).forward _ _ _ [] h0 hel.leaf hw hel.alloc hel.nomile hs0
        hel.isTeam hel.nodup hel.eff hel.effpos hel.effort hel.effort hacc hfin
      exact ⟨vis, TExact.of_led (σ := (walkLoop e t (σ.tst t).forward (e.size.toNat + 3) (σ.setT t (preStartT e σ t (initCursor e σ t).1))
        { cur := preStartCursor e σ t (initCursor e σ t).1, offset := (initCursor e σ t).2 }).1) rfl hex⟩
    · have hfin' : (walkLoop e t (σ.tst t).forward (e.size.toNat + 3) (σ.setT t (preStartT e σ t (initCursor e σ t).1))
        { cur := preStartCursor e σ t (initCursor e σ t).1, offset := (initCursor e σ t).2 }).2.2 = false := by simpa using hfin
      simp only [hfin', Bool.not_false, if_true] at hok
      exact Bool.noConfusion hok

end SP

namespace SP

/-- what holds of every team task that is `done` -/
def DoneTExact (e : Env) (σ : St) : Prop :=
  ∀ t sel η, TeamElig e t sel η → (σ.tst t).done = true → ∃ vis, TExact e σ t sel η vis

structure TPickInv (e : Env) (σ : St) (tasks : List Nat) : Prop where
  inv : Inv e σ
  nodup : tasks.Nodup
  leaf : ∀ t ∈ tasks, (e.taskD t).leaf = true
  pending : ∀ t ∈ tasks, (σ.tst t).done = false ∧ ∀ r i, usageOf (σ.led.get r i).usage t = none
  exact : DoneTExact e σ

theorem DoneTExact.of_eq {e : Env} {σ σ' : St} (hl : σ'.led = σ.led) (ht : ∀ t, (σ'.tst t).done = (σ.tst t).done)
    (h : DoneTExact e σ) : DoneTExact e σ' := by
  intro t sel η hel hd
  rw [ht] at hd
  obtain ⟨vis, hv⟩ := h t sel η hel hd
  exact ⟨vis, TExact.of_led hl hv⟩

theorem tpickInv_step (e : Env) (wf : WF e) (σ : St) (tasks : List Nat) (t0 : Nat) (h : TPickInv e σ tasks)
    (hmem : t0 ∈ tasks) : TPickInv e (updateContainers e (scheduleTask e σ t0).1) (tasks.erase t0) := by
  have hlf0 := h.leaf t0 hmem
  have hinv1 := scheduleTask_inv e σ t0 wf h.inv hlf0
  refine ⟨updateContainers_inv e _ hinv1, h.nodup.erase t0, fun t ht => h.leaf t (List.mem_of_mem_erase ht), ?_, ?_⟩
  · intro t ht
    have htm : t ∈ tasks := List.mem_of_mem_erase ht
    have hne : t ≠ t0 := fun heq => by
      rw [heq] at ht; exact (List.Nodup.not_mem_erase h.nodup) ht
    obtain ⟨hd, hc⟩ := h.pending t htm
    refine ⟨?_, ?_⟩
    · rw [updateContainers_leaf e _ t (h.leaf t htm), scheduleTask_other e σ t0 t hne]; exact hd
    · intro r i
      rw [updateContainers_led, scheduleTask_same e σ t0 t (Ne.symm hne) r i]
      exact hc r i
  · intro t sel η hel hd
    rw [updateContainers_leaf e _ t hel.leaf] at hd
    by_cases heq : t = t0
    · subst heq
      obtain ⟨hnd, hclean⟩ := h.pending t hmem
      have hok := scheduleTask_done e σ t hnd hd
      obtain ⟨vis, hv⟩ := scheduleTask_texact e wf σ t sel η h.inv hel hnd (fun r _ i => hclean r i) hok
      exact ⟨vis, TExact.of_led (updateContainers_led e _) hv⟩
    · rw [scheduleTask_other e σ t0 t heq] at hd
      obtain ⟨vis, hv⟩ := h.exact t sel η hel hd
      exact ⟨vis, TExact.of_led (updateContainers_led e _) (TExact.of_same (scheduleTask_same e σ t0 t (Ne.symm heq)) hv)⟩

theorem pickLoop_doneTExact (e : Env) (wf : WF e) (fuel : Nat) (tasks failed : List Nat) (σ : St)
    (h : TPickInv e σ tasks) : DoneTExact e (pickLoop e fuel tasks failed σ).1 := by
  induction fuel generalizing tasks failed σ with
  | zero => exact h.exact
  | succ f ih =>
    unfold pickLoop
    split
    · exact h.exact
    · split
      · rename_i t0 hfind
        have hmem : t0 ∈ tasks := List.mem_of_find?_eq_some hfind
        exact ih _ _ _ (tpickInv_step e wf σ tasks t0 h hmem)
      · split
        · exact DoneTExact.of_eq (σ := σ) rfl (fun _ => rfl) h.exact
        · exact h.exact

theorem scheduleScenario_doneTExact (e : Env) (wf : WF e) (σ : St) (hinv : Inv e σ) (hd : DoneFalse σ)
    (hempty : ∀ r i, (σ.led.get r i).usage = []) : DoneTExact e (scheduleScenario e σ) := by
  unfold scheduleScenario
  simp only []
  have h2 : TPickInv e (preLoop e σ) (todoOf e (preLoop e σ)) := by
    refine ⟨preLoop_inv e σ hinv, todoOf_nodup e _, todoOf_leaf e _, ?_, ?_⟩
    · intro t _
      refine ⟨preLoop_doneFalse e σ hd t, fun r i => ?_⟩
      rw [preLoop_led, hempty r i]; rfl
    · intro t sel η _ hdone
      rw [preLoop_doneFalse e σ hd t] at hdone
      exact Bool.noConfusion hdone
  have h3 := pickLoop_doneTExact e wf ((todoOf e (preLoop e σ)).length + 1) (todoOf e (preLoop e σ)) [] (preLoop e σ) h2
  split
  · exact h3
  · exact DoneTExact.of_eq (σ := (pickLoop e ((todoOf e (preLoop e σ)).length + 1) (todoOf e (preLoop e σ)) [] (preLoop e σ)).1)
      rfl (fun _ => rfl) h3

/-- **C03 for teams, end to end.**  After scheduling any well-formed project, every completed effort task whose allocation
    always selects the same team `sel` (more than one member, pairwise different, one common efficiency `η`) has, in the final
    ledger, entries of every member in one common set of slots and nowhere else, the same number of seconds in each slot for
    all members, and these seconds weighted by `η` add up to exactly the requested effort. -/
theorem runScenario_team_effort_exact (e : Env) (wf : WF e) (t : Nat) (sel : List Nat) (η : Rat) (hel : TeamElig e t sel η)
    (hdone : ((runScenario e).tst t).done = true) : ∃ vis, TExact e (runScenario e) t sel η vis := by
  unfold runScenario at hdone ⊢
  rw [finishScenario_leafT e _ t hel.leaf] at hdone
  have hprep : Inv e (prepare e (initState e)) := prepare_inv e _ (inv_init e wf)
  have hd : DoneFalse (prepare e (initState e)) := prepare_doneFalse e _ (doneFalse_init e)
  have hempty : ∀ r i, ((prepare e (initState e)).led.get r i).usage = [] := by
    intro r i; rw [prepare_led]; simp [initState, Ledger.get_empty]
  obtain ⟨vis, hv⟩ := scheduleScenario_doneTExact e wf _ hprep hd hempty t sel η hel hdone
  exact ⟨vis, TExact.of_led (finishScenario_led e _) hv⟩

end SP
