import Proofs.SchedInv
/-! Team bookings: after levelling every member's slot is used up to the same instant. -/
namespace SP

theorem reserve_idem (s : Slot) (c : Rat) : (s.reserve c).reserve c = s.reserve c := by
  unfold Slot.reserve
  split
  · simp
  · simp

theorem reserve_used (s : Slot) (c : Rat) (h : s.used ≤ c) : (s.reserve c).used = c := by
  unfold Slot.reserve
  split
  · rfl
  · grind

theorem reserveAt_get (σ : St) (r : Nat) (i : Int) (c : Rat) (r' : Nat) (i' : Int) :
    (reserveAt σ r i c).led.get r' i' = if r = r' ∧ i = i' then (σ.led.get r i).reserve c else σ.led.get r' i' := by
  unfold reserveAt
  simp only [Ledger.get_set]

/-- folding `reserveAt · · cur c` over a member list reserves exactly the members' slots -/
theorem foldReserve_get (l : List Nat) (σ : St) (cur : Int) (c : Rat) (r : Nat) :
    ((l.foldl (fun acc m => reserveAt acc m cur c) σ).led.get r cur) =
      if r ∈ l then (σ.led.get r cur).reserve c else σ.led.get r cur := by
  induction l generalizing σ with
  | nil => simp
  | cons m ms ih =>
    simp only [List.foldl_cons]
    rw [ih]
    simp only [reserveAt_get]
    by_cases hm : m = r
    · subst hm
      simp only [and_self, if_true, List.mem_cons, true_or]
      split
      · exact reserve_idem _ _
      · rfl
    · have h2 : (r ∈ m :: ms) ↔ r ∈ ms := by
        simp only [List.mem_cons]
        constructor
        · rintro (h | h)
          · exact absurd h.symm hm
          · exact h
        · exact Or.inr
      simp only [hm, false_and, if_false, h2]

/-- slots other than `cur` are untouched by levelling -/
theorem foldReserve_other (l : List Nat) (σ : St) (cur : Int) (c : Rat) (r : Nat) (i : Int) (h : i ≠ cur) :
    ((l.foldl (fun acc m => reserveAt acc m cur c) σ).led.get r i) = σ.led.get r i := by
  induction l generalizing σ with
  | nil => rfl
  | cons m ms ih =>
    simp only [List.foldl_cons]
    rw [ih, reserveAt_get]
    have : ¬ (m = r ∧ cur = i) := by intro hh; exact h hh.2.symm
    simp [this]

theorem foldMax_ge_init (l : List Nat) (f : Nat → Rat) (m0 : Rat) : m0 ≤ l.foldl (fun m r => max m (f r)) m0 := by
  induction l generalizing m0 with
  | nil => exact Rat.le_refl
  | cons x xs ih =>
    simp only [List.foldl_cons]
    have := ih (max m0 (f x))
    grind

theorem foldMax_ge_mem (l : List Nat) (f : Nat → Rat) (m0 : Rat) (r : Nat) (h : r ∈ l) :
    f r ≤ l.foldl (fun m r => max m (f r)) m0 := by
  induction l generalizing m0 with
  | nil => cases h
  | cons x xs ih =>
    simp only [List.foldl_cons]
    rcases List.mem_cons.mp h with h | h
    · subst h
      have := foldMax_ge_init xs f (max m0 (f r))
      grind
    · exact ih _ h

/-- the busiest member's usage dominates every member's -/
theorem le_teamCommon (σ : St) (cur : Int) (sel : List Nat) (r : Nat) (h : r ∈ sel) :
    (σ.led.get r cur).used ≤ teamCommon σ cur sel :=
  foldMax_ge_mem sel (fun r => (σ.led.get r cur).used) 0 r h

/-- **after levelling every member's slot is used up to the same instant** -/
theorem levelTeam_used (σ : St) (cur : Int) (sel : List Nat) (r : Nat) (h : r ∈ sel) :
    ((levelTeam σ cur sel).led.get r cur).used = teamCommon σ cur sel := by
  unfold levelTeam
  rw [foldReserve_get]
  simp only [h, if_true]
  exact reserve_used _ _ (le_teamCommon σ cur sel r h)

/-- levelling adds no usage entry and removes none -/
theorem levelTeam_usage (σ : St) (cur : Int) (sel : List Nat) (r : Nat) (i : Int) :
    ((levelTeam σ cur sel).led.get r i).usage = (σ.led.get r i).usage := by
  unfold levelTeam
  by_cases hi : i = cur
  · subst hi
    rw [foldReserve_get]
    split
    · unfold Slot.reserve; split <;> rfl
    · rfl
  · rw [foldReserve_other _ _ _ _ _ _ hi]

end SP

namespace SP

/-- `countMember` is the counter part of a real booking -/
theorem countMember_eq (e : Env) (σ : St) (t : Nat) (i : Int) (r : Nat) :
    countMember e σ t i r = incAll e σ (bookPairs e r t) i := by
  simp only [countMember, incAll, bookPairs, List.foldl_append, List.foldl_map]

theorem countMember_led (e : Env) (σ : St) (t : Nat) (i : Int) (r : Nat) : (countMember e σ t i r).led = σ.led := by
  rw [countMember_eq, incAll_led]

theorem countMember_marks (e : Env) (σ : St) (t : Nat) (i : Int) (r : Nat) : (countMember e σ t i r).marks = σ.marks := by
  rw [countMember_eq, incAll_marks]

/-- a limit that applies (no resource filter, or the filter matches) is incremented by exactly one -/
theorem limitInc_cnt_same (e : Env) (σ : St) (lid : Nat) (i : Int) (r : Option Nat)
    (happ : ((e.limitD lid).res.isSome && (e.limitD lid).res != r) = false) (hk : 0 ≤ e.period (e.limitD lid) i) :
    (limitInc e σ lid i r).cnt.get lid (e.period (e.limitD lid) i) = σ.cnt.get lid (e.period (e.limitD lid) i) + 1 := by
  unfold limitInc
  simp only [happ, Bool.false_eq_true, if_false]
  have : ¬ e.period (e.limitD lid) i < 0 := by omega
  simp only [this, if_false, Counters.get_set, and_self, if_true]

theorem incAll_cnt_notin (e : Env) (σ : St) (ps : List (Nat × Option Nat)) (i : Int) (lid : Nat) (k : Int)
    (h : lid ∉ ps.map (·.1)) : (incAll e σ ps i).cnt.get lid k = σ.cnt.get lid k := by
  induction ps generalizing σ with
  | nil => rfl
  | cons p ps ih =>
    simp only [incAll, List.foldl_cons]
    have h1 : lid ≠ p.1 := by intro heq; apply h; simp [heq]
    have h2 : lid ∉ ps.map (·.1) := by intro hm; apply h; simp only [List.map_cons, List.mem_cons]; exact Or.inr hm
    have := ih (limitInc e σ p.1 i p.2) h2
    simp only [incAll] at this
    rw [this, limitInc_cnt_other e σ p.1 i p.2 lid k h1]

/-- a limit that occurs (once) among the pairs and applies is counted exactly once -/
theorem incAll_cnt_mem (e : Env) (σ : St) (ps : List (Nat × Option Nat)) (i : Int) (lid : Nat) (r : Option Nat)
    (hnd : (ps.map (·.1)).Nodup) (hm : (lid, r) ∈ ps)
    (happ : ((e.limitD lid).res.isSome && (e.limitD lid).res != r) = false) (hk : 0 ≤ e.period (e.limitD lid) i) :
    (incAll e σ ps i).cnt.get lid (e.period (e.limitD lid) i) = σ.cnt.get lid (e.period (e.limitD lid) i) + 1 := by
  induction ps generalizing σ with
  | nil => cases hm
  | cons p ps ih =>
    simp only [incAll, List.foldl_cons]
    have hnd' : (ps.map (·.1)).Nodup := (List.nodup_cons.mp (by simpa using hnd)).2
    have hnotin : p.1 ∉ ps.map (·.1) := (List.nodup_cons.mp (by simpa using hnd)).1
    rcases List.mem_cons.mp hm with hp | hp
    · subst hp
      have := incAll_cnt_notin e (limitInc e σ lid i r) ps i lid (e.period (e.limitD lid) i) hnotin
      simp only [incAll] at this
      rw [this]
      exact limitInc_cnt_same e σ lid i r happ hk
    · have hne : lid ≠ p.1 := by
        intro heq; apply hnotin; rw [← heq]; exact List.mem_map_of_mem (f := (·.1)) hp
      have := ih (limitInc e σ p.1 i p.2) hnd' hp
      simp only [incAll] at this
      rw [this, limitInc_cnt_other e σ p.1 i p.2 lid _ hne]

end SP
