import Proofs.TeamEffort
import Proofs.OneSet
/-!
C03, second clause, for whole scenarios and ANY team (members of different efficiencies included): all members of a team hold
entries of the task in the same slots, for the same seconds.
-/
namespace SP

/-- after a team all of whose members are booked: something was booked, and the last booked member is the last of the list -/
theorem bookAll_team_all_last (e : Env) (wf : WF e) (σ0 : St) (t : Nat) (w : Walk) (c : Rat)
    (hpos : 0 < availOf e.G (teamU c w)) :
    ∀ (l : List Nat) (acc : BookAcc) (σg : St), l.Nodup →
      TeamRel e σ0 σg acc.σ w.cur c t l → teamGateOk e t w.cur σg l = true → l ≠ [] →
      (l.foldl (bookOne e t w) acc).any = true ∧ (l.foldl (bookOne e t w) acc).last = l.getLast? := by
  intro l
  induction l with
  | nil => intro acc σg _ _ _ hne; exact absurd rfl hne
  | cons r rs ih =>
    intro acc σg hnd hrel hgate _
    simp only [teamGateOk, Bool.and_eq_true] at hgate
    obtain ⟨⟨hav, htl⟩, hrest⟩ := hgate
    have hr_mem : r ∈ r :: rs := List.mem_cons_self
    have hnd' := List.nodup_cons.mp hnd
    have hU := reserveStep_used acc.σ w r c (hrel.useda r hr_mem)
    have hav' : available e (reserveStep acc.σ w r) r w.cur = true := by
      apply available_transfer e σg (reserveStep acc.σ w r) r w.cur (teamU c w) hav
      · rw [reserveStep_cnt]; exact hrel.cnt
      · rw [reserveStep_marks, hrel.marksa r hr_mem, hrel.marksg]
      · exact hU
      · rw [hrel.ledg]; exact (hrel.used0 r hr_mem).1
      · rw [hrel.ledg]; exact Rat.le_trans (hrel.used0 r hr_mem).2 (teamU_ge c w)
      · exact hpos
    have htl' : taskLimitsOk e (reserveStep acc.σ w r) t w.cur r = true := by
      rw [taskLimitsOk_cnt e σg _ t w.cur r (by rw [reserveStep_cnt]; exact hrel.cnt)]; exact htl
    have hbook : bookResource e acc.σ t w r = bookSlot e (reserveStep acc.σ w r) r w.cur t := by
      rw [bookResource_books_iff]; simp [hav', htl']
    have hgain : (bookSlot e (reserveStep acc.σ w r) r w.cur t).2 = availOf e.G (teamU c w) / 3600 * (e.resD r).eff := by
      rw [bookSlot_gain, availSecs_eq, hU]
    have hgpos : 0 < availOf e.G (teamU c w) / 3600 * (e.resD r).eff := by
      have h36 : (0 : Rat) < 3600 := by decide +kernel
      exact Rat.mul_pos (by rw [Rat.div_def]; exact Rat.mul_pos hpos (Rat.inv_pos.mpr h36)) (wf.eff_pos r)
    have hone : bookOne e t w acc r =
        { σ := (bookSlot e (reserveStep acc.σ w r) r w.cur t).1,
          total := max acc.total (availOf e.G (teamU c w) / 3600 * (e.resD r).eff), last := some r, any := true } := by
      unfold bookOne
      simp only [hbook, hgain, hgpos, if_true]
    simp only [List.foldl_cons]
    cases hrs : rs with
    | nil =>
      simp only [List.foldl_nil, hone, List.getLast?_singleton]
      exact ⟨trivial, trivial⟩
    | cons r2 rs2 =>
      have hσ1 : (bookOne e t w acc r).σ = (bookSlot e (reserveStep acc.σ w r) r w.cur t).1 := by rw [hone]
      have hrel' : TeamRel e σ0 (countMember e σg t w.cur r) (bookOne e t w acc r).σ w.cur c t rs := by
        refine ⟨?_, ?_, ?_, ?_, ?_, ?_, ?_⟩
        · rw [hσ1, bookSlot_cnt, countMember_eq, countMember_eq]
          exact incAll_cnt_congr e σg _ _ w.cur (by rw [reserveStep_cnt]; exact hrel.cnt)
        · rw [countMember_led]; exact hrel.ledg
        · rw [countMember_marks]; exact hrel.marksg
        · intro r' hr'
          have hne : r ≠ r' := fun h => hnd'.1 (h ▸ hr')
          rw [hσ1, bookSlot_marks, Marks.get_set, reserveStep_marks]
          simp only [hne, false_and, if_false]
          exact hrel.marksa r' (List.mem_cons_of_mem _ hr')
        · intro r' hr'
          have hne : ¬ (r = r' ∧ w.cur = w.cur) := fun h => hnd'.1 (h.1 ▸ hr')
          rw [hσ1, bookSlot_frame _ _ _ _ _ _ _ hne, reserveStep_frame _ _ _ _ _ hne]
          exact hrel.useda r' (List.mem_cons_of_mem _ hr')
        · intro r' hr'
          have hne : ¬ (r = r' ∧ w.cur = w.cur) := fun h => hnd'.1 (h.1 ▸ hr')
          rw [hσ1, bookSlot_frame _ _ _ _ _ _ _ hne, reserveStep_frame _ _ _ _ _ hne]
          exact hrel.clean r' (List.mem_cons_of_mem _ hr')
        · intro r' hr'; exact hrel.used0 r' (List.mem_cons_of_mem _ hr')
      have := ih (bookOne e t w acc r) (countMember e σg t w.cur r) hnd'.2 hrel' hrest (by rw [hrs]; simp)
      rw [hrs] at this
      obtain ⟨h2, h3⟩ := this
      refine ⟨h2, ?_⟩
      rw [h3]; simp

/-- **`bookResources` of any team, one slot**: nobody is booked and the last booked member is as before, or every member is
    booked for the same `a` seconds and the last booked member is the last of the team -/
theorem bookResources_team_last (e : Env) (wf : WF e) (σ : St) (t : Nat) (w : Walk) (sel : List Nat)
    (hinv : Inv e σ) (ha : (e.taskD t).hasAlloc = true) (hsel : selectedOf e σ t w = sel)
    (hteam : isTeam e t sel = true) (hnd : sel.Nodup)
    (hclean : ∀ r ∈ sel, usageOf (σ.led.get r w.cur).usage t = none) :
    (bookResources e σ t w).2.selected = some sel ∧ (bookResources e σ t w).2.cur = w.cur ∧
    (((∀ r ∈ sel, usageOf ((bookResources e σ t w).1.led.get r w.cur).usage t = none)) ∨
     (∃ a, 0 < a ∧
        (∀ r ∈ sel, usageOf ((bookResources e σ t w).1.led.get r w.cur).usage t = some a) ∧
        (bookResources e σ t w).2.last = sel.getLast?)) := by
  have hne : sel.isEmpty = false := by
    unfold isTeam at hteam
    simp only [Bool.and_eq_true, decide_eq_true_eq] at hteam
    cases hs : sel with
    | nil => rw [hs] at hteam; simp at hteam
    | cons x xs => rfl
  have hne' : sel ≠ [] := by intro h; rw [h] at hne; simp at hne
  unfold bookResources
  simp only [ha, Bool.not_true, Bool.false_eq_true, if_false, hsel, hne]
  by_cases hg : teamGateOk e t w.cur σ sel = true
  · have hgf : teamGateFails e σ t { w with selected := some sel } sel = false := by
      unfold teamGateFails; simp [hteam, hg]
    simp only [hgf, Bool.false_eq_true, if_false]
    have hlev : leveled e σ t w.cur sel = levelTeam σ w.cur sel := by unfold leveled; simp [hteam]
    simp only [hlev]
    have hused : ∀ r ∈ sel, ((levelTeam σ w.cur sel).led.get r w.cur).used = teamCommon σ w.cur sel :=
      fun r hr => levelTeam_used σ w.cur sel r hr
    have hcl : ∀ r ∈ sel, usageOf ((levelTeam σ w.cur sel).led.get r w.cur).usage t = none := by
      intro r hr; rw [levelTeam_usage]; exact hclean r hr
    by_cases hpos : 0 < availOf e.G (teamU (teamCommon σ w.cur sel) w)
    · have hrel : TeamRel e σ σ (levelTeam σ w.cur sel) w.cur (teamCommon σ w.cur sel) t sel := by
        refine ⟨levelTeam_cnt σ w.cur sel, rfl, rfl, fun r _ => by rw [levelTeam_marks], hused, hcl, fun r hr => ?_⟩
        exact ⟨(hinv.slot r w.cur).used_nonneg, le_teamCommon σ w.cur sel r hr⟩
      have hent := (bookAll_team_all e σ t { w with selected := some sel } _ hpos sel
        { σ := levelTeam σ w.cur sel, last := w.last } σ hnd hrel hg).1
      obtain ⟨hany, hlast⟩ := bookAll_team_all_last e wf σ t { w with selected := some sel } _ hpos sel
        { σ := levelTeam σ w.cur sel, last := w.last } σ hnd hrel hg hne'
      unfold bookAll
      simp only [hany, if_true, markStart_led]
      exact ⟨trivial, trivial, Or.inr ⟨_, hpos, hent, hlast⟩⟩
    · have hent := (bookAll_team_none e t { w with selected := some sel } _ hpos sel
        { σ := levelTeam σ w.cur sel, last := w.last } hnd (fun r hr => ⟨hused r hr, hcl r hr⟩)).1
      obtain ⟨_, hany, hlast⟩ := bookAll_team_none_acc e t { w with selected := some sel } _ hpos sel
        { σ := levelTeam σ w.cur sel, last := w.last } hnd (fun r hr => ⟨hused r hr, hcl r hr⟩)
      unfold bookAll
      simp only [hany, Bool.false_eq_true, if_false]
      exact ⟨trivial, trivial, Or.inl hent⟩
  · have hgf : teamGateFails e σ t { w with selected := some sel } sel = true := by
      unfold teamGateFails
      have : teamGateOk e t w.cur σ sel = false := by simpa using hg
      simp [hteam, this]
    simp only [hgf, if_true]
    exact ⟨trivial, trivial, Or.inl hclean⟩

theorem needSecs_le_booked (e : Env) (σ : St) (t : Nat) (w : Walk) (before : Rat) (r : Nat) (a : Rat)
    (h : usageOf (σ.led.get r w.cur).usage t = some a) : needSecs e σ t w before r ≤ a := by
  unfold needSecs
  simp only [h, Option.getD_some]
  grind

/-- the tail release creates no entry -/
theorem finishTask_keeps_none (e : Env) (σ : St) (t : Nat) (w : Walk) (before : Rat) (fwd : Bool) (m : Nat) (i : Int)
    (h : usageOf (σ.led.get m i).usage t = none) :
    usageOf ((finishTask e σ t w before fwd).1.led.get m i).usage t = none := by
  have key : ∀ (σ1 : St) (r0 : Nat) (a : Rat), usageOf (σ1.led.get m i).usage t = none →
      usageOf ((σ1.led.set r0 w.cur ((σ1.led.get r0 w.cur).release t a)).get m i).usage t = none := by
    intro σ1 r0 a h1
    simp only [Ledger.get_set]
    split
    · rename_i heq
      cases hu : usageOf ((σ1.led.get r0 w.cur).release t a).usage t with
      | none => rfl
      | some b =>
        exfalso
        have := release_entry _ t t a (by rw [hu]; simp)
        rw [heq.1, heq.2] at this
        exact this h1
    · exact h1
  unfold finishTask
  split
  · exact h
  · rename_i r0 _
    simp only []
    unfold releaseOthers
    apply foldl_inv (fun (acc : St) => usageOf (acc.led.get m i).usage t = none) _ _ _ (key σ r0 _ h)
    intro acc x hacc
    split
    · exact hacc
    · split
      · exact hacc
      · exact key acc x _ hacc

/-- the members hold the same entry of the task in every slot -/
def SameAll (t : Nat) (sel : List Nat) (σ : St) : Prop :=
  ∀ r ∈ sel, ∀ r' ∈ sel, ∀ i, usageOf (σ.led.get r i).usage t = usageOf (σ.led.get r' i).usage t

/-- walk invariant of a team task -/
structure TS (σ : St) (t : Nat) (sel : List Nat) (fwd : Bool) (w : Walk) (vis : List Int) : Prop where
  only : ∀ r ∈ sel, ∀ i, i ∉ vis → usageOf (σ.led.get r i).usage t = none
  before : ∀ i ∈ vis, (if fwd then i < w.cur else w.cur < i)
  same : SameAll t sel σ

theorem scheduleSlot_ts (e : Env) (wf : WF e) (σ : St) (t : Nat) (sel : List Nat) (fwd : Bool) (w : Walk)
    (vis : List Int) (hinv : Inv e σ) (ha : (e.taskD t).hasAlloc = true) (hm : (e.taskD t).milestone = false)
    (hsel : selectedOf e σ t w = sel) (hteam : isTeam e t sel = true) (hnd : sel.Nodup)
    (hpos : 0 < (e.taskD t).effort) (hacc : TS σ t sel fwd w vis) :
    ((scheduleSlot e σ t w).2.2 = true →
        TS (scheduleSlot e σ t w).1 t sel fwd (advance fwd w (scheduleSlot e σ t w).2.1) (w.cur :: vis) ∧
        (scheduleSlot e σ t w).2.1.selected = some sel) ∧
    SameAll t sel (scheduleSlot e σ t w).1 := by
  have hcur_notin : w.cur ∉ vis := by
    intro hin
    have := hacc.before _ hin
    split at this <;> omega
  have hclean : ∀ r ∈ sel, usageOf (σ.led.get r w.cur).usage t = none := fun r hr => hacc.only r hr _ hcur_notin
  obtain ⟨hselw, hcurw, hcase⟩ := bookResources_team_last e wf σ t w sel hinv ha hsel hteam hnd hclean
  have hother := bookResources_other e σ t w
  have hz : ((e.taskD t).effort == 0) = false := by
    simp only [beq_eq_false_iff_ne, ne_eq]; grind
  have hne' : sel ≠ [] := by
    intro h; rw [h] at hteam; simp [isTeam] at hteam
  -- the members agree after the bookings of this slot
  have hsameB : SameAll t sel (bookResources e σ t w).1 := by
    intro r hr r' hr' i
    by_cases hi : i = w.cur
    · subst hi
      rcases hcase with hnone | ⟨a, _, hent, _⟩
      · rw [hnone r hr, hnone r' hr']
      · rw [hent r hr, hent r' hr']
    · rw [hother r i hi, hother r' i hi]
      exact hacc.same r hr r' hr' i
  unfold scheduleSlot
  simp only [hm, hz, Bool.or_self, Bool.false_eq_true, if_false]
  by_cases hfin : (bookResources e σ t w).2.done ≥ (e.taskD t).effort
  · simp only [hfin, if_true]
    refine ⟨fun hc => Bool.noConfusion hc, ?_⟩
    have hfo := finishTask_other e (bookResources e σ t w).1 t (bookResources e σ t w).2 w.done (σ.tst t).forward
    rcases hcase with hnone | ⟨a, ha0, hent, hlast⟩
    · -- nothing booked in this slot: the release finds nothing of the task here
      intro r hr r' hr' i
      show usageOf ((finishTask e (bookResources e σ t w).1 t (bookResources e σ t w).2 w.done (σ.tst t).forward).1.led.get r i).usage t
        = usageOf ((finishTask e (bookResources e σ t w).1 t (bookResources e σ t w).2 w.done (σ.tst t).forward).1.led.get r' i).usage t
      by_cases hi : i = w.cur
      · subst hi
        have hnoneF : ∀ m ∈ sel, usageOf ((finishTask e (bookResources e σ t w).1 t (bookResources e σ t w).2 w.done
            (σ.tst t).forward).1.led.get m w.cur).usage t = none :=
          fun m hm' => finishTask_keeps_none e _ t _ _ _ m w.cur (hnone m hm')
        rw [hnoneF r hr, hnoneF r' hr']
      · rw [hfo r i (by rw [hcurw]; exact hi), hfo r' i (by rw [hcurw]; exact hi)]
        exact hsameB r hr r' hr' i
    · obtain ⟨rl, hrl, hrlmem⟩ := getLast?_mem_of_ne_nil sel hne'
      have hlast' : (bookResources e σ t w).2.last = some rl := by rw [hlast, hrl]
      have hle := needSecs_le_booked e (bookResources e σ t w).1 t (bookResources e σ t w).2 w.done rl a
        (by rw [hcurw]; exact hent rl hrlmem)
      have hft := finishTask_team e (bookResources e σ t w).1 t (bookResources e σ t w).2 w.done (σ.tst t).forward sel rl a
        hlast' hselw hrlmem hnd (by rw [hcurw]; exact hent) hle
      rw [hcurw] at hft
      intro r hr r' hr' i
      show usageOf ((finishTask e (bookResources e σ t w).1 t (bookResources e σ t w).2 w.done (σ.tst t).forward).1.led.get r i).usage t
        = usageOf ((finishTask e (bookResources e σ t w).1 t (bookResources e σ t w).2 w.done (σ.tst t).forward).1.led.get r' i).usage t
      by_cases hi : i = w.cur
      · subst hi; rw [hft r hr, hft r' hr']
      · rw [hfo r i (by rw [hcurw]; exact hi), hfo r' i (by rw [hcurw]; exact hi)]
        exact hsameB r hr r' hr' i
  · simp only [hfin, if_false]
    refine ⟨fun _ => ⟨⟨?_, ?_, hsameB⟩, hselw⟩, hsameB⟩
    · intro r hr i hi
      have hne : i ≠ w.cur := by intro h; exact hi (h ▸ List.mem_cons_self)
      have hnv : i ∉ vis := fun h => hi (List.mem_cons_of_mem _ h)
      rw [hother r i hne]
      exact hacc.only r hr i hnv
    · intro i hi
      have hadv : (advance fwd w (bookResources e σ t w).2).cur = w.cur + (if fwd then 1 else -1) := by
        rw [advance_cur, hcurw]
      rw [hadv]
      rcases List.mem_cons.mp hi with h | h
      · subst h; cases fwd <;> simp <;> omega
      · have := hacc.before i h
        cases fwd <;> simp at this ⊢ <;> omega

theorem walkLoop_sameAll (e : Env) (wf : WF e) (t : Nat) (sel : List Nat) (fwd : Bool) (fuel : Nat) (σ : St) (w : Walk)
    (vis : List Int) (hinv : Inv e σ) (hlf : (e.taskD t).leaf = true) (hw : WalkOk e t w)
    (ha : (e.taskD t).hasAlloc = true) (hm : (e.taskD t).milestone = false)
    (hsel : selectedOf e σ t w = sel) (hteam : isTeam e t sel = true) (hnd : sel.Nodup)
    (hpos : 0 < (e.taskD t).effort) (hacc : TS σ t sel fwd w vis) :
    SameAll t sel (walkLoop e t fwd fuel σ w).1 := by
  induction fuel generalizing σ w vis with
  | zero => exact hacc.same
  | succ f ih =>
    have hs := scheduleSlot_inv e σ t w wf hinv hlf hw
    have hsa := scheduleSlot_ts e wf σ t sel fwd w vis hinv ha hm hsel hteam hnd hpos hacc
    unfold walkLoop
    simp only []
    split
    · exact hsa.2
    · rename_i hc
      have hcont : (scheduleSlot e σ t w).2.2 = true := by simpa using hc
      obtain ⟨hacc', hsel'⟩ := hsa.1 hcont
      split
      · exact hsa.2
      · exact ih _ _ (w.cur :: vis) hs.1 (walkOk_advance e t wf _ _ _ (hs.2 hcont))
          (selectedOf_some e _ t _ sel hsel') hacc'

/-- a team task: a leaf effort task whose selection is always the list `sel` of more than one pairwise different members -/
structure TeamAny (e : Env) (t : Nat) (sel : List Nat) : Prop where
  leaf : (e.taskD t).leaf = true
  alloc : (e.taskD t).hasAlloc = true
  nomile : (e.taskD t).milestone = false
  effort : 0 < (e.taskD t).effort
  pick : ∀ σ c, selectBest e σ (e.taskD t).alloc (e.taskD t).alt (e.taskD t).effort c = sel
  many : 1 < sel.length
  nodup : sel.Nodup

theorem TeamAny.isTeam {e : Env} {t : Nat} {sel : List Nat} (h : TeamAny e t sel) : isTeam e t sel = true := by
  unfold SP.isTeam
  have h1 := h.effort
  have h2 := h.many
  simp [h1, h2]

/-- **one team task**: started without entries, all members end up with the same entries -/
theorem scheduleTask_sameAll (e : Env) (wf : WF e) (σ : St) (t : Nat) (sel : List Nat)
    (hinv : Inv e σ) (hel : TeamAny e t sel)
    (hclean : ∀ r ∈ sel, ∀ i, usageOf (σ.led.get r i).usage t = none) : SameAll t sel (scheduleTask e σ t).1 := by
  have h0 : SameAll t sel σ := fun r hr r' hr' i => by rw [hclean r hr i, hclean r' hr' i]
  unfold scheduleTask
  simp only []
  split
  · exact h0
  · have hoff := initCursor_off e σ t wf
    have hi0 : Inv e (σ.setT t (preStartT e σ t (initCursor e σ t).1)) := inv_setT _ _ hinv
    split
    · exact h0
    · have hw : WalkOk e t { cur := preStartCursor e σ t (initCursor e σ t).1, offset := (initCursor e σ t).2 } :=
        ⟨hoff.1, hoff.2, wf.effort_nonneg t⟩
      have hacc : TS (σ.setT t (preStartT e σ t (initCursor e σ t).1)) t sel (σ.tst t).forward
          { cur := preStartCursor e σ t (initCursor e σ t).1, offset := (initCursor e σ t).2 } [] :=
        ⟨fun r hr i _ => hclean r hr i, fun i hi => absurd hi List.not_mem_nil, h0⟩
      have hs0 : selectedOf e (σ.setT t (preStartT e σ t (initCursor e σ t).1)) t
          { cur := preStartCursor e σ t (initCursor e σ t).1, offset := (initCursor e σ t).2 } = sel := by
        unfold selectedOf; exact hel.pick _ _
      have := walkLoop_sameAll e wf t sel (σ.tst t).forward (e.size.toNat + 3) _ _ [] hi0 hel.leaf hw hel.alloc hel.nomile hs0
        hel.isTeam hel.nodup hel.effort hacc
      split
      · exact this
      · exact this

def TeamsSame (e : Env) (σ : St) : Prop := ∀ t sel, TeamAny e t sel → SameAll t sel σ

structure TSInv (e : Env) (σ : St) (tasks : List Nat) : Prop where
  inv : Inv e σ
  nodup : tasks.Nodup
  leaf : ∀ t ∈ tasks, (e.taskD t).leaf = true
  pending : ∀ t ∈ tasks, ∀ r i, usageOf (σ.led.get r i).usage t = none
  ok : TeamsSame e σ

theorem tsInv_step (e : Env) (wf : WF e) (σ : St) (tasks : List Nat) (t0 : Nat) (h : TSInv e σ tasks) (hmem : t0 ∈ tasks) :
    TSInv e (updateContainers e (scheduleTask e σ t0).1) (tasks.erase t0) := by
  have hlf0 := h.leaf t0 hmem
  refine ⟨updateContainers_inv e _ (scheduleTask_inv e σ t0 wf h.inv hlf0), h.nodup.erase t0,
    fun t ht => h.leaf t (List.mem_of_mem_erase ht), ?_, ?_⟩
  · intro t ht r i
    have htm : t ∈ tasks := List.mem_of_mem_erase ht
    have hne : t ≠ t0 := fun heq => by
      rw [heq] at ht; exact (List.Nodup.not_mem_erase h.nodup) ht
    rw [updateContainers_led, scheduleTask_same e σ t0 t (Ne.symm hne) r i]
    exact h.pending t htm r i
  · intro t sel hel r hr r' hr' i
    rw [updateContainers_led]
    by_cases heq : t = t0
    · subst heq
      exact scheduleTask_sameAll e wf σ t sel h.inv hel (fun r _ i => h.pending t hmem r i) r hr r' hr' i
    · rw [scheduleTask_same e σ t0 t (Ne.symm heq) r i, scheduleTask_same e σ t0 t (Ne.symm heq) r' i]
      exact h.ok t sel hel r hr r' hr' i

theorem TeamsSame.of_led {e : Env} {σ σ' : St} (hl : σ'.led = σ.led) (h : TeamsSame e σ) : TeamsSame e σ' := by
  unfold TeamsSame SameAll at *; rw [hl]; exact h

theorem pickLoop_teamsSame (e : Env) (wf : WF e) (fuel : Nat) (tasks failed : List Nat) (σ : St) (h : TSInv e σ tasks) :
    TeamsSame e (pickLoop e fuel tasks failed σ).1 := by
  induction fuel generalizing tasks failed σ with
  | zero => exact h.ok
  | succ f ih =>
    unfold pickLoop
    split
    · exact h.ok
    · split
      · rename_i t0 hfind
        exact ih _ _ _ (tsInv_step e wf σ tasks t0 h (List.mem_of_find?_eq_some hfind))
      · split
        · exact TeamsSame.of_led (σ := σ) rfl h.ok
        · exact h.ok

/-- **C03, second clause, end to end, any team.**  After scheduling any well-formed project, all members of a team allocation
    (more than one pairwise different resources, whatever their efficiencies, calendars, limits and other bookings) hold entries
    of the task in exactly the same slots, for exactly the same seconds. -/
theorem runScenario_teamsSame (e : Env) (wf : WF e) : TeamsSame e (runScenario e) := by
  unfold runScenario
  apply TeamsSame.of_led (finishScenario_led e _)
  unfold scheduleScenario
  simp only []
  have hempty : ∀ r i, ((preLoop e (prepare e (initState e))).led.get r i).usage = [] := by
    intro r i; rw [preLoop_led, prepare_led]; simp [initState, Ledger.get_empty]
  have h2 : TSInv e (preLoop e (prepare e (initState e))) (todoOf e (preLoop e (prepare e (initState e)))) := by
    refine ⟨preLoop_inv e _ (prepare_inv e _ (inv_init e wf)), todoOf_nodup e _, todoOf_leaf e _,
      fun t _ r i => by rw [hempty r i]; rfl, fun t sel _ r _ r' _ i => by rw [hempty r i, hempty r' i]⟩
  have h3 := pickLoop_teamsSame e wf ((todoOf e (preLoop e (prepare e (initState e)))).length + 1)
    (todoOf e (preLoop e (prepare e (initState e)))) [] _ h2
  split
  · exact h3
  · exact TeamsSame.of_led (σ := (pickLoop e _ _ [] _).1) rfl h3

end SP
