import Model.Elab
/-! Invariance of the calendar view and of the elaborated environment under shifting every date of a
    UTC project by a whole number of weeks (C14). -/
namespace SP

def shiftIv (d : Int) (ivs : Intervals) : Intervals := ivs.map (fun iv => (iv.1 + d, iv.2 + d))

theorem inAny_shift (d : Int) (ivs : Intervals) (t : Int) : inAny (shiftIv d ivs) (t + d) = inAny ivs t := by
  unfold inAny shiftIv
  rw [List.any_map]
  congr 1
  funext iv
  simp only [Function.comp]
  congr 1 <;> (apply decide_eq_decide.mpr; omega)

theorem weekday_shift (t k : Int) : weekday (t + 604800 * k) = weekday t := by
  unfold weekday weekdayOfDay dayOf; omega

theorem hourOf_shift (t k : Int) : hourOf (t + 604800 * k) = hourOf t := by
  unfold hourOf secOfDay; omega

theorem minuteOfDay_shift (t k : Int) : minuteOfDay (t + 604800 * k) = minuteOfDay t := by
  unfold minuteOfDay secOfDay; omega

def shiftCal (d : Int) (c : CalEnv) : CalEnv :=
  { c with start := c.start + d, gvac := shiftIv d c.gvac, gleaves := shiftIv d c.gleaves }

def shiftRc (d : Int) (rc : ResCal) : ResCal := { rc with leaves := shiftIv d rc.leaves }

theorem shiftCal_time (d : Int) (c : CalEnv) (i : Int) : (shiftCal d c).time i = c.time i + d := by
  unfold CalEnv.time shiftCal; simp only []; omega

theorem defaultWorking_shift (k : Int) (c : CalEnv) (t : Int) :
    defaultWorking (shiftCal (604800 * k) c) (t + 604800 * k) = defaultWorking c t := by
  unfold defaultWorking
  simp only [shiftCal, inAny_shift, weekday_shift, hourOf_shift]

theorem projWorkAt_shift (k : Int) (c : CalEnv) (i : Int) :
    projWorkAt (shiftCal (604800 * k) c) i = projWorkAt c i := by
  unfold projWorkAt
  have hs : (shiftCal (604800 * k) c).size = c.size := rfl
  simp only [hs, shiftCal_time, defaultWorking_shift]

theorem onShiftAt_shift (k : Int) (c : CalEnv) (rc : ResCal) (hz : rc.zone = none) (i : Int) :
    onShiftAt (shiftCal (604800 * k) c) (shiftRc (604800 * k) rc) i = onShiftAt c rc i := by
  unfold onShiftAt
  simp only [shiftCal_time]
  have h1 : inAny (shiftCal (604800 * k) c).gvac (c.time i + 604800 * k) = inAny c.gvac (c.time i) := inAny_shift _ _ _
  have h2 : inAny (shiftCal (604800 * k) c).gleaves (c.time i + 604800 * k) = inAny c.gleaves (c.time i) := inAny_shift _ _ _
  have h3 : inAny (shiftRc (604800 * k) rc).leaves (c.time i + 604800 * k) = inAny rc.leaves (c.time i) := inAny_shift _ _ _
  have h4 : (shiftRc (604800 * k) rc).hours = rc.hours := rfl
  have h5 : (shiftRc (604800 * k) rc).zone = none := hz
  rw [h1, h2, h3, h4, h5, hz, projWorkAt_shift]
  simp only [weekday_shift, minuteOfDay_shift]

theorem dayIdxAt_shift (k : Int) (c : CalEnv) (i : Int) : dayIdxAt (shiftCal (604800 * k) c) i = dayIdxAt c i := by
  unfold dayIdxAt
  rw [shiftCal_time]
  simp only [shiftCal, dayOf]
  omega

theorem weekIdxAt_shift (k : Int) (c : CalEnv) (i : Int) : weekIdxAt (shiftCal (604800 * k) c) i = weekIdxAt c i := by
  unfold weekIdxAt
  rw [shiftCal_time]
  simp only [shiftCal, dayOf, mondayOf, weekdayOfDay]
  omega

theorem leaveMarkedAt_shift (d : Int) (c : CalEnv) (rc : ResCal) (n : Int) :
    leaveMarkedAt (shiftCal d c) (shiftRc d rc) n = leaveMarkedAt c rc n := by
  unfold leaveMarkedAt
  have : (shiftCal d c).gleaves ++ (shiftRc d rc).leaves = shiftIv d (c.gleaves ++ rc.leaves) := by
    simp [shiftCal, shiftRc, shiftIv, List.map_append]
  rw [this]
  unfold shiftIv
  rw [List.any_map]
  congr 1
  funext iv
  have e1 : iv.1 + d - (c.start + d) = iv.1 - c.start := by omega
  have e2 : iv.2 + d - (c.start + d) = iv.2 - c.start := by omega
  simp only [Function.comp, shiftCal, e1, e2]

/-! ### inheritance commutes with mapping the attribute -/

theorem inheritOpt_map {α β : Type} (f : α → β) (parents : List (Option Nat)) (own : List (Option α)) :
    inheritOpt parents (own.map (Option.map f)) = (inheritOpt parents own).map (Option.map f) := by
  unfold inheritOpt
  have key : ∀ (l : List (Option Nat × Option α)) (acc : Array (Option α)),
      (l.map (fun po => (po.1, po.2.map f))).foldl (fun (acc : Array (Option β)) po =>
        acc.push (match po.2 with
          | some v => some v
          | none => po.1.bind (fun i => (acc[i]?).join))) (acc.map (Option.map f)) =
      (l.foldl (fun (acc : Array (Option α)) po =>
        acc.push (match po.2 with
          | some v => some v
          | none => po.1.bind (fun i => (acc[i]?).join))) acc).map (Option.map f) := by
    intro l
    induction l with
    | nil => intro acc; rfl
    | cons x xs ih =>
      intro acc
      simp only [List.map_cons, List.foldl_cons]
      rw [← ih]
      congr 1
      rw [Array.map_push]
      congr 1
      cases hx : x.2 with
      | some v => simp
      | none =>
        simp only [Option.map_none]
        cases hp : x.1 with
        | none => simp
        | some i =>
          simp only [Option.bind_some, Array.getElem?_map]
          cases acc[i]? with
          | none => simp
          | some o => cases o <;> simp
  have hz : (parents.zip (own.map (Option.map f))) = (parents.zip own).map (fun po => (po.1, po.2.map f)) := by
    rw [List.zip_map_right]; rfl
  rw [hz]
  have := key (parents.zip own) #[]
  simp only [Array.map_empty] at this
  exact this

end SP

namespace SP

/-! ### the elaborated environment of a shifted UTC project -/

def shiftProj (d : Int) (p : RawProj) : RawProj :=
  { p with start := p.start + d, stop := p.stop + d, gvac := shiftIv d p.gvac, gleaves := shiftIv d p.gleaves,
           res := p.res.map (fun r => { r with leaves := r.leaves.map (shiftIv d) }),
           tasks := p.tasks.map (fun t => { t with start := t.start.map (· + d), stop := t.stop.map (· + d) }) }

/-- no resource declares a time zone (naive UTC everywhere) -/
def UTCProject (p : RawProj) : Prop := ∀ r ∈ p.res, r.zone = none

theorem relTasks_shift (d : Int) (p : RawProj) : relTasks (shiftProj d p) = relTasks p := by
  unfold relTasks shiftProj
  simp only [List.map_map]
  apply List.map_congr_left
  intro t _
  simp only [Function.comp]
  have h1 : (t.start.map (· + d)).map (· - (p.start + d)) = t.start.map (· - p.start) := by
    cases t.start <;> simp; omega
  have h2 : (t.stop.map (· + d)).map (· - (p.start + d)) = t.stop.map (· - p.start) := by
    cases t.stop <;> simp; omega
  rw [h1, h2]

theorem stopRelOf_shift (d : Int) (p : RawProj) : stopRelOf (shiftProj d p) = stopRelOf p := by
  unfold stopRelOf
  rw [relTasks_shift]
  have : (shiftProj d p).stop - (shiftProj d p).start = p.stop - p.start := by simp [shiftProj]; omega
  simp only [this]

theorem resDs_shift (d : Int) (p : RawProj) : resDs (shiftProj d p).res = resDs p.res := by
  unfold resDs shiftProj
  simp only [List.map_map]
  rfl

theorem inheritOpt_all_none {α : Type} (parents : List (Option Nat)) (own : List (Option α))
    (h : ∀ o ∈ own, o = none) : ∀ i, (inheritOpt parents own).getD i none = none := by
  unfold inheritOpt
  have key : ∀ (l : List (Option Nat × Option α)) (acc : Array (Option α)),
      (∀ po ∈ l, po.2 = none) → (∀ i, acc.getD i none = none) →
      ∀ i, (l.foldl (fun (acc : Array (Option α)) po =>
        acc.push (match po.2 with
          | some v => some v
          | none => po.1.bind (fun i => (acc[i]?).join))) acc).getD i none = none := by
    intro l
    induction l with
    | nil => intro acc _ hacc; exact hacc
    | cons x xs ih =>
      intro acc hl hacc
      simp only [List.foldl_cons]
      apply ih
      · intro po hpo; exact hl po (List.mem_cons_of_mem _ hpo)
      · intro i
        have hx : x.2 = none := hl x List.mem_cons_self
        simp only [hx]
        have hval : (x.1.bind (fun i => (acc[i]?).join)) = none := by
          cases x.1 with
          | none => rfl
          | some j =>
            simp only [Option.bind_some]
            have := hacc j
            simp only [Array.getD_eq_getD_getElem?] at this
            cases hj : acc[j]? with
            | none => rfl
            | some o => rw [hj] at this; simpa using this
        rw [hval]
        simp only [Array.getD_eq_getD_getElem?, Array.getElem?_push]
        split
        · rfl
        · have := hacc i
          simpa [Array.getD_eq_getD_getElem?] using this
  apply key
  · intro po hpo
    exact h po.2 (List.of_mem_zip hpo).2
  · intro i; simp

theorem resCals_shift (d : Int) (p : RawProj) :
    resCals (shiftProj d p).res = (resCals p.res).map (shiftRc d) := by
  unfold resCals resCalsCore shiftProj
  simp only [List.map_map, List.length_map]
  have hl : (List.map ((fun x => x.leaves) ∘ fun r => { r with leaves := Option.map (shiftIv d) r.leaves }) p.res) =
      (p.res.map (·.leaves)).map (Option.map (shiftIv d)) := by
    simp [List.map_map, Function.comp_def]
  have hz : (List.map ((fun x => x.zone) ∘ fun r : RawRes => { r with leaves := Option.map (shiftIv d) r.leaves }) p.res) = p.res.map (·.zone) := rfl
  have hh : (List.map ((fun x => x.hours) ∘ fun r : RawRes => { r with leaves := Option.map (shiftIv d) r.leaves }) p.res) = p.res.map (·.hours) := rfl
  have hs : (List.map ((fun x => x.shift) ∘ fun r : RawRes => { r with leaves := Option.map (shiftIv d) r.leaves }) p.res) = p.res.map (·.shift) := rfl
  have hp : (List.map ((fun x => x.parent) ∘ fun r : RawRes => { r with leaves := Option.map (shiftIv d) r.leaves }) p.res) = p.res.map (·.parent) := rfl
  rw [hl, hz, hh, hs, hp, inheritOpt_map]
  rw [Array.map_map]
  congr 1
  funext i
  simp only [Function.comp, shiftRc]
  congr 1
  simp only [Array.getD_eq_getD_getElem?, Array.getElem?_map]
  cases (inheritOpt (List.map (fun x => x.parent) p.res) (List.map (fun x => x.leaves) p.res))[i]? with
  | none => simp [shiftIv]
  | some o => cases o <;> simp [shiftIv]

theorem resCals_zone_none (p : RawProj) (h : UTCProject p) (r : Nat) : ((resCals p.res).getD r {}).zone = none := by
  unfold resCals resCalsCore
  simp only []
  have hz := inheritOpt_all_none (p.res.map (·.parent)) (p.res.map (·.zone)) (by
    intro o ho
    obtain ⟨x, hx, rfl⟩ := List.mem_map.mp ho
    exact h x hx)
  simp only [Array.getD_eq_getD_getElem?, Array.getElem?_map, List.getElem?_toArray]
  cases hr : (List.range p.res.length)[r]? with
  | none => simp [ResCal.zone]
  | some i =>
    simp only [Option.map_some, Option.getD_some]
    have := hz i
    simpa [Array.getD_eq_getD_getElem?] using this

/-- **C14 at the level of the model**: shifting every date of a UTC project by `k` whole weeks leaves
    the elaborated scheduler environment unchanged (it works in times relative to the project start),
    hence the scheduler's result: every reported date is `start + relative date` and moves by exactly
    `604800·k` seconds, nothing else changes. -/
theorem elaborate_shift (k : Int) (p : RawProj) (h : UTCProject p) :
    (elaborate (shiftProj (604800 * k) p)).env = (elaborate p).env := by
  unfold elaborate
  simp only []
  have hstop := stopRelOf_shift (604800 * k) p
  have hrel := relTasks_shift (604800 * k) p
  have hres := resDs_shift (604800 * k) p
  have hcal := resCals_shift (604800 * k) p
  have hG : (shiftProj (604800 * k) p).G = p.G := rfl
  have hA : (shiftProj (604800 * k) p).projAlap = p.projAlap := rfl
  have hlim : ((shiftProj (604800 * k) p).res.flatMap (·.limits)) ++ ((shiftProj (604800 * k) p).tasks.flatMap (·.limits)) =
      (p.res.flatMap (·.limits)) ++ (p.tasks.flatMap (·.limits)) := by
    simp [shiftProj, List.flatMap_map]
  have hn : ((shiftProj (604800 * k) p).res.map (·.limits.length)).sum = (p.res.map (·.limits.length)).sum := by
    simp [shiftProj, List.map_map, Function.comp_def]
  rw [hstop, hrel, hres, hcal, hG, hA, hlim, hn]
  have hget : ∀ r, ((resCals p.res).map (shiftRc (604800 * k))).getD r {} = shiftRc (604800 * k) ((resCals p.res).getD r {}) := by
    intro r
    simp only [Array.getD_eq_getD_getElem?, Array.getElem?_map]
    cases (resCals p.res)[r]? with
    | none => simp [shiftRc, shiftIv]
    | some x => simp
  let c0 : CalEnv := { start := p.start, G := p.G, size := ceilDiv (stopRelOf p) p.G + 1, gvac := p.gvac, gleaves := p.gleaves }
  congr 1
  · funext r i
    rw [hget]
    exact onShiftAt_shift k c0 _ (resCals_zone_none p h r) i
  · funext i; exact projWorkAt_shift k c0 i
  · funext r n
    rw [hget]
    exact leaveMarkedAt_shift (604800 * k) c0 _ n
  · funext i; exact dayIdxAt_shift k c0 i
  · funext i; exact weekIdxAt_shift k c0 i

end SP
