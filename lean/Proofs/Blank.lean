import Model.Macro
/-!
`blank_comments` (F38 repaired): a comment is, to everything that runs after it, the same amount of white space.
-/
namespace SP.Macro

/-- a `#` comment (up to, not including, the newline) becomes as many blanks, from the normal and from the line state -/
theorem blankGo_line (c : List Char) (hc : ∀ x ∈ c, x ≠ '\n') (v : List Char) :
    blankGo .line (c ++ '\n' :: v) = List.replicate c.length ' ' ++ '\n' :: blankGo .normal v := by
  induction c with
  | nil => simp [blankGo]
  | cons x xs ih =>
    have hx : x ≠ '\n' := hc x List.mem_cons_self
    simp only [List.cons_append, blankGo, hx, if_false, List.length_cons, List.replicate_succ]
    rw [ih (fun y hy => hc y (List.mem_cons_of_mem _ hy))]

theorem blankGo_hash_comment (c : List Char) (hc : ∀ x ∈ c, x ≠ '\n') (v : List Char) :
    blankGo .normal ('#' :: c ++ '\n' :: v) = List.replicate (c.length + 1) ' ' ++ '\n' :: blankGo .normal v := by
  have h1 : ¬ (('#' : Char) = '"' ∨ ('#' : Char) = '\'') := by decide
  have h2 : ¬ (('#' : Char) = '-' ∧ (c ++ '\n' :: v).take 3 = ['8', '<', '-']) := by
    intro h; exact absurd h.1 (by decide)
  simp only [List.cons_append, blankGo, h1, h2, if_false, if_true, List.replicate_succ]
  rw [blankGo_line c hc v]

/-- **the comment is white space**: a `#` comment line in front of a text gives exactly what the same number of blanks gives —
    whatever the comment contains (macro definitions, macro calls, project headers, quotes) -/
theorem comment_is_whitespace (c : List Char) (hc : ∀ x ∈ c, x ≠ '\n') (v : List Char) :
    blankComments ('#' :: c ++ '\n' :: v) = blankComments (List.replicate (c.length + 1) ' ' ++ '\n' :: v) := by
  unfold blankComments
  rw [blankGo_hash_comment c hc v]
  -- blanks and the newline are copied in the normal state
  have hb : ∀ (k : Nat) (w : List Char), blankGo .normal (List.replicate k ' ' ++ '\n' :: w) =
      List.replicate k ' ' ++ '\n' :: blankGo .normal w := by
    intro k
    induction k with
    | zero =>
      intro w
      have h1 : ¬ (('\n' : Char) = '"' ∨ ('\n' : Char) = '\'') := by decide
      have h2 : ¬ (('\n' : Char) = '-' ∧ w.take 3 = ['8', '<', '-']) := by intro h; exact absurd h.1 (by decide)
      have h3 : ¬ (('\n' : Char) = '#') := by decide
      have h4 : ¬ (('\n' : Char) = '/' ∧ w.head? = some '/') := by intro h; exact absurd h.1 (by decide)
      have h5 : ¬ (('\n' : Char) = '/' ∧ w.head? = some '*') := by intro h; exact absurd h.1 (by decide)
      simp only [List.replicate_zero, List.nil_append, blankGo, h1, h2, h3, h4, h5, if_false]
    | succ k ih =>
      intro w
      have h1 : ¬ ((' ' : Char) = '"' ∨ (' ' : Char) = '\'') := by decide
      have h2 : ¬ ((' ' : Char) = '-' ∧ (List.replicate k ' ' ++ '\n' :: w).take 3 = ['8', '<', '-']) := by
        intro h; exact absurd h.1 (by decide)
      have h3 : ¬ ((' ' : Char) = '#') := by decide
      have h4 : ¬ ((' ' : Char) = '/' ∧ (List.replicate k ' ' ++ '\n' :: w).head? = some '/') := by
        intro h; exact absurd h.1 (by decide)
      have h5 : ¬ ((' ' : Char) = '/' ∧ (List.replicate k ' ' ++ '\n' :: w).head? = some '*') := by
        intro h; exact absurd h.1 (by decide)
      simp only [List.replicate_succ, List.cons_append, blankGo, h1, h2, h3, h4, h5, if_false]
      rw [ih w]
  rw [hb]

/-- the output never grows or shrinks: every character is copied or replaced by one blank -/
theorem blankGo_length (st : BlankSt) (s : List Char) : (blankGo st s).length = s.length := by
  induction s generalizing st with
  | nil => cases st <;> rfl
  | cons c cs ih =>
    cases st <;> simp only [blankGo] <;> (repeat' split) <;> simp [ih]

/-- newlines stay where they are (line numbers of later error messages are unchanged) -/
theorem blankComments_length (s : List Char) : (blankComments s).length = s.length := blankGo_length .normal s

end SP.Macro

namespace SP.Macro

/-- a character that is no part of a comment or rich-text marker -/
def Safe (x : Char) : Prop := x ≠ '8' ∧ x ≠ '<' ∧ x ≠ '-' ∧ x ≠ '>' ∧ x ≠ '/' ∧ x ≠ '*'

theorem look3_open (u : List Char) (x y : Char) (r1 r2 : List Char) (hx : Safe x) (hy : Safe y) :
    ((u ++ x :: r1).take 3 = ['8', '<', '-']) = ((u ++ y :: r2).take 3 = ['8', '<', '-']) := by
  apply propext
  obtain ⟨x1, x2, x3, _, _, _⟩ := hx
  obtain ⟨y1, y2, y3, _, _, _⟩ := hy
  match u with
  | [] => simp [List.take, x1, y1]
  | [a] => simp [List.take, x2, y2]
  | [a, b] => simp [List.take, x3, y3]
  | a :: b :: c :: rest => simp [List.take]

theorem look3_close (u : List Char) (x y : Char) (r1 r2 : List Char) (hx : Safe x) (hy : Safe y) :
    ((u ++ x :: r1).take 3 = ['>', '8', '-']) = ((u ++ y :: r2).take 3 = ['>', '8', '-']) := by
  apply propext
  obtain ⟨x1, _, x3, x4, _, _⟩ := hx
  obtain ⟨y1, _, y3, y4, _, _⟩ := hy
  match u with
  | [] => simp [List.take, x4, y4]
  | [a] => simp [List.take, x1, y1]
  | [a, b] => simp [List.take, x3, y3]
  | a :: b :: c :: rest => simp [List.take]

theorem look1 (u : List Char) (x y k : Char) (r1 r2 : List Char) (hx : x ≠ k) (hy : y ≠ k) :
    ((u ++ x :: r1).head? = some k) = ((u ++ y :: r2).head? = some k) := by
  apply propext
  cases u with
  | nil => simp [hx, hy]
  | cons a rest => simp

/-- the scanner state after `u` when the text goes on with the character `x` -/
def endSt : BlankSt → List Char → Char → BlankSt
  | st, [], _ => st
  | .normal, c :: cs, x =>
    if c = '"' ∨ c = '\'' then endSt (.str c) cs x
    else if c = '-' ∧ (cs ++ [x]).take 3 = ['8', '<', '-'] then endSt (.copy 3 true) cs x
    else if c = '#' then endSt .line cs x
    else if c = '/' ∧ (cs ++ [x]).head? = some '/' then endSt .line cs x
    else if c = '/' ∧ (cs ++ [x]).head? = some '*' then endSt .blockOpen cs x
    else endSt .normal cs x
  | .str q, c :: cs, x => if c = q then endSt .normal cs x else endSt (.str q) cs x
  | .rich, c :: cs, x => if c = '-' ∧ (cs ++ [x]).take 3 = ['>', '8', '-'] then endSt (.copy 3 false) cs x else endSt .rich cs x
  | .copy k r, _ :: cs, x => if k ≤ 1 then endSt (if r then .rich else .normal) cs x else endSt (.copy (k - 1) r) cs x
  | .line, c :: cs, x => if c = '\n' then endSt .normal cs x else endSt .line cs x
  | .blockOpen, _ :: cs, x => endSt .block cs x
  | .block, c :: cs, x => if c = '*' ∧ (cs ++ [x]).head? = some '/' then endSt .blockClose cs x else endSt .block cs x
  | .blockClose, _ :: cs, x => endSt .normal cs x

/-- two texts with a common prefix `u`, continued by safe characters: the scanner writes the same for `u` and is in the same
    state after it -/
theorem blankGo_prefix (x y : Char) (r1 r2 : List Char) (hx : Safe x) (hy : Safe y) (u : List Char) (st : BlankSt) :
    ∃ out, blankGo st (u ++ x :: r1) = out ++ blankGo (endSt st u x) (x :: r1) ∧
      blankGo st (u ++ y :: r2) = out ++ blankGo (endSt st u x) (y :: r2) := by
  induction u generalizing st with
  | nil => exact ⟨[], rfl, rfl⟩
  | cons a u ih =>
    have h3o := look3_open u x y r1 r2 hx hy
    have h3c := look3_close u x y r1 r2 hx hy
    have h1s := look1 u x y '/' r1 r2 hx.2.2.2.2.1 hy.2.2.2.2.1
    have h1a := look1 u x y '*' r1 r2 hx.2.2.2.2.2 hy.2.2.2.2.2
    -- one step from `st` on `a`, the same in both texts, then the induction hypothesis
    have t3o : ((u ++ [x]).take 3 = ['8', '<', '-']) = ((u ++ x :: r1).take 3 = ['8', '<', '-']) :=
      look3_open u x x [] r1 hx hx
    have t3c : ((u ++ [x]).take 3 = ['>', '8', '-']) = ((u ++ x :: r1).take 3 = ['>', '8', '-']) :=
      look3_close u x x [] r1 hx hx
    have t1s : ((u ++ [x]).head? = some '/') = ((u ++ x :: r1).head? = some '/') := look1 u x x '/' [] r1 hx.2.2.2.2.1 hx.2.2.2.2.1
    have t1a : ((u ++ [x]).head? = some '*') = ((u ++ x :: r1).head? = some '*') := look1 u x x '*' [] r1 hx.2.2.2.2.2 hx.2.2.2.2.2
    have step : ∀ (o : List Char) (st2 : BlankSt),
        blankGo st (a :: u ++ x :: r1) = o ++ blankGo st2 (u ++ x :: r1) →
        blankGo st (a :: u ++ y :: r2) = o ++ blankGo st2 (u ++ y :: r2) →
        endSt st (a :: u) x = endSt st2 u x →
        ∃ out, blankGo st (a :: u ++ x :: r1) = out ++ blankGo (endSt st (a :: u) x) (x :: r1) ∧
          blankGo st (a :: u ++ y :: r2) = out ++ blankGo (endSt st (a :: u) x) (y :: r2) := by
      intro o st2 e1 e2 e3
      obtain ⟨out, i1, i2⟩ := ih st2
      exact ⟨o ++ out, by rw [e1, i1, List.append_assoc, e3], by rw [e2, i2, List.append_assoc, e3]⟩
    cases st with
    | normal =>
      simp only [List.cons_append] at *
      by_cases c1 : a = '"' ∨ a = '\''
      · exact step [a] (.str a) (by simp only [blankGo, c1, if_true]; rfl) (by simp only [blankGo, c1, if_true]; rfl)
            (by simp only [endSt, t3o, t3c, t1s, t1a, *, if_true, if_false, and_self, not_false_eq_true, and_true, true_and] <;> rfl)
      · by_cases c2 : a = '-' ∧ (u ++ x :: r1).take 3 = ['8', '<', '-']
        · have c2' : a = '-' ∧ (u ++ y :: r2).take 3 = ['8', '<', '-'] := ⟨c2.1, by rw [← h3o]; exact c2.2⟩
          exact step [a] (.copy 3 true) (by simp only [blankGo, c1, c2, if_false, if_true, and_self]; rfl)
            (by simp only [blankGo, c1, c2', if_false, if_true, and_self]; rfl)
                (by simp only [endSt, t3o, t3c, t1s, t1a, *, if_true, if_false, and_self, not_false_eq_true, and_true, true_and] <;> rfl)
        · have c2' : ¬ (a = '-' ∧ (u ++ y :: r2).take 3 = ['8', '<', '-']) := fun h => c2 ⟨h.1, by rw [h3o]; exact h.2⟩
          by_cases c3 : a = '#'
          · exact step [' '] .line (by simp only [blankGo, c1, c2, c3, if_false, if_true]; rfl)
              (by simp only [blankGo, c1, c2', c3, if_false, if_true]; rfl)
                (by simp only [endSt, t3o, t3c, t1s, t1a, *, if_true, if_false, and_self, not_false_eq_true, and_true, true_and] <;> rfl)
          · by_cases c4 : a = '/' ∧ (u ++ x :: r1).head? = some '/'
            · have c4' : a = '/' ∧ (u ++ y :: r2).head? = some '/' := ⟨c4.1, by rw [← h1s]; exact c4.2⟩
              exact step [' '] .line (by simp only [blankGo, c1, c2, c3, c4, if_false, if_true, and_self]; rfl)
                (by simp only [blankGo, c1, c2', c3, c4', if_false, if_true, and_self]; rfl)
                    (by simp only [endSt, t3o, t3c, t1s, t1a, *, if_true, if_false, and_self, not_false_eq_true, and_true, true_and] <;> rfl)
            · have c4' : ¬ (a = '/' ∧ (u ++ y :: r2).head? = some '/') := fun h => c4 ⟨h.1, by rw [h1s]; exact h.2⟩
              by_cases c5 : a = '/' ∧ (u ++ x :: r1).head? = some '*'
              · have c5' : a = '/' ∧ (u ++ y :: r2).head? = some '*' := ⟨c5.1, by rw [← h1a]; exact c5.2⟩
                exact step [' '] .blockOpen (by simp only [blankGo, c1, c2, c3, c4, c5, if_false, if_true, and_self]; rfl)
                  (by simp only [blankGo, c1, c2', c3, c4', c5', if_false, if_true, and_self]; rfl)
                      (by simp only [endSt, t3o, t3c, t1s, t1a, *, if_true, if_false, and_self, not_false_eq_true, and_true, true_and] <;> rfl)
              · have c5' : ¬ (a = '/' ∧ (u ++ y :: r2).head? = some '*') := fun h => c5 ⟨h.1, by rw [h1a]; exact h.2⟩
                exact step [a] .normal (by simp only [blankGo, c1, c2, c3, c4, c5, if_false]; rfl)
                  (by simp only [blankGo, c1, c2', c3, c4', c5', if_false]; rfl)
                      (by simp only [endSt, t3o, t3c, t1s, t1a, *, if_true, if_false, and_self, not_false_eq_true, and_true, true_and] <;> rfl)
    | str q =>
      simp only [List.cons_append] at *
      by_cases c1 : a = q
      · exact step [a] .normal (by simp only [blankGo, c1, if_true]; rfl) (by simp only [blankGo, c1, if_true]; rfl)
            (by simp only [endSt, t3o, t3c, t1s, t1a, *, if_true, if_false, and_self, not_false_eq_true, and_true, true_and] <;> rfl)
      · exact step [a] (.str q) (by simp only [blankGo, c1, if_false]; rfl) (by simp only [blankGo, c1, if_false]; rfl)
            (by simp only [endSt, t3o, t3c, t1s, t1a, *, if_true, if_false, and_self, not_false_eq_true, and_true, true_and] <;> rfl)
    | rich =>
      simp only [List.cons_append] at *
      by_cases c2 : a = '-' ∧ (u ++ x :: r1).take 3 = ['>', '8', '-']
      · have c2' : a = '-' ∧ (u ++ y :: r2).take 3 = ['>', '8', '-'] := ⟨c2.1, by rw [← h3c]; exact c2.2⟩
        exact step [a] (.copy 3 false) (by simp only [blankGo, c2, if_true, and_self]; rfl)
          (by simp only [blankGo, c2', if_true, and_self]; rfl)
              (by simp only [endSt, t3o, t3c, t1s, t1a, *, if_true, if_false, and_self, not_false_eq_true, and_true, true_and] <;> rfl)
      · have c2' : ¬ (a = '-' ∧ (u ++ y :: r2).take 3 = ['>', '8', '-']) := fun h => c2 ⟨h.1, by rw [h3c]; exact h.2⟩
        exact step [a] .rich (by simp only [blankGo, c2, if_false]; rfl) (by simp only [blankGo, c2', if_false]; rfl)
              (by simp only [endSt, t3o, t3c, t1s, t1a, *, if_true, if_false, and_self, not_false_eq_true, and_true, true_and] <;> rfl)
    | copy k r =>
      simp only [List.cons_append] at *
      by_cases c1 : k ≤ 1
      · exact step [a] (if r then .rich else .normal) (by simp only [blankGo, c1, if_true]; rfl)
          (by simp only [blankGo, c1, if_true]; rfl)
            (by simp only [endSt, t3o, t3c, t1s, t1a, *, if_true, if_false, and_self, not_false_eq_true, and_true, true_and] <;> rfl)
      · exact step [a] (.copy (k - 1) r) (by simp only [blankGo, c1, if_false]; rfl)
          (by simp only [blankGo, c1, if_false]; rfl)
            (by simp only [endSt, t3o, t3c, t1s, t1a, *, if_true, if_false, and_self, not_false_eq_true, and_true, true_and] <;> rfl)
    | line =>
      simp only [List.cons_append] at *
      by_cases c1 : a = '\n'
      · exact step [a] .normal (by simp only [blankGo, c1, if_true]; rfl) (by simp only [blankGo, c1, if_true]; rfl)
            (by simp only [endSt, t3o, t3c, t1s, t1a, *, if_true, if_false, and_self, not_false_eq_true, and_true, true_and] <;> rfl)
      · exact step [' '] .line (by simp only [blankGo, c1, if_false]; rfl) (by simp only [blankGo, c1, if_false]; rfl)
            (by simp only [endSt, t3o, t3c, t1s, t1a, *, if_true, if_false, and_self, not_false_eq_true, and_true, true_and] <;> rfl)
    | blockOpen =>
      simp only [List.cons_append] at *
      exact step [' '] .block (by simp only [blankGo]; rfl) (by simp only [blankGo]; rfl)
            (by simp only [endSt, t3o, t3c, t1s, t1a, *, if_true, if_false, and_self, not_false_eq_true, and_true, true_and] <;> rfl)
    | block =>
      simp only [List.cons_append] at *
      by_cases c4 : a = '*' ∧ (u ++ x :: r1).head? = some '/'
      · have c4' : a = '*' ∧ (u ++ y :: r2).head? = some '/' := ⟨c4.1, by rw [← h1s]; exact c4.2⟩
        exact step [' '] .blockClose (by simp only [blankGo, c4, if_true, and_self]; rfl)
          (by simp only [blankGo, c4', if_true, and_self]; rfl)
              (by simp only [endSt, t3o, t3c, t1s, t1a, *, if_true, if_false, and_self, not_false_eq_true, and_true, true_and] <;> rfl)
      · have c4' : ¬ (a = '*' ∧ (u ++ y :: r2).head? = some '/') := fun h => c4 ⟨h.1, by rw [h1s]; exact h.2⟩
        exact step [if a = '\n' then a else ' '] .block (by simp only [blankGo, c4, if_false]; rfl)
          (by simp only [blankGo, c4', if_false]; rfl)
              (by simp only [endSt, t3o, t3c, t1s, t1a, *, if_true, if_false, and_self, not_false_eq_true, and_true, true_and] <;> rfl)
    | blockClose =>
      simp only [List.cons_append] at *
      exact step [' '] .normal (by simp only [blankGo]; rfl) (by simp only [blankGo]; rfl)
            (by simp only [endSt, t3o, t3c, t1s, t1a, *, if_true, if_false, and_self, not_false_eq_true, and_true, true_and] <;> rfl)

end SP.Macro

namespace SP.Macro

theorem safe_hash : Safe '#' := by unfold Safe; decide
theorem safe_blank : Safe ' ' := by unfold Safe; decide

theorem blankGo_blanks (k : Nat) (w : List Char) :
    blankGo .normal (List.replicate k ' ' ++ '\n' :: w) = List.replicate k ' ' ++ '\n' :: blankGo .normal w := by
  induction k with
  | zero =>
    have h1 : ¬ (('\n' : Char) = '"' ∨ ('\n' : Char) = '\'') := by decide
    have h2 : ¬ (('\n' : Char) = '-' ∧ w.take 3 = ['8', '<', '-']) := by intro h; exact absurd h.1 (by decide)
    have h3 : ¬ (('\n' : Char) = '#') := by decide
    have h4 : ¬ (('\n' : Char) = '/' ∧ w.head? = some '/') := by intro h; exact absurd h.1 (by decide)
    have h5 : ¬ (('\n' : Char) = '/' ∧ w.head? = some '*') := by intro h; exact absurd h.1 (by decide)
    simp only [List.replicate_zero, List.nil_append, blankGo, h1, h2, h3, h4, h5, if_false]
  | succ k ih =>
    have h1 : ¬ ((' ' : Char) = '"' ∨ (' ' : Char) = '\'') := by decide
    have h2 : ¬ ((' ' : Char) = '-' ∧ (List.replicate k ' ' ++ '\n' :: w).take 3 = ['8', '<', '-']) := by
      intro h; exact absurd h.1 (by decide)
    have h3 : ¬ ((' ' : Char) = '#') := by decide
    have h4 : ¬ ((' ' : Char) = '/' ∧ (List.replicate k ' ' ++ '\n' :: w).head? = some '/') := by
      intro h; exact absurd h.1 (by decide)
    have h5 : ¬ ((' ' : Char) = '/' ∧ (List.replicate k ' ' ++ '\n' :: w).head? = some '*') := by
      intro h; exact absurd h.1 (by decide)
    simp only [List.replicate_succ, List.cons_append, blankGo, h1, h2, h3, h4, h5, if_false]
    rw [ih]

/-- **a comment anywhere is white space**: wherever the scanner is in its normal state after the text `u` (outside strings, rich
    text blocks and other comments — `endSt`), a `#` comment up to the end of its line gives exactly what the same number of
    blanks gives, whatever the comment contains -/
theorem comment_anywhere_is_whitespace (u c v : List Char) (hc : ∀ x ∈ c, x ≠ '\n')
    (hn : endSt .normal u '#' = .normal) :
    blankComments (u ++ '#' :: c ++ '\n' :: v) = blankComments (u ++ List.replicate (c.length + 1) ' ' ++ '\n' :: v) := by
  unfold blankComments
  obtain ⟨out, h1, h2⟩ := blankGo_prefix '#' ' ' (c ++ '\n' :: v) (List.replicate c.length ' ' ++ '\n' :: v)
    safe_hash safe_blank u .normal
  rw [hn] at h1 h2
  have e1 : u ++ '#' :: c ++ '\n' :: v = u ++ '#' :: (c ++ '\n' :: v) := by simp
  have e2 : u ++ List.replicate (c.length + 1) ' ' ++ '\n' :: v = u ++ ' ' :: (List.replicate c.length ' ' ++ '\n' :: v) := by
    simp [List.replicate_succ]
  rw [e1, e2, h1, h2]
  congr 1
  have := blankGo_hash_comment c hc v
  simp only [List.cons_append] at this
  rw [this]
  have hb := blankGo_blanks (c.length + 1) v
  simp only [List.replicate_succ, List.cons_append] at hb
  rw [hb]
  simp [List.replicate_succ]

end SP.Macro
