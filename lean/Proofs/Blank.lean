import Model.Macro
/-!
`blank_comments` (F38 repaired): a comment is, to everything that runs after it, the same amount of white space.
-/
namespace SP.Macro

/-- a `#` comment (up to, not including, the newline) becomes as many blanks, from the normal and from the line state -/
theorem blankGo_line (c : List Char) (hc : ∀ x ∈ c, x ≠ '\n') (v : List Char) :
    blankGo .line (c ++ '\n' :: v) = List.replicate c.length ' ' ++ '\n' :: blankGo .normal v := by
  induction c with
  | nil => simp [blankGo]
  | cons x xs ih =>
    have hx : x ≠ '\n' := hc x List.mem_cons_self
    simp only [List.cons_append, blankGo, hx, if_false, List.length_cons, List.replicate_succ]
    rw [ih (fun y hy => hc y (List.mem_cons_of_mem _ hy))]

theorem blankGo_hash_comment (c : List Char) (hc : ∀ x ∈ c, x ≠ '\n') (v : List Char) :
    blankGo .normal ('#' :: c ++ '\n' :: v) = List.replicate (c.length + 1) ' ' ++ '\n' :: blankGo .normal v := by
  have h1 : ¬ (('#' : Char) = '"' ∨ ('#' : Char) = '\'') := by decide
  have h2 : ¬ (('#' : Char) = '-' ∧ (c ++ '\n' :: v).take 3 = ['8', '<', '-']) := by
    intro h; exact absurd h.1 (by decide)
  simp only [List.cons_append, blankGo, h1, h2, if_false, if_true, List.replicate_succ]
  rw [blankGo_line c hc v]

/-- **the comment is white space**: a `#` comment line in front of a text gives exactly what the same number of blanks gives —
    whatever the comment contains (macro definitions, macro calls, project headers, quotes) -/
theorem comment_is_whitespace (c : List Char) (hc : ∀ x ∈ c, x ≠ '\n') (v : List Char) :
    blankComments ('#' :: c ++ '\n' :: v) = blankComments (List.replicate (c.length + 1) ' ' ++ '\n' :: v) := by
  unfold blankComments
  rw [blankGo_hash_comment c hc v]
  -- blanks and the newline are copied in the normal state
  have hb : ∀ (k : Nat) (w : List Char), blankGo .normal (List.replicate k ' ' ++ '\n' :: w) =
      List.replicate k ' ' ++ '\n' :: blankGo .normal w := by
    intro k
    induction k with
    | zero =>
      intro w
      have h1 : ¬ (('\n' : Char) = '"' ∨ ('\n' : Char) = '\'') := by decide
      have h2 : ¬ (('\n' : Char) = '-' ∧ w.take 3 = ['8', '<', '-']) := by intro h; exact absurd h.1 (by decide)
      have h3 : ¬ (('\n' : Char) = '#') := by decide
      have h4 : ¬ (('\n' : Char) = '/' ∧ w.head? = some '/') := by intro h; exact absurd h.1 (by decide)
      have h5 : ¬ (('\n' : Char) = '/' ∧ w.head? = some '*') := by intro h; exact absurd h.1 (by decide)
      simp only [List.replicate_zero, List.nil_append, blankGo, h1, h2, h3, h4, h5, if_false]
    | succ k ih =>
      intro w
      have h1 : ¬ ((' ' : Char) = '"' ∨ (' ' : Char) = '\'') := by decide
      have h2 : ¬ ((' ' : Char) = '-' ∧ (List.replicate k ' ' ++ '\n' :: w).take 3 = ['8', '<', '-']) := by
        intro h; exact absurd h.1 (by decide)
      have h3 : ¬ ((' ' : Char) = '#') := by decide
      have h4 : ¬ ((' ' : Char) = '/' ∧ (List.replicate k ' ' ++ '\n' :: w).head? = some '/') := by
        intro h; exact absurd h.1 (by decide)
      have h5 : ¬ ((' ' : Char) = '/' ∧ (List.replicate k ' ' ++ '\n' :: w).head? = some '*') := by
        intro h; exact absurd h.1 (by decide)
      simp only [List.replicate_succ, List.cons_append, blankGo, h1, h2, h3, h4, h5, if_false]
      rw [ih w]
  rw [hb]

/-- the output never grows or shrinks: every character is copied or replaced by one blank -/
theorem blankGo_length (st : BlankSt) (s : List Char) : (blankGo st s).length = s.length := by
  induction s generalizing st with
  | nil => cases st <;> rfl
  | cons c cs ih =>
    cases st <;> simp only [blankGo] <;> (repeat' split) <;> simp [ih]

/-- newlines stay where they are (line numbers of later error messages are unchanged) -/
theorem blankComments_length (s : List Char) : (blankComments s).length = s.length := blankGo_length .normal s

end SP.Macro
