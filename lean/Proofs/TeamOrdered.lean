import Proofs.FrameTeamBack
import Proofs.Ordered
/-!
start ≤ end for teams of one common efficiency (both modes): the team analogue of `Proofs/Ordered`.
-/
namespace SP

/-- after a team all of whose members are booked: every member's slot is used up to `teamU + the booked seconds` -/
theorem bookAll_team_all_used (e : Env) (σ0 : St) (t : Nat) (w : Walk) (c : Rat)
    (hpos : 0 < availOf e.G (teamU c w)) :
    ∀ (l : List Nat) (acc : BookAcc) (σg : St), l.Nodup → TeamRel e σ0 σg acc.σ w.cur c t l →
      teamGateOk e t w.cur σg l = true →
      ∀ r ∈ l, ((l.foldl (bookOne e t w) acc).σ.led.get r w.cur).used = teamU c w + availOf e.G (teamU c w) := by
  intro l
  induction l with
  | nil => intro acc σg _ _ _ r hr; exact absurd hr List.not_mem_nil
  | cons r rs ih =>
    intro acc σg hnd hrel hgate
    have hgate0 := hgate
    simp only [teamGateOk, Bool.and_eq_true] at hgate
    obtain ⟨⟨hav, htl⟩, hrest⟩ := hgate
    have hr_mem : r ∈ r :: rs := List.mem_cons_self
    have hnd' := List.nodup_cons.mp hnd
    have hU := reserveStep_used acc.σ w r c (hrel.useda r hr_mem)
    have hav' : available e (reserveStep acc.σ w r) r w.cur = true := by
      apply available_transfer e σg (reserveStep acc.σ w r) r w.cur (teamU c w) hav
      · rw [reserveStep_cnt]; exact hrel.cnt
      · rw [reserveStep_marks, hrel.marksa r hr_mem, hrel.marksg]
      · exact hU
      · rw [hrel.ledg]; exact (hrel.used0 r hr_mem).1
      · rw [hrel.ledg]; exact Rat.le_trans (hrel.used0 r hr_mem).2 (teamU_ge c w)
      · exact hpos
    have htl' : taskLimitsOk e (reserveStep acc.σ w r) t w.cur r = true := by
      rw [taskLimitsOk_cnt e σg _ t w.cur r (by rw [reserveStep_cnt]; exact hrel.cnt)]; exact htl
    have hbook : bookResource e acc.σ t w r = bookSlot e (reserveStep acc.σ w r) r w.cur t := by
      rw [bookResource_books_iff]; simp [hav', htl']
    have hσ1 : (bookOne e t w acc r).σ = (bookSlot e (reserveStep acc.σ w r) r w.cur t).1 := by
      unfold bookOne; simp only [hbook]; split <;> rfl
    have hrel' : TeamRel e σ0 (countMember e σg t w.cur r) (bookOne e t w acc r).σ w.cur c t rs := by
      refine ⟨?_, ?_, ?_, ?_, ?_, ?_, ?_⟩
      · rw [hσ1, bookSlot_cnt, countMember_eq, countMember_eq]
        exact incAll_cnt_congr e σg _ _ w.cur (by rw [reserveStep_cnt]; exact hrel.cnt)
      · rw [countMember_led]; exact hrel.ledg
      · rw [countMember_marks]; exact hrel.marksg
      · intro r' hr'
        have hne : r ≠ r' := fun h => hnd'.1 (h ▸ hr')
        rw [hσ1, bookSlot_marks, Marks.get_set, reserveStep_marks]
        simp only [hne, false_and, if_false]
        exact hrel.marksa r' (List.mem_cons_of_mem _ hr')
      · intro r' hr'
        have hne : ¬ (r = r' ∧ w.cur = w.cur) := fun h => hnd'.1 (h.1 ▸ hr')
        rw [hσ1, bookSlot_frame _ _ _ _ _ _ _ hne, reserveStep_frame _ _ _ _ _ hne]
        exact hrel.useda r' (List.mem_cons_of_mem _ hr')
      · intro r' hr'
        have hne : ¬ (r = r' ∧ w.cur = w.cur) := fun h => hnd'.1 (h.1 ▸ hr')
        rw [hσ1, bookSlot_frame _ _ _ _ _ _ _ hne, reserveStep_frame _ _ _ _ _ hne]
        exact hrel.clean r' (List.mem_cons_of_mem _ hr')
      · intro r' hr'; exact hrel.used0 r' (List.mem_cons_of_mem _ hr')
    have hframe := (bookAll_team_all e σ0 t w c hpos rs (bookOne e t w acc r) (countMember e σg t w.cur r) hnd'.2 hrel' hrest).2
    simp only [List.foldl_cons]
    intro r' hr'
    rcases List.mem_cons.mp hr' with h | h
    · subst h
      rw [hframe r' hnd'.1, hσ1, bookSlot_used, hU, availSecs_eq, hU]
    · exact ih (bookOne e t w acc r) (countMember e σg t w.cur r) hnd'.2 hrel' hrest r' h

/-- **a booked team slot, what lies before the team's seconds**: when a member carries the task after `bookResources`, what its
    slot held before the task's own seconds is at least the start offset (in the first slot of a task that has not started) -/
theorem bookResources_team_usedBefore (e : Env) (wf : WF e) (σ : St) (t : Nat) (w : Walk) (sel : List Nat)
    (hinv : Inv e σ) (ha : (e.taskD t).hasAlloc = true) (hsel : selectedOf e σ t w = sel)
    (hteam : isTeam e t sel = true) (hnd : sel.Nodup)
    (hclean : ∀ r ∈ sel, usageOf (σ.led.get r w.cur).usage t = none)
    (ho : w.offset > 0) (hd : w.done = 0) (r : Nat) (hr : r ∈ sel)
    (hb : usageOf ((bookResources e σ t w).1.led.get r w.cur).usage t ≠ none) :
    w.offset ≤ ((bookResources e σ t w).1.led.get r w.cur).used - taskSecs ((bookResources e σ t w).1.led.get r w.cur) t := by
  have hne : sel.isEmpty = false := by
    unfold isTeam at hteam
    simp only [Bool.and_eq_true, decide_eq_true_eq] at hteam
    cases hs : sel with
    | nil => rw [hs] at hteam; simp at hteam
    | cons x xs => rfl
  unfold bookResources at hb ⊢
  simp only [ha, Bool.not_true, Bool.false_eq_true, if_false, hsel, hne] at hb ⊢
  by_cases hg : teamGateOk e t w.cur σ sel = true
  · have hgf : teamGateFails e σ t { w with selected := some sel } sel = false := by
      unfold teamGateFails; simp [hteam, hg]
    simp only [hgf, Bool.false_eq_true, if_false] at hb ⊢
    have hlev : leveled e σ t w.cur sel = levelTeam σ w.cur sel := by unfold leveled; simp [hteam]
    simp only [hlev] at hb ⊢
    have hused : ∀ r ∈ sel, ((levelTeam σ w.cur sel).led.get r w.cur).used = teamCommon σ w.cur sel :=
      fun r hr => levelTeam_used σ w.cur sel r hr
    have hcl : ∀ r ∈ sel, usageOf ((levelTeam σ w.cur sel).led.get r w.cur).usage t = none := by
      intro r hr; rw [levelTeam_usage]; exact hclean r hr
    by_cases hpos : 0 < availOf e.G (teamU (teamCommon σ w.cur sel) w)
    · have hrel : TeamRel e σ σ (levelTeam σ w.cur sel) w.cur (teamCommon σ w.cur sel) t sel := by
        refine ⟨levelTeam_cnt σ w.cur sel, rfl, rfl, fun r _ => by rw [levelTeam_marks], hused, hcl, fun r hr => ?_⟩
        exact ⟨(hinv.slot r w.cur).used_nonneg, le_teamCommon σ w.cur sel r hr⟩
      have hent := (bookAll_team_all e σ t { w with selected := some sel } _ hpos sel
        { σ := levelTeam σ w.cur sel, last := w.last } σ hnd hrel hg).1 r hr
      have hus := bookAll_team_all_used e σ t { w with selected := some sel } _ hpos sel
        { σ := levelTeam σ w.cur sel, last := w.last } σ hnd hrel hg r hr
      have hge : w.offset ≤ teamU (teamCommon σ w.cur sel) { w with selected := some sel } := by
        unfold teamU
        have hcond : (decide (w.offset > 0) && w.done == 0) = true := by simp [ho, hd]
        simp only [hcond, if_true]
        split
        · exact Rat.le_refl
        · rename_i h; exact Rat.not_lt.mp h
      have key : w.offset ≤ ((bookAll e (levelTeam σ w.cur sel) t { w with selected := some sel } sel).σ.led.get r w.cur).used -
          taskSecs ((bookAll e (levelTeam σ w.cur sel) t { w with selected := some sel } sel).σ.led.get r w.cur) t := by
        unfold bookAll taskSecs
        rw [hent, hus]
        simp only [Option.getD_some]
        grind
      split
      · simp only [markStart_led]; exact key
      · exact key
    · exfalso
      have hent := (bookAll_team_none e t { w with selected := some sel } _ hpos sel
        { σ := levelTeam σ w.cur sel, last := w.last } hnd (fun r hr => ⟨hused r hr, hcl r hr⟩)).1 r hr
      apply hb
      unfold bookAll
      split
      · simp only [markStart_led]; exact hent
      · exact hent
  · exfalso
    have hgf : teamGateFails e σ t { w with selected := some sel } sel = true := by
      unfold teamGateFails
      have : teamGateOk e t w.cur σ sel = false := by simpa using hg
      simp [hteam, this]
    simp only [hgf, if_true] at hb
    exact hb (hclean r hr)

theorem scheduleSlot_finvT2 (e : Env) (wf : WF e) (σ : St) (t : Nat) (sel : List Nat) (η : Rat) (r : Nat) (hr : r ∈ sel)
    (w : Walk) (vis : List Int)
    (hinv : Inv e σ) (hlf : (e.taskD t).leaf = true) (hw : WalkOk e t w)
    (ha : (e.taskD t).hasAlloc = true) (hm : (e.taskD t).milestone = false)
    (hsel : selectedOf e σ t w = sel) (hteam : isTeam e t sel = true) (hnd : sel.Nodup)
    (heff : ∀ r ∈ sel, (e.resD r).eff = η) (hη : 0 < η)
    (hlt : w.done < (e.taskD t).effort) (hpos : 0 < (e.taskD t).effort)
    (h : FInvT e σ t sel η r w vis) :
    ((scheduleSlot e σ t w).2.2 = true →
        FInvT e (scheduleSlot e σ t w).1 t sel η r (advance true w (scheduleSlot e σ t w).2.1) (w.cur :: vis)) ∧
    ((scheduleSlot e σ t w).2.2 = false → Framed e (scheduleSlot e σ t w).1 t r ∧ Ordered (scheduleSlot e σ t w).1 t) := by
  have hsa := scheduleSlot_tacc e wf σ t sel η true w vis hinv hlf hw ha hm hsel hteam hnd heff hη hlt hpos h.acc
  obtain ⟨hfst, hnn1⟩ := book_fstT e wf σ t sel η r hr w vis hinv hlf hw ha hsel hteam hnd heff hη hpos h
  have hcur_notin : w.cur ∉ vis := by
    intro hin
    have := h.acc.before _ hin
    simp only [if_true] at this; omega
  have hclean : ∀ m ∈ sel, usageOf (σ.led.get m w.cur).usage t = none := fun m hm => h.acc.only m hm _ hcur_notin
  obtain ⟨hdone, _, hselw, hcurw, hbooked⟩ :=
    bookResources_team_member e wf σ t w sel η hinv ha hsel hteam hnd heff hη hclean r hr
  have hfr := bookResources_frame e σ t w
  have hb := bookResources_inv e σ t w wf hinv hlf hw
  have hz : ((e.taskD t).effort == 0) = false := by
    simp only [beq_eq_false_iff_ne, ne_eq]; grind
  have hne' : sel ≠ [] := by
    intro h; rw [h] at hteam; simp [isTeam] at hteam
  constructor
  · intro hc
    obtain ⟨hacc', _, _⟩ := hsa.1 hc
    have hst : (scheduleSlot e σ t w).1 = (bookResources e σ t w).1 ∧ (scheduleSlot e σ t w).2.1 = (bookResources e σ t w).2 := by
      unfold scheduleSlot at hc ⊢
      simp only [hm, hz, Bool.or_self, Bool.false_eq_true, if_false] at hc ⊢
      by_cases hfin : (bookResources e σ t w).2.done ≥ (e.taskD t).effort
      · simp only [hfin, if_true] at hc; exact Bool.noConfusion hc
      · simp only [hfin, if_false]; first | exact ⟨rfl, rfl⟩ | exact ⟨trivial, trivial⟩ | simp
    refine ⟨hacc', ?_, ?_, ?_, ?_⟩
    · rw [hst.1, hfr.2.2.2.2]; exact h.inb
    · rw [hst.1, hfr.2.2.2.1]; exact h.fwd
    · show 0 ≤ (scheduleSlot e σ t w).2.1.done
      rw [hst.2]; exact hnn1
    · show Fst e (scheduleSlot e σ t w).1 t r (scheduleSlot e σ t w).2.1.done (w.cur :: vis)
      rw [hst.1, hst.2]; exact hfst
  · intro hc
    have hex := hsa.2 hc
    have hfin : (bookResources e σ t w).2.done ≥ (e.taskD t).effort := by
      unfold scheduleSlot at hc
      simp only [hm, hz, Bool.or_self, Bool.false_eq_true, if_false] at hc
      by_cases hfin : (bookResources e σ t w).2.done ≥ (e.taskD t).effort
      · exact hfin
      · simp only [hfin, if_false] at hc; exact Bool.noConfusion hc
    have hgain : taskSecs ((bookResources e σ t w).1.led.get r w.cur) t ≠ 0 := by
      intro h0; rw [h0] at hdone; grind
    obtain ⟨hlastw, a, ha0, haG, hent⟩ := hbooked hgain
    obtain ⟨rl, hrl, hrlmem⟩ := getLast?_mem_of_ne_nil sel hne'
    have hlast : (bookResources e σ t w).2.last = some rl := by rw [hlastw, hrl]
    have hsecs : taskSecs ((bookResources e σ t w).1.led.get r w.cur) t = a := by unfold taskSecs; rw [hent r hr]; rfl
    have heffrl : 0 < (e.resD rl).eff := by rw [heff rl hrlmem]; exact hη
    have hge : (e.taskD t).effort ≤ w.done + a / 3600 * (e.resD rl).eff := by
      rw [heff rl hrlmem, ← hsecs, ← hdone]; exact hfin
    have hneed := needSecs_eq e (bookResources e σ t w).1 t (bookResources e σ t w).2 w.done rl a heffrl hlt hge haG
      (by rw [hcurw]; exact hent rl hrlmem)
    have fe := finish_exact (e.taskD t).effort w.done a (e.resD rl).eff heffrl hlt hge
    simp only [] at fe
    have hft := finishTask_team e (bookResources e σ t w).1 t (bookResources e σ t w).2 w.done true sel rl a
      hlast hselw hrlmem hnd (by rw [hcurw]; exact hent) (by rw [hneed]; exact fe.2.1)
    rw [hcurw] at hft
    have hfo := finishTask_other e (bookResources e σ t w).1 t (bookResources e σ t w).2 w.done true
    -- shape of the final state
    have hshape : (scheduleSlot e σ t w).1.led = (finishTask e (bookResources e σ t w).1 t (bookResources e σ t w).2 w.done true).1.led ∧
        ((scheduleSlot e σ t w).1.tst t).start = ((bookResources e σ t w).1.tst t).start ∧
        ((scheduleSlot e σ t w).1.tst t).stop = some (finishTask e (bookResources e σ t w).1 t (bookResources e σ t w).2 w.done true).2 := by
      unfold scheduleSlot
      simp only [hm, hz, Bool.or_self, Bool.false_eq_true, if_false, hfin, if_true, h.fwd]
      have hsz : t < (finishTask e (bookResources e σ t w).1 t (bookResources e σ t w).2 w.done true).1.ts.size := by
        rw [finishTask_ts, hfr.2.2.2.2]; exact h.inb
      refine ⟨rfl, ?_, ?_⟩
      · show ((St.setT (finishTask e (bookResources e σ t w).1 t (bookResources e σ t w).2 w.done true).1 t _).tst t).start = _
        rw [tst_setT_same _ _ _ hsz]
        show ((finishTask e (bookResources e σ t w).1 t (bookResources e σ t w).2 w.done true).1.tst t).start = _
        unfold St.tst; rw [finishTask_ts]
      · show ((St.setT (finishTask e (bookResources e σ t w).1 t (bookResources e σ t w).2 w.done true).1 t _).tst t).stop = _
        rw [tst_setT_same _ _ _ hsz]
    obtain ⟨hled, hstart, hstop⟩ := hshape
    have hent' : ∀ i, (usageOf ((scheduleSlot e σ t w).1.led.get r i).usage t = none ↔
        usageOf ((bookResources e σ t w).1.led.get r i).usage t = none) := by
      intro i
      rw [hled]
      by_cases hi : i = w.cur
      · subst hi; rw [hft r hr, hent r hr]; simp
      · rw [hfo r i (by rw [hcurw]; exact hi)]
    have hne1 : (bookResources e σ t w).2.done ≠ 0 := by grind
    have hfst' : Fst e (scheduleSlot e σ t w).1 t r (bookResources e σ t w).2.done (w.cur :: vis) :=
      Fst.transfer (fun i _ => hent' i) hstart hfst
    obtain ⟨fb, hfb, hfbne, hmin, o, ho0, ho1, hst⟩ := hfst'.2 hne1
    have hfb_le : fb ≤ w.cur := by
      rcases List.mem_cons.mp hfb with hh | hh
      · omega
      · have := h.acc.before fb hh; simp only [if_true] at this; omega
    -- the end date: `time cur + round(X)` with `0 ≤ X ≤ G`, read off the last member's slot
    have hu : usageOf ((bookResources e σ t w).1.led.get rl (bookResources e σ t w).2.cur).usage t = some a := by
      rw [hcurw]; exact hent rl hrlmem
    have hs := hb.slot rl w.cur
    have hle_sum := mem_le_usageSum _ hs.entries_nonneg _ (usageOf_mem (hent rl hrlmem))
    have h1s := hs.sum_le
    have h2s := hs.used_le
    simp only [] at hle_sum
    have hx0 : 0 ≤ ((bookResources e σ t w).1.led.get rl w.cur).used - a +
        ((e.taskD t).effort - w.done) / ((e.resD rl).eff / 3600) := by grind
    have hx1 : ((bookResources e σ t w).1.led.get rl w.cur).used - a +
        ((e.taskD t).effort - w.done) / ((e.resD rl).eff / 3600) ≤ (e.G : Rat) := by grind
    have hb1 := roundHalfEven_nonneg _ hx0
    have hb2 := roundHalfEven_mono_int _ e.G hx1
    have hdate : (finishTask e (bookResources e σ t w).1 t (bookResources e σ t w).2 w.done true).2 =
        e.time w.cur + roundHalfEven (((bookResources e σ t w).1.led.get rl w.cur).used - a +
          ((e.taskD t).effort - w.done) / ((e.resD rl).eff / 3600)) := by
      rw [finishTask_date_some e _ t _ w.done rl _ hlast hu, hcurw, hneed]
    refine ⟨⟨fb, w.cur, hfb_le, hfbne, ?_, ?_, ?_, ?_⟩, ?_⟩
    · intro hc2; have hc3 := (hent' w.cur).mp hc2; rw [hent r hr] at hc3; cases hc3
    · intro i hi
      have hin : i ∈ w.cur :: vis := by
        by_cases hmem : i ∈ w.cur :: vis
        · exact hmem
        · exact absurd (hex.2.1 r hr i hmem) hi
      refine ⟨hmin i hin hi, ?_⟩
      rcases List.mem_cons.mp hin with hh | hh
      · omega
      · have := h.acc.before i hh; simp only [if_true] at this; omega
    · exact ⟨_, hst, markDate_in_slot e fb o ho0 ho1⟩
    · refine ⟨_, hstop, ?_⟩
      rw [hdate, time_succ]
      omega
    · -- start ≤ end
      refine ⟨_, _, hst, hstop, ?_⟩
      rw [hdate]
      by_cases hlt2 : fb < w.cur
      · have h3 := (markDate_in_slot e fb o ho0 ho1).2
        have h4 : e.time (fb + 1) ≤ e.time w.cur := time_mono e wf _ _ (by omega)
        omega
      · have hfc : fb = w.cur := by omega
        have hother := bookResources_other e σ t w
        have hw0 : w.done = 0 := by
          apply Classical.byContradiction
          intro hne0
          obtain ⟨fb0, hfb0, hne0', _, _⟩ := h.fst.2 hne0
          have hb0 := h.acc.before fb0 hfb0
          simp only [if_true] at hb0
          have := hmin fb0 (List.mem_cons_of_mem _ hfb0) (by
            intro hcx
            apply hne0'
            have hvis0 : (bookResources e σ t w).1.led.get r fb0 = σ.led.get r fb0 := by
              apply hother; intro hh; exact hcur_notin (hh ▸ hfb0)
            rw [← hvis0]; exact (hent' fb0).mp hcx)
          omega
        obtain ⟨hs1, hs2⟩ := bookResources_start e σ t w h.inb h.fwd hpos
        have hstart2 : ((bookResources e σ t w).1.tst t).start = some (markDate e w.cur w.offset) := by
          rcases hs2 hw0 with ⟨hd0, _⟩ | hs3
          · exact absurd hd0 hne1
          · exact hs3
        rw [hstart] at hst
        rw [hstart2] at hst
        have hmd : markDate e fb o = markDate e w.cur w.offset := by
          have := hst; simp only [Option.some.injEq] at this; exact this.symm
        rw [hmd]
        unfold markDate
        by_cases hopos : w.offset > 0
        · simp only [hopos, if_true]
          have hub := bookResources_team_usedBefore e wf σ t w sel hinv ha hsel hteam hnd hclean hopos hw0 rl hrlmem
            (by rw [hent rl hrlmem]; simp)
          have htsl : taskSecs ((bookResources e σ t w).1.led.get rl w.cur) t = a := by
            unfold taskSecs; rw [hent rl hrlmem]; rfl
          rw [htsl] at hub
          have hneedpos : 0 ≤ ((e.taskD t).effort - w.done) / ((e.resD rl).eff / 3600) := by
            rw [← hneed]
            have := fe.1
            grind
          have hfl : w.offset.floor ≤ (((bookResources e σ t w).1.led.get rl w.cur).used - a +
              ((e.taskD t).effort - w.done) / ((e.resD rl).eff / 3600)).floor :=
            Rat.floor_monotone (by grind)
          have := (roundHalfEven_bounds (((bookResources e σ t w).1.led.get rl w.cur).used - a +
              ((e.taskD t).effort - w.done) / ((e.resD rl).eff / 3600))).1
          omega
        · simp only [hopos, if_false]
          omega

theorem walkLoop_framedT2 (e : Env) (wf : WF e) (t : Nat) (sel : List Nat) (η : Rat) (r : Nat) (hr : r ∈ sel)
    (fuel : Nat) (σ : St) (w : Walk) (vis : List Int)
    (hinv : Inv e σ) (hlf : (e.taskD t).leaf = true) (hw : WalkOk e t w)
    (ha : (e.taskD t).hasAlloc = true) (hm : (e.taskD t).milestone = false)
    (hsel : selectedOf e σ t w = sel) (hteam : isTeam e t sel = true) (hnd : sel.Nodup)
    (heff : ∀ r ∈ sel, (e.resD r).eff = η) (hη : 0 < η)
    (hlt : w.done < (e.taskD t).effort) (hpos : 0 < (e.taskD t).effort)
    (h : FInvT e σ t sel η r w vis) (hok : (walkLoop e t true fuel σ w).2.2 = true) :
    Framed e (walkLoop e t true fuel σ w).1 t r ∧ Ordered (walkLoop e t true fuel σ w).1 t := by
  induction fuel generalizing σ w vis with
  | zero => simp [walkLoop] at hok
  | succ f ih =>
    have hs := scheduleSlot_inv e σ t w wf hinv hlf hw
    have hsa := scheduleSlot_tacc e wf σ t sel η true w vis hinv hlf hw ha hm hsel hteam hnd heff hη hlt hpos h.acc
    have hsf := scheduleSlot_finvT2 e wf σ t sel η r hr w vis hinv hlf hw ha hm hsel hteam hnd heff hη hlt hpos h
    unfold walkLoop at hok ⊢
    simp only [] at hok ⊢
    by_cases hc : (scheduleSlot e σ t w).2.2 = true
    · simp only [hc, Bool.not_true, Bool.false_eq_true, if_false] at hok ⊢
      obtain ⟨_, hsel', hlt'⟩ := hsa.1 hc
      have hw1 := hs.2 hc
      by_cases hout : ((advance true w (scheduleSlot e σ t w).2.1).cur < 0 || (advance true w (scheduleSlot e σ t w).2.1).cur > e.upper) = true
      · simp only [hout, if_true] at hok
        exact Bool.noConfusion hok
      · simp only [hout, Bool.false_eq_true, if_false] at hok ⊢
        exact ih _ _ _ hs.1 (walkOk_advance e t wf _ _ _ hw1)
          (selectedOf_some e _ t _ sel hsel') hlt' (hsf.1 hc) hok
    · have hc' : (scheduleSlot e σ t w).2.2 = false := by simpa using hc
      simp only [hc', Bool.not_false, if_true] at hok ⊢
      exact hsf.2 hc'

/-- one forward team task: framed and ordered -/
theorem scheduleTask_framedT2 (e : Env) (wf : WF e) (σ : St) (t : Nat) (sel : List Nat) (η : Rat) (r : Nat) (hr : r ∈ sel)
    (hinv : Inv e σ) (hel : TeamElig e t sel η) (hb : t < σ.ts.size) (hf : (σ.tst t).forward = true)
    (hnd : (σ.tst t).done = false) (hclean : ∀ m ∈ sel, ∀ i, usageOf (σ.led.get m i).usage t = none)
    (hok : (scheduleTask e σ t).2 = true) : Framed e (scheduleTask e σ t).1 t r ∧ Ordered (scheduleTask e σ t).1 t := by
  have hpos := hel.effort
  have hpc : preStartCursor e σ t (initCursor e σ t).1 = (initCursor e σ t).1 := by
    unfold preStartCursor; simp [hel.alloc]
  have hpt : preStartT e σ t (initCursor e σ t).1 = σ.tst t := by
    unfold preStartT; simp [hel.alloc]
  have hoff := initCursor_off e σ t wf
  unfold scheduleTask at hok ⊢
  simp only [hnd, Bool.false_eq_true, if_false, hpc, hpt, hf] at hok ⊢
  have h0 : Inv e (σ.setT t (σ.tst t)) := inv_setT _ _ hinv
  by_cases hout : ((initCursor e σ t).1 < 0 || (initCursor e σ t).1 > e.upper) = true
  · simp only [hout, if_true] at hok
    exact Bool.noConfusion hok
  · simp only [hout, Bool.false_eq_true, if_false] at hok ⊢
    have hw : WalkOk e t { cur := (initCursor e σ t).1, offset := (initCursor e σ t).2 } :=
      ⟨hoff.1, hoff.2, wf.effort_nonneg t⟩
    have hacc : TAcc e (σ.setT t (σ.tst t)) t sel η true
        { cur := (initCursor e σ t).1, offset := (initCursor e σ t).2 } [] :=
      ⟨fun m hm i _ => hclean m hm i, fun i hi => absurd hi List.not_mem_nil,
       fun m _ => by show (0 : Rat) = sumOver _ m t [] / 3600 * η; simp only [sumOver]; grind, List.nodup_nil,
       fun m hm m' hm' i => by
         show usageOf (σ.led.get m i).usage t = usageOf (σ.led.get m' i).usage t
         rw [hclean m hm i, hclean m' hm' i]⟩
    have hfi : FInvT e (σ.setT t (σ.tst t)) t sel η r { cur := (initCursor e σ t).1, offset := (initCursor e σ t).2 } [] := by
      refine ⟨hacc, by rw [size_setT]; exact hb, by rw [tst_setT_same _ _ _ hb]; exact hf, Rat.le_refl,
        ⟨fun _ i hi => absurd hi List.not_mem_nil, fun hne => absurd rfl hne⟩⟩
    have hs0 : selectedOf e (σ.setT t (σ.tst t)) t { cur := (initCursor e σ t).1, offset := (initCursor e σ t).2 } = sel := by
      unfold selectedOf; exact hel.pick _ _
    by_cases hfin : (walkLoop e t true (e.size.toNat + 3) (σ.setT t (σ.tst t))
        { cur := (initCursor e σ t).1, offset := (initCursor e σ t).2 }).2.2 = true
    · simp only [hfin, Bool.not_true, Bool.false_eq_true, if_false] at hok ⊢
      obtain ⟨hfr, ⟨s0, v0, hs0', hv0', hle0⟩⟩ := walkLoop_framedT2 e wf t sel η r hr _ _ _ [] h0 hel.leaf hw hel.alloc hel.nomile hs0
        hel.isTeam hel.nodup hel.eff hel.effpos hpos hpos hfi hfin
      have hsz : t < (walkLoop e t true (e.size.toNat + 3) (σ.setT t (σ.tst t))
          { cur := (initCursor e σ t).1, offset := (initCursor e σ t).2 }).1.ts.size := by
        rw [(walkLoop_frame e t true _ _ _).2.2.2.2, size_setT]; exact hb
      obtain ⟨fb, last, h1, h2, h3, h4, ⟨v, hv, hv1, hv2⟩, ⟨u, hu, hu1, hu2⟩⟩ := hfr
      refine ⟨⟨fb, last, h1, h2, h3, h4, ⟨v, ?_, hv1, hv2⟩, ⟨u, ?_, hu1, hu2⟩⟩, ⟨s0, v0, ?_, ?_, hle0⟩⟩
      · rw [tst_setT_same _ _ _ hsz]
        unfold finalT
        simp only [if_true, hv, Option.isNone_some, Bool.false_eq_true, if_false]
      · rw [tst_setT_same _ _ _ hsz]
        unfold finalT
        simp only [if_true, hv, Option.isNone_some, Bool.false_eq_true, if_false]
        exact hu
      · rw [tst_setT_same _ _ _ hsz]
        unfold finalT
        simp only [if_true, hs0', Option.isNone_some, Bool.false_eq_true, if_false]
      · rw [tst_setT_same _ _ _ hsz]
        unfold finalT
        simp only [if_true, hs0', Option.isNone_some, Bool.false_eq_true, if_false]
        exact hv0'
    · have hfin' : (walkLoop e t true (e.size.toNat + 3) (σ.setT t (σ.tst t))
        { cur := (initCursor e σ t).1, offset := (initCursor e σ t).2 }).2.2 = false := by simpa using hfin
      simp only [hfin', Bool.not_false, if_true] at hok
      exact Bool.noConfusion hok

/-- one backward team task: framed and ordered -/
theorem scheduleTask_framed_backT2 (e : Env) (wf : WF e) (σ : St) (t : Nat) (sel : List Nat) (η : Rat) (r : Nat) (hr : r ∈ sel)
    (hinv : Inv e σ) (hel : TeamElig e t sel η) (hb : t < σ.ts.size) (hf : (σ.tst t).forward = false)
    (hnd : (σ.tst t).done = false) (hclean : ∀ m ∈ sel, ∀ i, usageOf (σ.led.get m i).usage t = none)
    (hok : (scheduleTask e σ t).2 = true) : Framed e (scheduleTask e σ t).1 t r ∧ Ordered (scheduleTask e σ t).1 t := by
  have hpos := hel.effort
  have hpc : preStartCursor e σ t (initCursor e σ t).1 = (initCursor e σ t).1 := by
    unfold preStartCursor; simp [hf]
  have hpt : preStartT e σ t (initCursor e σ t).1 = σ.tst t := by
    unfold preStartT; simp [hf]
  have hoff := initCursor_off e σ t wf
  unfold scheduleTask at hok ⊢
  simp only [hnd, Bool.false_eq_true, if_false, hpc, hpt, hf] at hok ⊢
  have h0 : Inv e (σ.setT t (σ.tst t)) := inv_setT _ _ hinv
  by_cases hout : ((initCursor e σ t).1 < 0 || (initCursor e σ t).1 > e.upper) = true
  · simp only [hout, if_true] at hok
    exact Bool.noConfusion hok
  · simp only [hout, Bool.false_eq_true, if_false] at hok ⊢
    have hw : WalkOk e t { cur := (initCursor e σ t).1, offset := (initCursor e σ t).2 } :=
      ⟨hoff.1, hoff.2, wf.effort_nonneg t⟩
    have hacc : TAcc e (σ.setT t (σ.tst t)) t sel η false
        { cur := (initCursor e σ t).1, offset := (initCursor e σ t).2 } [] :=
      ⟨fun m hm i _ => hclean m hm i, fun i hi => absurd hi List.not_mem_nil,
       fun m _ => by show (0 : Rat) = sumOver _ m t [] / 3600 * η; simp only [sumOver]; grind, List.nodup_nil,
       fun m hm m' hm' i => by
         show usageOf (σ.led.get m i).usage t = usageOf (σ.led.get m' i).usage t
         rw [hclean m hm i, hclean m' hm' i]⟩
    have hbi : BInvT e (σ.setT t (σ.tst t)) t sel η r { cur := (initCursor e σ t).1, offset := (initCursor e σ t).2 } [] := by
      refine ⟨hacc, by rw [size_setT]; exact hb, by rw [tst_setT_same _ _ _ hb]; exact hf,
        ⟨fun _ i hi => absurd hi List.not_mem_nil, fun fb hfb => by simp at hfb⟩⟩
    have hs0 : selectedOf e (σ.setT t (σ.tst t)) t { cur := (initCursor e σ t).1, offset := (initCursor e σ t).2 } = sel := by
      unfold selectedOf; exact hel.pick _ _
    by_cases hfin : (walkLoop e t false (e.size.toNat + 3) (σ.setT t (σ.tst t))
        { cur := (initCursor e σ t).1, offset := (initCursor e σ t).2 }).2.2 = true
    · simp only [hfin, Bool.not_true, Bool.false_eq_true, if_false] at hok ⊢
      obtain ⟨lo, fb, hfbw, hle, hlone, hfbne, hall, ⟨v, hv, hv1, hv2⟩⟩ :=
        walkLoop_back_doneT e wf t sel η r hr _ _ _ [] h0 hel.leaf hw hel.alloc hel.nomile hs0 hel.isTeam hel.nodup
          hel.eff hel.effpos hpos hpos hbi hfin
      have hsz : t < (walkLoop e t false (e.size.toNat + 3) (σ.setT t (σ.tst t))
          { cur := (initCursor e σ t).1, offset := (initCursor e σ t).2 }).1.ts.size := by
        rw [(walkLoop_frame e t false _ _ _).2.2.2.2, size_setT]; exact hb
      have hdec : decide ((e.taskD t).effort > 0) = true := by simpa using hpos
      have hord : v ≤ e.time (fb + 1) := Int.le_trans hv2 (time_mono e wf _ _ (by omega))
      refine ⟨⟨lo, fb, hle, hlone, hfbne, hall, ⟨v, ?_, hv1, hv2⟩, ⟨e.time (fb + 1), ?_, ?_, Int.le_refl _⟩⟩,
        ⟨v, e.time (fb + 1), ?_, ?_, hord⟩⟩
      · rw [tst_setT_same _ _ _ hsz]
        unfold finalT
        simp only [Bool.false_eq_true, if_false, hv, Option.isNone_some, hdec, Bool.true_or, if_true]
      · rw [tst_setT_same _ _ _ hsz]
        unfold finalT
        simp only [Bool.false_eq_true, if_false, hv, Option.isNone_some, hdec, Bool.true_or, if_true, hfbw, Option.getD_some]
      · exact time_mono e wf _ _ (by omega)
      · rw [tst_setT_same _ _ _ hsz]
        unfold finalT
        simp only [Bool.false_eq_true, if_false, hv, Option.isNone_some, hdec, Bool.true_or, if_true]
      · rw [tst_setT_same _ _ _ hsz]
        unfold finalT
        simp only [Bool.false_eq_true, if_false, hv, Option.isNone_some, hdec, Bool.true_or, if_true, hfbw, Option.getD_some]
    · have hfin' : (walkLoop e t false (e.size.toNat + 3) (σ.setT t (σ.tst t))
        { cur := (initCursor e σ t).1, offset := (initCursor e σ t).2 }).2.2 = false := by simpa using hfin
      simp only [hfin', Bool.not_false, if_true] at hok
      exact Bool.noConfusion hok

/-! ### the pick loop -/

def DoneOrderedT (e : Env) (σ : St) : Prop :=
  ∀ t sel η, TeamElig e t sel η → (σ.tst t).done = true → Ordered σ t

structure OrdInvT (e : Env) (σ : St) (tasks : List Nat) : Prop where
  inv : Inv e σ
  nodup : tasks.Nodup
  leaf : ∀ t ∈ tasks, (e.taskD t).leaf = true
  inrange : ∀ t ∈ tasks, t < σ.ts.size
  pending : ∀ t ∈ tasks, (σ.tst t).done = false ∧ ∀ r i, usageOf (σ.led.get r i).usage t = none
  ok : DoneOrderedT e σ

theorem ordInvT_step (e : Env) (wf : WF e) (σ : St) (tasks : List Nat) (t0 : Nat) (h : OrdInvT e σ tasks)
    (hmem : t0 ∈ tasks) : OrdInvT e (updateContainers e (scheduleTask e σ t0).1) (tasks.erase t0) := by
  have hlf0 := h.leaf t0 hmem
  have hinv1 := scheduleTask_inv e σ t0 wf h.inv hlf0
  have hsame : ∀ x, (e.taskD x).leaf = true → x ≠ t0 →
      (updateContainers e (scheduleTask e σ t0).1).tst x = σ.tst x := by
    intro x hx hne
    rw [updateContainers_leaf e _ x hx, scheduleTask_other e σ t0 x hne]
  refine ⟨updateContainers_inv e _ hinv1, h.nodup.erase t0, fun t ht => h.leaf t (List.mem_of_mem_erase ht), ?_, ?_, ?_⟩
  · intro t ht
    rw [updateContainers_size, scheduleTask_size]; exact h.inrange t (List.mem_of_mem_erase ht)
  · intro t ht
    have htm : t ∈ tasks := List.mem_of_mem_erase ht
    have hne : t ≠ t0 := fun heq => by
      rw [heq] at ht; exact (List.Nodup.not_mem_erase h.nodup) ht
    obtain ⟨hd, hc⟩ := h.pending t htm
    refine ⟨by rw [hsame t (h.leaf t htm) hne]; exact hd, fun r i => ?_⟩
    rw [updateContainers_led, scheduleTask_same e σ t0 t (Ne.symm hne) r i]
    exact hc r i
  · intro t sel η hel hd
    by_cases heq : t = t0
    · subst heq
      rw [updateContainers_leaf e _ t hel.leaf] at hd
      obtain ⟨hnd, hclean⟩ := h.pending t hmem
      have hok := scheduleTask_done e σ t hnd hd
      have hne' : sel ≠ [] := by
        intro hs; have := hel.many; rw [hs] at this; simp at this
      obtain ⟨r, hr⟩ := List.exists_mem_of_ne_nil sel hne'
      have hord : Ordered (scheduleTask e σ t).1 t := by
        cases hfw : (σ.tst t).forward with
        | true =>
          exact (scheduleTask_framedT2 e wf σ t sel η r hr h.inv hel (h.inrange t hmem) hfw hnd (fun m _ => hclean m) hok).2
        | false =>
          exact (scheduleTask_framed_backT2 e wf σ t sel η r hr h.inv hel (h.inrange t hmem) hfw hnd (fun m _ => hclean m) hok).2
      exact Ordered.of_tst (updateContainers_leaf e _ t hel.leaf) hord
    · have hts := hsame t hel.leaf heq
      rw [hts] at hd
      exact Ordered.of_tst hts (h.ok t sel η hel hd)

theorem DoneOrderedT.of_eq {e : Env} {σ σ' : St} (ht : σ'.ts = σ.ts) (h : DoneOrderedT e σ) : DoneOrderedT e σ' := by
  unfold DoneOrderedT Ordered St.tst at *
  rw [ht]; exact h

theorem pickLoop_doneOrderedT (e : Env) (wf : WF e) (fuel : Nat) (tasks failed : List Nat) (σ : St)
    (h : OrdInvT e σ tasks) : DoneOrderedT e (pickLoop e fuel tasks failed σ).1 := by
  induction fuel generalizing tasks failed σ with
  | zero => exact h.ok
  | succ f ih =>
    unfold pickLoop
    split
    · exact h.ok
    · split
      · rename_i t0 hfind
        exact ih _ _ _ (ordInvT_step e wf σ tasks t0 h (List.mem_of_find?_eq_some hfind))
      · split
        · exact DoneOrderedT.of_eq (σ := σ) rfl h.ok
        · exact h.ok

/-- **start ≤ end for teams, end to end**: after scheduling any well-formed project, every completed team task whose members
    share one efficiency has a reported start and a reported end with start ≤ end (both modes) -/
theorem runScenario_orderedT (e : Env) (wf : WF e) : DoneOrderedT e (runScenario e) := by
  unfold runScenario
  have hprep : Inv e (prepare e (initState e)) := prepare_inv e _ (inv_init e wf)
  have hd : DoneFalse (prepare e (initState e)) := prepare_doneFalse e _ (doneFalse_init e)
  have hsz : (prepare e (initState e)).ts.size = e.tasks.size := by rw [prepare_size, initState_size]
  have h2 : OrdInvT e (preLoop e (prepare e (initState e))) (todoOf e (preLoop e (prepare e (initState e)))) := by
    refine ⟨preLoop_inv e _ hprep, todoOf_nodup e _, todoOf_leaf e _, ?_, ?_, ?_⟩
    · intro t ht; rw [preLoop_size, hsz]; exact (todoOf_mem e _ t ht).1
    · intro t _
      refine ⟨preLoop_doneFalse e _ hd t, fun r i => ?_⟩
      rw [preLoop_led, prepare_led]; simp [initState, Ledger.get_empty, usageOf]
    · intro t sel η _ hdone
      rw [preLoop_doneFalse e _ hd t] at hdone
      exact Bool.noConfusion hdone
  have h3 := pickLoop_doneOrderedT e wf ((todoOf e (preLoop e (prepare e (initState e)))).length + 1)
    (todoOf e (preLoop e (prepare e (initState e)))) [] _ h2
  have h4 : DoneOrderedT e (scheduleScenario e (prepare e (initState e))) := by
    unfold scheduleScenario
    simp only []
    split
    · exact h3
    · exact DoneOrderedT.of_eq (σ := (pickLoop e ((todoOf e (preLoop e (prepare e (initState e)))).length + 1)
        (todoOf e (preLoop e (prepare e (initState e)))) [] (preLoop e (prepare e (initState e)))).1) rfl h3
  intro t sel η hel hdn
  rw [finishScenario_leafT e _ t hel.leaf] at hdn
  exact Ordered.of_tst (finishScenario_leafT e _ t hel.leaf) (h4 t sel η hel hdn)

end SP
