import Proofs.DepGlobal
/-!
C04, backward mode, one task: the end a backward task is given is at or before its deadline, and the deadline computed
from the successors is at or before every scheduled successor's start minus the gap it asks for.
-/
namespace SP

theorem bookResources_firstBooked (e : Env) (σ : St) (t : Nat) (w : Walk) :
    (bookResources e σ t w).2.firstBooked = w.firstBooked := by
  unfold bookResources
  split
  · rfl
  · simp only []
    split
    · rfl
    · split
      · rfl
      · split <;> rfl

theorem scheduleSlot_firstBooked (e : Env) (σ : St) (t : Nat) (w : Walk) :
    (scheduleSlot e σ t w).2.1.firstBooked = w.firstBooked := by
  unfold scheduleSlot
  simp only []
  split
  · split
    · split <;> rfl
    · split <;> rfl
  · have := bookResources_firstBooked e σ t w
    split <;> exact this

/-- along a backward walk the cursor never exceeds the slot it started in, and the first booked slot, once known, is one
    of the visited slots -/
theorem walkLoop_back_firstBooked (e : Env) (t : Nat) (c1 : Int) (fuel : Nat) (σ : St) (w : Walk)
    (hc : w.cur ≤ c1) (hfb : ∀ fb, w.firstBooked = some fb → fb ≤ c1) :
    ∀ fb, (walkLoop e t false fuel σ w).2.1.firstBooked = some fb → fb ≤ c1 := by
  induction fuel generalizing σ w with
  | zero => unfold walkLoop; exact hfb
  | succ f ih =>
    unfold walkLoop
    simp only []
    have hcur := scheduleSlot_cur e σ t w
    have hfbs := scheduleSlot_firstBooked e σ t w
    split
    · intro fb hfb'
      simp only [] at hfb'
      split at hfb'
      · have : fb = (scheduleSlot e σ t w).2.1.cur := by simpa using hfb'.symm
        rw [this, hcur]; exact hc
      · rw [hfbs] at hfb'; exact hfb fb hfb'
    · have hadv_fb : ∀ fb, (advance false w (scheduleSlot e σ t w).2.1).firstBooked = some fb → fb ≤ c1 := by
        intro fb hfb'
        unfold advance at hfb'
        simp only [] at hfb'
        split at hfb'
        · have : fb = (scheduleSlot e σ t w).2.1.cur := by simpa using hfb'.symm
          rw [this, hcur]; exact hc
        · rw [hfbs] at hfb'; exact hfb fb hfb'
      split
      · exact hadv_fb
      · apply ih
        · rw [advance_cur, hcur]; simp only [Bool.false_eq_true, if_false]; omega
        · exact hadv_fb

end SP

namespace SP

theorem backToWork_le (e : Env) (p : Int → Bool) (fuel : Nat) (c : Int) : backToWork e p fuel c ≤ c := by
  induction fuel generalizing c with
  | zero => exact Int.le_refl _
  | succ f ih =>
    unfold backToWork
    split
    · have := ih (c - 1); omega
    · exact Int.le_refl _

/-- the deadline of a backward task in state `σ`: its own end, else the one computed from its successors -/
def deadlineOf (e : Env) (σ : St) (t : Nat) : Int :=
  match (σ.tst t).stop with
  | some x => x
  | none => latestEnd e σ t

theorem initCursor_backward (e : Env) (σ : St) (t : Nat) (hf : (σ.tst t).forward = false) :
    (initCursor e σ t).1 ≤ e.idx (deadlineOf e σ t) - 1 := by
  unfold initCursor deadlineOf
  simp only [hf, Bool.false_eq_true, if_false]
  split <;> exact backToWork_le e _ _ _

theorem idx_time_le (e : Env) (wf : WF e) (x : Int) (hx : e.start ≤ x) : e.time (e.idx x) ≤ x := by
  have hfl := (Board.mk e.start e.stop e.G).rawIdx_floor wf.G_pos (t := x) hx
  simp only [Board.time, Board.rawIdx] at hfl
  unfold Env.time Env.idx
  omega

/-- a slot index at least 1 means the instant lies at or after the project start -/
theorem start_le_of_idx_pos (e : Env) (wf : WF e) (x : Int) (h : 1 ≤ e.idx x) : e.start ≤ x := by
  unfold Env.idx at h
  by_cases hc : e.start ≤ x
  · exact hc
  · exfalso
    have hneg : x - e.start < 0 := by omega
    have : Int.tdiv (x - e.start) e.G ≤ 0 := by
      have h1 : x - e.start = -(e.start - x) := by omega
      rw [h1, Int.neg_tdiv, Int.tdiv_eq_ediv_of_nonneg (by omega)]
      have := Int.ediv_nonneg (show 0 ≤ e.start - x by omega) (Int.le_of_lt wf.G_pos)
      omega
    omega

/-- **one backward task**: a successful `scheduleTask` of an effort task in backward mode leaves it with an end at or
    before its deadline -/
theorem scheduleTask_stop_le (e : Env) (wf : WF e) (σ : St) (t : Nat)
    (hb : t < σ.ts.size) (hf : (σ.tst t).forward = false) (hpos : 0 < (e.taskD t).effort)
    (hnd : (σ.tst t).done = false) (hok : (scheduleTask e σ t).2 = true) :
    ∃ v, ((scheduleTask e σ t).1.tst t).stop = some v ∧ v ≤ deadlineOf e σ t := by
  have hic := initCursor_backward e σ t hf
  have hpc : preStartCursor e σ t (initCursor e σ t).1 = (initCursor e σ t).1 := by
    unfold preStartCursor; simp [hf]
  unfold scheduleTask at hok ⊢
  simp only [hnd, Bool.false_eq_true, if_false, hpc, hf] at hok ⊢
  by_cases hout : ((initCursor e σ t).1 < 0 || (initCursor e σ t).1 > e.upper) = true
  · simp only [hout, if_true] at hok
    exact Bool.noConfusion hok
  · simp only [hout, Bool.false_eq_true, if_false] at hok ⊢
    have hc1 : 0 ≤ (initCursor e σ t).1 := by
      simp only [Bool.or_eq_true, decide_eq_true_eq, not_or, Int.not_lt] at hout
      exact hout.1
    by_cases hfin : (walkLoop e t false (e.size.toNat + 3) (σ.setT t (preStartT e σ t (initCursor e σ t).1))
        { cur := (initCursor e σ t).1, offset := (initCursor e σ t).2 }).2.2 = true
    · simp only [hfin, Bool.not_true, Bool.false_eq_true, if_false] at hok ⊢
      have hsz : t < (walkLoop e t false (e.size.toNat + 3) (σ.setT t (preStartT e σ t (initCursor e σ t).1))
          { cur := (initCursor e σ t).1, offset := (initCursor e σ t).2 }).1.ts.size := by
        rw [(walkLoop_frame e t false _ _ _).2.2.2.2, size_setT]; exact hb
      have hfb := walkLoop_back_firstBooked e t (initCursor e σ t).1 (e.size.toNat + 3)
        (σ.setT t (preStartT e σ t (initCursor e σ t).1)) { cur := (initCursor e σ t).1, offset := (initCursor e σ t).2 }
        (Int.le_refl _) (fun fb h => by simp at h)
      rw [tst_setT_same _ _ _ hsz]
      unfold finalT
      have hdec : decide ((e.taskD t).effort > 0) = true := by simpa using hpos
      simp only [Bool.false_eq_true, if_false, hdec, Bool.true_or, if_true]
      refine ⟨_, rfl, ?_⟩
      -- endSlot ≤ c1 ≤ idx(deadline) - 1
      have hend : ((walkLoop e t false (e.size.toNat + 3) (σ.setT t (preStartT e σ t (initCursor e σ t).1))
          { cur := (initCursor e σ t).1, offset := (initCursor e σ t).2 }).2.1.firstBooked.getD (initCursor e σ t).1) ≤ (initCursor e σ t).1 := by
        cases hfbv : (walkLoop e t false (e.size.toNat + 3) (σ.setT t (preStartT e σ t (initCursor e σ t).1))
          { cur := (initCursor e σ t).1, offset := (initCursor e σ t).2 }).2.1.firstBooked with
        | none => simp
        | some fb => simpa using hfb fb hfbv
      have hidx : 1 ≤ e.idx (deadlineOf e σ t) := by omega
      have hst := start_le_of_idx_pos e wf _ hidx
      have hfl := idx_time_le e wf _ hst
      have hm := time_mono e wf _ _ (show ((walkLoop e t false (e.size.toNat + 3) (σ.setT t (preStartT e σ t (initCursor e σ t).1))
          { cur := (initCursor e σ t).1, offset := (initCursor e σ t).2 }).2.1.firstBooked.getD (initCursor e σ t).1) + 1 ≤ e.idx (deadlineOf e σ t) by omega)
      omega
    · have hfin' : (walkLoop e t false (e.size.toNat + 3) (σ.setT t (preStartT e σ t (initCursor e σ t).1))
        { cur := (initCursor e σ t).1, offset := (initCursor e σ t).2 }).2.2 = false := by simpa using hfin
      simp only [hfin', Bool.not_false, if_true] at hok
      exact Bool.noConfusion hok

end SP

namespace SP

theorem foldl_step_le {α : Type} (f : Int → α → Int) (l : List α) (init : Int) (hdec : ∀ acc x, f acc x ≤ acc) :
    l.foldl f init ≤ init ∧ ∀ x ∈ l, ∀ y, (∀ acc, f acc x ≤ y) → l.foldl f init ≤ y := by
  induction l generalizing init with
  | nil => exact ⟨Int.le_refl _, fun x hx => absurd hx List.not_mem_nil⟩
  | cons a as ih =>
    simp only [List.foldl_cons]
    obtain ⟨h1, h2⟩ := ih (f init a)
    refine ⟨Int.le_trans h1 (hdec init a), fun x hx y hy => ?_⟩
    rcases List.mem_cons.mp hx with h | h
    · subst h; exact Int.le_trans h1 (hy init)
    · exact h2 x h y hy

/-- the gap a successor `s` asks towards `t` (or an enclosing container of `t`): the largest one among its
    finish-to-start edges with options -/
def succGap (e : Env) (t s : Nat) : Int :=
  (e.taskD s).allDeps.foldl (fun m dp =>
    if dp.hasOpts && (e.taskChain t).contains dp.target && !dp.onstart then max m dp.gap else m) 0

/-- **the backward deadline respects every scheduled successor**: it is at or before the successor's start minus the
    gap the successor asks for -/
theorem latestEnd_le_succ (e : Env) (σ : St) (t s : Nat) (hs : s ∈ successors e t) (ss : Int)
    (hss : (σ.tst s).start = some ss) : latestEnd e σ t ≤ ss - succGap e t s := by
  unfold latestEnd
  simp only []
  refine (foldl_step_le _ (successors e t) _ ?_).2 s hs _ ?_
  · intro acc x
    split
    · exact Int.le_refl _
    · exact Int.min_le_left _ _
  · intro acc
    simp only [hss]
    exact Int.min_le_right _ _

/-- … and the project end -/
theorem latestEnd_le_stop (e : Env) (σ : St) (t : Nat) : latestEnd e σ t ≤ e.stop := by
  unfold latestEnd
  simp only []
  have hmin : ∀ {α : Type} (f : Int → α → Int) (l : List α) (init : Int), (∀ acc x, f acc x ≤ acc) → l.foldl f init ≤ init := by
    intro α f l
    induction l with
    | nil => intro init _; exact Int.le_refl _
    | cons x xs ih => intro init hf; exact Int.le_trans (ih (f init x) hf) (hf init x)
  refine Int.le_trans (hmin _ _ _ ?_) (hmin _ _ _ ?_)
  · intro acc s; split
    · exact Int.le_refl _
    · exact Int.min_le_left _ _
  · intro acc dp; split
    · split
      · exact Int.min_le_left _ _
      · exact Int.le_refl _
    · exact Int.le_refl _

end SP
