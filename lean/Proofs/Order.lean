import Model.Sched
/-! Pick order of the scenario loop: priority-sorted work list, first ready task wins. -/
namespace SP

theorem prioLe_total (e : Env) (a b : Nat) : (prioLe e a b || prioLe e b a) = true := by
  unfold prioLe
  simp only [Bool.or_eq_true, Bool.and_eq_true, decide_eq_true_eq, beq_iff_eq]
  by_cases h1 : (e.taskD a).prio > (e.taskD b).prio
  · exact Or.inl (Or.inl h1)
  · by_cases h2 : (e.taskD b).prio > (e.taskD a).prio
    · exact Or.inr (Or.inl h2)
    · have : (e.taskD a).prio = (e.taskD b).prio := by omega
      by_cases h3 : a ≤ b
      · exact Or.inl (Or.inr ⟨this, h3⟩)
      · exact Or.inr (Or.inr ⟨this.symm, by omega⟩)

theorem prioLe_trans (e : Env) (a b c : Nat) (h1 : prioLe e a b = true) (h2 : prioLe e b c = true) :
    prioLe e a c = true := by
  unfold prioLe at *
  simp only [Bool.or_eq_true, Bool.and_eq_true, decide_eq_true_eq, beq_iff_eq] at *
  rcases h1 with h1 | ⟨h1, h1'⟩ <;> rcases h2 with h2 | ⟨h2, h2'⟩
  · exact Or.inl (by omega)
  · exact Or.inl (by omega)
  · exact Or.inl (by omega)
  · exact Or.inr ⟨by omega, by omega⟩

/-- the work list is sorted by (priority descending, declaration order ascending) -/
theorem todo_sorted (e : Env) (l : List Nat) : (l.mergeSort (prioLe e)).Pairwise (fun a b => prioLe e a b = true) :=
  List.pairwise_mergeSort (prioLe_trans e) (prioLe_total e) l

/-- a task with strictly lowest priority is the last element of the sorted work list -/
theorem lowest_is_last (e : Env) (l : List Nat) (L : Nat) (hL : L ∈ l) (hnd : l.Nodup)
    (hlow : ∀ x ∈ l, x ≠ L → (e.taskD x).prio > (e.taskD L).prio) :
    ∃ pre, l.mergeSort (prioLe e) = pre ++ [L] := by
  have hs := todo_sorted e l
  have hmem : L ∈ l.mergeSort (prioLe e) := List.mem_mergeSort.mpr hL
  have hnd' : (l.mergeSort (prioLe e)).Nodup := (List.mergeSort_perm l (prioLe e)).nodup_iff.mpr hnd
  obtain ⟨pre, post, hsplit⟩ := List.append_of_mem hmem
  refine ⟨pre, ?_⟩
  rw [hsplit]
  cases post with
  | nil => rfl
  | cons y ys =>
    exfalso
    rw [hsplit] at hs hnd'
    have hLy : prioLe e L y = true := by
      have := List.pairwise_append.mp hs
      have h2 := (List.pairwise_cons.mp this.2.1).1
      exact h2 y List.mem_cons_self
    have hyne : y ≠ L := by
      intro hy
      have := (List.nodup_append.mp hnd').2.1
      have h3 := (List.nodup_cons.mp this).1
      exact h3 (hy ▸ List.mem_cons_self)
    have hyl : y ∈ l := by
      have : y ∈ l.mergeSort (prioLe e) := by rw [hsplit]; simp
      exact List.mem_mergeSort.mp this
    have := hlow y hyl hyne
    unfold prioLe at hLy
    simp only [Bool.or_eq_true, Bool.and_eq_true, decide_eq_true_eq, beq_iff_eq] at hLy
    omega

/-- of two tasks in the work list the one with the strictly higher priority comes first -/
theorem higher_first (e : Env) (l : List Nat) (a b : Nat) (pre mid post : List Nat)
    (hsplit : l.mergeSort (prioLe e) = pre ++ b :: mid ++ a :: post) : (e.taskD b).prio ≥ (e.taskD a).prio := by
  have hs := todo_sorted e l
  rw [hsplit] at hs
  have h1 : (b :: mid ++ a :: post).Pairwise (fun a b => prioLe e a b = true) := by
    have := List.pairwise_append.mp (by simpa [List.append_assoc] using hs)
    exact this.2.1
  have := (List.pairwise_cons.mp h1).1 a (by simp)
  unfold prioLe at this
  simp only [Bool.or_eq_true, Bool.and_eq_true, decide_eq_true_eq, beq_iff_eq] at this
  omega

/-- the loop picks the first ready task of the list: every task before it is not ready -/
theorem picks_first_ready (e : Env) (σ : St) (tasks : List Nat) (t : Nat)
    (h : tasks.find? (fun t => ready e σ t) = some t) :
    ready e σ t = true ∧ ∃ pre post, tasks = pre ++ t :: post ∧ ∀ x ∈ pre, ready e σ x = false := by
  have := List.find?_eq_some_iff_append.mp h
  obtain ⟨hr, pre, post, hsplit, hpre⟩ := this
  exact ⟨by simpa using hr, pre, post, hsplit, by intro x hx; simpa using hpre x hx⟩

end SP
