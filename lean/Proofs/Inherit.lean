import Model
/-!
Top-down inheritance (`inheritOpt`), characterised element by element: a node's effective value is its own if it has one, else
the effective value of its parent (parents precede children).  Used for "the nearest declaration wins" (C02, finding F55).
-/
namespace SP

/-- one step of `inheritOpt` -/
def inhStep {α : Type} (acc : Array (Option α)) (po : Option Nat × Option α) : Array (Option α) :=
  acc.push (match po.2 with
    | some v => some v
    | none => po.1.bind (fun i => (acc[i]?).join))

theorem inheritOpt_eq_foldl {α : Type} (parents : List (Option Nat)) (own : List (Option α)) :
    inheritOpt parents own = (parents.zip own).foldl inhStep #[] := rfl

theorem inh_fold_spec {α : Type} (l : List (Option Nat × Option α)) (acc : Array (Option α)) :
    (l.foldl inhStep acc).size = acc.size + l.length ∧
    (∀ k, k < acc.size → (l.foldl inhStep acc)[k]? = acc[k]?) ∧
    (∀ j (hj : j < l.length), (l.foldl inhStep acc)[acc.size + j]? =
      some (match (l[j]).2 with
        | some v => some v
        | none => (l[j]).1.bind (fun p => if p < acc.size + j then ((l.foldl inhStep acc)[p]?).join else none))) := by
  induction l generalizing acc with
  | nil =>
    refine ⟨by simp, fun k _ => rfl, fun j hj => absurd hj (by simp)⟩
  | cons x xs ih =>
    simp only [List.foldl_cons]
    obtain ⟨h1, h2, h3⟩ := ih (inhStep acc x)
    have hsz : (inhStep acc x).size = acc.size + 1 := by unfold inhStep; simp
    have hpre : ∀ k, k < acc.size → (inhStep acc x)[k]? = acc[k]? := by
      intro k hk; unfold inhStep; rw [Array.getElem?_push]; simp [Nat.ne_of_lt hk]
    refine ⟨by rw [h1, hsz]; simp; omega, ?_, ?_⟩
    · intro k hk
      rw [h2 k (by rw [hsz]; omega), hpre k hk]
    · intro j hj
      cases j with
      | zero =>
        simp only [Nat.add_zero, List.getElem_cons_zero]
        rw [h2 acc.size (by rw [hsz]; omega)]
        have : (inhStep acc x)[acc.size]? = some (match x.2 with
            | some v => some v
            | none => x.1.bind (fun i => (acc[i]?).join)) := by
          unfold inhStep; rw [Array.getElem?_push]; simp
        rw [this]
        congr 1
        cases x.2 with
        | some v => rfl
        | none =>
          simp only []
          cases x.1 with
          | none => rfl
          | some p =>
            simp only [Option.bind_some]
            by_cases hp : p < acc.size
            · simp only [hp, if_true]
              rw [h2 p (by rw [hsz]; omega), hpre p hp]
            · simp only [hp, if_false]
              have : acc[p]? = none := by simp; omega
              rw [this]; rfl
      | succ j =>
        have hj' : j < xs.length := by simpa using hj
        have := h3 j hj'
        rw [hsz] at this
        have e1 : acc.size + 1 + j = acc.size + (j + 1) := by omega
        rw [e1] at this
        simpa using this

/-- **element-wise characterisation of inheritance**: the effective value of node `i` is its own value if it has one, else the
    effective value of its parent — if the parent was declared before it (what the parser produces) -/
theorem inheritOpt_getElem {α : Type} (parents : List (Option Nat)) (own : List (Option α)) (i : Nat)
    (hi : i < (parents.zip own).length) :
    (inheritOpt parents own)[i]? =
      some (match ((parents.zip own)[i]).2 with
        | some v => some v
        | none => ((parents.zip own)[i]).1.bind (fun p => if p < i then ((inheritOpt parents own)[p]?).join else none)) := by
  rw [inheritOpt_eq_foldl]
  have := (inh_fold_spec (parents.zip own) (#[] : Array (Option α))).2.2 i hi
  simpa using this

/-- a node with a value of its own keeps it, whatever its ancestors declare -/
theorem inheritOpt_own {α : Type} (parents : List (Option Nat)) (own : List (Option α)) (i : Nat)
    (hi : i < (parents.zip own).length) (v : α) (hv : ((parents.zip own)[i]).2 = some v) :
    (inheritOpt parents own).getD i none = some v := by
  have := inheritOpt_getElem parents own i hi
  rw [hv] at this
  simp only [Array.getD_eq_getD_getElem?, this]
  rfl

/-- a node without a value of its own takes the effective value of its parent (declared before it) -/
theorem inheritOpt_from_parent {α : Type} (parents : List (Option Nat)) (own : List (Option α)) (i p : Nat)
    (hi : i < (parents.zip own).length) (hn : ((parents.zip own)[i]).2 = none) (hp : ((parents.zip own)[i]).1 = some p)
    (hlt : p < i) :
    (inheritOpt parents own).getD i none = (inheritOpt parents own).getD p none := by
  have := inheritOpt_getElem parents own i hi
  rw [hn, hp] at this
  simp only [Option.bind_some, hlt, if_true] at this
  simp only [Array.getD_eq_getD_getElem?, this]
  cases (inheritOpt parents own)[p]? with
  | none => rfl
  | some o => rfl

end SP
