import Proofs.NoIdleBack
import Proofs.FrameAlt
/-!
C08, backward mode, for tasks with an alternative: on the candidate chosen at the first slot no working, unbooked slot within
the limits is left between the end of the task and its deadline, and the task ends by its deadline.
-/
namespace SP

/-- a backward effort task with one primary and one alternative resource, both leaves -/
structure EligAltB (e : Env) (t r1 r2 : Nat) : Prop where
  el : EligAlt e t r1 r2
  leaf1 : (e.resD r1).leaf = true
  leaf2 : (e.resD r2).leaf = true

def DoneIdleBAlt (e : Env) (σ0 σ : St) : Prop :=
  ∀ t r1 r2, EligAltB e t r1 r2 → (σ.tst t).done = true → (σ.tst t).forward = false →
    ((σ0.tst t).stop = none → Settled e σ t) ∧
    (∃ v, (σ.tst t).stop = some v ∧ v ≤ deadlineG e σ0 σ t) ∧
    ∃ r, (r = r1 ∨ r = r2) ∧ (∃ L, usageOf (σ.led.get r L).usage t ≠ none) ∧ NoIdleBackAt e σ0 σ t r

structure BIdleInvA (e : Env) (σ0 σ : St) (tasks : List Nat) : Prop where
  base : BIdleInv e σ0 σ tasks
  okA : DoneIdleBAlt e σ0 σ

theorem bIdleInvA_step (e : Env) (wf : WF e) (σ0 σ : St) (tasks : List Nat) (t0 : Nat) (hA : BIdleInvA e σ0 σ tasks)
    (hmem : t0 ∈ tasks) (hready : ready e σ t0 = true) :
    BIdleInvA e σ0 (updateContainers e (scheduleTask e σ t0).1) (tasks.erase t0) := by
  refine ⟨bIdleInv_step e wf σ0 σ tasks t0 hA.base hmem hready, ?_⟩
  have h := hA.base
  have hlf0 := h.leaf t0 hmem
  obtain ⟨heq0, hus0, hnd0, hclean0⟩ := h.pending t0 hmem
  have hsame : ∀ x, x ≠ t0 → ((e.taskD x).leaf = true ∨ (σ.tst x).scheduled = true) →
      (updateContainers e (scheduleTask e σ t0).1).tst x = σ.tst x := by
    intro x hne hx
    rw [updateContainers_fixed e _ x (by rw [scheduleTask_other e σ t0 x hne]; exact hx), scheduleTask_other e σ t0 x hne]
  have hsettled : ∀ t, Settled e σ t → Settled e (updateContainers e (scheduleTask e σ t0).1) t ∧
      (∀ dp ∈ (e.taskD t).allDeps, dp.onstart = true →
        ((updateContainers e (scheduleTask e σ t0).1).tst dp.target).start = (σ.tst dp.target).start) ∧
      (∀ s ∈ successors e t, ((updateContainers e (scheduleTask e σ t0).1).tst s).start = (σ.tst s).start) := by
    intro t hst
    have hd : ∀ dp ∈ (e.taskD t).allDeps, dp.onstart = true →
        (updateContainers e (scheduleTask e σ t0).1).tst dp.target = σ.tst dp.target := by
      intro dp hdp ho
      have hxs := hst.1 dp hdp ho
      exact hsame dp.target (fun hx => by rw [hx, hus0] at hxs; exact Bool.noConfusion hxs) (Or.inr hxs)
    have hsu : ∀ s ∈ successors e t, (updateContainers e (scheduleTask e σ t0).1).tst s = σ.tst s := by
      intro s hs
      have hxs := hst.2 s hs
      exact hsame s (fun hx => by rw [hx, hus0] at hxs; exact Bool.noConfusion hxs) (Or.inr hxs)
    exact ⟨⟨fun dp hdp ho => by rw [hd dp hdp ho]; exact hst.1 dp hdp ho, fun s hs => by rw [hsu s hs]; exact hst.2 s hs⟩,
      fun dp hdp ho => by rw [hd dp hdp ho], fun s hs => by rw [hsu s hs]⟩
  intro t r1 r2 hel hd hfw
  by_cases heq : t = t0
  · subst heq
    rw [updateContainers_leaf e _ t hel.el.leaf] at hd hfw
    rw [scheduleTask_self_forward] at hfw
    have hok := scheduleTask_done e σ t hnd0 hd
    have hst : (σ0.tst t).stop = none → Settled e σ t := fun hns =>
      alapReady_settled e σ t hfw (by rw [heq0]; exact hns) hready
    have hdl : deadlineG e σ0 σ t = deadlineOf e σ t := by
      unfold deadlineG deadlineOf; rw [heq0]; cases (σ0.tst t).stop <;> rfl
    have hdc := deadlineG_congr e σ0 σ (updateContainers e (scheduleTask e σ t).1) t (fun hns => (hsettled t (hst hns)).2)
    refine ⟨fun hns => (hsettled t (hst hns)).1, ?_, ?_⟩
    · obtain ⟨v, hv, hle⟩ := scheduleTask_stop_le e wf σ t (h.inrange t hmem) hfw hel.el.effort hnd0 hok
      refine ⟨v, by rw [updateContainers_leaf e _ t hel.el.leaf]; exact hv, ?_⟩
      rw [hdc, hdl]; exact hle
    have key : ∀ r, (e.resD r).leaf = true → r ∈ (e.taskD t).alloc ++ (e.taskD t).alt →
        selectBest e (σ.setT t (σ.tst t)) [r1] [r2] (e.taskD t).effort (initCursor e σ t).1 = [r] →
        (∃ L, usageOf ((updateContainers e (scheduleTask e σ t).1).led.get r L).usage t ≠ none) ∧
        NoIdleBackAt e σ0 (updateContainers e (scheduleTask e σ t).1) t r := by
      intro r hrl hrm hsr
      have hsel1 : selectBest e (σ.setT t (σ.tst t)) (e.taskD t).alloc (e.taskD t).alt (e.taskD t).effort
          (initCursor e σ t).1 = [r] := by rw [hel.el.prim, hel.el.alt]; exact hsr
      refine ⟨?_, ?_⟩
      · obtain ⟨fb, _, _, hfb, _⟩ := scheduleTask_framed_back_sel e wf σ t r h.inv hel.el.leaf hel.el.alloc hel.el.nomile
          hel.el.effort hsel1 (h.inrange t hmem) hfw hnd0 (hclean0 r) hok
        exact ⟨fb, by rw [updateContainers_led]; exact hfb⟩
      intro L hL i hLi hid hon hnl
      rw [hdc] at hid
      rw [hdl] at hid
      rw [updateContainers_led] at hL
      by_cases hic : i ≤ (initCursor e σ t).1
      · have := scheduleTaskB_no_idle_interval_sel e wf σ t r h.inv h.solid hel.el.leaf hel.el.alloc hel.el.nomile hel.el.effort
          hsel1 hfw hnd0 (hclean0 r) hrl hok L hL i hLi hic hon hnl
        rcases this with h1 | h1
        · left; unfold Has at h1 ⊢; rw [updateContainers_led]; exact h1
        · right
          exact exhausted_closed_step (fun lid ro hr => closed_updateContainers (refuses_closed e lid i ro) _ hr) h1
      · exfalso
        have := initCursor_back_gap e σ t r hfw hel.el.effort hel.el.alloc hrm i (by omega) hid
        rw [this] at hon; exact Bool.noConfusion hon
    have hm1 : r1 ∈ (e.taskD t).alloc ++ (e.taskD t).alt := by rw [hel.el.prim]; simp
    have hm2 : r2 ∈ (e.taskD t).alloc ++ (e.taskD t).alt := by rw [hel.el.alt]; simp
    rcases selectBest_alt e (σ.setT t (σ.tst t)) r1 r2 (e.taskD t).effort (initCursor e σ t).1 with hs | hs
    · exact ⟨r1, Or.inl rfl, key r1 hel.leaf1 hm1 hs⟩
    · exact ⟨r2, Or.inr rfl, key r2 hel.leaf2 hm2 hs⟩
  · have htsame := hsame t heq (Or.inl hel.el.leaf)
    rw [htsame] at hd hfw
    obtain ⟨hst, hend, r, hr, ⟨L0, hL0⟩, hidle⟩ := hA.okA t r1 r2 hel hd hfw
    refine ⟨fun hns => (hsettled t (hst hns)).1, ?_, r, hr,
      ⟨L0, by rw [updateContainers_led, scheduleTask_same e σ t0 t (Ne.symm heq) r L0]; exact hL0⟩, ?_⟩
    · obtain ⟨v, hv, hle⟩ := hend
      refine ⟨v, by rw [htsame]; exact hv, ?_⟩
      rw [deadlineG_congr e σ0 σ _ t (fun hns => (hsettled t (hst hns)).2)]; exact hle
    intro L hL i hLi hid hon hnl
    rw [deadlineG_congr e σ0 σ _ t (fun hns => (hsettled t (hst hns)).2)] at hid
    rw [updateContainers_led, scheduleTask_same e σ t0 t (Ne.symm heq) r L] at hL
    rcases hidle L hL i hLi hid hon hnl with h1 | h1
    · left
      have h2 := closed_scheduleTask (has_closed e r i) wf σ t0 h.inv hlf0 trivial h1
      unfold Has at h2 ⊢
      rw [updateContainers_led]; exact h2
    · right
      exact exhausted_closed_step (fun lid ro hr =>
        closed_updateContainers (refuses_closed e lid i ro) _
          (closed_scheduleTask (refuses_closed e lid i ro) wf σ t0 h.inv hlf0 trivial hr)) h1

theorem DoneIdleBAlt.of_eq {e : Env} {σ0 σ σ' : St} (hl : σ'.led = σ.led) (ht : σ'.ts = σ.ts) (hc : σ'.cnt = σ.cnt)
    (h : DoneIdleBAlt e σ0 σ) : DoneIdleBAlt e σ0 σ' := by
  unfold DoneIdleBAlt NoIdleBackAt Settled deadlineG latestEnd Has Exhausted Refuses limitOk St.tst at *
  rw [hl, ht, hc]; exact h

theorem pickLoop_doneIdleBAlt (e : Env) (wf : WF e) (σ0 : St) (fuel : Nat) (tasks failed : List Nat) (σ : St)
    (h : BIdleInvA e σ0 σ tasks) : DoneIdleBAlt e σ0 (pickLoop e fuel tasks failed σ).1 := by
  induction fuel generalizing tasks failed σ with
  | zero => exact h.okA
  | succ f ih =>
    unfold pickLoop
    split
    · exact h.okA
    · split
      · rename_i t0 hfind
        have hmem : t0 ∈ tasks := List.mem_of_find?_eq_some hfind
        have hready : ready e σ t0 = true := by
          have := List.find?_some hfind; simpa using this
        exact ih _ _ _ (bIdleInvA_step e wf σ0 σ tasks t0 h hmem hready)
      · split
        · exact DoneIdleBAlt.of_eq (σ := σ) rfl rfl rfl h.okA
        · exact h.okA

/-- **C08, backward mode, with an alternative, end to end.**  After scheduling any well-formed project: every completed
    backward (ALAP) effort task `t` with one primary and one alternative resource (both leaves) ends by its deadline, is booked
    on ONE of its two candidates, and on that one, between any slot `L` in which it is booked and the last slot before its
    deadline, every slot in which the resource is on shift and not on leave carries an entry in the final ledger, unless a limit
    refuses it. -/
theorem runScenario_doneIdleBAlt (e : Env) (wf : WF e) (tr : Tree e) : DoneIdleBAlt e (loopStart e) (runScenario e) := by
  have hdf : DoneFalse (prepare e (initState e)) := prepare_doneFalse e _ (doneFalse_init e)
  have hprep : Inv e (prepare e (initState e)) := prepare_inv e _ (inv_init e wf)
  have hsol : Solid e (prepare e (initState e)) := closed_prepare (solid_closed e wf) _ (solid_init e wf)
  have hempty : ∀ r i, ((prepare e (initState e)).led.get r i).usage = [] := by
    intro r i; rw [prepare_led]; simp [initState, Ledger.get_empty]
  have h2 : BIdleInv e (loopStart e) (loopStart e) (todoOf e (loopStart e)) := by
    refine ⟨preLoop_inv e _ hprep, closed_preLoop (solid_closed e wf) _ hsol, todoOf_nodup e _, todoOf_leaf e _, ?_, ?_, ?_⟩
    · intro x hx; unfold loopStart; rw [preLoop_size, prepare_size, initState_size]; exact (todoOf_mem e _ x hx).1
    · intro x hx
      refine ⟨rfl, (todoOf_mem e _ x hx).2, by unfold loopStart; exact preLoop_doneFalse e _ hdf x, fun r i => ?_⟩
      unfold loopStart
      rw [preLoop_led, hempty r i]; rfl
    · intro x r _ hdone
      have : ((loopStart e).tst x).done = false := by unfold loopStart; exact preLoop_doneFalse e _ hdf x
      rw [this] at hdone; exact Bool.noConfusion hdone
  have h2A : BIdleInvA e (loopStart e) (loopStart e) (todoOf e (loopStart e)) := by
    refine ⟨h2, ?_⟩
    intro x r1 r2 _ hdone
    have : ((loopStart e).tst x).done = false := by unfold loopStart; exact preLoop_doneFalse e _ hdf x
    rw [this] at hdone; exact Bool.noConfusion hdone
  have h3 := pickLoop_doneIdleBAlt e wf (loopStart e) ((todoOf e (loopStart e)).length + 1) (todoOf e (loopStart e)) [] (loopStart e) h2A
  have h4 : DoneIdleBAlt e (loopStart e) (scheduleScenario e (prepare e (initState e))) := by
    unfold scheduleScenario
    simp only []
    split
    · exact h3
    · exact DoneIdleBAlt.of_eq (σ := (pickLoop e ((todoOf e (loopStart e)).length + 1) (todoOf e (loopStart e)) [] (loopStart e)).1)
        rfl rfl rfl h3
  unfold runScenario
  intro t r1 r2 hel hd hfw
  rw [finishScenario_leafT e _ t hel.el.leaf] at hd hfw
  obtain ⟨hst, hend, r, hr, ⟨L0, hL0⟩, hidle⟩ := h4 t r1 r2 hel hd hfw
  have hc := scheduleScenario_cont e tr
  have hsd := finishScenario_sameDates e _ hc.1 hc.2
  refine ⟨fun hns => ?_, ?_, r, hr, ⟨L0, by rw [finishScenario_led]; exact hL0⟩, ?_⟩
  · have := hst hns
    exact ⟨fun dp hdp ho => by rw [(hsd dp.target).2.2]; exact this.1 dp hdp ho,
      fun s hs => by rw [(hsd s).2.2]; exact this.2 s hs⟩
  · obtain ⟨v, hv, hle⟩ := hend
    refine ⟨v, by rw [finishScenario_leafT e _ t hel.el.leaf]; exact hv, ?_⟩
    rw [deadlineG_congr e (loopStart e) (scheduleScenario e (prepare e (initState e))) _ t
      (fun _ => ⟨fun dp _ _ => (hsd dp.target).1, fun s _ => (hsd s).1⟩)]
    exact hle
  · intro L hL i hLi hid hon hnl
    rw [deadlineG_congr e (loopStart e) (scheduleScenario e (prepare e (initState e))) _ t
      (fun _ => ⟨fun dp _ _ => (hsd dp.target).1, fun s _ => (hsd s).1⟩)] at hid
    rw [finishScenario_led] at hL
    rcases hidle L hL i hLi hid hon hnl with h1 | h1
    · left; unfold Has at h1 ⊢; rw [finishScenario_led]; exact h1
    · right
      exact exhausted_closed_step (fun lid ro hr => closed_finishScenario (refuses_closed e lid i ro) _ hr) h1

end SP
