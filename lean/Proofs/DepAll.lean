import Proofs.DepGlobal
import Proofs.Containers
/-!
C04 for whole scenarios, forward mode, **every kind of predecessor**: leaf tasks and containers.  A container that is
marked scheduled keeps its dates (the roll-up skips scheduled containers, and `finishScenario` recomputes the same minimum
and maximum), so the date a successor was held against is the date of the final schedule.
-/
namespace SP

/-- the roll-up leaves leaf tasks and containers that are already marked scheduled alone -/
theorem updateContainers_fixed (e : Env) (σ : St) (t : Nat)
    (h : (e.taskD t).leaf = true ∨ (σ.tst t).scheduled = true) : (updateContainers e σ).tst t = σ.tst t := by
  rcases h with h | h
  · exact updateContainers_leaf e σ t h
  · unfold updateContainers
    have : ∀ (l : List Nat) (acc : St), (acc.tst t).scheduled = true →
        (l.foldl (fun (acc : St) x => acc.setT x (rollupT e acc x)) acc).tst t = acc.tst t := by
      intro l
      induction l with
      | nil => intro acc _; rfl
      | cons x xs ih =>
        intro acc hs
        simp only [List.foldl_cons]
        have hstep : (acc.setT x (rollupT e acc x)).tst t = acc.tst t := by
          rw [tst_setT]
          split
          · rename_i hx
            rw [hx.1]
            unfold rollupT
            simp [hs]
          · rfl
        rw [ih _ (by rw [hstep]; exact hs), hstep]
    exact this _ σ h

def DepsOKAll (e : Env) (σ : St) : Prop :=
  ∀ t, FwdEff e t → (σ.tst t).done = true → (σ.tst t).forward = true →
    ∀ dp ∈ (e.taskD t).allDeps,
      (σ.tst dp.target).scheduled = true ∧
      ∀ dt v, dateOf σ dp = some dt → (σ.tst t).start = some v → depDate e dp dt ≤ v

structure DepInvAll (e : Env) (σ : St) (tasks : List Nat) : Prop where
  nodup : tasks.Nodup
  leaf : ∀ t ∈ tasks, (e.taskD t).leaf = true
  inrange : ∀ t ∈ tasks, t < σ.ts.size
  unsched : ∀ t ∈ tasks, (σ.tst t).scheduled = false ∧ (σ.tst t).done = false
  ok : DepsOKAll e σ

theorem depInvAll_step (e : Env) (wf : WF e) (σ : St) (tasks : List Nat) (t0 : Nat) (h : DepInvAll e σ tasks)
    (hmem : t0 ∈ tasks) (hready : ready e σ t0 = true) :
    DepInvAll e (updateContainers e (scheduleTask e σ t0).1) (tasks.erase t0) := by
  have hlf0 := h.leaf t0 hmem
  obtain ⟨hus0, hnd0⟩ := h.unsched t0 hmem
  -- a task other than t0 that is a leaf or already scheduled keeps its attributes
  have hsame : ∀ x, x ≠ t0 → ((e.taskD x).leaf = true ∨ (σ.tst x).scheduled = true) →
      (updateContainers e (scheduleTask e σ t0).1).tst x = σ.tst x := by
    intro x hne hx
    rw [updateContainers_fixed e _ x (by rw [scheduleTask_other e σ t0 x hne]; exact hx), scheduleTask_other e σ t0 x hne]
  refine ⟨h.nodup.erase t0, fun t ht => h.leaf t (List.mem_of_mem_erase ht), ?_, ?_, ?_⟩
  · intro t ht
    rw [updateContainers_size, scheduleTask_size]; exact h.inrange t (List.mem_of_mem_erase ht)
  · intro t ht
    have htm : t ∈ tasks := List.mem_of_mem_erase ht
    have hne : t ≠ t0 := fun heq => by
      rw [heq] at ht; exact (List.Nodup.not_mem_erase h.nodup) ht
    rw [hsame t hne (Or.inl (h.leaf t htm))]; exact h.unsched t htm
  · intro t hel hd hfw dp hdp
    by_cases heq : t = t0
    · subst heq
      rw [updateContainers_leaf e _ t hel.leaf] at hd hfw ⊢
      rw [scheduleTask_self_forward] at hfw
      have hok := scheduleTask_done e σ t hnd0 hd
      have hdeps := ready_forward_deps e σ t hfw hready
      have hxs := hdeps dp hdp
      have hxne : dp.target ≠ t := by
        intro hx; rw [hx, hus0] at hxs; exact Bool.noConfusion hxs
      have hxsame := hsame dp.target hxne (Or.inr hxs)
      obtain ⟨v0, hv0, hle0⟩ := scheduleTask_start_ge e wf σ t (h.inrange t hmem) hfw hel.nostart hel.alloc hel.nomile
        hel.effort hnd0 hok
      refine ⟨by rw [hxsame]; exact hxs, fun dt v hdt hv => ?_⟩
      have hdt' : (if dp.onstart then (σ.tst dp.target).start else (σ.tst dp.target).stop) = some dt := by
        unfold dateOf at hdt; rw [hxsame] at hdt; exact hdt
      have := boundOf_ge_depDate e σ t dp hdp dt hdt'
      rw [hv0] at hv
      have : v0 = v := by simpa using hv
      omega
    · have htsame := hsame t heq (Or.inl hel.leaf)
      rw [htsame] at hd hfw ⊢
      obtain ⟨hxs, hineq⟩ := h.ok t hel hd hfw dp hdp
      have hxne : dp.target ≠ t0 := by
        intro hx; rw [hx, hus0] at hxs; exact Bool.noConfusion hxs
      have hxsame := hsame dp.target hxne (Or.inr hxs)
      refine ⟨by rw [hxsame]; exact hxs, fun dt v hdt hv => ?_⟩
      apply hineq dt v _ hv
      unfold dateOf at hdt ⊢; rw [hxsame] at hdt; exact hdt

theorem DepsOKAll.of_ts {e : Env} {σ σ' : St} (h : σ'.ts = σ.ts) (hok : DepsOKAll e σ) : DepsOKAll e σ' := by
  unfold DepsOKAll dateOf St.tst at *
  rw [h]; exact hok

theorem pickLoop_depsOKAll (e : Env) (wf : WF e) (fuel : Nat) (tasks failed : List Nat) (σ : St)
    (h : DepInvAll e σ tasks) : DepsOKAll e (pickLoop e fuel tasks failed σ).1 := by
  induction fuel generalizing tasks failed σ with
  | zero => exact h.ok
  | succ f ih =>
    unfold pickLoop
    split
    · exact h.ok
    · split
      · rename_i t0 hfind
        have hmem : t0 ∈ tasks := List.mem_of_find?_eq_some hfind
        have hready : ready e σ t0 = true := by
          have := List.find?_some hfind; simpa using this
        exact ih _ _ _ (depInvAll_step e wf σ tasks t0 h hmem hready)
      · split
        · exact DepsOKAll.of_ts (σ := σ) rfl h.ok
        · exact h.ok

theorem scheduleScenario_depsOKAll (e : Env) (wf : WF e) (σ : St) (hd : DoneFalse σ) (hsz : σ.ts.size = e.tasks.size) :
    DepsOKAll e (scheduleScenario e σ) := by
  unfold scheduleScenario
  simp only []
  have h2 : DepInvAll e (preLoop e σ) (todoOf e (preLoop e σ)) := by
    refine ⟨todoOf_nodup e _, todoOf_leaf e _, ?_, ?_, ?_⟩
    · intro t ht; rw [preLoop_size, hsz]; exact (todoOf_mem e _ t ht).1
    · intro t ht; exact ⟨(todoOf_mem e _ t ht).2, preLoop_doneFalse e σ hd t⟩
    · intro t _ hdone
      rw [preLoop_doneFalse e σ hd t] at hdone
      exact Bool.noConfusion hdone
  have h3 := pickLoop_depsOKAll e wf ((todoOf e (preLoop e σ)).length + 1) (todoOf e (preLoop e σ)) [] (preLoop e σ) h2
  split
  · exact h3
  · exact DepsOKAll.of_ts (σ := (pickLoop e ((todoOf e (preLoop e σ)).length + 1) (todoOf e (preLoop e σ)) [] (preLoop e σ)).1) rfl h3

/-- **C04, forward mode, end to end, every kind of predecessor.**  After scheduling any well-formed project whose task tree
    is well-formed: every completed forward effort task without a start of its own starts at or after
    `(start | end) + gap` of every predecessor named by one of its edges — a leaf task or a container, by an edge of its
    own, inherited from an enclosing container, or created by `precedes` on the other side — and every such predecessor is
    scheduled.  The dates are those of the final schedule. -/
theorem runScenario_depsOKAll (e : Env) (wf : WF e) (tr : Tree e) : DepsOKAll e (runScenario e) := by
  unfold runScenario
  have h := scheduleScenario_depsOKAll e wf (prepare e (initState e)) (prepare_doneFalse e _ (doneFalse_init e))
    (by rw [prepare_size, initState_size])
  have hc := scheduleScenario_cont e tr
  have hsd := finishScenario_sameDates e _ hc.1 hc.2
  intro t hel hd hfw dp hdp
  rw [finishScenario_leafT e _ t hel.leaf] at hd hfw ⊢
  obtain ⟨hxs, hineq⟩ := h t hel hd hfw dp hdp
  have hx := hsd dp.target
  refine ⟨by rw [hx.2.2]; exact hxs, fun dt v hdt hv => hineq dt v ?_ hv⟩
  unfold dateOf at hdt ⊢
  rw [hx.1, hx.2.1] at hdt; exact hdt

end SP
