import Model.Cli
import Proofs.Cli
import Proofs.CliClean
/-!
N processes on one file system: definitions (`solo`, `Setup`, `Inv`, `init`) and the helper lemmas
behind C20's non-interference theorems (`inv_step`, `inv_exec`: induction on the interleaving;
`other_step_invisible`, `exec_unowned`: frames).
-/
namespace SP.Cli
variable {B R : Type}

/-- process `i` running alone for `n` steps from the common initial file system -/
def solo (env : Env B R) (v : Variant) (cfg : Nat → Config B) (fs0 : FS B R) (i n : Nat) : Local B R × FS B R :=
  iter env v (cfg i) n ({}, fs0)

/-- the processes of one experiment: process `i` is called `i` by the OS (its temp names are `tmp i _`),
    writes its report to stdout, and reads a user's file -/
structure Setup (cfg : Nat → Config B) : Prop where
  pid : ∀ i, (cfg i).pid = i
  out : ∀ i, (cfg i).out = none
  inp : ∀ i, ∃ n, (cfg i).inPath = .user n

/-- invariant of an interleaving: every process is where it would be alone after the same number of
    its own steps, and the shared file system looks to it exactly as its private one would -/
def Inv (env : Env B R) (v : Variant) (cfg : Nat → Config B) (fs0 : FS B R) (g : Global B R) (k : Nat → Nat) : Prop :=
  ∀ i, g.locals i = (solo env v cfg fs0 i (k i)).1 ∧ Agree (cfg i) g.fs (solo env v cfg fs0 i (k i)).2

theorem inv_step (env : Env B R) (v : Variant) (cfg : Nat → Config B) (fs0 : FS B R) (hs : Setup cfg)
    (hfp : ∀ i b, Footprint env v i b (cfg i).rid (cfg i).fmt) (g : Global B R) (k : Nat → Nat)
    (h : Inv env v cfg fs0 g k) (a : Nat) :
    Inv env v cfg fs0 (gstep env v cfg g a) (fun i => if i = a then k i + 1 else k i) := by
  intro i
  by_cases hia : i = a
  · subst hia
    obtain ⟨hl, hag⟩ := h i
    have hc := step_congr env v (cfg i) (g.locals i) (hs.out i) hag
    have hsolo : solo env v cfg fs0 i (k i + 1) = step env v (cfg i) (g.locals i, (solo env v cfg fs0 i (k i)).2) := by
      simp only [solo, iter_succ]
      rw [hl]
      rfl
    simp only [gstep, if_true]
    rw [hsolo]
    exact ⟨hc.1, hc.2⟩
  · obtain ⟨hl, hag⟩ := h i
    simp only [gstep, hia, if_false]
    refine ⟨hl, ?_⟩
    intro p hp
    have hown : owns (cfg a).pid p = false := by
      rw [hs.pid a]
      rcases hp with hp | hp
      · rw [hs.pid i] at hp
        cases p <;> simp_all [owns]
        all_goals (intro e; exact hia e.symm)
      · obtain ⟨n, hn⟩ := hs.inp i
        rw [hp, hn]; rfl
    have hfr := step_frame env v (cfg a) (g.locals a) g.fs (hs.out a)
      (fun b => by rw [hs.pid a]; exact hfp a b) hown
    rw [hfr]
    exact hag p hp

theorem inv_exec (env : Env B R) (v : Variant) (cfg : Nat → Config B) (fs0 : FS B R) (hs : Setup cfg)
    (hfp : ∀ i b, Footprint env v i b (cfg i).rid (cfg i).fmt) (σ : List Nat) :
    ∀ (g : Global B R) (k : Nat → Nat), Inv env v cfg fs0 g k →
      Inv env v cfg fs0 (exec env v cfg g σ) (fun i => k i + σ.count i) := by
  induction σ with
  | nil => intro g k h; simpa [exec] using h
  | cons a σ ih =>
    intro g k h
    have h1 := inv_step env v cfg fs0 hs hfp g k h a
    have h2 := ih _ _ h1
    simp only [exec, List.foldl_cons] at h2 ⊢
    intro i
    have := h2 i
    by_cases hia : i = a
    · subst hia
      simpa [List.count_cons, Nat.add_assoc, Nat.add_comm 1] using this
    · have hne : (a == i) = false := by simp [Ne.symm hia]
      simpa [List.count_cons, hia, hne] using this

/-- the initial global state: nobody has started -/
def init (fs0 : FS B R) : Global B R := { fs := fs0, locals := fun _ => {} }

/-- a step of process `i` is invisible to another process `j` -/
theorem other_step_invisible (env : Env B R) (v : Variant) (cfg : Nat → Config B) (hs : Setup cfg)
    (hfp : ∀ i b, Footprint env v i b (cfg i).rid (cfg i).fmt) (i j : Nat) (hij : i ≠ j)
    (l : Local B R) (fs : FS B R) : Agree (cfg j) (step env v (cfg i) (l, fs)).2 fs := by
  intro p hp
  apply step_frame env v (cfg i) l fs (hs.out i) (fun b => by rw [hs.pid i]; exact hfp i b)
  rw [hs.pid i]
  rcases hp with hp | hp
  · rw [hs.pid j] at hp
    cases p <;> simp_all [owns]
    all_goals (intro e; exact hij e.symm)
  · obtain ⟨n, hn⟩ := hs.inp j
    rw [hp, hn]; rfl

/-- paths that belong to no process are not touched by any interleaving -/
theorem exec_unowned (env : Env B R) (v : Variant) (cfg : Nat → Config B) (hs : Setup cfg)
    (hfp : ∀ i b, Footprint env v i b (cfg i).rid (cfg i).fmt) (p : Path) (hp : ∀ i, owns i p = false)
    (σ : List Nat) : ∀ g : Global B R, (exec env v cfg g σ).fs p = g.fs p := by
  induction σ with
  | nil => intro g; rfl
  | cons a σ ih =>
    intro g
    simp only [exec, List.foldl_cons] at ih ⊢
    rw [ih]
    simp only [gstep]
    exact step_frame env v (cfg a) _ _ (hs.out a) (fun b => by rw [hs.pid a]; exact hfp a b)
      (by rw [hs.pid a]; exact hp a)

end SP.Cli
