import Proofs.Walk
/-!
End-to-end effort accounting for one task (C03): along the walk of `scheduleTask`, the effort credited
so far equals (seconds recorded for the task in the ledger) x efficiency / 3600, slot by slot, and the
tail release of the finishing slot makes the total exactly the requested effort.
-/
namespace SP

/-- seconds recorded for task `t` in a slot -/
def taskSecs (s : Slot) (t : Nat) : Rat := (usageOf s.usage t).getD 0

/-- seconds recorded for task `t` on resource `r` over a list of slots -/
def sumOver (L : Ledger) (r t : Nat) : List Int → Rat
  | [] => 0
  | i :: is => taskSecs (L.get r i) t + sumOver L r t is

theorem sumOver_congr (L L' : Ledger) (r t : Nat) (vis : List Int)
    (h : ∀ i ∈ vis, L'.get r i = L.get r i) : sumOver L' r t vis = sumOver L r t vis := by
  induction vis with
  | nil => rfl
  | cons i is ih =>
    simp only [sumOver]
    rw [h i List.mem_cons_self, ih (fun j hj => h j (List.mem_cons_of_mem _ hj))]

theorem usageOf_append_none (u : List (Nat × Rat)) (t : Nat) (a : Rat) (h : usageOf u t = none) :
    usageOf (u ++ [(t, a)]) t = some a := by
  induction u with
  | nil => simp [usageOf]
  | cons x xs ih =>
    unfold usageOf at h ⊢
    simp only [List.cons_append, List.find?_cons] at h ⊢
    by_cases hx : x.1 == t
    · simp [hx] at h
    · simp only [hx] at h ⊢
      exact ih (by unfold usageOf; simpa using h)

theorem usageOf_setUsage (u : List (Nat × Rat)) (t : Nat) (v b : Rat) (h : usageOf u t = some b) :
    usageOf (setUsage u t v) t = some v := by
  induction u with
  | nil => simp [usageOf] at h
  | cons x xs ih =>
    unfold usageOf at h
    simp only [List.find?_cons] at h
    by_cases hx : x.1 == t
    · simp only [setUsage, hx, if_true]
      simp [usageOf]
    · simp only [hx] at h
      simp only [setUsage, hx]
      unfold usageOf
      simp only [Bool.false_eq_true, if_false, List.find?_cons, hx]
      have := ih (by unfold usageOf; exact h)
      unfold usageOf at this
      exact this

/-- what task `t` keeps in a slot after its tail release -/
theorem release_secs (s : Slot) (t : Nat) (actual b : Rat) (h : usageOf s.usage t = some b) (hle : actual ≤ b) :
    usageOf (s.release t actual).usage t = some actual := by
  unfold Slot.release
  simp only [h]
  split
  · exact usageOf_setUsage _ _ _ _ h
  · have : actual = b := by grind
    rw [this]; exact h

/-- `reserve` does not touch the usage list -/
theorem reserve_usage (s : Slot) (c : Rat) : (s.reserve c).usage = s.usage := by
  unfold Slot.reserve; split <;> rfl

theorem reserveStep_get (σ : St) (w : Walk) (r : Nat) (r' : Nat) (i' : Int) :
    ((reserveStep σ w r).led.get r' i').usage = (σ.led.get r' i').usage := by
  unfold reserveStep
  split
  · simp only [Ledger.get_set]
    split
    · rename_i h; rw [← h.1, ← h.2]; exact reserve_usage _ _
    · rfl
  · rfl

theorem reserveStep_frame (σ : St) (w : Walk) (r : Nat) (r' : Nat) (i' : Int) (h : ¬ (r = r' ∧ w.cur = i')) :
    (reserveStep σ w r).led.get r' i' = σ.led.get r' i' := by
  unfold reserveStep
  split
  · simp only [Ledger.get_set, h, if_false]
  · rfl

/-- **one booking attempt**: if the task has no entry in the slot yet, then afterwards the seconds recorded
    for it there, weighted by the efficiency, are exactly the effort gained (both zero when nothing was booked) -/
theorem bookResource_secs (e : Env) (σ : St) (t : Nat) (w : Walk) (r : Nat)
    (hnone : usageOf (σ.led.get r w.cur).usage t = none) :
    taskSecs ((bookResource e σ t w r).1.led.get r w.cur) t / 3600 * (e.resD r).eff = (bookResource e σ t w r).2 := by
  rw [bookResource_books_iff]
  have hn' : usageOf ((reserveStep σ w r).led.get r w.cur).usage t = none := by rw [reserveStep_get]; exact hnone
  split
  · rw [bookSlot_gain]
    unfold taskSecs
    rw [bookSlot_entry, usageOf_append_none _ _ _ hn']
    rfl
  · unfold taskSecs
    simp only [hn', Option.getD_none]
    grind

/-- a booking attempt touches no other (resource, slot) -/
theorem bookResource_frame (e : Env) (σ : St) (t : Nat) (w : Walk) (r : Nat) (r' : Nat) (i' : Int)
    (h : ¬ (r = r' ∧ w.cur = i')) : (bookResource e σ t w r).1.led.get r' i' = σ.led.get r' i' := by
  rw [bookResource_books_iff]
  split
  · rw [bookSlot_frame _ _ _ _ _ _ _ h, reserveStep_frame _ _ _ _ _ h]
  · exact reserveStep_frame _ _ _ _ _ h

/-- the gain of a booking attempt is never negative -/
theorem bookResource_gain_nonneg (e : Env) (wf : WF e) (σ : St) (t : Nat) (w : Walk) (r : Nat) :
    0 ≤ (bookResource e σ t w r).2 := by
  rw [bookResource_books_iff]
  split
  · rw [bookSlot_gain]
    have h1 := availSecs_nonneg e.G ((reserveStep σ w r).led.get r w.cur)
    have h2 := wf.eff_pos r
    have : 0 ≤ availSecs e.G ((reserveStep σ w r).led.get r w.cur) / 3600 := rat_div_nonneg _ _ h1 (by grind)
    exact Rat.mul_nonneg this (by grind)
  · exact Rat.le_refl

end SP

namespace SP

theorem markStart_led (e : Env) (σ : St) (t : Nat) (w : Walk) : (markStart e σ t w).led = σ.led := by
  unfold markStart; split <;> rfl

theorem isTeam_single (e : Env) (t r : Nat) : isTeam e t [r] = false := by
  unfold isTeam; simp

/-- `bookResources` for a task whose selection is the single resource `r` -/
theorem bookResources_single (e : Env) (σ : St) (t : Nat) (w : Walk) (r : Nat)
    (ha : (e.taskD t).hasAlloc = true) (hsel : selectedOf e σ t w = [r]) :
    bookResources e σ t w =
      (let w' : Walk := { w with selected := some [r] }
       let res := bookResource e σ t w' r
       if res.2 > 0 then (markStart e res.1 t w', { w' with done := w'.done + max 0 res.2, last := some r })
       else (res.1, { w' with last := w.last })) := by
  unfold bookResources
  simp only [ha, Bool.not_true, Bool.false_eq_true, if_false, hsel, List.isEmpty_cons]
  unfold teamGateFails
  simp only [isTeam_single, Bool.false_and, Bool.false_eq_true, if_false]
  unfold leveled
  simp only [isTeam_single, Bool.false_eq_true, if_false]
  unfold bookAll
  simp only [List.foldl_cons, List.foldl_nil, bookOne]
  split <;> rfl

/-- single selection: ledger, credit and walk after one `bookResources` -/
theorem bookResources_single_acc (e : Env) (wf : WF e) (σ : St) (t : Nat) (w : Walk) (r : Nat)
    (ha : (e.taskD t).hasAlloc = true) (hsel : selectedOf e σ t w = [r])
    (hnone : usageOf (σ.led.get r w.cur).usage t = none) :
    let res := bookResources e σ t w
    res.2.done = w.done + taskSecs (res.1.led.get r w.cur) t / 3600 * (e.resD r).eff ∧
    (∀ r' i', ¬ (r = r' ∧ w.cur = i') → res.1.led.get r' i' = σ.led.get r' i') ∧
    res.2.selected = some [r] ∧ res.2.cur = w.cur ∧ res.2.offset = w.offset ∧
    (res.2.done > w.done → res.2.last = some r) := by
  intro res
  have hres : res = bookResources e σ t w := rfl
  rw [bookResources_single e σ t w r ha hsel] at hres
  simp only [] at hres
  have hsecs := bookResource_secs e σ t { w with selected := some [r] } r hnone
  have hfr := bookResource_frame e σ t { w with selected := some [r] } r
  have hnn := bookResource_gain_nonneg e wf σ t { w with selected := some [r] } r
  by_cases hpos : (bookResource e σ t { w with selected := some [r] } r).2 > 0
  · simp only [hpos, if_true] at hres
    rw [hres]
    simp only [markStart_led]
    refine ⟨?_, ?_, trivial, trivial, trivial, fun _ => trivial⟩
    · rw [hsecs]; grind
    · intro r' i' h; exact hfr r' i' h
  · simp only [hpos, if_false] at hres
    rw [hres]
    have hz : (bookResource e σ t { w with selected := some [r] } r).2 = 0 := by grind
    refine ⟨?_, ?_, rfl, rfl, rfl, ?_⟩
    · simp only []; rw [hsecs, hz]; grind
    · intro r' i' h; exact hfr r' i' h
    · intro h; simp only [] at h; grind

end SP

namespace SP

theorem mem_le_usageSum (l : List (Nat × Rat)) (hnn : ∀ x ∈ l, 0 ≤ x.2) (x : Nat × Rat) (hx : x ∈ l) :
    x.2 ≤ usageSum l := by
  induction l with
  | nil => cases hx
  | cons y ys ih =>
    have hy := hnn y List.mem_cons_self
    have hys : ∀ z ∈ ys, 0 ≤ z.2 := fun z hz => hnn z (List.mem_cons_of_mem _ hz)
    have hsum : 0 ≤ usageSum ys := by
      clear ih hx
      induction ys with
      | nil => simp
      | cons z zs ihz =>
        have := hys z List.mem_cons_self
        have := ihz (fun a ha => hnn a (by
          rcases List.mem_cons.mp ha with h | h
          · exact h ▸ List.mem_cons_self
          · exact List.mem_cons_of_mem _ (List.mem_cons_of_mem _ h))) (fun a ha => hys a (List.mem_cons_of_mem _ ha))
        simp only [usageSum_cons]; grind
    simp only [usageSum_cons]
    rcases List.mem_cons.mp hx with h | h
    · rw [h]; grind
    · have := ih hys h; grind

/-- an entry of the ledger never exceeds the slot length -/
theorem entry_le_G (e : Env) (σ : St) (h : Inv e σ) (r : Nat) (i : Int) (t : Nat) (a : Rat)
    (hu : usageOf (σ.led.get r i).usage t = some a) : a ≤ (e.G : Rat) := by
  have hs := h.slot r i
  have := mem_le_usageSum _ hs.entries_nonneg _ (usageOf_mem hu)
  have := hs.sum_le
  have := hs.used_le
  simp only [] at *
  grind

theorem taskSecs_ne_zero (s : Slot) (t : Nat) (h : taskSecs s t ≠ 0) : usageOf s.usage t = some (taskSecs s t) := by
  unfold taskSecs at *
  cases hu : usageOf s.usage t with
  | none => simp [hu] at h
  | some a => simp

/-- the ledger after `finishTask` of a single-resource task -/
theorem finishTask_single (e : Env) (σ : St) (t : Nat) (w : Walk) (before : Rat) (fwd : Bool) (r : Nat)
    (hlast : w.last = some r) (hsel : w.selected = some [r]) :
    (finishTask e σ t w before fwd).1.led =
      σ.led.set r w.cur ((σ.led.get r w.cur).release t (needSecs e σ t w before r)) := by
  unfold finishTask
  simp only [hlast, hsel, Option.getD_some]
  unfold releaseOthers
  simp

/-- **the finishing slot**: what the task keeps there is exactly the effort still missing -/
theorem finishTask_secs (e : Env) (wf : WF e) (σ : St) (t : Nat) (w : Walk) (before : Rat) (fwd : Bool) (r : Nat) (a : Rat)
    (hlast : w.last = some r) (hsel : w.selected = some [r])
    (hu : usageOf (σ.led.get r w.cur).usage t = some a) (ha : a ≤ (e.G : Rat))
    (hlt : before < (e.taskD t).effort) (hge : (e.taskD t).effort ≤ before + a / 3600 * (e.resD r).eff) :
    usageOf ((finishTask e σ t w before fwd).1.led.get r w.cur).usage t =
        some (((e.taskD t).effort - before) / ((e.resD r).eff / 3600)) ∧
    (∀ r' i', ¬ (r = r' ∧ w.cur = i') → (finishTask e σ t w before fwd).1.led.get r' i' = σ.led.get r' i') := by
  rw [finishTask_single e σ t w before fwd r hlast hsel]
  have hneed := needSecs_eq e σ t w before r a (wf.eff_pos r) hlt hge ha hu
  have fe := finish_exact (e.taskD t).effort before a (e.resD r).eff (wf.eff_pos r) hlt hge
  simp only [] at fe
  constructor
  · simp only [Ledger.get_set, and_self, if_true]
    rw [hneed]
    exact release_secs _ t _ a hu fe.2.1
  · intro r' i' h
    simp only [Ledger.get_set, h, if_false]

end SP

namespace SP

/-- accounting invariant of the walk of task `t` on its single selected resource `r`:
    `vis` are the slots visited so far -/
structure Acc (e : Env) (σ : St) (t r : Nat) (fwd : Bool) (w : Walk) (vis : List Int) : Prop where
  only : ∀ i, i ∉ vis → usageOf (σ.led.get r i).usage t = none
  before : ∀ i ∈ vis, (if fwd then i < w.cur else w.cur < i)
  credit : w.done = sumOver σ.led r t vis / 3600 * (e.resD r).eff
  nodup : vis.Nodup

/-- outcome of a finished walk: the task's entries on `r` lie in the slots `vis` and their seconds,
    weighted by the efficiency, add up to the effort — exactly -/
def Exact (e : Env) (σ : St) (t r : Nat) (vis : List Int) : Prop :=
  vis.Nodup ∧ (∀ i, i ∉ vis → usageOf (σ.led.get r i).usage t = none) ∧
  sumOver σ.led r t vis / 3600 * (e.resD r).eff = (e.taskD t).effort

theorem selectedOf_some (e : Env) (σ : St) (t : Nat) (w : Walk) (s : List Nat) (h : w.selected = some s) :
    selectedOf e σ t w = s := by
  unfold selectedOf; rw [h]

theorem scheduleSlot_acc (e : Env) (wf : WF e) (σ : St) (t r : Nat) (fwd : Bool) (w : Walk) (vis : List Int)
    (hinv : Inv e σ) (hlf : (e.taskD t).leaf = true) (hw : WalkOk e t w)
    (ha : (e.taskD t).hasAlloc = true) (hm : (e.taskD t).milestone = false)
    (hsel : selectedOf e σ t w = [r]) (hlt : w.done < (e.taskD t).effort) (hpos : 0 < (e.taskD t).effort)
    (hacc : Acc e σ t r fwd w vis) :
    ((scheduleSlot e σ t w).2.2 = true →
        Acc e (scheduleSlot e σ t w).1 t r fwd (advance fwd w (scheduleSlot e σ t w).2.1) (w.cur :: vis) ∧
        (scheduleSlot e σ t w).2.1.selected = some [r] ∧
        (scheduleSlot e σ t w).2.1.done < (e.taskD t).effort) ∧
    ((scheduleSlot e σ t w).2.2 = false → Exact e (scheduleSlot e σ t w).1 t r (w.cur :: vis)) := by
  have hcur_notin : w.cur ∉ vis := by
    intro hin
    have := hacc.before _ hin
    split at this <;> omega
  have hnone := hacc.only _ hcur_notin
  obtain ⟨hdone, hframe, hselw, hcurw, hoffw, hlastw⟩ := bookResources_single_acc e wf σ t w r ha hsel hnone
  have hb := bookResources_inv e σ t w wf hinv hlf hw
  have heff := wf.eff_pos r
  have hz : ((e.taskD t).effort == 0) = false := by
    simp only [beq_eq_false_iff_ne, ne_eq]; grind
  -- the slots of `vis` are untouched by this slot's booking
  have hvis_same : ∀ i ∈ vis, (bookResources e σ t w).1.led.get r i = σ.led.get r i := by
    intro i hi
    apply hframe
    intro h
    exact hcur_notin (h.2 ▸ hi)
  have hnodup : (w.cur :: vis).Nodup := List.nodup_cons.mpr ⟨hcur_notin, hacc.nodup⟩
  unfold scheduleSlot
  simp only [hm, hz, Bool.or_self, Bool.false_eq_true, if_false]
  by_cases hfin : (bookResources e σ t w).2.done ≥ (e.taskD t).effort
  · simp only [hfin, if_true]
    refine ⟨fun hc => Bool.noConfusion hc, fun _ => ?_⟩
    -- the task booked in this slot (it was short of its effort before) …
    have hgain : taskSecs ((bookResources e σ t w).1.led.get r w.cur) t ≠ 0 := by
      intro h0; rw [h0] at hdone; grind
    have hu := taskSecs_ne_zero _ _ hgain
    have haG := entry_le_G e _ hb r w.cur t _ hu
    have hlast : (bookResources e σ t w).2.last = some r := hlastw (by grind)
    have hge : (e.taskD t).effort ≤ w.done + taskSecs ((bookResources e σ t w).1.led.get r w.cur) t / 3600 * (e.resD r).eff := by
      rw [← hdone]; exact hfin
    have hcur' : (bookResources e σ t w).2.cur = w.cur := hcurw
    have hfs := finishTask_secs e wf (bookResources e σ t w).1 t (bookResources e σ t w).2 w.done (σ.tst t).forward r _
      hlast hselw (by rw [hcur']; exact hu) haG hlt hge
    rw [hcur'] at hfs
    obtain ⟨hkeep, hfr2⟩ := hfs
    have fe := finish_exact (e.taskD t).effort w.done _ (e.resD r).eff heff hlt hge
    simp only [] at fe
    unfold Exact
    refine ⟨hnodup, ?_, ?_⟩
    · intro i hi
      have hne : i ≠ w.cur := by intro h; exact hi (h ▸ List.mem_cons_self)
      have hnv : i ∉ vis := fun h => hi (List.mem_cons_of_mem _ h)
      show usageOf ((finishTask e (bookResources e σ t w).1 t (bookResources e σ t w).2 w.done (σ.tst t).forward).1.led.get r i).usage t = none
      rw [hfr2 r i (by intro h; exact hne h.2.symm), hframe r i (by intro h; exact hne h.2.symm)]
      exact hacc.only i hnv
    · show sumOver (finishTask e (bookResources e σ t w).1 t (bookResources e σ t w).2 w.done (σ.tst t).forward).1.led r t (w.cur :: vis) / 3600 * (e.resD r).eff = (e.taskD t).effort
      simp only [sumOver]
      have h1 : taskSecs ((finishTask e (bookResources e σ t w).1 t (bookResources e σ t w).2 w.done (σ.tst t).forward).1.led.get r w.cur) t
          = ((e.taskD t).effort - w.done) / ((e.resD r).eff / 3600) := by
        unfold taskSecs; rw [hkeep]; rfl
      have h2 : sumOver (finishTask e (bookResources e σ t w).1 t (bookResources e σ t w).2 w.done (σ.tst t).forward).1.led r t vis
          = sumOver σ.led r t vis := by
        apply sumOver_congr
        intro i hi
        have hne : i ≠ w.cur := by intro h; exact hcur_notin (h ▸ hi)
        rw [hfr2 r i (by intro h; exact hne h.2.symm)]
        exact hvis_same i hi
      rw [h1, h2]
      have hc := hacc.credit
      have h3 := fe.2.2
      grind
  · simp only [hfin, if_false]
    refine ⟨fun _ => ⟨⟨?_, ?_, ?_, hnodup⟩, hselw, by grind⟩, fun hc => Bool.noConfusion hc⟩
    · intro i hi
      have hne : i ≠ w.cur := by intro h; exact hi (h ▸ List.mem_cons_self)
      have hnv : i ∉ vis := fun h => hi (List.mem_cons_of_mem _ h)
      rw [hframe r i (by intro h; exact hne h.2.symm)]
      exact hacc.only i hnv
    · intro i hi
      have hadv : (advance fwd w (bookResources e σ t w).2).cur = w.cur + (if fwd then 1 else -1) := by
        rw [advance_cur, hcurw]
      rw [hadv]
      rcases List.mem_cons.mp hi with h | h
      · subst h; cases fwd <;> simp <;> omega
      · have := hacc.before i h
        cases fwd <;> simp at this ⊢ <;> omega
    · show (bookResources e σ t w).2.done = sumOver (bookResources e σ t w).1.led r t (w.cur :: vis) / 3600 * (e.resD r).eff
      simp only [sumOver]
      have h2 : sumOver (bookResources e σ t w).1.led r t vis = sumOver σ.led r t vis :=
        sumOver_congr _ _ r t vis hvis_same
      rw [h2, hdone]
      have hc := hacc.credit
      grind

end SP

namespace SP

theorem Exact.of_led {e : Env} {σ σ' : St} {t r : Nat} {vis : List Int} (hl : σ'.led = σ.led)
    (h : Exact e σ t r vis) : Exact e σ' t r vis := by
  unfold Exact at *; rw [hl]; exact h

/-- the walk of a task on its single selected resource: when it finishes, the effort is exact -/
theorem walkLoop_exact (e : Env) (wf : WF e) (t r : Nat) (fwd : Bool) (fuel : Nat) (σ : St) (w : Walk) (vis : List Int)
    (hinv : Inv e σ) (hlf : (e.taskD t).leaf = true) (hw : WalkOk e t w)
    (ha : (e.taskD t).hasAlloc = true) (hm : (e.taskD t).milestone = false)
    (hsel : selectedOf e σ t w = [r]) (hlt : w.done < (e.taskD t).effort) (hpos : 0 < (e.taskD t).effort)
    (hacc : Acc e σ t r fwd w vis) (hok : (walkLoop e t fwd fuel σ w).2.2 = true) :
    ∃ vis', Exact e (walkLoop e t fwd fuel σ w).1 t r vis' := by
  induction fuel generalizing σ w vis with
  | zero => simp [walkLoop] at hok
  | succ f ih =>
    have hs := scheduleSlot_inv e σ t w wf hinv hlf hw
    have hsa := scheduleSlot_acc e wf σ t r fwd w vis hinv hlf hw ha hm hsel hlt hpos hacc
    unfold walkLoop at hok ⊢
    simp only [] at hok ⊢
    by_cases hc : (scheduleSlot e σ t w).2.2 = true
    · simp only [hc, Bool.not_true, Bool.false_eq_true, if_false] at hok ⊢
      obtain ⟨hacc', hsel', hlt'⟩ := hsa.1 hc
      have hw1 := hs.2 hc
      by_cases hout : ((advance fwd w (scheduleSlot e σ t w).2.1).cur < 0 || (advance fwd w (scheduleSlot e σ t w).2.1).cur > e.upper) = true
      · simp only [hout, if_true] at hok
        exact Bool.noConfusion hok
      · simp only [hout, Bool.false_eq_true, if_false] at hok ⊢
        exact ih _ _ _ hs.1 (walkOk_advance e t wf _ _ _ hw1)
          (selectedOf_some e _ t _ [r] hsel') hlt' hacc' hok
    · have hc' : (scheduleSlot e σ t w).2.2 = false := by simpa using hc
      simp only [hc', Bool.not_false, if_true] at hok ⊢
      exact ⟨_, hsa.2 hc'⟩

/-- a task whose only allocation is `r` selects `[r]`, whatever the state -/
theorem selectBest_single (e : Env) (σ : St) (r : Nat) (effort : Rat) (cur : Int) :
    selectBest e σ [r] [] effort cur = [r] := by
  unfold selectBest; simp

end SP

namespace SP

/-- **one task, end to end.**  `scheduleTask` of an effort task that selects the single resource `r`, started in
    a state whose ledger holds nothing of the task on `r`: if it reports success, the seconds recorded for the task
    on `r`, weighted by the efficiency, add up to the requested effort — exactly, whatever the efforts, efficiencies,
    resolution, calendars, limits and other bookings are. -/
theorem scheduleTask_exact_sel (e : Env) (wf : WF e) (σ : St) (t r : Nat)
    (hinv : Inv e σ) (hlf : (e.taskD t).leaf = true)
    (ha : (e.taskD t).hasAlloc = true) (hm : (e.taskD t).milestone = false) (hpos : 0 < (e.taskD t).effort)
    (hsel0 : selectBest e (σ.setT t (preStartT e σ t (initCursor e σ t).1)) (e.taskD t).alloc (e.taskD t).alt (e.taskD t).effort
      (preStartCursor e σ t (initCursor e σ t).1) = [r])
    (hnd : (σ.tst t).done = false)
    (hclean : ∀ i, usageOf (σ.led.get r i).usage t = none)
    (hok : (scheduleTask e σ t).2 = true) :
    ∃ vis, Exact e (scheduleTask e σ t).1 t r vis := by
  unfold scheduleTask at hok ⊢
  simp only [hnd, Bool.false_eq_true, if_false] at hok ⊢
  have hoff := initCursor_off e σ t wf
  have h0 : Inv e (σ.setT t (preStartT e σ t (initCursor e σ t).1)) := inv_setT _ _ hinv
  by_cases hout : (preStartCursor e σ t (initCursor e σ t).1 < 0 || preStartCursor e σ t (initCursor e σ t).1 > e.upper) = true
  · simp only [hout, if_true] at hok
    exact Bool.noConfusion hok
  · simp only [hout, Bool.false_eq_true, if_false] at hok ⊢
    have hw : WalkOk e t { cur := preStartCursor e σ t (initCursor e σ t).1, offset := (initCursor e σ t).2 } :=
      ⟨hoff.1, hoff.2, wf.effort_nonneg t⟩
    have hacc : Acc e (σ.setT t (preStartT e σ t (initCursor e σ t).1)) t r (σ.tst t).forward
        { cur := preStartCursor e σ t (initCursor e σ t).1, offset := (initCursor e σ t).2 } [] :=
      ⟨fun i _ => hclean i, fun i hi => absurd hi List.not_mem_nil,
       by show (0 : Rat) = sumOver _ r t [] / 3600 * (e.resD r).eff; simp only [sumOver]; grind, List.nodup_nil⟩
    have hs0 : selectedOf e (σ.setT t (preStartT e σ t (initCursor e σ t).1)) t
        { cur := preStartCursor e σ t (initCursor e σ t).1, offset := (initCursor e σ t).2 } = [r] := by
      unfold selectedOf; exact hsel0
    by_cases hfin : (walkLoop e t (σ.tst t).forward (e.size.toNat + 3) (σ.setT t (preStartT e σ t (initCursor e σ t).1))
        { cur := preStartCursor e σ t (initCursor e σ t).1, offset := (initCursor e σ t).2 }).2.2 = true
    · simp only [hfin, Bool.not_true, Bool.false_eq_true, if_false] at hok ⊢
      obtain ⟨vis, hex⟩ := walkLoop_exact e wf t r (σ.tst t).forward _ _ _ [] h0 hlf hw ha hm hs0 hpos hpos hacc hfin
      exact ⟨vis, Exact.of_led (σ := (walkLoop e t (σ.tst t).forward (e.size.toNat + 3) (σ.setT t (preStartT e σ t (initCursor e σ t).1))
        { cur := preStartCursor e σ t (initCursor e σ t).1, offset := (initCursor e σ t).2 }).1) rfl hex⟩
    · have hfin' : (walkLoop e t (σ.tst t).forward (e.size.toNat + 3) (σ.setT t (preStartT e σ t (initCursor e σ t).1))
        { cur := preStartCursor e σ t (initCursor e σ t).1, offset := (initCursor e σ t).2 }).2.2 = false := by simpa using hfin
      simp only [hfin', Bool.not_false, if_true] at hok
      exact Bool.noConfusion hok


/-- the same when the allocation selects `[r]` in every state -/
theorem scheduleTask_exact (e : Env) (wf : WF e) (σ : St) (t r : Nat)
    (hinv : Inv e σ) (hlf : (e.taskD t).leaf = true)
    (ha : (e.taskD t).hasAlloc = true) (hm : (e.taskD t).milestone = false) (hpos : 0 < (e.taskD t).effort)
    (hsel : ∀ σ' c, selectBest e σ' (e.taskD t).alloc (e.taskD t).alt (e.taskD t).effort c = [r])
    (hnd : (σ.tst t).done = false)
    (hclean : ∀ i, usageOf (σ.led.get r i).usage t = none)
    (hok : (scheduleTask e σ t).2 = true) :
    ∃ vis, Exact e (scheduleTask e σ t).1 t r vis :=
  scheduleTask_exact_sel e wf σ t r hinv hlf ha hm hpos (hsel _ _) hnd hclean hok

end SP
