import Proofs.FrameWalk
import Proofs.Deadline
/-!
C06 along the backward walk of a single-resource task: the slot in which the task finishes (the earliest it books) is the
slot its start lies in, its end is the end of the first slot it booked (the latest), and every booking lies between the two.
-/
namespace SP

/-- direction-free facts about the booking attempt of one slot (single selected resource) -/
theorem book_facts (e : Env) (wf : WF e) (σ : St) (t r : Nat) (fwd : Bool) (w : Walk) (vis : List Int)
    (hinv : Inv e σ) (hlf : (e.taskD t).leaf = true) (hw : WalkOk e t w)
    (ha : (e.taskD t).hasAlloc = true) (hsel : selectedOf e σ t w = [r]) (hacc : Acc e σ t r fwd w vis) :
    (∀ i ∈ vis, (bookResources e σ t w).1.led.get r i = σ.led.get r i) ∧
    (usageOf ((bookResources e σ t w).1.led.get r w.cur).usage t = none ∧ (bookResources e σ t w).2.done = w.done ∨
     usageOf ((bookResources e σ t w).1.led.get r w.cur).usage t ≠ none ∧ (bookResources e σ t w).2.done > w.done) := by
  have hcur_notin : w.cur ∉ vis := by
    intro hin
    have := hacc.before _ hin
    split at this <;> omega
  have hnone := hacc.only _ hcur_notin
  obtain ⟨hdone, hframe, _, _, _, _⟩ := bookResources_single_acc e wf σ t w r ha hsel hnone
  have hent := bookResources_single_entry e σ t w r ha hsel hnone
  have heff := wf.eff_pos r
  refine ⟨fun i hi => hframe r i (fun hh => hcur_notin (hh.2 ▸ hi)), ?_⟩
  rcases hent with hn | hp
  · left
    refine ⟨hn, ?_⟩
    have : taskSecs ((bookResources e σ t w).1.led.get r w.cur) t = 0 := by unfold taskSecs; rw [hn]; rfl
    rw [hdone, this]; grind
  · right
    have hne : usageOf ((bookResources e σ t w).1.led.get r w.cur).usage t ≠ none := by
      intro hc; unfold taskSecs at hp; rw [hc] at hp; simp at hp
    refine ⟨hne, ?_⟩
    have : 0 < taskSecs ((bookResources e σ t w).1.led.get r w.cur) t / 3600 * (e.resD r).eff :=
      Rat.mul_pos (by
        have h36 : (0 : Rat) < 3600 := by decide +kernel
        rw [Rat.div_def]; exact Rat.mul_pos hp (Rat.inv_pos.mpr h36)) heff
    rw [hdone]; grind

/-- where the latest booking of the task lies among the slots visited so far, as recorded in the walk -/
def Bfst (σ : St) (t r : Nat) (w : Walk) (vis : List Int) : Prop :=
  (w.firstBooked = none → ∀ i ∈ vis, usageOf (σ.led.get r i).usage t = none) ∧
  (∀ fb, w.firstBooked = some fb → fb ∈ vis ∧ usageOf (σ.led.get r fb).usage t ≠ none ∧
      ∀ i ∈ vis, usageOf (σ.led.get r i).usage t ≠ none → i ≤ fb)

/-- invariant of the backward walk of a single-resource task -/
structure BInv (e : Env) (σ : St) (t r : Nat) (w : Walk) (vis : List Int) : Prop where
  acc : Acc e σ t r false w vis
  inb : t < σ.ts.size
  bwd : (σ.tst t).forward = false
  bfst : Bfst σ t r w vis

end SP

namespace SP

/-- the first booked slot as the backward loop records it after a slot -/
def fbAfter (w w1 : Walk) : Option Int :=
  if w1.firstBooked.isNone && decide (w1.done > w.done) then some w1.cur else w1.firstBooked

theorem advance_back_firstBooked (w w1 : Walk) : (advance false w w1).firstBooked = fbAfter w w1 := by
  unfold advance fbAfter; simp

theorem Bfst.of_firstBooked {σ : St} {t r : Nat} {w w' : Walk} {vis : List Int} (h : w'.firstBooked = w.firstBooked)
    (hb : Bfst σ t r w vis) : Bfst σ t r w' vis := by
  unfold Bfst at *; rw [h]; exact hb

/-- `Bfst` only looks at which slots carry an entry -/
theorem Bfst.transfer {σ σ' : St} {t r : Nat} {w : Walk} {vis : List Int}
    (hent : ∀ i ∈ vis, (usageOf (σ'.led.get r i).usage t = none ↔ usageOf (σ.led.get r i).usage t = none))
    (h : Bfst σ t r w vis) : Bfst σ' t r w vis := by
  refine ⟨fun hn i hi => (hent i hi).mpr (h.1 hn i hi), fun fb hfb => ?_⟩
  obtain ⟨h1, h2, h3⟩ := h.2 fb hfb
  exact ⟨h1, fun hc => h2 ((hent fb h1).mp hc), fun i hi hni => h3 i hi (fun hc => hni ((hent i hi).mpr hc))⟩

/-- after the booking attempt of one slot: where the latest booking lies now -/
theorem book_bfst (e : Env) (wf : WF e) (σ : St) (t r : Nat) (w : Walk) (vis : List Int)
    (hinv : Inv e σ) (hlf : (e.taskD t).leaf = true) (hw : WalkOk e t w)
    (ha : (e.taskD t).hasAlloc = true) (hsel : selectedOf e σ t w = [r]) (h : BInv e σ t r w vis) :
    Bfst (bookResources e σ t w).1 t r
      { (bookResources e σ t w).2 with firstBooked := fbAfter w (bookResources e σ t w).2 } (w.cur :: vis) := by
  obtain ⟨hvis, hcase⟩ := book_facts e wf σ t r false w vis hinv hlf hw ha hsel h.acc
  have hfb1 := bookResources_firstBooked e σ t w
  have hcur1 := (bookResources_walk e σ t w).1
  have hbefore : ∀ i ∈ vis, w.cur < i := by
    intro i hi; have := h.acc.before i hi; simpa using this
  rcases hcase with ⟨hn, hd⟩ | ⟨hne, hd⟩
  · -- nothing booked in this slot
    have hfa : fbAfter w (bookResources e σ t w).2 = w.firstBooked := by
      unfold fbAfter
      have : ¬ ((bookResources e σ t w).2.done > w.done) := by rw [hd]; grind
      simp [this, hfb1]
    refine ⟨?_, ?_⟩
    · intro hnone i hi
      simp only [hfa] at hnone
      rcases List.mem_cons.mp hi with hi | hi
      · subst hi; exact hn
      · rw [hvis i hi]; exact h.bfst.1 hnone i hi
    · intro fb hfb
      simp only [hfa] at hfb
      obtain ⟨h1, h2, h3⟩ := h.bfst.2 fb hfb
      refine ⟨List.mem_cons_of_mem _ h1, by rw [hvis fb h1]; exact h2, ?_⟩
      intro i hi hni
      rcases List.mem_cons.mp hi with hi | hi
      · subst hi; exact absurd hn hni
      · apply h3 i hi; rw [← hvis i hi]; exact hni
  · -- booked in this slot
    cases hfbw : w.firstBooked with
    | none =>
      have hfa : fbAfter w (bookResources e σ t w).2 = some w.cur := by
        unfold fbAfter
        simp [hfb1, hfbw, hd, hcur1]
      refine ⟨?_, ?_⟩
      · intro hnone; simp only [hfa] at hnone; cases hnone
      · intro fb hfb
        simp only [hfa] at hfb
        have : fb = w.cur := by simpa using hfb.symm
        subst this
        refine ⟨List.mem_cons_self, hne, ?_⟩
        intro i hi hni
        rcases List.mem_cons.mp hi with hi | hi
        · omega
        · exfalso; apply hni; rw [hvis i hi]; exact h.bfst.1 hfbw i hi
    | some fb0 =>
      have hfa : fbAfter w (bookResources e σ t w).2 = some fb0 := by
        unfold fbAfter; simp [hfb1, hfbw]
      obtain ⟨h1, h2, h3⟩ := h.bfst.2 fb0 hfbw
      refine ⟨?_, ?_⟩
      · intro hnone; simp only [hfa] at hnone; cases hnone
      · intro fb hfb
        simp only [hfa] at hfb
        have : fb = fb0 := by simpa using hfb.symm
        subst this
        refine ⟨List.mem_cons_of_mem _ h1, by rw [hvis fb h1]; exact h2, ?_⟩
        intro i hi hni
        rcases List.mem_cons.mp hi with hi | hi
        · subst hi; have := hbefore fb h1; omega
        · apply h3 i hi; rw [← hvis i hi]; exact hni

end SP

namespace SP

theorem finishTask_date_back (e : Env) (σ : St) (t : Nat) (w : Walk) (before : Rat) (r : Nat) (a : Rat)
    (hlast : w.last = some r) (hu : usageOf (σ.led.get r w.cur).usage t = some a) :
    (finishTask e σ t w before false).2 =
      e.time w.cur + e.G - roundHalfEven ((σ.led.get r w.cur).used - a + needSecs e σ t w before r) := by
  unfold finishTask
  simp only [hlast, hu, Bool.false_eq_true, if_false]

/-- what a finished backward walk leaves behind -/
def BackDone (e : Env) (σ : St) (t r : Nat) (fbOpt : Option Int) : Prop :=
  ∃ lo fb : Int, fbOpt = some fb ∧ lo ≤ fb ∧
    usageOf (σ.led.get r lo).usage t ≠ none ∧ usageOf (σ.led.get r fb).usage t ≠ none ∧
    (∀ i, usageOf (σ.led.get r i).usage t ≠ none → lo ≤ i ∧ i ≤ fb) ∧
    (∃ v, (σ.tst t).start = some v ∧ e.time lo ≤ v ∧ v ≤ e.time (lo + 1))

theorem scheduleSlot_binv (e : Env) (wf : WF e) (σ : St) (t r : Nat) (w : Walk) (vis : List Int)
    (hinv : Inv e σ) (hlf : (e.taskD t).leaf = true) (hw : WalkOk e t w)
    (ha : (e.taskD t).hasAlloc = true) (hm : (e.taskD t).milestone = false)
    (hsel : selectedOf e σ t w = [r]) (hlt : w.done < (e.taskD t).effort) (hpos : 0 < (e.taskD t).effort)
    (h : BInv e σ t r w vis) :
    ((scheduleSlot e σ t w).2.2 = true →
        BInv e (scheduleSlot e σ t w).1 t r (advance false w (scheduleSlot e σ t w).2.1) (w.cur :: vis)) ∧
    ((scheduleSlot e σ t w).2.2 = false →
        BackDone e (scheduleSlot e σ t w).1 t r (fbAfter w (scheduleSlot e σ t w).2.1)) := by
  have hsa := scheduleSlot_acc e wf σ t r false w vis hinv hlf hw ha hm hsel hlt hpos h.acc
  have hbf := book_bfst e wf σ t r w vis hinv hlf hw ha hsel h
  have hcur_notin : w.cur ∉ vis := by
    intro hin
    have := h.acc.before _ hin
    simp at this
  have hnone := h.acc.only _ hcur_notin
  obtain ⟨hdone, hframe, hselw, hcurw, hoffw, hlastw⟩ := bookResources_single_acc e wf σ t w r ha hsel hnone
  have hfr := bookResources_frame e σ t w
  have hb := bookResources_inv e σ t w wf hinv hlf hw
  have heff := wf.eff_pos r
  have hz : ((e.taskD t).effort == 0) = false := by
    simp only [beq_eq_false_iff_ne, ne_eq]; grind
  constructor
  · intro hc
    obtain ⟨hacc', _, _⟩ := hsa.1 hc
    have hst : (scheduleSlot e σ t w).1 = (bookResources e σ t w).1 ∧ (scheduleSlot e σ t w).2.1 = (bookResources e σ t w).2 := by
      unfold scheduleSlot at hc ⊢
      simp only [hm, hz, Bool.or_self, Bool.false_eq_true, if_false] at hc ⊢
      by_cases hfin : (bookResources e σ t w).2.done ≥ (e.taskD t).effort
      · simp only [hfin, if_true] at hc; exact Bool.noConfusion hc
      · simp only [hfin, if_false]; first | exact ⟨rfl, rfl⟩ | exact ⟨trivial, trivial⟩ | simp
    refine ⟨hacc', ?_, ?_, ?_⟩
    · rw [hst.1, hfr.2.2.2.2]; exact h.inb
    · rw [hst.1, hfr.2.2.2.1]; exact h.bwd
    · rw [hst.1]
      apply Bfst.of_firstBooked (w := { (bookResources e σ t w).2 with firstBooked := fbAfter w (bookResources e σ t w).2 })
      · rw [advance_back_firstBooked, hst.2]
      · exact hbf
  · intro hc
    have hex := hsa.2 hc
    have hfin : (bookResources e σ t w).2.done ≥ (e.taskD t).effort := by
      unfold scheduleSlot at hc
      simp only [hm, hz, Bool.or_self, Bool.false_eq_true, if_false] at hc
      by_cases hfin : (bookResources e σ t w).2.done ≥ (e.taskD t).effort
      · exact hfin
      · simp only [hfin, if_false] at hc; exact Bool.noConfusion hc
    have hgain : taskSecs ((bookResources e σ t w).1.led.get r w.cur) t ≠ 0 := by
      intro h0; rw [h0] at hdone; grind
    have hu := taskSecs_ne_zero _ _ hgain
    have haG := entry_le_G e _ hb r w.cur t _ hu
    have hlast : (bookResources e σ t w).2.last = some r := hlastw (by grind)
    have hge : (e.taskD t).effort ≤ w.done + taskSecs ((bookResources e σ t w).1.led.get r w.cur) t / 3600 * (e.resD r).eff := by
      rw [← hdone]; exact hfin
    have hfs := finishTask_secs e wf (bookResources e σ t w).1 t (bookResources e σ t w).2 w.done false r _
      hlast hselw (by rw [hcurw]; exact hu) haG hlt hge
    rw [hcurw] at hfs
    obtain ⟨hkeep, hfr2⟩ := hfs
    have fe := finish_exact (e.taskD t).effort w.done _ (e.resD r).eff heff hlt hge
    simp only [] at fe
    have hneed := needSecs_eq e (bookResources e σ t w).1 t (bookResources e σ t w).2 w.done r _ heff hlt hge haG
      (by rw [hcurw]; exact hu)
    have hshape : (scheduleSlot e σ t w).1.led = (finishTask e (bookResources e σ t w).1 t (bookResources e σ t w).2 w.done false).1.led ∧
        ((scheduleSlot e σ t w).1.tst t).start = some (finishTask e (bookResources e σ t w).1 t (bookResources e σ t w).2 w.done false).2 ∧
        (scheduleSlot e σ t w).2.1 = (bookResources e σ t w).2 := by
      unfold scheduleSlot
      simp only [hm, hz, Bool.or_self, Bool.false_eq_true, if_false, hfin, if_true, h.bwd]
      have hsz : t < (finishTask e (bookResources e σ t w).1 t (bookResources e σ t w).2 w.done false).1.ts.size := by
        rw [finishTask_ts, hfr.2.2.2.2]; exact h.inb
      refine ⟨rfl, ?_, trivial⟩
      show ((St.setT (finishTask e (bookResources e σ t w).1 t (bookResources e σ t w).2 w.done false).1 t _).tst t).start = _
      rw [tst_setT_same _ _ _ hsz]
    obtain ⟨hled, hstart, hwalk⟩ := hshape
    have hent : ∀ i, (usageOf ((scheduleSlot e σ t w).1.led.get r i).usage t = none ↔
        usageOf ((bookResources e σ t w).1.led.get r i).usage t = none) := by
      intro i
      rw [hled]
      by_cases hi : i = w.cur
      · subst hi; rw [hkeep, hu]; simp
      · rw [hfr2 r i (by intro hh; exact hi hh.2.symm)]
    have hbf' : Bfst (scheduleSlot e σ t w).1 t r
        { (bookResources e σ t w).2 with firstBooked := fbAfter w (bookResources e σ t w).2 } (w.cur :: vis) :=
      Bfst.transfer (fun i _ => hent i) hbf
    -- the first booked slot is known: the task has just gained effort
    have hsome : ∃ fb, fbAfter w (bookResources e σ t w).2 = some fb := by
      unfold fbAfter
      by_cases hn : (bookResources e σ t w).2.firstBooked.isNone = true
      · have hgt : (bookResources e σ t w).2.done > w.done := by grind
        simp [hn, hgt]
      · cases hfb : (bookResources e σ t w).2.firstBooked with
        | none => simp [hfb] at hn
        | some x => exact ⟨x, by simp⟩
    obtain ⟨fb, hfb⟩ := hsome
    obtain ⟨hfbmem, hfbne, hmax⟩ := hbf'.2 fb (by simpa using hfb)
    have hbefore : ∀ i ∈ vis, w.cur < i := by
      intro i hi; have := h.acc.before i hi; simpa using this
    have hcur_le : w.cur ≤ fb := by
      rcases List.mem_cons.mp hfbmem with hh | hh
      · omega
      · have := hbefore fb hh; omega
    rw [hwalk]
    refine ⟨w.cur, fb, hfb, hcur_le, ?_, hfbne, ?_, ?_⟩
    · intro hc2; have hc3 := (hent w.cur).mp hc2; rw [hu] at hc3; cases hc3
    · intro i hi
      have hin : i ∈ w.cur :: vis := by
        by_cases hmem : i ∈ w.cur :: vis
        · exact hmem
        · exact absurd (hex.2.1 i hmem) hi
      refine ⟨?_, hmax i hin hi⟩
      rcases List.mem_cons.mp hin with hh | hh
      · omega
      · have := hbefore i hh; omega
    · refine ⟨_, hstart, ?_⟩
      rw [finishTask_date_back e _ t _ w.done r _ hlast (by rw [hcurw]; exact hu), hcurw, hneed]
      have hs := hb.slot r w.cur
      have hle_sum := mem_le_usageSum _ hs.entries_nonneg _ (usageOf_mem hu)
      have h1 := hs.sum_le
      have h2 := hs.used_le
      simp only [] at hle_sum
      have hx0 : 0 ≤ ((bookResources e σ t w).1.led.get r w.cur).used - taskSecs ((bookResources e σ t w).1.led.get r w.cur) t +
          ((e.taskD t).effort - w.done) / ((e.resD r).eff / 3600) := by grind
      have hx1 : ((bookResources e σ t w).1.led.get r w.cur).used - taskSecs ((bookResources e σ t w).1.led.get r w.cur) t +
          ((e.taskD t).effort - w.done) / ((e.resD r).eff / 3600) ≤ (e.G : Rat) := by grind
      have hb1 := roundHalfEven_nonneg _ hx0
      have hb2 := roundHalfEven_mono_int _ e.G hx1
      rw [time_succ]
      omega

end SP

namespace SP

theorem walkLoop_back_done (e : Env) (wf : WF e) (t r : Nat) (fuel : Nat) (σ : St) (w : Walk) (vis : List Int)
    (hinv : Inv e σ) (hlf : (e.taskD t).leaf = true) (hw : WalkOk e t w)
    (ha : (e.taskD t).hasAlloc = true) (hm : (e.taskD t).milestone = false)
    (hsel : selectedOf e σ t w = [r]) (hlt : w.done < (e.taskD t).effort) (hpos : 0 < (e.taskD t).effort)
    (h : BInv e σ t r w vis) (hok : (walkLoop e t false fuel σ w).2.2 = true) :
    BackDone e (walkLoop e t false fuel σ w).1 t r (walkLoop e t false fuel σ w).2.1.firstBooked := by
  induction fuel generalizing σ w vis with
  | zero => simp [walkLoop] at hok
  | succ f ih =>
    have hs := scheduleSlot_inv e σ t w wf hinv hlf hw
    have hsa := scheduleSlot_acc e wf σ t r false w vis hinv hlf hw ha hm hsel hlt hpos h.acc
    have hsb := scheduleSlot_binv e wf σ t r w vis hinv hlf hw ha hm hsel hlt hpos h
    unfold walkLoop at hok ⊢
    simp only [] at hok ⊢
    by_cases hc : (scheduleSlot e σ t w).2.2 = true
    · simp only [hc, Bool.not_true, Bool.false_eq_true, if_false] at hok ⊢
      obtain ⟨_, hsel', hlt'⟩ := hsa.1 hc
      have hw1 := hs.2 hc
      by_cases hout : ((advance false w (scheduleSlot e σ t w).2.1).cur < 0 || (advance false w (scheduleSlot e σ t w).2.1).cur > e.upper) = true
      · simp only [hout, if_true] at hok
        exact Bool.noConfusion hok
      · simp only [hout, Bool.false_eq_true, if_false] at hok ⊢
        exact ih (scheduleSlot e σ t w).1 (advance false w (scheduleSlot e σ t w).2.1) (w.cur :: vis) hs.1
          (walkOk_advance e t wf _ _ _ hw1) (selectedOf_some e _ t _ [r] hsel') hlt' (hsb.1 hc) hok
    · have hc' : (scheduleSlot e σ t w).2.2 = false := by simpa using hc
      simp only [hc', Bool.not_false, if_true] at hok ⊢
      have := hsb.2 hc'
      unfold fbAfter at this
      simpa using this

/-- **one backward task, framing**: a successful `scheduleTask` of a backward effort task with the single resource `r`,
    started with nothing of the task on `r`, leaves it framed: bookings between the finishing slot and the first booked
    slot, start inside the former, end = end of the latter -/
theorem scheduleTask_framed_back_sel2 (e : Env) (wf : WF e) (σ : St) (t r : Nat)
    (hinv : Inv e σ) (hlf : (e.taskD t).leaf = true) (hal : (e.taskD t).hasAlloc = true)
    (hnm : (e.taskD t).milestone = false) (hpos : 0 < (e.taskD t).effort)
    (hsel0 : selectBest e (σ.setT t (σ.tst t)) (e.taskD t).alloc (e.taskD t).alt (e.taskD t).effort (initCursor e σ t).1 = [r])
    (hb : t < σ.ts.size) (hf : (σ.tst t).forward = false)
    (hnd : (σ.tst t).done = false) (hclean : ∀ i, usageOf (σ.led.get r i).usage t = none)
    (hok : (scheduleTask e σ t).2 = true) : Framed e (scheduleTask e σ t).1 t r ∧ Ordered (scheduleTask e σ t).1 t := by
  have hpc : preStartCursor e σ t (initCursor e σ t).1 = (initCursor e σ t).1 := by
    unfold preStartCursor; simp [hf]
  have hpt : preStartT e σ t (initCursor e σ t).1 = σ.tst t := by
    unfold preStartT; simp [hf]
  have hoff := initCursor_off e σ t wf
  unfold scheduleTask at hok ⊢
  simp only [hnd, Bool.false_eq_true, if_false, hpc, hpt, hf] at hok ⊢
  have h0 : Inv e (σ.setT t (σ.tst t)) := inv_setT _ _ hinv
  by_cases hout : ((initCursor e σ t).1 < 0 || (initCursor e σ t).1 > e.upper) = true
  · simp only [hout, if_true] at hok
    exact Bool.noConfusion hok
  · simp only [hout, Bool.false_eq_true, if_false] at hok ⊢
    have hw : WalkOk e t { cur := (initCursor e σ t).1, offset := (initCursor e σ t).2 } :=
      ⟨hoff.1, hoff.2, wf.effort_nonneg t⟩
    have hbi : BInv e (σ.setT t (σ.tst t)) t r { cur := (initCursor e σ t).1, offset := (initCursor e σ t).2 } [] := by
      refine ⟨⟨fun i _ => hclean i, fun i hi => absurd hi List.not_mem_nil,
          by show (0 : Rat) = sumOver _ r t [] / 3600 * (e.resD r).eff; simp only [sumOver]; grind, List.nodup_nil⟩,
        by rw [size_setT]; exact hb, by rw [tst_setT_same _ _ _ hb]; exact hf,
        ⟨fun _ i hi => absurd hi List.not_mem_nil, fun fb hfb => by simp at hfb⟩⟩
    have hs0 : selectedOf e (σ.setT t (σ.tst t)) t { cur := (initCursor e σ t).1, offset := (initCursor e σ t).2 } = [r] := by
      unfold selectedOf; exact hsel0
    by_cases hfin : (walkLoop e t false (e.size.toNat + 3) (σ.setT t (σ.tst t))
        { cur := (initCursor e σ t).1, offset := (initCursor e σ t).2 }).2.2 = true
    · simp only [hfin, Bool.not_true, Bool.false_eq_true, if_false] at hok ⊢
      obtain ⟨lo, fb, hfbw, hle, hlone, hfbne, hall, ⟨v, hv, hv1, hv2⟩⟩ :=
        walkLoop_back_done e wf t r _ _ _ [] h0 hlf hw hal hnm hs0 hpos hpos hbi hfin
      have hsz : t < (walkLoop e t false (e.size.toNat + 3) (σ.setT t (σ.tst t))
          { cur := (initCursor e σ t).1, offset := (initCursor e σ t).2 }).1.ts.size := by
        rw [(walkLoop_frame e t false _ _ _).2.2.2.2, size_setT]; exact hb
      have hdec : decide ((e.taskD t).effort > 0) = true := by simpa using hpos
      have hord : v ≤ e.time (fb + 1) := Int.le_trans hv2 (time_mono e wf _ _ (by omega))
      refine ⟨⟨lo, fb, hle, hlone, hfbne, hall, ⟨v, ?_, hv1, hv2⟩, ⟨e.time (fb + 1), ?_, ?_, Int.le_refl _⟩⟩,
        ⟨v, e.time (fb + 1), ?_, ?_, hord⟩⟩
      · rw [tst_setT_same _ _ _ hsz]
        unfold finalT
        simp only [Bool.false_eq_true, if_false, hv, Option.isNone_some, hdec, Bool.true_or, if_true]
      · rw [tst_setT_same _ _ _ hsz]
        unfold finalT
        simp only [Bool.false_eq_true, if_false, hv, Option.isNone_some, hdec, Bool.true_or, if_true, hfbw, Option.getD_some]
      · exact time_mono e wf _ _ (by omega)
      · rw [tst_setT_same _ _ _ hsz]
        unfold finalT
        simp only [Bool.false_eq_true, if_false, hv, Option.isNone_some, hdec, Bool.true_or, if_true]
      · rw [tst_setT_same _ _ _ hsz]
        unfold finalT
        simp only [Bool.false_eq_true, if_false, hv, Option.isNone_some, hdec, Bool.true_or, if_true, hfbw, Option.getD_some]
    · have hfin' : (walkLoop e t false (e.size.toNat + 3) (σ.setT t (σ.tst t))
        { cur := (initCursor e σ t).1, offset := (initCursor e σ t).2 }).2.2 = false := by simpa using hfin
      simp only [hfin', Bool.not_false, if_true] at hok
      exact Bool.noConfusion hok

theorem scheduleTask_framed_back_sel (e : Env) (wf : WF e) (σ : St) (t r : Nat)
    (hinv : Inv e σ) (hlf : (e.taskD t).leaf = true) (hal : (e.taskD t).hasAlloc = true)
    (hnm : (e.taskD t).milestone = false) (hpos : 0 < (e.taskD t).effort)
    (hsel0 : selectBest e (σ.setT t (σ.tst t)) (e.taskD t).alloc (e.taskD t).alt (e.taskD t).effort (initCursor e σ t).1 = [r])
    (hb : t < σ.ts.size) (hf : (σ.tst t).forward = false)
    (hnd : (σ.tst t).done = false) (hclean : ∀ i, usageOf (σ.led.get r i).usage t = none)
    (hok : (scheduleTask e σ t).2 = true) : Framed e (scheduleTask e σ t).1 t r := by
  have hpc : preStartCursor e σ t (initCursor e σ t).1 = (initCursor e σ t).1 := by
    unfold preStartCursor; simp [hf]
  have hpt : preStartT e σ t (initCursor e σ t).1 = σ.tst t := by
    unfold preStartT; simp [hf]
  have hoff := initCursor_off e σ t wf
  unfold scheduleTask at hok ⊢
  simp only [hnd, Bool.false_eq_true, if_false, hpc, hpt, hf] at hok ⊢
  have h0 : Inv e (σ.setT t (σ.tst t)) := inv_setT _ _ hinv
  by_cases hout : ((initCursor e σ t).1 < 0 || (initCursor e σ t).1 > e.upper) = true
  · simp only [hout, if_true] at hok
    exact Bool.noConfusion hok
  · simp only [hout, Bool.false_eq_true, if_false] at hok ⊢
    have hw : WalkOk e t { cur := (initCursor e σ t).1, offset := (initCursor e σ t).2 } :=
      ⟨hoff.1, hoff.2, wf.effort_nonneg t⟩
    have hbi : BInv e (σ.setT t (σ.tst t)) t r { cur := (initCursor e σ t).1, offset := (initCursor e σ t).2 } [] := by
      refine ⟨⟨fun i _ => hclean i, fun i hi => absurd hi List.not_mem_nil,
          by show (0 : Rat) = sumOver _ r t [] / 3600 * (e.resD r).eff; simp only [sumOver]; grind, List.nodup_nil⟩,
        by rw [size_setT]; exact hb, by rw [tst_setT_same _ _ _ hb]; exact hf,
        ⟨fun _ i hi => absurd hi List.not_mem_nil, fun fb hfb => by simp at hfb⟩⟩
    have hs0 : selectedOf e (σ.setT t (σ.tst t)) t { cur := (initCursor e σ t).1, offset := (initCursor e σ t).2 } = [r] := by
      unfold selectedOf; exact hsel0
    by_cases hfin : (walkLoop e t false (e.size.toNat + 3) (σ.setT t (σ.tst t))
        { cur := (initCursor e σ t).1, offset := (initCursor e σ t).2 }).2.2 = true
    · simp only [hfin, Bool.not_true, Bool.false_eq_true, if_false] at hok ⊢
      obtain ⟨lo, fb, hfbw, hle, hlone, hfbne, hall, ⟨v, hv, hv1, hv2⟩⟩ :=
        walkLoop_back_done e wf t r _ _ _ [] h0 hlf hw hal hnm hs0 hpos hpos hbi hfin
      have hsz : t < (walkLoop e t false (e.size.toNat + 3) (σ.setT t (σ.tst t))
          { cur := (initCursor e σ t).1, offset := (initCursor e σ t).2 }).1.ts.size := by
        rw [(walkLoop_frame e t false _ _ _).2.2.2.2, size_setT]; exact hb
      have hdec : decide ((e.taskD t).effort > 0) = true := by simpa using hpos
      refine ⟨lo, fb, hle, hlone, hfbne, hall, ⟨v, ?_, hv1, hv2⟩, ⟨e.time (fb + 1), ?_, ?_, Int.le_refl _⟩⟩
      · rw [tst_setT_same _ _ _ hsz]
        unfold finalT
        simp only [Bool.false_eq_true, if_false, hv, Option.isNone_some, hdec, Bool.true_or, if_true]
      · rw [tst_setT_same _ _ _ hsz]
        unfold finalT
        simp only [Bool.false_eq_true, if_false, hv, Option.isNone_some, hdec, Bool.true_or, if_true, hfbw, Option.getD_some]
      · exact time_mono e wf _ _ (by omega)
    · have hfin' : (walkLoop e t false (e.size.toNat + 3) (σ.setT t (σ.tst t))
        { cur := (initCursor e σ t).1, offset := (initCursor e σ t).2 }).2.2 = false := by simpa using hfin
      simp only [hfin', Bool.not_false, if_true] at hok
      exact Bool.noConfusion hok

/-- **one backward task, framing**, for a task whose selection is `[r]` in every state -/
theorem scheduleTask_framed_back (e : Env) (wf : WF e) (σ : St) (t r : Nat)
    (hinv : Inv e σ) (hel : Elig e t r) (hb : t < σ.ts.size) (hf : (σ.tst t).forward = false)
    (hnd : (σ.tst t).done = false) (hclean : ∀ i, usageOf (σ.led.get r i).usage t = none)
    (hok : (scheduleTask e σ t).2 = true) : Framed e (scheduleTask e σ t).1 t r :=
  scheduleTask_framed_back_sel e wf σ t r hinv hel.leaf hel.alloc hel.nomile hel.effort (hel.sel _ _) hb hf hnd hclean hok

end SP

namespace SP

/-- every completed task with a single selected resource is framed — forward or backward -/
def DoneFramedAll (e : Env) (σ : St) : Prop :=
  ∀ t r, Elig e t r → (σ.tst t).done = true → Framed e σ t r

structure FrInvAll (e : Env) (σ : St) (tasks : List Nat) : Prop where
  inv : Inv e σ
  nodup : tasks.Nodup
  leaf : ∀ t ∈ tasks, (e.taskD t).leaf = true
  inrange : ∀ t ∈ tasks, t < σ.ts.size
  pending : ∀ t ∈ tasks, (σ.tst t).done = false ∧ ∀ r i, usageOf (σ.led.get r i).usage t = none
  ok : DoneFramedAll e σ

theorem frInvAll_step (e : Env) (wf : WF e) (σ : St) (tasks : List Nat) (t0 : Nat) (h : FrInvAll e σ tasks)
    (hmem : t0 ∈ tasks) : FrInvAll e (updateContainers e (scheduleTask e σ t0).1) (tasks.erase t0) := by
  have hlf0 := h.leaf t0 hmem
  have hinv1 := scheduleTask_inv e σ t0 wf h.inv hlf0
  have hsame : ∀ x, (e.taskD x).leaf = true → x ≠ t0 →
      (updateContainers e (scheduleTask e σ t0).1).tst x = σ.tst x := by
    intro x hx hne
    rw [updateContainers_leaf e _ x hx, scheduleTask_other e σ t0 x hne]
  refine ⟨updateContainers_inv e _ hinv1, h.nodup.erase t0, fun t ht => h.leaf t (List.mem_of_mem_erase ht), ?_, ?_, ?_⟩
  · intro t ht
    rw [updateContainers_size, scheduleTask_size]; exact h.inrange t (List.mem_of_mem_erase ht)
  · intro t ht
    have htm : t ∈ tasks := List.mem_of_mem_erase ht
    have hne : t ≠ t0 := fun heq => by
      rw [heq] at ht; exact (List.Nodup.not_mem_erase h.nodup) ht
    obtain ⟨hd, hc⟩ := h.pending t htm
    refine ⟨by rw [hsame t (h.leaf t htm) hne]; exact hd, fun r i => ?_⟩
    rw [updateContainers_led, scheduleTask_same e σ t0 t (Ne.symm hne) r i]
    exact hc r i
  · intro t r hel hd
    by_cases heq : t = t0
    · subst heq
      rw [updateContainers_leaf e _ t hel.leaf] at hd
      obtain ⟨hnd, hclean⟩ := h.pending t hmem
      have hok := scheduleTask_done e σ t hnd hd
      have hfr : Framed e (scheduleTask e σ t).1 t r := by
        cases hfw : (σ.tst t).forward with
        | true => exact scheduleTask_framed e wf σ t r h.inv hel (h.inrange t hmem) hfw hnd (hclean r) hok
        | false => exact scheduleTask_framed_back e wf σ t r h.inv hel (h.inrange t hmem) hfw hnd (hclean r) hok
      exact Framed.of_same (SameEntries.of_led (updateContainers_led e _)) (updateContainers_leaf e _ t hel.leaf) hfr
    · have hts := hsame t hel.leaf heq
      rw [hts] at hd
      have hfr := h.ok t r hel hd
      refine Framed.of_same ?_ hts hfr
      exact (scheduleTask_same e σ t0 t (Ne.symm heq)).trans (SameEntries.of_led (updateContainers_led e _))

theorem DoneFramedAll.of_eq {e : Env} {σ σ' : St} (hl : σ'.led = σ.led) (ht : σ'.ts = σ.ts) (h : DoneFramedAll e σ) :
    DoneFramedAll e σ' := by
  unfold DoneFramedAll Framed St.tst at *
  rw [hl, ht]; exact h

theorem pickLoop_doneFramedAll (e : Env) (wf : WF e) (fuel : Nat) (tasks failed : List Nat) (σ : St)
    (h : FrInvAll e σ tasks) : DoneFramedAll e (pickLoop e fuel tasks failed σ).1 := by
  induction fuel generalizing tasks failed σ with
  | zero => exact h.ok
  | succ f ih =>
    unfold pickLoop
    split
    · exact h.ok
    · split
      · rename_i t0 hfind
        exact ih _ _ _ (frInvAll_step e wf σ tasks t0 h (List.mem_of_find?_eq_some hfind))
      · split
        · exact DoneFramedAll.of_eq (σ := σ) rfl rfl h.ok
        · exact h.ok

/-- **C06, both modes, end to end**: after scheduling any well-formed project, every completed effort task with a single
    selected resource `r` is framed -/
theorem runScenario_framed_all (e : Env) (wf : WF e) : DoneFramedAll e (runScenario e) := by
  unfold runScenario
  have hprep : Inv e (prepare e (initState e)) := prepare_inv e _ (inv_init e wf)
  have hd : DoneFalse (prepare e (initState e)) := prepare_doneFalse e _ (doneFalse_init e)
  have hsz : (prepare e (initState e)).ts.size = e.tasks.size := by rw [prepare_size, initState_size]
  have h2 : FrInvAll e (preLoop e (prepare e (initState e))) (todoOf e (preLoop e (prepare e (initState e)))) := by
    refine ⟨preLoop_inv e _ hprep, todoOf_nodup e _, todoOf_leaf e _, ?_, ?_, ?_⟩
    · intro t ht; rw [preLoop_size, hsz]; exact (todoOf_mem e _ t ht).1
    · intro t _
      refine ⟨preLoop_doneFalse e _ hd t, fun r i => ?_⟩
      rw [preLoop_led, prepare_led]; simp [initState, Ledger.get_empty, usageOf]
    · intro t r _ hdone
      rw [preLoop_doneFalse e _ hd t] at hdone
      exact Bool.noConfusion hdone
  have h3 := pickLoop_doneFramedAll e wf ((todoOf e (preLoop e (prepare e (initState e)))).length + 1)
    (todoOf e (preLoop e (prepare e (initState e)))) [] _ h2
  have h4 : DoneFramedAll e (scheduleScenario e (prepare e (initState e))) := by
    unfold scheduleScenario
    simp only []
    split
    · exact h3
    · exact DoneFramedAll.of_eq (σ := (pickLoop e ((todoOf e (preLoop e (prepare e (initState e)))).length + 1)
        (todoOf e (preLoop e (prepare e (initState e)))) [] (preLoop e (prepare e (initState e)))).1) rfl rfl h3
  intro t r hel hdn
  rw [finishScenario_leafT e _ t hel.leaf] at hdn
  exact Framed.of_same (SameEntries.of_led (finishScenario_led e _)) (finishScenario_leafT e _ t hel.leaf) (h4 t r hel hdn)

end SP
