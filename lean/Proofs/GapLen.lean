import Proofs.Walk
/-!
`gaplength`, full functional statement: the walk `lenWalk` ends at the instant at which EXACTLY the requested number of seconds
of project working time has passed since the date it starts from — no working slot is skipped, none is counted twice — or it
runs out of horizon with less than that.
-/
namespace SP

/-- seconds of project working time in `[a, b)` within the `n` slots from slot `i` on -/
def worked (e : Env) (a b : Int) : Nat → Int → Int
  | 0, _ => 0
  | n + 1, i => (if e.projWork i then max 0 (min b (e.time (i + 1)) - max a (e.time i)) else 0) + worked e a b n (i + 1)

theorem time_mono_G (e : Env) (hG : 0 < e.G) (i j : Int) (h : i ≤ j) : e.time i ≤ e.time j := by
  unfold Env.time
  have : i * e.G ≤ j * e.G := Int.mul_le_mul_of_nonneg_right h (Int.le_of_lt hG)
  omega

/-- the slots from `i` on do not see where, at or before the start of slot `i`, the interval begins -/
theorem worked_congr_left (e : Env) (hG : 0 < e.G) (a a' b : Int) (n : Nat) (i : Int) (h1 : a ≤ e.time i) (h2 : a' ≤ e.time i) :
    worked e a b n i = worked e a' b n i := by
  induction n generalizing i with
  | zero => rfl
  | succ n ih =>
    unfold worked
    have hs := time_mono_G e hG i (i + 1) (by omega)
    rw [ih (i + 1) (by omega) (by omega)]
    have e1 : max a (e.time i) = e.time i := by omega
    have e2 : max a' (e.time i) = e.time i := by omega
    rw [e1, e2]

/-- **`gaplength` counts exactly**: started at a date `dt` inside slot `i` (`time i ≤ dt ≤ time (i + 1)`) with `rem > 0` seconds
    to go and enough fuel, the walk ends at `out ≥ dt` such that for some number `n` of slots from `i` on, either the project
    working time in `[dt, out)` within those slots is exactly `rem` and `out` lies at or before the end of the last of them,
    or the horizon was reached (`upper < i + n`) with less than `rem` seconds of working time in between. -/
theorem lenWalk_exact (e : Env) (hG : 0 < e.G) (f : Nat) (rem i dt : Int) (h1 : e.time i ≤ dt) (h2 : dt ≤ e.time (i + 1))
    (hrem : 0 < rem) (hf : e.upper + 1 - i < (f : Int)) :
    ∃ n : Nat,
      (worked e dt (lenWalk e f rem i dt) n i = rem ∧ lenWalk e f rem i dt ≤ e.time (i + n)) ∨
      (worked e dt (lenWalk e f rem i dt) n i < rem ∧ e.upper < i + n) := by
  induction f generalizing rem i dt with
  | zero =>
    refine ⟨0, Or.inr ⟨?_, ?_⟩⟩
    · show (0 : Int) < rem; exact hrem
    · simp at hf ⊢; omega
  | succ f ih =>
    have hstep : e.time (i + 1) ≤ e.time (i + 1 + 1) := time_mono_G e hG _ _ (by omega)
    have hti : e.time (i + 1) = e.time i + e.G := by unfold Env.time; rw [Int.add_mul]; omega
    unfold lenWalk
    by_cases hc : (decide (rem > 0) && decide (i ≤ e.upper)) = true
    · simp only [hc, if_true]
      simp only [Bool.and_eq_true, decide_eq_true_eq] at hc
      by_cases hw : e.projWork i = true
      · simp only [hw, if_true]
        by_cases hu : e.G - (dt - e.time i) ≥ rem
        · -- the gap ends inside this slot
          simp only [hu, if_true]
          refine ⟨1, Or.inl ⟨?_, ?_⟩⟩
          · unfold worked worked
            simp only [hw, if_true]
            have e1 : min (dt + rem) (e.time (i + 1)) = dt + rem := by omega
            have e2 : max dt (e.time i) = dt := by omega
            rw [e1, e2]; omega
          · show dt + rem ≤ e.time (i + ((1 : Nat) : Int)); simp only [Int.natCast_one]; omega
        · -- the whole rest of this slot counts, the walk goes on
          simp only [hu, if_false]
          have hrem' : 0 < rem - (e.G - (dt - e.time i)) := by omega
          obtain ⟨n, hn⟩ := ih (rem - (e.G - (dt - e.time i))) (i + 1) (e.time (i + 1)) (Int.le_refl _) hstep hrem'
            (by push_cast at hf ⊢; omega)
          have hge := lenWalk_ge e hG f (rem - (e.G - (dt - e.time i))) (i + 1) (e.time (i + 1)) hstep
          refine ⟨n + 1, ?_⟩
          have hw1 : worked e dt (lenWalk e f (rem - (e.G - (dt - e.time i))) (i + 1) (e.time (i + 1))) (n + 1) i =
              (e.G - (dt - e.time i)) + worked e (e.time (i + 1)) (lenWalk e f (rem - (e.G - (dt - e.time i))) (i + 1) (e.time (i + 1))) n (i + 1) := by
            conv => lhs; unfold worked
            simp only [hw, if_true]
            rw [worked_congr_left e hG dt (e.time (i + 1)) _ n (i + 1) h2 (Int.le_refl _)]
            have e1 : min (lenWalk e f (rem - (e.G - (dt - e.time i))) (i + 1) (e.time (i + 1))) (e.time (i + 1)) = e.time (i + 1) := by omega
            have e2 : max dt (e.time i) = dt := by omega
            rw [e1, e2]; omega
          have hidx : i + 1 + (n : Int) = i + ((n + 1 : Nat) : Int) := by push_cast; omega
          rcases hn with ⟨hn1, hn2⟩ | ⟨hn1, hn2⟩
          · left; rw [hw1, hn1]; exact ⟨by omega, by rw [← hidx]; exact hn2⟩
          · right; rw [hw1]; exact ⟨by omega, by rw [← hidx]; exact hn2⟩
      · -- not a working slot of the project calendar: passed over
        simp only [hw, Bool.false_eq_true, if_false]
        obtain ⟨n, hn⟩ := ih rem (i + 1) (e.time (i + 1)) (Int.le_refl _) hstep hrem (by push_cast at hf ⊢; omega)
        refine ⟨n + 1, ?_⟩
        have hw1 : worked e dt (lenWalk e f rem (i + 1) (e.time (i + 1))) (n + 1) i =
            worked e (e.time (i + 1)) (lenWalk e f rem (i + 1) (e.time (i + 1))) n (i + 1) := by
          conv => lhs; unfold worked
          simp only [hw, Bool.false_eq_true, if_false]
          rw [worked_congr_left e hG dt (e.time (i + 1)) _ n (i + 1) h2 (Int.le_refl _)]; omega
        have hidx : i + 1 + (n : Int) = i + ((n + 1 : Nat) : Int) := by push_cast; omega
        rcases hn with ⟨hn1, hn2⟩ | ⟨hn1, hn2⟩
        · left; rw [hw1]; exact ⟨hn1, by rw [← hidx]; exact hn2⟩
        · right; rw [hw1]; exact ⟨hn1, by rw [← hidx]; exact hn2⟩
    · -- the horizon is behind: the walk stops
      simp only [hc, Bool.false_eq_true, if_false]
      simp only [Bool.and_eq_true, decide_eq_true_eq, not_and] at hc
      refine ⟨0, Or.inr ⟨?_, ?_⟩⟩
      · show (0 : Int) < rem; exact hrem
      · have := hc hrem; simp; omega

end SP
