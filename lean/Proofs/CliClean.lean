import Model.Cli
import Proofs.Cli
/-!
The cleanup invariant of `plan report` (used by C20 `no_leftover`): at every program point, every
path of the process that exists is one whose removal is still ahead — on the success path and in
every `except` handler.  Preservation is checked program point by program point (one lemma per
component of the invariant; each is a case analysis over `Pc` and the branches of that statement).
Also: termination within `fuel` steps (`run_exited`) and the ghost-trace bookkeeping.
-/
namespace SP.Cli
variable {B R : Type}

def Fresh (pid : Nat) (fs0 : FS B R) : Prop := ∀ p, owns pid p = true → fs0 p = none

def beforeRmIn : Pc → Bool
  | .h3 _ | .exited => false
  | _ => true
def beforeRmAuto : Pc → Bool
  | .rmIn | .exited | .h2 _ | .h3 _ => false
  | _ => true
def beforeRmDir : Pc → Bool
  | .rmAuto | .rmIn | .exited => false
  | _ => true
def afterMkDir : Pc → Bool
  | .autoA | .autoB | .autoC | .engine => true
  | _ => false

structure Clean (c : Config B) (fs0 : FS B R) (s : Local B R × FS B R) : Prop where
  frame : ∀ p, owns c.pid p = false → s.2 p = fs0 p
  fin : s.2 (tp c .stdinCopy) ≠ none → s.1.finSet = true ∧ beforeRmIn s.1.pc = true
  fauto : s.2 (tp c .autoCopy) ≠ none → (s.1.fautoSet = true ∧ beforeRmAuto s.1.pc = true) ∨ s.1.pc = .autoC
  dir : ∀ p, inTree c.pid p = true → s.2 p ≠ none → s.1.dirSet = true ∧ beforeRmDir s.1.pc = true
  flag : afterMkDir s.1.pc = true → s.1.dirSet = true
  flagIn : s.1.pc = .stdinWrite → s.1.finSet = true

set_option maxHeartbeats 1000000 in
theorem clean_step_fin (env : Env B R) (v : Variant) (c : Config B) (fs0 : FS B R) (s : Local B R × FS B R)
    (hv : v.f43 = true) (hout : c.out = none) (hfp : ∀ b, Footprint env v c.pid b c.rid c.fmt)
    (h : Clean c fs0 s) : (step env v c s).2 (tp c .stdinCopy) ≠ none → (step env v c s).1.finSet = true ∧ beforeRmIn (step env v c s).1.pc = true := by
  obtain ⟨l, fs⟩ := s
  obtain ⟨hF, hA, hB, hC, hD, hE⟩ := h
  have het : ∀ b k fs, applyOps fs (engineOps env v c.pid b c.rid c.fmt) (.tmp c.pid k) = fs (.tmp c.pid k) :=
    fun b k fs => engine_tmp env v c b fs (hfp b) k
  obtain ⟨pc, finSet, fautoSet, dirSet, orig, hash, sel, content, stdout, exit, trace⟩ := l
  simp only at hA hB hC hD hE
  cases pc <;> simp only [step, stepCore, raise, goto, hv, hout]
  all_goals (repeat' split)
  all_goals (try (simp_all [tp, beforeRmIn, beforeRmAuto, beforeRmDir, afterMkDir, inTree, het]; done))

set_option maxHeartbeats 1000000 in
theorem clean_step_fauto (env : Env B R) (v : Variant) (c : Config B) (fs0 : FS B R) (s : Local B R × FS B R)
    (hv : v.f43 = true) (hout : c.out = none) (hfp : ∀ b, Footprint env v c.pid b c.rid c.fmt)
    (h : Clean c fs0 s) : (step env v c s).2 (tp c .autoCopy) ≠ none → ((step env v c s).1.fautoSet = true ∧ beforeRmAuto (step env v c s).1.pc = true) ∨ (step env v c s).1.pc = .autoC := by
  obtain ⟨l, fs⟩ := s
  obtain ⟨hF, hA, hB, hC, hD, hE⟩ := h
  have het : ∀ b k fs, applyOps fs (engineOps env v c.pid b c.rid c.fmt) (.tmp c.pid k) = fs (.tmp c.pid k) :=
    fun b k fs => engine_tmp env v c b fs (hfp b) k
  obtain ⟨pc, finSet, fautoSet, dirSet, orig, hash, sel, content, stdout, exit, trace⟩ := l
  simp only at hA hB hC hD hE
  cases pc <;> simp only [step, stepCore, raise, goto, hv, hout]
  all_goals (repeat' split)
  all_goals (try (simp_all [tp, beforeRmIn, beforeRmAuto, beforeRmDir, afterMkDir, inTree, het]; done))

set_option maxHeartbeats 1000000 in
theorem clean_step_dir (env : Env B R) (v : Variant) (c : Config B) (fs0 : FS B R) (s : Local B R × FS B R)
    (hv : v.f43 = true) (hout : c.out = none) (hfp : ∀ b, Footprint env v c.pid b c.rid c.fmt)
    (h : Clean c fs0 s) : ∀ p, inTree c.pid p = true → (step env v c s).2 p ≠ none → (step env v c s).1.dirSet = true ∧ beforeRmDir (step env v c s).1.pc = true := by
  obtain ⟨l, fs⟩ := s
  obtain ⟨hF, hA, hB, hC, hD, hE⟩ := h
  have het : ∀ b k fs, applyOps fs (engineOps env v c.pid b c.rid c.fmt) (.tmp c.pid k) = fs (.tmp c.pid k) :=
    fun b k fs => engine_tmp env v c b fs (hfp b) k
  obtain ⟨pc, finSet, fautoSet, dirSet, orig, hash, sel, content, stdout, exit, trace⟩ := l
  simp only at hA hB hC hD hE
  cases pc <;> simp only [step, stepCore, raise, goto, hv, hout]
  all_goals (repeat' split)
  all_goals (
    intro p hp
    have h1 : p ≠ Path.tmp c.pid .stdinCopy := by intro e; rw [e] at hp; simp [inTree] at hp
    have h2 : p ≠ Path.tmp c.pid .autoCopy := by intro e; rw [e] at hp; simp [inTree] at hp
    have h3 := hC p hp
    clear hC)
  all_goals (try (simp_all [tp, beforeRmIn, beforeRmAuto, beforeRmDir, afterMkDir]; done))

set_option maxHeartbeats 1000000 in
theorem clean_step_flag (env : Env B R) (v : Variant) (c : Config B) (fs0 : FS B R) (s : Local B R × FS B R)
    (hv : v.f43 = true) (hout : c.out = none) (hfp : ∀ b, Footprint env v c.pid b c.rid c.fmt)
    (h : Clean c fs0 s) : afterMkDir (step env v c s).1.pc = true → (step env v c s).1.dirSet = true := by
  obtain ⟨l, fs⟩ := s
  obtain ⟨hF, hA, hB, hC, hD, hE⟩ := h
  have het : ∀ b k fs, applyOps fs (engineOps env v c.pid b c.rid c.fmt) (.tmp c.pid k) = fs (.tmp c.pid k) :=
    fun b k fs => engine_tmp env v c b fs (hfp b) k
  obtain ⟨pc, finSet, fautoSet, dirSet, orig, hash, sel, content, stdout, exit, trace⟩ := l
  simp only at hA hB hC hD hE
  cases pc <;> simp only [step, stepCore, raise, goto, hv, hout]
  all_goals (repeat' split)
  all_goals (try (simp_all [tp, beforeRmIn, beforeRmAuto, beforeRmDir, afterMkDir, inTree, het]; done))

set_option maxHeartbeats 1000000 in
theorem clean_step_flagIn (env : Env B R) (v : Variant) (c : Config B) (fs0 : FS B R) (s : Local B R × FS B R)
    (hv : v.f43 = true) (hout : c.out = none) (hfp : ∀ b, Footprint env v c.pid b c.rid c.fmt)
    (h : Clean c fs0 s) : (step env v c s).1.pc = .stdinWrite → (step env v c s).1.finSet = true := by
  obtain ⟨l, fs⟩ := s
  obtain ⟨hF, hA, hB, hC, hD, hE⟩ := h
  have het : ∀ b k fs, applyOps fs (engineOps env v c.pid b c.rid c.fmt) (.tmp c.pid k) = fs (.tmp c.pid k) :=
    fun b k fs => engine_tmp env v c b fs (hfp b) k
  obtain ⟨pc, finSet, fautoSet, dirSet, orig, hash, sel, content, stdout, exit, trace⟩ := l
  simp only at hA hB hC hD hE
  cases pc <;> simp only [step, stepCore, raise, goto, hv, hout]
  all_goals (repeat' split)
  all_goals (try (simp_all [tp, beforeRmIn, beforeRmAuto, beforeRmDir, afterMkDir, inTree, het]; done))


theorem clean_step (env : Env B R) (v : Variant) (c : Config B) (fs0 : FS B R) (s : Local B R × FS B R)
    (hv : v.f43 = true) (hout : c.out = none) (hfp : ∀ b, Footprint env v c.pid b c.rid c.fmt)
    (h : Clean c fs0 s) : Clean c fs0 (step env v c s) where
  frame := fun p hp => by
    obtain ⟨l, fs⟩ := s
    rw [step_frame env v c l fs hout hfp hp]
    exact h.frame p hp
  fin := clean_step_fin env v c fs0 s hv hout hfp h
  fauto := clean_step_fauto env v c fs0 s hv hout hfp h
  dir := clean_step_dir env v c fs0 s hv hout hfp h
  flag := clean_step_flag env v c fs0 s hv hout hfp h
  flagIn := clean_step_flagIn env v c fs0 s hv hout hfp h

theorem clean_init (c : Config B) (fs0 : FS B R) (hfresh : Fresh c.pid fs0) : Clean c fs0 ({}, fs0) where
  frame := fun _ _ => rfl
  fin := fun h => absurd (hfresh _ (owns_tp c _)) h
  fauto := fun h => absurd (hfresh _ (owns_tp c _)) h
  dir := fun p hp h => absurd (hfresh p (inTree_owns hp)) h
  flag := fun h => by simp [afterMkDir] at h
  flagIn := fun h => by simp at h

theorem clean_iter (env : Env B R) (v : Variant) (c : Config B) (fs0 : FS B R)
    (hv : v.f43 = true) (hout : c.out = none) (hfp : ∀ b, Footprint env v c.pid b c.rid c.fmt)
    (hfresh : Fresh c.pid fs0) (n : Nat) : Clean c fs0 (iter env v c n ({}, fs0)) := by
  induction n with
  | zero => exact clean_init c fs0 hfresh
  | succ n ih => exact clean_step env v c fs0 _ hv hout hfp ih

/-- a state that has exited with the invariant intact has the initial file system -/
theorem clean_exited (c : Config B) (fs0 : FS B R) (s : Local B R × FS B R) (hfresh : Fresh c.pid fs0)
    (h : Clean c fs0 s) (hx : s.1.pc = .exited) : ∀ p, s.2 p = fs0 p := by
  intro p
  cases ho : owns c.pid p
  · exact h.frame p ho
  · rw [hfresh p ho]
    cases hp : s.2 p with
    | none => rfl
    | some n =>
      exfalso
      have hne : s.2 p ≠ none := by simp [hp]
      cases p with
      | user n => simp [owns] at ho
      | outside f => simp [owns] at ho
      | inDir q f =>
        have hq : q = c.pid := by simpa [owns] using ho
        subst hq
        have := (h.dir _ (by simp [inTree]) hne).2
        simp [hx, beforeRmDir] at this
      | tmp q k =>
        have hq : q = c.pid := by simpa [owns] using ho
        subst hq
        cases k with
        | stdinCopy => have := (h.fin hne).2; simp [hx, beforeRmIn] at this
        | autoCopy =>
          rcases h.fauto hne with h1 | h1
          · have := h1.2; simp [hx, beforeRmAuto] at this
          · simp [hx] at h1
        | outDir => have := (h.dir _ (by simp [inTree]) hne).2; simp [hx, beforeRmDir] at this

/-! ### termination -/

def rank : Pc → Nat
  | .start => 19 | .stdinMk => 18 | .stdinWrite => 17 | .validate => 17 | .hash => 16 | .mkOutDir => 15
  | .autoA => 14 | .autoB => 13 | .autoC => 12 | .engine => 11 | .select => 10 | .readRep => 9 | .emit => 8
  | .rmOut => 7 | .rmAuto => 6 | .rmIn => 5 | .h1 _ => 3 | .h2 _ => 2 | .h3 _ => 1 | .exited => 0

theorem rank_step (env : Env B R) (v : Variant) (c : Config B) (s : Local B R × FS B R) :
    rank (step env v c s).1.pc ≤ rank s.1.pc - 1 := by
  obtain ⟨l, fs⟩ := s
  obtain ⟨pc, finSet, fautoSet, dirSet, orig, hash, sel, content, stdout, exit, trace⟩ := l
  cases pc <;> simp only [step, stepCore, raise, goto]
  all_goals (repeat' split)
  all_goals (try (simp_all [rank]; done))
  all_goals (generalize List.filter _ _ = fl; cases fl <;> simp [rank])

theorem rank_iter (env : Env B R) (v : Variant) (c : Config B) (n : Nat) (s : Local B R × FS B R) :
    rank (iter env v c n s).1.pc ≤ rank s.1.pc - n := by
  induction n with
  | zero => simp [iter]
  | succ n ih =>
    have := rank_step env v c (iter env v c n s)
    rw [iter_succ]; omega

/-- every run is over within `fuel` steps, whatever the input and the fault -/
theorem run_exited (env : Env B R) (v : Variant) (c : Config B) (fs : FS B R) :
    (run env v c fs).1.pc = .exited := by
  have h := rank_iter env v c fuel ({}, fs)
  have h0 : rank (run env v c fs).1.pc = 0 := by
    have : rank (({} : Local B R), fs).1.pc = 19 := rfl
    simp only [run]; rw [this] at h; simp only [fuel] at h ⊢; omega
  revert h0
  cases (run env v c fs).1.pc <;> simp [rank]

/-! ### the ghost trace -/

theorem stepCore_trace (env : Env B R) (v : Variant) (c : Config B) (l : Local B R) (w : View B R) :
    (stepCore env v c l w).1.trace = l.trace := by
  obtain ⟨pc, finSet, fautoSet, dirSet, orig, hash, sel, content, stdout, exit, trace⟩ := l
  cases pc <;> simp only [stepCore, raise, goto]
  all_goals (repeat' split)
  all_goals (try (simp_all; done))
  all_goals (generalize List.filter _ _ = fl; cases fl <;> simp)

/-- the file system is the initial one with the recorded write operations applied -/
theorem trace_applied (env : Env B R) (v : Variant) (c : Config B) (fs0 : FS B R) (n : Nat) :
    (iter env v c n ({}, fs0)).2 = applyOps fs0 (iter env v c n ({}, fs0)).1.trace := by
  induction n with
  | zero => rfl
  | succ n ih =>
    rw [iter_succ]
    simp only [step]
    rw [applyOps_append, stepCore_trace, ← ih]

/-- every recorded write operation is on the process's own paths -/
theorem trace_owned (env : Env B R) (v : Variant) (c : Config B) (fs0 : FS B R)
    (hout : c.out = none) (hfp : ∀ b, Footprint env v c.pid b c.rid c.fmt) (n : Nat) :
    ∀ op ∈ (iter env v c n ({}, fs0)).1.trace, OpOwned c.pid op := by
  induction n with
  | zero => intro op h; simp [iter] at h
  | succ n ih =>
    intro op h
    rw [iter_succ] at h
    simp only [step, List.mem_append, stepCore_trace] at h
    rcases h with h | h
    · exact ih op h
    · exact stepCore_ops_owned env v c _ _ hout hfp op h

/-! ### `leftover`: paths created and not removed, read off the trace -/

theorem leftoverStep_exists (fs : FS B R) (acc : List Path) (op : Op B R)
    (h : ∀ p ∈ acc, fs p ≠ none) : ∀ p ∈ leftoverStep acc op, op.apply fs p ≠ none := by
  intro p hp
  cases op with
  | set q n =>
    simp only [leftoverStep] at hp
    by_cases hpq : p = q
    · simp [hpq]
    · have : p ∈ acc := by
        split at hp
        · exact hp
        · simpa [hpq] using hp
      simp [hpq, h p this]
  | del q =>
    simp only [leftoverStep, List.mem_filter, decide_eq_true_eq] at hp
    simp [hp.2, h p hp.1]
  | rmtree pid =>
    simp only [leftoverStep, List.mem_filter, Bool.not_eq_true'] at hp
    simp [hp.2, h p hp.1]

theorem leftover_exists_aux (tr : List (Op B R)) : ∀ (fs : FS B R) (acc : List Path),
    (∀ p ∈ acc, fs p ≠ none) → ∀ p ∈ tr.foldl leftoverStep acc, applyOps fs tr p ≠ none := by
  induction tr with
  | nil => intro fs acc h p hp; exact h p hp
  | cons op tr ih =>
    intro fs acc h p hp
    rw [applyOps_cons]
    exact ih (op.apply fs) (leftoverStep acc op) (leftoverStep_exists fs acc op h) p hp

/-- a path listed by `leftover` exists in the file system after the trace -/
theorem leftover_exists (fs : FS B R) (tr : List (Op B R)) (p : Path) (h : p ∈ leftover tr) :
    applyOps fs tr p ≠ none :=
  leftover_exists_aux tr fs [] (fun _ hp => by simp at hp) p h

theorem leftover_was_set_aux (tr : List (Op B R)) : ∀ (acc : List Path),
    ∀ p ∈ tr.foldl leftoverStep acc, p ∈ acc ∨ ∃ n, Op.set p n ∈ tr := by
  induction tr with
  | nil => intro acc p hp; exact Or.inl hp
  | cons op tr ih =>
    intro acc p hp
    rcases ih (leftoverStep acc op) p hp with h | ⟨n, hn⟩
    · cases op with
      | set q m =>
        simp only [leftoverStep] at h
        split at h
        · exact Or.inl h
        · simp only [List.mem_append, List.mem_singleton] at h
          rcases h with h | h
          · exact Or.inl h
          · exact Or.inr ⟨m, by simp [h]⟩
      | del q => simp only [leftoverStep, List.mem_filter] at h; exact Or.inl h.1
      | rmtree pid => simp only [leftoverStep, List.mem_filter] at h; exact Or.inl h.1
    · exact Or.inr ⟨n, by simp [hn]⟩

/-- a path listed by `leftover` was the target of a `set` -/
theorem leftover_was_set (tr : List (Op B R)) (p : Path) (h : p ∈ leftover tr) :
    ∃ n, Op.set p n ∈ tr := by
  rcases leftover_was_set_aux tr [] p h with h | h
  · simp at h
  · exact h

/-! ### the same facts for a complete run -/

theorem run_trace_applied (env : Env B R) (v : Variant) (c : Config B) (fs0 : FS B R) :
    (run env v c fs0).2 = applyOps fs0 (run env v c fs0).1.trace := by
  unfold run; exact trace_applied env v c fs0 fuel

theorem run_trace_owned (env : Env B R) (v : Variant) (c : Config B) (fs0 : FS B R)
    (hout : c.out = none) (hfp : ∀ b, Footprint env v c.pid b c.rid c.fmt) :
    ∀ op ∈ (run env v c fs0).1.trace, OpOwned c.pid op := by
  unfold run; exact trace_owned env v c fs0 hout hfp fuel

theorem clean_run (env : Env B R) (v : Variant) (c : Config B) (fs0 : FS B R)
    (hv : v.f43 = true) (hout : c.out = none) (hfp : ∀ b, Footprint env v c.pid b c.rid c.fmt)
    (hfresh : Fresh c.pid fs0) : Clean c fs0 (run env v c fs0) := by
  unfold run; exact clean_iter env v c fs0 hv hout hfp hfresh fuel

end SP.Cli
