import Proofs.TeamFit
import Proofs.NoIdleAlt
/-!
C07 for tasks with an alternative, with the SAME placement order as `runScenario_placement` / `runScenario_placementT`: on the
candidate chosen at the first slot the task takes the earliest slots not held by tasks placed before it.
-/
namespace SP

def DoneFitAlt (e : Env) (σ : St) (placed : List Nat) : Prop :=
  ∀ t r1 r2, EligAltU e t r1 r2 → (σ.tst t).done = true → (σ.tst t).forward = true →
    ∃ post pre, placed = post ++ t :: pre ∧
      ∃ r, (r = r1 ∨ r = r2) ∧ (∃ L, usageOf (σ.led.get r L).usage t ≠ none) ∧ FitAt e σ t r pre

structure FitInvA (e : Env) (σ : St) (tasks placed : List Nat) : Prop where
  baseT : FitInvT e σ tasks placed
  okA : DoneFitAlt e σ placed

theorem fitInvA_step (e : Env) (wf : WF e) (σ : St) (tasks placed : List Nat) (t0 : Nat) (h : FitInvA e σ tasks placed)
    (hfind : tasks.find? (fun t => ready e σ t) = some t0) :
    FitInvA e (updateContainers e (scheduleTask e σ t0).1) (tasks.erase t0) (t0 :: placed) := by
  have hb := fitInvT_step e wf σ tasks placed t0 h.baseT hfind
  refine ⟨hb, ?_⟩
  have hbase := h.baseT.base
  have hmem : t0 ∈ tasks := List.mem_of_find?_eq_some hfind
  have hready : ready e σ t0 = true := by
    have := List.find?_some hfind; simpa using this
  have hlf0 := hbase.leaf t0 hmem
  obtain ⟨hnp0, hus0, hnd0, hclean0, hstart0⟩ := hbase.pending t0 hmem
  have hsame : ∀ x, x ≠ t0 → ((e.taskD x).leaf = true ∨ (σ.tst x).scheduled = true) →
      (updateContainers e (scheduleTask e σ t0).1).tst x = σ.tst x := by
    intro x hne hx
    rw [updateContainers_fixed e _ x (by rw [scheduleTask_other e σ t0 x hne]; exact hx), scheduleTask_other e σ t0 x hne]
  intro t r1 r2 hel hd hfw
  by_cases heq : t = t0
  · subst heq
    rw [updateContainers_leaf e _ t hel.el.leaf] at hd hfw
    rw [scheduleTask_self_forward] at hfw
    have hok := scheduleTask_done e σ t hnd0 hd
    have hdeps := ready_forward_deps e σ t hfw hready
    have htgt : ∀ dp ∈ (e.taskD t).allDeps, (updateContainers e (scheduleTask e σ t).1).tst dp.target = σ.tst dp.target := by
      intro dp hdp
      have hxs := hdeps dp hdp
      exact hsame dp.target (fun hx => by rw [hx, hus0] at hxs; exact Bool.noConfusion hxs) (Or.inr hxs)
    refine ⟨[], placed, rfl, ?_⟩
    have hstart := hstart0 ⟨hel.el.leaf, hel.el.effort, hel.el.nomile⟩
    have hic : (initCursor e σ t).1 = boundSlot e σ t := by
      rw [initCursor_forward e σ t hfw hel.nostart]
      unfold boundSlot boundOf baseOf
      rw [hstart]
      cases (e.taskD t).start <;> rfl
    have key : ∀ r, (e.resD r).leaf = true →
        selectBest e (σ.setT t (σ.tst t)) [r1] [r2] (e.taskD t).effort (initCursor e σ t).1 = [r] →
        (∃ L, usageOf ((updateContainers e (scheduleTask e σ t).1).led.get r L).usage t ≠ none) ∧
        FitAt e (updateContainers e (scheduleTask e σ t).1) t r placed := by
      intro r hrl hsr
      have hsel1 : selectBest e (σ.setT t (σ.tst t)) (e.taskD t).alloc (e.taskD t).alt (e.taskD t).effort
          (initCursor e σ t).1 = [r] := by rw [hel.el.prim, hel.el.alt]; exact hsr
      refine ⟨?_, ?_⟩
      · obtain ⟨fb, _, _, hfb, _⟩ := scheduleTask_framed_sel e wf σ t r hbase.inv hel.el.leaf hel.el.alloc hel.el.nomile
          hel.el.effort hsel1 (hbase.inrange t hmem) hfw hnd0 (hclean0 r) hok
        exact ⟨fb, by rw [updateContainers_led]; exact hfb⟩
      intro L hL i hbi hiL hon hnl
      rw [boundSlot_congr e σ _ t (fun dp hdp => by rw [htgt dp hdp]; exact ⟨rfl, rfl⟩)] at hbi
      have := scheduleTask_fit_sel e wf σ t r placed hbase.inv hbase.solid hel.el.leaf hel.el.alloc hel.el.nomile hel.el.effort
        hsel1 (hbase.inrange t hmem) hfw hnd0 (hclean0 r) hrl hbase.owned hnp0 hok L
        (by rw [updateContainers_led] at hL; exact hL) i (by rw [hic]; exact hbi) hiL hon hnl
      rw [updateContainers_led]
      rcases this with h1 | h1 | h1
      · exact Or.inl h1
      · exact Or.inr (Or.inl h1)
      · exact Or.inr (Or.inr (exhausted_closed_step (fun lid ro hr =>
          closed_updateContainers (refuses_closed e lid i ro) _ hr) h1))
    rcases selectBest_alt e (σ.setT t (σ.tst t)) r1 r2 (e.taskD t).effort (initCursor e σ t).1 with hs | hs
    · exact ⟨r1, Or.inl rfl, key r1 hel.leaf1 hs⟩
    · exact ⟨r2, Or.inr rfl, key r2 hel.leaf2 hs⟩
  · have htsame := hsame t heq (Or.inl hel.el.leaf)
    rw [htsame] at hd hfw
    obtain ⟨post, pre, hsplit, r, hr, ⟨L0, hL0⟩, hfit⟩ := h.okA t r1 r2 hel hd hfw
    have hdeps := hbase.deps t hel.el.leaf hd hfw
    have htgt : ∀ dp ∈ (e.taskD t).allDeps, (updateContainers e (scheduleTask e σ t0).1).tst dp.target = σ.tst dp.target := by
      intro dp hdp
      have hxs := hdeps dp hdp
      exact hsame dp.target (fun hx => by rw [hx, hus0] at hxs; exact Bool.noConfusion hxs) (Or.inr hxs)
    refine ⟨t0 :: post, pre, by rw [hsplit]; rfl, r, hr,
      ⟨L0, by rw [updateContainers_led, scheduleTask_same e σ t0 t (Ne.symm heq) r L0]; exact hL0⟩, ?_⟩
    intro L hL i hbi hiL hon hnl
    rw [boundSlot_congr e σ _ t (fun dp hdp => by rw [htgt dp hdp]; exact ⟨rfl, rfl⟩)] at hbi
    rw [updateContainers_led, scheduleTask_same e σ t0 t (Ne.symm heq) r L] at hL
    rw [updateContainers_led, scheduleTask_same e σ t0 t (Ne.symm heq) r i]
    rcases hfit L hL i hbi hiL hon hnl with h1 | ⟨t', ht', h1⟩ | h1
    · exact Or.inl h1
    · right; left
      refine ⟨t', ht', ?_⟩
      have hne : t0 ≠ t' := by
        intro h5
        apply hnp0
        rw [hsplit, h5]
        exact List.mem_append_right _ (List.mem_cons_of_mem _ ht')
      rw [scheduleTask_same e σ t0 t' hne r i]
      exact h1
    · right; right
      exact exhausted_closed_step (fun lid ro hr =>
        closed_updateContainers (refuses_closed e lid i ro) _
          (closed_scheduleTask (refuses_closed e lid i ro) wf σ t0 hbase.inv hlf0 trivial hr)) h1

theorem pickLoop_doneFitA (e : Env) (wf : WF e) (fuel : Nat) (tasks failed placed : List Nat) (σ : St)
    (h : FitInvA e σ tasks placed) :
    ∃ placed' rest, Placement e (pickLoop e fuel tasks failed σ).1 placed' rest ∧
      DoneFitT e (pickLoop e fuel tasks failed σ).1 placed' ∧ DoneFitAlt e (pickLoop e fuel tasks failed σ).1 placed' := by
  induction fuel generalizing tasks failed placed σ with
  | zero => exact ⟨placed, tasks, h.baseT.base.placement, h.baseT.okT, h.okA⟩
  | succ f ih =>
    unfold pickLoop
    split
    · exact ⟨placed, tasks, h.baseT.base.placement, h.baseT.okT, h.okA⟩
    · split
      · rename_i t0 hfind
        exact ih _ _ _ _ (fitInvA_step e wf σ tasks placed t0 h hfind)
      · split
        · exact ⟨placed, tasks, h.baseT.base.placement, h.baseT.okT, h.okA⟩
        · exact ⟨placed, tasks, h.baseT.base.placement, h.baseT.okT, h.okA⟩

/-- transport of the earliest-fit statement of one task through the end of the scenario -/
theorem fitAt_finish (e : Env) (tr : Tree e) (t r : Nat) (pre : List Nat)
    (h : FitAt e (scheduleScenario e (prepare e (initState e))) t r pre) : FitAt e (runScenario e) t r pre := by
  have hc := scheduleScenario_cont e tr
  have hsd := finishScenario_sameDates e _ hc.1 hc.2
  unfold runScenario
  intro L hL i hbi hiL hon hnl
  rw [boundSlot_congr e (scheduleScenario e (prepare e (initState e))) _ t
    (fun dp _ => ⟨(hsd dp.target).1, (hsd dp.target).2.1⟩)] at hbi
  rw [finishScenario_led] at hL ⊢
  rcases h L hL i hbi hiL hon hnl with h1 | h1 | h1
  · exact Or.inl h1
  · exact Or.inr (Or.inl h1)
  · exact Or.inr (Or.inr (exhausted_closed_step (fun lid ro hr => closed_finishScenario (refuses_closed e lid i ro) _ hr) h1))

/-- **C07 with an alternative, end to end**, with one placement order for single-resource tasks, unlimited teams and tasks with
    an alternative: there are an order of placement and a list of tasks never placed such that the list-schedule statement
    (`Placement`) and the team statement (`DoneFitT`) hold for it, and every completed forward effort task `t` without a start
    of its own with one primary and one alternative resource (both leaves) occurs in the order, is booked on ONE of its two
    candidates, and on that one, between the slot of its dependency bound and any slot in which it is booked, every working slot
    carries `t` itself, or a task placed BEFORE `t`, or is refused by a limit. -/
theorem runScenario_placementA (e : Env) (wf : WF e) (tr : Tree e) :
    ∃ order rest, Placement e (runScenario e) order rest ∧ DoneFitT e (runScenario e) order ∧
      DoneFitAlt e (runScenario e) order := by
  have hprep : Inv e (prepare e (initState e)) := prepare_inv e _ (inv_init e wf)
  have hsol : Solid e (prepare e (initState e)) := closed_prepare (solid_closed e wf) _ (solid_init e wf)
  have hd : DoneFalse (prepare e (initState e)) := prepare_doneFalse e _ (doneFalse_init e)
  have hempty : ∀ r i, ((prepare e (initState e)).led.get r i).usage = [] := by
    intro r i; rw [prepare_led]; simp [initState, Ledger.get_empty]
  have h2 := fitInv_init e wf _ hprep hsol hd (by rw [prepare_size, initState_size]) hempty
    (prepare_startAttr e _ (startAttr_init e))
  have h2A : FitInvA e (preLoop e (prepare e (initState e))) (todoOf e (preLoop e (prepare e (initState e)))) [] := by
    refine ⟨⟨h2, ?_⟩, ?_⟩
    · intro t sel _ hdone
      rw [preLoop_doneFalse e _ hd t] at hdone
      exact Bool.noConfusion hdone
    · intro t r1 r2 _ hdone
      rw [preLoop_doneFalse e _ hd t] at hdone
      exact Bool.noConfusion hdone
  obtain ⟨order, rest, hpl, hT, hA⟩ := pickLoop_doneFitA e wf ((todoOf e (preLoop e (prepare e (initState e)))).length + 1)
    (todoOf e (preLoop e (prepare e (initState e)))) [] [] _ h2A
  have hc := scheduleScenario_cont e tr
  have hsd := finishScenario_sameDates e _ hc.1 hc.2
  have hss : ∀ (P : St → Prop), P (pickLoop e ((todoOf e (preLoop e (prepare e (initState e)))).length + 1)
      (todoOf e (preLoop e (prepare e (initState e)))) [] (preLoop e (prepare e (initState e)))).1 →
      (∀ σ w, P σ → P { σ with warnings := w }) → P (scheduleScenario e (prepare e (initState e))) := by
    intro P h1 h2'
    unfold scheduleScenario
    simp only []
    split
    · exact h1
    · exact h2' _ _ h1
  have hTs : DoneFitT e (scheduleScenario e (prepare e (initState e))) order :=
    hss (fun σ => DoneFitT e σ order) hT (fun σ w h => h)
  have hPs : Placement e (scheduleScenario e (prepare e (initState e))) order rest :=
    hss (fun σ => Placement e σ order rest) hpl (fun σ w h => h)
  have hAs : DoneFitAlt e (scheduleScenario e (prepare e (initState e))) order :=
    hss (fun σ => DoneFitAlt e σ order) hA (fun σ w h => h)
  refine ⟨order, rest, ?_, ?_, ?_⟩
  · obtain ⟨h, hord, hplf, hrl⟩ := hPs
    refine ⟨?_, ?_, hplf, hrl⟩
    · intro t r hel hdone hfw
      unfold runScenario at hdone hfw
      rw [finishScenario_leafT e _ t hel.el.leaf] at hdone hfw
      obtain ⟨post, pre, hsplit, hfit⟩ := h t r hel hdone hfw
      exact ⟨post, pre, hsplit, fitAt_finish e tr t r pre hfit⟩
    · unfold runScenario
      intro post pre t0 hsplit t ht
      have htl : (e.taskD t).leaf = true := by
        rcases ht with h1 | h1
        · exact hrl t h1
        · exact hplf t (by rw [hsplit]; exact List.mem_append_left _ h1)
      rcases hord post pre t0 hsplit t ht with h1 | h1 | ⟨dp, hdp, h1⟩
      · exact Or.inl h1
      · right; left; rw [finishScenario_leafT e _ t htl]; exact h1
      · right; right
        refine ⟨dp, hdp, ?_⟩
        rcases h1 with h2' | h2' | ⟨h2', h3⟩
        · exact Or.inl h2'
        · exact Or.inr (Or.inl h2')
        · right; right
          refine ⟨h2', ?_⟩
          rw [finishScenario_leafT e _ dp.target (hplf _ (by rw [hsplit]; exact List.mem_append_right _ (List.mem_cons_of_mem _ h2')))]
          exact h3
  · unfold runScenario
    intro t sel hel hdone hfw
    rw [finishScenario_leafT e _ t hel.el.leaf] at hdone hfw
    obtain ⟨post, pre, hsplit, hfit⟩ := hTs t sel hel hdone hfw
    refine ⟨post, pre, hsplit, ?_⟩
    intro L m0 hm0 hL i hbi hiL hall
    rw [boundSlot_congr e (scheduleScenario e (prepare e (initState e))) _ t
      (fun dp _ => ⟨(hsd dp.target).1, (hsd dp.target).2.1⟩)] at hbi
    rw [finishScenario_led] at hL ⊢
    rcases hfit L m0 hm0 hL i hbi hiL hall with h1 | h1 | h1
    · exact Or.inl h1
    · exact Or.inr (Or.inl h1)
    · exact Or.inr (Or.inr (teamTight_closed_step (fun lid ro hr =>
        closed_finishScenario (tight_closed e lid i ro _) _ hr) h1))
  · intro t r1 r2 hel hdone hfw
    unfold runScenario at hdone hfw
    rw [finishScenario_leafT e _ t hel.el.leaf] at hdone hfw
    obtain ⟨post, pre, hsplit, r, hr, ⟨L0, hL0⟩, hfit⟩ := hAs t r1 r2 hel hdone hfw
    refine ⟨post, pre, hsplit, r, hr, ⟨L0, ?_⟩, fitAt_finish e tr t r pre hfit⟩
    unfold runScenario
    rw [finishScenario_led]; exact hL0

end SP
