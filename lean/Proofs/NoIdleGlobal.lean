import Proofs.NoIdle
import Proofs.DepAll
/-!
C08 for whole scenarios (forward mode, single unlimited resource): in the final ledger, between the slot of its dependency
bound — computed from the final dates of its predecessors — and any slot the task is booked in, no working slot of the
resource is without an entry.
-/
namespace SP

/-! ### before it is scheduled, an effort leaf carries the start attribute it was given -/

def StartAttr (e : Env) (σ : St) : Prop := ∀ t, EffLeaf e t → (σ.tst t).start = (e.taskD t).start

theorem startAttr_init (e : Env) : StartAttr e (initState e) := by
  intro t _
  unfold initState St.tst Env.taskD
  simp only [Array.getD_eq_getD_getElem?, Array.getElem?_map]
  cases e.tasks[t]? <;> rfl

theorem startAttr_setT (e : Env) (σ : St) (x : Nat) (v : TSt) (h : StartAttr e σ)
    (hv : EffLeaf e x → v.start = (e.taskD x).start) : StartAttr e (σ.setT x v) := by
  intro t hel
  rw [tst_setT]
  split
  · rename_i hx; exact hx.1 ▸ hv (hx.1 ▸ hel)
  · exact h t hel

theorem foldl_setT_startAttr (e : Env) (f : St → Nat → TSt) (l : List Nat) (σ : St) (h : StartAttr e σ)
    (hf : ∀ acc t, StartAttr e acc → EffLeaf e t → (f acc t).start = (e.taskD t).start) :
    StartAttr e (l.foldl (fun (acc : St) t => acc.setT t (f acc t)) σ) := by
  induction l generalizing σ with
  | nil => exact h
  | cons x xs ih =>
    simp only [List.foldl_cons]
    exact ih _ (startAttr_setT e σ x _ h (hf σ x h))

theorem projAlapT_start (e : Env) (σ : St) (t : Nat) : (projAlapT e σ t).start = (σ.tst t).start := by
  unfold projAlapT; simp only []; split <;> rfl

theorem containerEndT_start (e : Env) (σ0 acc : St) (t : Nat) : (containerEndT e σ0 acc t).start = (acc.tst t).start := by
  unfold containerEndT; simp only []
  repeat' split
  all_goals rfl

theorem prepare_startAttr (e : Env) (σ : St) (h : StartAttr e σ) : StartAttr e (prepare e σ) := by
  unfold prepare propagateContainerEnds
  apply foldl_setT_startAttr
  · apply foldl_setT_startAttr e _ _ _ h
    intro acc t hacc hel
    rw [projAlapT_start]; exact hacc t hel
  · intro acc t hacc hel
    rw [containerEndT_start]; exact hacc t hel

theorem markAlap_startAttr (e : Env) (fuel : Nat) (stack processed : List Nat) (σ : St) (h : StartAttr e σ) :
    StartAttr e (markAlap e fuel stack processed σ).1 := by
  induction fuel generalizing stack processed σ with
  | zero => unfold markAlap; exact h
  | succ f ih =>
    cases stack with
    | nil => unfold markAlap; exact h
    | cons t stack =>
      unfold markAlap
      simp only []
      split
      · exact ih _ _ _ h
      · split
        · exact ih _ _ _ h
        · split
          · exact ih _ _ _ h
          · exact ih _ _ _ (startAttr_setT e σ t _ h (fun hel => h t hel))

theorem propagateAlap_startAttr (e : Env) (σ : St) (h : StartAttr e σ) : StartAttr e (propagateAlap e σ) := by
  unfold propagateAlap
  simp only []
  have : ∀ (l : List Nat) (acc : St × List Nat), StartAttr e acc.1 →
      StartAttr e (l.foldl (fun (acc : St × List Nat) a =>
        markAlap e (e.tasks.size * e.tasks.size + e.tasks.size + 1)
          (((e.taskD a).deps.map (·.target)).filter (fun p => !(if acc.2.contains a then acc.2 else a :: acc.2).contains p))
          (if acc.2.contains a then acc.2 else a :: acc.2) acc.1) acc).1 := by
    intro l
    induction l with
    | nil => intro acc hacc; exact hacc
    | cons x xs ih =>
      intro acc hacc
      simp only [List.foldl_cons]
      exact ih _ (markAlap_startAttr e _ _ _ _ hacc)
  exact this _ (σ, []) h

theorem preLoop_startAttr (e : Env) (σ : St) (h : StartAttr e σ) : StartAttr e (preLoop e σ) := by
  unfold preLoop
  have h1 : StartAttr e (milestonePrepass e σ) := by
    unfold milestonePrepass
    apply foldl_setT_startAttr e _ _ _ h
    intro acc t hacc hel
    rw [prepassT_effLeaf e acc t hel]; exact hacc t hel
  have h2 := propagateAlap_startAttr e _ h1
  unfold updateContainers
  apply foldl_setT_startAttr e _ _ _ h2
  intro acc t hacc hel
  rw [rollupT_leaf e acc t hel.1]; exact hacc t hel

/-! ### the pick loop -/

/-- a forward effort task with the single selected resource `r`, a leaf; the task has no start of its own -/
structure EligU (e : Env) (t r : Nat) : Prop where
  el : Elig e t r
  nostart : (e.taskD t).startProvided = false
  rleaf : (e.resD r).leaf = true

/-- the base of the dependency bound: the project start, or a later start inherited from a container -/
def baseOf (e : Env) (t : Nat) : Int :=
  match (e.taskD t).start with
  | some s => max e.start s
  | none => e.start

/-- the slot of the dependency bound, from the dates the state gives the predecessors -/
def boundSlot (e : Env) (σ : St) (t : Nat) : Int := (cursorOf e (earliestStart e σ (e.taskD t).allDeps (baseOf e t))).1

def NoIdleAt (e : Env) (σ : St) (t r : Nat) : Prop :=
  ∀ L, usageOf (σ.led.get r L).usage t ≠ none →
    ∀ i, boundSlot e σ t ≤ i → i ≤ L → e.onShift r i = true → e.leaveMark r i = false → Has r i σ ∨ Exhausted e σ t r i

def DoneIdle (e : Env) (σ : St) : Prop :=
  ∀ t r, EligU e t r → (σ.tst t).done = true → (σ.tst t).forward = true →
    (∀ dp ∈ (e.taskD t).allDeps, (σ.tst dp.target).scheduled = true) ∧ NoIdleAt e σ t r

structure IdleInv (e : Env) (σ : St) (tasks : List Nat) : Prop where
  inv : Inv e σ
  solid : Solid e σ
  nodup : tasks.Nodup
  leaf : ∀ t ∈ tasks, (e.taskD t).leaf = true
  inrange : ∀ t ∈ tasks, t < σ.ts.size
  pending : ∀ t ∈ tasks, (σ.tst t).scheduled = false ∧ (σ.tst t).done = false ∧
    (∀ r i, usageOf (σ.led.get r i).usage t = none) ∧ (EffLeaf e t → (σ.tst t).start = (e.taskD t).start)
  ok : DoneIdle e σ

theorem earliestStart_congr (e : Env) (σ σ' : St) (deps : List Dep) (base : Int)
    (h : ∀ dp ∈ deps, (σ'.tst dp.target).start = (σ.tst dp.target).start ∧ (σ'.tst dp.target).stop = (σ.tst dp.target).stop) :
    earliestStart e σ' deps base = earliestStart e σ deps base := by
  unfold earliestStart
  induction deps generalizing base with
  | nil => rfl
  | cons d ds ih =>
    simp only [List.foldl_cons]
    obtain ⟨h1, h2⟩ := h d List.mem_cons_self
    rw [h1, h2]
    exact ih _ (fun dp hdp => h dp (List.mem_cons_of_mem _ hdp))

theorem boundSlot_congr (e : Env) (σ σ' : St) (t : Nat)
    (h : ∀ dp ∈ (e.taskD t).allDeps, (σ'.tst dp.target).start = (σ.tst dp.target).start ∧ (σ'.tst dp.target).stop = (σ.tst dp.target).stop) :
    boundSlot e σ' t = boundSlot e σ t := by
  unfold boundSlot; rw [earliestStart_congr e σ σ' _ _ h]

theorem idleInv_step (e : Env) (wf : WF e) (σ : St) (tasks : List Nat) (t0 : Nat) (h : IdleInv e σ tasks)
    (hmem : t0 ∈ tasks) (hready : ready e σ t0 = true) :
    IdleInv e (updateContainers e (scheduleTask e σ t0).1) (tasks.erase t0) := by
  have hlf0 := h.leaf t0 hmem
  obtain ⟨hus0, hnd0, hclean0, hstart0⟩ := h.pending t0 hmem
  have hinv1 := scheduleTask_inv e σ t0 wf h.inv hlf0
  have hsame : ∀ x, x ≠ t0 → ((e.taskD x).leaf = true ∨ (σ.tst x).scheduled = true) →
      (updateContainers e (scheduleTask e σ t0).1).tst x = σ.tst x := by
    intro x hne hx
    rw [updateContainers_fixed e _ x (by rw [scheduleTask_other e σ t0 x hne]; exact hx), scheduleTask_other e σ t0 x hne]
  refine ⟨updateContainers_inv e _ hinv1,
    closed_updateContainers (solid_closed e wf) _ (closed_scheduleTask (solid_closed e wf) wf σ t0 h.inv hlf0 trivial h.solid),
    h.nodup.erase t0, fun t ht => h.leaf t (List.mem_of_mem_erase ht), ?_, ?_, ?_⟩
  · intro t ht
    rw [updateContainers_size, scheduleTask_size]; exact h.inrange t (List.mem_of_mem_erase ht)
  · intro t ht
    have htm : t ∈ tasks := List.mem_of_mem_erase ht
    have hne : t ≠ t0 := fun heq => by
      rw [heq] at ht; exact (List.Nodup.not_mem_erase h.nodup) ht
    obtain ⟨h1, h2, h3, h4⟩ := h.pending t htm
    rw [hsame t hne (Or.inl (h.leaf t htm))]
    refine ⟨h1, h2, fun r i => ?_, h4⟩
    rw [updateContainers_led, scheduleTask_same e σ t0 t (Ne.symm hne) r i]
    exact h3 r i
  · intro t r hel hd hfw
    by_cases heq : t = t0
    · subst heq
      rw [updateContainers_leaf e _ t hel.el.leaf] at hd hfw
      rw [scheduleTask_self_forward] at hfw
      have hok := scheduleTask_done e σ t hnd0 hd
      have hdeps := ready_forward_deps e σ t hfw hready
      have htgt : ∀ dp ∈ (e.taskD t).allDeps, (updateContainers e (scheduleTask e σ t).1).tst dp.target = σ.tst dp.target := by
        intro dp hdp
        have hxs := hdeps dp hdp
        exact hsame dp.target (fun hx => by rw [hx, hus0] at hxs; exact Bool.noConfusion hxs) (Or.inr hxs)
      refine ⟨fun dp hdp => by rw [htgt dp hdp]; exact hdeps dp hdp, ?_⟩
      intro L hL i hbi hiL hon hnl
      rw [boundSlot_congr e σ _ t (fun dp hdp => by rw [htgt dp hdp]; exact ⟨rfl, rfl⟩)] at hbi
      have hstart := hstart0 ⟨hel.el.leaf, hel.el.effort, hel.el.nomile⟩
      have hic : (initCursor e σ t).1 = boundSlot e σ t := by
        rw [initCursor_forward e σ t hfw hel.nostart]
        unfold boundSlot boundOf baseOf
        rw [hstart]
        cases (e.taskD t).start <;> rfl
      have := scheduleTask_no_idle_interval e wf σ t r h.inv h.solid hel.el (h.inrange t hmem) hfw hnd0 (hclean0 r)
        hel.rleaf hok L (by rw [updateContainers_led] at hL; exact hL) i (by rw [hic]; exact hbi) hiL hon hnl
      rcases this with h1 | h1
      · left; unfold Has at h1 ⊢; rw [updateContainers_led]; exact h1
      · right
        exact exhausted_closed_step (fun lid ro hr =>
          closed_updateContainers (refuses_closed e lid i ro) _ hr) h1
    · have htsame := hsame t heq (Or.inl hel.el.leaf)
      rw [htsame] at hd hfw
      obtain ⟨hdeps, hidle⟩ := h.ok t r hel hd hfw
      have htgt : ∀ dp ∈ (e.taskD t).allDeps, (updateContainers e (scheduleTask e σ t0).1).tst dp.target = σ.tst dp.target := by
        intro dp hdp
        have hxs := hdeps dp hdp
        exact hsame dp.target (fun hx => by rw [hx, hus0] at hxs; exact Bool.noConfusion hxs) (Or.inr hxs)
      refine ⟨fun dp hdp => by rw [htgt dp hdp]; exact hdeps dp hdp, ?_⟩
      intro L hL i hbi hiL hon hnl
      rw [boundSlot_congr e σ _ t (fun dp hdp => by rw [htgt dp hdp]; exact ⟨rfl, rfl⟩)] at hbi
      rw [updateContainers_led, scheduleTask_same e σ t0 t (Ne.symm heq) r L] at hL
      rcases hidle L hL i hbi hiL hon hnl with h1 | h1
      · left
        have h2 := closed_scheduleTask (has_closed e r i) wf σ t0 h.inv hlf0 trivial h1
        unfold Has at h2 ⊢
        rw [updateContainers_led]; exact h2
      · right
        exact exhausted_closed_step (fun lid ro hr =>
          closed_updateContainers (refuses_closed e lid i ro) _
            (closed_scheduleTask (refuses_closed e lid i ro) wf σ t0 h.inv hlf0 trivial hr)) h1

theorem DoneIdle.of_eq {e : Env} {σ σ' : St} (hl : σ'.led = σ.led) (ht : σ'.ts = σ.ts) (hc : σ'.cnt = σ.cnt)
    (h : DoneIdle e σ) : DoneIdle e σ' := by
  unfold DoneIdle NoIdleAt boundSlot earliestStart Has Exhausted Refuses limitOk St.tst at *
  rw [hl, ht, hc]; exact h

theorem pickLoop_doneIdle (e : Env) (wf : WF e) (fuel : Nat) (tasks failed : List Nat) (σ : St)
    (h : IdleInv e σ tasks) : DoneIdle e (pickLoop e fuel tasks failed σ).1 := by
  induction fuel generalizing tasks failed σ with
  | zero => exact h.ok
  | succ f ih =>
    unfold pickLoop
    split
    · exact h.ok
    · split
      · rename_i t0 hfind
        have hmem : t0 ∈ tasks := List.mem_of_find?_eq_some hfind
        have hready : ready e σ t0 = true := by
          have := List.find?_some hfind; simpa using this
        exact ih _ _ _ (idleInv_step e wf σ tasks t0 h hmem hready)
      · split
        · exact DoneIdle.of_eq (σ := σ) rfl rfl rfl h.ok
        · exact h.ok

/-! ### the scenario -/

theorem scheduleScenario_doneIdle (e : Env) (wf : WF e) (σ : St) (hinv : Inv e σ) (hs : Solid e σ) (hd : DoneFalse σ)
    (hsz : σ.ts.size = e.tasks.size) (hempty : ∀ r i, (σ.led.get r i).usage = []) (hst : StartAttr e σ) :
    DoneIdle e (scheduleScenario e σ) := by
  unfold scheduleScenario
  simp only []
  have h2 : IdleInv e (preLoop e σ) (todoOf e (preLoop e σ)) := by
    refine ⟨preLoop_inv e σ hinv, closed_preLoop (solid_closed e wf) σ hs, todoOf_nodup e _, todoOf_leaf e _, ?_, ?_, ?_⟩
    · intro t ht; rw [preLoop_size, hsz]; exact (todoOf_mem e _ t ht).1
    · intro t ht
      refine ⟨(todoOf_mem e _ t ht).2, preLoop_doneFalse e σ hd t, fun r i => ?_, fun hel => preLoop_startAttr e σ hst t hel⟩
      rw [preLoop_led, hempty r i]; rfl
    · intro t r _ hdone
      rw [preLoop_doneFalse e σ hd t] at hdone
      exact Bool.noConfusion hdone
  have h3 := pickLoop_doneIdle e wf ((todoOf e (preLoop e σ)).length + 1) (todoOf e (preLoop e σ)) [] (preLoop e σ) h2
  split
  · exact h3
  · exact DoneIdle.of_eq (σ := (pickLoop e ((todoOf e (preLoop e σ)).length + 1) (todoOf e (preLoop e σ)) [] (preLoop e σ)).1) rfl rfl rfl h3

/-- **C08, forward mode, end to end.**  After scheduling any well-formed project with a well-formed task tree: for every
    completed forward effort task `t` without a start of its own whose single selected resource `r` is a leaf, every
    predecessor is scheduled, and between the slot of the dependency bound — the latest of the project start, an inherited
    start and every predecessor's (start | end) + gap, all taken from the FINAL schedule — and any slot `L` in which `t` is
    booked, every slot in which `r` is on shift and not on leave carries an entry in the final ledger, unless a limit of the
    resource (own or of a group) or of the task (own or of a container) refuses it in the final state (its counter for that
    day / week is at the limit): no working, unbooked slot within the limits is left between the bound and the end. -/
theorem runScenario_doneIdle (e : Env) (wf : WF e) (tr : Tree e) : DoneIdle e (runScenario e) := by
  unfold runScenario
  have hprep : Inv e (prepare e (initState e)) := prepare_inv e _ (inv_init e wf)
  have hsol : Solid e (prepare e (initState e)) := closed_prepare (solid_closed e wf) _ (solid_init e wf)
  have hd : DoneFalse (prepare e (initState e)) := prepare_doneFalse e _ (doneFalse_init e)
  have hempty : ∀ r i, ((prepare e (initState e)).led.get r i).usage = [] := by
    intro r i; rw [prepare_led]; simp [initState, Ledger.get_empty]
  have h := scheduleScenario_doneIdle e wf _ hprep hsol hd (by rw [prepare_size, initState_size]) hempty
    (prepare_startAttr e _ (startAttr_init e))
  have hc := scheduleScenario_cont e tr
  have hsd := finishScenario_sameDates e _ hc.1 hc.2
  intro t r hel hdone hfw
  rw [finishScenario_leafT e _ t hel.el.leaf] at hdone hfw
  obtain ⟨hdeps, hidle⟩ := h t r hel hdone hfw
  refine ⟨fun dp hdp => by rw [(hsd dp.target).2.2]; exact hdeps dp hdp, ?_⟩
  intro L hL i hbi hiL hon hnl
  rw [boundSlot_congr e (scheduleScenario e (prepare e (initState e))) _ t
    (fun dp _ => ⟨(hsd dp.target).1, (hsd dp.target).2.1⟩)] at hbi
  rw [finishScenario_led] at hL
  rcases hidle L hL i hbi hiL hon hnl with h1 | h1
  · left; unfold Has at h1 ⊢; rw [finishScenario_led]; exact h1
  · right
    exact exhausted_closed_step (fun lid ro hr => closed_finishScenario (refuses_closed e lid i ro) _ hr) h1

end SP
