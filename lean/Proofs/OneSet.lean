import Proofs.Frame
import Proofs.Counted
import Proofs.EffortGlobal
/-!
C03, third clause, for whole scenarios: all the bookings of a task lie on the members of ONE candidate set — the primary
allocation or the alternative one, whichever `_selectBestResources` chose at the task's first slot.
-/
namespace SP

/-- every entry of task `t` lies on a resource of `S` -/
def OnlyOn (t : Nat) (S : List Nat) (σ : St) : Prop := ∀ r i, usageOf (σ.led.get r i).usage t ≠ none → r ∈ S

theorem selectBest_cases (e : Env) (σ : St) (prim alt : List Nat) (effort : Rat) (cur : Int) :
    selectBest e σ prim alt effort cur = [] ∨ selectBest e σ prim alt effort cur = prim ∨
    selectBest e σ prim alt effort cur = alt := by
  unfold selectBest
  split
  · exact Or.inl rfl
  · split
    · exact Or.inr (Or.inl rfl)
    · split
      · exact Or.inr (Or.inr rfl)
      · split
        · exact Or.inr (Or.inr rfl)
        · split
          · exact Or.inr (Or.inr rfl)
          · exact Or.inr (Or.inl rfl)
        · exact Or.inr (Or.inl rfl)

theorem reserve_entry (s : Slot) (c : Rat) (t : Nat) : usageOf (s.reserve c).usage t = usageOf s.usage t := by
  rw [reserve_usage]

theorem levelTeam_entries (σ : St) (cur : Int) (sel : List Nat) (t r : Nat) (i : Int) :
    usageOf ((levelTeam σ cur sel).led.get r i).usage t = usageOf (σ.led.get r i).usage t := by
  unfold levelTeam
  have : ∀ (l : List Nat) (acc : St) (c : Rat),
      usageOf ((l.foldl (fun acc r => reserveAt acc r cur c) acc).led.get r i).usage t = usageOf (acc.led.get r i).usage t := by
    intro l
    induction l with
    | nil => intro acc c; rfl
    | cons x xs ih =>
      intro acc c
      simp only [List.foldl_cons]
      rw [ih, reserveAt_get]
      split
      · rename_i h; rw [reserve_entry, h.1, h.2]
      · rfl
  exact this _ _ _

theorem leveled_entries (e : Env) (σ : St) (t0 : Nat) (cur : Int) (sel : List Nat) (t r : Nat) (i : Int) :
    usageOf ((leveled e σ t0 cur sel).led.get r i).usage t = usageOf (σ.led.get r i).usage t := by
  unfold leveled
  split
  · exact levelTeam_entries σ cur sel t r i
  · rfl

theorem bookAll_offsel (e : Env) (σ : St) (t : Nat) (w : Walk) (sel : List Nat) (r' : Nat) (i' : Int) (h : r' ∉ sel) :
    (bookAll e σ t w sel).σ.led.get r' i' = σ.led.get r' i' := by
  unfold bookAll
  have : ∀ (l : List Nat) (a : BookAcc), r' ∉ l → (l.foldl (bookOne e t w) a).σ.led.get r' i' = a.σ.led.get r' i' := by
    intro l
    induction l with
    | nil => intro a _; rfl
    | cons x xs ih =>
      intro a hl
      simp only [List.foldl_cons]
      rw [ih _ (fun hm => hl (List.mem_cons_of_mem _ hm))]
      unfold bookOne; simp only []
      have hne : ¬ (x = r' ∧ w.cur = i') := fun hh => hl (hh.1 ▸ List.mem_cons_self)
      split <;> exact bookResource_frame e a.σ t w x r' i' hne
  exact this sel _ h

/-- `bookResources` creates entries of the task on the selected resources only -/
theorem bookResources_onlyOn (e : Env) (σ : St) (t : Nat) (w : Walk) (S : List Nat) (h : OnlyOn t S σ)
    (hsel' : (e.taskD t).hasAlloc = true → ∀ r ∈ selectedOf e σ t w, r ∈ S) : OnlyOn t S (bookResources e σ t w).1 := by
  unfold bookResources
  split
  · exact h
  · rename_i hal
    have hsel := hsel' (by simpa using hal)
    simp only []
    split
    · exact h
    · split
      · exact h
      · have hacc : OnlyOn t S (bookAll e (leveled e σ t w.cur (selectedOf e σ t w)) t
            { w with selected := some (selectedOf e σ t w) } (selectedOf e σ t w)).σ := by
          intro r i hu
          by_cases hr : r ∈ selectedOf e σ t w
          · exact hsel r hr
          · rw [bookAll_offsel e _ t _ _ r i hr, leveled_entries] at hu
            exact h r i hu
        split
        · intro r i hu; rw [markStart_led] at hu; exact hacc r i hu
        · exact hacc

theorem releaseOthers_onlyOn (σ : St) (t : Nat) (cur : Int) (r0 : Nat) (need : Rat) (sel : List Nat) (S : List Nat)
    (h : OnlyOn t S σ) : OnlyOn t S (releaseOthers σ t cur r0 need sel) := by
  unfold releaseOthers
  apply foldl_inv (fun acc => OnlyOn t S acc) _ sel σ h
  intro acc m hacc
  split
  · exact hacc
  · split
    · exact hacc
    · intro r i hu
      simp only [Ledger.get_set] at hu
      split at hu
      · rename_i heq; rw [← heq.1]; exact hacc m cur (release_entry _ t t _ hu)
      · exact hacc r i hu

theorem finishTask_onlyOn (e : Env) (σ : St) (t : Nat) (w : Walk) (before : Rat) (fwd : Bool) (S : List Nat)
    (h : OnlyOn t S σ) : OnlyOn t S (finishTask e σ t w before fwd).1 := by
  unfold finishTask
  split
  · exact h
  · rename_i r0 _
    simp only []
    apply releaseOthers_onlyOn
    intro r i hu
    have hu' : usageOf ((σ.led.set r0 w.cur ((σ.led.get r0 w.cur).release t (needSecs e σ t w before r0))).get r i).usage t ≠ none := hu
    simp only [Ledger.get_set] at hu'
    split at hu'
    · rename_i heq; rw [← heq.1]; exact h r0 w.cur (release_entry _ t t _ hu')
    · exact h r i hu'

theorem scheduleSlot_onlyOn (e : Env) (σ : St) (t : Nat) (w : Walk) (S : List Nat) (h : OnlyOn t S σ)
    (hsel : (e.taskD t).hasAlloc = true → ∀ r ∈ selectedOf e σ t w, r ∈ S) : OnlyOn t S (scheduleSlot e σ t w).1 := by
  unfold scheduleSlot
  simp only []
  split
  · split
    · split <;> exact h
    · split <;> exact h
  · have hb := bookResources_onlyOn e σ t w S h hsel
    split
    · exact finishTask_onlyOn e _ t _ _ _ S hb
    · exact hb

/-- the selection made in a slot is the one the walk carries on -/
theorem scheduleSlot_selected (e : Env) (σ : St) (t : Nat) (w : Walk) (ha : (e.taskD t).hasAlloc = true)
    (hc : (scheduleSlot e σ t w).2.2 = true) : (scheduleSlot e σ t w).2.1.selected = some (selectedOf e σ t w) := by
  unfold scheduleSlot at hc ⊢
  simp only [] at hc ⊢
  split
  · rename_i hm; simp only [hm, if_true] at hc; split at hc <;> (split at hc <;> exact Bool.noConfusion hc)
  · rename_i hm
    simp only [hm, Bool.false_eq_true, if_false] at hc
    have hsel : (bookResources e σ t w).2.selected = some (selectedOf e σ t w) := by
      unfold bookResources
      simp only [ha, Bool.not_true, Bool.false_eq_true, if_false]
      split
      · rfl
      · split
        · rfl
        · split <;> rfl
    split
    · rename_i hfin; simp only [hfin, if_true] at hc; exact Bool.noConfusion hc
    · exact hsel

theorem walkLoop_onlyOn (e : Env) (t : Nat) (fwd : Bool) (fuel : Nat) (σ : St) (w : Walk) (S : List Nat) (h : OnlyOn t S σ)
    (hsel : (e.taskD t).hasAlloc = true → ∀ r ∈ selectedOf e σ t w, r ∈ S) :
    OnlyOn t S (walkLoop e t fwd fuel σ w).1 := by
  induction fuel generalizing σ w with
  | zero => exact h
  | succ f ih =>
    unfold walkLoop
    simp only []
    have hs := scheduleSlot_onlyOn e σ t w S h hsel
    split
    · exact hs
    · rename_i hc
      have hcont : (scheduleSlot e σ t w).2.2 = true := by simpa using hc
      split
      · exact hs
      · apply ih _ _ hs
        intro ha
        have hsl := scheduleSlot_selected e σ t w ha hcont
        have : selectedOf e (scheduleSlot e σ t w).1 t (advance fwd w (scheduleSlot e σ t w).2.1) = selectedOf e σ t w := by
          apply selectedOf_some
          show (scheduleSlot e σ t w).2.1.selected = _
          exact hsl
        rw [this]; exact hsel ha

/-- **one task**: started without entries, the task ends up booked on the members of one candidate set only: nobody, the primary
    allocation, or the alternative one -/
theorem scheduleTask_oneSet (e : Env) (σ : St) (t : Nat) (hclean : ∀ r i, usageOf (σ.led.get r i).usage t = none) :
    ∃ S, (S = [] ∨ S = (e.taskD t).alloc ∨ S = (e.taskD t).alt) ∧ OnlyOn t S (scheduleTask e σ t).1 := by
  have h0 : ∀ S, OnlyOn t S σ := fun S r i hu => absurd (hclean r i) hu
  unfold scheduleTask
  simp only []
  split
  · exact ⟨[], Or.inl rfl, h0 []⟩
  · split
    · exact ⟨[], Or.inl rfl, h0 []⟩
    · -- the selection of the first slot
      refine ⟨selectBest e (σ.setT t (preStartT e σ t (initCursor e σ t).1)) (e.taskD t).alloc (e.taskD t).alt (e.taskD t).effort
        (preStartCursor e σ t (initCursor e σ t).1), selectBest_cases e _ _ _ _ _, ?_⟩
      have hw := walkLoop_onlyOn e t (σ.tst t).forward (e.size.toNat + 3) (σ.setT t (preStartT e σ t (initCursor e σ t).1))
        { cur := preStartCursor e σ t (initCursor e σ t).1, offset := (initCursor e σ t).2 }
        (selectBest e (σ.setT t (preStartT e σ t (initCursor e σ t).1)) (e.taskD t).alloc (e.taskD t).alt (e.taskD t).effort
          (preStartCursor e σ t (initCursor e σ t).1))
        (h0 _) (fun _ r hr => hr)
      split
      · exact hw
      · exact hw

/-- what holds of every task: its entries lie on one candidate set -/
def OneSet (e : Env) (σ : St) : Prop :=
  ∀ t, ∃ S, (S = [] ∨ S = (e.taskD t).alloc ∨ S = (e.taskD t).alt) ∧ OnlyOn t S σ

structure OneSetInv (e : Env) (σ : St) (tasks : List Nat) : Prop where
  nodup : tasks.Nodup
  pending : ∀ t ∈ tasks, ∀ r i, usageOf (σ.led.get r i).usage t = none
  ok : OneSet e σ

theorem oneSet_step (e : Env) (σ : St) (tasks : List Nat) (t0 : Nat) (h : OneSetInv e σ tasks) (hmem : t0 ∈ tasks) :
    OneSetInv e (updateContainers e (scheduleTask e σ t0).1) (tasks.erase t0) := by
  refine ⟨h.nodup.erase t0, ?_, ?_⟩
  · intro t ht r i
    have htm : t ∈ tasks := List.mem_of_mem_erase ht
    have hne : t ≠ t0 := fun heq => by
      rw [heq] at ht; exact (List.Nodup.not_mem_erase h.nodup) ht
    rw [updateContainers_led, scheduleTask_same e σ t0 t (Ne.symm hne) r i]
    exact h.pending t htm r i
  · intro t
    by_cases heq : t = t0
    · subst heq
      obtain ⟨S, hS, hon⟩ := scheduleTask_oneSet e σ t (h.pending t hmem)
      exact ⟨S, hS, fun r i hu => hon r i (by rw [updateContainers_led] at hu; exact hu)⟩
    · obtain ⟨S, hS, hon⟩ := h.ok t
      refine ⟨S, hS, fun r i hu => hon r i ?_⟩
      rw [updateContainers_led, scheduleTask_same e σ t0 t (Ne.symm heq) r i] at hu
      exact hu

theorem OneSet.of_led {e : Env} {σ σ' : St} (hl : σ'.led = σ.led) (h : OneSet e σ) : OneSet e σ' := by
  unfold OneSet OnlyOn at *; rw [hl]; exact h

theorem pickLoop_oneSet (e : Env) (fuel : Nat) (tasks failed : List Nat) (σ : St) (h : OneSetInv e σ tasks) :
    OneSet e (pickLoop e fuel tasks failed σ).1 := by
  induction fuel generalizing tasks failed σ with
  | zero => exact h.ok
  | succ f ih =>
    unfold pickLoop
    split
    · exact h.ok
    · split
      · rename_i t0 hfind
        exact ih _ _ _ (oneSet_step e σ tasks t0 h (List.mem_of_find?_eq_some hfind))
      · split
        · exact OneSet.of_led (σ := σ) rfl h.ok
        · exact h.ok

/-- **C03, third clause, end to end.**  After scheduling any project, all the bookings of any task lie on the members of one
    candidate set: its primary allocation, or its alternative allocation — never a mixture of the two. -/
theorem runScenario_oneSet (e : Env) : OneSet e (runScenario e) := by
  unfold runScenario
  apply OneSet.of_led (finishScenario_led e _)
  unfold scheduleScenario
  simp only []
  have hempty : ∀ r i, ((preLoop e (prepare e (initState e))).led.get r i).usage = [] := by
    intro r i; rw [preLoop_led, prepare_led]; simp [initState, Ledger.get_empty]
  have h2 : OneSetInv e (preLoop e (prepare e (initState e))) (todoOf e (preLoop e (prepare e (initState e)))) := by
    refine ⟨todoOf_nodup e _, fun t _ r i => by rw [hempty r i]; rfl, fun t => ⟨[], Or.inl rfl, fun r i hu => ?_⟩⟩
    rw [hempty r i] at hu; exact absurd rfl hu
  have h3 := pickLoop_oneSet e ((todoOf e (preLoop e (prepare e (initState e)))).length + 1)
    (todoOf e (preLoop e (prepare e (initState e)))) [] _ h2
  split
  · exact h3
  · exact OneSet.of_led (σ := (pickLoop e _ _ [] _).1) rfl h3

end SP
