import Model.Sched
import Proofs.Ledger
import Proofs.Slots
/-!
Safety invariants of the scheduler state, preserved by every state-changing function of
`Model/Sched.lean`:
  * every (resource, slot) satisfies `SlotInv` (C01),
  * a slot that carries a booking is on shift for a leaf resource (C02 a, C10),
  * every limit counter is at most its limit (C05).
-/
namespace SP

/-! ### finite-map access lemmas (the only facts about `Std.HashMap` the proofs use) -/

theorem Ledger.get_set (L : Ledger) (r : Nat) (i : Int) (s : Slot) (r' : Nat) (i' : Int) :
    (L.set r i s).get r' i' = if r = r' ∧ i = i' then s else L.get r' i' := by
  unfold Ledger.get Ledger.set
  rw [Std.HashMap.getD_insert]
  by_cases h : r = r' ∧ i = i'
  · obtain ⟨h1, h2⟩ := h; subst h1; subst h2; simp
  · have : ((r, i) == (r', i')) = false := by
      simp only [beq_eq_false_iff_ne, ne_eq, Prod.mk.injEq]; exact h
    simp [this, h]

theorem Counters.get_set (C : Counters) (l : Nat) (k : Int) (v : Int) (l' : Nat) (k' : Int) :
    (C.set l k v).get l' k' = if l = l' ∧ k = k' then v else C.get l' k' := by
  unfold Counters.get Counters.set
  rw [Std.HashMap.getD_insert]
  by_cases h : l = l' ∧ k = k'
  · obtain ⟨h1, h2⟩ := h; subst h1; subst h2; simp
  · have : ((l, k) == (l', k')) = false := by
      simp only [beq_eq_false_iff_ne, ne_eq, Prod.mk.injEq]; exact h
    simp [this, h]

theorem Ledger.get_empty (r : Nat) (i : Int) : ({} : Ledger).get r i = {} := by
  simp [Ledger.get]

theorem Counters.get_empty (l : Nat) (k : Int) : ({} : Counters).get l k = 0 := by
  simp [Counters.get]

/-! ### well-formed environments and the invariant -/

structure WF (e : Env) : Prop where
  G_pos : 0 < e.G
  eff_pos : ∀ r, 0 < (e.resD r).eff
  effort_nonneg : ∀ t, 0 ≤ (e.taskD t).effort
  lim_nodup : ∀ r t, (resLimitIds e r ++ taskLimitIds e t).Nodup

structure Inv (e : Env) (σ : St) : Prop where
  slot : ∀ r i, SlotInv e.G (σ.led.get r i)
  shift : ∀ r i, (σ.led.get r i).usage ≠ [] → e.onShift r i = true ∧ (e.resD r).leaf = true
  cnt : ∀ lid k, σ.cnt.get lid k ≤ max 0 (e.limitD lid).value
  leafTask : ∀ r i x, x ∈ (σ.led.get r i).usage → (e.taskD x.1).leaf = true

theorem Inv.of_eq {e : Env} {σ σ' : St} (hl : σ'.led = σ.led) (hc : σ'.cnt = σ.cnt) (h : Inv e σ) : Inv e σ' :=
  ⟨by rw [hl]; exact h.slot, by rw [hl]; exact h.shift, by rw [hc]; exact h.cnt, by rw [hl]; exact h.leafTask⟩

theorem G_rat_nonneg {e : Env} (wf : WF e) : (0 : Rat) ≤ (e.G : Rat) := by
  have : (0 : Int) ≤ e.G := Int.le_of_lt wf.G_pos
  exact_mod_cast this

theorem inv_init (e : Env) (wf : WF e) : Inv e (initState e) := by
  refine ⟨?_, ?_, ?_, ?_⟩
  · intro r i; simp only [initState, Ledger.get_empty]; exact slotInv_empty e.G wf.G_pos
  · intro r i h; simp [initState, Ledger.get_empty] at h
  · intro lid k; simp only [initState, Counters.get_empty]; omega
  · intro r i x hx; simp [initState, Ledger.get_empty] at hx

/-! ### limits -/

@[simp] theorem limitInc_led (e : Env) (σ : St) (lid : Nat) (i : Int) (r : Option Nat) :
    (limitInc e σ lid i r).led = σ.led := by
  unfold limitInc; simp only []; split <;> (try rfl); split <;> rfl

@[simp] theorem limitInc_marks (e : Env) (σ : St) (lid : Nat) (i : Int) (r : Option Nat) :
    (limitInc e σ lid i r).marks = σ.marks := by
  unfold limitInc; simp only []; split <;> (try rfl); split <;> rfl

@[simp] theorem limitInc_ts (e : Env) (σ : St) (lid : Nat) (i : Int) (r : Option Nat) :
    (limitInc e σ lid i r).ts = σ.ts := by
  unfold limitInc; simp only []; split <;> (try rfl); split <;> rfl

@[simp] theorem limitInc_warnings (e : Env) (σ : St) (lid : Nat) (i : Int) (r : Option Nat) :
    (limitInc e σ lid i r).warnings = σ.warnings := by
  unfold limitInc; simp only []; split <;> (try rfl); split <;> rfl

/-- counters of other limits are untouched by `limitInc` -/
theorem limitInc_cnt_other (e : Env) (σ : St) (lid : Nat) (i : Int) (r : Option Nat) (l : Nat) (k : Int)
    (h : l ≠ lid) : (limitInc e σ lid i r).cnt.get l k = σ.cnt.get l k := by
  unfold limitInc; simp only []
  split
  · rfl
  · split
    · rfl
    · simp only [Counters.get_set]
      have : ¬ (lid = l ∧ e.period (e.limitD lid) i = k) := by intro hh; exact h hh.1.symm
      simp [this]

def CntInv (e : Env) (σ : St) : Prop := ∀ lid k, σ.cnt.get lid k ≤ max 0 (e.limitD lid).value

/-- `inc` right after `ok` keeps the counter within the limit -/
theorem limitInc_cntInv (e : Env) (σ : St) (lid : Nat) (i : Int) (r : Option Nat)
    (hok : limitOk e σ lid i r = true) (h : CntInv e σ) : CntInv e (limitInc e σ lid i r) := by
  intro l k
  by_cases hl : l = lid
  · subst hl
    unfold limitInc; simp only []
    unfold limitOk at hok; simp only [] at hok
    split
    · exact h l k
    · rename_i hf
      simp only [hf, Bool.false_eq_true, if_false] at hok
      split
      · exact h l k
      · rename_i hk
        simp only [hk, if_false, decide_eq_true_eq] at hok
        simp only [Counters.get_set]
        split
        · omega
        · exact h l k
  · rw [limitInc_cnt_other e σ lid i r l k hl]; exact h l k

theorem limitOk_congr (e : Env) (σ σ' : St) (lid : Nat) (i : Int) (r : Option Nat)
    (h : ∀ k, σ'.cnt.get lid k = σ.cnt.get lid k) : limitOk e σ' lid i r = limitOk e σ lid i r := by
  unfold limitOk; simp only [h]

/-- increment a list of (limit id, resource filter) pairs, as `book` does -/
def incAll (e : Env) (σ : St) (ps : List (Nat × Option Nat)) (i : Int) : St :=
  ps.foldl (fun acc p => limitInc e acc p.1 i p.2) σ

theorem incAll_led (e : Env) (σ : St) (ps) (i : Int) : (incAll e σ ps i).led = σ.led := by
  induction ps generalizing σ with
  | nil => rfl
  | cons p ps ih => simp only [incAll, List.foldl_cons] at *; rw [ih]; simp

theorem incAll_marks (e : Env) (σ : St) (ps) (i : Int) : (incAll e σ ps i).marks = σ.marks := by
  induction ps generalizing σ with
  | nil => rfl
  | cons p ps ih => simp only [incAll, List.foldl_cons] at *; rw [ih]; simp

theorem incAll_ts (e : Env) (σ : St) (ps) (i : Int) : (incAll e σ ps i).ts = σ.ts := by
  induction ps generalizing σ with
  | nil => rfl
  | cons p ps ih => simp only [incAll, List.foldl_cons] at *; rw [ih]; simp

theorem incAll_warnings (e : Env) (σ : St) (ps) (i : Int) : (incAll e σ ps i).warnings = σ.warnings := by
  induction ps generalizing σ with
  | nil => rfl
  | cons p ps ih => simp only [incAll, List.foldl_cons] at *; rw [ih]; simp

theorem incAll_cntInv (e : Env) (σ : St) (ps : List (Nat × Option Nat)) (i : Int)
    (hnd : (ps.map (·.1)).Nodup) (hok : ∀ p ∈ ps, limitOk e σ p.1 i p.2 = true) (h : CntInv e σ) :
    CntInv e (incAll e σ ps i) := by
  induction ps generalizing σ with
  | nil => exact h
  | cons p ps ih =>
    simp only [incAll, List.foldl_cons]
    have hnd' : (ps.map (·.1)).Nodup := (List.nodup_cons.mp (by simpa using hnd)).2
    have hnotin : p.1 ∉ ps.map (·.1) := (List.nodup_cons.mp (by simpa using hnd)).1
    apply ih (limitInc e σ p.1 i p.2) hnd'
    · intro q hq
      have hne : q.1 ≠ p.1 := by
        intro heq; apply hnotin; rw [← heq]; exact List.mem_map_of_mem hq
      rw [limitOk_congr e σ _ q.1 i q.2 (fun k => limitInc_cnt_other e σ p.1 i p.2 q.1 k hne)]
      exact hok q (List.mem_cons_of_mem _ hq)
    · exact limitInc_cntInv e σ p.1 i p.2 (hok p List.mem_cons_self) h

end SP

namespace SP

/-! ### booking -/

def bookPairs (e : Env) (r t : Nat) : List (Nat × Option Nat) :=
  (resLimitIds e r).map (fun l => (l, (none : Option Nat))) ++ (taskLimitIds e t).map (fun l => (l, some r))

theorem bookSlot_eq (e : Env) (σ : St) (r : Nat) (i : Int) (t : Nat) :
    (bookSlot e σ r i t).1 =
      incAll e { σ with led := σ.led.set r i ((σ.led.get r i).book e.G t), marks := σ.marks.set r (e.norm i) }
        (bookPairs e r t) i := by
  simp only [bookSlot, incAll, bookPairs, List.foldl_append, List.foldl_map]

theorem available_true {e : Env} {σ : St} {r : Nat} {i : Int} (h : available e σ r i = true) :
    (e.resD r).leaf = true ∧ e.onShift r i = true ∧
    (∀ lid ∈ resLimitIds e r, limitOk e σ lid i none = true) := by
  unfold available at h
  simp only [Bool.and_eq_true, List.all_eq_true] at h
  exact ⟨h.1.1.1.1, h.1.1.1.2, h.2⟩

theorem bookSlot_inv (e : Env) (σ : St) (r : Nat) (i : Int) (t : Nat) (wf : WF e) (h : Inv e σ)
    (hlf : (e.taskD t).leaf = true)
    (ha : available e σ r i = true) (hl : taskLimitsOk e σ t i r = true) : Inv e (bookSlot e σ r i t).1 := by
  rw [bookSlot_eq]
  obtain ⟨hleaf, hshift, hres⟩ := available_true ha
  have htask : ∀ lid ∈ taskLimitIds e t, limitOk e σ lid i (some r) = true := by
    unfold taskLimitsOk at hl; simpa [List.all_eq_true] using hl
  refine ⟨?_, ?_, ?_, ?_⟩
  · intro r' i'
    rw [incAll_led]
    simp only [Ledger.get_set]
    split
    · exact book_inv e.G _ t (h.slot r i)
    · exact h.slot r' i'
  · intro r' i'
    rw [incAll_led]
    simp only [Ledger.get_set]
    split
    · rename_i heq
      intro _
      rw [← heq.1, ← heq.2]; exact ⟨hshift, hleaf⟩
    · exact h.shift r' i'
  · have hc : CntInv e { σ with led := σ.led.set r i ((σ.led.get r i).book e.G t), marks := σ.marks.set r (e.norm i) } := h.cnt
    apply incAll_cntInv e _ (bookPairs e r t) i
    · have : (bookPairs e r t).map (·.1) = resLimitIds e r ++ taskLimitIds e t := by
        simp [bookPairs, List.map_append, List.map_map, Function.comp_def]
      rw [this]; exact wf.lim_nodup r t
    · intro p hp
      simp only [bookPairs, List.mem_append, List.mem_map] at hp
      rcases hp with ⟨l, hl1, rfl⟩ | ⟨l, hl1, rfl⟩
      · exact hres l hl1
      · exact htask l hl1
    · exact hc
  · intro r' i' x
    rw [incAll_led]
    simp only [Ledger.get_set]
    split
    · intro hx
      simp only [Slot.book, List.mem_append, List.mem_singleton] at hx
      rcases hx with hx | hx
      · exact h.leafTask r i x hx
      · rw [hx]; exact hlf
    · exact h.leafTask r' i' x

theorem foldl_inv {α β : Type} (P : β → Prop) (f : β → α → β) (l : List α) (b : β) (hb : P b)
    (hf : ∀ b a, P b → P (f b a)) : P (l.foldl f b) := by
  induction l generalizing b with
  | nil => exact hb
  | cons x xs ih => exact ih (f b x) (hf b x hb)

/-- offsets handed to `reserve` are inside the slot -/
structure WalkOk (e : Env) (t : Nat) (w : Walk) : Prop where
  off_nonneg : 0 ≤ w.offset
  off_le : w.offset ≤ (e.G : Rat)
  done_le : w.done ≤ (e.taskD t).effort

def reserveStep (σ : St) (w : Walk) (r : Nat) : St :=
  if w.offset > 0 && w.done == 0 then
    { σ with led := σ.led.set r w.cur ((σ.led.get r w.cur).reserve w.offset) }
  else σ

theorem bookResource_eq (e : Env) (σ : St) (t : Nat) (w : Walk) (r : Nat) :
    bookResource e σ t w r =
      if available e (reserveStep σ w r) r w.cur && taskLimitsOk e (reserveStep σ w r) t w.cur r
      then bookSlot e (reserveStep σ w r) r w.cur t else (reserveStep σ w r, 0) := rfl

theorem reserveAt_inv (e : Env) (σ : St) (r : Nat) (i : Int) (off : Rat) (h : Inv e σ)
    (h0 : 0 ≤ off) (h1 : off ≤ (e.G : Rat)) : Inv e (reserveAt σ r i off) := by
  unfold reserveAt
  refine ⟨?_, ?_, h.cnt, ?_⟩
  rotate_left 2
  · intro r' i' x
    simp only [Ledger.get_set]
    split
    · intro hx
      have : x ∈ (σ.led.get r i).usage := by
        unfold Slot.reserve at hx; split at hx <;> exact hx
      exact h.leafTask r i x this
    · exact h.leafTask r' i' x
  · intro r' i'
    simp only [Ledger.get_set]
    split
    · exact reserve_inv e.G _ _ h0 h1 (h.slot r i)
    · exact h.slot r' i'
  · intro r' i'
    simp only [Ledger.get_set]
    split
    · rename_i heq
      intro hne
      have : (σ.led.get r i).usage ≠ [] := by
        unfold Slot.reserve at hne; split at hne <;> exact hne
      rw [← heq.1, ← heq.2]; exact h.shift r i this
    · exact h.shift r' i'

theorem reserveStep_inv (e : Env) (σ : St) (t : Nat) (w : Walk) (r : Nat) (h : Inv e σ) (hw : WalkOk e t w) :
    Inv e (reserveStep σ w r) := by
  unfold reserveStep
  split
  · exact reserveAt_inv e σ r w.cur w.offset h hw.off_nonneg hw.off_le
  · exact h

/-- the busiest member's usage lies inside the slot -/
theorem teamCommon_bounds (e : Env) (σ : St) (cur : Int) (sel : List Nat) (wf : WF e) (h : Inv e σ) :
    0 ≤ teamCommon σ cur sel ∧ teamCommon σ cur sel ≤ (e.G : Rat) := by
  unfold teamCommon
  apply foldl_inv (fun m => 0 ≤ m ∧ m ≤ (e.G : Rat)) _ sel 0 ⟨Rat.le_refl, G_rat_nonneg wf⟩
  intro m r hm
  have h1 := (h.slot r cur).used_nonneg
  have h2 := (h.slot r cur).used_le
  constructor <;> grind

theorem levelTeam_inv (e : Env) (σ : St) (cur : Int) (sel : List Nat) (wf : WF e) (h : Inv e σ) :
    Inv e (levelTeam σ cur sel) := by
  unfold levelTeam
  obtain ⟨h0, h1⟩ := teamCommon_bounds e σ cur sel wf h
  exact foldl_inv (fun acc => Inv e acc) _ sel σ h (fun acc r ha => reserveAt_inv e acc r cur _ ha h0 h1)

theorem bookResource_inv (e : Env) (σ : St) (t : Nat) (w : Walk) (r : Nat) (wf : WF e) (h : Inv e σ)
    (hlf : (e.taskD t).leaf = true) (hw : WalkOk e t w) : Inv e (bookResource e σ t w r).1 := by
  rw [bookResource_eq]
  have h1 := reserveStep_inv e σ t w r h hw
  split
  · rename_i hcond
    simp only [Bool.and_eq_true] at hcond
    exact bookSlot_inv e _ r w.cur t wf h1 hlf hcond.1 hcond.2
  · exact h1

end SP

namespace SP

theorem rat_div_nonneg (a b : Rat) (ha : 0 ≤ a) (hb : 0 < b) : 0 ≤ a / b := by
  rw [Rat.div_def]
  apply Rat.mul_nonneg ha
  have := Rat.inv_pos.mpr hb
  grind

@[simp] theorem setT_led (σ : St) (t : Nat) (x : TSt) : (σ.setT t x).led = σ.led := rfl
@[simp] theorem setT_cnt (σ : St) (t : Nat) (x : TSt) : (σ.setT t x).cnt = σ.cnt := rfl
@[simp] theorem setT_marks (σ : St) (t : Nat) (x : TSt) : (σ.setT t x).marks = σ.marks := rfl

theorem inv_setT {e : Env} {σ : St} (t : Nat) (x : TSt) (h : Inv e σ) : Inv e (σ.setT t x) :=
  Inv.of_eq (σ := σ) rfl rfl h

theorem release_usage_ne_nil (s : Slot) (t : Nat) (a : Rat) (h : (s.release t a).usage ≠ []) : s.usage ≠ [] := by
  intro hnil
  apply h
  unfold Slot.release
  rw [hnil]
  simp [usageOf, hnil]

/-! ### one slot of one task -/

theorem bookOne_inv (e : Env) (t : Nat) (w : Walk) (a : BookAcc) (r : Nat) (wf : WF e) (h : Inv e a.σ)
    (hlf : (e.taskD t).leaf = true) (hw : WalkOk e t w) : Inv e (bookOne e t w a r).σ := by
  unfold bookOne
  simp only []
  split <;> exact bookResource_inv e a.σ t w r wf h hlf hw

theorem bookAll_inv (e : Env) (σ : St) (t : Nat) (w : Walk) (sel : List Nat) (wf : WF e) (h : Inv e σ)
    (hlf : (e.taskD t).leaf = true) (hw : WalkOk e t w) : Inv e (bookAll e σ t w sel).σ := by
  unfold bookAll
  exact foldl_inv (fun a => Inv e a.σ) _ sel { σ := σ, last := w.last } h (fun a r ha => bookOne_inv e t w a r wf ha hlf hw)

theorem markStart_inv (e : Env) (σ : St) (t : Nat) (w : Walk) (h : Inv e σ) : Inv e (markStart e σ t w) := by
  unfold markStart; split
  · exact inv_setT _ _ h
  · exact h

theorem bookResources_inv (e : Env) (σ : St) (t : Nat) (w : Walk) (wf : WF e) (h : Inv e σ)
    (hlf : (e.taskD t).leaf = true) (hw : WalkOk e t w) : Inv e (bookResources e σ t w).1 := by
  unfold bookResources
  have hw' : WalkOk e t { w with selected := some (selectedOf e σ t w) } := ⟨hw.off_nonneg, hw.off_le, hw.done_le⟩
  split
  · exact h
  · simp only []
    split
    · exact h
    · split
      · exact h
      · have hL : Inv e (leveled e σ t w.cur (selectedOf e σ t w)) := by
          unfold leveled
          split
          · exact levelTeam_inv e σ w.cur _ wf h
          · exact h
        have hacc := bookAll_inv e _ t _ (selectedOf e σ t w) wf hL hlf hw'
        split
        · exact markStart_inv e _ t _ hacc
        · exact hacc

/-- `bookResources` changes neither the cursor nor the offset, and `done` only grows -/
theorem bookResources_walk (e : Env) (σ : St) (t : Nat) (w : Walk) :
    (bookResources e σ t w).2.cur = w.cur ∧ (bookResources e σ t w).2.offset = w.offset := by
  unfold bookResources
  split
  · exact ⟨rfl, rfl⟩
  · simp only []
    split
    · exact ⟨rfl, rfl⟩
    · split
      · exact ⟨rfl, rfl⟩
      · split <;> exact ⟨rfl, rfl⟩

/-! ### finishing a task -/

theorem release_leaf (e : Env) (s : Slot) (t : Nat) (a : Rat) (hlf : (e.taskD t).leaf = true)
    (h : ∀ x ∈ s.usage, (e.taskD x.1).leaf = true) : ∀ x ∈ (s.release t a).usage, (e.taskD x.1).leaf = true := by
  intro x hx
  unfold Slot.release at hx
  cases hu : usageOf s.usage t with
  | none => simp only [hu] at hx; exact h x hx
  | some b =>
    simp only [hu] at hx
    split at hx
    · rcases mem_setUsage hx with h' | h'
      · exact h x h'
      · rw [h']; exact hlf
    · exact h x hx

theorem releaseOthers_inv (e : Env) (σ : St) (t : Nat) (cur : Int) (r : Nat) (need : Rat) (sel : List Nat)
    (hlf : (e.taskD t).leaf = true) (hn : 0 ≤ need) (h : Inv e σ) : Inv e (releaseOthers σ t cur r need sel) := by
  unfold releaseOthers
  apply foldl_inv (fun acc => Inv e acc) _ sel σ h
  intro acc m hacc
  split
  · exact hacc
  · cases hu : usageOf (acc.led.get m cur).usage t with
    | none => simp only []; exact hacc
    | some secs =>
      simp only []
      have hsecs : 0 ≤ secs := (hacc.slot m cur).entries_nonneg _ (usageOf_mem hu)
      have hmin : 0 ≤ min need secs := by grind
      refine ⟨?_, ?_, hacc.cnt, ?_⟩
      rotate_left 2
      · intro r' i' x
        simp only [Ledger.get_set]
        split
        · intro hx
          exact release_leaf e _ t _ hlf (hacc.leafTask m cur) x hx
        · exact hacc.leafTask r' i' x
      · intro r' i'
        simp only [Ledger.get_set]
        split
        · exact release_inv e.G _ t _ hmin (hacc.slot m cur)
        · exact hacc.slot r' i'
      · intro r' i'
        simp only [Ledger.get_set]
        split
        · rename_i heq
          intro hne
          have : (acc.led.get m cur).usage ≠ [] := by
            intro hnil
            rw [hnil] at hu; simp [usageOf] at hu
          rw [← heq.1, ← heq.2]; exact hacc.shift m cur this
        · exact hacc.shift r' i'

theorem needSecs_nonneg (e : Env) (σ : St) (t : Nat) (w : Walk) (before : Rat) (r : Nat) (wf : WF e)
    (h : Inv e σ) (hb : before ≤ (e.taskD t).effort) : 0 ≤ needSecs e σ t w before r := by
  unfold needSecs
  simp only []
  have hG := G_rat_nonneg wf
  have h0 : 0 ≤ (if (e.resD r).eff > 0 then ((e.taskD t).effort - before) / ((e.resD r).eff / 3600) else (e.G : Rat)) := by
    split
    · rename_i hpos
      apply rat_div_nonneg
      · grind
      · grind
    · exact hG
  have hbk : 0 ≤ (usageOf (σ.led.get r w.cur).usage t).getD (e.G : Rat) := by
    cases hu : usageOf (σ.led.get r w.cur).usage t with
    | none => simpa using hG
    | some b => simpa using (h.slot r w.cur).entries_nonneg _ (usageOf_mem hu)
  grind

theorem finishTask_inv (e : Env) (σ : St) (t : Nat) (w : Walk) (before : Rat) (fwd : Bool) (wf : WF e)
    (h : Inv e σ) (hlf : (e.taskD t).leaf = true) (hb : before ≤ (e.taskD t).effort) :
    Inv e (finishTask e σ t w before fwd).1 := by
  unfold finishTask
  split
  · exact h
  · rename_i r _
    simp only []
    have hn := needSecs_nonneg e σ t w before r wf h hb
    apply releaseOthers_inv e _ t w.cur r _ _ hlf hn
    refine ⟨?_, ?_, h.cnt, ?_⟩
    rotate_left 2
    · intro r' i' x
      simp only [Ledger.get_set]
      split
      · intro hx
        exact release_leaf e _ t _ hlf (h.leafTask r w.cur) x hx
      · exact h.leafTask r' i' x
    · intro r' i'
      simp only [Ledger.get_set]
      split
      · exact release_inv e.G _ t _ hn (h.slot r w.cur)
      · exact h.slot r' i'
    · intro r' i'
      simp only [Ledger.get_set]
      split
      · rename_i heq
        intro hne
        have : (σ.led.get r w.cur).usage ≠ [] := release_usage_ne_nil _ _ _ hne
        rw [← heq.1, ← heq.2]; exact h.shift r w.cur this
      · exact h.shift r' i'

end SP

namespace SP

/-! ### the walk -/

theorem scheduleSlot_inv (e : Env) (σ : St) (t : Nat) (w : Walk) (wf : WF e) (h : Inv e σ)
    (hlf : (e.taskD t).leaf = true) (hw : WalkOk e t w) :
    Inv e (scheduleSlot e σ t w).1 ∧
    ((scheduleSlot e σ t w).2.2 = true → WalkOk e t (scheduleSlot e σ t w).2.1) := by
  unfold scheduleSlot
  simp only []
  split
  · -- milestone: only task attributes change
    split
    · split
      · exact ⟨inv_setT _ _ h, by intro hc; cases hc⟩
      · exact ⟨inv_setT _ _ h, by intro hc; cases hc⟩
    · split
      · exact ⟨inv_setT _ _ h, by intro hc; cases hc⟩
      · exact ⟨inv_setT _ _ h, by intro hc; cases hc⟩
  · have hb := bookResources_inv e σ t w wf h hlf hw
    have hwk := bookResources_walk e σ t w
    split
    · have hfin := finishTask_inv e _ t (bookResources e σ t w).2 w.done (σ.tst t).forward wf hb hlf hw.done_le
      refine ⟨?_, by intro hc; cases hc⟩
      refine ⟨?_, ?_, ?_, ?_⟩
      · exact hfin.slot
      · exact hfin.shift
      · exact hfin.cnt
      · exact hfin.leafTask
    · rename_i hnot
      refine ⟨hb, fun _ => ⟨?_, ?_, ?_⟩⟩
      · rw [hwk.2]; exact hw.off_nonneg
      · rw [hwk.2]; exact hw.off_le
      · have : ¬ ((bookResources e σ t w).2.done ≥ (e.taskD t).effort) := by simpa using hnot
        grind

theorem walkOk_advance (e : Env) (t : Nat) (wf : WF e) (fwd : Bool) (w w1 : Walk) (h : WalkOk e t w1) :
    WalkOk e t (advance fwd w w1) :=
  ⟨Rat.le_refl, G_rat_nonneg wf, h.done_le⟩

theorem walkLoop_inv (e : Env) (t : Nat) (fwd : Bool) (fuel : Nat) (σ : St) (w : Walk) (wf : WF e)
    (h : Inv e σ) (hlf : (e.taskD t).leaf = true) (hw : WalkOk e t w) : Inv e (walkLoop e t fwd fuel σ w).1 := by
  induction fuel generalizing σ w with
  | zero => exact h
  | succ f ih =>
    unfold walkLoop
    have hs := scheduleSlot_inv e σ t w wf h hlf hw
    simp only []
    split
    · exact hs.1
    · rename_i hc
      have hcont : (scheduleSlot e σ t w).2.2 = true := by simpa using hc
      have hw1 := hs.2 hcont
      split
      · exact hs.1
      · exact ih _ _ hs.1 (walkOk_advance e t wf _ _ _ hw1)

theorem foldl_ge_init {α : Type} (f : Int → α → Int) (l : List α) (init : Int) (hf : ∀ acc x, acc ≤ f acc x) :
    init ≤ l.foldl f init := by
  induction l generalizing init with
  | nil => exact Int.le_refl _
  | cons x xs ih => exact Int.le_trans (hf init x) (ih (f init x))

theorem earliestStart_ge (e : Env) (σ : St) (deps : List Dep) (base : Int) : base ≤ earliestStart e σ deps base := by
  unfold earliestStart
  apply foldl_ge_init
  intro acc dp; split
  · exact Int.le_max_left _ _
  · exact Int.le_refl _

theorem cursorOf_off (e : Env) (wf : WF e) (earliest : Int) (hge : e.start ≤ earliest) :
    0 ≤ (cursorOf e earliest).2 ∧ (cursorOf e earliest).2 ≤ (e.G : Rat) := by
  unfold cursorOf
  simp only []
  have hfl := (Board.mk e.start e.stop e.G).rawIdx_floor wf.G_pos (t := earliest) hge
  simp only [Board.time, Board.rawIdx] at hfl
  split
  · have h1 : (0 : Int) ≤ earliest - e.time (e.idx earliest) := by unfold Env.time Env.idx at *; omega
    have h2 : earliest - e.time (e.idx earliest) ≤ e.G := by
      unfold Env.time Env.idx
      have := hfl.2
      have e1 : (Int.tdiv (earliest - e.start) e.G + 1) * e.G = Int.tdiv (earliest - e.start) e.G * e.G + e.G := by
        rw [Int.add_mul]; omega
      omega
    exact ⟨by exact_mod_cast h1, by exact_mod_cast h2⟩
  · exact ⟨by grind, G_rat_nonneg wf⟩

theorem initCursor_off (e : Env) (σ : St) (t : Nat) (wf : WF e) :
    0 ≤ (initCursor e σ t).2 ∧ (initCursor e σ t).2 ≤ (e.G : Rat) := by
  have hG := G_rat_nonneg wf
  have zero : (0 : Rat) ≤ 0 ∧ (0 : Rat) ≤ (e.G : Rat) := ⟨by grind, hG⟩
  unfold initCursor
  simp only []
  split
  · split
    · split
      · exact zero
      · apply cursorOf_off e wf
        exact Int.le_trans (by omega) (earliestStart_ge e σ _ _)
    · exact cursorOf_off e wf _ (earliestStart_ge e σ _ _)
  · split <;> exact zero

end SP

namespace SP

/-! ### one task, the pick loop, the scenario -/

theorem scheduleTask_inv (e : Env) (σ : St) (t : Nat) (wf : WF e) (h : Inv e σ)
    (hlf : (e.taskD t).leaf = true) : Inv e (scheduleTask e σ t).1 := by
  unfold scheduleTask
  simp only []
  split
  · exact h
  · have hoff := initCursor_off e σ t wf
    have h0 : Inv e (σ.setT t (preStartT e σ t (initCursor e σ t).1)) := inv_setT _ _ h
    split
    · exact inv_setT _ _ h0
    · have hw : WalkOk e t { cur := preStartCursor e σ t (initCursor e σ t).1, offset := (initCursor e σ t).2 } :=
        ⟨hoff.1, hoff.2, wf.effort_nonneg t⟩
      have := walkLoop_inv e t (σ.tst t).forward (e.size.toNat + 3) _ _ wf h0 hlf hw
      split
      · exact inv_setT _ _ this
      · exact inv_setT _ _ this

theorem foldl_setT_inv (e : Env) (f : St → Nat → TSt) (l : List Nat) (σ : St) (h : Inv e σ) :
    Inv e (l.foldl (fun (acc : St) t => acc.setT t (f acc t)) σ) :=
  foldl_inv (fun acc => Inv e acc) _ l σ h (fun acc t hacc => inv_setT t _ hacc)

theorem updateContainers_inv (e : Env) (σ : St) (h : Inv e σ) : Inv e (updateContainers e σ) := by
  unfold updateContainers; exact foldl_setT_inv e _ _ σ h

theorem pickLoop_inv (e : Env) (fuel : Nat) (tasks failed : List Nat) (σ : St) (wf : WF e) (h : Inv e σ)
    (hlv : ∀ t ∈ tasks, (e.taskD t).leaf = true) : Inv e (pickLoop e fuel tasks failed σ).1 := by
  induction fuel generalizing tasks failed σ with
  | zero => exact h
  | succ f ih =>
    unfold pickLoop
    split
    · exact h
    · split
      · rename_i t ht
        have htm : t ∈ tasks := List.mem_of_find?_eq_some ht
        exact ih _ _ _ (updateContainers_inv e _ (scheduleTask_inv e σ _ wf h (hlv t htm)))
          (fun x hx => hlv x (List.mem_of_mem_erase hx))
      · split
        · exact Inv.of_eq (σ := σ) rfl rfl h
        · exact h

theorem milestonePrepass_inv (e : Env) (σ : St) (h : Inv e σ) : Inv e (milestonePrepass e σ) := by
  unfold milestonePrepass; exact foldl_setT_inv e _ _ σ h

theorem markAlap_inv (e : Env) (fuel : Nat) (stack processed : List Nat) (σ : St) (h : Inv e σ) :
    Inv e (markAlap e fuel stack processed σ).1 := by
  induction fuel generalizing stack processed σ with
  | zero => unfold markAlap; exact h
  | succ f ih =>
    cases stack with
    | nil => unfold markAlap; exact h
    | cons t rest =>
      unfold markAlap
      split
      · exact ih _ _ _ h
      · simp only []
        split
        · exact ih _ _ _ h
        · split
          · exact ih _ _ _ h
          · exact ih _ _ _ (inv_setT _ _ h)

theorem propagateAlap_inv (e : Env) (σ : St) (h : Inv e σ) : Inv e (propagateAlap e σ) := by
  unfold propagateAlap
  simp only []
  apply foldl_inv (fun (acc : St × List Nat) => Inv e acc.1) _ _ (σ, []) h
  intro acc a hacc
  exact markAlap_inv e _ _ _ _ hacc

theorem propagateContainerEnds_inv (e : Env) (σ : St) (h : Inv e σ) : Inv e (propagateContainerEnds e σ) := by
  unfold propagateContainerEnds; exact foldl_setT_inv e _ _ σ h

theorem prepare_inv (e : Env) (σ : St) (h : Inv e σ) : Inv e (prepare e σ) := by
  unfold prepare
  exact propagateContainerEnds_inv e _ (foldl_setT_inv e _ _ σ h)

theorem scheduleContainer_inv (e : Env) (σ : St) (t : Nat) (h : Inv e σ) : Inv e (scheduleContainer e σ t) :=
  inv_setT _ _ h

theorem finishScenario_inv (e : Env) (σ : St) (h : Inv e σ) : Inv e (finishScenario e σ) := by
  unfold finishScenario
  apply foldl_inv (fun acc => Inv e acc) _ _ σ h
  intro acc t hacc
  split
  · exact hacc
  · exact scheduleContainer_inv e acc t hacc

theorem todoOf_leaf (e : Env) (σ : St) : ∀ t ∈ todoOf e σ, (e.taskD t).leaf = true := by
  intro t ht
  unfold todoOf at ht
  have := (List.mem_filter.mp (List.mem_mergeSort.mp ht)).2
  simp only [Bool.and_eq_true] at this
  exact this.1

theorem preLoop_inv (e : Env) (σ : St) (h : Inv e σ) : Inv e (preLoop e σ) :=
  updateContainers_inv e _ (propagateAlap_inv e _ (milestonePrepass_inv e σ h))

theorem scheduleScenario_inv (e : Env) (σ : St) (wf : WF e) (h : Inv e σ) : Inv e (scheduleScenario e σ) := by
  unfold scheduleScenario
  simp only []
  have h3 := pickLoop_inv e ((todoOf e (preLoop e σ)).length + 1) (todoOf e (preLoop e σ)) [] _ wf (preLoop_inv e σ h)
    (todoOf_leaf e _)
  split
  · exact h3
  · exact Inv.of_eq (σ := (pickLoop e _ _ [] _).1) rfl rfl h3

/-- **every state a scenario run ends in satisfies the invariant** -/
theorem runScenario_inv (e : Env) (wf : WF e) : Inv e (runScenario e) := by
  unfold runScenario
  exact finishScenario_inv e _ (scheduleScenario_inv e _ wf (prepare_inv e _ (inv_init e wf)))

end SP
