import Proofs.TeamAll
import Proofs.Counted
import Proofs.Solid
/-!
Teams under limits: what the team gate's provisional counting does to the counters, and the predicate "a limit has no room for
the whole team".
-/
namespace SP

theorem limitInc_cnt_le (e : Env) (σ : St) (lid : Nat) (i : Int) (r : Option Nat) (l : Nat) (k : Int) :
    (limitInc e σ lid i r).cnt.get l k ≤ σ.cnt.get l k + (if l = lid then 1 else 0) := by
  by_cases h : l = lid
  · subst h
    simp only [if_true]
    unfold limitInc; simp only []
    split
    · omega
    · split
      · omega
      · simp only [Counters.get_set]
        split
        · rename_i hh; rw [← hh.2]; omega
        · omega
  · simp only [h, if_false]
    rw [limitInc_cnt_other e σ lid i r l k h]; omega

/-- incrementing a duplicate-free list of limits raises every counter by at most one -/
theorem incAll_cnt_le (e : Env) (σ : St) (ps : List (Nat × Option Nat)) (i : Int) (l : Nat) (k : Int)
    (hnd : (ps.map (·.1)).Nodup) : (incAll e σ ps i).cnt.get l k ≤ σ.cnt.get l k + 1 := by
  induction ps generalizing σ with
  | nil => simp only [incAll, List.foldl_nil]; omega
  | cons p ps ih =>
    simp only [incAll, List.foldl_cons]
    have hnd' : (ps.map (·.1)).Nodup := (List.nodup_cons.mp (by simpa using hnd)).2
    have hnotin : p.1 ∉ ps.map (·.1) := (List.nodup_cons.mp (by simpa using hnd)).1
    by_cases h : l = p.1
    · subst h
      have := incAll_cnt_notin e (limitInc e σ p.1 i p.2) ps i p.1 k hnotin
      simp only [incAll] at this
      rw [this]
      have h2 := limitInc_cnt_le e σ p.1 i p.2 p.1 k
      simp only [if_true] at h2
      exact h2
    · have := ih (limitInc e σ p.1 i p.2) hnd'
      simp only [incAll] at this
      rw [limitInc_cnt_other e σ p.1 i p.2 l k h] at this
      exact this

theorem bookPairs_nodup (e : Env) (wf : WF e) (r t : Nat) : ((bookPairs e r t).map (·.1)).Nodup := by
  have : (bookPairs e r t).map (·.1) = resLimitIds e r ++ taskLimitIds e t := by
    unfold bookPairs
    simp only [List.map_append, List.map_map]
    congr 1
    · exact List.map_id' _
    · exact List.map_id' _
  rw [this]; exact wf.lim_nodup r t

theorem countMember_cnt_bounds (e : Env) (wf : WF e) (σ : St) (t : Nat) (i : Int) (r : Nat) (l : Nat) (k : Int) :
    σ.cnt.get l k ≤ (countMember e σ t i r).cnt.get l k ∧ (countMember e σ t i r).cnt.get l k ≤ σ.cnt.get l k + 1 := by
  rw [countMember_eq]
  exact ⟨incAll_cnt_ge e σ _ i l k, incAll_cnt_le e σ _ i l k (bookPairs_nodup e wf r t)⟩

/-- **a failing team gate**: it names a member that was not available, or not within the task's limits, in a state with the
    same ledger and marks whose counters exceed the real ones by at most the number of members checked before it -/
theorem teamGate_fails_member_cnt (e : Env) (wf : WF e) (t : Nat) (i : Int) (σ : St) (sel : List Nat)
    (h : teamGateOk e t i σ sel = false) :
    ∃ m ∈ sel, ∃ σ' : St, σ'.led = σ.led ∧ σ'.marks = σ.marks ∧
      (∀ l k, σ.cnt.get l k ≤ σ'.cnt.get l k ∧ σ'.cnt.get l k ≤ σ.cnt.get l k + ((sel.length : Int) - 1)) ∧
      (available e σ' m i && taskLimitsOk e σ' t i m) = false := by
  induction sel generalizing σ with
  | nil => simp [teamGateOk] at h
  | cons r rs ih =>
    unfold teamGateOk at h
    by_cases h1 : (available e σ r i && taskLimitsOk e σ t i r) = true
    · rw [h1, Bool.true_and] at h
      obtain ⟨m, hm, σ', hl, hmk, hc, hf⟩ := ih (countMember e σ t i r) h
      refine ⟨m, List.mem_cons_of_mem _ hm, σ', by rw [hl, countMember_led], by rw [hmk, countMember_marks], ?_, hf⟩
      intro l k
      have hb := countMember_cnt_bounds e wf σ t i r l k
      have hc' := hc l k
      simp only [List.length_cons]
      constructor
      · omega
      · have : ((rs.length + 1 : Nat) : Int) = (rs.length : Int) + 1 := by omega
        omega
    · refine ⟨r, List.mem_cons_self, σ, rfl, rfl, ?_, by simpa using h1⟩
      intro l k
      simp only [List.length_cons]
      constructor
      · omega
      · have : (0 : Int) ≤ (rs.length : Int) := by omega
        omega

/-- the limit `lid` has no room for the whole team: with `c` more bookings in the period of slot `i` it would be exceeded -/
def Tight (e : Env) (lid : Nat) (i : Int) (ro : Option Nat) (c : Int) (σ : St) : Prop :=
  ¬ ((e.limitD lid).res.isSome && (e.limitD lid).res != ro) = true ∧ 0 ≤ e.period (e.limitD lid) i ∧
    (e.limitD lid).value ≤ σ.cnt.get lid (e.period (e.limitD lid) i) + c

/-- counters only grow, so a tight limit stays tight -/
theorem tight_closed (e : Env) (lid : Nat) (i : Int) (ro : Option Nat) (c : Int) : Closed e (Tight e lid i ro c) where
  eq := by
    intro σ σ' _ hc _ h
    unfold Tight at *; rw [hc]; exact h
  reserve := by intro σ r i' off _ _ _ h; exact h
  release := by intro σ r i' t a _ _ _ _ h; exact h
  book := by
    intro σ r i' t _ _ _ _ _ _ _ h
    unfold Tight at *
    refine ⟨h.1, h.2.1, ?_⟩
    rw [bookSlot_eq']
    have h2 : σ.cnt.get lid (e.period (e.limitD lid) i) ≤
        (incAll e (bookLed e σ r i' t) (bookPairs e r t) i').cnt.get lid (e.period (e.limitD lid) i) :=
      incAll_cnt_ge e (bookLed e σ r i' t) (bookPairs e r t) i' lid (e.period (e.limitD lid) i)
    omega

/-- some limit of a member (own or of a group) or of the task (own or of a container) has no room for the whole team at slot `i` -/
def TeamTight (e : Env) (σ : St) (t : Nat) (sel : List Nat) (i : Int) : Prop :=
  ∃ m ∈ sel, (∃ lid ∈ resLimitIds e m, Tight e lid i none ((sel.length : Int) - 1) σ) ∨
    (∃ lid ∈ taskLimitIds e t, Tight e lid i (some m) ((sel.length : Int) - 1) σ)

theorem teamTight_closed_step {e : Env} {σ σ' : St} {t : Nat} {sel : List Nat} {i : Int}
    (hstep : ∀ lid ro, Tight e lid i ro ((sel.length : Int) - 1) σ → Tight e lid i ro ((sel.length : Int) - 1) σ')
    (h : TeamTight e σ t sel i) : TeamTight e σ' t sel i := by
  obtain ⟨m, hm, h1⟩ := h
  refine ⟨m, hm, ?_⟩
  rcases h1 with ⟨lid, hl, ht⟩ | ⟨lid, hl, ht⟩
  · exact Or.inl ⟨lid, hl, hstep lid none ht⟩
  · exact Or.inr ⟨lid, hl, hstep lid (some m) ht⟩

/-- without limits on the members and on the task nothing can be tight -/
theorem teamTight_unlimited {e : Env} {σ : St} {t : Nat} {sel : List Nat} {i : Int}
    (hrl : ∀ m ∈ sel, resLimitIds e m = []) (htl : taskLimitIds e t = []) (h : TeamTight e σ t sel i) : False := by
  obtain ⟨m, hm, h1⟩ := h
  rcases h1 with ⟨lid, hl, _⟩ | ⟨lid, hl, _⟩
  · rw [hrl m hm] at hl; cases hl
  · rw [htl] at hl; cases hl

end SP
