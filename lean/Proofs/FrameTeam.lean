import Proofs.FrameWalk
import Proofs.TeamEffort
/-!
C06 for teams (forward mode): a task whose selection is a team of members sharing one efficiency is framed on every
member: the bookings lie between a first and a last booked slot, the reported start lies in the first and the reported
end in the last.  Mirror of `Proofs/FrameWalk` with the team lemmas of `Proofs/TeamEffort`.
-/
namespace SP

/-- one slot of a team, seen from one member `r`: what `bookResources` credits is the member's new entry, the entry is
    absent or positive, and a booking makes the last member of the team the last booked one -/
theorem bookResources_team_member (e : Env) (wf : WF e) (σ : St) (t : Nat) (w : Walk) (sel : List Nat) (η : Rat)
    (hinv : Inv e σ) (ha : (e.taskD t).hasAlloc = true) (hsel : selectedOf e σ t w = sel)
    (hteam : isTeam e t sel = true) (hnd : sel.Nodup) (heff : ∀ r ∈ sel, (e.resD r).eff = η) (hη : 0 < η)
    (hclean : ∀ r ∈ sel, usageOf (σ.led.get r w.cur).usage t = none) (r : Nat) (hr : r ∈ sel) :
    (bookResources e σ t w).2.done = w.done + taskSecs ((bookResources e σ t w).1.led.get r w.cur) t / 3600 * η ∧
    (usageOf ((bookResources e σ t w).1.led.get r w.cur).usage t = none ∨
      0 < taskSecs ((bookResources e σ t w).1.led.get r w.cur) t) ∧
    (bookResources e σ t w).2.selected = some sel ∧ (bookResources e σ t w).2.cur = w.cur ∧
    (taskSecs ((bookResources e σ t w).1.led.get r w.cur) t ≠ 0 →
      (bookResources e σ t w).2.last = sel.getLast? ∧
      ∃ a, 0 < a ∧ a ≤ (e.G : Rat) ∧ ∀ m ∈ sel, usageOf ((bookResources e σ t w).1.led.get m w.cur).usage t = some a) := by
  obtain ⟨hselw, hcurw, hcase⟩ := bookResources_team_full e wf σ t w sel η hinv ha hsel hteam hnd heff hη hclean
  rcases hcase with ⟨hnone, hd, _⟩ | ⟨a, ha0, haG, hent, hd, hlast⟩
  · have h0 : taskSecs ((bookResources e σ t w).1.led.get r w.cur) t = 0 := by unfold taskSecs; rw [hnone r hr]; rfl
    refine ⟨by rw [h0, hd]; grind, Or.inl (hnone r hr), hselw, hcurw, fun h => absurd h0 h⟩
  · have h0 : taskSecs ((bookResources e σ t w).1.led.get r w.cur) t = a := by unfold taskSecs; rw [hent r hr]; rfl
    exact ⟨by rw [h0, hd], Or.inr (by rw [h0]; exact ha0), hselw, hcurw, fun _ => ⟨hlast, a, ha0, haG, hent⟩⟩

/-- invariant of the forward walk of a team task, seen from the member `r` -/
structure FInvT (e : Env) (σ : St) (t : Nat) (sel : List Nat) (η : Rat) (r : Nat) (w : Walk) (vis : List Int) : Prop where
  acc : TAcc e σ t sel η true w vis
  inb : t < σ.ts.size
  fwd : (σ.tst t).forward = true
  nonneg : 0 ≤ w.done
  fst : Fst e σ t r w.done vis

/-- after the booking attempt of one slot: where the first booking lies now -/
theorem book_fstT (e : Env) (wf : WF e) (σ : St) (t : Nat) (sel : List Nat) (η : Rat) (r : Nat) (hr : r ∈ sel)
    (w : Walk) (vis : List Int)
    (hinv : Inv e σ) (hlf : (e.taskD t).leaf = true) (hw : WalkOk e t w)
    (ha : (e.taskD t).hasAlloc = true) (hsel : selectedOf e σ t w = sel)
    (hteam : isTeam e t sel = true) (hnd : sel.Nodup) (heff : ∀ r ∈ sel, (e.resD r).eff = η) (hη : 0 < η)
    (hpos : 0 < (e.taskD t).effort) (h : FInvT e σ t sel η r w vis) :
    Fst e (bookResources e σ t w).1 t r (bookResources e σ t w).2.done (w.cur :: vis) ∧
    0 ≤ (bookResources e σ t w).2.done := by
  have hcur_notin : w.cur ∉ vis := by
    intro hin
    have := h.acc.before _ hin
    simp only [if_true] at this; omega
  have hclean : ∀ m ∈ sel, usageOf (σ.led.get m w.cur).usage t = none := fun m hm => h.acc.only m hm _ hcur_notin
  obtain ⟨hdone, hent, _, _, _⟩ := bookResources_team_member e wf σ t w sel η hinv ha hsel hteam hnd heff hη hclean r hr
  have hframe := bookResources_other e σ t w
  obtain ⟨hs1, hs2⟩ := bookResources_start e σ t w h.inb h.fwd hpos
  have hb := bookResources_inv e σ t w wf hinv hlf hw
  have hsecs0 := taskSecs_nonneg e _ hb r w.cur t
  have hgain0 : 0 ≤ taskSecs ((bookResources e σ t w).1.led.get r w.cur) t / 3600 * η :=
    Rat.mul_nonneg (rat_div_nonneg _ _ hsecs0 (by grind)) (by grind)
  have hvis : ∀ i ∈ vis, (bookResources e σ t w).1.led.get r i = σ.led.get r i := by
    intro i hi; apply hframe; intro hh; exact hcur_notin (hh ▸ hi)
  have hnn := h.nonneg
  refine ⟨⟨?_, ?_⟩, by rw [hdone]; grind⟩
  · intro hd0 i hi
    have hw0 : w.done = 0 := by rw [hdone] at hd0; grind
    have hg0 : taskSecs ((bookResources e σ t w).1.led.get r w.cur) t / 3600 * η = 0 := by
      rw [hdone] at hd0; grind
    rcases List.mem_cons.mp hi with hi | hi
    · subst hi
      rcases hent with hn | hp
      · exact hn
      · exfalso
        have : 0 < taskSecs ((bookResources e σ t w).1.led.get r w.cur) t / 3600 * η :=
          Rat.mul_pos (by
            have : (0 : Rat) < 3600 := by decide +kernel
            rw [Rat.div_def]; exact Rat.mul_pos hp (Rat.inv_pos.mpr this)) hη
        grind
    · rw [hvis i hi]; exact h.fst.1 hw0 i hi
  · intro hdne
    by_cases hw0 : w.done = 0
    · have hg : taskSecs ((bookResources e σ t w).1.led.get r w.cur) t ≠ 0 := by
        intro h0; rw [hdone, h0, hw0] at hdne; apply hdne; grind
      have hsome := taskSecs_ne_zero _ _ hg
      refine ⟨w.cur, List.mem_cons_self, by rw [hsome]; simp, ?_, ?_⟩
      · intro i hi hne
        rcases List.mem_cons.mp hi with hi | hi
        · omega
        · exfalso; apply hne; rw [hvis i hi]; exact h.fst.1 hw0 i hi
      · rcases hs2 hw0 with ⟨hd, _⟩ | hs
        · exact absurd hd hdne
        · exact ⟨w.offset, hw.off_nonneg, hw.off_le, hs⟩
    · obtain ⟨fb, hfb, hne, hmin, o, ho0, ho1, hst⟩ := h.fst.2 hw0
      refine ⟨fb, List.mem_cons_of_mem _ hfb, by rw [hvis fb hfb]; exact hne, ?_, o, ho0, ho1, by rw [hs1 hw0]; exact hst⟩
      intro i hi hni
      rcases List.mem_cons.mp hi with hi | hi
      · subst hi
        have := h.acc.before fb hfb
        simp only [if_true] at this; omega
      · apply hmin i hi; rw [← hvis i hi]; exact hni

end SP

namespace SP

theorem scheduleSlot_finvT (e : Env) (wf : WF e) (σ : St) (t : Nat) (sel : List Nat) (η : Rat) (r : Nat) (hr : r ∈ sel)
    (w : Walk) (vis : List Int)
    (hinv : Inv e σ) (hlf : (e.taskD t).leaf = true) (hw : WalkOk e t w)
    (ha : (e.taskD t).hasAlloc = true) (hm : (e.taskD t).milestone = false)
    (hsel : selectedOf e σ t w = sel) (hteam : isTeam e t sel = true) (hnd : sel.Nodup)
    (heff : ∀ r ∈ sel, (e.resD r).eff = η) (hη : 0 < η)
    (hlt : w.done < (e.taskD t).effort) (hpos : 0 < (e.taskD t).effort)
    (h : FInvT e σ t sel η r w vis) :
    ((scheduleSlot e σ t w).2.2 = true →
        FInvT e (scheduleSlot e σ t w).1 t sel η r (advance true w (scheduleSlot e σ t w).2.1) (w.cur :: vis)) ∧
    ((scheduleSlot e σ t w).2.2 = false → Framed e (scheduleSlot e σ t w).1 t r) := by
  have hsa := scheduleSlot_tacc e wf σ t sel η true w vis hinv hlf hw ha hm hsel hteam hnd heff hη hlt hpos h.acc
  obtain ⟨hfst, hnn1⟩ := book_fstT e wf σ t sel η r hr w vis hinv hlf hw ha hsel hteam hnd heff hη hpos h
  have hcur_notin : w.cur ∉ vis := by
    intro hin
    have := h.acc.before _ hin
    simp only [if_true] at this; omega
  have hclean : ∀ m ∈ sel, usageOf (σ.led.get m w.cur).usage t = none := fun m hm => h.acc.only m hm _ hcur_notin
  obtain ⟨hdone, _, hselw, hcurw, hbooked⟩ :=
    bookResources_team_member e wf σ t w sel η hinv ha hsel hteam hnd heff hη hclean r hr
  have hfr := bookResources_frame e σ t w
  have hb := bookResources_inv e σ t w wf hinv hlf hw
  have hz : ((e.taskD t).effort == 0) = false := by
    simp only [beq_eq_false_iff_ne, ne_eq]; grind
  have hne' : sel ≠ [] := by
    intro h; rw [h] at hteam; simp [isTeam] at hteam
  constructor
  · intro hc
    obtain ⟨hacc', _, _⟩ := hsa.1 hc
    have hst : (scheduleSlot e σ t w).1 = (bookResources e σ t w).1 ∧ (scheduleSlot e σ t w).2.1 = (bookResources e σ t w).2 := by
      unfold scheduleSlot at hc ⊢
      simp only [hm, hz, Bool.or_self, Bool.false_eq_true, if_false] at hc ⊢
      by_cases hfin : (bookResources e σ t w).2.done ≥ (e.taskD t).effort
      · simp only [hfin, if_true] at hc; exact Bool.noConfusion hc
      · simp only [hfin, if_false]; first | exact ⟨rfl, rfl⟩ | exact ⟨trivial, trivial⟩ | simp
    refine ⟨hacc', ?_, ?_, ?_, ?_⟩
    · rw [hst.1, hfr.2.2.2.2]; exact h.inb
    · rw [hst.1, hfr.2.2.2.1]; exact h.fwd
    · show 0 ≤ (scheduleSlot e σ t w).2.1.done
      rw [hst.2]; exact hnn1
    · show Fst e (scheduleSlot e σ t w).1 t r (scheduleSlot e σ t w).2.1.done (w.cur :: vis)
      rw [hst.1, hst.2]; exact hfst
  · intro hc
    have hex := hsa.2 hc
    have hfin : (bookResources e σ t w).2.done ≥ (e.taskD t).effort := by
      unfold scheduleSlot at hc
      simp only [hm, hz, Bool.or_self, Bool.false_eq_true, if_false] at hc
      by_cases hfin : (bookResources e σ t w).2.done ≥ (e.taskD t).effort
      · exact hfin
      · simp only [hfin, if_false] at hc; exact Bool.noConfusion hc
    have hgain : taskSecs ((bookResources e σ t w).1.led.get r w.cur) t ≠ 0 := by
      intro h0; rw [h0] at hdone; grind
    obtain ⟨hlastw, a, ha0, haG, hent⟩ := hbooked hgain
    obtain ⟨rl, hrl, hrlmem⟩ := getLast?_mem_of_ne_nil sel hne'
    have hlast : (bookResources e σ t w).2.last = some rl := by rw [hlastw, hrl]
    have hsecs : taskSecs ((bookResources e σ t w).1.led.get r w.cur) t = a := by unfold taskSecs; rw [hent r hr]; rfl
    have heffrl : 0 < (e.resD rl).eff := by rw [heff rl hrlmem]; exact hη
    have hge : (e.taskD t).effort ≤ w.done + a / 3600 * (e.resD rl).eff := by
      rw [heff rl hrlmem, ← hsecs, ← hdone]; exact hfin
    have hneed := needSecs_eq e (bookResources e σ t w).1 t (bookResources e σ t w).2 w.done rl a heffrl hlt hge haG
      (by rw [hcurw]; exact hent rl hrlmem)
    have fe := finish_exact (e.taskD t).effort w.done a (e.resD rl).eff heffrl hlt hge
    simp only [] at fe
    have hft := finishTask_team e (bookResources e σ t w).1 t (bookResources e σ t w).2 w.done true sel rl a
      hlast hselw hrlmem hnd (by rw [hcurw]; exact hent) (by rw [hneed]; exact fe.2.1)
    rw [hcurw] at hft
    have hfo := finishTask_other e (bookResources e σ t w).1 t (bookResources e σ t w).2 w.done true
    -- shape of the final state
    have hshape : (scheduleSlot e σ t w).1.led = (finishTask e (bookResources e σ t w).1 t (bookResources e σ t w).2 w.done true).1.led ∧
        ((scheduleSlot e σ t w).1.tst t).start = ((bookResources e σ t w).1.tst t).start ∧
        ((scheduleSlot e σ t w).1.tst t).stop = some (finishTask e (bookResources e σ t w).1 t (bookResources e σ t w).2 w.done true).2 := by
      unfold scheduleSlot
      simp only [hm, hz, Bool.or_self, Bool.false_eq_true, if_false, hfin, if_true, h.fwd]
      have hsz : t < (finishTask e (bookResources e σ t w).1 t (bookResources e σ t w).2 w.done true).1.ts.size := by
        rw [finishTask_ts, hfr.2.2.2.2]; exact h.inb
      refine ⟨rfl, ?_, ?_⟩
      · show ((St.setT (finishTask e (bookResources e σ t w).1 t (bookResources e σ t w).2 w.done true).1 t _).tst t).start = _
        rw [tst_setT_same _ _ _ hsz]
        show ((finishTask e (bookResources e σ t w).1 t (bookResources e σ t w).2 w.done true).1.tst t).start = _
        unfold St.tst; rw [finishTask_ts]
      · show ((St.setT (finishTask e (bookResources e σ t w).1 t (bookResources e σ t w).2 w.done true).1 t _).tst t).stop = _
        rw [tst_setT_same _ _ _ hsz]
    obtain ⟨hled, hstart, hstop⟩ := hshape
    have hent' : ∀ i, (usageOf ((scheduleSlot e σ t w).1.led.get r i).usage t = none ↔
        usageOf ((bookResources e σ t w).1.led.get r i).usage t = none) := by
      intro i
      rw [hled]
      by_cases hi : i = w.cur
      · subst hi; rw [hft r hr, hent r hr]; simp
      · rw [hfo r i (by rw [hcurw]; exact hi)]
    have hne1 : (bookResources e σ t w).2.done ≠ 0 := by grind
    have hfst' : Fst e (scheduleSlot e σ t w).1 t r (bookResources e σ t w).2.done (w.cur :: vis) :=
      Fst.transfer (fun i _ => hent' i) hstart hfst
    obtain ⟨fb, hfb, hfbne, hmin, o, ho0, ho1, hst⟩ := hfst'.2 hne1
    have hfb_le : fb ≤ w.cur := by
      rcases List.mem_cons.mp hfb with hh | hh
      · omega
      · have := h.acc.before fb hh; simp only [if_true] at this; omega
    refine ⟨fb, w.cur, hfb_le, hfbne, ?_, ?_, ?_, ?_⟩
    · intro hc2; have hc3 := (hent' w.cur).mp hc2; rw [hent r hr] at hc3; cases hc3
    · intro i hi
      have hin : i ∈ w.cur :: vis := by
        by_cases hmem : i ∈ w.cur :: vis
        · exact hmem
        · exact absurd (hex.2.1 r hr i hmem) hi
      refine ⟨hmin i hin hi, ?_⟩
      rcases List.mem_cons.mp hin with hh | hh
      · omega
      · have := h.acc.before i hh; simp only [if_true] at this; omega
    · exact ⟨_, hst, markDate_in_slot e fb o ho0 ho1⟩
    · refine ⟨_, hstop, ?_⟩
      have hu : usageOf ((bookResources e σ t w).1.led.get rl (bookResources e σ t w).2.cur).usage t = some a := by
        rw [hcurw]; exact hent rl hrlmem
      rw [finishTask_date_some e _ t _ w.done rl _ hlast hu, hcurw, hneed]
      have hs := hb.slot rl w.cur
      have hle_sum := mem_le_usageSum _ hs.entries_nonneg _ (usageOf_mem (hent rl hrlmem))
      have h1 := hs.sum_le
      have h2 := hs.used_le
      simp only [] at hle_sum
      have hx0 : 0 ≤ ((bookResources e σ t w).1.led.get rl w.cur).used - a +
          ((e.taskD t).effort - w.done) / ((e.resD rl).eff / 3600) := by grind
      have hx1 : ((bookResources e σ t w).1.led.get rl w.cur).used - a +
          ((e.taskD t).effort - w.done) / ((e.resD rl).eff / 3600) ≤ (e.G : Rat) := by grind
      have hb1 := roundHalfEven_nonneg _ hx0
      have hb2 := roundHalfEven_mono_int _ e.G hx1
      rw [time_succ]
      omega

theorem walkLoop_framedT (e : Env) (wf : WF e) (t : Nat) (sel : List Nat) (η : Rat) (r : Nat) (hr : r ∈ sel)
    (fuel : Nat) (σ : St) (w : Walk) (vis : List Int)
    (hinv : Inv e σ) (hlf : (e.taskD t).leaf = true) (hw : WalkOk e t w)
    (ha : (e.taskD t).hasAlloc = true) (hm : (e.taskD t).milestone = false)
    (hsel : selectedOf e σ t w = sel) (hteam : isTeam e t sel = true) (hnd : sel.Nodup)
    (heff : ∀ r ∈ sel, (e.resD r).eff = η) (hη : 0 < η)
    (hlt : w.done < (e.taskD t).effort) (hpos : 0 < (e.taskD t).effort)
    (h : FInvT e σ t sel η r w vis) (hok : (walkLoop e t true fuel σ w).2.2 = true) :
    Framed e (walkLoop e t true fuel σ w).1 t r := by
  induction fuel generalizing σ w vis with
  | zero => simp [walkLoop] at hok
  | succ f ih =>
    have hs := scheduleSlot_inv e σ t w wf hinv hlf hw
    have hsa := scheduleSlot_tacc e wf σ t sel η true w vis hinv hlf hw ha hm hsel hteam hnd heff hη hlt hpos h.acc
    have hsf := scheduleSlot_finvT e wf σ t sel η r hr w vis hinv hlf hw ha hm hsel hteam hnd heff hη hlt hpos h
    unfold walkLoop at hok ⊢
    simp only [] at hok ⊢
    by_cases hc : (scheduleSlot e σ t w).2.2 = true
    · simp only [hc, Bool.not_true, Bool.false_eq_true, if_false] at hok ⊢
      obtain ⟨_, hsel', hlt'⟩ := hsa.1 hc
      have hw1 := hs.2 hc
      by_cases hout : ((advance true w (scheduleSlot e σ t w).2.1).cur < 0 || (advance true w (scheduleSlot e σ t w).2.1).cur > e.upper) = true
      · simp only [hout, if_true] at hok
        exact Bool.noConfusion hok
      · simp only [hout, Bool.false_eq_true, if_false] at hok ⊢
        exact ih _ _ _ hs.1 (walkOk_advance e t wf _ _ _ hw1)
          (selectedOf_some e _ t _ sel hsel') hlt' (hsf.1 hc) hok
    · have hc' : (scheduleSlot e σ t w).2.2 = false := by simpa using hc
      simp only [hc', Bool.not_false, if_true] at hok ⊢
      exact hsf.2 hc'

/-- **one forward team task, framing**: a successful `scheduleTask` of a forward team task, started with nothing of the
    task on its members, leaves it framed on every member -/
theorem scheduleTask_framedT (e : Env) (wf : WF e) (σ : St) (t : Nat) (sel : List Nat) (η : Rat) (r : Nat) (hr : r ∈ sel)
    (hinv : Inv e σ) (hel : TeamElig e t sel η) (hb : t < σ.ts.size) (hf : (σ.tst t).forward = true)
    (hnd : (σ.tst t).done = false) (hclean : ∀ m ∈ sel, ∀ i, usageOf (σ.led.get m i).usage t = none)
    (hok : (scheduleTask e σ t).2 = true) : Framed e (scheduleTask e σ t).1 t r := by
  have hpos := hel.effort
  have hpc : preStartCursor e σ t (initCursor e σ t).1 = (initCursor e σ t).1 := by
    unfold preStartCursor; simp [hel.alloc]
  have hpt : preStartT e σ t (initCursor e σ t).1 = σ.tst t := by
    unfold preStartT; simp [hel.alloc]
  have hoff := initCursor_off e σ t wf
  unfold scheduleTask at hok ⊢
  simp only [hnd, Bool.false_eq_true, if_false, hpc, hpt, hf] at hok ⊢
  have h0 : Inv e (σ.setT t (σ.tst t)) := inv_setT _ _ hinv
  by_cases hout : ((initCursor e σ t).1 < 0 || (initCursor e σ t).1 > e.upper) = true
  · simp only [hout, if_true] at hok
    exact Bool.noConfusion hok
  · simp only [hout, Bool.false_eq_true, if_false] at hok ⊢
    have hw : WalkOk e t { cur := (initCursor e σ t).1, offset := (initCursor e σ t).2 } :=
      ⟨hoff.1, hoff.2, wf.effort_nonneg t⟩
    have hacc : TAcc e (σ.setT t (σ.tst t)) t sel η true
        { cur := (initCursor e σ t).1, offset := (initCursor e σ t).2 } [] :=
      ⟨fun m hm i _ => hclean m hm i, fun i hi => absurd hi List.not_mem_nil,
       fun m _ => by show (0 : Rat) = sumOver _ m t [] / 3600 * η; simp only [sumOver]; grind, List.nodup_nil,
       fun m hm m' hm' i => by
         show usageOf (σ.led.get m i).usage t = usageOf (σ.led.get m' i).usage t
         rw [hclean m hm i, hclean m' hm' i]⟩
    have hfi : FInvT e (σ.setT t (σ.tst t)) t sel η r { cur := (initCursor e σ t).1, offset := (initCursor e σ t).2 } [] := by
      refine ⟨hacc, by rw [size_setT]; exact hb, by rw [tst_setT_same _ _ _ hb]; exact hf, Rat.le_refl,
        ⟨fun _ i hi => absurd hi List.not_mem_nil, fun hne => absurd rfl hne⟩⟩
    have hs0 : selectedOf e (σ.setT t (σ.tst t)) t { cur := (initCursor e σ t).1, offset := (initCursor e σ t).2 } = sel := by
      unfold selectedOf; exact hel.pick _ _
    by_cases hfin : (walkLoop e t true (e.size.toNat + 3) (σ.setT t (σ.tst t))
        { cur := (initCursor e σ t).1, offset := (initCursor e σ t).2 }).2.2 = true
    · simp only [hfin, Bool.not_true, Bool.false_eq_true, if_false] at hok ⊢
      have hfr := walkLoop_framedT e wf t sel η r hr _ _ _ [] h0 hel.leaf hw hel.alloc hel.nomile hs0 hel.isTeam hel.nodup
        hel.eff hel.effpos hpos hpos hfi hfin
      have hsz : t < (walkLoop e t true (e.size.toNat + 3) (σ.setT t (σ.tst t))
          { cur := (initCursor e σ t).1, offset := (initCursor e σ t).2 }).1.ts.size := by
        rw [(walkLoop_frame e t true _ _ _).2.2.2.2, size_setT]; exact hb
      obtain ⟨fb, last, h1, h2, h3, h4, ⟨v, hv, hv1, hv2⟩, ⟨u, hu, hu1, hu2⟩⟩ := hfr
      refine ⟨fb, last, h1, h2, h3, h4, ⟨v, ?_, hv1, hv2⟩, ⟨u, ?_, hu1, hu2⟩⟩
      · rw [tst_setT_same _ _ _ hsz]
        unfold finalT
        simp only [if_true, hv, Option.isNone_some, Bool.false_eq_true, if_false]
      · rw [tst_setT_same _ _ _ hsz]
        unfold finalT
        simp only [if_true, hv, Option.isNone_some, Bool.false_eq_true, if_false]
        exact hu
    · have hfin' : (walkLoop e t true (e.size.toNat + 3) (σ.setT t (σ.tst t))
        { cur := (initCursor e σ t).1, offset := (initCursor e σ t).2 }).2.2 = false := by simpa using hfin
      simp only [hfin', Bool.not_false, if_true] at hok
      exact Bool.noConfusion hok

end SP

namespace SP

/-- every completed forward team task is framed on every member -/
def DoneFramedT (e : Env) (σ : St) : Prop :=
  ∀ t sel η r, TeamElig e t sel η → r ∈ sel → (σ.tst t).done = true → (σ.tst t).forward = true → Framed e σ t r

structure FrInvT (e : Env) (σ : St) (tasks : List Nat) : Prop where
  inv : Inv e σ
  nodup : tasks.Nodup
  leaf : ∀ t ∈ tasks, (e.taskD t).leaf = true
  inrange : ∀ t ∈ tasks, t < σ.ts.size
  pending : ∀ t ∈ tasks, (σ.tst t).done = false ∧ ∀ r i, usageOf (σ.led.get r i).usage t = none
  ok : DoneFramedT e σ

theorem frInvT_step (e : Env) (wf : WF e) (σ : St) (tasks : List Nat) (t0 : Nat) (h : FrInvT e σ tasks)
    (hmem : t0 ∈ tasks) : FrInvT e (updateContainers e (scheduleTask e σ t0).1) (tasks.erase t0) := by
  have hlf0 := h.leaf t0 hmem
  have hinv1 := scheduleTask_inv e σ t0 wf h.inv hlf0
  have hsame : ∀ x, (e.taskD x).leaf = true → x ≠ t0 →
      (updateContainers e (scheduleTask e σ t0).1).tst x = σ.tst x := by
    intro x hx hne
    rw [updateContainers_leaf e _ x hx, scheduleTask_other e σ t0 x hne]
  refine ⟨updateContainers_inv e _ hinv1, h.nodup.erase t0, fun t ht => h.leaf t (List.mem_of_mem_erase ht), ?_, ?_, ?_⟩
  · intro t ht
    rw [updateContainers_size, scheduleTask_size]; exact h.inrange t (List.mem_of_mem_erase ht)
  · intro t ht
    have htm : t ∈ tasks := List.mem_of_mem_erase ht
    have hne : t ≠ t0 := fun heq => by
      rw [heq] at ht; exact (List.Nodup.not_mem_erase h.nodup) ht
    obtain ⟨hd, hc⟩ := h.pending t htm
    refine ⟨by rw [hsame t (h.leaf t htm) hne]; exact hd, fun r i => ?_⟩
    rw [updateContainers_led, scheduleTask_same e σ t0 t (Ne.symm hne) r i]
    exact hc r i
  · intro t sel η r hel hr hd hfw
    by_cases heq : t = t0
    · subst heq
      rw [updateContainers_leaf e _ t hel.leaf] at hd hfw
      rw [scheduleTask_self_forward] at hfw
      obtain ⟨hnd, hclean⟩ := h.pending t hmem
      have hok := scheduleTask_done e σ t hnd hd
      have hfr := scheduleTask_framedT e wf σ t sel η r hr h.inv hel (h.inrange t hmem) hfw hnd (fun m _ => hclean m) hok
      exact Framed.of_same (SameEntries.of_led (updateContainers_led e _)) (updateContainers_leaf e _ t hel.leaf) hfr
    · have hts := hsame t hel.leaf heq
      rw [hts] at hd hfw
      have hfr := h.ok t sel η r hel hr hd hfw
      refine Framed.of_same ?_ hts hfr
      exact (scheduleTask_same e σ t0 t (Ne.symm heq)).trans (SameEntries.of_led (updateContainers_led e _))

theorem DoneFramedT.of_eq {e : Env} {σ σ' : St} (hl : σ'.led = σ.led) (ht : σ'.ts = σ.ts) (h : DoneFramedT e σ) :
    DoneFramedT e σ' := by
  unfold DoneFramedT Framed St.tst at *
  rw [hl, ht]; exact h

theorem pickLoop_doneFramedT (e : Env) (wf : WF e) (fuel : Nat) (tasks failed : List Nat) (σ : St)
    (h : FrInvT e σ tasks) : DoneFramedT e (pickLoop e fuel tasks failed σ).1 := by
  induction fuel generalizing tasks failed σ with
  | zero => exact h.ok
  | succ f ih =>
    unfold pickLoop
    split
    · exact h.ok
    · split
      · rename_i t0 hfind
        exact ih _ _ _ (frInvT_step e wf σ tasks t0 h (List.mem_of_find?_eq_some hfind))
      · split
        · exact DoneFramedT.of_eq (σ := σ) rfl rfl h.ok
        · exact h.ok

/-- **C06 for teams, forward mode, end to end**: after scheduling any well-formed project, every completed forward team
    task (members sharing one efficiency) is framed on every member `r`: its bookings on `r` lie between a first and a
    last booked slot, the reported start lies in the first, the reported end in the last. -/
theorem runScenario_framedT (e : Env) (wf : WF e) : DoneFramedT e (runScenario e) := by
  unfold runScenario
  have hprep : Inv e (prepare e (initState e)) := prepare_inv e _ (inv_init e wf)
  have hd : DoneFalse (prepare e (initState e)) := prepare_doneFalse e _ (doneFalse_init e)
  have hsz : (prepare e (initState e)).ts.size = e.tasks.size := by rw [prepare_size, initState_size]
  have h2 : FrInvT e (preLoop e (prepare e (initState e))) (todoOf e (preLoop e (prepare e (initState e)))) := by
    refine ⟨preLoop_inv e _ hprep, todoOf_nodup e _, todoOf_leaf e _, ?_, ?_, ?_⟩
    · intro t ht; rw [preLoop_size, hsz]; exact (todoOf_mem e _ t ht).1
    · intro t _
      refine ⟨preLoop_doneFalse e _ hd t, fun r i => ?_⟩
      rw [preLoop_led, prepare_led]; simp [initState, Ledger.get_empty, usageOf]
    · intro t sel η r _ _ hdone
      rw [preLoop_doneFalse e _ hd t] at hdone
      exact Bool.noConfusion hdone
  have h3 := pickLoop_doneFramedT e wf ((todoOf e (preLoop e (prepare e (initState e)))).length + 1)
    (todoOf e (preLoop e (prepare e (initState e)))) [] _ h2
  have h4 : DoneFramedT e (scheduleScenario e (prepare e (initState e))) := by
    unfold scheduleScenario
    simp only []
    split
    · exact h3
    · exact DoneFramedT.of_eq (σ := (pickLoop e ((todoOf e (preLoop e (prepare e (initState e)))).length + 1)
        (todoOf e (preLoop e (prepare e (initState e)))) [] (preLoop e (prepare e (initState e)))).1) rfl rfl h3
  intro t sel η r hel hr hdn hfw
  rw [finishScenario_leafT e _ t hel.leaf] at hdn hfw
  exact Framed.of_same (SameEntries.of_led (finishScenario_led e _)) (finishScenario_leafT e _ t hel.leaf)
    (h4 t sel η r hel hr hdn hfw)

end SP
