import Proofs.Solid
import Proofs.NoIdle
import Proofs.FrameBack
/-!
C11: whatever is booked is booked inside the scheduling horizon — every ledger entry lies at a slot in `[0, upper]` — and hence
the reported dates of a framed task lie between the project start and the end of the horizon.
-/
namespace SP

/-- every ledger entry lies at a slot of the scheduling horizon -/
def InHorizon (e : Env) (σ : St) : Prop := ∀ r i, (σ.led.get r i).usage ≠ [] → 0 ≤ i ∧ i ≤ e.upper

theorem inHorizon_closed (e : Env) : Closed e (InHorizon e) where
  eq := by intro σ σ' hl _ _ h; unfold InHorizon at *; rw [hl]; exact h
  reserve := by
    intro σ r' i' off _ _ _ h r i hu
    unfold reserveAt at hu
    simp only [Ledger.get_set] at hu
    split at hu
    · rename_i heq; rw [reserve_usage, heq.1, heq.2] at hu; exact h r i hu
    · exact h r i hu
  release := by
    intro σ r' i' t a _ _ _ _ h r i hu
    have hu' : ((σ.led.set r' i' ((σ.led.get r' i').release t a)).get r i).usage ≠ [] := hu
    simp only [Ledger.get_set] at hu'
    split at hu'
    · rename_i heq
      apply h r i
      intro hn
      apply hu'
      rw [← heq.1, ← heq.2] at hn
      exact (release_usage_nil_iff _ t a).mpr hn
    · exact h r i hu'
  book := by
    intro σ r' i' t _ _ _ h0 hup _ _ h r i hu
    rw [bookSlot_eq, incAll_led] at hu
    simp only [Ledger.get_set] at hu
    split at hu
    · rename_i heq; rw [← heq.2]; exact ⟨h0, hup⟩
    · exact h r i hu

theorem inHorizon_init (e : Env) : InHorizon e (initState e) := by
  intro r i hu
  simp [initState, Ledger.get_empty] at hu

/-- **nothing is booked outside the scheduling horizon**: after scheduling any well-formed project every ledger entry lies at a
    slot `0 ≤ i ≤ upper` -/
theorem runScenario_inHorizon (e : Env) (wf : WF e) : InHorizon e (runScenario e) :=
  runScenario_closed (inHorizon_closed e) wf (fun _ => trivial) (inHorizon_init e)

/-- a framed task's dates lie inside the horizon -/
theorem Framed.inside {e : Env} {σ : St} {t r : Nat} (wf : WF e) (hh : InHorizon e σ) (h : Framed e σ t r) :
    ∃ s v, (σ.tst t).start = some s ∧ (σ.tst t).stop = some v ∧ e.time 0 ≤ s ∧ v ≤ e.time (e.upper + 1) := by
  obtain ⟨fb, last, _, hfb, hlast, _, ⟨s, hs, hs1, _⟩, ⟨v, hv, _, hv2⟩⟩ := h
  have h1 := hh r fb (usage_ne_nil_of_usageOf hfb)
  have h2 := hh r last (usage_ne_nil_of_usageOf hlast)
  refine ⟨s, v, hs, hv, Int.le_trans (time_mono e wf _ _ h1.1) hs1, Int.le_trans hv2 (time_mono e wf _ _ (by omega))⟩

end SP
