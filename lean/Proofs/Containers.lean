import Proofs.DepGlobal
import Proofs.WFCheck
/-!
C10, dates: a scheduled container carries the minimum of its children's starts and the maximum of their ends, and a
container is scheduled exactly when all of its children are — for the final state of every scenario.
-/
namespace SP

/-- children are created after their parents: a child's index is larger than its parent's -/
def Tree (e : Env) : Prop := ∀ c ch, ch ∈ (e.taskD c).children → c < ch

def treeCheck (e : Env) : Bool :=
  (List.range e.tasks.size).all (fun c => (e.taskD c).children.all (fun ch => decide (c < ch)))

theorem treeCheck_sound (e : Env) (h : treeCheck e = true) : Tree e := by
  intro c ch hch
  by_cases hc : c < e.tasks.size
  · unfold treeCheck at h
    simp only [List.all_eq_true, List.mem_range, decide_eq_true_eq] at h
    exact h c hc ch hch
  · rw [taskD_oob e c (by omega)] at hch
    cases hch

/-! ### the folds over children -/

theorem childMinStart_congr (σ σ' : St) (cs : List Nat) (h : ∀ ch ∈ cs, (σ'.tst ch).start = (σ.tst ch).start) :
    childMinStart σ' cs = childMinStart σ cs := by
  unfold childMinStart
  have : ∀ (l : List Nat) (m : Option Int), (∀ ch ∈ l, (σ'.tst ch).start = (σ.tst ch).start) →
      l.foldl (fun m c => match (σ'.tst c).start with | some s => minOpt m s | none => m) m =
      l.foldl (fun m c => match (σ.tst c).start with | some s => minOpt m s | none => m) m := by
    intro l
    induction l with
    | nil => intro m _; rfl
    | cons x xs ih =>
      intro m hl
      simp only [List.foldl_cons]
      rw [hl x List.mem_cons_self]
      exact ih _ (fun ch hch => hl ch (List.mem_cons_of_mem _ hch))
  exact this cs none h

theorem childMaxEnd_congr (σ σ' : St) (cs : List Nat) (h : ∀ ch ∈ cs, (σ'.tst ch).stop = (σ.tst ch).stop) :
    childMaxEnd σ' cs = childMaxEnd σ cs := by
  unfold childMaxEnd
  have : ∀ (l : List Nat) (m : Option Int), (∀ ch ∈ l, (σ'.tst ch).stop = (σ.tst ch).stop) →
      l.foldl (fun m c => match (σ'.tst c).stop with | some s => maxOpt m s | none => m) m =
      l.foldl (fun m c => match (σ.tst c).stop with | some s => maxOpt m s | none => m) m := by
    intro l
    induction l with
    | nil => intro m _; rfl
    | cons x xs ih =>
      intro m hl
      simp only [List.foldl_cons]
      rw [hl x List.mem_cons_self]
      exact ih _ (fun ch hch => hl ch (List.mem_cons_of_mem _ hch))
  exact this cs none h

/-- what a scheduled container says about its children -/
def ContOK (e : Env) (σ : St) (c : Nat) : Prop :=
  (∀ ch ∈ (e.taskD c).children, (σ.tst ch).scheduled = true) ∧
  (∀ s, childMinStart σ (e.taskD c).children = some s → (σ.tst c).start = some s) ∧
  (∀ s, childMaxEnd σ (e.taskD c).children = some s → (σ.tst c).stop = some s)

/-- every scheduled container summarises its children -/
def ContInv (e : Env) (σ : St) : Prop :=
  ∀ c, (e.taskD c).leaf = false → (σ.tst c).scheduled = true → ContOK e σ c

/-- two task states that agree on the dates and the scheduled flag -/
def SameDates (a b : TSt) : Prop := a.start = b.start ∧ a.stop = b.stop ∧ a.scheduled = b.scheduled

/-- a step that freezes the dates of every scheduled task and schedules no new container keeps the invariant -/
theorem contInv_of_frame (e : Env) (σ σ' : St) (h : ContInv e σ)
    (hfrozen : ∀ x, (σ.tst x).scheduled = true → SameDates (σ'.tst x) (σ.tst x))
    (hnew : ∀ c, (e.taskD c).leaf = false → (σ'.tst c).scheduled = true → (σ.tst c).scheduled = true) :
    ContInv e σ' := by
  intro c hc hs
  have hs0 := hnew c hc hs
  obtain ⟨h1, h2, h3⟩ := h c hc hs0
  have hch : ∀ ch ∈ (e.taskD c).children, SameDates (σ'.tst ch) (σ.tst ch) := fun ch hch => hfrozen ch (h1 ch hch)
  refine ⟨fun ch hm => by rw [(hch ch hm).2.2]; exact h1 ch hm, ?_, ?_⟩
  · intro s hm
    rw [childMinStart_congr σ σ' _ (fun ch hh => (hch ch hh).1)] at hm
    rw [(hfrozen c hs0).1]; exact h2 s hm
  · intro s hm
    rw [childMaxEnd_congr σ σ' _ (fun ch hh => (hch ch hh).2.1)] at hm
    rw [(hfrozen c hs0).2.1]; exact h3 s hm

end SP

namespace SP

theorem rollupT_cases (e : Env) (σ : St) (x : Nat) :
    rollupT e σ x = σ.tst x ∨
    ((e.taskD x).leaf = false ∧ (σ.tst x).scheduled = false ∧
     (∀ ch ∈ (e.taskD x).children, (σ.tst ch).scheduled = true) ∧
     (rollupT e σ x).scheduled = true ∧
     (∀ s, childMinStart σ (e.taskD x).children = some s → (rollupT e σ x).start = some s) ∧
     (∀ s, childMaxEnd σ (e.taskD x).children = some s → (rollupT e σ x).stop = some s)) := by
  unfold rollupT
  simp only []
  by_cases h1 : ((e.taskD x).leaf || (σ.tst x).scheduled || (e.taskD x).children.isEmpty) = true
  · left; simp only [h1, if_true]
  · simp only [h1, Bool.false_eq_true, if_false]
    by_cases h2 : (!(e.taskD x).children.all (fun c => (σ.tst c).scheduled)) = true
    · left; simp only [h2, if_true]
    · right
      simp only [h2, Bool.false_eq_true, if_false]
      simp only [Bool.or_eq_true, not_or, Bool.not_eq_true] at h1
      have hall : ∀ ch ∈ (e.taskD x).children, (σ.tst ch).scheduled = true := by
        simpa [List.all_eq_true] using h2
      refine ⟨h1.1.1, h1.1.2, hall, trivial, ?_, ?_⟩
      · intro s hs
        simp only [hs]
        cases childMaxEnd σ (e.taskD x).children <;> rfl
      · intro s hs
        simp only [hs]

theorem tst_setT_self (σ : St) (x y : Nat) : (σ.setT x (σ.tst x)).tst y = σ.tst y := by
  rw [tst_setT]
  split
  · rename_i h; rw [h.1]
  · rfl

/-- one step of the roll-up keeps the invariant -/
theorem rollup_step_contInv (e : Env) (tr : Tree e) (σ : St) (x : Nat) (h : ContInv e σ) :
    ContInv e (σ.setT x (rollupT e σ x)) := by
  rcases rollupT_cases e σ x with heq | ⟨hnl, hus, hall, hsch, hmin, hmax⟩
  · rw [heq]
    apply contInv_of_frame e σ _ h
    · intro y _; rw [tst_setT_self]; exact ⟨rfl, rfl, rfl⟩
    · intro c _ hs; rw [tst_setT_self] at hs; exact hs
  · intro c hc hs
    by_cases hcx : c = x
    · subst hcx
      -- children have larger indices: their states are untouched
      have hch : ∀ ch ∈ (e.taskD c).children, (σ.setT c (rollupT e σ c)).tst ch = σ.tst ch := by
        intro ch hm
        have := tr c ch hm
        exact tst_setT_other σ c _ ch (by omega)
      by_cases hb : c < σ.ts.size
      · have hv : (σ.setT c (rollupT e σ c)).tst c = rollupT e σ c := by rw [tst_setT]; simp [hb]
        refine ⟨fun ch hm => by rw [hch ch hm]; exact hall ch hm, ?_, ?_⟩
        · intro s hs'
          rw [childMinStart_congr σ _ _ (fun ch hm => by rw [hch ch hm])] at hs'
          rw [hv]; exact hmin s hs'
        · intro s hs'
          rw [childMaxEnd_congr σ _ _ (fun ch hm => by rw [hch ch hm])] at hs'
          rw [hv]; exact hmax s hs'
      · exfalso
        have : (σ.setT c (rollupT e σ c)).tst c = σ.tst c := by rw [tst_setT]; simp [hb]
        rw [this, hus] at hs; exact Bool.noConfusion hs
    · have hsame : (σ.setT x (rollupT e σ x)).tst c = σ.tst c := tst_setT_other σ x _ c (Ne.symm hcx)
      rw [hsame] at hs
      obtain ⟨h1, h2, h3⟩ := h c hc hs
      have hx_notin : x ∉ (e.taskD c).children := by
        intro hm; have := h1 x hm; rw [hus] at this; exact Bool.noConfusion this
      have hch : ∀ ch ∈ (e.taskD c).children, (σ.setT x (rollupT e σ x)).tst ch = σ.tst ch := by
        intro ch hm
        exact tst_setT_other σ x _ ch (fun heq => hx_notin (heq ▸ hm))
      refine ⟨fun ch hm => by rw [hch ch hm]; exact h1 ch hm, ?_, ?_⟩
      · intro s hs'
        rw [childMinStart_congr σ _ _ (fun ch hm => by rw [hch ch hm])] at hs'
        rw [hsame]; exact h2 s hs'
      · intro s hs'
        rw [childMaxEnd_congr σ _ _ (fun ch hm => by rw [hch ch hm])] at hs'
        rw [hsame]; exact h3 s hs'

theorem updateContainers_contInv (e : Env) (tr : Tree e) (σ : St) (h : ContInv e σ) : ContInv e (updateContainers e σ) := by
  unfold updateContainers
  exact foldl_inv (fun acc => ContInv e acc) _ _ σ h (fun acc x hacc => rollup_step_contInv e tr acc x hacc)

end SP

namespace SP

/-- a container all of whose children are scheduled is scheduled -/
def Complete (e : Env) (σ : St) : Prop :=
  ∀ c, (e.taskD c).leaf = false → (e.taskD c).children ≠ [] →
    (∀ ch ∈ (e.taskD c).children, (σ.tst ch).scheduled = true) → (σ.tst c).scheduled = true

/-- scheduling a leaf that is not yet scheduled keeps the container invariant -/
theorem scheduleTask_contInv (e : Env) (σ : St) (t0 : Nat) (hlf : (e.taskD t0).leaf = true)
    (hus : (σ.tst t0).scheduled = false) (h : ContInv e σ) : ContInv e (scheduleTask e σ t0).1 := by
  apply contInv_of_frame e σ _ h
  · intro x hx
    have hne : x ≠ t0 := fun heq => by rw [heq, hus] at hx; exact Bool.noConfusion hx
    rw [scheduleTask_other e σ t0 x hne]; exact ⟨rfl, rfl, rfl⟩
  · intro c hc hs
    have hne : c ≠ t0 := fun heq => by rw [heq, hlf] at hc; exact Bool.noConfusion hc
    rw [scheduleTask_other e σ t0 c hne] at hs; exact hs

structure ContLoopInv (e : Env) (σ : St) (tasks : List Nat) : Prop where
  cont : ContInv e σ
  nodup : tasks.Nodup
  pending : ∀ t ∈ tasks, (e.taskD t).leaf = true ∧ (σ.tst t).scheduled = false

theorem contLoop_step (e : Env) (tr : Tree e) (σ : St) (tasks : List Nat) (t0 : Nat) (h : ContLoopInv e σ tasks)
    (hmem : t0 ∈ tasks) : ContLoopInv e (updateContainers e (scheduleTask e σ t0).1) (tasks.erase t0) := by
  obtain ⟨hlf0, hus0⟩ := h.pending t0 hmem
  refine ⟨updateContainers_contInv e tr _ (scheduleTask_contInv e σ t0 hlf0 hus0 h.cont), h.nodup.erase t0, ?_⟩
  intro t ht
  have htm : t ∈ tasks := List.mem_of_mem_erase ht
  have hne : t ≠ t0 := fun heq => by
    rw [heq] at ht; exact (List.Nodup.not_mem_erase h.nodup) ht
  obtain ⟨hlf, hus⟩ := h.pending t htm
  refine ⟨hlf, ?_⟩
  rw [updateContainers_leaf e _ t hlf, scheduleTask_other e σ t0 t hne]; exact hus

theorem ContInv.of_ts {e : Env} {σ σ' : St} (h : σ'.ts = σ.ts) (hc : ContInv e σ) : ContInv e σ' := by
  unfold ContInv ContOK childMinStart childMaxEnd St.tst at *
  rw [h]; exact hc

theorem pickLoop_contInv (e : Env) (tr : Tree e) (fuel : Nat) (tasks failed : List Nat) (σ : St)
    (h : ContLoopInv e σ tasks) : ContInv e (pickLoop e fuel tasks failed σ).1 := by
  induction fuel generalizing tasks failed σ with
  | zero => exact h.cont
  | succ f ih =>
    unfold pickLoop
    split
    · exact h.cont
    · split
      · rename_i t0 hfind
        exact ih _ _ _ (contLoop_step e tr σ tasks t0 h (List.mem_of_find?_eq_some hfind))
      · split
        · exact ContInv.of_ts (σ := σ) rfl h.cont
        · exact h.cont

end SP

namespace SP

/-- the completeness statement for one container -/
def CompleteAt (e : Env) (σ : St) (c : Nat) : Prop :=
  (e.taskD c).leaf = false → (e.taskD c).children ≠ [] →
    (∀ ch ∈ (e.taskD c).children, (σ.tst ch).scheduled = true) → (σ.tst c).scheduled = true

/-- processing the containers in descending index order: everything processed so far stays complete -/
theorem rollup_fold_complete (e : Env) (tr : Tree e) :
    ∀ (l : List Nat) (acc : St) (Done : Nat → Prop),
      l.Pairwise (fun a b => b < a) → (∀ y ∈ l, y < acc.ts.size) →
      (∀ x, Done x → CompleteAt e acc x) → (∀ y ∈ l, ∀ x, Done x → y < x) →
      ∀ x, (Done x ∨ x ∈ l) →
        CompleteAt e (l.foldl (fun (acc : St) t => acc.setT t (rollupT e acc t)) acc) x := by
  intro l
  induction l with
  | nil =>
    intro acc Done _ _ hd _ x hx
    rcases hx with hx | hx
    · exact hd x hx
    · cases hx
  | cons y ys ih =>
    intro acc Done hpw hsz hd hlt x hx
    simp only [List.foldl_cons]
    have hpw' := List.pairwise_cons.mp hpw
    apply ih (acc.setT y (rollupT e acc y)) (fun z => Done z ∨ z = y) hpw'.2
    · intro z hz; rw [size_setT]; exact hsz z (List.mem_cons_of_mem _ hz)
    · intro z hz
      rcases hz with hz | hz
      · -- an already processed container: larger index, its children are larger still
        have hyz : y < z := hlt y List.mem_cons_self z hz
        intro hnl hne hall
        have hzs : (acc.setT y (rollupT e acc y)).tst z = acc.tst z := tst_setT_other acc y _ z (by omega)
        rw [hzs]
        apply hd z hz hnl hne
        intro ch hch
        have := tr z ch hch
        rw [← tst_setT_other acc y (rollupT e acc y) ch (by omega)]
        exact hall ch hch
      · -- the container processed in this step
        subst hz
        intro hnl hne hall
        have hb : z < acc.ts.size := hsz z List.mem_cons_self
        have hv : (acc.setT z (rollupT e acc z)).tst z = rollupT e acc z := by rw [tst_setT]; simp [hb]
        rw [hv]
        have hall' : ∀ ch ∈ (e.taskD z).children, (acc.tst ch).scheduled = true := by
          intro ch hch
          have := tr z ch hch
          rw [← tst_setT_other acc z (rollupT e acc z) ch (by omega)]
          exact hall ch hch
        unfold rollupT
        simp only [hnl, Bool.false_or]
        by_cases hs : (acc.tst z).scheduled = true
        · simp [hs]
        · have hs' : (acc.tst z).scheduled = false := by simpa using hs
          have hne' : (e.taskD z).children.isEmpty = false := by
            cases hc : (e.taskD z).children with
            | nil => exact absurd hc hne
            | cons a as => rfl
          have hall'' : (e.taskD z).children.all (fun c => (acc.tst c).scheduled) = true := by
            simpa [List.all_eq_true] using hall'
          simp only [hs', hne', Bool.or_self, Bool.false_eq_true, if_false, hall'', Bool.not_true]
    · intro z hz w hw
      rcases hw with hw | hw
      · exact hlt z (List.mem_cons_of_mem _ hz) w hw
      · subst hw; exact hpw'.1 z hz
    · rcases hx with hx | hx
      · exact Or.inl (Or.inl hx)
      · rcases List.mem_cons.mp hx with h | h
        · exact Or.inl (Or.inr h)
        · exact Or.inr h

/-- **one children-first pass completes the roll-up**: afterwards every container all of whose children are
    scheduled is scheduled -/
theorem updateContainers_complete (e : Env) (tr : Tree e) (σ : St) (hsz : σ.ts.size = e.tasks.size) :
    Complete e (updateContainers e σ) := by
  intro c hnl hne hall
  by_cases hc : c < e.tasks.size
  · unfold updateContainers at hall ⊢
    have hpw : ((List.range e.tasks.size).reverse).Pairwise (fun a b => b < a) := by
      rw [List.pairwise_reverse]
      exact List.pairwise_lt_range
    exact rollup_fold_complete e tr _ σ (fun _ => False) hpw
      (fun y hy => by rw [hsz]; simpa using hy) (fun x hx => absurd hx id) (fun _ _ x hx => absurd hx id)
      c (Or.inr (by simpa using hc)) hnl hne hall
  · rw [taskD_oob e c (by omega)] at hnl
    exact Bool.noConfusion hnl

end SP

namespace SP

theorem Complete.of_ts {e : Env} {σ σ' : St} (h : σ'.ts = σ.ts) (hc : Complete e σ) : Complete e σ' := by
  unfold Complete St.tst at *
  rw [h]; exact hc

theorem pickLoop_complete (e : Env) (tr : Tree e) (fuel : Nat) (tasks failed : List Nat) (σ : St)
    (hsz : σ.ts.size = e.tasks.size) (h : Complete e σ) : Complete e (pickLoop e fuel tasks failed σ).1 := by
  induction fuel generalizing tasks failed σ with
  | zero => exact h
  | succ f ih =>
    unfold pickLoop
    split
    · exact h
    · split
      · rename_i t0 _
        have hsz1 : (scheduleTask e σ t0).1.ts.size = e.tasks.size := by rw [scheduleTask_size]; exact hsz
        exact ih _ _ _ (by rw [updateContainers_size]; exact hsz1) (updateContainers_complete e tr _ hsz1)
      · split
        · exact Complete.of_ts (σ := σ) rfl h
        · exact h

/-- with the roll-up complete and the invariant in place, `scheduleContainer` changes neither dates nor the
    scheduled flag of any task -/
theorem containerT_sameDates (e : Env) (σ : St) (x : Nat) (hci : ContInv e σ) (hco : Complete e σ) :
    SameDates (containerT e σ x) (σ.tst x) := by
  unfold containerT
  simp only []
  by_cases h1 : ((σ.tst x).done || (e.taskD x).leaf) = true
  · simp only [h1, if_true]; exact ⟨rfl, rfl, rfl⟩
  · simp only [h1, Bool.false_eq_true, if_false]
    simp only [Bool.or_eq_true, not_or, Bool.not_eq_true] at h1
    by_cases h2 : (e.taskD x).children.any (fun c => !(σ.tst c).scheduled || (σ.tst c).start.isNone || (σ.tst c).stop.isNone) = true
    · simp only [h2, if_true]; exact ⟨rfl, rfl, rfl⟩
    · simp only [h2, Bool.false_eq_true, if_false]
      have hall : ∀ ch ∈ (e.taskD x).children, (σ.tst ch).scheduled = true := by
        intro ch hch
        have : ¬ ((!(σ.tst ch).scheduled || (σ.tst ch).start.isNone || (σ.tst ch).stop.isNone) = true) := by
          intro hb; apply h2; exact List.any_eq_true.mpr ⟨ch, hch, hb⟩
        cases hs : (σ.tst ch).scheduled with
        | true => rfl
        | false => exfalso; apply this; simp [hs]
      by_cases hne : (e.taskD x).children = []
      · -- no children: nothing to summarise
        rw [hne]
        simp [childMinStart, childMaxEnd, SameDates]
      · have hsx : (σ.tst x).scheduled = true := hco x h1.2 hne hall
        obtain ⟨_, hmin, hmax⟩ := hci x h1.2 hsx
        cases hmn : childMinStart σ (e.taskD x).children with
        | none =>
          cases hmx : childMaxEnd σ (e.taskD x).children with
          | none => simp [SameDates]
          | some b =>
            have hb := hmax b hmx
            simp [SameDates, hb]
        | some a =>
          have ha := hmin a hmn
          cases hmx : childMaxEnd σ (e.taskD x).children with
          | none => simp [SameDates, ha]
          | some b =>
            have hb := hmax b hmx
            simp [SameDates, ha, hb, hsx]

end SP

namespace SP

theorem contInv_sameDates (e : Env) (σ σ' : St) (h : ∀ y, SameDates (σ'.tst y) (σ.tst y)) (hc : ContInv e σ) :
    ContInv e σ' :=
  contInv_of_frame e σ σ' hc (fun x _ => h x) (fun c _ hs => by rw [← (h c).2.2]; exact hs)

theorem complete_sameDates (e : Env) (σ σ' : St) (h : ∀ y, SameDates (σ'.tst y) (σ.tst y)) (hc : Complete e σ) :
    Complete e σ' := by
  intro c hnl hne hall
  rw [(h c).2.2]
  exact hc c hnl hne (fun ch hch => by rw [← (h ch).2.2]; exact hall ch hch)

theorem finishScenario_cont (e : Env) (σ : St) (hci : ContInv e σ) (hco : Complete e σ) :
    ContInv e (finishScenario e σ) ∧ Complete e (finishScenario e σ) := by
  unfold finishScenario
  apply foldl_inv (fun acc => ContInv e acc ∧ Complete e acc) _ _ σ ⟨hci, hco⟩
  intro acc x ⟨h1, h2⟩
  split
  · exact ⟨h1, h2⟩
  · have hsd : ∀ y, SameDates ((scheduleContainer e acc x).tst y) (acc.tst y) := by
      intro y
      unfold scheduleContainer
      rw [tst_setT]
      split
      · rename_i hxy; rw [← hxy.1]; exact containerT_sameDates e acc x h1 h2
      · exact ⟨rfl, rfl, rfl⟩
    exact ⟨contInv_sameDates e acc _ hsd h1, complete_sameDates e acc _ hsd h2⟩

/-! ### before the loop no container is scheduled -/

def NoContSched (e : Env) (σ : St) : Prop := ∀ c, (e.taskD c).leaf = false → (σ.tst c).scheduled = false

theorem noContSched_init (e : Env) : NoContSched e (initState e) := by
  intro c _
  unfold initState St.tst
  simp only [Array.getD_eq_getD_getElem?, Array.getElem?_map]
  cases e.tasks[c]? <;> rfl

theorem noContSched_setT (e : Env) (σ : St) (x : Nat) (v : TSt) (h : NoContSched e σ)
    (hv : (e.taskD x).leaf = false → v.scheduled = false) : NoContSched e (σ.setT x v) := by
  intro c hc
  rw [tst_setT]
  split
  · rename_i hx; exact hv (hx.1 ▸ hc)
  · exact h c hc

theorem foldl_setT_noContSched (e : Env) (f : St → Nat → TSt) (l : List Nat) (σ : St) (h : NoContSched e σ)
    (hf : ∀ acc t, NoContSched e acc → (e.taskD t).leaf = false → (f acc t).scheduled = false) :
    NoContSched e (l.foldl (fun (acc : St) t => acc.setT t (f acc t)) σ) := by
  induction l generalizing σ with
  | nil => exact h
  | cons x xs ih =>
    simp only [List.foldl_cons]
    exact ih _ (noContSched_setT e σ x _ h (hf σ x h))

theorem prepassT_nonleaf (e : Env) (σ : St) (t : Nat) (h : (e.taskD t).leaf = false) : prepassT e σ t = σ.tst t := by
  unfold prepassT; simp [h]

theorem prepare_noContSched (e : Env) (σ : St) (h : NoContSched e σ) : NoContSched e (prepare e σ) := by
  unfold prepare propagateContainerEnds
  apply foldl_setT_noContSched
  · apply foldl_setT_noContSched e _ _ _ h
    intro acc t hacc hnl
    rw [projAlapT_scheduled]; exact hacc t hnl
  · intro acc t hacc hnl
    rw [containerEndT_scheduled]; exact hacc t hnl

theorem markAlap_noContSched (e : Env) (fuel : Nat) (stack processed : List Nat) (σ : St) (h : NoContSched e σ) :
    NoContSched e (markAlap e fuel stack processed σ).1 := by
  induction fuel generalizing stack processed σ with
  | zero => unfold markAlap; exact h
  | succ f ih =>
    cases stack with
    | nil => unfold markAlap; exact h
    | cons t stack =>
      unfold markAlap
      simp only []
      split
      · exact ih _ _ _ h
      · split
        · exact ih _ _ _ h
        · split
          · exact ih _ _ _ h
          · exact ih _ _ _ (noContSched_setT e σ t _ h (fun hnl => h t hnl))

theorem propagateAlap_noContSched (e : Env) (σ : St) (h : NoContSched e σ) : NoContSched e (propagateAlap e σ) := by
  unfold propagateAlap
  simp only []
  have : ∀ (l : List Nat) (acc : St × List Nat), NoContSched e acc.1 →
      NoContSched e (l.foldl (fun (acc : St × List Nat) a =>
        markAlap e (e.tasks.size * e.tasks.size + e.tasks.size + 1)
          (((e.taskD a).deps.map (·.target)).filter (fun p => !(if acc.2.contains a then acc.2 else a :: acc.2).contains p))
          (if acc.2.contains a then acc.2 else a :: acc.2) acc.1) acc).1 := by
    intro l
    induction l with
    | nil => intro acc hacc; exact hacc
    | cons x xs ih =>
      intro acc hacc
      simp only [List.foldl_cons]
      exact ih _ (markAlap_noContSched e _ _ _ _ hacc)
  exact this _ (σ, []) h

theorem milestonePrepass_noContSched (e : Env) (σ : St) (h : NoContSched e σ) : NoContSched e (milestonePrepass e σ) := by
  unfold milestonePrepass
  apply foldl_setT_noContSched e _ _ _ h
  intro acc t hacc hnl
  rw [prepassT_nonleaf e acc t hnl]; exact hacc t hnl

end SP

namespace SP

theorem milestonePrepass_size (e : Env) (σ : St) : (milestonePrepass e σ).ts.size = σ.ts.size := by
  unfold milestonePrepass; exact foldl_setT_size _ _ σ

/-- the state the pick loop ends in: every scheduled container summarises its children, every container whose children
    are all scheduled is scheduled -/
theorem scheduleScenario_cont (e : Env) (tr : Tree e) :
    ContInv e (scheduleScenario e (prepare e (initState e))) ∧ Complete e (scheduleScenario e (prepare e (initState e))) := by
  have hsz0 : (prepare e (initState e)).ts.size = e.tasks.size := by rw [prepare_size, initState_size]
  have hn0 := prepare_noContSched e _ (noContSched_init e)
  -- before the roll-up of `preLoop` no container is scheduled
  have hn1 := propagateAlap_noContSched e _ (milestonePrepass_noContSched e _ hn0)
  have hc1 : ContInv e (propagateAlap e (milestonePrepass e (prepare e (initState e)))) := by
    intro c hc hs; rw [hn1 c hc] at hs; exact Bool.noConfusion hs
  have hsz1 : (propagateAlap e (milestonePrepass e (prepare e (initState e)))).ts.size = e.tasks.size := by
    rw [propagateAlap_size, milestonePrepass_size]; exact hsz0
  have hc2 : ContInv e (preLoop e (prepare e (initState e))) := by
    unfold preLoop; exact updateContainers_contInv e tr _ hc1
  have hco2 : Complete e (preLoop e (prepare e (initState e))) := by
    unfold preLoop; exact updateContainers_complete e tr _ hsz1
  have hsz2 : (preLoop e (prepare e (initState e))).ts.size = e.tasks.size := by rw [preLoop_size]; exact hsz0
  have hloop : ContLoopInv e (preLoop e (prepare e (initState e))) (todoOf e (preLoop e (prepare e (initState e)))) :=
    ⟨hc2, todoOf_nodup e _, fun t ht => ⟨todoOf_leaf e _ t ht, (todoOf_mem e _ t ht).2⟩⟩
  have h3 := pickLoop_contInv e tr ((todoOf e (preLoop e (prepare e (initState e)))).length + 1)
    (todoOf e (preLoop e (prepare e (initState e)))) [] _ hloop
  have h4 := pickLoop_complete e tr ((todoOf e (preLoop e (prepare e (initState e)))).length + 1)
    (todoOf e (preLoop e (prepare e (initState e)))) [] _ hsz2 hco2
  have h5 : ContInv e (scheduleScenario e (prepare e (initState e))) ∧ Complete e (scheduleScenario e (prepare e (initState e))) := by
    unfold scheduleScenario
    simp only []
    split
    · exact ⟨h3, h4⟩
    · exact ⟨ContInv.of_ts (σ := (pickLoop e ((todoOf e (preLoop e (prepare e (initState e)))).length + 1)
          (todoOf e (preLoop e (prepare e (initState e)))) [] (preLoop e (prepare e (initState e)))).1) rfl h3,
        Complete.of_ts (σ := (pickLoop e ((todoOf e (preLoop e (prepare e (initState e)))).length + 1)
          (todoOf e (preLoop e (prepare e (initState e)))) [] (preLoop e (prepare e (initState e)))).1) rfl h4⟩
  exact h5


/-- `finishScenario` changes no date and no scheduled flag -/
theorem finishScenario_sameDates (e : Env) (σ : St) (hci : ContInv e σ) (hco : Complete e σ) :
    ∀ y, SameDates ((finishScenario e σ).tst y) (σ.tst y) := by
  unfold finishScenario
  have := foldl_inv (fun acc => (ContInv e acc ∧ Complete e acc) ∧ ∀ y, SameDates (acc.tst y) (σ.tst y))
    (fun acc t => if (e.taskD t).leaf then acc else scheduleContainer e acc t) (List.range e.tasks.size).reverse σ
    ⟨⟨hci, hco⟩, fun y => ⟨rfl, rfl, rfl⟩⟩
    (by
      intro acc x ⟨⟨h1, h2⟩, h3⟩
      split
      · exact ⟨⟨h1, h2⟩, h3⟩
      · have hsd : ∀ y, SameDates ((scheduleContainer e acc x).tst y) (acc.tst y) := by
          intro y
          unfold scheduleContainer
          rw [tst_setT]
          split
          · rename_i hxy; rw [← hxy.1]; exact containerT_sameDates e acc x h1 h2
          · exact ⟨rfl, rfl, rfl⟩
        exact ⟨⟨contInv_sameDates e acc _ hsd h1, complete_sameDates e acc _ hsd h2⟩,
          fun y => ⟨(hsd y).1.trans (h3 y).1, (hsd y).2.1.trans (h3 y).2.1, (hsd y).2.2.trans (h3 y).2.2⟩⟩)
  exact this.2

/-- **C10, dates, end to end**: in the final state of any scenario of a project whose task tree is well-formed
    (children declared after their parents), every scheduled container has all its children scheduled and carries the
    minimum of their starts and the maximum of their ends; and every container all of whose children are scheduled is
    scheduled -/
theorem runScenario_containers (e : Env) (tr : Tree e) :
    ContInv e (runScenario e) ∧ Complete e (runScenario e) := by
  unfold runScenario
  have h5 := scheduleScenario_cont e tr
  exact finishScenario_cont e _ h5.1 h5.2

end SP
