import Model.Resolve
/-! Lemmas about reference resolution: renaming, relative vs absolute, dependency stores. -/
namespace SP.Resolve

variable {α β : Type}

@[simp] theorem TTree.id_node (a : α) (ks : List (TTree α)) : (TTree.node a ks).id = a := rfl
@[simp] theorem TTree.kids_node (a : α) (ks : List (TTree α)) : (TTree.node a ks).kids = ks := rfl

theorem TTree.eta (t : TTree α) : t = .node t.id t.kids := by cases t; rfl

@[simp] theorem TTree.id_map (f : α → β) (t : TTree α) : (t.map f).id = f t.id := by
  cases t; simp [TTree.map]

@[simp] theorem TTree.kids_map (f : α → β) (t : TTree α) : (t.map f).kids = mapForest f t.kids := by
  cases t; simp [TTree.map]

theorem mapForest_eq_map (f : α → β) (ts : List (TTree α)) : mapForest f ts = ts.map (TTree.map f) := by
  induction ts with
  | nil => simp [mapForest]
  | cons t ts ih => simp [mapForest, ih]

@[simp] theorem mapForest_getElem? (f : α → β) (ts : List (TTree α)) (i : Nat) :
    (mapForest f ts)[i]? = (ts[i]?).map (TTree.map f) := by
  rw [mapForest_eq_map]; simp

/-! ### renaming commutes with every step of the resolution -/

mutual
theorem preTree_map (f : α → β) (pos : Pos) : ∀ t : TTree α,
    preTree pos (t.map f) = (preTree pos t).map (fun p => (p.1, p.2.map f))
  | .node a ks => by
    simp only [TTree.map, preTree, List.map_cons, preKids_map f pos 0 ks]
theorem preKids_map (f : α → β) (pre : Pos) : ∀ (i : Nat) (ts : List (TTree α)),
    preKids pre i (mapForest f ts) = (preKids pre i ts).map (fun p => (p.1, p.2.map f))
  | _, [] => by simp [mapForest, preKids]
  | i, t :: ts => by
    simp only [mapForest, preKids, List.map_append, preTree_map f (pre ++ [i]) t, preKids_map f pre (i + 1) ts]
end

section rename
variable [DecidableEq α] [DecidableEq β] (f : α → β) (hf : ∀ a b, f a = f b → a = b)
include hf

theorem findChildFrom_map (x : α) (i : Nat) (ts : List (TTree α)) :
    findChildFrom (f x) i (mapForest f ts) = (findChildFrom x i ts).map (fun p => (p.1, p.2.map f)) := by
  induction ts generalizing i with
  | nil => simp [mapForest, findChildFrom]
  | cons t ts ih =>
    simp only [mapForest, findChildFrom, TTree.id_map]
    by_cases h : t.id = x
    · simp [h]
    · have : f t.id ≠ f x := fun e => h (hf _ _ e)
      simp [h, this, ih]

theorem walk_map (t : TTree α) (pos : Pos) (xs : List α) :
    walk (t.map f) pos (xs.map f) = walk t pos xs := by
  induction xs generalizing t pos with
  | nil => simp [walk]
  | cons x xs ih =>
    simp only [List.map_cons, walk, findChild, TTree.kids_map]
    rw [findChildFrom_map f hf]
    cases h : findChildFrom x 0 t.kids with
    | none => simp
    | some p => simp [ih]

omit hf [DecidableEq α] [DecidableEq β] in
theorem node?_map (F : Forest α) (p : Pos) :
    node? (mapForest f F) p = (node? F p).map (TTree.map f) := by
  induction p generalizing F with
  | nil => simp [node?]
  | cons i rest ih =>
    cases rest with
    | nil => simp [node?]
    | cons j rest =>
      simp only [node?, mapForest_getElem?]
      cases h : F[i]? with
      | none => simp
      | some t => simp [ih]


omit hf [DecidableEq α] [DecidableEq β] in
theorem topsFrom_map (i : Nat) (ts : List (TTree α)) :
    topsFrom i (mapForest f ts) = (topsFrom i ts).map (fun p => (p.1, p.2.map f)) := by
  induction ts generalizing i with
  | nil => simp [mapForest, topsFrom]
  | cons t ts ih => simp [mapForest, topsFrom, ih]

omit hf [DecidableEq α] [DecidableEq β] in
theorem candidates_map (F : Forest α) :
    candidates (mapForest f F) = (candidates F).map (fun p => (p.1, p.2.map f)) := by
  simp only [candidates, tops, preorder, topsFrom_map, preKids_map, List.map_append, List.filter_map]
  rfl

theorem firstMatch_map (cands : List (Pos × TTree α)) (h : α) (rest : List α) :
    firstMatch (cands.map (fun p => (p.1, p.2.map f))) (f h) (rest.map f) = firstMatch cands h rest := by
  induction cands with
  | nil => simp [firstMatch]
  | cons c cs ih =>
    unfold firstMatch at ih ⊢
    rw [List.map_cons, List.find?_cons, List.find?_cons]
    by_cases e : c.2.id = h
    · simp [e, walk_map f hf]
    · have : f c.2.id ≠ f h := fun e' => e (hf _ _ e')
      simp only [TTree.id_map, this, e, decide_false]
      exact ih

theorem resolveRoot_map (F : Forest α) (h : α) (rest : List α) :
    resolveRoot (mapForest f F) (f h) (rest.map f) = resolveRoot F h rest := by
  simp only [resolveRoot, candidates_map, firstMatch_map f hf]

theorem resolveRootPinned_map (F : Forest α) (h : α) (rest : List α) :
    resolveRootPinned (mapForest f F) (f h) (rest.map f) = resolveRootPinned F h rest := by
  simp only [resolveRootPinned, preorder, preKids_map, firstMatch_map f hf]

theorem resolve_map (F : Forest α) (src : Pos) (r : Ref α) :
    resolve (mapForest f F) src (r.map f) = resolve F src r := by
  simp only [resolve, Ref.map, Ref.path]
  cases hb : basePos src r.up with
  | none => simp [resolveRoot_map f hf]
  | some b =>
    simp only [node?_map]
    cases hn : node? F b with
    | none => simp
    | some t =>
      have := walk_map f hf t b (r.head :: r.tail)
      simpa using this

end rename

/-! ### relative vs absolute -/

section relabs
variable [DecidableEq α]

theorem forestUniq_mem {ks : List (TTree α)} (h : forestUniq ks = true) {t : TTree α} (ht : t ∈ ks) :
    t.uniq = true := by
  induction ks with
  | nil => cases ht
  | cons a as ih =>
    simp only [forestUniq, Bool.and_eq_true] at h
    rcases List.mem_cons.mp ht with e | e
    · exact e ▸ h.1
    · exact ih h.2 e

theorem TTree.uniq_kids {t : TTree α} (h : t.uniq = true) :
    sibsDistinct t.kids = true ∧ forestUniq t.kids = true := by
  cases t with
  | node a ks => simpa [TTree.uniq] using h

theorem findChildFrom_of_distinct (ks : List (TTree α)) (hd : (ks.map TTree.id).Nodup)
    (i : Nat) (c : TTree α) (hc : ks[i]? = some c) (j : Nat) :
    findChildFrom c.id j ks = some (j + i, c) := by
  induction ks generalizing i j with
  | nil => simp at hc
  | cons a as ih =>
    cases i with
    | zero =>
      simp only [List.getElem?_cons_zero, Option.some.injEq] at hc
      subst hc
      simp [findChildFrom]
    | succ i =>
      simp only [List.getElem?_cons_succ] at hc
      simp only [List.map_cons, List.nodup_cons] at hd
      have hne : a.id ≠ c.id := by
        intro e
        apply hd.1
        rw [e]
        exact List.mem_map.mpr ⟨c, List.mem_of_getElem? hc, rfl⟩
      simp only [findChildFrom, hne, if_false]
      rw [ih hd.2 i hc (j + 1)]
      congr 2
      omega

theorem findChild_of_distinct (ks : List (TTree α)) (hd : sibsDistinct ks = true)
    (i : Nat) (c : TTree α) (hc : ks[i]? = some c) : findChild ks c.id = some (i, c) := by
  have := findChildFrom_of_distinct ks (by simpa [sibsDistinct] using hd) i c hc 0
  simpa [findChild] using this

/-- walking down by ids from a task whose subtree has unique sibling ids reaches exactly the position -/
theorem walk_down (t : TTree α) (ht : t.uniq = true) (b q : Pos) (ids : List α)
    (hp : pathIds t.kids q = some ids) : walk t b ids = some (b ++ q) := by
  induction q generalizing t b ids with
  | nil =>
    simp only [pathIds, Option.some.injEq] at hp
    subst hp
    simp [walk]
  | cons i rest ih =>
    simp only [pathIds] at hp
    cases hc : t.kids[i]? with
    | none => simp [hc] at hp
    | some c =>
      simp only [hc, Option.map_eq_some_iff] at hp
      obtain ⟨l, hl, rfl⟩ := hp
      have hk := TTree.uniq_kids ht
      have hcu : c.uniq = true := forestUniq_mem hk.2 (List.mem_of_getElem? hc)
      simp only [walk, findChild_of_distinct t.kids hk.1 i c hc]
      rw [ih c hcu (b ++ [i]) l hl]
      simp

theorem topsFrom_find (F : List (TTree α)) (hd : (F.map TTree.id).Nodup) (i : Nat) (t : TTree α)
    (ht : F[i]? = some t) (j : Nat) :
    (topsFrom j F).find? (fun p => decide (p.2.id = t.id)) = some ([j + i], t) := by
  induction F generalizing i j with
  | nil => simp at ht
  | cons a as ih =>
    cases i with
    | zero =>
      simp only [List.getElem?_cons_zero, Option.some.injEq] at ht
      subst ht
      simp [topsFrom]
    | succ i =>
      simp only [List.getElem?_cons_succ] at ht
      simp only [List.map_cons, List.nodup_cons] at hd
      have hne : a.id ≠ t.id := by
        intro e
        apply hd.1
        rw [e]
        exact List.mem_map.mpr ⟨t, List.mem_of_getElem? ht, rfl⟩
      simp only [topsFrom, List.find?_cons, hne, decide_false]
      rw [ih hd.2 i ht (j + 1)]
      congr 3
      omega

/-- an absolute path (ids from the top level) resolves to its task — repaired root search -/
theorem resolveRoot_path (F : Forest α) (hu : UniqueSibs F) (dst : Pos) (h : α) (rest : List α)
    (hp : pathIds F dst = some (h :: rest)) : resolveRoot F h rest = some dst := by
  cases dst with
  | nil => simp [pathIds] at hp
  | cons i q =>
    simp only [pathIds] at hp
    cases ht : F[i]? with
    | none => simp [ht] at hp
    | some t =>
      simp only [ht, Option.map_eq_some_iff, List.cons.injEq] at hp
      obtain ⟨l, hl, hid, rfl⟩ := hp
      subst hid
      have hf := topsFrom_find F (by simpa [sibsDistinct] using hu.1) i t ht 0
      simp only [Nat.zero_add] at hf
      simp only [resolveRoot, firstMatch, candidates, tops, List.find?_append, hf, Option.some_or]
      have := walk_down t (forestUniq_mem hu.2 (List.mem_of_getElem? ht)) [i] q l hl
      simpa using this

omit [DecidableEq α] in
theorem climb_none (n : Nat) : climb n none = none := by
  cases n <;> simp [climb]

omit [DecidableEq α] in
theorem climb_some (n : Nat) (b : Pos) (hb : b ≠ []) :
    climb n (some b) = if n < b.length then some (b.take (b.length - n)) else none := by
  induction n generalizing b with
  | zero =>
    have : 0 < b.length := List.length_pos_iff.mpr hb
    simp [climb, this]
  | succ n ih =>
    simp only [climb, parentPos]
    by_cases h1 : b.length ≤ 1
    · have : ¬ (n + 1 < b.length) := by omega
      simp [h1, this]
    · have hne : b.dropLast ≠ [] := by
        intro e
        have := congrArg List.length e
        simp at this
        omega
      simp only [h1, if_false]
      rw [ih b.dropLast hne]
      simp only [List.length_dropLast]
      by_cases h2 : n < b.length - 1
      · have h3 : n + 1 < b.length := by omega
        simp only [h2, h3, if_true, Option.some.injEq]
        rw [List.dropLast_eq_take, List.take_take]
        congr 1
        omega
      · have h3 : ¬ (n + 1 < b.length) := by omega
        simp [h2, h3]

omit [DecidableEq α] in
theorem basePos_eq (src : Pos) (k : Nat) (hk : 1 ≤ k) :
    basePos src k = if k < src.length then some (src.take (src.length - k)) else none := by
  obtain ⟨m, rfl⟩ : ∃ m, k = m + 1 := ⟨k - 1, by omega⟩
  simp only [basePos, Nat.add_one_ne_zero, if_false, Nat.add_sub_cancel, parentPos]
  by_cases h1 : src.length ≤ 1
  · have : ¬ (m + 1 < src.length) := by omega
    simp [h1, this, climb_none]
  · have hne : src.dropLast ≠ [] := by
      intro e
      have := congrArg List.length e
      simp at this
      omega
    simp only [h1, if_false]
    rw [climb_some m _ hne]
    simp only [List.length_dropLast]
    by_cases h2 : m < src.length - 1
    · have h3 : m + 1 < src.length := by omega
      simp only [h2, h3, if_true, Option.some.injEq]
      rw [List.dropLast_eq_take, List.take_take]
      congr 1
      omega
    · have h3 : ¬ (m + 1 < src.length) := by omega
      simp [h2, h3]

theorem pathIds_split (F : Forest α) (b q : Pos) (ids : List α) (hb : b ≠ [])
    (hp : pathIds F (b ++ q) = some ids) :
    ∃ tb, node? F b = some tb ∧ pathIds tb.kids q = some (ids.drop b.length) ∧
      (forestUniq F = true → tb.uniq = true) := by
  induction b generalizing F ids with
  | nil => exact absurd rfl hb
  | cons i b' ih =>
    simp only [List.cons_append, pathIds] at hp
    cases ht : F[i]? with
    | none => simp [ht] at hp
    | some t =>
      simp only [ht, Option.map_eq_some_iff] at hp
      obtain ⟨l, hl, rfl⟩ := hp
      cases b' with
      | nil =>
        refine ⟨t, by simp [node?, ht], by simpa using hl, fun hu => forestUniq_mem hu (List.mem_of_getElem? ht)⟩
      | cons j b'' =>
        obtain ⟨tb, h1, h2, h3⟩ := ih t.kids l (by simp) hl
        refine ⟨tb, by simp [node?, ht, h1], by simpa using h2, fun hu => ?_⟩
        exact h3 (TTree.uniq_kids (forestUniq_mem hu (List.mem_of_getElem? ht))).2

/-- **relative = absolute.**  With unique sibling ids, inside the task at `src` every `!`×k spelling
    whose base (the ancestor `k` levels up, or the project root for `k = depth`) lies above `dst`,
    and the absolute path of `dst`, resolve to `dst`. -/
theorem resolve_rel_abs_pos (F : Forest α) (hu : UniqueSibs F) (src dst : Pos) (ids : List α)
    (hdst : pathIds F dst = some ids) (k : Nat) (hk1 : 1 ≤ k) (hk2 : k ≤ src.length)
    (hanc : src.take (src.length - k) <+: dst) (hlt : src.length - k < dst.length) :
    ∃ rabs rrel, Ref.ofPath 0 ids = some rabs ∧ Ref.ofPath k (ids.drop (src.length - k)) = some rrel ∧
      resolve F src rabs = some dst ∧ resolve F src rrel = some dst := by
  have hlen : ids.length = dst.length := by
    clear hanc hlt hu
    induction dst generalizing F ids with
    | nil => simp [pathIds] at hdst; simp [← hdst]
    | cons i q ih =>
      simp only [pathIds] at hdst
      cases ht : F[i]? with
      | none => simp [ht] at hdst
      | some t =>
        simp only [ht, Option.map_eq_some_iff] at hdst
        obtain ⟨l, hl, rfl⟩ := hdst
        simp [ih t.kids l hl]
  -- absolute
  obtain ⟨h, rest, hids⟩ : ∃ h rest, ids = h :: rest := by
    cases ids with
    | nil => simp at hlen; omega
    | cons h rest => exact ⟨h, rest, rfl⟩
  have habs : resolve F src ⟨0, h, rest⟩ = some dst := by
    simp only [resolve, basePos, if_true]
    exact resolveRoot_path F hu dst h rest (hids ▸ hdst)
  obtain ⟨q, hq⟩ := hanc
  by_cases hroot : k = src.length
  · -- the `!`s reach the project root: same search as the absolute reference
    have hb : basePos src k = none := by
      rw [basePos_eq src k hk1]; simp [hroot]
    refine ⟨⟨0, h, rest⟩, ⟨k, h, rest⟩, by simp [hids, Ref.ofPath], ?_, habs, ?_⟩
    · simp [hroot, hids, Ref.ofPath]
    · simp only [resolve, hb]
      exact resolveRoot_path F hu dst h rest (hids ▸ hdst)
  · have hklt : k < src.length := by omega
    have hb : basePos src k = some (src.take (src.length - k)) := by
      rw [basePos_eq src k hk1]; simp [hklt]
    have hbne : src.take (src.length - k) ≠ [] := by
      intro e
      have := congrArg List.length e
      simp at this
      omega
    have hblen : (src.take (src.length - k)).length = src.length - k := by simp
    obtain ⟨tb, h1, h2, h3⟩ := pathIds_split F _ q ids hbne (hq ▸ hdst)
    rw [hblen] at h2
    have hqne : q ≠ [] := by
      intro e
      subst e
      have := congrArg List.length hq
      simp at this
      omega
    obtain ⟨h', rest', hd'⟩ : ∃ h' rest', ids.drop (src.length - k) = h' :: rest' := by
      cases hdr : ids.drop (src.length - k) with
      | nil =>
        have := congrArg List.length hdr
        have hl2 : dst.length = (src.length - k) + q.length := by rw [← hq]; simp
        have : q.length = 0 := by simp at this; omega
        exact absurd (List.length_eq_zero_iff.mp this) hqne
      | cons h' rest' => exact ⟨h', rest', rfl⟩
    refine ⟨⟨0, h, rest⟩, ⟨k, h', rest'⟩, by simp [hids, Ref.ofPath], by simp [hd', Ref.ofPath], habs, ?_⟩
    simp only [resolve, hb, h1, Ref.path]
    rw [← hd', walk_down tb (h3 hu.2) _ q _ h2, hq]

end relabs

/-! ### dependency stores -/

theorem getDeps_extendDeps (st : DepStore) (p : Pos) (l : List DepEntry) (q : Pos) :
    getDeps (extendDeps st p l) q = if q = p then getDeps st p ++ l else getDeps st q := by
  induction st with
  | nil =>
    simp only [extendDeps, getDeps, List.nil_append]
    by_cases h : q = p
    · simp [h]
    · have : ¬ p = q := fun e => h e.symm
      simp [h, this]
  | cons e es ih =>
    simp only [extendDeps]
    by_cases h1 : e.1 = p
    · simp only [h1, if_true, getDeps]
      by_cases h2 : q = p
      · simp [h2]
      · have : ¬ p = q := fun e => h2 e.symm
        simp [h2, this]
    · simp only [h1, if_false, getDeps, ih]
      by_cases h2 : q = p
      · subst h2; simp [h1]
      · simp [h2]

theorem resolveItems_single (F : Forest (List Char)) (src tgt : Pos) (ref : List Char) (o : DepOpts)
    (h : resolveStr F src ref = some tgt) : resolveItems F src [⟨ref, o⟩] = [mkEntry tgt o] := by
  simp [resolveItems, h]

@[simp] theorem mkEntry_target (t : Pos) (o : DepOpts) : (mkEntry t o).target = t := by
  unfold mkEntry; split <;> rfl

/-! ### moving one edge from `precedes` to `depends` in a whole project -/

/-- `st'` is `st` with one more entry `e` somewhere in `B`'s list -/
def StoreRel (B : Pos) (e : DepEntry) (st st' : DepStore) : Prop :=
  ∀ q, (getDeps st' q).Perm (if q = B then e :: getDeps st q else getDeps st q)

theorem StoreRel.precedeOne {B : Pos} {e : DepEntry} {st st' : DepStore} (h : StoreRel B e st st')
    (F : Forest (List Char)) (s : Pos) (it : DepItem)
    (hno : ¬ (s = e.target ∧ resolveStr F s it.ref = some B)) :
    StoreRel B e (precedeOne F st s it) (precedeOne F st' s it) := by
  unfold SP.Resolve.precedeOne
  cases hr : resolveStr F s it.ref with
  | none => simpa using h
  | some tgt =>
    simp only []
    have hany : (getDeps st' tgt).any (fun x => decide (x.target = s)) =
        (getDeps st tgt).any (fun x => decide (x.target = s)) := by
      rw [(h tgt).any_eq]
      by_cases ht : tgt = B
      · have : e.target ≠ s := fun e' => hno ⟨e'.symm, ht ▸ hr⟩
        simp [ht, this]
      · simp [ht]
    rw [hany]
    by_cases ha : (getDeps st tgt).any (fun x => decide (x.target = s)) = true
    · simpa [ha] using h
    · simp only [ha, Bool.false_eq_true, if_false]
      intro q
      rw [getDeps_extendDeps, getDeps_extendDeps]
      by_cases hq : q = tgt
      · subst hq
        simp only [if_true]
        have := (h q).append_right [mkEntry s it.opts]
        by_cases hb : q = B
        · simpa [hb] using this
        · simpa [hb] using this
      · simpa [hq] using h q

theorem StoreRel.resolvePrecedes {B : Pos} {e : DepEntry} (F : Forest (List Char))
    (pp : List (Pos × List DepItem))
    (hno : ∀ pi ∈ pp, ∀ it ∈ pi.2, ¬ (pi.1 = e.target ∧ resolveStr F pi.1 it.ref = some B))
    {st st' : DepStore} (h : StoreRel B e st st') :
    StoreRel B e (resolvePrecedes F pp st) (resolvePrecedes F pp st') := by
  unfold SP.Resolve.resolvePrecedes
  induction pp generalizing st st' with
  | nil => simpa using h
  | cons pi rest ih =>
    simp only [List.foldl_cons]
    apply ih (fun pj hj => hno pj (List.mem_cons_of_mem _ hj))
    have hpi := hno pi (List.mem_cons_self ..)
    clear ih hno
    generalize pi.2 = items at hpi
    induction items generalizing st st' with
    | nil => simpa using h
    | cons it its ih2 =>
      simp only [List.foldl_cons]
      exact ih2 (h.precedeOne F pi.1 it (hpi it (List.mem_cons_self ..)))
        (fun it' h' => hpi it' (List.mem_cons_of_mem _ h'))

/-! ### reference strings: written out and parsed again -/

theorem splitDots_ne_nil (s : List Char) : splitDots s ≠ [] := by
  induction s with
  | nil => simp [splitDots]
  | cons c cs ih =>
    simp only [splitDots]
    split
    · simp
    · split
      · simp
      · simp

theorem splitDots_append_dot (p rest : List Char) (hp : ∀ x ∈ p, x ≠ '.') :
    splitDots (p ++ '.' :: rest) = p :: splitDots rest := by
  induction p with
  | nil => simp [splitDots]
  | cons c cs ih =>
    have hc : c ≠ '.' := hp c (by simp)
    simp only [List.cons_append, splitDots, hc, if_false, ih (fun x hx => hp x (by simp [hx]))]

theorem splitDots_no_dot (p : List Char) (hp : ∀ x ∈ p, x ≠ '.') : splitDots p = [p] := by
  induction p with
  | nil => simp [splitDots]
  | cons c cs ih =>
    have hc : c ≠ '.' := hp c (by simp)
    simp only [splitDots, hc, if_false, ih (fun x hx => hp x (by simp [hx]))]

theorem splitDots_renderPath (h : List Char) (t : List (List Char))
    (hd : ∀ p ∈ h :: t, ∀ x ∈ p, x ≠ '.') : splitDots (renderPath (h :: t)) = h :: t := by
  induction t generalizing h with
  | nil => simpa [renderPath] using splitDots_no_dot h (hd h (by simp))
  | cons q qs ih =>
    simp only [renderPath]
    rw [splitDots_append_dot h _ (hd h (by simp)), ih q (fun p hp => hd p (by simp [hp]))]

theorem countBang_replicate (n : Nat) (rest : List Char) (hr : rest.head? ≠ some '!') :
    countBang (List.replicate n '!' ++ rest) = (n, rest) := by
  induction n with
  | zero =>
    simp only [List.replicate_zero, List.nil_append]
    cases rest with
    | nil => rfl
    | cons c cs =>
      have : c ≠ '!' := by simpa using hr
      unfold countBang
      split
      · next heq => cases heq; exact absurd rfl this
      · rfl
  | succ n ih =>
    simp only [List.replicate_succ, List.cons_append, countBang, ih]

/-- a reference whose ids contain no dot, whose first id is non-empty and does not start with `!`,
    is read back exactly as written -/
theorem parseRef_renderRef (r : Ref (List Char)) (hd : ∀ p ∈ r.path, ∀ x ∈ p, x ≠ '.')
    (hne : r.head ≠ []) (hb : r.head.head? ≠ some '!') : parseRef (renderRef r) = some r := by
  obtain ⟨up, h, t⟩ := r
  simp only [Ref.path] at hd hne hb ⊢
  have hrp : (renderPath (h :: t)).head? ≠ some '!' := by
    cases t with
    | nil => simpa [renderPath] using hb
    | cons q qs =>
      simp only [renderPath]
      cases h with
      | nil => exact absurd rfl hne
      | cons c cs => simpa using hb
  have hne2 : (List.replicate up '!' ++ renderPath (h :: t)).isEmpty = false := by
    have : renderPath (h :: t) ≠ [] := by
      cases t with
      | nil => simpa [renderPath] using hne
      | cons q qs =>
        simp only [renderPath]
        cases h with
        | nil => exact absurd rfl hne
        | cons c cs => simp
    cases hx : renderPath (h :: t) with
    | nil => exact absurd hx this
    | cons c cs => simp
  simp only [parseRef, renderRef, Ref.path, hne2, Bool.false_eq_true, if_false,
    countBang_replicate up _ hrp, splitDots_renderPath h t hd]

end SP.Resolve
