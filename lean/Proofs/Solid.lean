import Proofs.Closed
import Proofs.TeamAll
import Proofs.Frame
import Proofs.Counted
/-!
Two facts about every state the scheduler reaches, needed to read "the resource was not available" (what the walk sees)
as "the slot is booked" (what the ledger says):
  * a slot without entries still has room — a reservation (start offset, team levelling) never fills a slot by itself;
  * a marked slot carries an entry (marks are set by bookings only, at the slot itself).
And a ledger slot that carries an entry carries one for ever (`Has`).
-/
namespace SP

structure Solid (e : Env) (σ : St) : Prop where
  room : ∀ r i, (σ.led.get r i).usage = [] → availSecs e.G (σ.led.get r i) > 0
  marked : ∀ r j, σ.marks.get r j = true → (σ.led.get r j).usage ≠ []

theorem setUsage_ne_nil (u : List (Nat × Rat)) (t : Nat) (v : Rat) (h : u ≠ []) : setUsage u t v ≠ [] := by
  cases u with
  | nil => exact absurd rfl h
  | cons x xs =>
    unfold setUsage
    split <;> simp

theorem release_usage_nil_iff (s : Slot) (t : Nat) (a : Rat) : (s.release t a).usage = [] ↔ s.usage = [] := by
  constructor
  · intro h
    by_cases hn : s.usage = []
    · exact hn
    · exfalso
      unfold Slot.release at h
      cases hu : usageOf s.usage t with
      | none => simp only [hu] at h; exact hn h
      | some b =>
        simp only [hu] at h
        split at h
        · exact setUsage_ne_nil _ _ _ hn h
        · exact hn h
  · intro h
    unfold Slot.release
    rw [h]
    simp [usageOf, h]

theorem release_of_nil (s : Slot) (t : Nat) (a : Rat) (h : s.usage = []) : s.release t a = s := by
  unfold Slot.release
  rw [h]; simp [usageOf]

theorem solid_closed (e : Env) (wf : WF e) : Closed e (Solid e) where
  eq := by
    intro σ σ' hl _ hm h
    exact ⟨by rw [hl]; exact h.room, by rw [hl, hm]; exact h.marked⟩
  reserve := by
    intro σ r i off _ h0 h1 h
    unfold reserveAt
    refine ⟨?_, ?_⟩
    · intro r' i'
      simp only [Ledger.get_set]
      split
      · rename_i heq
        intro hu
        rw [reserve_usage] at hu
        have := (availSecs_pos_iff e.G _).mp (h.room r i hu)
        apply (availSecs_pos_iff e.G _).mpr
        unfold Slot.reserve
        split
        · exact h1
        · exact this
      · exact h.room r' i'
    · intro r' j hm
      simp only [Ledger.get_set]
      split
      · rename_i heq
        rw [reserve_usage, heq.1, heq.2]; exact h.marked r' j hm
      · exact h.marked r' j hm
  release := by
    intro σ r i t a _ _ _ _ h
    refine ⟨?_, ?_⟩
    · intro r' i'
      show ((σ.led.set r i ((σ.led.get r i).release t a)).get r' i').usage = [] → _
      simp only [Ledger.get_set]
      split
      · rename_i heq
        intro hu
        have hn := (release_usage_nil_iff _ t a).mp hu
        rw [release_of_nil _ t a hn]
        exact h.room r i hn
      · exact h.room r' i'
    · intro r' j hm
      show ((σ.led.set r i ((σ.led.get r i).release t a)).get r' j).usage ≠ []
      simp only [Ledger.get_set]
      split
      · rename_i heq
        intro hu
        have hn := (release_usage_nil_iff _ t a).mp hu
        rw [heq.1, heq.2] at hn
        exact h.marked r' j hm hn
      · exact h.marked r' j hm
  book := by
    intro σ r i t _ _ _ hi0 _ _ _ h
    have hnorm : e.norm i = i := by unfold Env.norm; simp [Int.not_lt.mpr hi0]
    refine ⟨?_, ?_⟩
    · intro r' i'
      rw [bookSlot_eq, incAll_led]
      simp only [Ledger.get_set]
      split
      · intro hu; simp [Slot.book] at hu
      · exact h.room r' i'
    · intro r' j hm
      rw [bookSlot_marks, Marks.get_set, hnorm] at hm
      rw [bookSlot_eq, incAll_led]
      simp only [Ledger.get_set]
      by_cases heq : r = r' ∧ i = j
      · simp only [heq, and_self, if_true]
        simp [Slot.book]
      · simp only [heq, if_false] at hm ⊢
        exact h.marked r' j hm

theorem solid_init (e : Env) (wf : WF e) : Solid e (initState e) := by
  refine ⟨?_, ?_⟩
  · intro r i _
    simp only [initState, Ledger.get_empty]
    apply (availSecs_pos_iff e.G _).mpr
    show (0 : Rat) ≤ (e.G : Rat) - 1 / 1000000
    have : (1 : Int) ≤ e.G := wf.G_pos
    have : (1 : Rat) ≤ (e.G : Rat) := by exact_mod_cast this
    grind
  · intro r j hm
    simp [initState, Marks.get] at hm

/-- the slot `(r, i)` carries an entry of some task -/
def Has (r : Nat) (i : Int) (σ : St) : Prop := (σ.led.get r i).usage ≠ []

theorem has_closed (e : Env) (r : Nat) (i : Int) : Closed e (Has r i) where
  eq := by intro σ σ' hl _ _ h; unfold Has at *; rw [hl]; exact h
  reserve := by
    intro σ r' i' off _ _ _ h
    unfold Has reserveAt at *
    simp only [Ledger.get_set]
    split
    · rename_i heq; rw [reserve_usage, heq.1, heq.2]; exact h
    · exact h
  release := by
    intro σ r' i' t a _ _ _ _ h
    unfold Has at *
    show ((σ.led.set r' i' ((σ.led.get r' i').release t a)).get r i).usage ≠ []
    simp only [Ledger.get_set]
    split
    · rename_i heq
      intro hu
      have hn := (release_usage_nil_iff _ t a).mp hu
      rw [heq.1, heq.2] at hn
      exact h hn
    · exact h
  book := by
    intro σ r' i' t _ _ _ _ _ _ _ h
    unfold Has at *
    rw [bookSlot_eq, incAll_led]
    simp only [Ledger.get_set]
    split
    · simp [Slot.book]
    · exact h

/-- a limit that refuses a booking of `ro` at slot `i` (its counter for the period of `i` is at the limit) -/
def Refuses (e : Env) (lid : Nat) (i : Int) (ro : Option Nat) (σ : St) : Prop := limitOk e σ lid i ro = false

theorem limitOk_false_iff (e : Env) (σ : St) (lid : Nat) (i : Int) (ro : Option Nat) :
    limitOk e σ lid i ro = false ↔
      ¬ ((e.limitD lid).res.isSome && (e.limitD lid).res != ro) = true ∧ 0 ≤ e.period (e.limitD lid) i ∧
      (e.limitD lid).value ≤ σ.cnt.get lid (e.period (e.limitD lid) i) := by
  unfold limitOk
  simp only []
  by_cases h1 : ((e.limitD lid).res.isSome && (e.limitD lid).res != ro) = true
  · simp [h1]
  · simp only [h1, Bool.false_eq_true, if_false, not_false_eq_true, true_and]
    by_cases h2 : e.period (e.limitD lid) i < 0
    · simp only [h2, if_true]; constructor
      · intro h; cases h
      · intro h; omega
    · simp only [h2, if_false, decide_eq_false_iff_not, Int.not_lt]
      constructor
      · intro h; exact ⟨by omega, h⟩
      · intro h; exact h.2

/-- counters only grow, so a limit that refuses keeps refusing -/
theorem refuses_closed (e : Env) (lid : Nat) (i : Int) (ro : Option Nat) : Closed e (Refuses e lid i ro) where
  eq := by
    intro σ σ' _ hc _ h
    unfold Refuses limitOk at *; rw [hc]; exact h
  reserve := by intro σ r i' off _ _ _ h; exact h
  release := by intro σ r i' t a _ _ _ _ h; exact h
  book := by
    intro σ r i' t _ _ _ _ _ _ _ h
    unfold Refuses at *
    rw [limitOk_false_iff] at h ⊢
    refine ⟨h.1, h.2.1, ?_⟩
    rw [bookSlot_eq']
    have h2 : σ.cnt.get lid (e.period (e.limitD lid) i) ≤
        (incAll e (bookLed e σ r i' t) (bookPairs e r t) i').cnt.get lid (e.period (e.limitD lid) i) :=
      incAll_cnt_ge e (bookLed e σ r i' t) (bookPairs e r t) i' lid (e.period (e.limitD lid) i)
    omega

/-- some limit of the resource (own or of a group) or of the task (own or of a container) refuses the booking of `r` by `t` at `i` -/
def Exhausted (e : Env) (σ : St) (t r : Nat) (i : Int) : Prop :=
  (∃ lid ∈ resLimitIds e r, Refuses e lid i none σ) ∨ (∃ lid ∈ taskLimitIds e t, Refuses e lid i (some r) σ)

end SP
