import Proofs.SchedInv
import Proofs.Team
/-!
An induction principle over every state the scheduler can reach.

The ledger, the limit counters and the slot marks are changed by exactly four primitive operations
(`reserveAt`, the tail release of one slot, `bookSlot`, and changes that touch neither of them).  A state predicate that
is closed under these four — each under the conditions in which the scheduler performs it — holds in the state
`runScenario` ends in (`runScenario_closed`).  `Inv` is carried along, so the closure conditions may use it.
-/
namespace SP

structure Closed (e : Env) (P : St → Prop) (T : Nat → Prop := fun _ => True) : Prop where
  /-- task attributes, warnings: ledger, counters and marks untouched -/
  eq : ∀ σ σ' : St, σ'.led = σ.led → σ'.cnt = σ.cnt → σ'.marks = σ.marks → P σ → P σ'
  /-- start-offset reservation and team levelling -/
  reserve : ∀ σ r i off, Inv e σ → 0 ≤ off → off ≤ (e.G : Rat) - 1 / 1000000 → P σ → P (reserveAt σ r i off)
  /-- the tail release of the finishing slot (on the last booked member and on the other team members) -/
  release : ∀ (σ : St) r i t a, T t → Inv e σ → (e.taskD t).leaf = true → 0 ≤ a → P σ →
    P { σ with led := σ.led.set r i ((σ.led.get r i).release t a) }
  /-- a booking, made only behind the gate -/
  book : ∀ σ r i t, T t → Inv e σ → (e.taskD t).leaf = true → 0 ≤ i → i ≤ e.upper → available e σ r i = true →
    taskLimitsOk e σ t i r = true → P σ → P (bookSlot e σ r i t).1

/-- the cursor is inside the scoreboard and the start offset leaves room in its slot -/
structure WalkIn (e : Env) (w : Walk) : Prop where
  cur_nonneg : 0 ≤ w.cur
  off_room : w.offset ≤ (e.G : Rat) - 1 / 1000000
  cur_le : w.cur ≤ e.upper

theorem availSecs_pos_iff (G : Int) (s : Slot) : availSecs G s > 0 ↔ s.used ≤ (G : Rat) - 1 / 1000000 := by
  unfold availSecs
  constructor
  · intro h
    simp only [] at h
    split at h
    · exact absurd h (by grind)
    · grind
  · intro h
    simp only []
    split
    · rename_i hlt; grind
    · grind

/-- a team that passed the gate: every member still has room in the slot -/
theorem teamGateOk_avail (e : Env) (t : Nat) (i : Int) (σ : St) (sel : List Nat) (h : teamGateOk e t i σ sel = true) :
    ∀ m ∈ sel, availSecs e.G (σ.led.get m i) > 0 := by
  induction sel generalizing σ with
  | nil => intro m hm; cases hm
  | cons r rs ih =>
    unfold teamGateOk at h
    simp only [Bool.and_eq_true] at h
    intro m hm
    rcases List.mem_cons.mp hm with hm | hm
    · subst hm
      have := h.1.1
      unfold available at this
      simp only [Bool.and_eq_true, decide_eq_true_eq] at this
      exact this.1.1.2
    · have := ih (countMember e σ t i r) h.2 m hm
      rw [countMember_led] at this
      exact this

theorem teamCommon_room (e : Env) (wf : WF e) (σ : St) (cur : Int) (sel : List Nat)
    (h : ∀ m ∈ sel, availSecs e.G (σ.led.get m cur) > 0) : teamCommon σ cur sel ≤ (e.G : Rat) - 1 / 1000000 := by
  unfold teamCommon
  have hG : (1 : Rat) ≤ (e.G : Rat) := by
    have : (1 : Int) ≤ e.G := wf.G_pos
    exact_mod_cast this
  have : ∀ (l : List Nat) (init : Rat), init ≤ (e.G : Rat) - 1 / 1000000 → (∀ m ∈ l, availSecs e.G (σ.led.get m cur) > 0) →
      l.foldl (fun m r => max m (σ.led.get r cur).used) init ≤ (e.G : Rat) - 1 / 1000000 := by
    intro l
    induction l with
    | nil => intro init hi _; exact hi
    | cons x xs ih =>
      intro init hi hl
      simp only [List.foldl_cons]
      apply ih
      · have := (availSecs_pos_iff e.G _).mp (hl x List.mem_cons_self)
        grind
      · exact fun m hm => hl m (List.mem_cons_of_mem _ hm)
  exact this sel 0 (by grind) h

theorem cursorOf_room (e : Env) (wf : WF e) (earliest : Int) (hge : e.start ≤ earliest) :
    (cursorOf e earliest).2 ≤ (e.G : Rat) - 1 := by
  unfold cursorOf
  simp only []
  have hfl := (Board.mk e.start e.stop e.G).rawIdx_floor wf.G_pos (t := earliest) hge
  simp only [Board.time, Board.rawIdx] at hfl
  have hG1 : (1 : Rat) ≤ (e.G : Rat) := by
    have : (1 : Int) ≤ e.G := wf.G_pos
    exact_mod_cast this
  split
  · have h2 : earliest - e.time (e.idx earliest) ≤ e.G - 1 := by
      unfold Env.time Env.idx
      have := hfl.2
      have e1 : (Int.tdiv (earliest - e.start) e.G + 1) * e.G = Int.tdiv (earliest - e.start) e.G * e.G + e.G := by
        rw [Int.add_mul]; omega
      omega
    have h3 : ((earliest - e.time (e.idx earliest) : Int) : Rat) ≤ ((e.G - 1 : Int) : Rat) := by exact_mod_cast h2
    have h4 : ((e.G - 1 : Int) : Rat) = (e.G : Rat) - 1 := by push_cast; rfl
    rw [h4] at h3
    exact h3
  · grind

theorem initCursor_room (e : Env) (σ : St) (t : Nat) (wf : WF e) : (initCursor e σ t).2 ≤ (e.G : Rat) - 1 / 1000000 := by
  have hG1 : (1 : Rat) ≤ (e.G : Rat) := by
    have : (1 : Int) ≤ e.G := wf.G_pos
    exact_mod_cast this
  have zero : (0 : Rat) ≤ (e.G : Rat) - 1 / 1000000 := by grind
  have hc : ∀ B, e.start ≤ B → (cursorOf e B).2 ≤ (e.G : Rat) - 1 / 1000000 := fun B hB => by
    have := cursorOf_room e wf B hB; grind
  unfold initCursor
  simp only []
  split
  · split
    · split
      · exact zero
      · exact hc _ (Int.le_trans (by omega) (earliestStart_ge e σ _ _))
    · exact hc _ (earliestStart_ge e σ _ _)
  · split <;> exact zero

variable {e : Env} {P : St → Prop} {T : Nat → Prop}

theorem Closed.setT (hc : Closed e P T) (σ : St) (t : Nat) (x : TSt) (h : P σ) : P (σ.setT t x) :=
  hc.eq σ _ rfl rfl rfl h

theorem closed_reserveStep (hc : Closed e P T) (σ : St) (t : Nat) (w : Walk) (r : Nat) (hi : Inv e σ) (hw : WalkOk e t w)
    (hin : WalkIn e w) (h : P σ) : P (reserveStep σ w r) := by
  unfold reserveStep
  split
  · exact hc.reserve σ r w.cur w.offset hi hw.off_nonneg hin.off_room h
  · exact h

theorem closed_levelTeam (hc : Closed e P T) (wf : WF e) (σ : St) (cur : Int) (sel : List Nat) (hi : Inv e σ)
    (hroom : ∀ m ∈ sel, availSecs e.G (σ.led.get m cur) > 0) (h : P σ) :
    P (levelTeam σ cur sel) := by
  unfold levelTeam
  obtain ⟨h0, h1⟩ := teamCommon_bounds e σ cur sel wf hi
  have h2 := teamCommon_room e wf σ cur sel hroom
  have := foldl_inv (fun acc => Inv e acc ∧ P acc) (fun acc r => reserveAt acc r cur (teamCommon σ cur sel)) sel σ ⟨hi, h⟩
    (fun acc r ha => ⟨reserveAt_inv e acc r cur _ ha.1 h0 h1, hc.reserve acc r cur _ ha.1 h0 h2 ha.2⟩)
  exact this.2

theorem closed_bookResource (hc : Closed e P T) (wf : WF e) (σ : St) (t : Nat) (w : Walk) (r : Nat) (hi : Inv e σ)
    (hlf : (e.taskD t).leaf = true) (hT : T t) (hw : WalkOk e t w) (hin : WalkIn e w) (h : P σ) : P (bookResource e σ t w r).1 := by
  rw [bookResource_eq]
  have h1 := reserveStep_inv e σ t w r hi hw
  have p1 := closed_reserveStep hc σ t w r hi hw hin h
  split
  · rename_i hcond
    simp only [Bool.and_eq_true] at hcond
    exact hc.book _ r w.cur t hT h1 hlf hin.cur_nonneg hin.cur_le hcond.1 hcond.2 p1
  · exact p1

theorem closed_bookOne (hc : Closed e P T) (wf : WF e) (t : Nat) (w : Walk) (a : BookAcc) (r : Nat) (hi : Inv e a.σ)
    (hlf : (e.taskD t).leaf = true) (hT : T t) (hw : WalkOk e t w) (hin : WalkIn e w) (h : P a.σ) : P (bookOne e t w a r).σ := by
  unfold bookOne
  simp only []
  split <;> exact closed_bookResource hc wf a.σ t w r hi hlf hT hw hin h

theorem closed_bookAll (hc : Closed e P T) (wf : WF e) (σ : St) (t : Nat) (w : Walk) (sel : List Nat) (hi : Inv e σ)
    (hlf : (e.taskD t).leaf = true) (hT : T t) (hw : WalkOk e t w) (hin : WalkIn e w) (h : P σ) : P (bookAll e σ t w sel).σ := by
  unfold bookAll
  have := foldl_inv (fun (a : BookAcc) => Inv e a.σ ∧ P a.σ) (bookOne e t w) sel { σ := σ, last := w.last } ⟨hi, h⟩
    (fun a r ha => ⟨bookOne_inv e t w a r wf ha.1 hlf hw, closed_bookOne hc wf t w a r ha.1 hlf hT hw hin ha.2⟩)
  exact this.2

theorem closed_markStart (hc : Closed e P T) (σ : St) (t : Nat) (w : Walk) (h : P σ) : P (markStart e σ t w) := by
  unfold markStart; split
  · exact hc.setT _ _ _ h
  · exact h

theorem closed_bookResources (hc : Closed e P T) (wf : WF e) (σ : St) (t : Nat) (w : Walk) (hi : Inv e σ)
    (hlf : (e.taskD t).leaf = true) (hT : T t) (hw : WalkOk e t w) (hin : WalkIn e w) (h : P σ) : P (bookResources e σ t w).1 := by
  unfold bookResources
  have hw' : WalkOk e t { w with selected := some (selectedOf e σ t w) } := ⟨hw.off_nonneg, hw.off_le, hw.done_le⟩
  have hin' : WalkIn e { w with selected := some (selectedOf e σ t w) } := ⟨hin.cur_nonneg, hin.off_room, hin.cur_le⟩
  split
  · exact h
  · simp only []
    split
    · exact h
    · split
      · exact h
      · rename_i hgate
        have hL : Inv e (leveled e σ t w.cur (selectedOf e σ t w)) ∧ P (leveled e σ t w.cur (selectedOf e σ t w)) := by
          unfold leveled
          split
          · rename_i hteam
            have hok : teamGateOk e t w.cur σ (selectedOf e σ t w) = true := by
              unfold teamGateFails at hgate
              simp only [hteam, Bool.true_and, Bool.not_eq_true', Bool.not_eq_false] at hgate
              exact hgate
            exact ⟨levelTeam_inv e σ w.cur _ wf hi,
              closed_levelTeam hc wf σ w.cur _ hi (teamGateOk_avail e t w.cur σ _ hok) h⟩
          · exact ⟨hi, h⟩
        have hacc := closed_bookAll hc wf _ t _ (selectedOf e σ t w) hL.1 hlf hT hw' hin' hL.2
        split
        · exact closed_markStart hc _ t _ hacc
        · exact hacc

theorem closed_releaseOthers (hc : Closed e P T) (σ : St) (t : Nat) (cur : Int) (r : Nat) (need : Rat) (sel : List Nat)
    (hlf : (e.taskD t).leaf = true) (hT : T t) (hn : 0 ≤ need) (hi : Inv e σ) (h : P σ) : P (releaseOthers σ t cur r need sel) := by
  unfold releaseOthers
  have := foldl_inv (fun acc => Inv e acc ∧ P acc)
    (fun (acc : St) m =>
      if m == r then acc
      else
        match usageOf (acc.led.get m cur).usage t with
        | none => acc
        | some secs => { acc with led := acc.led.set m cur ((acc.led.get m cur).release t (min need secs)) }) sel σ ⟨hi, h⟩
    (by
      intro acc m hacc
      have hstep := releaseOthers_inv e acc t cur r need [m] hlf hn hacc.1
      unfold releaseOthers at hstep
      simp only [List.foldl_cons, List.foldl_nil] at hstep
      refine ⟨hstep, ?_⟩
      split
      · exact hacc.2
      · cases hu : usageOf (acc.led.get m cur).usage t with
        | none => exact hacc.2
        | some secs =>
          simp only []
          have hsecs : 0 ≤ secs := (hacc.1.slot m cur).entries_nonneg _ (usageOf_mem hu)
          have hmin : 0 ≤ min need secs := by grind
          exact hc.release acc m cur t _ hT hacc.1 hlf hmin hacc.2)
  exact this.2

theorem closed_finishTask (hc : Closed e P T) (wf : WF e) (σ : St) (t : Nat) (w : Walk) (before : Rat) (fwd : Bool)
    (hi : Inv e σ) (hlf : (e.taskD t).leaf = true) (hT : T t) (hb : before ≤ (e.taskD t).effort) (h : P σ) :
    P (finishTask e σ t w before fwd).1 := by
  have hfi := finishTask_inv e σ t w before fwd wf hi hlf hb
  unfold finishTask at hfi ⊢
  split
  · exact h
  · rename_i r hlast
    simp only []
    have hn := needSecs_nonneg e σ t w before r wf hi hb
    have hi1 : Inv e { σ with led := σ.led.set r w.cur ((σ.led.get r w.cur).release t (needSecs e σ t w before r)) } := by
      have := finishTask_inv e σ t { w with selected := some [] } before fwd wf hi hlf hb
      unfold finishTask at this
      simp only [hlast] at this
      simpa [releaseOthers, needSecs] using this
    exact closed_releaseOthers hc _ t w.cur r _ _ hlf hT hn hi1 (hc.release σ r w.cur t _ hT hi hlf hn h)

theorem closed_scheduleSlot (hc : Closed e P T) (wf : WF e) (σ : St) (t : Nat) (w : Walk) (hi : Inv e σ)
    (hlf : (e.taskD t).leaf = true) (hT : T t) (hw : WalkOk e t w) (hin : WalkIn e w) (h : P σ) : P (scheduleSlot e σ t w).1 := by
  unfold scheduleSlot
  simp only []
  split
  · split
    · split
      · exact hc.setT _ _ _ h
      · exact hc.setT _ _ _ h
    · split
      · exact hc.setT _ _ _ h
      · exact hc.setT _ _ _ h
  · have hb := bookResources_inv e σ t w wf hi hlf hw
    have pb := closed_bookResources hc wf σ t w hi hlf hT hw hin h
    split
    · have pfin := closed_finishTask hc wf _ t (bookResources e σ t w).2 w.done (σ.tst t).forward hb hlf hT hw.done_le pb
      exact hc.eq (finishTask e (bookResources e σ t w).1 t (bookResources e σ t w).2 w.done (σ.tst t).forward).1 _ rfl rfl rfl pfin
    · exact pb

theorem closed_walkLoop (hc : Closed e P T) (wf : WF e) (t : Nat) (fwd : Bool) (fuel : Nat) (σ : St) (w : Walk)
    (hi : Inv e σ) (hlf : (e.taskD t).leaf = true) (hT : T t) (hw : WalkOk e t w) (hin : WalkIn e w) (h : P σ) :
    P (walkLoop e t fwd fuel σ w).1 := by
  induction fuel generalizing σ w with
  | zero => exact h
  | succ f ih =>
    unfold walkLoop
    have hs := scheduleSlot_inv e σ t w wf hi hlf hw
    have ps := closed_scheduleSlot hc wf σ t w hi hlf hT hw hin h
    simp only []
    split
    · exact ps
    · rename_i hcn
      have hcont : (scheduleSlot e σ t w).2.2 = true := by simpa using hcn
      have hw1 := hs.2 hcont
      split
      · exact ps
      · rename_i hbounds
        refine ih _ _ hs.1 (walkOk_advance e t wf _ _ _ hw1) ⟨?_, ?_, ?_⟩ ps
        · simp only [Bool.or_eq_true, decide_eq_true_eq, not_or, Int.not_lt] at hbounds
          exact hbounds.1
        · show (0 : Rat) ≤ (e.G : Rat) - 1 / 1000000
          have : (1 : Int) ≤ e.G := wf.G_pos
          have : (1 : Rat) ≤ (e.G : Rat) := by exact_mod_cast this
          grind
        · simp only [Bool.or_eq_true, decide_eq_true_eq, not_or, Int.not_lt] at hbounds
          exact hbounds.2

theorem closed_scheduleTask (hc : Closed e P T) (wf : WF e) (σ : St) (t : Nat) (hi : Inv e σ)
    (hlf : (e.taskD t).leaf = true) (hT : T t) (h : P σ) : P (scheduleTask e σ t).1 := by
  unfold scheduleTask
  simp only []
  split
  · exact h
  · have hoff := initCursor_off e σ t wf
    have h0 : Inv e (σ.setT t (preStartT e σ t (initCursor e σ t).1)) := inv_setT _ _ hi
    have p0 : P (σ.setT t (preStartT e σ t (initCursor e σ t).1)) := hc.setT _ _ _ h
    split
    · exact hc.setT _ _ _ p0
    · have hw : WalkOk e t { cur := preStartCursor e σ t (initCursor e σ t).1, offset := (initCursor e σ t).2 } :=
        ⟨hoff.1, hoff.2, wf.effort_nonneg t⟩
      rename_i hbounds
      have hin : WalkIn e { cur := preStartCursor e σ t (initCursor e σ t).1, offset := (initCursor e σ t).2 } := by
        simp only [Bool.or_eq_true, decide_eq_true_eq, not_or, Int.not_lt] at hbounds
        exact ⟨hbounds.1, initCursor_room e σ t wf, hbounds.2⟩
      have := closed_walkLoop hc wf t (σ.tst t).forward (e.size.toNat + 3) _ _ h0 hlf hT hw hin p0
      split
      · exact hc.setT _ _ _ this
      · exact hc.setT _ _ _ this

theorem closed_foldl_setT (hc : Closed e P T) (f : St → Nat → TSt) (l : List Nat) (σ : St) (h : P σ) :
    P (l.foldl (fun (acc : St) t => acc.setT t (f acc t)) σ) :=
  foldl_inv (fun acc => P acc) _ l σ h (fun acc t hacc => hc.setT acc t _ hacc)

theorem closed_updateContainers (hc : Closed e P T) (σ : St) (h : P σ) : P (updateContainers e σ) := by
  unfold updateContainers; exact closed_foldl_setT hc _ _ σ h

theorem closed_pickLoop (hc : Closed e P T) (wf : WF e) (fuel : Nat) (tasks failed : List Nat) (σ : St) (hi : Inv e σ)
    (hlv : ∀ t ∈ tasks, (e.taskD t).leaf = true) (hT : ∀ t ∈ tasks, T t) (h : P σ) : P (pickLoop e fuel tasks failed σ).1 := by
  induction fuel generalizing tasks failed σ with
  | zero => exact h
  | succ f ih =>
    unfold pickLoop
    split
    · exact h
    · split
      · rename_i t ht
        have htm : t ∈ tasks := List.mem_of_find?_eq_some ht
        exact ih _ _ _ (updateContainers_inv e _ (scheduleTask_inv e σ _ wf hi (hlv t htm)))
          (fun x hx => hlv x (List.mem_of_mem_erase hx)) (fun x hx => hT x (List.mem_of_mem_erase hx))
          (closed_updateContainers hc _ (closed_scheduleTask hc wf σ t hi (hlv t htm) (hT t htm) h))
      · split
        · exact hc.eq σ _ rfl rfl rfl h
        · exact h

theorem closed_markAlap (hc : Closed e P T) (fuel : Nat) (stack processed : List Nat) (σ : St) (h : P σ) :
    P (markAlap e fuel stack processed σ).1 := by
  induction fuel generalizing stack processed σ with
  | zero => unfold markAlap; exact h
  | succ f ih =>
    cases stack with
    | nil => unfold markAlap; exact h
    | cons t rest =>
      unfold markAlap
      split
      · exact ih _ _ _ h
      · simp only []
        split
        · exact ih _ _ _ h
        · split
          · exact ih _ _ _ h
          · exact ih _ _ _ (hc.setT _ _ _ h)

theorem closed_propagateAlap (hc : Closed e P T) (σ : St) (h : P σ) : P (propagateAlap e σ) := by
  unfold propagateAlap
  simp only []
  apply foldl_inv (fun (acc : St × List Nat) => P acc.1) _ _ (σ, []) h
  intro acc a hacc
  exact closed_markAlap hc _ _ _ _ hacc

theorem closed_prepare (hc : Closed e P T) (σ : St) (h : P σ) : P (prepare e σ) := by
  unfold prepare propagateContainerEnds
  exact closed_foldl_setT hc _ _ _ (closed_foldl_setT hc _ _ σ h)

theorem closed_preLoop (hc : Closed e P T) (σ : St) (h : P σ) : P (preLoop e σ) := by
  unfold preLoop milestonePrepass
  exact closed_updateContainers hc _ (closed_propagateAlap hc _ (closed_foldl_setT hc _ _ σ h))

theorem closed_finishScenario (hc : Closed e P T) (σ : St) (h : P σ) : P (finishScenario e σ) := by
  unfold finishScenario
  apply foldl_inv (fun acc => P acc) _ _ σ h
  intro acc t hacc
  split
  · exact hacc
  · exact hc.setT _ _ _ hacc

theorem closed_scheduleScenario (hc : Closed e P T) (wf : WF e) (σ : St) (hi : Inv e σ) (hT : ∀ t, T t) (h : P σ) :
    P (scheduleScenario e σ) := by
  unfold scheduleScenario
  simp only []
  have h3 := closed_pickLoop hc wf ((todoOf e (preLoop e σ)).length + 1) (todoOf e (preLoop e σ)) [] _ (preLoop_inv e σ hi)
    (todoOf_leaf e _) (fun t _ => hT t) (closed_preLoop hc σ h)
  split
  · exact h3
  · exact hc.eq (pickLoop e ((todoOf e (preLoop e σ)).length + 1) (todoOf e (preLoop e σ)) [] (preLoop e σ)).1 _ rfl rfl rfl h3

/-- **induction over everything the scheduler does**: a predicate closed under the four primitive state changes that
    holds of the empty state holds of the state any well-formed project ends in -/
theorem runScenario_closed (hc : Closed e P T) (wf : WF e) (hT : ∀ t, T t) (h0 : P (initState e)) : P (runScenario e) := by
  unfold runScenario
  exact closed_finishScenario hc _
    (closed_scheduleScenario hc wf _ (prepare_inv e _ (inv_init e wf)) hT (closed_prepare hc _ h0))

end SP
