import Model.Scan
/-! The scan loop returns exactly the maximal runs (fold invariant). -/
namespace SP

/-- `[a, b)` is a maximal run of `q` that starts at or after `lo` and is closed before `k` -/
def ClosedRun (q : Int → Bool) (lo k a b : Int) : Prop :=
  lo ≤ a ∧ a < b ∧ b < k ∧ (∀ i, a ≤ i → i < b → q i = true) ∧ (a = lo ∨ q (a - 1) = false) ∧ q b = false

/-- the loop body with the two conjuncts of its guard folded into one predicate -/
def qStep (q : Int → Bool) (s e : Int) (m : Nat) (st : ScanSt) (idx : Int) : ScanSt :=
  if q idx then
    { st with start := if st.dur = 0 then idx else st.start, dur := st.dur + 1 }
  else if st.dur > 0 then
    { dur := 0, start := 0,
      acc := if st.dur ≥ m then st.acc ++ [(max st.start s, min idx e)] else st.acc }
  else st

structure ScanInv (q : Int → Bool) (s e : Int) (m : Nat) (lo k : Int) (st : ScanSt) : Prop where
  acc : ∀ x, x ∈ st.acc ↔ ∃ a b, ClosedRun q lo k a b ∧ (m : Int) ≤ b - a ∧ x = (max a s, min b e)
  open_ : st.dur > 0 → st.start = k - st.dur ∧ lo ≤ st.start ∧
            (∀ i, st.start ≤ i → i < k → q i = true) ∧ (st.start = lo ∨ q (st.start - 1) = false)
  idle : st.dur = 0 → (k = lo ∨ q (k - 1) = false)

theorem scanInv_init (q : Int → Bool) (s e : Int) (m : Nat) (lo : Int) :
    ScanInv q s e m lo lo { dur := 0, start := 0, acc := [] } := by
  refine ⟨?_, ?_, ?_⟩
  · intro x
    simp only [List.not_mem_nil, false_iff]
    rintro ⟨a, b, ⟨h1, h2, h3, _⟩, _⟩
    omega
  · intro h; simp at h
  · intro _; exact Or.inl rfl

theorem scanInv_step (q : Int → Bool) (s e : Int) (m : Nat) (lo k : Int) (st : ScanSt) (hk : lo ≤ k)
    (h : ScanInv q s e m lo k st) : ScanInv q s e m lo (k + 1) (qStep q s e m st k) := by
  obtain ⟨hacc, hopen, hidle⟩ := h
  unfold qStep
  by_cases hq : q k = true
  · -- the run continues or starts
    simp only [hq, if_true]
    refine ⟨?_, ?_, ?_⟩
    · intro x
      rw [hacc x]
      constructor
      · rintro ⟨a, b, ⟨c1, c2, c3, c4, c5, c6⟩, hm, hx⟩
        exact ⟨a, b, ⟨c1, c2, by omega, c4, c5, c6⟩, hm, hx⟩
      · rintro ⟨a, b, ⟨c1, c2, c3, c4, c5, c6⟩, hm, hx⟩
        have : b ≠ k := by intro hb; rw [hb] at c6; simp [hq] at c6
        exact ⟨a, b, ⟨c1, c2, by omega, c4, c5, c6⟩, hm, hx⟩
    · intro _
      by_cases hd : st.dur = 0
      · simp only [hd, if_true]
        refine ⟨by simp, hk, ?_, ?_⟩
        · intro i hi1 hi2
          have : i = k := by omega
          rw [this]; exact hq
        · rcases hidle hd with h | h
          · exact Or.inl h
          · exact Or.inr h
      · have hpos : st.dur > 0 := Nat.pos_of_ne_zero hd
        obtain ⟨o1, o2, o3, o4⟩ := hopen hpos
        simp only [hd, if_false]
        refine ⟨by simp; omega, o2, ?_, o4⟩
        intro i hi1 hi2
        by_cases hik : i = k
        · rw [hik]; exact hq
        · exact o3 i hi1 (by omega)
    · intro h; simp at h
  · -- q k = false
    have hqf : q k = false := by simpa using hq
    simp only [hqf, Bool.false_eq_true, if_false]
    by_cases hd : st.dur > 0
    · obtain ⟨o1, o2, o3, o4⟩ := hopen hd
      simp only [hd, if_true]
      refine ⟨?_, ?_, ?_⟩
      · intro x
        -- closed runs before k+1 = closed runs before k, plus the run [st.start, k)
        have key : ∀ a b, ClosedRun q lo (k + 1) a b ↔ ClosedRun q lo k a b ∨ (a = st.start ∧ b = k) := by
          intro a b
          constructor
          · rintro ⟨c1, c2, c3, c4, c5, c6⟩
            by_cases hb : b = k
            · right
              refine ⟨?_, hb⟩
              subst hb
              -- both a and st.start are left-maximal starts of an all-true stretch ending at b
              by_cases hlt : a < st.start
              · rcases o4 with h | h
                · omega
                · have := c4 (st.start - 1) (by omega) (by omega)
                  rw [h] at this; cases this
              · by_cases hgt : st.start < a
                · rcases c5 with h | h
                  · omega
                  · have := o3 (a - 1) (by omega) (by omega)
                    rw [h] at this; cases this
                · omega
            · left; exact ⟨c1, c2, by omega, c4, c5, c6⟩
          · rintro (⟨c1, c2, c3, c4, c5, c6⟩ | ⟨ha, hb⟩)
            · exact ⟨c1, c2, by omega, c4, c5, c6⟩
            · subst ha; subst hb
              exact ⟨o2, by omega, by omega, o3, o4, hqf⟩
        by_cases hm : st.dur ≥ m
        · simp only [hm, if_true, List.mem_append, List.mem_singleton]
          rw [hacc x]
          constructor
          · rintro (⟨a, b, hc, hmm, hx⟩ | hx)
            · exact ⟨a, b, (key a b).2 (Or.inl hc), hmm, hx⟩
            · exact ⟨st.start, k, (key _ _).2 (Or.inr ⟨rfl, rfl⟩), by omega, hx⟩
          · rintro ⟨a, b, hc, hmm, hx⟩
            rcases (key a b).1 hc with h | ⟨ha, hb⟩
            · exact Or.inl ⟨a, b, h, hmm, hx⟩
            · subst ha; subst hb; exact Or.inr hx
        · simp only [hm, if_false]
          rw [hacc x]
          constructor
          · rintro ⟨a, b, hc, hmm, hx⟩
            exact ⟨a, b, (key a b).2 (Or.inl hc), hmm, hx⟩
          · rintro ⟨a, b, hc, hmm, hx⟩
            rcases (key a b).1 hc with h | ⟨ha, hb⟩
            · exact ⟨a, b, h, hmm, hx⟩
            · subst ha; subst hb; omega
      · intro h; simp at h
      · intro _; right; simpa using hqf
    · have hd0 : st.dur = 0 := by omega
      simp only [hd, if_false]
      refine ⟨?_, ?_, ?_⟩
      · intro x
        rw [hacc x]
        constructor
        · rintro ⟨a, b, ⟨c1, c2, c3, c4, c5, c6⟩, hm, hx⟩
          exact ⟨a, b, ⟨c1, c2, by omega, c4, c5, c6⟩, hm, hx⟩
        · rintro ⟨a, b, ⟨c1, c2, c3, c4, c5, c6⟩, hm, hx⟩
          have : b ≠ k := by
            intro hb; subst hb
            rcases hidle hd0 with h | h
            · omega
            · have := c4 (b - 1) (by omega) (by omega)
              rw [h] at this; cases this
          exact ⟨a, b, ⟨c1, c2, by omega, c4, c5, c6⟩, hm, hx⟩
      · intro h; omega
      · intro _; right; simpa using hqf

/-- the fold over `n` consecutive indices starting at `lo` -/
def scanIdxs (lo : Int) (n : Nat) : List Int := (List.range n).map (fun (k : Nat) => lo + (k : Int))

theorem scanIdxs_succ (lo : Int) (n : Nat) : scanIdxs lo (n + 1) = scanIdxs lo n ++ [lo + (n : Int)] := by
  simp [scanIdxs, List.range_succ]

theorem scanInv_fold (q : Int → Bool) (s e : Int) (m : Nat) (lo : Int) (n : Nat) :
    ScanInv q s e m lo (lo + n) ((scanIdxs lo n).foldl (qStep q s e m) { dur := 0, start := 0, acc := [] }) := by
  induction n with
  | zero => simpa [scanIdxs] using scanInv_init q s e m lo
  | succ n ih =>
    rw [scanIdxs_succ, List.foldl_append]
    simp only [List.foldl_cons, List.foldl_nil]
    have := scanInv_step q s e m lo (lo + n) _ (by omega) ih
    have e1 : lo + ((n + 1 : Nat) : Int) = lo + (n : Int) + 1 := by omega
    rw [e1]; exact this

theorem foldl_congr_step {α β : Type} (f g : β → α → β) (h : ∀ b a, f b a = g b a) (l : List α) (b : β) :
    l.foldl f b = l.foldl g b := by
  induction l generalizing b with
  | nil => rfl
  | cons x xs ih => simp [List.foldl_cons, h, ih]

end SP
