import Model
/-! Python's `round` (half to even) on exact rationals. -/
namespace SP

theorem roundHalfEven_bounds (x : Rat) : (x.floor : Int) ≤ roundHalfEven x ∧ roundHalfEven x ≤ x.floor + 1 := by
  unfold roundHalfEven
  simp only []
  split
  · omega
  · split
    · omega
    · split <;> omega

theorem roundHalfEven_mono_int (x : Rat) (n : Int) (h : x ≤ (n : Rat)) : roundHalfEven x ≤ n := by
  have hb := roundHalfEven_bounds x
  have hfl : x.floor ≤ n := by
    have := Rat.floor_le x
    have h2 : (x.floor : Rat) ≤ (n : Rat) := by grind
    exact_mod_cast h2
  by_cases heq : x.floor = n
  · -- x = n exactly, so the fractional part is 0 and rounding gives n
    have hx : x = (n : Rat) := by
      have := Rat.floor_le x
      rw [heq] at this
      grind
    unfold roundHalfEven
    simp only []
    have hf : x.floor = n := heq
    have hfr : x - (x.floor : Rat) = 0 := by rw [hf, hx]; grind
    rw [hfr]
    have h12 : ((0 : Rat) < 1 / 2) := by decide +kernel
    simp only [h12, if_true]
    omega
  · omega

theorem roundHalfEven_nonneg (x : Rat) (h : 0 ≤ x) : 0 ≤ roundHalfEven x := by
  have hb := roundHalfEven_bounds x
  have : (0 : Int) ≤ x.floor := by
    have := Rat.le_floor_iff.mpr (show ((0 : Int) : Rat) ≤ x by simpa using h)
    exact this
  omega

end SP
