import Proofs.Solid
import Proofs.Visits
/-!
C08 in terms of the ledger the task leaves behind: between the slot of its dependency bound and any slot the task is booked in,
no working slot of its (unlimited) resource is left without an entry.
-/
namespace SP

/-- the states and walks of the visits satisfy the invariants -/
theorem walkVisits_inv (e : Env) (wf : WF e) (t : Nat) (fuel : Nat) (σ : St) (w : Walk)
    (hinv : Inv e σ) (hs : Solid e σ) (hlf : (e.taskD t).leaf = true) (hw : WalkOk e t w) (hin : WalkIn e w) :
    ∀ p ∈ walkVisits e t fuel σ w, Inv e p.1 ∧ Solid e p.1 ∧ WalkOk e t p.2 ∧ WalkIn e p.2 := by
  induction fuel generalizing σ w with
  | zero => intro p hp; simp [walkVisits] at hp
  | succ f ih =>
    unfold walkVisits
    intro p hp
    rcases List.mem_cons.mp hp with hp | hp
    · subst hp; exact ⟨hinv, hs, hw, hin⟩
    · split at hp
      · cases hp
      · rename_i hc
        have hcont : (scheduleSlot e σ t w).2.2 = true := by simpa using hc
        split at hp
        · cases hp
        · rename_i hb
          have h1 := scheduleSlot_inv e σ t w wf hinv hlf hw
          have h2 := closed_scheduleSlot (solid_closed e wf) wf σ t w hinv hlf trivial hw hin hs
          refine ih _ _ h1.1 h2 (walkOk_advance e t wf _ _ _ (h1.2 hcont)) ⟨?_, ?_, ?_⟩ p hp
          · simp only [Bool.or_eq_true, decide_eq_true_eq, not_or, Int.not_lt] at hb
            exact hb.1
          · show (0 : Rat) ≤ (e.G : Rat) - 1 / 1000000
            have : (1 : Int) ≤ e.G := wf.G_pos
            have : (1 : Rat) ≤ (e.G : Rat) := by exact_mod_cast this
            grind
          · simp only [Bool.or_eq_true, decide_eq_true_eq, not_or, Int.not_lt] at hb
            exact hb.2

/-- the walk from any of its visits on ends in the same state -/
theorem walkVisits_suffix (e : Env) (t : Nat) (fuel : Nat) (σ : St) (w : Walk) :
    ∀ p ∈ walkVisits e t fuel σ w, ∃ f', (walkLoop e t true fuel σ w).1 = (walkLoop e t true f' p.1 p.2).1 := by
  induction fuel generalizing σ w with
  | zero => intro p hp; simp [walkVisits] at hp
  | succ f ih =>
    unfold walkVisits
    intro p hp
    rcases List.mem_cons.mp hp with hp | hp
    · subst hp; exact ⟨f + 1, rfl⟩
    · split at hp
      · cases hp
      · rename_i hc
        split at hp
        · cases hp
        · rename_i hb
          obtain ⟨f', hf'⟩ := ih _ _ p hp
          refine ⟨f', ?_⟩
          rw [← hf']
          rw [walkLoop.eq_def e t true (f + 1)]
          simp only [hc, hb, Bool.false_eq_true, if_false]

/-- slots the walk does not visit keep their ledger entries -/
theorem walkLoop_unvisited (e : Env) (t : Nat) (fuel : Nat) (σ : St) (w : Walk) (r' : Nat) (i' : Int)
    (h : ∀ p ∈ walkVisits e t fuel σ w, p.2.cur ≠ i') : (walkLoop e t true fuel σ w).1.led.get r' i' = σ.led.get r' i' := by
  induction fuel generalizing σ w with
  | zero => rfl
  | succ f ih =>
    unfold walkVisits at h
    have h0 : w.cur ≠ i' := h (σ, w) List.mem_cons_self
    have h1 := scheduleSlot_other e σ t w r' i' (Ne.symm h0)
    unfold walkLoop
    simp only []
    split
    · exact h1
    · rename_i hc
      split
      · exact h1
      · rename_i hb
        rw [ih]
        · exact h1
        · intro p hp
          apply h p
          apply List.mem_cons_of_mem
          simp only [hc, hb, Bool.false_eq_true, if_false]
          exact hp

theorem not_all_exists {α : Type} (l : List α) (p : α → Bool) (h : ¬ l.all p = true) : ∃ x ∈ l, p x = false := by
  induction l with
  | nil => exact absurd rfl h
  | cons x xs ih =>
    by_cases hx : p x = true
    · have : ¬ xs.all p = true := by
        intro hxs; apply h; simp only [List.all_cons, hx, hxs, Bool.and_self]
      obtain ⟨y, hy, hpy⟩ := ih this
      exact ⟨y, List.mem_cons_of_mem _ hy, hpy⟩
    · exact ⟨x, List.mem_cons_self, by simpa using hx⟩

/-- the resource was not available to the task at a working slot ⇒ the slot carries an entry, or a limit refused -/
theorem gate_closed_has (e : Env) (wf : WF e) (σ : St) (t : Nat) (w : Walk) (r : Nat)
    (hinv : Inv e σ) (hs : Solid e σ) (hw : WalkOk e t w) (hin : WalkIn e w)
    (hleaf : (e.resD r).leaf = true) (hon : e.onShift r w.cur = true) (hnl : e.leaveMark r w.cur = false)
    (hg : gate e σ t w r = false) : Has r w.cur σ ∨ Exhausted e σ t r w.cur := by
  have hs1 : Solid e (reserveStep σ w r) := closed_reserveStep (solid_closed e wf) σ t w r hinv hw hin hs
  have hnorm : e.norm w.cur = w.cur := by unfold Env.norm; simp [Int.not_lt.mpr hin.cur_nonneg]
  have hcnt : (reserveStep σ w r).cnt = σ.cnt := by unfold reserveStep; split <;> rfl
  have hlim : ∀ lid ro, limitOk e (reserveStep σ w r) lid w.cur ro = limitOk e σ lid w.cur ro := by
    intro lid ro; unfold limitOk; rw [hcnt]
  unfold gate at hg
  by_cases htl : taskLimitsOk e (reserveStep σ w r) t w.cur r = true
  · rw [htl, Bool.and_true] at hg
    unfold available at hg
    simp only [hleaf, hon, Bool.and_true, Bool.true_and, hnorm, hnl, Bool.or_false] at hg
    by_cases hrl : (resLimitIds e r).all (fun lid => limitOk e (reserveStep σ w r) lid w.cur none) = true
    · left
      rw [hrl, Bool.and_true] at hg
      unfold Has
      rw [← reserveStep_get σ w r r w.cur]
      by_cases ha : availSecs e.G ((reserveStep σ w r).led.get r w.cur) > 0
      · simp only [ha, decide_true, Bool.true_and, Bool.not_eq_false', Bool.and_eq_true, decide_eq_true_eq] at hg
        exact hs1.marked r w.cur hg.1
      · intro hu
        exact ha (hs1.room r w.cur hu)
    · right; left
      obtain ⟨lid, hmem, hno⟩ := not_all_exists _ _ hrl
      refine ⟨lid, hmem, ?_⟩
      unfold Refuses
      rw [← hlim lid none]
      exact hno
  · right; right
    unfold taskLimitsOk at htl
    obtain ⟨lid, hmem, hno⟩ := not_all_exists _ _ htl
    refine ⟨lid, hmem, ?_⟩
    unfold Refuses
    rw [← hlim lid (some r)]
    exact hno

theorem exhausted_closed_step {e : Env} {σ σ' : St} {t r : Nat} {i : Int}
    (hstep : ∀ lid ro, Refuses e lid i ro σ → Refuses e lid i ro σ') (h : Exhausted e σ t r i) : Exhausted e σ' t r i := by
  rcases h with ⟨lid, hm, hr⟩ | ⟨lid, hm, hr⟩
  · exact Or.inl ⟨lid, hm, hstep lid none hr⟩
  · exact Or.inr ⟨lid, hm, hstep lid (some r) hr⟩

theorem usage_ne_nil_of_usageOf {u : List (Nat × Rat)} {t : Nat} (h : usageOf u t ≠ none) : u ≠ [] := by
  intro hu; rw [hu] at h; exact h rfl

/-- **along the walk, in terms of the ledger it leaves**: every visited slot in which the resource is working carries an entry
    when the walk ends — the task's own, or the one that made the resource unavailable — unless a limit refuses the slot -/
theorem walkLoop_no_idle_has (e : Env) (wf : WF e) (t r : Nat) (fuel : Nat) (σ : St) (w : Walk) (vis : List Int)
    (hinv : Inv e σ) (hs : Solid e σ) (hlf : (e.taskD t).leaf = true) (hw : WalkOk e t w) (hin : WalkIn e w)
    (ha : (e.taskD t).hasAlloc = true) (hm : (e.taskD t).milestone = false)
    (hsel : selectedOf e σ t w = [r]) (hlt : w.done < (e.taskD t).effort) (hpos : 0 < (e.taskD t).effort)
    (h : FInv e σ t r w vis) (hok : (walkLoop e t true fuel σ w).2.2 = true)
    (hleaf : (e.resD r).leaf = true) :
    ∀ p ∈ walkVisits e t fuel σ w, e.onShift r p.2.cur = true → e.leaveMark r p.2.cur = false →
      Has r p.2.cur (walkLoop e t true fuel σ w).1 ∨ Exhausted e (walkLoop e t true fuel σ w).1 t r p.2.cur := by
  intro p hp hon hnl
  have hiff := walkLoop_no_idle e wf t r fuel σ w vis hinv hlf hw ha hm hsel hlt hpos h hok p hp
  by_cases hg : gate e p.1 t p.2 r = true
  · exact Or.inl (usage_ne_nil_of_usageOf (hiff.mpr hg))
  · have hg' : gate e p.1 t p.2 r = false := by simpa using hg
    obtain ⟨hi1, hs1, hw1, hin1⟩ := walkVisits_inv e wf t fuel σ w hinv hs hlf hw hin p hp
    obtain ⟨f', hf'⟩ := walkVisits_suffix e t fuel σ w p hp
    rw [hf']
    rcases gate_closed_has e wf p.1 t p.2 r hi1 hs1 hw1 hin1 hleaf hon hnl hg' with hhas | hex
    · exact Or.inl (closed_walkLoop (has_closed e r p.2.cur) wf t true f' p.1 p.2 hi1 hlf trivial hw1 hin1 hhas)
    · exact Or.inr (exhausted_closed_step (fun lid ro hr =>
        closed_walkLoop (refuses_closed e lid p.2.cur ro) wf t true f' p.1 p.2 hi1 hlf trivial hw1 hin1 hr) hex)

end SP

namespace SP

/-- **one forward task, in terms of the ledger**: a successful `scheduleTask` of an effort task with the single selected
    resource `r` leaves, between the slot of its dependency bound and ANY slot `L` it is booked in, no working slot of `r`
    (on shift, no leave) without an entry — unless a limit of the resource or of the task refuses that slot -/
theorem scheduleTask_no_idle_interval_sel (e : Env) (wf : WF e) (σ : St) (t r : Nat)
    (hinv : Inv e σ) (hs : Solid e σ) (hlf : (e.taskD t).leaf = true) (hal : (e.taskD t).hasAlloc = true)
    (hnm : (e.taskD t).milestone = false) (hpos : 0 < (e.taskD t).effort)
    (hsel1 : selectBest e (σ.setT t (σ.tst t)) (e.taskD t).alloc (e.taskD t).alt (e.taskD t).effort (initCursor e σ t).1 = [r])
    (hb : t < σ.ts.size) (hf : (σ.tst t).forward = true)
    (hnd : (σ.tst t).done = false) (hclean : ∀ i, usageOf (σ.led.get r i).usage t = none)
    (hleaf : (e.resD r).leaf = true)
    (hok : (scheduleTask e σ t).2 = true) :
    ∀ L, usageOf ((scheduleTask e σ t).1.led.get r L).usage t ≠ none →
      ∀ i, (initCursor e σ t).1 ≤ i → i ≤ L → e.onShift r i = true → e.leaveMark r i = false →
        Has r i (scheduleTask e σ t).1 ∨ Exhausted e (scheduleTask e σ t).1 t r i := by
  have hpc : preStartCursor e σ t (initCursor e σ t).1 = (initCursor e σ t).1 := by
    unfold preStartCursor; simp [hal]
  have hpt : preStartT e σ t (initCursor e σ t).1 = σ.tst t := by
    unfold preStartT; simp [hal]
  have hoff := initCursor_off e σ t wf
  unfold scheduleTask at hok ⊢
  simp only [hnd, Bool.false_eq_true, if_false, hpc, hpt, hf] at hok ⊢
  have h0 : Inv e (σ.setT t (σ.tst t)) := inv_setT _ _ hinv
  have hs0 : Solid e (σ.setT t (σ.tst t)) := (solid_closed e wf).setT σ t _ hs
  by_cases hout : ((initCursor e σ t).1 < 0 || (initCursor e σ t).1 > e.upper) = true
  · simp only [hout, if_true] at hok
    exact Bool.noConfusion hok
  · simp only [hout, Bool.false_eq_true, if_false] at hok ⊢
    have hw : WalkOk e t { cur := (initCursor e σ t).1, offset := (initCursor e σ t).2 } :=
      ⟨hoff.1, hoff.2, wf.effort_nonneg t⟩
    have hin : WalkIn e { cur := (initCursor e σ t).1, offset := (initCursor e σ t).2 } := by
      simp only [Bool.or_eq_true, decide_eq_true_eq, not_or, Int.not_lt] at hout
      exact ⟨hout.1, initCursor_room e σ t wf, hout.2⟩
    have hfi : FInv e (σ.setT t (σ.tst t)) t r { cur := (initCursor e σ t).1, offset := (initCursor e σ t).2 } [] := by
      refine ⟨⟨fun i _ => hclean i, fun i hi => absurd hi List.not_mem_nil,
          by show (0 : Rat) = sumOver _ r t [] / 3600 * (e.resD r).eff; simp only [sumOver]; grind, List.nodup_nil⟩,
        by rw [size_setT]; exact hb, by rw [tst_setT_same _ _ _ hb]; exact hf, Rat.le_refl,
        ⟨fun _ i hi => absurd hi List.not_mem_nil, fun hne => absurd rfl hne⟩⟩
    have hsel0 : selectedOf e (σ.setT t (σ.tst t)) t { cur := (initCursor e σ t).1, offset := (initCursor e σ t).2 } = [r] := by
      unfold selectedOf; exact hsel1
    by_cases hfin : (walkLoop e t true (e.size.toNat + 3) (σ.setT t (σ.tst t))
        { cur := (initCursor e σ t).1, offset := (initCursor e σ t).2 }).2.2 = true
    · simp only [hfin, Bool.not_true, Bool.false_eq_true, if_false] at hok ⊢
      intro L hL i hci hiL hon hnl
      -- the slot L is visited: an unvisited slot keeps the (empty) entry it had
      have hLvis : ∃ p ∈ walkVisits e t (e.size.toNat + 3) (σ.setT t (σ.tst t))
          { cur := (initCursor e σ t).1, offset := (initCursor e σ t).2 }, p.2.cur = L := by
        apply Classical.byContradiction
        intro hno
        have hno' : ∀ p ∈ walkVisits e t (e.size.toNat + 3) (σ.setT t (σ.tst t))
            { cur := (initCursor e σ t).1, offset := (initCursor e σ t).2 }, p.2.cur ≠ L :=
          fun p hp heq => hno ⟨p, hp, heq⟩
        have := walkLoop_unvisited e t _ _ _ r L hno'
        apply hL
        show usageOf ((walkLoop e t true (e.size.toNat + 3) (σ.setT t (σ.tst t))
          { cur := (initCursor e σ t).1, offset := (initCursor e σ t).2 }).1.led.get r L).usage t = none
        rw [this]
        exact hclean L
      obtain ⟨pL, hpL, hcurL⟩ := hLvis
      obtain ⟨k, hk, hkeq⟩ := List.getElem_of_mem hpL
      have hkc := walkVisits_consecutive e t _ _ _ k hk
      rw [hkeq, hcurL] at hkc
      simp only [] at hkc
      -- the slot i is the (i - c0)-th visit
      have hj : (i - (initCursor e σ t).1).toNat < (walkVisits e t (e.size.toNat + 3) (σ.setT t (σ.tst t))
          { cur := (initCursor e σ t).1, offset := (initCursor e σ t).2 }).length := by omega
      have hjc := walkVisits_consecutive e t _ _ _ _ hj
      simp only [] at hjc
      have hcur : ((walkVisits e t (e.size.toNat + 3) (σ.setT t (σ.tst t))
          { cur := (initCursor e σ t).1, offset := (initCursor e σ t).2 })[(i - (initCursor e σ t).1).toNat]).2.cur = i := by
        rw [hjc]; omega
      have := walkLoop_no_idle_has e wf t r _ _ _ [] h0 hs0 hlf hw hin hal hnm hsel0 hpos hpos hfi hfin
        hleaf _ (List.getElem_mem hj) (by rw [hcur]; exact hon) (by rw [hcur]; exact hnl)
      rw [hcur] at this
      exact this
    · have hfin' : (walkLoop e t true (e.size.toNat + 3) (σ.setT t (σ.tst t))
        { cur := (initCursor e σ t).1, offset := (initCursor e σ t).2 }).2.2 = false := by simpa using hfin
      simp only [hfin', Bool.not_false, if_true] at hok
      exact Bool.noConfusion hok

/-- the same for a task whose selection is `[r]` in every state -/
theorem scheduleTask_no_idle_interval (e : Env) (wf : WF e) (σ : St) (t r : Nat)
    (hinv : Inv e σ) (hs : Solid e σ) (hel : Elig e t r) (hb : t < σ.ts.size) (hf : (σ.tst t).forward = true)
    (hnd : (σ.tst t).done = false) (hclean : ∀ i, usageOf (σ.led.get r i).usage t = none)
    (hleaf : (e.resD r).leaf = true)
    (hok : (scheduleTask e σ t).2 = true) :
    ∀ L, usageOf ((scheduleTask e σ t).1.led.get r L).usage t ≠ none →
      ∀ i, (initCursor e σ t).1 ≤ i → i ≤ L → e.onShift r i = true → e.leaveMark r i = false →
        Has r i (scheduleTask e σ t).1 ∨ Exhausted e (scheduleTask e σ t).1 t r i :=
  scheduleTask_no_idle_interval_sel e wf σ t r hinv hs hel.leaf hel.alloc hel.nomile hel.effort (hel.sel _ _) hb hf hnd hclean
    hleaf hok

end SP
