import Proofs.SchedInv
import Proofs.Walk
import Model.Elab
/-!
C11: the explicit fuel of the slot walk is never the reason it stops.  (The code has no fuel: its `while` loop ends when the
task is finished or the cursor leaves the horizon.  The model's walk does exactly that whenever the fuel exceeds the number of
slots between the cursor and the edge of the horizon, and `scheduleTask` supplies more than that.)
-/
namespace SP

/-- slots left between the cursor and the edge of the horizon, in the direction of the walk -/
def slotsLeft (e : Env) (fwd : Bool) (w : Walk) : Nat :=
  if fwd then (e.upper - w.cur + 1).toNat else (w.cur + 1).toNat

theorem walkLoop_fuel_enough (e : Env) (t : Nat) (fwd : Bool) (fuel : Nat) (σ : St) (w : Walk)
    (h : slotsLeft e fwd w < fuel) : walkLoop e t fwd fuel σ w = walkLoop e t fwd (fuel + 1) σ w := by
  induction fuel generalizing σ w with
  | zero => omega
  | succ f ih =>
    rw [walkLoop.eq_def e t fwd (f + 1 + 1)]
    rw [walkLoop.eq_def e t fwd (f + 1)]
    simp only []
    split
    · rfl
    · split
      · rfl
      · rename_i hin
        apply ih
        simp only [Bool.or_eq_true, decide_eq_true_eq, not_or, Int.not_lt, Int.not_lt] at hin
        have hcur := advance_cur fwd w (scheduleSlot e σ t w).2.1
        have hsc := scheduleSlot_cur e σ t w
        unfold slotsLeft at h ⊢
        cases fwd with
        | true =>
          simp only [if_true] at h hcur ⊢
          omega
        | false =>
          simp only [Bool.false_eq_true, if_false] at h hcur ⊢
          omega

/-- any amount of further fuel gives the same walk -/
theorem walkLoop_fuel_irrelevant (e : Env) (t : Nat) (fwd : Bool) (fuel k : Nat) (σ : St) (w : Walk)
    (h : slotsLeft e fwd w < fuel) : walkLoop e t fwd (fuel + k) σ w = walkLoop e t fwd fuel σ w := by
  induction k with
  | zero => rfl
  | succ k ih =>
    rw [← ih, ← Nat.add_assoc]
    exact (walkLoop_fuel_enough e t fwd (fuel + k) σ w (by omega)).symm

/-- the fuel `scheduleTask` hands to the walk (`size + 3`) exceeds the slots left whenever the cursor starts inside the
    horizon and the scoreboard covers the horizon -/
theorem scheduleTask_fuel_ample (e : Env) (fwd : Bool) (w : Walk) (hs : e.upper ≤ e.size + 1)
    (hin : ¬ (w.cur < 0 ∨ w.cur > e.upper)) : slotsLeft e fwd w < e.size.toNat + 3 := by
  unfold slotsLeft
  cases fwd <;> simp only [if_true, Bool.false_eq_true, if_false] <;> omega

/-- the backward search for a working slot stops at slot 0 at the latest: fuel beyond the cursor changes nothing -/
theorem backToWork_fuel_enough (e : Env) (p : Int → Bool) (fuel : Nat) (c0 : Int) (h : c0.toNat < fuel) :
    backToWork e p fuel c0 = backToWork e p (fuel + 1) c0 := by
  induction fuel generalizing c0 with
  | zero => omega
  | succ f ih =>
    rw [backToWork.eq_def e p (f + 1 + 1)]
    rw [backToWork.eq_def e p (f + 1)]
    simp only []
    split
    · rename_i hc
      simp only [Bool.and_eq_true, decide_eq_true_eq] at hc
      exact ih (c0 - 1) (by omega)
    · rfl

/-- the forward search for a project working slot stops at the horizon at the latest -/
theorem fwdToWork_fuel_enough (e : Env) (fuel : Nat) (c0 : Int) (h : (e.upper - c0).toNat < fuel) :
    fwdToWork e fuel c0 = fwdToWork e (fuel + 1) c0 := by
  induction fuel generalizing c0 with
  | zero => omega
  | succ f ih =>
    rw [fwdToWork.eq_def e (f + 1 + 1)]
    rw [fwdToWork.eq_def e (f + 1)]
    simp only []
    split
    · rename_i hc
      simp only [Bool.and_eq_true, decide_eq_true_eq] at hc
      exact ih (c0 + 1) (by omega)
    · rfl

/-! ### the scoreboard of an elaborated project covers its horizon -/

theorem tdiv_le_ceilDiv (a b : Int) (hb : 0 < b) : Int.tdiv a b ≤ ceilDiv a b := by
  unfold ceilDiv
  by_cases ha : 0 ≤ a
  · rw [Int.tdiv_eq_ediv_of_nonneg ha]
    have h1 := Int.mul_ediv_add_emod a b
    have h2 := Int.emod_nonneg a (Int.ne_of_gt hb)
    have h3 := Int.emod_lt_of_pos a hb
    have h4 := Int.mul_ediv_add_emod (-a) b
    have h5 := Int.emod_nonneg (-a) (Int.ne_of_gt hb)
    have h6 := Int.emod_lt_of_pos (-a) hb
    generalize a / b = q at *
    generalize (-a) / b = q' at *
    generalize a % b = r at *
    generalize (-a) % b = r' at *
    have : b * (q + q') = -(r + r') := by rw [Int.mul_add]; omega
    have hq : q + q' ≤ 0 := by
      by_cases hpos : 0 < q + q'
      · have : b * (q + q') > 0 := Int.mul_pos hb hpos
        omega
      · omega
    omega
  · have ha' : 0 ≤ -a := by omega
    have : Int.tdiv a b = -(Int.tdiv (-a) b) := by rw [Int.neg_tdiv]; omega
    rw [this, Int.tdiv_eq_ediv_of_nonneg ha']
    omega

theorem elaborate_horizon (p : RawProj) (hG : 0 < p.G) : (elaborate p).env.upper ≤ (elaborate p).env.size + 1 := by
  show Int.tdiv (stopRelOf p - 0) p.G ≤ ceilDiv (stopRelOf p) p.G + 1 + 1
  have := tdiv_le_ceilDiv (stopRelOf p) p.G hG
  rw [Int.sub_zero]
  omega
end SP
