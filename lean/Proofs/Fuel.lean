import Proofs.SchedInv
import Proofs.Walk
import Model.Elab
/-!
C11: the explicit fuel of the slot walk is never the reason it stops.  (The code has no fuel: its `while` loop ends when the
task is finished or the cursor leaves the horizon.  The model's walk does exactly that whenever the fuel exceeds the number of
slots between the cursor and the edge of the horizon, and `scheduleTask` supplies more than that.)
-/
namespace SP

/-- slots left between the cursor and the edge of the horizon, in the direction of the walk -/
def slotsLeft (e : Env) (fwd : Bool) (w : Walk) : Nat :=
  if fwd then (e.upper - w.cur + 1).toNat else (w.cur + 1).toNat

theorem walkLoop_fuel_enough (e : Env) (t : Nat) (fwd : Bool) (fuel : Nat) (σ : St) (w : Walk)
    (h : slotsLeft e fwd w < fuel) : walkLoop e t fwd fuel σ w = walkLoop e t fwd (fuel + 1) σ w := by
  induction fuel generalizing σ w with
  | zero => omega
  | succ f ih =>
    rw [walkLoop.eq_def e t fwd (f + 1 + 1)]
    rw [walkLoop.eq_def e t fwd (f + 1)]
    simp only []
    split
    · rfl
    · split
      · rfl
      · rename_i hin
        apply ih
        simp only [Bool.or_eq_true, decide_eq_true_eq, not_or, Int.not_lt, Int.not_lt] at hin
        have hcur := advance_cur fwd w (scheduleSlot e σ t w).2.1
        have hsc := scheduleSlot_cur e σ t w
        unfold slotsLeft at h ⊢
        cases fwd with
        | true =>
          simp only [if_true] at h hcur ⊢
          omega
        | false =>
          simp only [Bool.false_eq_true, if_false] at h hcur ⊢
          omega

/-- any amount of further fuel gives the same walk -/
theorem walkLoop_fuel_irrelevant (e : Env) (t : Nat) (fwd : Bool) (fuel k : Nat) (σ : St) (w : Walk)
    (h : slotsLeft e fwd w < fuel) : walkLoop e t fwd (fuel + k) σ w = walkLoop e t fwd fuel σ w := by
  induction k with
  | zero => rfl
  | succ k ih =>
    rw [← ih, ← Nat.add_assoc]
    exact (walkLoop_fuel_enough e t fwd (fuel + k) σ w (by omega)).symm

/-- the fuel `scheduleTask` hands to the walk (`size + 3`) exceeds the slots left whenever the cursor starts inside the
    horizon and the scoreboard covers the horizon -/
theorem scheduleTask_fuel_ample (e : Env) (fwd : Bool) (w : Walk) (hs : e.upper ≤ e.size + 1)
    (hin : ¬ (w.cur < 0 ∨ w.cur > e.upper)) : slotsLeft e fwd w < e.size.toNat + 3 := by
  unfold slotsLeft
  cases fwd <;> simp only [if_true, Bool.false_eq_true, if_false] <;> omega

/-- the backward search for a working slot stops at slot 0 at the latest: fuel beyond the cursor changes nothing -/
theorem backToWork_fuel_enough (e : Env) (p : Int → Bool) (fuel : Nat) (c0 : Int) (h : c0.toNat < fuel) :
    backToWork e p fuel c0 = backToWork e p (fuel + 1) c0 := by
  induction fuel generalizing c0 with
  | zero => omega
  | succ f ih =>
    rw [backToWork.eq_def e p (f + 1 + 1)]
    rw [backToWork.eq_def e p (f + 1)]
    simp only []
    split
    · rename_i hc
      simp only [Bool.and_eq_true, decide_eq_true_eq] at hc
      exact ih (c0 - 1) (by omega)
    · rfl

/-- the forward search for a project working slot stops at the horizon at the latest -/
theorem fwdToWork_fuel_enough (e : Env) (fuel : Nat) (c0 : Int) (h : (e.upper - c0).toNat < fuel) :
    fwdToWork e fuel c0 = fwdToWork e (fuel + 1) c0 := by
  induction fuel generalizing c0 with
  | zero => omega
  | succ f ih =>
    rw [fwdToWork.eq_def e (f + 1 + 1)]
    rw [fwdToWork.eq_def e (f + 1)]
    simp only []
    split
    · rename_i hc
      simp only [Bool.and_eq_true, decide_eq_true_eq] at hc
      exact ih (c0 + 1) (by omega)
    · rfl

/-! ### the scoreboard of an elaborated project covers its horizon -/

theorem tdiv_le_ceilDiv (a b : Int) (hb : 0 < b) : Int.tdiv a b ≤ ceilDiv a b := by
  unfold ceilDiv
  by_cases ha : 0 ≤ a
  · rw [Int.tdiv_eq_ediv_of_nonneg ha]
    have h1 := Int.mul_ediv_add_emod a b
    have h2 := Int.emod_nonneg a (Int.ne_of_gt hb)
    have h3 := Int.emod_lt_of_pos a hb
    have h4 := Int.mul_ediv_add_emod (-a) b
    have h5 := Int.emod_nonneg (-a) (Int.ne_of_gt hb)
    have h6 := Int.emod_lt_of_pos (-a) hb
    generalize a / b = q at *
    generalize (-a) / b = q' at *
    generalize a % b = r at *
    generalize (-a) % b = r' at *
    have : b * (q + q') = -(r + r') := by rw [Int.mul_add]; omega
    have hq : q + q' ≤ 0 := by
      by_cases hpos : 0 < q + q'
      · have : b * (q + q') > 0 := Int.mul_pos hb hpos
        omega
      · omega
    omega
  · have ha' : 0 ≤ -a := by omega
    have : Int.tdiv a b = -(Int.tdiv (-a) b) := by rw [Int.neg_tdiv]; omega
    rw [this, Int.tdiv_eq_ediv_of_nonneg ha']
    omega

theorem elaborate_horizon (p : RawProj) (hG : 0 < p.G) : (elaborate p).env.upper ≤ (elaborate p).env.size + 1 := by
  show Int.tdiv (stopRelOf p - 0) p.G ≤ ceilDiv (stopRelOf p) p.G + 1 + 1
  have := tdiv_le_ceilDiv (stopRelOf p) p.G hG
  rw [Int.sub_zero]
  omega
/-! ### the completion estimate of `_selectBestResources` -/

/-- the estimate loop (`while remaining > 0 and idx < size`) stops at the end of the scoreboard at the latest -/
theorem estimateAux_fuel_enough (e : Env) (σ : St) (r : Nat) (perSlot : Rat) (fuel : Nat) (cur : Int) (rem : Rat)
    (h : (e.size - cur).toNat < fuel) :
    estimateAux e σ r perSlot fuel cur rem = estimateAux e σ r perSlot (fuel + 1) cur rem := by
  induction fuel generalizing cur rem with
  | zero => omega
  | succ f ih =>
    rw [estimateAux.eq_def e σ r perSlot (f + 1 + 1), estimateAux.eq_def e σ r perSlot (f + 1)]
    simp only []
    split
    · rename_i hc
      simp only [Bool.and_eq_true, decide_eq_true_eq] at hc
      exact ih (cur + 1) _ (by omega)
    · rfl

/-- `estimate` hands the loop `size + 2` units of fuel: ample from any cursor inside the scoreboard -/
theorem estimate_fuel_ample (e : Env) (cur : Int) (h : 0 ≤ cur) : (e.size - cur).toNat < e.size.toNat + 2 := by omega

end SP

namespace SP

/-! ### the ALAP marking (`_markTaskALAP`): a depth-first walk with a processed set -/

/-- cost of the tasks of `l` not yet processed: one step to pop each, plus the predecessors it will push -/
def restCost (e : Env) (processed : List Nat) : List Nat → Nat
  | [] => 0
  | t :: ts => (if processed.contains t then 0 else (e.taskD t).deps.length + 1) + restCost e processed ts

theorem restCost_add_not_mem (e : Env) (processed : List Nat) (x : Nat) (l : List Nat) (h : x ∉ l) :
    restCost e (x :: processed) l = restCost e processed l := by
  induction l with
  | nil => rfl
  | cons t ts ih =>
    have hne : t ≠ x := fun heq => h (heq ▸ List.mem_cons_self)
    have hts : x ∉ ts := fun hm => h (List.mem_cons_of_mem _ hm)
    simp only [restCost, List.contains_cons, ih hts]
    have : (t == x) = false := by simpa using hne
    simp [this]

theorem restCost_add_mem (e : Env) (processed : List Nat) (x : Nat) (l : List Nat) (hnd : l.Nodup) (h : x ∈ l)
    (hp : processed.contains x = false) :
    restCost e (x :: processed) l + ((e.taskD x).deps.length + 1) = restCost e processed l := by
  induction l with
  | nil => cases h
  | cons t ts ih =>
    have hnd' := List.nodup_cons.mp hnd
    rcases List.mem_cons.mp h with heq | hm
    · subst heq
      simp only [restCost, List.contains_cons, beq_self_eq_true, Bool.true_or, if_true, hp, Bool.false_eq_true, if_false]
      rw [restCost_add_not_mem e processed x ts hnd'.1]
      omega
    · have hne : t ≠ x := fun heq => hnd'.1 (heq ▸ hm)
      have : (t == x) = false := by simpa using hne
      simp only [restCost, List.contains_cons, this, Bool.false_or]
      have := ih hnd'.2 hm
      omega

theorem restCost_add_le (e : Env) (processed : List Nat) (x : Nat) (l : List Nat) :
    restCost e (x :: processed) l ≤ restCost e processed l := by
  induction l with
  | nil => exact Nat.le_refl _
  | cons t ts ih =>
    simp only [restCost, List.contains_cons]
    by_cases h1 : (t == x) = true
    · simp only [h1, Bool.true_or, if_true]; omega
    · simp only [h1, Bool.false_or]; omega

/-- the measure that every step of `markAlap` decreases -/
def alapMeasure (e : Env) (stack processed : List Nat) : Nat :=
  stack.length + restCost e processed (List.range e.tasks.size)

/-- **the fuel of the ALAP marking is never what stops it** once it exceeds the measure -/
theorem markAlap_fuel_enough (e : Env) (fuel : Nat) (stack processed : List Nat) (σ : St)
    (h : alapMeasure e stack processed < fuel) :
    markAlap e fuel stack processed σ = markAlap e (fuel + 1) stack processed σ := by
  induction fuel generalizing stack processed σ with
  | zero => omega
  | succ f ih =>
    cases stack with
    | nil => rw [markAlap.eq_def e (f + 1 + 1), markAlap.eq_def e (f + 1)]
    | cons t rest =>
      rw [markAlap.eq_def e (f + 1 + 1), markAlap.eq_def e (f + 1)]
      simp only []
      unfold alapMeasure at h
      simp only [List.length_cons] at h
      by_cases hc : processed.contains t = true
      · simp only [hc, if_true]
        exact ih rest processed σ (by unfold alapMeasure; omega)
      · have hc' : processed.contains t = false := by simpa using hc
        simp only [hc', Bool.false_eq_true, if_false]
        have hle := restCost_add_le e processed t (List.range e.tasks.size)
        split
        · exact ih rest (t :: processed) σ (by unfold alapMeasure; omega)
        · rename_i hleaf
          split
          · exact ih rest (t :: processed) σ (by unfold alapMeasure; omega)
          · -- the predecessors are pushed: the task must be in range, and its cost is taken off
            apply ih
            unfold alapMeasure
            simp only [List.length_append, List.length_map]
            by_cases hin : t < e.tasks.size
            · have := restCost_add_mem e processed t (List.range e.tasks.size) List.nodup_range (List.mem_range.mpr hin) hc'
              omega
            · have hd : e.taskD t = {} := by
                unfold Env.taskD
                simp [Array.getD_eq_getD_getElem?, Array.getElem?_eq_none (by omega : e.tasks.size ≤ t)]
              rw [hd]
              simp only [List.length_nil, Nat.zero_add]
              omega

end SP

namespace SP

/-- no task lists more predecessors than there are tasks (true of every project without repeated edges) -/
def DepsBounded (e : Env) : Prop := ∀ t, (e.taskD t).deps.length ≤ e.tasks.size

theorem restCost_le (e : Env) (hb : DepsBounded e) (processed : List Nat) (l : List Nat) :
    restCost e processed l ≤ l.length * (e.tasks.size + 1) := by
  induction l with
  | nil => simp [restCost]
  | cons t ts ih =>
    simp only [restCost, List.length_cons]
    have := hb t
    have h2 : (ts.length + 1) * (e.tasks.size + 1) = ts.length * (e.tasks.size + 1) + (e.tasks.size + 1) := by
      rw [Nat.add_mul]; omega
    split <;> omega

theorem restCost_le_mem (e : Env) (hb : DepsBounded e) (processed : List Nat) (a : Nat) (l : List Nat)
    (ha : a ∈ l) (hp : processed.contains a = true) :
    restCost e processed l + (e.tasks.size + 1) ≤ l.length * (e.tasks.size + 1) := by
  induction l with
  | nil => cases ha
  | cons t ts ih =>
    simp only [restCost, List.length_cons]
    have h2 : (ts.length + 1) * (e.tasks.size + 1) = ts.length * (e.tasks.size + 1) + (e.tasks.size + 1) := by
      rw [Nat.add_mul]; omega
    rcases List.mem_cons.mp ha with heq | hm
    · subst heq
      simp only [hp, if_true]
      have := restCost_le e hb processed ts
      omega
    · have := ih hm
      have := hb t
      split <;> omega

/-- **the fuel `propagateAlap` hands to the marking of one anchor (`n² + n + 1`) exceeds the measure**, for every anchor `a`
    among the tasks, whatever was processed before -/
theorem markAlap_fuel_ample (e : Env) (hb : DepsBounded e) (a : Nat) (ha : a < e.tasks.size) (processed : List Nat)
    (hp : processed.contains a = true) (preds : List Nat) (hpl : preds.length ≤ (e.taskD a).deps.length) :
    alapMeasure e preds processed < e.tasks.size * e.tasks.size + e.tasks.size + 1 := by
  unfold alapMeasure
  have h1 := restCost_le_mem e hb processed a (List.range e.tasks.size) (List.mem_range.mpr ha) hp
  rw [List.length_range] at h1
  have h2 := hb a
  have h3 : e.tasks.size * (e.tasks.size + 1) = e.tasks.size * e.tasks.size + e.tasks.size := by
    rw [Nat.mul_add]; omega
  omega

end SP
