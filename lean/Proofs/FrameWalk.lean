import Proofs.DepStart
import Proofs.EffortGlobal
import Proofs.DepGlobal
import Proofs.Round
/-!
C06 along the forward walk of a single-resource task: the first slot the task books is the slot its start lies in,
the finishing slot is the slot its end lies in, and every booking lies between the two.
-/
namespace SP

/-- a booking attempt either leaves the slot without an entry of the task or records a positive amount -/
theorem bookResource_entry (e : Env) (σ : St) (t : Nat) (w : Walk) (r : Nat)
    (hnone : usageOf (σ.led.get r w.cur).usage t = none) :
    usageOf ((bookResource e σ t w r).1.led.get r w.cur).usage t = none ∨
    0 < taskSecs ((bookResource e σ t w r).1.led.get r w.cur) t := by
  rw [bookResource_books_iff]
  have hn' : usageOf ((reserveStep σ w r).led.get r w.cur).usage t = none := by rw [reserveStep_get]; exact hnone
  split
  · rename_i hc
    right
    unfold taskSecs
    rw [bookSlot_entry, usageOf_append_none _ _ _ hn']
    simp only [Option.getD_some]
    simp only [Bool.and_eq_true] at hc
    have hav := hc.1
    unfold available at hav
    simp only [Bool.and_eq_true, decide_eq_true_eq] at hav
    exact hav.1.1.2
  · left; exact hn'

theorem bookResources_single_entry (e : Env) (σ : St) (t : Nat) (w : Walk) (r : Nat)
    (ha : (e.taskD t).hasAlloc = true) (hsel : selectedOf e σ t w = [r])
    (hnone : usageOf (σ.led.get r w.cur).usage t = none) :
    usageOf ((bookResources e σ t w).1.led.get r w.cur).usage t = none ∨
    0 < taskSecs ((bookResources e σ t w).1.led.get r w.cur) t := by
  rw [bookResources_single e σ t w r ha hsel]
  simp only []
  have h := bookResource_entry e σ t { w with selected := some [r] } r hnone
  split
  · simp only [markStart_led]; exact h
  · exact h

end SP

namespace SP

/-- where the first booking of task `t` on `r` lies among the slots `vis`, and what start it was given -/
def Fst (e : Env) (σ : St) (t r : Nat) (done : Rat) (vis : List Int) : Prop :=
  (done = 0 → ∀ i ∈ vis, usageOf (σ.led.get r i).usage t = none) ∧
  (done ≠ 0 → ∃ fb, fb ∈ vis ∧ usageOf (σ.led.get r fb).usage t ≠ none ∧
      (∀ i ∈ vis, usageOf (σ.led.get r i).usage t ≠ none → fb ≤ i) ∧
      ∃ o : Rat, 0 ≤ o ∧ o ≤ (e.G : Rat) ∧ (σ.tst t).start = some (markDate e fb o))

/-- `Fst` only looks at which slots carry an entry and at the start -/
theorem Fst.transfer {e : Env} {σ σ' : St} {t r : Nat} {done : Rat} {vis : List Int}
    (hent : ∀ i ∈ vis, (usageOf (σ'.led.get r i).usage t = none ↔ usageOf (σ.led.get r i).usage t = none))
    (hst : (σ'.tst t).start = (σ.tst t).start) (h : Fst e σ t r done vis) : Fst e σ' t r done vis := by
  refine ⟨fun hd i hi => (hent i hi).mpr (h.1 hd i hi), fun hd => ?_⟩
  obtain ⟨fb, hfb, hne, hmin, o, ho0, ho1, hs⟩ := h.2 hd
  refine ⟨fb, hfb, fun hc => hne ((hent fb hfb).mp hc), fun i hi hni => hmin i hi (fun hc => hni ((hent i hi).mpr hc)),
    o, ho0, ho1, ?_⟩
  rw [hst]; exact hs

/-- invariant of the forward walk of a single-resource task -/
structure FInv (e : Env) (σ : St) (t r : Nat) (w : Walk) (vis : List Int) : Prop where
  acc : Acc e σ t r true w vis
  inb : t < σ.ts.size
  fwd : (σ.tst t).forward = true
  nonneg : 0 ≤ w.done
  fst : Fst e σ t r w.done vis

theorem taskSecs_nonneg (e : Env) (σ : St) (h : Inv e σ) (r : Nat) (i : Int) (t : Nat) :
    0 ≤ taskSecs (σ.led.get r i) t := by
  unfold taskSecs
  cases hu : usageOf (σ.led.get r i).usage t with
  | none => simp
  | some a => simpa using (h.slot r i).entries_nonneg _ (usageOf_mem hu)

/-- after the booking attempt of one slot: where the first booking lies now -/
theorem book_fst (e : Env) (wf : WF e) (σ : St) (t r : Nat) (w : Walk) (vis : List Int)
    (hinv : Inv e σ) (hlf : (e.taskD t).leaf = true) (hw : WalkOk e t w)
    (ha : (e.taskD t).hasAlloc = true) (hsel : selectedOf e σ t w = [r]) (hpos : 0 < (e.taskD t).effort)
    (h : FInv e σ t r w vis) :
    Fst e (bookResources e σ t w).1 t r (bookResources e σ t w).2.done (w.cur :: vis) ∧
    0 ≤ (bookResources e σ t w).2.done := by
  have hcur_notin : w.cur ∉ vis := by
    intro hin
    have := h.acc.before _ hin
    simp only [if_true] at this; omega
  have hnone := h.acc.only _ hcur_notin
  obtain ⟨hdone, hframe, _, _, _, _⟩ := bookResources_single_acc e wf σ t w r ha hsel hnone
  have hent := bookResources_single_entry e σ t w r ha hsel hnone
  obtain ⟨hs1, hs2⟩ := bookResources_start e σ t w h.inb h.fwd hpos
  have hb := bookResources_inv e σ t w wf hinv hlf hw
  have hsecs0 := taskSecs_nonneg e _ hb r w.cur t
  have heff := wf.eff_pos r
  have hgain0 : 0 ≤ taskSecs ((bookResources e σ t w).1.led.get r w.cur) t / 3600 * (e.resD r).eff :=
    Rat.mul_nonneg (rat_div_nonneg _ _ hsecs0 (by grind)) (by grind)
  have hvis : ∀ i ∈ vis, (bookResources e σ t w).1.led.get r i = σ.led.get r i := by
    intro i hi; apply hframe; intro hh; exact hcur_notin (hh.2 ▸ hi)
  have hnn := h.nonneg
  refine ⟨⟨?_, ?_⟩, by rw [hdone]; grind⟩
  · -- nothing credited so far: no entry anywhere
    intro hd0 i hi
    have hw0 : w.done = 0 := by rw [hdone] at hd0; grind
    have hg0 : taskSecs ((bookResources e σ t w).1.led.get r w.cur) t / 3600 * (e.resD r).eff = 0 := by
      rw [hdone] at hd0; grind
    rcases List.mem_cons.mp hi with hi | hi
    · subst hi
      rcases hent with hn | hp
      · exact hn
      · exfalso
        have : 0 < taskSecs ((bookResources e σ t w).1.led.get r w.cur) t / 3600 * (e.resD r).eff :=
          Rat.mul_pos (by
            have : (0 : Rat) < 3600 := by decide +kernel
            rw [Rat.div_def]; exact Rat.mul_pos hp (Rat.inv_pos.mpr this)) heff
        grind
    · rw [hvis i hi]; exact h.fst.1 hw0 i hi
  · intro hdne
    by_cases hw0 : w.done = 0
    · -- the first booking happens in this slot
      have hg : taskSecs ((bookResources e σ t w).1.led.get r w.cur) t ≠ 0 := by
        intro h0; rw [hdone, h0, hw0] at hdne; apply hdne; grind
      have hsome := taskSecs_ne_zero _ _ hg
      refine ⟨w.cur, List.mem_cons_self, by rw [hsome]; simp, ?_, ?_⟩
      · intro i hi hne
        rcases List.mem_cons.mp hi with hi | hi
        · omega
        · exfalso; apply hne; rw [hvis i hi]; exact h.fst.1 hw0 i hi
      · rcases hs2 hw0 with ⟨hd, _⟩ | hs
        · exact absurd hd hdne
        · exact ⟨w.offset, hw.off_nonneg, hw.off_le, hs⟩
    · obtain ⟨fb, hfb, hne, hmin, o, ho0, ho1, hst⟩ := h.fst.2 hw0
      refine ⟨fb, List.mem_cons_of_mem _ hfb, by rw [hvis fb hfb]; exact hne, ?_, o, ho0, ho1, by rw [hs1 hw0]; exact hst⟩
      intro i hi hni
      rcases List.mem_cons.mp hi with hi | hi
      · subst hi
        have := h.acc.before fb hfb
        simp only [if_true] at this; omega
      · apply hmin i hi; rw [← hvis i hi]; exact hni

end SP

namespace SP

/-- **framing**: the task's bookings on `r` lie between a first slot `fb` and a last slot `last`, both booked; the
    reported start lies in slot `fb`, the reported end in slot `last` -/
def Framed (e : Env) (σ : St) (t r : Nat) : Prop :=
  ∃ fb last : Int, fb ≤ last ∧
    usageOf (σ.led.get r fb).usage t ≠ none ∧ usageOf (σ.led.get r last).usage t ≠ none ∧
    (∀ i, usageOf (σ.led.get r i).usage t ≠ none → fb ≤ i ∧ i ≤ last) ∧
    (∃ v, (σ.tst t).start = some v ∧ e.time fb ≤ v ∧ v ≤ e.time (fb + 1)) ∧
    (∃ v, (σ.tst t).stop = some v ∧ e.time last ≤ v ∧ v ≤ e.time (last + 1))

theorem time_succ (e : Env) (i : Int) : e.time (i + 1) = e.time i + e.G := by
  unfold Env.time; rw [Int.add_mul]; omega

theorem markDate_in_slot (e : Env) (fb : Int) (off : Rat) (h0 : 0 ≤ off) (h1 : off ≤ (e.G : Rat)) :
    e.time fb ≤ markDate e fb off ∧ markDate e fb off ≤ e.time (fb + 1) := by
  unfold markDate
  rw [time_succ]
  split
  · have hfl : (0 : Int) ≤ off.floor := Rat.le_floor_iff.mpr (by simpa using h0)
    have hle : off.floor ≤ e.G := by
      have := Rat.floor_le off
      have h2 : ((off.floor : Int) : Rat) ≤ ((e.G : Int) : Rat) := by grind
      exact_mod_cast h2
    omega
  · have : 0 ≤ e.G := by
      have : (0 : Rat) ≤ (e.G : Rat) := by grind
      exact_mod_cast this
    omega

theorem finishTask_date (e : Env) (σ : St) (t : Nat) (w : Walk) (before : Rat) (r : Nat) (hlast : w.last = some r) :
    (finishTask e σ t w before true).2 =
      e.time w.cur + roundHalfEven ((match usageOf (σ.led.get r w.cur).usage t with
        | some b => (σ.led.get r w.cur).used - b
        | none => 0) + needSecs e σ t w before r) := by
  unfold finishTask
  simp only [hlast, if_true]
  rfl

end SP

namespace SP

theorem finishTask_date_some (e : Env) (σ : St) (t : Nat) (w : Walk) (before : Rat) (r : Nat) (a : Rat)
    (hlast : w.last = some r) (hu : usageOf (σ.led.get r w.cur).usage t = some a) :
    (finishTask e σ t w before true).2 =
      e.time w.cur + roundHalfEven ((σ.led.get r w.cur).used - a + needSecs e σ t w before r) := by
  rw [finishTask_date e σ t w before r hlast, hu]

/-- the task's reported dates are ordered -/
def Ordered (σ : St) (t : Nat) : Prop :=
  ∃ s v, (σ.tst t).start = some s ∧ (σ.tst t).stop = some v ∧ s ≤ v

theorem bookSlot_used (e : Env) (σ : St) (r : Nat) (i : Int) (t : Nat) :
    ((bookSlot e σ r i t).1.led.get r i).used = (σ.led.get r i).used + availSecs e.G (σ.led.get r i) := by
  rw [bookSlot_eq, incAll_led]
  simp [Ledger.get_set, Slot.book]

theorem reserve_used_ge (s : Slot) (c : Rat) : c ≤ (s.reserve c).used := by
  unfold Slot.reserve
  split
  · exact Rat.le_refl
  · rename_i h; exact Rat.not_lt.mp h

/-- the first booking of a task in the slot of its dependency bound leaves the part of the slot before the bound alone: what
    was used before the task's own seconds is at least the offset -/
theorem bookResource_usedBefore (e : Env) (σ : St) (t : Nat) (w : Walk) (r : Nat)
    (hnone : usageOf (σ.led.get r w.cur).usage t = none) (ho : w.offset > 0) (hd : w.done = 0)
    (hb : usageOf ((bookResource e σ t w r).1.led.get r w.cur).usage t ≠ none) :
    w.offset ≤ ((bookResource e σ t w r).1.led.get r w.cur).used - taskSecs ((bookResource e σ t w r).1.led.get r w.cur) t := by
  rw [bookResource_books_iff] at hb ⊢
  have hn' : usageOf ((reserveStep σ w r).led.get r w.cur).usage t = none := by rw [reserveStep_get]; exact hnone
  split at hb
  · rename_i hc
    simp only [hc, if_true]
    unfold taskSecs
    rw [bookSlot_entry, usageOf_append_none _ _ _ hn', bookSlot_used]
    simp only [Option.getD_some]
    have : w.offset ≤ ((reserveStep σ w r).led.get r w.cur).used := by
      unfold reserveStep
      have hcond : (decide (w.offset > 0) && w.done == 0) = true := by simp [ho, hd]
      simp only [hcond, if_true, Ledger.get_set, and_self]
      exact reserve_used_ge _ _
    grind
  · exact absurd hn' hb

theorem bookResources_single_usedBefore (e : Env) (σ : St) (t : Nat) (w : Walk) (r : Nat)
    (ha : (e.taskD t).hasAlloc = true) (hsel : selectedOf e σ t w = [r])
    (hnone : usageOf (σ.led.get r w.cur).usage t = none) (ho : w.offset > 0) (hd : w.done = 0)
    (hb : usageOf ((bookResources e σ t w).1.led.get r w.cur).usage t ≠ none) :
    w.offset ≤ ((bookResources e σ t w).1.led.get r w.cur).used - taskSecs ((bookResources e σ t w).1.led.get r w.cur) t := by
  rw [bookResources_single e σ t w r ha hsel] at hb ⊢
  simp only [] at hb ⊢
  have h := bookResource_usedBefore e σ t { w with selected := some [r] } r hnone ho hd
  split at hb
  · simp only [markStart_led] at hb ⊢
    rename_i hc
    simp only [hc, if_true, markStart_led]
    exact h hb
  · rename_i hc
    simp only [hc, if_false]
    exact h hb

theorem scheduleSlot_finv2 (e : Env) (wf : WF e) (σ : St) (t r : Nat) (w : Walk) (vis : List Int)
    (hinv : Inv e σ) (hlf : (e.taskD t).leaf = true) (hw : WalkOk e t w)
    (ha : (e.taskD t).hasAlloc = true) (hm : (e.taskD t).milestone = false)
    (hsel : selectedOf e σ t w = [r]) (hlt : w.done < (e.taskD t).effort) (hpos : 0 < (e.taskD t).effort)
    (h : FInv e σ t r w vis) :
    ((scheduleSlot e σ t w).2.2 = true →
        FInv e (scheduleSlot e σ t w).1 t r (advance true w (scheduleSlot e σ t w).2.1) (w.cur :: vis)) ∧
    ((scheduleSlot e σ t w).2.2 = false → Framed e (scheduleSlot e σ t w).1 t r ∧ Ordered (scheduleSlot e σ t w).1 t) := by
  have hsa := scheduleSlot_acc e wf σ t r true w vis hinv hlf hw ha hm hsel hlt hpos h.acc
  obtain ⟨hfst, hnn1⟩ := book_fst e wf σ t r w vis hinv hlf hw ha hsel hpos h
  have hcur_notin : w.cur ∉ vis := by
    intro hin
    have := h.acc.before _ hin
    simp only [if_true] at this; omega
  have hnone := h.acc.only _ hcur_notin
  obtain ⟨hdone, hframe, hselw, hcurw, hoffw, hlastw⟩ := bookResources_single_acc e wf σ t w r ha hsel hnone
  have hfr := bookResources_frame e σ t w
  have hb := bookResources_inv e σ t w wf hinv hlf hw
  have heff := wf.eff_pos r
  have hz : ((e.taskD t).effort == 0) = false := by
    simp only [beq_eq_false_iff_ne, ne_eq]; grind
  constructor
  · intro hc
    obtain ⟨hacc', _, _⟩ := hsa.1 hc
    -- the continuing branch returns the state and walk of `bookResources`
    have hst : (scheduleSlot e σ t w).1 = (bookResources e σ t w).1 ∧ (scheduleSlot e σ t w).2.1 = (bookResources e σ t w).2 := by
      unfold scheduleSlot at hc ⊢
      simp only [hm, hz, Bool.or_self, Bool.false_eq_true, if_false] at hc ⊢
      by_cases hfin : (bookResources e σ t w).2.done ≥ (e.taskD t).effort
      · simp only [hfin, if_true] at hc; exact Bool.noConfusion hc
      · simp only [hfin, if_false]; first | exact ⟨rfl, rfl⟩ | exact ⟨trivial, trivial⟩ | simp
    refine ⟨hacc', ?_, ?_, ?_, ?_⟩
    · rw [hst.1, hfr.2.2.2.2]; exact h.inb
    · rw [hst.1, hfr.2.2.2.1]; exact h.fwd
    · show 0 ≤ (scheduleSlot e σ t w).2.1.done
      rw [hst.2]; exact hnn1
    · show Fst e (scheduleSlot e σ t w).1 t r (scheduleSlot e σ t w).2.1.done (w.cur :: vis)
      rw [hst.1, hst.2]; exact hfst
  · intro hc
    have hex := hsa.2 hc
    -- the finishing branch
    have hfin : (bookResources e σ t w).2.done ≥ (e.taskD t).effort := by
      unfold scheduleSlot at hc
      simp only [hm, hz, Bool.or_self, Bool.false_eq_true, if_false] at hc
      by_cases hfin : (bookResources e σ t w).2.done ≥ (e.taskD t).effort
      · exact hfin
      · simp only [hfin, if_false] at hc; exact Bool.noConfusion hc
    have hgain : taskSecs ((bookResources e σ t w).1.led.get r w.cur) t ≠ 0 := by
      intro h0; rw [h0] at hdone; grind
    have hu := taskSecs_ne_zero _ _ hgain
    have haG := entry_le_G e _ hb r w.cur t _ hu
    have hlast : (bookResources e σ t w).2.last = some r := hlastw (by grind)
    have hge : (e.taskD t).effort ≤ w.done + taskSecs ((bookResources e σ t w).1.led.get r w.cur) t / 3600 * (e.resD r).eff := by
      rw [← hdone]; exact hfin
    have hfs := finishTask_secs e wf (bookResources e σ t w).1 t (bookResources e σ t w).2 w.done true r _
      hlast hselw (by rw [hcurw]; exact hu) haG hlt hge
    rw [hcurw] at hfs
    obtain ⟨hkeep, hfr2⟩ := hfs
    have fe := finish_exact (e.taskD t).effort w.done _ (e.resD r).eff heff hlt hge
    simp only [] at fe
    have hneed := needSecs_eq e (bookResources e σ t w).1 t (bookResources e σ t w).2 w.done r _ heff hlt hge haG
      (by rw [hcurw]; exact hu)
    -- shape of the final state
    have hshape : (scheduleSlot e σ t w).1.led = (finishTask e (bookResources e σ t w).1 t (bookResources e σ t w).2 w.done true).1.led ∧
        ((scheduleSlot e σ t w).1.tst t).start = ((bookResources e σ t w).1.tst t).start ∧
        ((scheduleSlot e σ t w).1.tst t).stop = some (finishTask e (bookResources e σ t w).1 t (bookResources e σ t w).2 w.done true).2 := by
      unfold scheduleSlot
      simp only [hm, hz, Bool.or_self, Bool.false_eq_true, if_false, hfin, if_true, h.fwd]
      have hsz : t < (finishTask e (bookResources e σ t w).1 t (bookResources e σ t w).2 w.done true).1.ts.size := by
        rw [finishTask_ts, hfr.2.2.2.2]; exact h.inb
      refine ⟨rfl, ?_, ?_⟩
      · show ((St.setT (finishTask e (bookResources e σ t w).1 t (bookResources e σ t w).2 w.done true).1 t _).tst t).start = _
        rw [tst_setT_same _ _ _ hsz]
        show ((finishTask e (bookResources e σ t w).1 t (bookResources e σ t w).2 w.done true).1.tst t).start = _
        unfold St.tst; rw [finishTask_ts]
      · show ((St.setT (finishTask e (bookResources e σ t w).1 t (bookResources e σ t w).2 w.done true).1 t _).tst t).stop = _
        rw [tst_setT_same _ _ _ hsz]
    obtain ⟨hled, hstart, hstop⟩ := hshape
    -- entries of the final state vs the state after booking: same slots carry an entry
    have hent : ∀ i, (usageOf ((scheduleSlot e σ t w).1.led.get r i).usage t = none ↔
        usageOf ((bookResources e σ t w).1.led.get r i).usage t = none) := by
      intro i
      rw [hled]
      by_cases hi : i = w.cur
      · subst hi; rw [hkeep, hu]; simp
      · rw [hfr2 r i (by intro hh; exact hi hh.2.symm)]
    have hne1 : (bookResources e σ t w).2.done ≠ 0 := by grind
    have hfst' : Fst e (scheduleSlot e σ t w).1 t r (bookResources e σ t w).2.done (w.cur :: vis) :=
      Fst.transfer (fun i _ => hent i) hstart hfst
    obtain ⟨fb, hfb, hfbne, hmin, o, ho0, ho1, hst⟩ := hfst'.2 hne1
    have hfb_le : fb ≤ w.cur := by
      rcases List.mem_cons.mp hfb with hh | hh
      · omega
      · have := h.acc.before fb hh; simp only [if_true] at this; omega
    -- the end date: `time cur + round(X)` with `0 ≤ X ≤ G`
    have hs := hb.slot r w.cur
    have hle_sum := mem_le_usageSum _ hs.entries_nonneg _ (usageOf_mem hu)
    have h1s := hs.sum_le
    have h2s := hs.used_le
    simp only [] at hle_sum
    have hx0 : 0 ≤ ((bookResources e σ t w).1.led.get r w.cur).used - taskSecs ((bookResources e σ t w).1.led.get r w.cur) t +
        ((e.taskD t).effort - w.done) / ((e.resD r).eff / 3600) := by grind
    have hx1 : ((bookResources e σ t w).1.led.get r w.cur).used - taskSecs ((bookResources e σ t w).1.led.get r w.cur) t +
        ((e.taskD t).effort - w.done) / ((e.resD r).eff / 3600) ≤ (e.G : Rat) := by grind
    have hb1 := roundHalfEven_nonneg _ hx0
    have hb2 := roundHalfEven_mono_int _ e.G hx1
    have hdate : (finishTask e (bookResources e σ t w).1 t (bookResources e σ t w).2 w.done true).2 =
        e.time w.cur + roundHalfEven (((bookResources e σ t w).1.led.get r w.cur).used -
          taskSecs ((bookResources e σ t w).1.led.get r w.cur) t + ((e.taskD t).effort - w.done) / ((e.resD r).eff / 3600)) := by
      rw [finishTask_date_some e _ t _ w.done r _ hlast (by rw [hcurw]; exact hu), hcurw, hneed]
    refine ⟨⟨fb, w.cur, hfb_le, hfbne, ?_, ?_, ?_, ?_⟩, ?_⟩
    · intro hc2; have hc3 := (hent w.cur).mp hc2; rw [hu] at hc3; cases hc3
    · intro i hi
      have hin : i ∈ w.cur :: vis := by
        by_cases hmem : i ∈ w.cur :: vis
        · exact hmem
        · exact absurd (hex.2.1 i hmem) hi
      refine ⟨hmin i hin hi, ?_⟩
      rcases List.mem_cons.mp hin with hh | hh
      · omega
      · have := h.acc.before i hh; simp only [if_true] at this; omega
    · exact ⟨_, hst, markDate_in_slot e fb o ho0 ho1⟩
    · refine ⟨_, hstop, ?_⟩
      rw [hdate, time_succ]
      omega
    · -- start ≤ end
      refine ⟨_, _, hst, hstop, ?_⟩
      rw [hdate]
      by_cases hlt2 : fb < w.cur
      · -- the first booking lies in an earlier slot
        have h3 := (markDate_in_slot e fb o ho0 ho1).2
        have h4 : e.time (fb + 1) ≤ e.time w.cur := time_mono e wf _ _ (by omega)
        omega
      · -- the task begins and finishes in this slot
        have hfc : fb = w.cur := by omega
        have hw0 : w.done = 0 := by
          apply Classical.byContradiction
          intro hne0
          obtain ⟨fb0, hfb0, hne0', _, _⟩ := h.fst.2 hne0
          have hb0 := h.acc.before fb0 hfb0
          simp only [if_true] at hb0
          have := hmin fb0 (List.mem_cons_of_mem _ hfb0) (by
            intro hcx
            apply hne0'
            have hvis0 : (bookResources e σ t w).1.led.get r fb0 = σ.led.get r fb0 := by
              apply hframe; intro hh; exact hcur_notin (hh.2 ▸ hfb0)
            rw [← hvis0]; exact (hent fb0).mp hcx)
          omega
        obtain ⟨hs1, hs2⟩ := bookResources_start e σ t w h.inb h.fwd hpos
        have hstart2 : ((bookResources e σ t w).1.tst t).start = some (markDate e w.cur w.offset) := by
          rcases hs2 hw0 with ⟨hd0, _⟩ | hs3
          · exact absurd hd0 hne1
          · exact hs3
        rw [hstart] at hst
        rw [hstart2] at hst
        have hmd : markDate e fb o = markDate e w.cur w.offset := by
          have := hst; simp only [Option.some.injEq] at this; exact this.symm
        rw [hmd]
        unfold markDate
        by_cases hopos : w.offset > 0
        · simp only [hopos, if_true]
          have hub := bookResources_single_usedBefore e σ t w r ha hsel hnone hopos hw0 (by rw [hu]; simp)
          have hneedpos : 0 ≤ ((e.taskD t).effort - w.done) / ((e.resD r).eff / 3600) := by
            rw [← hneed]
            have := fe.1
            grind
          have hfl : w.offset.floor ≤ (((bookResources e σ t w).1.led.get r w.cur).used -
              taskSecs ((bookResources e σ t w).1.led.get r w.cur) t + ((e.taskD t).effort - w.done) / ((e.resD r).eff / 3600)).floor :=
            Rat.floor_monotone (by grind)
          have := (roundHalfEven_bounds (((bookResources e σ t w).1.led.get r w.cur).used -
              taskSecs ((bookResources e σ t w).1.led.get r w.cur) t + ((e.taskD t).effort - w.done) / ((e.resD r).eff / 3600))).1
          omega
        · simp only [hopos, if_false]
          omega

theorem scheduleSlot_finv (e : Env) (wf : WF e) (σ : St) (t r : Nat) (w : Walk) (vis : List Int)
    (hinv : Inv e σ) (hlf : (e.taskD t).leaf = true) (hw : WalkOk e t w)
    (ha : (e.taskD t).hasAlloc = true) (hm : (e.taskD t).milestone = false)
    (hsel : selectedOf e σ t w = [r]) (hlt : w.done < (e.taskD t).effort) (hpos : 0 < (e.taskD t).effort)
    (h : FInv e σ t r w vis) :
    ((scheduleSlot e σ t w).2.2 = true →
        FInv e (scheduleSlot e σ t w).1 t r (advance true w (scheduleSlot e σ t w).2.1) (w.cur :: vis)) ∧
    ((scheduleSlot e σ t w).2.2 = false → Framed e (scheduleSlot e σ t w).1 t r) :=
  ⟨(scheduleSlot_finv2 e wf σ t r w vis hinv hlf hw ha hm hsel hlt hpos h).1,
   fun hc => ((scheduleSlot_finv2 e wf σ t r w vis hinv hlf hw ha hm hsel hlt hpos h).2 hc).1⟩

end SP

namespace SP

theorem walkLoop_framed2 (e : Env) (wf : WF e) (t r : Nat) (fuel : Nat) (σ : St) (w : Walk) (vis : List Int)
    (hinv : Inv e σ) (hlf : (e.taskD t).leaf = true) (hw : WalkOk e t w)
    (ha : (e.taskD t).hasAlloc = true) (hm : (e.taskD t).milestone = false)
    (hsel : selectedOf e σ t w = [r]) (hlt : w.done < (e.taskD t).effort) (hpos : 0 < (e.taskD t).effort)
    (h : FInv e σ t r w vis) (hok : (walkLoop e t true fuel σ w).2.2 = true) :
    Framed e (walkLoop e t true fuel σ w).1 t r ∧ Ordered (walkLoop e t true fuel σ w).1 t := by
  induction fuel generalizing σ w vis with
  | zero => simp [walkLoop] at hok
  | succ f ih =>
    have hs := scheduleSlot_inv e σ t w wf hinv hlf hw
    have hsa := scheduleSlot_acc e wf σ t r true w vis hinv hlf hw ha hm hsel hlt hpos h.acc
    have hsf := scheduleSlot_finv2 e wf σ t r w vis hinv hlf hw ha hm hsel hlt hpos h
    unfold walkLoop at hok ⊢
    simp only [] at hok ⊢
    by_cases hc : (scheduleSlot e σ t w).2.2 = true
    · simp only [hc, Bool.not_true, Bool.false_eq_true, if_false] at hok ⊢
      obtain ⟨_, hsel', hlt'⟩ := hsa.1 hc
      have hw1 := hs.2 hc
      by_cases hout : ((advance true w (scheduleSlot e σ t w).2.1).cur < 0 || (advance true w (scheduleSlot e σ t w).2.1).cur > e.upper) = true
      · simp only [hout, if_true] at hok
        exact Bool.noConfusion hok
      · simp only [hout, Bool.false_eq_true, if_false] at hok ⊢
        exact ih _ _ _ hs.1 (walkOk_advance e t wf _ _ _ hw1)
          (selectedOf_some e _ t _ [r] hsel') hlt' (hsf.1 hc) hok
    · have hc' : (scheduleSlot e σ t w).2.2 = false := by simpa using hc
      simp only [hc', Bool.not_false, if_true] at hok ⊢
      exact hsf.2 hc'

theorem walkLoop_framed (e : Env) (wf : WF e) (t r : Nat) (fuel : Nat) (σ : St) (w : Walk) (vis : List Int)
    (hinv : Inv e σ) (hlf : (e.taskD t).leaf = true) (hw : WalkOk e t w)
    (ha : (e.taskD t).hasAlloc = true) (hm : (e.taskD t).milestone = false)
    (hsel : selectedOf e σ t w = [r]) (hlt : w.done < (e.taskD t).effort) (hpos : 0 < (e.taskD t).effort)
    (h : FInv e σ t r w vis) (hok : (walkLoop e t true fuel σ w).2.2 = true) :
    Framed e (walkLoop e t true fuel σ w).1 t r := by
  induction fuel generalizing σ w vis with
  | zero => simp [walkLoop] at hok
  | succ f ih =>
    have hs := scheduleSlot_inv e σ t w wf hinv hlf hw
    have hsa := scheduleSlot_acc e wf σ t r true w vis hinv hlf hw ha hm hsel hlt hpos h.acc
    have hsf := scheduleSlot_finv e wf σ t r w vis hinv hlf hw ha hm hsel hlt hpos h
    unfold walkLoop at hok ⊢
    simp only [] at hok ⊢
    by_cases hc : (scheduleSlot e σ t w).2.2 = true
    · simp only [hc, Bool.not_true, Bool.false_eq_true, if_false] at hok ⊢
      obtain ⟨_, hsel', hlt'⟩ := hsa.1 hc
      have hw1 := hs.2 hc
      by_cases hout : ((advance true w (scheduleSlot e σ t w).2.1).cur < 0 || (advance true w (scheduleSlot e σ t w).2.1).cur > e.upper) = true
      · simp only [hout, if_true] at hok
        exact Bool.noConfusion hok
      · simp only [hout, Bool.false_eq_true, if_false] at hok ⊢
        exact ih _ _ _ hs.1 (walkOk_advance e t wf _ _ _ hw1)
          (selectedOf_some e _ t _ [r] hsel') hlt' (hsf.1 hc) hok
    · have hc' : (scheduleSlot e σ t w).2.2 = false := by simpa using hc
      simp only [hc', Bool.not_false, if_true] at hok ⊢
      exact hsf.2 hc'

theorem Framed.of_eq {e : Env} {σ σ' : St} {t r : Nat} (hl : σ'.led = σ.led)
    (hs : (σ'.tst t).start = (σ.tst t).start) (hp : (σ'.tst t).stop = (σ.tst t).stop)
    (h : Framed e σ t r) : Framed e σ' t r := by
  unfold Framed at *
  rw [hl, hs, hp]; exact h

theorem Framed.of_same {e : Env} {σ σ' : St} {t r : Nat} (hse : SameEntries σ σ' t) (ht : σ'.tst t = σ.tst t)
    (h : Framed e σ t r) : Framed e σ' t r := by
  unfold Framed at *
  obtain ⟨fb, last, h1, h2, h3, h4, h5, h6⟩ := h
  refine ⟨fb, last, h1, by rw [hse r fb]; exact h2, by rw [hse r last]; exact h3,
    fun i hi => h4 i (by rw [← hse r i]; exact hi), by rw [ht]; exact h5, by rw [ht]; exact h6⟩

/-- **one forward task, framing**: a successful `scheduleTask` of a forward effort task with the single resource `r`,
    started with nothing of the task on `r`, leaves it framed -/
theorem scheduleTask_framed_sel2 (e : Env) (wf : WF e) (σ : St) (t r : Nat)
    (hinv : Inv e σ) (hlf : (e.taskD t).leaf = true) (hal : (e.taskD t).hasAlloc = true)
    (hnm : (e.taskD t).milestone = false) (hpos : 0 < (e.taskD t).effort)
    (hsel0 : selectBest e (σ.setT t (σ.tst t)) (e.taskD t).alloc (e.taskD t).alt (e.taskD t).effort (initCursor e σ t).1 = [r])
    (hb : t < σ.ts.size) (hf : (σ.tst t).forward = true)
    (hnd : (σ.tst t).done = false) (hclean : ∀ i, usageOf (σ.led.get r i).usage t = none)
    (hok : (scheduleTask e σ t).2 = true) : Framed e (scheduleTask e σ t).1 t r ∧ Ordered (scheduleTask e σ t).1 t := by
  have hz : ((e.taskD t).effort == 0) = false := by
    simp only [beq_eq_false_iff_ne, ne_eq]; grind
  have hpc : preStartCursor e σ t (initCursor e σ t).1 = (initCursor e σ t).1 := by
    unfold preStartCursor; simp [hal]
  have hpt : preStartT e σ t (initCursor e σ t).1 = σ.tst t := by
    unfold preStartT; simp [hal]
  have hoff := initCursor_off e σ t wf
  unfold scheduleTask at hok ⊢
  simp only [hnd, Bool.false_eq_true, if_false, hpc, hpt, hf] at hok ⊢
  have h0 : Inv e (σ.setT t (σ.tst t)) := inv_setT _ _ hinv
  by_cases hout : ((initCursor e σ t).1 < 0 || (initCursor e σ t).1 > e.upper) = true
  · simp only [hout, if_true] at hok
    exact Bool.noConfusion hok
  · simp only [hout, Bool.false_eq_true, if_false] at hok ⊢
    have hw : WalkOk e t { cur := (initCursor e σ t).1, offset := (initCursor e σ t).2 } :=
      ⟨hoff.1, hoff.2, wf.effort_nonneg t⟩
    have hfi : FInv e (σ.setT t (σ.tst t)) t r { cur := (initCursor e σ t).1, offset := (initCursor e σ t).2 } [] := by
      refine ⟨⟨fun i _ => hclean i, fun i hi => absurd hi List.not_mem_nil,
          by show (0 : Rat) = sumOver _ r t [] / 3600 * (e.resD r).eff; simp only [sumOver]; grind, List.nodup_nil⟩,
        by rw [size_setT]; exact hb, by rw [tst_setT_same _ _ _ hb]; exact hf, Rat.le_refl,
        ⟨fun _ i hi => absurd hi List.not_mem_nil, fun hne => absurd rfl hne⟩⟩
    have hs0 : selectedOf e (σ.setT t (σ.tst t)) t { cur := (initCursor e σ t).1, offset := (initCursor e σ t).2 } = [r] := by
      unfold selectedOf; exact hsel0
    by_cases hfin : (walkLoop e t true (e.size.toNat + 3) (σ.setT t (σ.tst t))
        { cur := (initCursor e σ t).1, offset := (initCursor e σ t).2 }).2.2 = true
    · simp only [hfin, Bool.not_true, Bool.false_eq_true, if_false] at hok ⊢
      obtain ⟨hfr, ⟨s0, v0, hs0', hv0', hle0⟩⟩ := walkLoop_framed2 e wf t r _ _ _ [] h0 hlf hw hal hnm hs0 hpos hpos hfi hfin
      have hsz : t < (walkLoop e t true (e.size.toNat + 3) (σ.setT t (σ.tst t))
          { cur := (initCursor e σ t).1, offset := (initCursor e σ t).2 }).1.ts.size := by
        rw [(walkLoop_frame e t true _ _ _).2.2.2.2, size_setT]; exact hb
      obtain ⟨fb, last, h1, h2, h3, h4, ⟨v, hv, hv1, hv2⟩, ⟨u, hu, hu1, hu2⟩⟩ := hfr
      refine ⟨⟨fb, last, h1, h2, h3, h4, ⟨v, ?_, hv1, hv2⟩, ⟨u, ?_, hu1, hu2⟩⟩, ⟨s0, v0, ?_, ?_, hle0⟩⟩
      · rw [tst_setT_same _ _ _ hsz]
        unfold finalT
        simp only [if_true, hv, Option.isNone_some, Bool.false_eq_true, if_false]
      · rw [tst_setT_same _ _ _ hsz]
        unfold finalT
        simp only [if_true, hv, Option.isNone_some, Bool.false_eq_true, if_false]
        exact hu
      · rw [tst_setT_same _ _ _ hsz]
        unfold finalT
        simp only [if_true, hs0', Option.isNone_some, Bool.false_eq_true, if_false]
      · rw [tst_setT_same _ _ _ hsz]
        unfold finalT
        simp only [if_true, hs0', Option.isNone_some, Bool.false_eq_true, if_false]
        exact hv0'
    · have hfin' : (walkLoop e t true (e.size.toNat + 3) (σ.setT t (σ.tst t))
        { cur := (initCursor e σ t).1, offset := (initCursor e σ t).2 }).2.2 = false := by simpa using hfin
      simp only [hfin', Bool.not_false, if_true] at hok
      exact Bool.noConfusion hok

theorem scheduleTask_framed_sel (e : Env) (wf : WF e) (σ : St) (t r : Nat)
    (hinv : Inv e σ) (hlf : (e.taskD t).leaf = true) (hal : (e.taskD t).hasAlloc = true)
    (hnm : (e.taskD t).milestone = false) (hpos : 0 < (e.taskD t).effort)
    (hsel0 : selectBest e (σ.setT t (σ.tst t)) (e.taskD t).alloc (e.taskD t).alt (e.taskD t).effort (initCursor e σ t).1 = [r])
    (hb : t < σ.ts.size) (hf : (σ.tst t).forward = true)
    (hnd : (σ.tst t).done = false) (hclean : ∀ i, usageOf (σ.led.get r i).usage t = none)
    (hok : (scheduleTask e σ t).2 = true) : Framed e (scheduleTask e σ t).1 t r := by
  have hz : ((e.taskD t).effort == 0) = false := by
    simp only [beq_eq_false_iff_ne, ne_eq]; grind
  have hpc : preStartCursor e σ t (initCursor e σ t).1 = (initCursor e σ t).1 := by
    unfold preStartCursor; simp [hal]
  have hpt : preStartT e σ t (initCursor e σ t).1 = σ.tst t := by
    unfold preStartT; simp [hal]
  have hoff := initCursor_off e σ t wf
  unfold scheduleTask at hok ⊢
  simp only [hnd, Bool.false_eq_true, if_false, hpc, hpt, hf] at hok ⊢
  have h0 : Inv e (σ.setT t (σ.tst t)) := inv_setT _ _ hinv
  by_cases hout : ((initCursor e σ t).1 < 0 || (initCursor e σ t).1 > e.upper) = true
  · simp only [hout, if_true] at hok
    exact Bool.noConfusion hok
  · simp only [hout, Bool.false_eq_true, if_false] at hok ⊢
    have hw : WalkOk e t { cur := (initCursor e σ t).1, offset := (initCursor e σ t).2 } :=
      ⟨hoff.1, hoff.2, wf.effort_nonneg t⟩
    have hfi : FInv e (σ.setT t (σ.tst t)) t r { cur := (initCursor e σ t).1, offset := (initCursor e σ t).2 } [] := by
      refine ⟨⟨fun i _ => hclean i, fun i hi => absurd hi List.not_mem_nil,
          by show (0 : Rat) = sumOver _ r t [] / 3600 * (e.resD r).eff; simp only [sumOver]; grind, List.nodup_nil⟩,
        by rw [size_setT]; exact hb, by rw [tst_setT_same _ _ _ hb]; exact hf, Rat.le_refl,
        ⟨fun _ i hi => absurd hi List.not_mem_nil, fun hne => absurd rfl hne⟩⟩
    have hs0 : selectedOf e (σ.setT t (σ.tst t)) t { cur := (initCursor e σ t).1, offset := (initCursor e σ t).2 } = [r] := by
      unfold selectedOf; exact hsel0
    by_cases hfin : (walkLoop e t true (e.size.toNat + 3) (σ.setT t (σ.tst t))
        { cur := (initCursor e σ t).1, offset := (initCursor e σ t).2 }).2.2 = true
    · simp only [hfin, Bool.not_true, Bool.false_eq_true, if_false] at hok ⊢
      have hfr := walkLoop_framed e wf t r _ _ _ [] h0 hlf hw hal hnm hs0 hpos hpos hfi hfin
      have hsz : t < (walkLoop e t true (e.size.toNat + 3) (σ.setT t (σ.tst t))
          { cur := (initCursor e σ t).1, offset := (initCursor e σ t).2 }).1.ts.size := by
        rw [(walkLoop_frame e t true _ _ _).2.2.2.2, size_setT]; exact hb
      obtain ⟨fb, last, h1, h2, h3, h4, ⟨v, hv, hv1, hv2⟩, ⟨u, hu, hu1, hu2⟩⟩ := hfr
      refine ⟨fb, last, h1, h2, h3, h4, ⟨v, ?_, hv1, hv2⟩, ⟨u, ?_, hu1, hu2⟩⟩
      · rw [tst_setT_same _ _ _ hsz]
        unfold finalT
        simp only [if_true, hv, Option.isNone_some, Bool.false_eq_true, if_false]
      · rw [tst_setT_same _ _ _ hsz]
        unfold finalT
        simp only [if_true, hv, Option.isNone_some, Bool.false_eq_true, if_false]
        exact hu
    · have hfin' : (walkLoop e t true (e.size.toNat + 3) (σ.setT t (σ.tst t))
        { cur := (initCursor e σ t).1, offset := (initCursor e σ t).2 }).2.2 = false := by simpa using hfin
      simp only [hfin', Bool.not_false, if_true] at hok
      exact Bool.noConfusion hok

/-- **one forward task, framing**: a successful `scheduleTask` of a forward effort task with the single resource `r`,
    started with nothing of the task on `r`, leaves it framed -/
theorem scheduleTask_framed (e : Env) (wf : WF e) (σ : St) (t r : Nat)
    (hinv : Inv e σ) (hel : Elig e t r) (hb : t < σ.ts.size) (hf : (σ.tst t).forward = true)
    (hnd : (σ.tst t).done = false) (hclean : ∀ i, usageOf (σ.led.get r i).usage t = none)
    (hok : (scheduleTask e σ t).2 = true) : Framed e (scheduleTask e σ t).1 t r :=
  scheduleTask_framed_sel e wf σ t r hinv hel.leaf hel.alloc hel.nomile hel.effort (hel.sel _ _) hb hf hnd hclean hok

end SP

namespace SP

/-- every completed forward task with a single selected resource is framed -/
def DoneFramed (e : Env) (σ : St) : Prop :=
  ∀ t r, Elig e t r → (σ.tst t).done = true → (σ.tst t).forward = true → Framed e σ t r

structure FrInv (e : Env) (σ : St) (tasks : List Nat) : Prop where
  inv : Inv e σ
  nodup : tasks.Nodup
  leaf : ∀ t ∈ tasks, (e.taskD t).leaf = true
  inrange : ∀ t ∈ tasks, t < σ.ts.size
  pending : ∀ t ∈ tasks, (σ.tst t).done = false ∧ ∀ r i, usageOf (σ.led.get r i).usage t = none
  ok : DoneFramed e σ

theorem frInv_step (e : Env) (wf : WF e) (σ : St) (tasks : List Nat) (t0 : Nat) (h : FrInv e σ tasks)
    (hmem : t0 ∈ tasks) : FrInv e (updateContainers e (scheduleTask e σ t0).1) (tasks.erase t0) := by
  have hlf0 := h.leaf t0 hmem
  have hinv1 := scheduleTask_inv e σ t0 wf h.inv hlf0
  have hsame : ∀ x, (e.taskD x).leaf = true → x ≠ t0 →
      (updateContainers e (scheduleTask e σ t0).1).tst x = σ.tst x := by
    intro x hx hne
    rw [updateContainers_leaf e _ x hx, scheduleTask_other e σ t0 x hne]
  refine ⟨updateContainers_inv e _ hinv1, h.nodup.erase t0, fun t ht => h.leaf t (List.mem_of_mem_erase ht), ?_, ?_, ?_⟩
  · intro t ht
    rw [updateContainers_size, scheduleTask_size]; exact h.inrange t (List.mem_of_mem_erase ht)
  · intro t ht
    have htm : t ∈ tasks := List.mem_of_mem_erase ht
    have hne : t ≠ t0 := fun heq => by
      rw [heq] at ht; exact (List.Nodup.not_mem_erase h.nodup) ht
    obtain ⟨hd, hc⟩ := h.pending t htm
    refine ⟨by rw [hsame t (h.leaf t htm) hne]; exact hd, fun r i => ?_⟩
    rw [updateContainers_led, scheduleTask_same e σ t0 t (Ne.symm hne) r i]
    exact hc r i
  · intro t r hel hd hfw
    by_cases heq : t = t0
    · subst heq
      rw [updateContainers_leaf e _ t hel.leaf] at hd hfw
      rw [scheduleTask_self_forward] at hfw
      obtain ⟨hnd, hclean⟩ := h.pending t hmem
      have hok := scheduleTask_done e σ t hnd hd
      have hfr := scheduleTask_framed e wf σ t r h.inv hel (h.inrange t hmem) hfw hnd (hclean r) hok
      exact Framed.of_same (SameEntries.of_led (updateContainers_led e _)) (updateContainers_leaf e _ t hel.leaf) hfr
    · have hts := hsame t hel.leaf heq
      rw [hts] at hd hfw
      have hfr := h.ok t r hel hd hfw
      refine Framed.of_same ?_ hts hfr
      exact (scheduleTask_same e σ t0 t (Ne.symm heq)).trans (SameEntries.of_led (updateContainers_led e _))

theorem DoneFramed.of_eq {e : Env} {σ σ' : St} (hl : σ'.led = σ.led) (ht : σ'.ts = σ.ts) (h : DoneFramed e σ) :
    DoneFramed e σ' := by
  unfold DoneFramed Framed St.tst at *
  rw [hl, ht]; exact h

theorem pickLoop_doneFramed (e : Env) (wf : WF e) (fuel : Nat) (tasks failed : List Nat) (σ : St)
    (h : FrInv e σ tasks) : DoneFramed e (pickLoop e fuel tasks failed σ).1 := by
  induction fuel generalizing tasks failed σ with
  | zero => exact h.ok
  | succ f ih =>
    unfold pickLoop
    split
    · exact h.ok
    · split
      · rename_i t0 hfind
        exact ih _ _ _ (frInv_step e wf σ tasks t0 h (List.mem_of_find?_eq_some hfind))
      · split
        · exact DoneFramed.of_eq (σ := σ) rfl rfl h.ok
        · exact h.ok

/-- **C06, forward mode, end to end**: after scheduling any well-formed project, every completed forward effort task
    with a single selected resource `r` is framed: its bookings on `r` lie between a first and a last booked slot, the
    reported start lies in the first, the reported end in the last. -/
theorem runScenario_framed (e : Env) (wf : WF e) : DoneFramed e (runScenario e) := by
  unfold runScenario
  have hprep : Inv e (prepare e (initState e)) := prepare_inv e _ (inv_init e wf)
  have hd : DoneFalse (prepare e (initState e)) := prepare_doneFalse e _ (doneFalse_init e)
  have hsz : (prepare e (initState e)).ts.size = e.tasks.size := by rw [prepare_size, initState_size]
  have h2 : FrInv e (preLoop e (prepare e (initState e))) (todoOf e (preLoop e (prepare e (initState e)))) := by
    refine ⟨preLoop_inv e _ hprep, todoOf_nodup e _, todoOf_leaf e _, ?_, ?_, ?_⟩
    · intro t ht; rw [preLoop_size, hsz]; exact (todoOf_mem e _ t ht).1
    · intro t _
      refine ⟨preLoop_doneFalse e _ hd t, fun r i => ?_⟩
      rw [preLoop_led, prepare_led]; simp [initState, Ledger.get_empty, usageOf]
    · intro t r _ hdone
      rw [preLoop_doneFalse e _ hd t] at hdone
      exact Bool.noConfusion hdone
  have h3 := pickLoop_doneFramed e wf ((todoOf e (preLoop e (prepare e (initState e)))).length + 1)
    (todoOf e (preLoop e (prepare e (initState e)))) [] _ h2
  have h4 : DoneFramed e (scheduleScenario e (prepare e (initState e))) := by
    unfold scheduleScenario
    simp only []
    split
    · exact h3
    · exact DoneFramed.of_eq (σ := (pickLoop e ((todoOf e (preLoop e (prepare e (initState e)))).length + 1)
        (todoOf e (preLoop e (prepare e (initState e)))) [] (preLoop e (prepare e (initState e)))).1) rfl rfl h3
  intro t r hel hdn hfw
  rw [finishScenario_leafT e _ t hel.leaf] at hdn hfw
  exact Framed.of_same (SameEntries.of_led (finishScenario_led e _)) (finishScenario_leafT e _ t hel.leaf) (h4 t r hel hdn hfw)

end SP
