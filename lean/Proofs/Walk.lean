import Proofs.SchedInv
/-! Per-slot facts about the walk of one task (credit, tail release, bounds, visiting order). -/
namespace SP

theorem rat_div_mul_cancel (a b : Rat) (hb : b ≠ 0) : a / b * b = a := by
  rw [Rat.div_def, Rat.mul_assoc, Rat.inv_mul_cancel b hb, Rat.mul_one]

/-- the arithmetic core of the tail release: the seconds a finishing task keeps give exactly the
    missing effort, and fit into what it booked -/
theorem finish_exact (effort before a eff : Rat) (heff : 0 < eff) (hlt : before < effort)
    (hge : effort ≤ before + a / 3600 * eff) :
    let need := (effort - before) / (eff / 3600)
    0 < need ∧ need ≤ a ∧ before + need / 3600 * eff = effort := by
  intro need
  have h36 : (0 : Rat) < eff / 3600 := by grind
  have hne : eff / 3600 ≠ 0 := by grind
  have hmul : need * (eff / 3600) = effort - before := rat_div_mul_cancel _ _ hne
  have e1 : need / 3600 * eff = need * (eff / 3600) := by grind
  have e2 : a / 3600 * eff = a * (eff / 3600) := by grind
  refine ⟨?_, ?_, ?_⟩
  · -- need * c = effort - before > 0 with c > 0
    by_cases h : 0 < need
    · exact h
    · have h : need ≤ 0 := by grind
      have : need * (eff / 3600) ≤ 0 := by
        have := Rat.mul_nonneg (a := -need) (b := eff / 3600) (by grind) (by grind)
        grind
      grind
  · -- need * c ≤ a * c
    by_cases h : a < need
    · have hpos : 0 < (need - a) * (eff / 3600) := Rat.mul_pos (by grind) h36
      grind
    · grind
  · grind

/-- with the slot's booking `a` recorded as the task's entry, `needSecs` is that exact amount -/
theorem needSecs_eq (e : Env) (σ : St) (t : Nat) (w : Walk) (before : Rat) (r : Nat) (a : Rat)
    (heff : 0 < (e.resD r).eff) (hlt : before < (e.taskD t).effort)
    (hge : (e.taskD t).effort ≤ before + a / 3600 * (e.resD r).eff)
    (ha : a ≤ (e.G : Rat)) (hu : usageOf (σ.led.get r w.cur).usage t = some a) :
    needSecs e σ t w before r = ((e.taskD t).effort - before) / ((e.resD r).eff / 3600) := by
  have fe := finish_exact (e.taskD t).effort before a (e.resD r).eff heff hlt hge
  simp only [] at fe
  unfold needSecs
  simp only [hu, Option.getD_some, heff, if_true]
  have : decide ((e.resD r).eff > 0) = true := by simpa using heff
  grind

/-- effort credited for a booking = seconds booked x efficiency / 3600 -/
theorem bookSlot_gain (e : Env) (σ : St) (r : Nat) (i : Int) (t : Nat) :
    (bookSlot e σ r i t).2 = availSecs e.G (σ.led.get r i) / 3600 * (e.resD r).eff := rfl

/-- and exactly those seconds are appended to the slot's usage list for the task -/
theorem bookSlot_entry (e : Env) (σ : St) (r : Nat) (i : Int) (t : Nat) :
    ((bookSlot e σ r i t).1.led.get r i).usage = (σ.led.get r i).usage ++ [(t, availSecs e.G (σ.led.get r i))] := by
  rw [bookSlot_eq, incAll_led]
  simp [Ledger.get_set, Slot.book]

/-- a booking touches no other (resource, slot) of the ledger -/
theorem bookSlot_frame (e : Env) (σ : St) (r : Nat) (i : Int) (t : Nat) (r' : Nat) (i' : Int)
    (h : ¬ (r = r' ∧ i = i')) : (bookSlot e σ r i t).1.led.get r' i' = σ.led.get r' i' := by
  rw [bookSlot_eq, incAll_led]
  simp [Ledger.get_set, h]

/-- `bookResource` books exactly when the resource is available and the task's limits allow it -/
theorem bookResource_books_iff (e : Env) (σ : St) (t : Nat) (w : Walk) (r : Nat) :
    (bookResource e σ t w r) =
      if available e (reserveStep σ w r) r w.cur && taskLimitsOk e (reserveStep σ w r) t w.cur r
      then bookSlot e (reserveStep σ w r) r w.cur t else (reserveStep σ w r, 0) := rfl

/-! ### bounds -/

/-- the slot after the one a date lies in starts after the date (`idx` truncates towards zero) -/
theorem lt_time_idx_succ (e : Env) (hG : 0 < e.G) (dt : Int) : dt < e.time (e.idx dt + 1) := by
  unfold Env.time Env.idx
  have h1 := Int.mul_tdiv_add_tmod (dt - e.start) e.G
  have h2 : Int.tmod (dt - e.start) e.G < e.G := Int.tmod_lt_of_pos _ hG
  have e1 : (Int.tdiv (dt - e.start) e.G + 1) * e.G = e.G * Int.tdiv (dt - e.start) e.G + e.G := by
    rw [Int.add_mul, Int.mul_comm]; omega
  omega

/-- a `gaplength` walk never ends before the date it starts from -/
theorem lenWalk_ge (e : Env) (hG : 0 < e.G) (f : Nat) (rem i dt : Int) (h : dt ≤ e.time (i + 1)) :
    dt ≤ lenWalk e f rem i dt := by
  induction f generalizing rem i dt with
  | zero => exact Int.le_refl _
  | succ f ih =>
    unfold lenWalk
    have hstep : e.time (i + 1) ≤ e.time (i + 1 + 1) := by unfold Env.time; rw [Int.add_mul (i + 1) 1 e.G]; omega
    split
    · rename_i hc
      simp only [Bool.and_eq_true, decide_eq_true_eq] at hc
      split
      · split
        · omega
        · exact Int.le_trans h (ih _ _ _ hstep)
      · exact Int.le_trans h (ih _ _ _ hstep)
    · exact Int.le_refl _

/-- the date a dependency contributes is at or after (start | end) + gapduration: a `gaplength` only moves it on -/
theorem depDate_ge (e : Env) (hG : 0 < e.G) (dp : Dep) (dt : Int) : dt + dp.gap ≤ depDate e dp dt := by
  unfold depDate
  split
  · rename_i hc
    simp only [Bool.and_eq_true, decide_eq_true_eq, beq_iff_eq] at hc
    rw [hc.2]
    have := lenWalk_ge e hG (e.size.toNat + 3) dp.glen (e.idx dt) dt (Int.le_of_lt (lt_time_idx_succ e hG dt))
    omega
  · exact Int.le_refl _

/-- the forward bound dominates the date every dependency contributes -/
theorem earliestStart_ge_depDate (e : Env) (σ : St) (deps : List Dep) (base : Int) (dp : Dep) (hd : dp ∈ deps) (dt : Int)
    (hdt : (if dp.onstart then (σ.tst dp.target).start else (σ.tst dp.target).stop) = some dt) :
    depDate e dp dt ≤ earliestStart e σ deps base := by
  unfold earliestStart
  induction deps generalizing base with
  | nil => cases hd
  | cons x xs ih =>
    simp only [List.foldl_cons]
    rcases List.mem_cons.mp hd with rfl | hm
    · have hge := foldl_ge_init (fun acc (dp : Dep) =>
          match (if dp.onstart then (σ.tst dp.target).start else (σ.tst dp.target).stop) with
          | some dt => max acc (depDate e dp dt)
          | none => acc) xs
          (match (if dp.onstart then (σ.tst dp.target).start else (σ.tst dp.target).stop) with
            | some dt => max base (depDate e dp dt)
            | none => base)
          (by intro acc y; split
              · exact Int.le_max_left _ _
              · exact Int.le_refl _)
      rw [hdt] at hge
      simp only [] at hge
      rw [hdt]
      exact Int.le_trans (Int.le_max_right _ _) hge
    · exact ih _ hm

/-- the forward bound dominates every dependency's (start | end) + gap -/
theorem earliestStart_ge_dep (e : Env) (hG : 0 < e.G) (σ : St) (deps : List Dep) (base : Int) (dp : Dep) (hd : dp ∈ deps) (dt : Int)
    (hdt : (if dp.onstart then (σ.tst dp.target).start else (σ.tst dp.target).stop) = some dt) :
    dt + dp.gap ≤ earliestStart e σ deps base :=
  Int.le_trans (depDate_ge e hG dp dt) (earliestStart_ge_depDate e σ deps base dp hd dt hdt)

/-- the cursor and the in-slot offset reconstruct the bound exactly -/
theorem cursorOf_exact (e : Env) (wf : WF e) (x : Int) (hx : e.start ≤ x) :
    ((e.time (cursorOf e x).1 : Int) : Rat) + (cursorOf e x).2 = (x : Rat) := by
  unfold cursorOf
  simp only []
  have hfl := (Board.mk e.start e.stop e.G).rawIdx_floor wf.G_pos (t := x) hx
  simp only [Board.time, Board.rawIdx] at hfl
  split
  · have : e.time (e.idx x) + (x - e.time (e.idx x)) = x := by omega
    exact_mod_cast this
  · rename_i hle
    have : e.time (e.idx x) = x := by unfold Env.time Env.idx at *; omega
    rw [this]; grind

/-- every slot at or after the bound's slot starts, together with the offset, at or after the bound -/
theorem slot_ge_bound (e : Env) (wf : WF e) (x : Int) (hx : e.start ≤ x) (cur : Int) (hc : (cursorOf e x).1 ≤ cur) :
    (x : Rat) ≤ ((e.time cur : Int) : Rat) + (cursorOf e x).2 := by
  have h1 := cursorOf_exact e wf x hx
  have hG := wf.G_pos
  have : e.time (cursorOf e x).1 ≤ e.time cur := by
    unfold Env.time
    have : (cursorOf e x).1 * e.G ≤ cur * e.G := Int.mul_le_mul_of_nonneg_right hc (Int.le_of_lt hG)
    omega
  have : ((e.time (cursorOf e x).1 : Int) : Rat) ≤ ((e.time cur : Int) : Rat) := by exact_mod_cast this
  grind

/-! ### visiting order -/

/-- the cursor moves by exactly one slot per unfinished slot, in the direction of the mode -/
theorem advance_cur (fwd : Bool) (w w1 : Walk) : (advance fwd w w1).cur = w1.cur + (if fwd then 1 else -1) := rfl

theorem scheduleSlot_cur (e : Env) (σ : St) (t : Nat) (w : Walk) : (scheduleSlot e σ t w).2.1.cur = w.cur := by
  unfold scheduleSlot
  simp only []
  split
  · split
    · split <;> rfl
    · split <;> rfl
  · have := (bookResources_walk e σ t w).1
    split <;> exact this

end SP
