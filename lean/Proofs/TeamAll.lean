import Proofs.Team
import Proofs.Effort
/-!
C03, team clause end to end for one slot: when the gate of a team passes, the members are levelled and then booked one
after the other — and either every member is booked, all for the same seconds, or nobody is.
-/
namespace SP

/-- available seconds as a function of the seconds used -/
def availOf (G : Int) (u : Rat) : Rat :=
  let a := max 0 ((G : Rat) - u)
  if a < 1 / 1000000 then 0 else a

theorem availSecs_eq (G : Int) (s : Slot) : availSecs G s = availOf G s.used := rfl

/-- the seconds used in a member's slot after levelling to `c` and the first-slot offset reservation -/
def teamU (c : Rat) (w : Walk) : Rat :=
  if w.offset > 0 && w.done == 0 then (if c < w.offset then w.offset else c) else c

theorem reserveStep_used (σ : St) (w : Walk) (r : Nat) (c : Rat) (h : (σ.led.get r w.cur).used = c) :
    ((reserveStep σ w r).led.get r w.cur).used = teamU c w := by
  unfold reserveStep teamU
  split
  · simp only [Ledger.get_set, and_self, if_true]
    unfold Slot.reserve
    rw [h]
    split
    · rfl
    · exact h
  · exact h

theorem reserveStep_cnt (σ : St) (w : Walk) (r : Nat) : (reserveStep σ w r).cnt = σ.cnt := by
  unfold reserveStep; split <;> rfl

theorem reserveStep_marks (σ : St) (w : Walk) (r : Nat) : (reserveStep σ w r).marks = σ.marks := by
  unfold reserveStep; split <;> rfl

theorem teamU_ge (c : Rat) (w : Walk) : c ≤ teamU c w := by
  unfold teamU
  split
  · split <;> grind
  · exact Rat.le_refl

theorem limitOk_cnt (e : Env) (σ σ' : St) (lid : Nat) (i : Int) (r : Option Nat) (h : σ'.cnt = σ.cnt) :
    limitOk e σ' lid i r = limitOk e σ lid i r := by
  unfold limitOk; rw [h]

theorem taskLimitsOk_cnt (e : Env) (σ σ' : St) (t : Nat) (i : Int) (r : Nat) (h : σ'.cnt = σ.cnt) :
    taskLimitsOk e σ' t i r = taskLimitsOk e σ t i r := by
  unfold taskLimitsOk
  congr 1
  funext lid
  exact limitOk_cnt e σ σ' lid i (some r) h

/-- `available` spelled out -/
theorem available_def (e : Env) (σ : St) (r : Nat) (i : Int) :
    available e σ r i =
      ((e.resD r).leaf && e.onShift r i && decide (availOf e.G (σ.led.get r i).used > 0) &&
       !((σ.marks.get r (e.norm i) || e.leaveMark r (e.norm i)) && decide (availOf e.G (σ.led.get r i).used ≥ (e.G : Rat))) &&
       (resLimitIds e r).all (fun lid => limitOk e σ lid i none)) := rfl

theorem availOf_lt_G (G : Int) (u : Rat) (hu : 0 < u) (ha : 0 < availOf G u) : availOf G u < (G : Rat) := by
  unfold availOf at *
  simp only [] at *
  split at ha
  · grind
  · split
    · grind
    · grind

/-- a member of a passing team gate is still available after levelling and reservation — provided some time is left
    in the levelled slot -/
theorem available_transfer (e : Env) (σg σa : St) (r : Nat) (i : Int) (U : Rat)
    (hgate : available e σg r i = true)
    (hcnt : σa.cnt = σg.cnt) (hmarks : σa.marks.get r (e.norm i) = σg.marks.get r (e.norm i))
    (hua : (σa.led.get r i).used = U) (h0 : 0 ≤ (σg.led.get r i).used) (hle : (σg.led.get r i).used ≤ U)
    (hpos : 0 < availOf e.G U) : available e σa r i = true := by
  rw [available_def] at hgate ⊢
  simp only [Bool.and_eq_true, decide_eq_true_eq, Bool.not_eq_true', List.all_eq_true] at hgate ⊢
  obtain ⟨⟨⟨⟨hleaf, hshift⟩, hag⟩, hflag⟩, hlim⟩ := hgate
  refine ⟨⟨⟨⟨hleaf, hshift⟩, by rw [hua]; exact hpos⟩, ?_⟩, ?_⟩
  · rw [hua, hmarks]
    by_cases hU : 0 < U
    · have := availOf_lt_G e.G U hU hpos
      have hd : decide (availOf e.G U ≥ (e.G : Rat)) = false := by
        simp only [decide_eq_false_iff_not]; grind
      rw [hd]; simp
    · have hU0 : U = 0 := by grind
      have hg0 : (σg.led.get r i).used = 0 := by grind
      rw [hU0]; rw [hg0] at hflag; exact hflag
  · intro lid hl
    rw [limitOk_cnt e σg σa lid i none hcnt]; exact hlim lid hl

end SP

namespace SP

theorem Marks.get_set (M : Marks) (r : Nat) (i : Int) (r' : Nat) (i' : Int) :
    (M.set r i).get r' i' = if r = r' ∧ i = i' then true else M.get r' i' := by
  unfold Marks.get Marks.set
  rw [Std.HashMap.getD_insert]
  by_cases h : r = r' ∧ i = i'
  · obtain ⟨h1, h2⟩ := h; subst h1; subst h2; simp
  · have : ((r, i) == (r', i')) = false := by
      simp only [beq_eq_false_iff_ne, ne_eq, Prod.mk.injEq]; exact h
    simp [this, h]

theorem limitInc_cnt_congr (e : Env) (σ σ' : St) (lid : Nat) (i : Int) (r : Option Nat) (h : σ'.cnt = σ.cnt) :
    (limitInc e σ' lid i r).cnt = (limitInc e σ lid i r).cnt := by
  unfold limitInc
  simp only []
  split
  · exact h
  · split
    · exact h
    · simp only [h]

theorem incAll_cnt_congr (e : Env) (σ σ' : St) (ps : List (Nat × Option Nat)) (i : Int) (h : σ'.cnt = σ.cnt) :
    (incAll e σ' ps i).cnt = (incAll e σ ps i).cnt := by
  induction ps generalizing σ σ' with
  | nil => exact h
  | cons p ps ih =>
    simp only [incAll, List.foldl_cons]
    exact ih _ _ (limitInc_cnt_congr e σ σ' p.1 i p.2 h)

theorem bookSlot_cnt (e : Env) (σ : St) (r : Nat) (i : Int) (t : Nat) :
    (bookSlot e σ r i t).1.cnt = (countMember e σ t i r).cnt := by
  rw [bookSlot_eq, countMember_eq]
  exact incAll_cnt_congr e σ _ _ i rfl

theorem bookSlot_marks (e : Env) (σ : St) (r : Nat) (i : Int) (t : Nat) :
    (bookSlot e σ r i t).1.marks = σ.marks.set r (e.norm i) := by
  rw [bookSlot_eq, incAll_marks]

theorem levelTeam_cnt (σ : St) (cur : Int) (sel : List Nat) : (levelTeam σ cur sel).cnt = σ.cnt := by
  unfold levelTeam
  have : ∀ (l : List Nat) (acc : St), (l.foldl (fun acc r => reserveAt acc r cur (teamCommon σ cur sel)) acc).cnt = acc.cnt := by
    intro l; induction l with
    | nil => intro acc; rfl
    | cons x xs ih => intro acc; simp only [List.foldl_cons]; rw [ih]; rfl
  exact this sel σ

theorem levelTeam_marks (σ : St) (cur : Int) (sel : List Nat) : (levelTeam σ cur sel).marks = σ.marks := by
  unfold levelTeam
  have : ∀ (l : List Nat) (acc : St), (l.foldl (fun acc r => reserveAt acc r cur (teamCommon σ cur sel)) acc).marks = acc.marks := by
    intro l; induction l with
    | nil => intro acc; rfl
    | cons x xs ih => intro acc; simp only [List.foldl_cons]; rw [ih]; rfl
  exact this sel σ

end SP

namespace SP

/-- relation between the state the team gate looks at (`σg`: original ledger, provisional counts) and the state the
    members are actually booked in (`σa`: levelled ledger, real counts), for the members `l` still to be booked -/
structure TeamRel (e : Env) (σ0 σg σa : St) (cur : Int) (c : Rat) (t : Nat) (l : List Nat) : Prop where
  cnt : σa.cnt = σg.cnt
  ledg : σg.led = σ0.led
  marksg : σg.marks = σ0.marks
  marksa : ∀ r ∈ l, σa.marks.get r (e.norm cur) = σ0.marks.get r (e.norm cur)
  useda : ∀ r ∈ l, (σa.led.get r cur).used = c
  clean : ∀ r ∈ l, usageOf (σa.led.get r cur).usage t = none
  used0 : ∀ r ∈ l, 0 ≤ (σ0.led.get r cur).used ∧ (σ0.led.get r cur).used ≤ c

/-- **time left**: every remaining member is booked, each for the same `availOf G U` seconds -/
theorem bookAll_team_all (e : Env) (σ0 : St) (t : Nat) (w : Walk) (c : Rat)
    (hpos : 0 < availOf e.G (teamU c w)) :
    ∀ (l : List Nat) (acc : BookAcc) (σg : St), l.Nodup → TeamRel e σ0 σg acc.σ w.cur c t l →
      teamGateOk e t w.cur σg l = true →
      (∀ r ∈ l, usageOf ((l.foldl (bookOne e t w) acc).σ.led.get r w.cur).usage t = some (availOf e.G (teamU c w))) ∧
      (∀ r', r' ∉ l → (l.foldl (bookOne e t w) acc).σ.led.get r' w.cur = acc.σ.led.get r' w.cur) := by
  intro l
  induction l with
  | nil => intro acc σg _ _ _; exact ⟨fun r hr => absurd hr List.not_mem_nil, fun _ _ => rfl⟩
  | cons r rs ih =>
    intro acc σg hnd hrel hgate
    simp only [teamGateOk, Bool.and_eq_true] at hgate
    obtain ⟨⟨hav, htl⟩, hrest⟩ := hgate
    have hr_mem : r ∈ r :: rs := List.mem_cons_self
    have hnd' := List.nodup_cons.mp hnd
    -- the member is available in the state it is booked in
    have hU := reserveStep_used acc.σ w r c (hrel.useda r hr_mem)
    have hav' : available e (reserveStep acc.σ w r) r w.cur = true := by
      apply available_transfer e σg (reserveStep acc.σ w r) r w.cur (teamU c w) hav
      · rw [reserveStep_cnt]; exact hrel.cnt
      · rw [reserveStep_marks, hrel.marksa r hr_mem, hrel.marksg]
      · exact hU
      · rw [hrel.ledg]; exact (hrel.used0 r hr_mem).1
      · rw [hrel.ledg]; exact Rat.le_trans (hrel.used0 r hr_mem).2 (teamU_ge c w)
      · exact hpos
    have htl' : taskLimitsOk e (reserveStep acc.σ w r) t w.cur r = true := by
      rw [taskLimitsOk_cnt e σg _ t w.cur r (by rw [reserveStep_cnt]; exact hrel.cnt)]; exact htl
    have hbook : bookResource e acc.σ t w r = bookSlot e (reserveStep acc.σ w r) r w.cur t := by
      rw [bookResource_books_iff]; simp [hav', htl']
    have hσ1 : (bookOne e t w acc r).σ = (bookSlot e (reserveStep acc.σ w r) r w.cur t).1 := by
      unfold bookOne; simp only [hbook]; split <;> rfl
    have hclean_r : usageOf ((reserveStep acc.σ w r).led.get r w.cur).usage t = none := by
      rw [reserveStep_get]; exact hrel.clean r hr_mem
    -- the relation for the rest
    have hrel' : TeamRel e σ0 (countMember e σg t w.cur r) (bookOne e t w acc r).σ w.cur c t rs := by
      refine ⟨?_, ?_, ?_, ?_, ?_, ?_, ?_⟩
      · rw [hσ1, bookSlot_cnt, countMember_eq, countMember_eq]
        exact incAll_cnt_congr e σg _ _ w.cur (by rw [reserveStep_cnt]; exact hrel.cnt)
      · rw [countMember_led]; exact hrel.ledg
      · rw [countMember_marks]; exact hrel.marksg
      · intro r' hr'
        have hne : r ≠ r' := fun h => hnd'.1 (h ▸ hr')
        rw [hσ1, bookSlot_marks, Marks.get_set, reserveStep_marks]
        simp only [hne, false_and, if_false]
        exact hrel.marksa r' (List.mem_cons_of_mem _ hr')
      · intro r' hr'
        have hne : ¬ (r = r' ∧ w.cur = w.cur) := fun h => hnd'.1 (h.1 ▸ hr')
        rw [hσ1, bookSlot_frame _ _ _ _ _ _ _ hne, reserveStep_frame _ _ _ _ _ hne]
        exact hrel.useda r' (List.mem_cons_of_mem _ hr')
      · intro r' hr'
        have hne : ¬ (r = r' ∧ w.cur = w.cur) := fun h => hnd'.1 (h.1 ▸ hr')
        rw [hσ1, bookSlot_frame _ _ _ _ _ _ _ hne, reserveStep_frame _ _ _ _ _ hne]
        exact hrel.clean r' (List.mem_cons_of_mem _ hr')
      · intro r' hr'; exact hrel.used0 r' (List.mem_cons_of_mem _ hr')
    obtain ⟨ih1, ih2⟩ := ih (bookOne e t w acc r) (countMember e σg t w.cur r) hnd'.2 hrel' hrest
    simp only [List.foldl_cons]
    constructor
    · intro r' hr'
      rcases List.mem_cons.mp hr' with h | h
      · subst h
        rw [ih2 r' hnd'.1, hσ1, bookSlot_entry, usageOf_append_none _ _ _ hclean_r, availSecs_eq, hU]
      · exact ih1 r' h
    · intro r' hr'
      have hr1 : r' ∉ rs := fun h => hr' (List.mem_cons_of_mem _ h)
      have hne : ¬ (r = r' ∧ w.cur = w.cur) := fun h => hr' (h.1 ▸ List.mem_cons_self)
      rw [ih2 r' hr1, hσ1, bookSlot_frame _ _ _ _ _ _ _ hne, reserveStep_frame _ _ _ _ _ hne]

end SP

namespace SP

theorem available_false_of_no_time (e : Env) (σ : St) (r : Nat) (i : Int)
    (h : ¬ 0 < availOf e.G (σ.led.get r i).used) : available e σ r i = false := by
  rw [available_def]
  have : decide (availOf e.G (σ.led.get r i).used > 0) = false := by simpa using h
  simp [this]

/-- **no time left** in the levelled slot: nobody is booked -/
theorem bookAll_team_none (e : Env) (t : Nat) (w : Walk) (c : Rat)
    (hz : ¬ 0 < availOf e.G (teamU c w)) :
    ∀ (l : List Nat) (acc : BookAcc), l.Nodup →
      (∀ r ∈ l, (acc.σ.led.get r w.cur).used = c ∧ usageOf (acc.σ.led.get r w.cur).usage t = none) →
      (∀ r ∈ l, usageOf ((l.foldl (bookOne e t w) acc).σ.led.get r w.cur).usage t = none) ∧
      (∀ r', r' ∉ l → (l.foldl (bookOne e t w) acc).σ.led.get r' w.cur = acc.σ.led.get r' w.cur) := by
  intro l
  induction l with
  | nil => intro acc _ _; exact ⟨fun r hr => absurd hr List.not_mem_nil, fun _ _ => rfl⟩
  | cons r rs ih =>
    intro acc hnd hpre
    have hnd' := List.nodup_cons.mp hnd
    obtain ⟨hu, hcl⟩ := hpre r List.mem_cons_self
    have hU := reserveStep_used acc.σ w r c hu
    have hav : available e (reserveStep acc.σ w r) r w.cur = false :=
      available_false_of_no_time e _ r w.cur (by rw [hU]; exact hz)
    have hbook : bookResource e acc.σ t w r = (reserveStep acc.σ w r, 0) := by
      rw [bookResource_books_iff]; simp [hav]
    have hσ1 : (bookOne e t w acc r).σ = reserveStep acc.σ w r := by
      unfold bookOne; simp only [hbook]; split <;> rfl
    have hpre' : ∀ r' ∈ rs, ((bookOne e t w acc r).σ.led.get r' w.cur).used = c ∧
        usageOf ((bookOne e t w acc r).σ.led.get r' w.cur).usage t = none := by
      intro r' hr'
      have hne : ¬ (r = r' ∧ w.cur = w.cur) := fun h => hnd'.1 (h.1 ▸ hr')
      rw [hσ1, reserveStep_frame _ _ _ _ _ hne]
      exact hpre r' (List.mem_cons_of_mem _ hr')
    obtain ⟨ih1, ih2⟩ := ih (bookOne e t w acc r) hnd'.2 hpre'
    simp only [List.foldl_cons]
    constructor
    · intro r' hr'
      rcases List.mem_cons.mp hr' with h | h
      · subst h
        rw [ih2 r' hnd'.1, hσ1, reserveStep_get]; exact hcl
      · exact ih1 r' h
    · intro r' hr'
      have hr1 : r' ∉ rs := fun h => hr' (List.mem_cons_of_mem _ h)
      have hne : ¬ (r = r' ∧ w.cur = w.cur) := fun h => hr' (h.1 ▸ List.mem_cons_self)
      rw [ih2 r' hr1, hσ1, reserveStep_frame _ _ _ _ _ hne]

/-- **all or nobody, and the same seconds** (`bookResources` of a team, one slot): if the gate of a team with pairwise
    different members passes in a state satisfying the scheduler invariant in which the task has no entry in the slot
    yet, then after the members have been booked either nobody holds an entry of the task in that slot, or every
    member holds one — all of them for the same number of seconds `a > 0` -/
theorem team_all_or_nobody (e : Env) (wf : WF e) (σ : St) (t : Nat) (w : Walk) (sel : List Nat)
    (hinv : Inv e σ) (hnd : sel.Nodup)
    (hclean : ∀ r ∈ sel, usageOf (σ.led.get r w.cur).usage t = none)
    (hgate : teamGateOk e t w.cur σ sel = true) :
    (∀ r ∈ sel, usageOf ((bookAll e (levelTeam σ w.cur sel) t w sel).σ.led.get r w.cur).usage t = none) ∨
    (∃ a, 0 < a ∧ ∀ r ∈ sel, usageOf ((bookAll e (levelTeam σ w.cur sel) t w sel).σ.led.get r w.cur).usage t = some a) := by
  unfold bookAll
  have hused : ∀ r ∈ sel, ((levelTeam σ w.cur sel).led.get r w.cur).used = teamCommon σ w.cur sel :=
    fun r hr => levelTeam_used σ w.cur sel r hr
  have hcl : ∀ r ∈ sel, usageOf ((levelTeam σ w.cur sel).led.get r w.cur).usage t = none := by
    intro r hr; rw [levelTeam_usage]; exact hclean r hr
  by_cases hpos : 0 < availOf e.G (teamU (teamCommon σ w.cur sel) w)
  · right
    refine ⟨_, hpos, ?_⟩
    have hrel : TeamRel e σ σ (levelTeam σ w.cur sel) w.cur (teamCommon σ w.cur sel) t sel := by
      refine ⟨levelTeam_cnt σ w.cur sel, rfl, rfl, fun r _ => by rw [levelTeam_marks], hused, hcl, fun r hr => ?_⟩
      exact ⟨(hinv.slot r w.cur).used_nonneg, le_teamCommon σ w.cur sel r hr⟩
    exact (bookAll_team_all e σ t w _ hpos sel { σ := levelTeam σ w.cur sel, last := w.last } σ hnd hrel hgate).1
  · left
    exact (bookAll_team_none e t w _ hpos sel { σ := levelTeam σ w.cur sel, last := w.last } hnd
      (fun r hr => ⟨hused r hr, hcl r hr⟩)).1

end SP

namespace SP

/-- `bookResources` of a team task, one slot: all members or nobody, and the same seconds -/
theorem bookResources_team (e : Env) (wf : WF e) (σ : St) (t : Nat) (w : Walk)
    (hinv : Inv e σ) (ha : (e.taskD t).hasAlloc = true)
    (hteam : isTeam e t (selectedOf e σ t w) = true) (hnd : (selectedOf e σ t w).Nodup)
    (hclean : ∀ r ∈ selectedOf e σ t w, usageOf (σ.led.get r w.cur).usage t = none) :
    (∀ r ∈ selectedOf e σ t w, usageOf ((bookResources e σ t w).1.led.get r w.cur).usage t = none) ∨
    (∃ a, 0 < a ∧ ∀ r ∈ selectedOf e σ t w, usageOf ((bookResources e σ t w).1.led.get r w.cur).usage t = some a) := by
  have hne : (selectedOf e σ t w).isEmpty = false := by
    unfold isTeam at hteam
    simp only [Bool.and_eq_true, decide_eq_true_eq] at hteam
    cases hs : selectedOf e σ t w with
    | nil => rw [hs] at hteam; simp at hteam
    | cons x xs => rfl
  unfold bookResources
  simp only [ha, Bool.not_true, Bool.false_eq_true, if_false, hne]
  by_cases hg : teamGateOk e t w.cur σ (selectedOf e σ t w) = true
  · have hgf : teamGateFails e σ t { w with selected := some (selectedOf e σ t w) } (selectedOf e σ t w) = false := by
      unfold teamGateFails; simp [hteam, hg]
    simp only [hgf, Bool.false_eq_true, if_false]
    have hlev : leveled e σ t w.cur (selectedOf e σ t w) = levelTeam σ w.cur (selectedOf e σ t w) := by
      unfold leveled; simp [hteam]
    have key := team_all_or_nobody e wf σ t { w with selected := some (selectedOf e σ t w) } (selectedOf e σ t w)
      hinv hnd hclean hg
    simp only [hlev]
    split
    · simp only [markStart_led]; exact key
    · exact key
  · have hgf : teamGateFails e σ t { w with selected := some (selectedOf e σ t w) } (selectedOf e σ t w) = true := by
      unfold teamGateFails
      have : teamGateOk e t w.cur σ (selectedOf e σ t w) = false := by simpa using hg
      simp [hteam, this]
    simp only [hgf, if_true]
    exact Or.inl hclean

end SP
