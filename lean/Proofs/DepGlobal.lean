import Proofs.DepStart
import Proofs.EffortGlobal
/-!
C04 for whole scenarios (forward mode, leaf predecessors): every completed forward effort task without a start of
its own starts at or after (start | end) + gap of each of its predecessors — own, inherited and inverted edges.
-/
namespace SP

/-- a leaf effort task (no milestone) with an allocation and without a start of its own -/
structure FwdEff (e : Env) (t : Nat) : Prop where
  leaf : (e.taskD t).leaf = true
  alloc : (e.taskD t).hasAlloc = true
  nomile : (e.taskD t).milestone = false
  effort : 0 < (e.taskD t).effort
  nostart : (e.taskD t).startProvided = false

/-- the date of the predecessor an edge refers to: its start (`onstart`) or its end -/
def dateOf (σ : St) (dp : Dep) : Option Int :=
  if dp.onstart then (σ.tst dp.target).start else (σ.tst dp.target).stop

def DepsOK (e : Env) (σ : St) : Prop :=
  ∀ t, FwdEff e t → (σ.tst t).done = true → (σ.tst t).forward = true →
    ∀ dp ∈ (e.taskD t).allDeps, (e.taskD dp.target).leaf = true →
      (σ.tst dp.target).scheduled = true ∧
      ∀ dt v, dateOf σ dp = some dt → (σ.tst t).start = some v → depDate e dp dt ≤ v

structure DepInv (e : Env) (σ : St) (tasks : List Nat) : Prop where
  nodup : tasks.Nodup
  leaf : ∀ t ∈ tasks, (e.taskD t).leaf = true
  inrange : ∀ t ∈ tasks, t < σ.ts.size
  unsched : ∀ t ∈ tasks, (σ.tst t).scheduled = false ∧ (σ.tst t).done = false
  ok : DepsOK e σ

theorem foldl_setT_size (f : St → Nat → TSt) (l : List Nat) (σ : St) :
    (l.foldl (fun (acc : St) t => acc.setT t (f acc t)) σ).ts.size = σ.ts.size := by
  induction l generalizing σ with
  | nil => rfl
  | cons x xs ih => simp only [List.foldl_cons]; rw [ih, size_setT]

theorem updateContainers_size (e : Env) (σ : St) : (updateContainers e σ).ts.size = σ.ts.size := by
  unfold updateContainers; exact foldl_setT_size _ _ σ

theorem scheduleTask_size (e : Env) (σ : St) (t0 : Nat) : (scheduleTask e σ t0).1.ts.size = σ.ts.size := by
  unfold scheduleTask
  simp only []
  split
  · rfl
  · split
    · rw [size_setT, size_setT]
    · have h1 := (walkLoop_frame e t0 (σ.tst t0).forward (e.size.toNat + 3) (σ.setT t0 (preStartT e σ t0 (initCursor e σ t0).1))
        { cur := preStartCursor e σ t0 (initCursor e σ t0).1, offset := (initCursor e σ t0).2 }).2.2.2.2
      split
      · rw [size_setT, h1, size_setT]
      · rw [size_setT, h1, size_setT]

theorem finalT_forward (e : Env) (t : Nat) (fwd : Bool) (c1 : Int) (ts1 : TSt) (w1 : Walk) :
    (finalT e t fwd c1 ts1 w1).forward = ts1.forward := by
  unfold finalT; simp only []
  repeat' split
  all_goals rfl

/-- scheduling a task does not change its own direction -/
theorem scheduleTask_self_forward (e : Env) (σ : St) (t0 : Nat) :
    ((scheduleTask e σ t0).1.tst t0).forward = (σ.tst t0).forward := by
  unfold scheduleTask
  simp only []
  split
  · rfl
  · have h0 := TsFrame.setT σ t0 (preStartT e σ t0 (initCursor e σ t0).1) (preStartT_done e σ t0 _)
      (preStartT_scheduled e σ t0 _) (preStartT_forward e σ t0 _)
    split
    · rw [tst_setT]; split
      · simp only []; exact h0.2.2.2.1
      · exact h0.2.2.2.1
    · have h1 := walkLoop_frame e t0 (σ.tst t0).forward (e.size.toNat + 3) (σ.setT t0 (preStartT e σ t0 (initCursor e σ t0).1))
        { cur := preStartCursor e σ t0 (initCursor e σ t0).1, offset := (initCursor e σ t0).2 }
      have h01 := (h0.trans h1).2.2.2.1
      split
      · rw [tst_setT]; split
        · simp only []; exact h01
        · exact h01
      · rw [tst_setT]; split
        · rw [finalT_forward]; exact h01
        · exact h01

end SP

namespace SP

theorem ready_forward_deps (e : Env) (σ : St) (t : Nat) (hf : (σ.tst t).forward = true) (hr : ready e σ t = true) :
    ∀ dp ∈ (e.taskD t).allDeps, (σ.tst dp.target).scheduled = true := by
  unfold ready at hr
  simp only [hf, if_true] at hr
  unfold asapReady at hr
  simpa [List.all_eq_true] using hr

/-- one round of the pick loop keeps the dependency invariant -/
theorem depInv_step (e : Env) (wf : WF e) (σ : St) (tasks : List Nat) (t0 : Nat) (h : DepInv e σ tasks)
    (hmem : t0 ∈ tasks) (hready : ready e σ t0 = true) :
    DepInv e (updateContainers e (scheduleTask e σ t0).1) (tasks.erase t0) := by
  have hlf0 := h.leaf t0 hmem
  obtain ⟨hus0, hnd0⟩ := h.unsched t0 hmem
  -- a leaf other than t0 keeps its attributes
  have hsame : ∀ x, (e.taskD x).leaf = true → x ≠ t0 →
      (updateContainers e (scheduleTask e σ t0).1).tst x = σ.tst x := by
    intro x hx hne
    rw [updateContainers_leaf e _ x hx, scheduleTask_other e σ t0 x hne]
  refine ⟨h.nodup.erase t0, fun t ht => h.leaf t (List.mem_of_mem_erase ht), ?_, ?_, ?_⟩
  · intro t ht
    rw [updateContainers_size, scheduleTask_size]; exact h.inrange t (List.mem_of_mem_erase ht)
  · intro t ht
    have htm : t ∈ tasks := List.mem_of_mem_erase ht
    have hne : t ≠ t0 := fun heq => by
      rw [heq] at ht; exact (List.Nodup.not_mem_erase h.nodup) ht
    rw [hsame t (h.leaf t htm) hne]; exact h.unsched t htm
  · intro t hel hd hfw dp hdp hxl
    by_cases heq : t = t0
    · subst heq
      rw [updateContainers_leaf e _ t hel.leaf] at hd hfw ⊢
      rw [scheduleTask_self_forward] at hfw
      have hok := scheduleTask_done e σ t hnd0 hd
      have hdeps := ready_forward_deps e σ t hfw hready
      have hxs := hdeps dp hdp
      have hxne : dp.target ≠ t := by
        intro hx; rw [hx, hus0] at hxs; exact Bool.noConfusion hxs
      have hxsame := hsame dp.target hxl hxne
      obtain ⟨v0, hv0, hle0⟩ := scheduleTask_start_ge e wf σ t (h.inrange t hmem) hfw hel.nostart hel.alloc hel.nomile
        hel.effort hnd0 hok
      refine ⟨by rw [hxsame]; exact hxs, fun dt v hdt hv => ?_⟩
      have hdt' : (if dp.onstart then (σ.tst dp.target).start else (σ.tst dp.target).stop) = some dt := by
        unfold dateOf at hdt; rw [hxsame] at hdt; exact hdt
      have := boundOf_ge_depDate e σ t dp hdp dt hdt'
      rw [hv0] at hv
      have : v0 = v := by simpa using hv
      omega
    · have htsame := hsame t hel.leaf heq
      rw [htsame] at hd hfw ⊢
      obtain ⟨hxs, hineq⟩ := h.ok t hel hd hfw dp hdp hxl
      have hxne : dp.target ≠ t0 := by
        intro hx; rw [hx, hus0] at hxs; exact Bool.noConfusion hxs
      have hxsame := hsame dp.target hxl hxne
      refine ⟨by rw [hxsame]; exact hxs, fun dt v hdt hv => ?_⟩
      apply hineq dt v _ hv
      unfold dateOf at hdt ⊢; rw [hxsame] at hdt; exact hdt

theorem DepsOK.of_ts {e : Env} {σ σ' : St} (h : σ'.ts = σ.ts) (hok : DepsOK e σ) : DepsOK e σ' := by
  unfold DepsOK dateOf St.tst at *
  rw [h]; exact hok

theorem pickLoop_depsOK (e : Env) (wf : WF e) (fuel : Nat) (tasks failed : List Nat) (σ : St)
    (h : DepInv e σ tasks) : DepsOK e (pickLoop e fuel tasks failed σ).1 := by
  induction fuel generalizing tasks failed σ with
  | zero => exact h.ok
  | succ f ih =>
    unfold pickLoop
    split
    · exact h.ok
    · split
      · rename_i t0 hfind
        have hmem : t0 ∈ tasks := List.mem_of_find?_eq_some hfind
        have hready : ready e σ t0 = true := by
          have := List.find?_some hfind; simpa using this
        exact ih _ _ _ (depInv_step e wf σ tasks t0 h hmem hready)
      · split
        · exact DepsOK.of_ts (σ := σ) rfl h.ok
        · exact h.ok

end SP

namespace SP

theorem markAlap_size (e : Env) (fuel : Nat) (stack processed : List Nat) (σ : St) :
    (markAlap e fuel stack processed σ).1.ts.size = σ.ts.size := by
  induction fuel generalizing stack processed σ with
  | zero => unfold markAlap; rfl
  | succ f ih =>
    cases stack with
    | nil => unfold markAlap; rfl
    | cons t stack =>
      unfold markAlap
      simp only []
      split
      · exact ih _ _ _
      · split
        · exact ih _ _ _
        · split
          · exact ih _ _ _
          · rw [ih, size_setT]

theorem propagateAlap_size (e : Env) (σ : St) : (propagateAlap e σ).ts.size = σ.ts.size := by
  unfold propagateAlap
  simp only []
  have : ∀ (l : List Nat) (acc : St × List Nat),
      (l.foldl (fun (acc : St × List Nat) a =>
        markAlap e (e.tasks.size * e.tasks.size + e.tasks.size + 1)
          (((e.taskD a).deps.map (·.target)).filter (fun p => !(if acc.2.contains a then acc.2 else a :: acc.2).contains p))
          (if acc.2.contains a then acc.2 else a :: acc.2) acc.1) acc).1.ts.size = acc.1.ts.size := by
    intro l
    induction l with
    | nil => intro acc; rfl
    | cons x xs ih =>
      intro acc
      simp only [List.foldl_cons]
      rw [ih, markAlap_size]
  exact this _ (σ, [])

theorem preLoop_size (e : Env) (σ : St) : (preLoop e σ).ts.size = σ.ts.size := by
  unfold preLoop milestonePrepass
  rw [updateContainers_size, propagateAlap_size, foldl_setT_size]

theorem prepare_size (e : Env) (σ : St) : (prepare e σ).ts.size = σ.ts.size := by
  unfold prepare propagateContainerEnds
  rw [foldl_setT_size, foldl_setT_size]

theorem initState_size (e : Env) : (initState e).ts.size = e.tasks.size := by
  unfold initState; simp

theorem todoOf_mem (e : Env) (σ : St) (t : Nat) (h : t ∈ todoOf e σ) :
    t < e.tasks.size ∧ (σ.tst t).scheduled = false := by
  unfold todoOf at h
  have h1 : t ∈ (List.range e.tasks.size).filter (fun t => (e.taskD t).leaf && !(σ.tst t).scheduled) :=
    (List.mergeSort_perm _ _).mem_iff.mp h
  simp only [List.mem_filter, List.mem_range, Bool.and_eq_true, Bool.not_eq_true'] at h1
  exact ⟨h1.1, h1.2.2⟩

/-- a whole scenario started with no task done -/
theorem scheduleScenario_depsOK (e : Env) (wf : WF e) (σ : St) (hd : DoneFalse σ) (hsz : σ.ts.size = e.tasks.size) :
    DepsOK e (scheduleScenario e σ) := by
  unfold scheduleScenario
  simp only []
  have h2 : DepInv e (preLoop e σ) (todoOf e (preLoop e σ)) := by
    refine ⟨todoOf_nodup e _, todoOf_leaf e _, ?_, ?_, ?_⟩
    · intro t ht; rw [preLoop_size, hsz]; exact (todoOf_mem e _ t ht).1
    · intro t ht; exact ⟨(todoOf_mem e _ t ht).2, preLoop_doneFalse e σ hd t⟩
    · intro t _ hdone
      rw [preLoop_doneFalse e σ hd t] at hdone
      exact Bool.noConfusion hdone
  have h3 := pickLoop_depsOK e wf ((todoOf e (preLoop e σ)).length + 1) (todoOf e (preLoop e σ)) [] (preLoop e σ) h2
  split
  · exact h3
  · exact DepsOK.of_ts (σ := (pickLoop e ((todoOf e (preLoop e σ)).length + 1) (todoOf e (preLoop e σ)) [] (preLoop e σ)).1) rfl h3

/-- **C04, forward mode, end to end.**  After scheduling any well-formed project: every completed forward effort task
    without a start of its own starts at or after `(start | end) + gap` of every leaf predecessor named by one of its
    edges — own, inherited from enclosing containers, or created by `precedes` on the other side — and every such
    predecessor is scheduled. -/
theorem runScenario_depsOK (e : Env) (wf : WF e) : DepsOK e (runScenario e) := by
  unfold runScenario
  have h := scheduleScenario_depsOK e wf (prepare e (initState e)) (prepare_doneFalse e _ (doneFalse_init e))
    (by rw [prepare_size, initState_size])
  intro t hel hd hfw dp hdp hxl
  rw [finishScenario_leafT e _ t hel.leaf] at hd hfw ⊢
  obtain ⟨hxs, hineq⟩ := h t hel hd hfw dp hdp hxl
  have hx := finishScenario_leafT e (scheduleScenario e (prepare e (initState e))) dp.target hxl
  refine ⟨by rw [hx]; exact hxs, fun dt v hdt hv => hineq dt v ?_ hv⟩
  unfold dateOf at hdt ⊢; rw [hx] at hdt; exact hdt

end SP
