import Proofs.NoIdleGlobal
import Proofs.Order
/-!
C07, earliest fit, for whole scenarios: there is a linear order of the tasks (the order in which the loop placed them) such
that every forward effort task with a single unlimited resource is an *earliest fit against the tasks before it in that
order*: between the slot of its dependency bound and any slot it is booked in, every working slot of the resource carries
the task itself or a task placed earlier — it never leaves a slot to a task placed later.
-/
namespace SP

/-- every ledger entry belongs to a task of the list `S` -/
def Owned (S : List Nat) (σ : St) : Prop := ∀ r i x, x ∈ (σ.led.get r i).usage → x.1 ∈ S

theorem owned_closed (e : Env) (S : List Nat) : Closed e (Owned S) (fun t => t ∈ S) where
  eq := by intro σ σ' hl _ _ h; unfold Owned at *; rw [hl]; exact h
  reserve := by
    intro σ r i off _ _ _ h r' i' x hx
    unfold reserveAt at hx
    simp only [Ledger.get_set] at hx
    split at hx
    · rename_i heq; rw [reserve_usage] at hx; exact h r i x hx
    · exact h r' i' x hx
  release := by
    intro σ r i t a hT _ _ _ h r' i' x hx
    have hx' : x ∈ ((σ.led.set r i ((σ.led.get r i).release t a)).get r' i').usage := hx
    simp only [Ledger.get_set] at hx'
    split at hx'
    · unfold Slot.release at hx'
      cases hu : usageOf (σ.led.get r i).usage t with
      | none => simp only [hu] at hx'; exact h r i x hx'
      | some b =>
        simp only [hu] at hx'
        split at hx'
        · rcases mem_setUsage hx' with h1 | h1
          · exact h r i x h1
          · rw [h1]; exact hT
        · exact h r i x hx'
    · exact h r' i' x hx'
  book := by
    intro σ r i t hT _ _ _ _ _ _ h r' i' x hx
    rw [bookSlot_eq, incAll_led] at hx
    simp only [Ledger.get_set] at hx
    split at hx
    · simp only [Slot.book, List.mem_append, List.mem_singleton] at hx
      rcases hx with h1 | h1
      · exact h r i x h1
      · rw [h1]; exact hT
    · exact h r' i' x hx

theorem Owned.mono {S S' : List Nat} {σ : St} (h : Owned S σ) (hs : ∀ x ∈ S, x ∈ S') : Owned S' σ :=
  fun r i x hx => hs _ (h r i x hx)

theorem usageOf_none_ne {u : List (Nat × Rat)} {t : Nat} (h : usageOf u t = none) : ∀ x ∈ u, x.1 ≠ t := by
  intro x hx heq
  unfold usageOf at h
  simp only [Option.map_eq_none_iff, List.find?_eq_none] at h
  have := h x hx
  simp [heq] at this

theorem usageOf_of_mem {u : List (Nat × Rat)} {x : Nat × Rat} (hx : x ∈ u) : usageOf u x.1 ≠ none := by
  intro h
  exact usageOf_none_ne h x hx rfl

/-- a forward walk has not yet touched the slots from its cursor on -/
theorem walkVisits_ahead (e : Env) (t : Nat) (fuel : Nat) (σ : St) (w : Walk) (r' : Nat) :
    ∀ p ∈ walkVisits e t fuel σ w, ∀ i', p.2.cur ≤ i' → p.1.led.get r' i' = σ.led.get r' i' := by
  induction fuel generalizing σ w with
  | zero => intro p hp; simp [walkVisits] at hp
  | succ f ih =>
    unfold walkVisits
    intro p hp i' hi'
    rcases List.mem_cons.mp hp with hp | hp
    · subst hp; rfl
    · split at hp
      · cases hp
      · split at hp
        · cases hp
        · -- the later visits are at slots beyond w.cur
          have hk : ∃ k, k < (walkVisits e t f (scheduleSlot e σ t w).1 (advance true w (scheduleSlot e σ t w).2.1)).length ∧
              (walkVisits e t f (scheduleSlot e σ t w).1 (advance true w (scheduleSlot e σ t w).2.1))[k]? = some p := by
            obtain ⟨k, hk, hkeq⟩ := List.getElem_of_mem hp
            exact ⟨k, hk, by rw [List.getElem?_eq_getElem hk, hkeq]⟩
          obtain ⟨k, hk, hkeq⟩ := hk
          have hc := walkVisits_consecutive e t f _ _ k hk
          rw [List.getElem?_eq_getElem hk] at hkeq
          have hpe : (walkVisits e t f (scheduleSlot e σ t w).1 (advance true w (scheduleSlot e σ t w).2.1))[k] = p := by
            simpa using hkeq
          rw [hpe, advance_cur, scheduleSlot_cur] at hc
          simp only [if_true] at hc
          rw [ih _ _ p hp i' hi', scheduleSlot_other e σ t w r' i' (by omega)]

/-- **along the walk**: every visited working slot ends up carrying the task itself or a task that was in the ledger before
    the walk began -/
theorem walkLoop_fit (e : Env) (wf : WF e) (t r : Nat) (placed : List Nat) (fuel : Nat) (σ : St) (w : Walk) (vis : List Int)
    (hinv : Inv e σ) (hs : Solid e σ) (hlf : (e.taskD t).leaf = true) (hw : WalkOk e t w) (hin : WalkIn e w)
    (ha : (e.taskD t).hasAlloc = true) (hm : (e.taskD t).milestone = false)
    (hsel : selectedOf e σ t w = [r]) (hlt : w.done < (e.taskD t).effort) (hpos : 0 < (e.taskD t).effort)
    (h : FInv e σ t r w vis) (hok : (walkLoop e t true fuel σ w).2.2 = true)
    (hleaf : (e.resD r).leaf = true)
    (hown : Owned placed σ) (hnp : t ∉ placed) :
    ∀ p ∈ walkVisits e t fuel σ w, e.onShift r p.2.cur = true → e.leaveMark r p.2.cur = false →
      usageOf ((walkLoop e t true fuel σ w).1.led.get r p.2.cur).usage t ≠ none ∨
      (∃ t' ∈ placed, usageOf ((walkLoop e t true fuel σ w).1.led.get r p.2.cur).usage t' ≠ none) ∨
      Exhausted e (walkLoop e t true fuel σ w).1 t r p.2.cur := by
  intro p hp hon hnl
  have hiff := walkLoop_no_idle e wf t r fuel σ w vis hinv hlf hw ha hm hsel hlt hpos h hok p hp
  by_cases hg : gate e p.1 t p.2 r = true
  · exact Or.inl (hiff.mpr hg)
  · right
    have hg' : gate e p.1 t p.2 r = false := by simpa using hg
    obtain ⟨hi1, hs1, hw1, hin1⟩ := walkVisits_inv e wf t fuel σ w hinv hs hlf hw hin p hp
    rcases gate_closed_has e wf p.1 t p.2 r hi1 hs1 hw1 hin1 hleaf hon hnl hg' with hhas | hex
    · left
      unfold Has at hhas
      rw [walkVisits_ahead e t fuel σ w r p hp p.2.cur (Int.le_refl _)] at hhas
      obtain ⟨x, hx⟩ := List.exists_mem_of_ne_nil _ hhas
      have hxp := hown r p.2.cur x hx
      have hne : t ≠ x.1 := fun heq => hnp (heq ▸ hxp)
      refine ⟨x.1, hxp, ?_⟩
      rw [walkLoop_same e t true fuel σ w x.1 hne r p.2.cur]
      exact usageOf_of_mem hx
    · right
      obtain ⟨f', hf'⟩ := walkVisits_suffix e t fuel σ w p hp
      rw [hf']
      exact exhausted_closed_step (fun lid ro hr =>
        closed_walkLoop (refuses_closed e lid p.2.cur ro) wf t true f' p.1 p.2 hi1 hlf trivial hw1 hin1 hr) hex

/-- how a task fits: between the bound slot and any slot it is booked in, a working slot of `r` carries the task or one of `pre` -/
def FitAt (e : Env) (σ : St) (t r : Nat) (pre : List Nat) : Prop :=
  ∀ L, usageOf (σ.led.get r L).usage t ≠ none →
    ∀ i, boundSlot e σ t ≤ i → i ≤ L → e.onShift r i = true → e.leaveMark r i = false →
      usageOf (σ.led.get r i).usage t ≠ none ∨ (∃ t' ∈ pre, usageOf (σ.led.get r i).usage t' ≠ none) ∨ Exhausted e σ t r i

/-- **one forward task**: an earliest fit against what is in the ledger when it is placed -/
theorem scheduleTask_fit_sel (e : Env) (wf : WF e) (σ : St) (t r : Nat) (placed : List Nat)
    (hinv : Inv e σ) (hs : Solid e σ) (hlf : (e.taskD t).leaf = true) (hal : (e.taskD t).hasAlloc = true)
    (hnm : (e.taskD t).milestone = false) (hpos : 0 < (e.taskD t).effort)
    (hsel1 : selectBest e (σ.setT t (σ.tst t)) (e.taskD t).alloc (e.taskD t).alt (e.taskD t).effort (initCursor e σ t).1 = [r])
    (hb : t < σ.ts.size) (hf : (σ.tst t).forward = true)
    (hnd : (σ.tst t).done = false) (hclean : ∀ i, usageOf (σ.led.get r i).usage t = none)
    (hleaf : (e.resD r).leaf = true)
    (hown : Owned placed σ) (hnp : t ∉ placed)
    (hok : (scheduleTask e σ t).2 = true) :
    ∀ L, usageOf ((scheduleTask e σ t).1.led.get r L).usage t ≠ none →
      ∀ i, (initCursor e σ t).1 ≤ i → i ≤ L → e.onShift r i = true → e.leaveMark r i = false →
        usageOf ((scheduleTask e σ t).1.led.get r i).usage t ≠ none ∨
        (∃ t' ∈ placed, usageOf ((scheduleTask e σ t).1.led.get r i).usage t' ≠ none) ∨
        Exhausted e (scheduleTask e σ t).1 t r i := by
  have hpc : preStartCursor e σ t (initCursor e σ t).1 = (initCursor e σ t).1 := by
    unfold preStartCursor; simp [hal]
  have hpt : preStartT e σ t (initCursor e σ t).1 = σ.tst t := by
    unfold preStartT; simp [hal]
  have hoff := initCursor_off e σ t wf
  unfold scheduleTask at hok ⊢
  simp only [hnd, Bool.false_eq_true, if_false, hpc, hpt, hf] at hok ⊢
  have h0 : Inv e (σ.setT t (σ.tst t)) := inv_setT _ _ hinv
  have hs0 : Solid e (σ.setT t (σ.tst t)) := (solid_closed e wf).setT σ t _ hs
  have hown0 : Owned placed (σ.setT t (σ.tst t)) := hown
  by_cases hout : ((initCursor e σ t).1 < 0 || (initCursor e σ t).1 > e.upper) = true
  · simp only [hout, if_true] at hok
    exact Bool.noConfusion hok
  · simp only [hout, Bool.false_eq_true, if_false] at hok ⊢
    have hw : WalkOk e t { cur := (initCursor e σ t).1, offset := (initCursor e σ t).2 } :=
      ⟨hoff.1, hoff.2, wf.effort_nonneg t⟩
    have hin : WalkIn e { cur := (initCursor e σ t).1, offset := (initCursor e σ t).2 } := by
      simp only [Bool.or_eq_true, decide_eq_true_eq, not_or, Int.not_lt] at hout
      exact ⟨hout.1, initCursor_room e σ t wf, hout.2⟩
    have hfi : FInv e (σ.setT t (σ.tst t)) t r { cur := (initCursor e σ t).1, offset := (initCursor e σ t).2 } [] := by
      refine ⟨⟨fun i _ => hclean i, fun i hi => absurd hi List.not_mem_nil,
          by show (0 : Rat) = sumOver _ r t [] / 3600 * (e.resD r).eff; simp only [sumOver]; grind, List.nodup_nil⟩,
        by rw [size_setT]; exact hb, by rw [tst_setT_same _ _ _ hb]; exact hf, Rat.le_refl,
        ⟨fun _ i hi => absurd hi List.not_mem_nil, fun hne => absurd rfl hne⟩⟩
    have hsel0 : selectedOf e (σ.setT t (σ.tst t)) t { cur := (initCursor e σ t).1, offset := (initCursor e σ t).2 } = [r] := by
      unfold selectedOf; exact hsel1
    by_cases hfin : (walkLoop e t true (e.size.toNat + 3) (σ.setT t (σ.tst t))
        { cur := (initCursor e σ t).1, offset := (initCursor e σ t).2 }).2.2 = true
    · simp only [hfin, Bool.not_true, Bool.false_eq_true, if_false] at hok ⊢
      intro L hL i hci hiL hon hnl
      have hLvis : ∃ p ∈ walkVisits e t (e.size.toNat + 3) (σ.setT t (σ.tst t))
          { cur := (initCursor e σ t).1, offset := (initCursor e σ t).2 }, p.2.cur = L := by
        apply Classical.byContradiction
        intro hno
        have hno' : ∀ p ∈ walkVisits e t (e.size.toNat + 3) (σ.setT t (σ.tst t))
            { cur := (initCursor e σ t).1, offset := (initCursor e σ t).2 }, p.2.cur ≠ L :=
          fun p hp heq => hno ⟨p, hp, heq⟩
        have := walkLoop_unvisited e t _ _ _ r L hno'
        apply hL
        show usageOf ((walkLoop e t true (e.size.toNat + 3) (σ.setT t (σ.tst t))
          { cur := (initCursor e σ t).1, offset := (initCursor e σ t).2 }).1.led.get r L).usage t = none
        rw [this]
        exact hclean L
      obtain ⟨pL, hpL, hcurL⟩ := hLvis
      obtain ⟨k, hk, hkeq⟩ := List.getElem_of_mem hpL
      have hkc := walkVisits_consecutive e t _ _ _ k hk
      rw [hkeq, hcurL] at hkc
      simp only [] at hkc
      have hj : (i - (initCursor e σ t).1).toNat < (walkVisits e t (e.size.toNat + 3) (σ.setT t (σ.tst t))
          { cur := (initCursor e σ t).1, offset := (initCursor e σ t).2 }).length := by omega
      have hjc := walkVisits_consecutive e t _ _ _ _ hj
      simp only [] at hjc
      have hcur : ((walkVisits e t (e.size.toNat + 3) (σ.setT t (σ.tst t))
          { cur := (initCursor e σ t).1, offset := (initCursor e σ t).2 })[(i - (initCursor e σ t).1).toNat]).2.cur = i := by
        rw [hjc]; omega
      have := walkLoop_fit e wf t r placed _ _ _ [] h0 hs0 hlf hw hin hal hnm hsel0 hpos hpos hfi hfin
        hleaf hown0 hnp _ (List.getElem_mem hj) (by rw [hcur]; exact hon) (by rw [hcur]; exact hnl)
      rw [hcur] at this
      exact this
    · have hfin' : (walkLoop e t true (e.size.toNat + 3) (σ.setT t (σ.tst t))
        { cur := (initCursor e σ t).1, offset := (initCursor e σ t).2 }).2.2 = false := by simpa using hfin
      simp only [hfin', Bool.not_false, if_true] at hok
      exact Bool.noConfusion hok

/-- the same for a task whose selection is `[r]` in every state -/
theorem scheduleTask_fit (e : Env) (wf : WF e) (σ : St) (t r : Nat) (placed : List Nat)
    (hinv : Inv e σ) (hs : Solid e σ) (hel : Elig e t r) (hb : t < σ.ts.size) (hf : (σ.tst t).forward = true)
    (hnd : (σ.tst t).done = false) (hclean : ∀ i, usageOf (σ.led.get r i).usage t = none)
    (hleaf : (e.resD r).leaf = true)
    (hown : Owned placed σ) (hnp : t ∉ placed)
    (hok : (scheduleTask e σ t).2 = true) :
    ∀ L, usageOf ((scheduleTask e σ t).1.led.get r L).usage t ≠ none →
      ∀ i, (initCursor e σ t).1 ≤ i → i ≤ L → e.onShift r i = true → e.leaveMark r i = false →
        usageOf ((scheduleTask e σ t).1.led.get r i).usage t ≠ none ∨
        (∃ t' ∈ placed, usageOf ((scheduleTask e σ t).1.led.get r i).usage t' ≠ none) ∨
        Exhausted e (scheduleTask e σ t).1 t r i :=
  scheduleTask_fit_sel e wf σ t r placed hinv hs hel.leaf hel.alloc hel.nomile hel.effort (hel.sel _ _) hb hf hnd hclean hleaf
    hown hnp hok

/-! ### the pick loop, with the order of placement as a ghost -/

/-- `placed` lists the tasks the loop has processed, the latest first -/
def DoneFit (e : Env) (σ : St) (placed : List Nat) : Prop :=
  ∀ t r, EligU e t r → (σ.tst t).done = true → (σ.tst t).forward = true →
    ∃ post pre, placed = post ++ t :: pre ∧ FitAt e σ t r pre

/-- why `t` was not placed before `t0` although it was still waiting when `t0` was picked (`pre` = the tasks placed before `t0`):
    `t0` ranks at or before `t` in the priority order; or `t` is not in forward mode; or one of `t`'s predecessors is a
    container, or had not been placed yet, or had been placed and could not be scheduled -/
def Reason (e : Env) (σ : St) (t0 : Nat) (pre : List Nat) (t : Nat) : Prop :=
  prioLe e t0 t = true ∨ (σ.tst t).forward = false ∨
  ∃ dp ∈ (e.taskD t).allDeps, (e.taskD dp.target).leaf = false ∨ dp.target ∉ pre ∨
    (dp.target ∈ pre ∧ (σ.tst dp.target).scheduled = false)

/-- the placement order respects the priority order: whoever is placed after `t0` had a reason -/
def PlaceOrder (e : Env) (σ : St) (placed rest : List Nat) : Prop :=
  ∀ post pre t0, placed = post ++ t0 :: pre → ∀ t, (t ∈ rest ∨ t ∈ post) → Reason e σ t0 pre t

structure FitInv (e : Env) (σ : St) (tasks placed : List Nat) : Prop where
  sorted : tasks.Pairwise (fun a b => prioLe e a b = true)
  placedLeaf : ∀ t ∈ placed, (e.taskD t).leaf = true
  ord : PlaceOrder e σ placed tasks
  inv : Inv e σ
  solid : Solid e σ
  owned : Owned placed σ
  nodup : tasks.Nodup
  leaf : ∀ t ∈ tasks, (e.taskD t).leaf = true
  inrange : ∀ t ∈ tasks, t < σ.ts.size
  pending : ∀ t ∈ tasks, t ∉ placed ∧ (σ.tst t).scheduled = false ∧ (σ.tst t).done = false ∧
    (∀ r i, usageOf (σ.led.get r i).usage t = none) ∧ (EffLeaf e t → (σ.tst t).start = (e.taskD t).start)
  deps : ∀ t, (e.taskD t).leaf = true → (σ.tst t).done = true → (σ.tst t).forward = true →
    ∀ dp ∈ (e.taskD t).allDeps, (σ.tst dp.target).scheduled = true
  ok : DoneFit e σ placed

theorem fitInv_step (e : Env) (wf : WF e) (σ : St) (tasks placed : List Nat) (t0 : Nat) (h : FitInv e σ tasks placed)
    (hfind : tasks.find? (fun t => ready e σ t) = some t0) :
    FitInv e (updateContainers e (scheduleTask e σ t0).1) (tasks.erase t0) (t0 :: placed) := by
  have hmem : t0 ∈ tasks := List.mem_of_find?_eq_some hfind
  have hready : ready e σ t0 = true := by
    have := List.find?_some hfind; simpa using this
  have hlf0 := h.leaf t0 hmem
  obtain ⟨hnp0, hus0, hnd0, hclean0, hstart0⟩ := h.pending t0 hmem
  have hinv1 := scheduleTask_inv e σ t0 wf h.inv hlf0
  have hsame : ∀ x, x ≠ t0 → ((e.taskD x).leaf = true ∨ (σ.tst x).scheduled = true) →
      (updateContainers e (scheduleTask e σ t0).1).tst x = σ.tst x := by
    intro x hne hx
    rw [updateContainers_fixed e _ x (by rw [scheduleTask_other e σ t0 x hne]; exact hx), scheduleTask_other e σ t0 x hne]
  have hown1 : Owned (t0 :: placed) (updateContainers e (scheduleTask e σ t0).1) :=
    closed_updateContainers (owned_closed e (t0 :: placed)) _
      (closed_scheduleTask (owned_closed e (t0 :: placed)) wf σ t0 h.inv hlf0 List.mem_cons_self
        (h.owned.mono (fun x hx => List.mem_cons_of_mem _ hx)))
  -- the attributes a reason refers to are frozen
  have hreason : ∀ t1 pre t, (e.taskD t).leaf = true → (∀ x ∈ pre, x ∈ placed) →
      Reason e σ t1 pre t → Reason e (updateContainers e (scheduleTask e σ t0).1) t1 pre t := by
    intro t1 pre t htl hpre hr
    rcases hr with h1 | h1 | ⟨dp, hdp, h1⟩
    · exact Or.inl h1
    · right; left
      by_cases htt : t = t0
      · rw [htt, updateContainers_leaf e _ t0 hlf0, scheduleTask_self_forward, ← htt]; exact h1
      · rw [hsame t htt (Or.inl htl)]; exact h1
    · right; right
      refine ⟨dp, hdp, ?_⟩
      rcases h1 with h2 | h2 | ⟨h2, h3⟩
      · exact Or.inl h2
      · exact Or.inr (Or.inl h2)
      · right; right
        refine ⟨h2, ?_⟩
        have hpl := hpre _ h2
        have hne : dp.target ≠ t0 := fun hx => hnp0 (hx ▸ hpl)
        rw [hsame dp.target hne (Or.inl (h.placedLeaf _ hpl))]; exact h3
  refine ⟨(h.sorted.sublist List.erase_sublist), ?_, ?_, updateContainers_inv e _ hinv1,
    closed_updateContainers (solid_closed e wf) _ (closed_scheduleTask (solid_closed e wf) wf σ t0 h.inv hlf0 trivial h.solid),
    hown1, h.nodup.erase t0, fun t ht => h.leaf t (List.mem_of_mem_erase ht), ?_, ?_, ?_, ?_⟩
  · intro t ht
    rcases List.mem_cons.mp ht with h1 | h1
    · rw [h1]; exact hlf0
    · exact h.placedLeaf t h1
  · -- the placement order
    intro post pre t1 hsplit t ht
    cases post with
    | nil =>
      -- t1 = t0 is the task just picked: everything still waiting has a reason
      simp only [List.nil_append, List.cons.injEq] at hsplit
      obtain ⟨h1, h2⟩ := hsplit
      subst h1; subst h2
      rcases ht with ht | ht
      · have htm : t ∈ tasks := List.mem_of_mem_erase ht
        have hne : t ≠ t0 := fun heq => by
          rw [heq] at ht; exact (List.Nodup.not_mem_erase h.nodup) ht
        have htl := h.leaf t htm
        apply hreason t0 placed t htl (fun x hx => hx)
        obtain ⟨_, l1, l2, hl, hnr⟩ := picks_first_ready e σ tasks t0 hfind
        rw [hl] at htm
        rcases List.mem_append.mp htm with hin | hin
        · -- ranked before t0 and not ready
          have hr := hnr t hin
          by_cases hfw : (σ.tst t).forward = true
          · right; right
            unfold ready asapReady at hr
            simp only [hfw, if_true] at hr
            obtain ⟨dp, hdp, hns⟩ := not_all_exists _ _ (by rw [hr]; exact Bool.false_ne_true)
            refine ⟨dp, hdp, ?_⟩
            by_cases hlf : (e.taskD dp.target).leaf = true
            · by_cases hp : dp.target ∈ placed
              · exact Or.inr (Or.inr ⟨hp, hns⟩)
              · exact Or.inr (Or.inl hp)
            · exact Or.inl (by simpa using hlf)
          · exact Or.inr (Or.inl (by simpa using hfw))
        · -- ranked after t0
          rcases List.mem_cons.mp hin with h1 | h1
          · exact absurd h1 hne
          · left
            have hs := h.sorted
            rw [hl] at hs
            have := (List.pairwise_append.mp hs).2.1
            exact (List.pairwise_cons.mp this).1 t h1
      · cases ht
    | cons p ps =>
      simp only [List.cons_append, List.cons.injEq] at hsplit
      obtain ⟨h1, h2⟩ := hsplit
      subst h1
      have hpre : ∀ x ∈ pre, x ∈ placed := fun x hx => by rw [h2]; exact List.mem_append_right _ (List.mem_cons_of_mem _ hx)
      rcases ht with ht | ht
      · have htm : t ∈ tasks := List.mem_of_mem_erase ht
        exact hreason t1 pre t (h.leaf t htm) hpre (h.ord ps pre t1 h2 t (Or.inl htm))
      · rcases List.mem_cons.mp ht with h3 | h3
        · rw [h3]
          exact hreason t1 pre t0 hlf0 hpre (h.ord ps pre t1 h2 t0 (Or.inl hmem))
        · have hpl : t ∈ placed := by rw [h2]; exact List.mem_append_left _ h3
          exact hreason t1 pre t (h.placedLeaf t hpl) hpre (h.ord ps pre t1 h2 t (Or.inr h3))
  · intro t ht
    rw [updateContainers_size, scheduleTask_size]; exact h.inrange t (List.mem_of_mem_erase ht)
  · intro t ht
    have htm : t ∈ tasks := List.mem_of_mem_erase ht
    have hne : t ≠ t0 := fun heq => by
      rw [heq] at ht; exact (List.Nodup.not_mem_erase h.nodup) ht
    obtain ⟨h0, h1, h2, h3, h4⟩ := h.pending t htm
    rw [hsame t hne (Or.inl (h.leaf t htm))]
    refine ⟨fun hin => ?_, h1, h2, fun r i => ?_, h4⟩
    · rcases List.mem_cons.mp hin with h5 | h5
      · exact hne h5
      · exact h0 h5
    · rw [updateContainers_led, scheduleTask_same e σ t0 t (Ne.symm hne) r i]
      exact h3 r i
  · -- predecessors of completed tasks are scheduled
    intro t hlft hd hfw dp hdp
    by_cases heq : t = t0
    · subst heq
      rw [updateContainers_leaf e _ t hlft] at hfw
      rw [scheduleTask_self_forward] at hfw
      have hxs := ready_forward_deps e σ t hfw hready dp hdp
      rw [hsame dp.target (fun hx => by rw [hx, hus0] at hxs; exact Bool.noConfusion hxs) (Or.inr hxs)]
      exact hxs
    · rw [hsame t heq (Or.inl hlft)] at hd hfw
      have hxs := h.deps t hlft hd hfw dp hdp
      rw [hsame dp.target (fun hx => by rw [hx, hus0] at hxs; exact Bool.noConfusion hxs) (Or.inr hxs)]
      exact hxs
  · intro t r hel hd hfw
    by_cases heq : t = t0
    · subst heq
      rw [updateContainers_leaf e _ t hel.el.leaf] at hd hfw
      rw [scheduleTask_self_forward] at hfw
      have hok := scheduleTask_done e σ t hnd0 hd
      have hdeps := ready_forward_deps e σ t hfw hready
      have htgt : ∀ dp ∈ (e.taskD t).allDeps, (updateContainers e (scheduleTask e σ t).1).tst dp.target = σ.tst dp.target := by
        intro dp hdp
        have hxs := hdeps dp hdp
        exact hsame dp.target (fun hx => by rw [hx, hus0] at hxs; exact Bool.noConfusion hxs) (Or.inr hxs)
      refine ⟨[], placed, rfl, ?_⟩
      intro L hL i hbi hiL hon hnl
      rw [boundSlot_congr e σ _ t (fun dp hdp => by rw [htgt dp hdp]; exact ⟨rfl, rfl⟩)] at hbi
      have hstart := hstart0 ⟨hel.el.leaf, hel.el.effort, hel.el.nomile⟩
      have hic : (initCursor e σ t).1 = boundSlot e σ t := by
        rw [initCursor_forward e σ t hfw hel.nostart]
        unfold boundSlot boundOf baseOf
        rw [hstart]
        cases (e.taskD t).start <;> rfl
      have := scheduleTask_fit e wf σ t r placed h.inv h.solid hel.el (h.inrange t hmem) hfw hnd0 (hclean0 r)
        hel.rleaf h.owned hnp0 hok L (by rw [updateContainers_led] at hL; exact hL) i (by rw [hic]; exact hbi) hiL hon hnl
      rw [updateContainers_led]
      rcases this with h1 | h1 | h1
      · exact Or.inl h1
      · exact Or.inr (Or.inl h1)
      · exact Or.inr (Or.inr (exhausted_closed_step (fun lid ro hr =>
          closed_updateContainers (refuses_closed e lid i ro) _ hr) h1))
    · have htsame := hsame t heq (Or.inl hel.el.leaf)
      rw [htsame] at hd hfw
      obtain ⟨post, pre, hsplit, hfit⟩ := h.ok t r hel hd hfw
      have hdeps := h.deps t hel.el.leaf hd hfw
      have htgt : ∀ dp ∈ (e.taskD t).allDeps, (updateContainers e (scheduleTask e σ t0).1).tst dp.target = σ.tst dp.target := by
        intro dp hdp
        have hxs := hdeps dp hdp
        exact hsame dp.target (fun hx => by rw [hx, hus0] at hxs; exact Bool.noConfusion hxs) (Or.inr hxs)
      refine ⟨t0 :: post, pre, by rw [hsplit]; rfl, ?_⟩
      intro L hL i hbi hiL hon hnl
      rw [boundSlot_congr e σ _ t (fun dp hdp => by rw [htgt dp hdp]; exact ⟨rfl, rfl⟩)] at hbi
      rw [updateContainers_led, scheduleTask_same e σ t0 t (Ne.symm heq) r L] at hL
      rw [updateContainers_led, scheduleTask_same e σ t0 t (Ne.symm heq) r i]
      rcases hfit L hL i hbi hiL hon hnl with h1 | ⟨t', ht', h1⟩ | h1
      · exact Or.inl h1
      · right; left
        refine ⟨t', ht', ?_⟩
        have hne : t0 ≠ t' := by
          intro h5
          apply hnp0
          rw [hsplit, h5]
          exact List.mem_append_right _ (List.mem_cons_of_mem _ ht')
        rw [scheduleTask_same e σ t0 t' hne r i]
        exact h1
      · right; right
        exact exhausted_closed_step (fun lid ro hr =>
          closed_updateContainers (refuses_closed e lid i ro) _
            (closed_scheduleTask (refuses_closed e lid i ro) wf σ t0 h.inv hlf0 trivial hr)) h1

/-- what the pick loop establishes: the earliest-fit statement and the placement order, for the order `placed` and the tasks
    `rest` it never placed -/
def Placement (e : Env) (σ : St) (placed rest : List Nat) : Prop :=
  DoneFit e σ placed ∧ PlaceOrder e σ placed rest ∧ (∀ t ∈ placed, (e.taskD t).leaf = true) ∧ (∀ t ∈ rest, (e.taskD t).leaf = true)

theorem FitInv.placement {e : Env} {σ : St} {tasks placed : List Nat} (h : FitInv e σ tasks placed) :
    Placement e σ placed tasks := ⟨h.ok, h.ord, h.placedLeaf, h.leaf⟩

theorem pickLoop_placement (e : Env) (wf : WF e) (fuel : Nat) (tasks failed placed : List Nat) (σ : St)
    (h : FitInv e σ tasks placed) : ∃ placed' rest, Placement e (pickLoop e fuel tasks failed σ).1 placed' rest := by
  induction fuel generalizing tasks failed placed σ with
  | zero => exact ⟨placed, tasks, h.placement⟩
  | succ f ih =>
    unfold pickLoop
    split
    · exact ⟨placed, tasks, h.placement⟩
    · split
      · rename_i t0 hfind
        exact ih _ _ _ _ (fitInv_step e wf σ tasks placed t0 h hfind)
      · split
        · exact ⟨placed, tasks, h.placement⟩
        · exact ⟨placed, tasks, h.placement⟩

/-- the invariant holds when the loop starts -/
theorem fitInv_init (e : Env) (wf : WF e) (σ : St) (hinv : Inv e σ) (hs : Solid e σ) (hd : DoneFalse σ)
    (hsz : σ.ts.size = e.tasks.size) (hempty : ∀ r i, (σ.led.get r i).usage = []) (hst : StartAttr e σ) :
    FitInv e (preLoop e σ) (todoOf e (preLoop e σ)) [] := by
  refine ⟨todo_sorted e _, fun t ht => absurd ht List.not_mem_nil, ?_,
    preLoop_inv e σ hinv, closed_preLoop (solid_closed e wf) σ hs, ?_, todoOf_nodup e _, todoOf_leaf e _, ?_, ?_, ?_, ?_⟩
  · intro post pre t0 hsplit
    cases post <;> cases hsplit
  · intro r i x hx
    rw [preLoop_led, hempty r i] at hx; cases hx
  · intro t ht; rw [preLoop_size, hsz]; exact (todoOf_mem e _ t ht).1
  · intro t ht
    refine ⟨List.not_mem_nil, (todoOf_mem e _ t ht).2, preLoop_doneFalse e σ hd t, fun r i => ?_,
      fun hel => preLoop_startAttr e σ hst t hel⟩
    rw [preLoop_led, hempty r i]; rfl
  · intro t _ hdone
    rw [preLoop_doneFalse e σ hd t] at hdone
    exact Bool.noConfusion hdone
  · intro t r _ hdone
    rw [preLoop_doneFalse e σ hd t] at hdone
    exact Bool.noConfusion hdone

theorem scheduleScenario_placement (e : Env) (wf : WF e) (σ : St) (hinv : Inv e σ) (hs : Solid e σ) (hd : DoneFalse σ)
    (hsz : σ.ts.size = e.tasks.size) (hempty : ∀ r i, (σ.led.get r i).usage = []) (hst : StartAttr e σ) :
    ∃ placed rest, Placement e (scheduleScenario e σ) placed rest := by
  unfold scheduleScenario
  simp only []
  have h2 := fitInv_init e wf σ hinv hs hd hsz hempty hst
  obtain ⟨placed, rest, h3⟩ := pickLoop_placement e wf ((todoOf e (preLoop e σ)).length + 1) (todoOf e (preLoop e σ)) [] [] (preLoop e σ) h2
  refine ⟨placed, rest, ?_⟩
  split
  · exact h3
  · exact h3

/-- **C07, end to end: a list schedule in priority order.**  After scheduling any well-formed project there are an order of
    placement `order` (latest first) and a list `rest` of tasks never placed such that
    (earliest fit) every completed forward effort task `t` without a start of its own with a single selected leaf resource `r`
    occurs in `order`, and between the slot of its dependency bound (from the final dates of its predecessors) and any slot in
    which it is booked, every slot in which `r` is on shift and not on leave carries `t` itself, or a task placed BEFORE `t`, or
    is refused by a limit; and
    (priority) whenever `t0` was placed and `t` was placed later or never, then `t0` ranks at or before `t` in the priority
    order (priority descending, ties in declaration order), or `t` is not in forward mode, or one of `t`'s predecessors is a
    container, or had not been placed when `t0` was picked, or had been placed and could not be scheduled. -/
theorem runScenario_placement (e : Env) (wf : WF e) (tr : Tree e) : ∃ order rest, Placement e (runScenario e) order rest := by
  unfold runScenario
  have hprep : Inv e (prepare e (initState e)) := prepare_inv e _ (inv_init e wf)
  have hsol : Solid e (prepare e (initState e)) := closed_prepare (solid_closed e wf) _ (solid_init e wf)
  have hd : DoneFalse (prepare e (initState e)) := prepare_doneFalse e _ (doneFalse_init e)
  have hempty : ∀ r i, ((prepare e (initState e)).led.get r i).usage = [] := by
    intro r i; rw [prepare_led]; simp [initState, Ledger.get_empty]
  obtain ⟨order, rest, h, hord, hpl, hrl⟩ := scheduleScenario_placement e wf _ hprep hsol hd (by rw [prepare_size, initState_size]) hempty
    (prepare_startAttr e _ (startAttr_init e))
  have hc := scheduleScenario_cont e tr
  have hsd := finishScenario_sameDates e _ hc.1 hc.2
  refine ⟨order, rest, ?_, ?_, hpl, hrl⟩
  · intro t r hel hdone hfw
    rw [finishScenario_leafT e _ t hel.el.leaf] at hdone hfw
    obtain ⟨post, pre, hsplit, hfit⟩ := h t r hel hdone hfw
    refine ⟨post, pre, hsplit, ?_⟩
    intro L hL i hbi hiL hon hnl
    rw [boundSlot_congr e (scheduleScenario e (prepare e (initState e))) _ t
      (fun dp _ => ⟨(hsd dp.target).1, (hsd dp.target).2.1⟩)] at hbi
    rw [finishScenario_led] at hL ⊢
    rcases hfit L hL i hbi hiL hon hnl with h1 | h1 | h1
    · exact Or.inl h1
    · exact Or.inr (Or.inl h1)
    · exact Or.inr (Or.inr (exhausted_closed_step (fun lid ro hr => closed_finishScenario (refuses_closed e lid i ro) _ hr) h1))
  · intro post pre t0 hsplit t ht
    have htl : (e.taskD t).leaf = true := by
      rcases ht with h1 | h1
      · exact hrl t h1
      · exact hpl t (by rw [hsplit]; exact List.mem_append_left _ h1)
    rcases hord post pre t0 hsplit t ht with h1 | h1 | ⟨dp, hdp, h1⟩
    · exact Or.inl h1
    · right; left; rw [finishScenario_leafT e _ t htl]; exact h1
    · right; right
      refine ⟨dp, hdp, ?_⟩
      rcases h1 with h2 | h2 | ⟨h2, h3⟩
      · exact Or.inl h2
      · exact Or.inr (Or.inl h2)
      · right; right
        refine ⟨h2, ?_⟩
        rw [finishScenario_leafT e _ dp.target (hpl _ (by rw [hsplit]; exact List.mem_append_right _ (List.mem_cons_of_mem _ h2)))]
        exact h3

/-- the earliest-fit half alone -/
theorem runScenario_doneFit (e : Env) (wf : WF e) (tr : Tree e) : ∃ order, DoneFit e (runScenario e) order := by
  obtain ⟨order, _, h, _⟩ := runScenario_placement e wf tr
  exact ⟨order, h⟩

end SP
