import Proofs.NoIdleGlobal
import Proofs.EffortAlt
/-!
C08, forward mode, for tasks with an alternative: on the candidate `_selectBestResources` chose at the first slot no working,
unbooked slot within the limits is left between the dependency bound and the end.
-/
namespace SP

/-- a forward effort task with one primary and one alternative resource, both leaves; the task has no start of its own -/
structure EligAltU (e : Env) (t r1 r2 : Nat) : Prop where
  el : EligAlt e t r1 r2
  nostart : (e.taskD t).startProvided = false
  leaf1 : (e.resD r1).leaf = true
  leaf2 : (e.resD r2).leaf = true

def DoneIdleAlt (e : Env) (σ : St) : Prop :=
  ∀ t r1 r2, EligAltU e t r1 r2 → (σ.tst t).done = true → (σ.tst t).forward = true →
    (∀ dp ∈ (e.taskD t).allDeps, (σ.tst dp.target).scheduled = true) ∧
    ∃ r, (r = r1 ∨ r = r2) ∧ (∃ L, usageOf (σ.led.get r L).usage t ≠ none) ∧ NoIdleAt e σ t r

structure IdleInvAlt (e : Env) (σ : St) (tasks : List Nat) : Prop where
  inv : Inv e σ
  solid : Solid e σ
  nodup : tasks.Nodup
  leaf : ∀ t ∈ tasks, (e.taskD t).leaf = true
  inrange : ∀ t ∈ tasks, t < σ.ts.size
  pending : ∀ t ∈ tasks, (σ.tst t).scheduled = false ∧ (σ.tst t).done = false ∧
    (∀ r i, usageOf (σ.led.get r i).usage t = none) ∧ (EffLeaf e t → (σ.tst t).start = (e.taskD t).start)
  ok : DoneIdleAlt e σ

theorem idleInvAlt_step (e : Env) (wf : WF e) (σ : St) (tasks : List Nat) (t0 : Nat) (h : IdleInvAlt e σ tasks)
    (hmem : t0 ∈ tasks) (hready : ready e σ t0 = true) :
    IdleInvAlt e (updateContainers e (scheduleTask e σ t0).1) (tasks.erase t0) := by
  have hlf0 := h.leaf t0 hmem
  obtain ⟨hus0, hnd0, hclean0, hstart0⟩ := h.pending t0 hmem
  have hinv1 := scheduleTask_inv e σ t0 wf h.inv hlf0
  have hsame : ∀ x, x ≠ t0 → ((e.taskD x).leaf = true ∨ (σ.tst x).scheduled = true) →
      (updateContainers e (scheduleTask e σ t0).1).tst x = σ.tst x := by
    intro x hne hx
    rw [updateContainers_fixed e _ x (by rw [scheduleTask_other e σ t0 x hne]; exact hx), scheduleTask_other e σ t0 x hne]
  refine ⟨updateContainers_inv e _ hinv1,
    closed_updateContainers (solid_closed e wf) _ (closed_scheduleTask (solid_closed e wf) wf σ t0 h.inv hlf0 trivial h.solid),
    h.nodup.erase t0, fun t ht => h.leaf t (List.mem_of_mem_erase ht), ?_, ?_, ?_⟩
  · intro t ht
    rw [updateContainers_size, scheduleTask_size]; exact h.inrange t (List.mem_of_mem_erase ht)
  · intro t ht
    have htm : t ∈ tasks := List.mem_of_mem_erase ht
    have hne : t ≠ t0 := fun heq => by
      rw [heq] at ht; exact (List.Nodup.not_mem_erase h.nodup) ht
    obtain ⟨h1, h2, h3, h4⟩ := h.pending t htm
    rw [hsame t hne (Or.inl (h.leaf t htm))]
    refine ⟨h1, h2, fun r i => ?_, h4⟩
    rw [updateContainers_led, scheduleTask_same e σ t0 t (Ne.symm hne) r i]
    exact h3 r i
  · intro t r1 r2 hel hd hfw
    by_cases heq : t = t0
    · subst heq
      rw [updateContainers_leaf e _ t hel.el.leaf] at hd hfw
      rw [scheduleTask_self_forward] at hfw
      have hok := scheduleTask_done e σ t hnd0 hd
      have hdeps := ready_forward_deps e σ t hfw hready
      have htgt : ∀ dp ∈ (e.taskD t).allDeps, (updateContainers e (scheduleTask e σ t).1).tst dp.target = σ.tst dp.target := by
        intro dp hdp
        have hxs := hdeps dp hdp
        exact hsame dp.target (fun hx => by rw [hx, hus0] at hxs; exact Bool.noConfusion hxs) (Or.inr hxs)
      refine ⟨fun dp hdp => by rw [htgt dp hdp]; exact hdeps dp hdp, ?_⟩
      have hstart := hstart0 ⟨hel.el.leaf, hel.el.effort, hel.el.nomile⟩
      have hic : (initCursor e σ t).1 = boundSlot e σ t := by
        rw [initCursor_forward e σ t hfw hel.nostart]
        unfold boundSlot boundOf baseOf
        rw [hstart]
        cases (e.taskD t).start <;> rfl
      have key : ∀ r, (e.resD r).leaf = true →
          selectBest e (σ.setT t (σ.tst t)) [r1] [r2] (e.taskD t).effort (initCursor e σ t).1 = [r] →
          (∃ L, usageOf ((updateContainers e (scheduleTask e σ t).1).led.get r L).usage t ≠ none) ∧
          NoIdleAt e (updateContainers e (scheduleTask e σ t).1) t r := by
        intro r hrl hsr
        have hsel1 : selectBest e (σ.setT t (σ.tst t)) (e.taskD t).alloc (e.taskD t).alt (e.taskD t).effort
            (initCursor e σ t).1 = [r] := by rw [hel.el.prim, hel.el.alt]; exact hsr
        refine ⟨?_, ?_⟩
        · obtain ⟨fb, _, _, hfb, _⟩ := scheduleTask_framed_sel e wf σ t r h.inv hel.el.leaf hel.el.alloc hel.el.nomile
            hel.el.effort hsel1 (h.inrange t hmem) hfw hnd0 (hclean0 r) hok
          exact ⟨fb, by rw [updateContainers_led]; exact hfb⟩
        intro L hL i hbi hiL hon hnl
        rw [boundSlot_congr e σ _ t (fun dp hdp => by rw [htgt dp hdp]; exact ⟨rfl, rfl⟩)] at hbi
        have := scheduleTask_no_idle_interval_sel e wf σ t r h.inv h.solid hel.el.leaf hel.el.alloc hel.el.nomile hel.el.effort
          hsel1 (h.inrange t hmem) hfw hnd0 (hclean0 r) hrl hok L (by rw [updateContainers_led] at hL; exact hL) i
          (by rw [hic]; exact hbi) hiL hon hnl
        rcases this with h1 | h1
        · left; unfold Has at h1 ⊢; rw [updateContainers_led]; exact h1
        · right
          exact exhausted_closed_step (fun lid ro hr =>
            closed_updateContainers (refuses_closed e lid i ro) _ hr) h1
      rcases selectBest_alt e (σ.setT t (σ.tst t)) r1 r2 (e.taskD t).effort (initCursor e σ t).1 with hs | hs
      · exact ⟨r1, Or.inl rfl, key r1 hel.leaf1 hs⟩
      · exact ⟨r2, Or.inr rfl, key r2 hel.leaf2 hs⟩
    · have htsame := hsame t heq (Or.inl hel.el.leaf)
      rw [htsame] at hd hfw
      obtain ⟨hdeps, r, hr, ⟨L0, hL0⟩, hidle⟩ := h.ok t r1 r2 hel hd hfw
      have htgt : ∀ dp ∈ (e.taskD t).allDeps, (updateContainers e (scheduleTask e σ t0).1).tst dp.target = σ.tst dp.target := by
        intro dp hdp
        have hxs := hdeps dp hdp
        exact hsame dp.target (fun hx => by rw [hx, hus0] at hxs; exact Bool.noConfusion hxs) (Or.inr hxs)
      refine ⟨fun dp hdp => by rw [htgt dp hdp]; exact hdeps dp hdp, r, hr,
        ⟨L0, by rw [updateContainers_led, scheduleTask_same e σ t0 t (Ne.symm heq) r L0]; exact hL0⟩, ?_⟩
      intro L hL i hbi hiL hon hnl
      rw [boundSlot_congr e σ _ t (fun dp hdp => by rw [htgt dp hdp]; exact ⟨rfl, rfl⟩)] at hbi
      rw [updateContainers_led, scheduleTask_same e σ t0 t (Ne.symm heq) r L] at hL
      rcases hidle L hL i hbi hiL hon hnl with h1 | h1
      · left
        have h2 := closed_scheduleTask (has_closed e r i) wf σ t0 h.inv hlf0 trivial h1
        unfold Has at h2 ⊢
        rw [updateContainers_led]; exact h2
      · right
        exact exhausted_closed_step (fun lid ro hr =>
          closed_updateContainers (refuses_closed e lid i ro) _
            (closed_scheduleTask (refuses_closed e lid i ro) wf σ t0 h.inv hlf0 trivial hr)) h1

theorem DoneIdleAlt.of_eq {e : Env} {σ σ' : St} (hl : σ'.led = σ.led) (ht : σ'.ts = σ.ts) (hc : σ'.cnt = σ.cnt)
    (h : DoneIdleAlt e σ) : DoneIdleAlt e σ' := by
  unfold DoneIdleAlt NoIdleAt boundSlot earliestStart Has Exhausted Refuses limitOk St.tst at *
  rw [hl, ht, hc]; exact h

theorem pickLoop_doneIdleAlt (e : Env) (wf : WF e) (fuel : Nat) (tasks failed : List Nat) (σ : St)
    (h : IdleInvAlt e σ tasks) : DoneIdleAlt e (pickLoop e fuel tasks failed σ).1 := by
  induction fuel generalizing tasks failed σ with
  | zero => exact h.ok
  | succ f ih =>
    unfold pickLoop
    split
    · exact h.ok
    · split
      · rename_i t0 hfind
        have hmem : t0 ∈ tasks := List.mem_of_find?_eq_some hfind
        have hready : ready e σ t0 = true := by
          have := List.find?_some hfind; simpa using this
        exact ih _ _ _ (idleInvAlt_step e wf σ tasks t0 h hmem hready)
      · split
        · exact DoneIdleAlt.of_eq (σ := σ) rfl rfl rfl h.ok
        · exact h.ok

theorem scheduleScenario_doneIdleAlt (e : Env) (wf : WF e) (σ : St) (hinv : Inv e σ) (hs : Solid e σ) (hd : DoneFalse σ)
    (hsz : σ.ts.size = e.tasks.size) (hempty : ∀ r i, (σ.led.get r i).usage = []) (hst : StartAttr e σ) :
    DoneIdleAlt e (scheduleScenario e σ) := by
  unfold scheduleScenario
  simp only []
  have h2 : IdleInvAlt e (preLoop e σ) (todoOf e (preLoop e σ)) := by
    refine ⟨preLoop_inv e σ hinv, closed_preLoop (solid_closed e wf) σ hs, todoOf_nodup e _, todoOf_leaf e _, ?_, ?_, ?_⟩
    · intro t ht; rw [preLoop_size, hsz]; exact (todoOf_mem e _ t ht).1
    · intro t ht
      refine ⟨(todoOf_mem e _ t ht).2, preLoop_doneFalse e σ hd t, fun r i => ?_, fun hel => preLoop_startAttr e σ hst t hel⟩
      rw [preLoop_led, hempty r i]; rfl
    · intro t r1 r2 _ hdone
      rw [preLoop_doneFalse e σ hd t] at hdone
      exact Bool.noConfusion hdone
  have h3 := pickLoop_doneIdleAlt e wf ((todoOf e (preLoop e σ)).length + 1) (todoOf e (preLoop e σ)) [] (preLoop e σ) h2
  split
  · exact h3
  · exact DoneIdleAlt.of_eq (σ := (pickLoop e ((todoOf e (preLoop e σ)).length + 1) (todoOf e (preLoop e σ)) [] (preLoop e σ)).1) rfl rfl rfl h3

/-- **C08, forward mode, with an alternative, end to end.**  After scheduling any well-formed project with a well-formed
    task tree: for every completed forward effort task `t` without a start of its own with one primary and one alternative
    resource (both leaves), every predecessor is scheduled, and on ONE of the two candidates — the one chosen at the first
    slot — between the slot of the dependency bound and any slot `L` in which `t` is booked on it, every slot in which that
    resource is on shift and not on leave carries an entry in the final ledger, unless a limit refuses it in the final state. -/
theorem runScenario_doneIdleAlt (e : Env) (wf : WF e) (tr : Tree e) : DoneIdleAlt e (runScenario e) := by
  unfold runScenario
  have hprep : Inv e (prepare e (initState e)) := prepare_inv e _ (inv_init e wf)
  have hsol : Solid e (prepare e (initState e)) := closed_prepare (solid_closed e wf) _ (solid_init e wf)
  have hd : DoneFalse (prepare e (initState e)) := prepare_doneFalse e _ (doneFalse_init e)
  have hempty : ∀ r i, ((prepare e (initState e)).led.get r i).usage = [] := by
    intro r i; rw [prepare_led]; simp [initState, Ledger.get_empty]
  have h := scheduleScenario_doneIdleAlt e wf _ hprep hsol hd (by rw [prepare_size, initState_size]) hempty
    (prepare_startAttr e _ (startAttr_init e))
  have hc := scheduleScenario_cont e tr
  have hsd := finishScenario_sameDates e _ hc.1 hc.2
  intro t r1 r2 hel hdone hfw
  rw [finishScenario_leafT e _ t hel.el.leaf] at hdone hfw
  obtain ⟨hdeps, r, hr, ⟨L0, hL0⟩, hidle⟩ := h t r1 r2 hel hdone hfw
  refine ⟨fun dp hdp => by rw [(hsd dp.target).2.2]; exact hdeps dp hdp, r, hr, ⟨L0, by rw [finishScenario_led]; exact hL0⟩, ?_⟩
  intro L hL i hbi hiL hon hnl
  rw [boundSlot_congr e (scheduleScenario e (prepare e (initState e))) _ t
    (fun dp _ => ⟨(hsd dp.target).1, (hsd dp.target).2.1⟩)] at hbi
  rw [finishScenario_led] at hL
  rcases hidle L hL i hbi hiL hon hnl with h1 | h1
  · left; unfold Has at h1 ⊢; rw [finishScenario_led]; exact h1
  · right
    exact exhausted_closed_step (fun lid ro hr => closed_finishScenario (refuses_closed e lid i ro) _ hr) h1

end SP
