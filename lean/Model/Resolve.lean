/-
Model/Resolve.lean — how textual task references become dependencies
(`scriptplan/parser/tjp_parser.py`: `ModelBuilder._resolve_task_reference`, `_resolve_dependencies`,
`_resolve_precedes`; `scriptplan/core/property.py`: `ListAttributeBase.set`).

The model describes the code AS REPAIRED by `notes/patches/F10.diff` and `notes/patches/F11.diff`:
* F10: an absolute reference prefers a top-level task over a nested task with the same local id
  (`candidates = top-level tasks ++ nested tasks`, both in creation order);
* F11: `A precedes B {opts}` appends ONE entry for `A` to `B`'s list, carrying `opts`.
The pinned (unrepaired) statements are kept as `resolveRootPinned` / `precedeOnePinned` so that the
defects are refutation theorems (`Properties/C15.lean`), and so the driver can show both.

Plain data only: a task is identified by its *position* (child indices from the top level), which is
what object identity (`dep_task is source_task`) means for a tree that is never mutated after
construction.  `project.tasks` (creation order) is the pre-order of the forest: `Task.__init__`
registers the task before its nested tasks are created (`_create_property`/`_apply_property_attributes`).
-/
namespace SP.Resolve

/-- a task and its nested tasks, in declaration order; `id` is the *local* id (`Task.id`) -/
inductive TTree (α : Type) where
  | node (id : α) (kids : List (TTree α))

abbrev Forest (α : Type) := List (TTree α)

def TTree.id {α} : TTree α → α
  | .node a _ => a

def TTree.kids {α} : TTree α → List (TTree α)
  | .node _ ks => ks

/-- position of a task: indices from the top level (`[2,0]` = first child of the third top-level task) -/
abbrev Pos := List Nat

/-- `for child in current.children: if child.id == part: found = child; break` — with its index -/
def findChildFrom {α} [DecidableEq α] (x : α) : Nat → List (TTree α) → Option (Nat × TTree α)
  | _, [] => none
  | i, t :: ts => if t.id = x then some (i, t) else findChildFrom x (i + 1) ts

def findChild {α} [DecidableEq α] (ks : List (TTree α)) (x : α) : Option (Nat × TTree α) :=
  findChildFrom x 0 ks

/-- the `for part in parts:` navigation through children; `pos` is the position of `t` -/
def walk {α} [DecidableEq α] (t : TTree α) (pos : Pos) : List α → Option Pos
  | [] => some pos
  | x :: xs =>
    match findChild t.kids x with
    | none => none
    | some (i, c) => walk c (pos ++ [i]) xs

/-- the task at a position -/
def node? {α} : Forest α → Pos → Option (TTree α)
  | _, [] => none
  | F, [i] => F[i]?
  | F, i :: j :: rest =>
    match F[i]? with
    | none => none
    | some t => node? t.kids (j :: rest)

/-- `task.parent` (None for a top-level task) -/
def parentPos (p : Pos) : Option Pos :=
  if p.length ≤ 1 then none else some p.dropLast

/-- the loop `for _ in range(level - 1): if base and base.parent: base = base.parent else: base = None; break` -/
def climb : Nat → Option Pos → Option Pos
  | 0, b => b
  | _ + 1, none => none
  | n + 1, some b =>
    match parentPos b with
    | some q => climb n (some q)
    | none => none

/-- base task of a `!`-relative reference; `none` = "search from the project root" (also when the
    `!`s climb above the top level) -/
def basePos (src : Pos) (level : Nat) : Option Pos :=
  if level = 0 then none else climb (level - 1) (parentPos src)

/- `project.tasks`: creation order = pre-order, with positions (a task, then its nested tasks, then
   its later siblings) -/
mutual
def preTree {α} (pos : Pos) : TTree α → List (Pos × TTree α)
  | .node a ks => (pos, .node a ks) :: preKids pos 0 ks
def preKids {α} (pre : Pos) : Nat → List (TTree α) → List (Pos × TTree α)
  | _, [] => []
  | i, t :: ts => preTree (pre ++ [i]) t ++ preKids pre (i + 1) ts
end

def preorder {α} (F : Forest α) : List (Pos × TTree α) := preKids [] 0 F

/-- top-level tasks with their positions -/
def topsFrom {α} : Nat → List (TTree α) → List (Pos × TTree α)
  | _, [] => []
  | i, t :: ts => ([i], t) :: topsFrom (i + 1) ts

def tops {α} (F : Forest α) : List (Pos × TTree α) := topsFrom 0 F

/-- REPAIRED (F10): `[t for t in project.tasks if t.parent is None] + [t ... if t.parent is not None]` -/
def candidates {α} (F : Forest α) : List (Pos × TTree α) :=
  tops F ++ (preorder F).filter (fun p => decide (2 ≤ p.1.length))

/-- the `for task in …: if task.id == parts[0]: …navigate…; return` loop: the FIRST candidate whose
    local id equals the head decides (a failed navigation returns None, it does not try the next) -/
def firstMatch {α} [DecidableEq α] (cands : List (Pos × TTree α)) (h : α) (rest : List α) : Option Pos :=
  match cands.find? (fun p => decide (p.2.id = h)) with
  | none => none
  | some (pos, t) => walk t pos rest

def resolveRoot {α} [DecidableEq α] (F : Forest α) (h : α) (rest : List α) : Option Pos :=
  firstMatch (candidates F) h rest

/-- PINNED (before F10): every task, creation order -/
def resolveRootPinned {α} [DecidableEq α] (F : Forest α) (h : α) (rest : List α) : Option Pos :=
  firstMatch (preorder F) h rest

/-- a parsed reference: number of leading `!`, and the dotted path (`split(".")` is never empty) -/
structure Ref (α : Type) where
  up : Nat
  head : α
  tail : List α
  deriving Repr, DecidableEq

def Ref.path {α} (r : Ref α) : List α := r.head :: r.tail

/-- `_resolve_task_reference` after the reference has been split (repaired root search) -/
def resolve {α} [DecidableEq α] (F : Forest α) (src : Pos) (r : Ref α) : Option Pos :=
  match basePos src r.up with
  | some b =>
    match node? F b with
    | some t => walk t b r.path
    | none => none
  | none => resolveRoot F r.head r.tail

def resolvePinned {α} [DecidableEq α] (F : Forest α) (src : Pos) (r : Ref α) : Option Pos :=
  match basePos src r.up with
  | some b =>
    match node? F b with
    | some t => walk t b r.path
    | none => none
  | none => resolveRootPinned F r.head r.tail


/-! ### what "sibling ids are unique" and "the path of a task" mean (used by the theorems) -/

/-- local ids from the top level down to the task at a position (`Task.fullId` split at the dots) -/
def pathIds {α} : Forest α → Pos → Option (List α)
  | _, [] => some []
  | F, i :: rest =>
    match F[i]? with
    | none => none
    | some t => (pathIds t.kids rest).map (fun l => t.id :: l)

def sibsDistinct {α} [DecidableEq α] (ks : List (TTree α)) : Bool := decide (ks.map TTree.id).Nodup

mutual
def TTree.uniq {α} [DecidableEq α] : TTree α → Bool
  | .node _ ks => sibsDistinct ks && forestUniq ks
def forestUniq {α} [DecidableEq α] : List (TTree α) → Bool
  | [] => true
  | t :: ts => t.uniq && forestUniq ts
end

/-- no two siblings (at any level, top level included) have the same local id -/
def UniqueSibs {α} [DecidableEq α] (F : Forest α) : Prop := sibsDistinct F = true ∧ forestUniq F = true

instance {α} [DecidableEq α] (F : Forest α) : Decidable (UniqueSibs F) := by unfold UniqueSibs; infer_instance

def Ref.ofPath {α} (up : Nat) : List α → Option (Ref α)
  | [] => none
  | h :: t => some ⟨up, h, t⟩

/-! ### reference strings -/

/-- `ref.split(".")` on a character list: never empty -/
def splitDots : List Char → List (List Char)
  | [] => [[]]
  | c :: cs =>
    if c = '.' then [] :: splitDots cs
    else
      match splitDots cs with
      | [] => [[c]]          -- unreachable (`splitDots` is never empty); kept total
      | p :: ps => (c :: p) :: ps

/-- `while ref.startswith("!"): level += 1; ref = ref[1:]` -/
def countBang : List Char → Nat × List Char
  | '!' :: cs => let (n, r) := countBang cs; (n + 1, r)
  | cs => (0, cs)

/-- `if not ref: return None`, then the split -/
def parseRef (s : List Char) : Option (Ref (List Char)) :=
  if s.isEmpty then none else
  let (n, r) := countBang s
  match splitDots r with
  | [] => none
  | h :: t => some ⟨n, h, t⟩

/-- `_resolve_task_reference(project, from_task, ref)` on a reference string -/
def resolveStr (F : Forest (List Char)) (src : Pos) (s : List Char) : Option Pos :=
  match parseRef s with
  | none => none
  | some r => resolve F src r

def resolveStrPinned (F : Forest (List Char)) (src : Pos) (s : List Char) : Option Pos :=
  match parseRef s with
  | none => none
  | some r => resolvePinned F src r

/-- a reference written out: `!`×up, then the path joined by dots -/
def renderPath : List (List Char) → List Char
  | [] => []
  | [p] => p
  | p :: q :: ps => p ++ '.' :: renderPath (q :: ps)

def renderRef (r : Ref (List Char)) : List Char :=
  List.replicate r.up '!' ++ renderPath r.path

/-! ### renaming -/

mutual
def TTree.map {α β} (f : α → β) : TTree α → TTree β
  | .node a ks => .node (f a) (mapForest f ks)
def mapForest {α β} (f : α → β) : List (TTree α) → List (TTree β)
  | [] => []
  | t :: ts => t.map f :: mapForest f ts
end

def Ref.map {α β} (f : α → β) (r : Ref α) : Ref β := ⟨r.up, f r.head, r.tail.map f⟩

/-! ### dependency lists -/

/-- the options of a `depends`/`precedes` item as the transformer delivers them -/
structure DepOpts where
  gapduration : Option String := none
  gaplength : Option String := none
  maxgapduration : Option String := none
  onstart : Bool := false
  onend : Bool := false
  deriving Repr, DecidableEq

def truthyStr : Option String → Bool
  | none => false
  | some s => s != ""

/-- `gapduration or gaplength or maxgapduration or onstart or onend` -/
def DepOpts.any (o : DepOpts) : Bool :=
  truthyStr o.gapduration || truthyStr o.gaplength || truthyStr o.maxgapduration || o.onstart || o.onend

structure DepItem where
  ref : List Char
  opts : DepOpts := {}
  deriving Repr, DecidableEq

/-- an entry of a task's `depends` value: the bare task object, or the dict with options -/
inductive DepEntry where
  | bare (target : Pos)
  | dict (target : Pos) (opts : DepOpts)
  deriving Repr, DecidableEq

def DepEntry.target : DepEntry → Pos
  | .bare t => t
  | .dict t _ => t

def mkEntry (target : Pos) (o : DepOpts) : DepEntry :=
  if o.any then .dict target o else .bare target

/-- the `depends` attribute value of every task that has one (one scenario; the code loops over all
    scenario indices with the same statements); a task without entry has `[]` -/
abbrev DepStore := List (Pos × List DepEntry)

def emptyStore : DepStore := []

/-- `task.get("depends", scIdx)` -/
def getDeps : DepStore → Pos → List DepEntry
  | [], _ => []
  | e :: es, p => if e.1 = p then e.2 else getDeps es p

/-- `ListAttributeBase.set(value)` with a list that is NOT the stored list: `_value.extend(value)` -/
def extendDeps : DepStore → Pos → List DepEntry → DepStore
  | [], p, l => [(p, l)]
  | e :: es, p, l => if e.1 = p then (e.1, e.2 ++ l) :: es else e :: extendDeps es p l

def resolveItems (F : Forest (List Char)) (src : Pos) (items : List DepItem) : List DepEntry :=
  items.filterMap (fun it => (resolveStr F src it.ref).map (fun t => mkEntry t it.opts))

/-- `_resolve_dependencies`: per pending `(task, depends_list)`: `if resolved: task["depends"] = resolved` -/
def resolveDependencies (F : Forest (List Char)) (pending : List (Pos × List DepItem)) (st : DepStore) : DepStore :=
  pending.foldl (fun st pi =>
    let r := resolveItems F pi.1 pi.2
    if r.isEmpty then st else extendDeps st pi.1 r) st

/-- REPAIRED (F11) body of `_resolve_precedes` for one item of one source task -/
def precedeOne (F : Forest (List Char)) (st : DepStore) (src : Pos) (it : DepItem) : DepStore :=
  match resolveStr F src it.ref with
  | none => st
  | some tgt =>
    if (getDeps st tgt).any (fun e => decide (e.target = src)) then st
    else extendDeps st tgt [mkEntry src it.opts]

def resolvePrecedes (F : Forest (List Char)) (pending : List (Pos × List DepItem)) (st : DepStore) : DepStore :=
  pending.foldl (fun st pi => pi.2.foldl (fun st it => precedeOne F st pi.1 it) st) st

/-- the dependency lists the scheduler sees before inheritance -/
def finalDeps (F : Forest (List Char)) (pd pp : List (Pos × List DepItem)) : DepStore :=
  resolvePrecedes F pp (resolveDependencies F pd emptyStore)

/-- PINNED (before F11): the bare source task is appended to the list object obtained from
    `target.get("depends") or []` and that same object is passed to `set`, which extends the stored
    list with it: a non-empty stored list is doubled, an empty one (`[] or []` is a fresh list) is not;
    the item's options are dropped.  Reference resolution is the pinned one as well. -/
def precedeOnePinned (F : Forest (List Char)) (st : DepStore) (src : Pos) (it : DepItem) : DepStore :=
  match resolveStrPinned F src it.ref with
  | none => st
  | some tgt =>
    if (getDeps st tgt).any (fun e => decide (e.target = src)) then st
    else if (getDeps st tgt).isEmpty then extendDeps st tgt [.bare src]
    else extendDeps st tgt (DepEntry.bare src :: (getDeps st tgt ++ [DepEntry.bare src]))

end SP.Resolve
