/-
Model/Calendar.lean — the calendar view: which slots a resource may work in.

Models
  core/resource_scenario.py : onShift (global vacations, global leaves, resource leaves, shift /
                              own working hours in the resource's time zone, project default)
  core/working_hours.py     : WorkingHours.onShift (after the cross-midnight `fix:`),
                              _cython/working_hours_cy.pyx : check_working_hours_fast
  core/project.py           : _isDefaultWorkingTime, initScoreboards, isWorkingTime
  core/limits.py            : Limit._idx_to_sb_idx (daily: date difference; weekly: Monday difference)

The tz database is external: a zone is a finite table of (UTC instant, offset) transitions.
-/
import Model.Time
namespace SP

abbrev Intervals := List (Int × Int)       -- half-open [a, b) in epoch seconds

def inAny (ivs : Intervals) (t : Int) : Bool := ivs.any (fun iv => decide (iv.1 ≤ t) && decide (t < iv.2))

/-- working hours: for each weekday 0..6 the list of (startMinute, endMinute) -/
structure Hours where
  days : List (List (Int × Int))
  deriving Repr, Inhabited

def Hours.day (h : Hours) (wd : Int) : List (Int × Int) := h.days.getD wd.toNat []

/-- `WorkingHours.onShift` on local (weekday, minute): today's intervals (a cross-midnight interval
    covers from its start to midnight), then the tail of yesterday's cross-midnight intervals -/
def Hours.on (h : Hours) (wd : Int) (m : Int) : Bool :=
  (h.day wd).any (fun iv => if iv.2 ≤ iv.1 then decide (m ≥ iv.1) else decide (iv.1 ≤ m) && decide (m < iv.2)) ||
  (h.day ((wd - 1) % 7)).any (fun iv => decide (iv.2 ≤ iv.1) && decide (m < iv.2))

/-- the compiled twin `check_working_hours_fast(slot_minutes, weekday, hours, True)`: same decision,
    written with the loop structure of the .pyx (missing weekday falls through to the second loop) -/
def Hours.onCy (h : Hours) (wd : Int) (m : Int) : Bool :=
  let today := h.day wd
  let r1 := if today.isEmpty then false else
    today.any (fun iv => if iv.2 ≤ iv.1 then decide (m ≥ iv.1) else decide (iv.1 ≤ m) && decide (m < iv.2))
  if r1 then true
  else (h.day ((wd - 1) % 7)).any (fun iv => decide (iv.2 ≤ iv.1) && decide (m < iv.2))

/-- `get_daily_hours`: total minutes / 60 -/
def Hours.dailyMinutes (h : Hours) (wd : Int) : Int := (h.day wd).foldl (fun acc iv => acc + (iv.2 - iv.1)) 0

/-- offset (seconds) in force at UTC instant `t`: last transition at or before `t`; the first entry
    is the initial offset -/
def offsetAt (tbl : List (Int × Int)) (t : Int) : Int :=
  tbl.foldl (fun acc tr => if tr.1 ≤ t then tr.2 else acc) ((tbl.head?.map (·.2)).getD 0)

structure ResCal where
  zone : Option (List (Int × Int)) := none   -- none: no conversion (naive UTC)
  hours : Option Hours := none               -- shift hours, else own hours; none = project default
  leaves : Intervals := []                   -- resource leaves, vacations, bookings
  deriving Repr, Inhabited

structure CalEnv where
  start : Int
  G : Int
  size : Int
  gvac : Intervals       -- global vacations
  gleaves : Intervals    -- global leaves (holidays)

def CalEnv.time (c : CalEnv) (i : Int) : Int := c.start + i * c.G

/-- `Project._isDefaultWorkingTime(date)` -/
def defaultWorking (c : CalEnv) (t : Int) : Bool :=
  !inAny c.gvac t && decide (weekday t < 5) && decide (9 ≤ hourOf t) && decide (hourOf t < 17)

/-- `Project.isWorkingTime(idx)`: the project scoreboard slot is free; outside the table nothing is
    working time (after the `fix:`: no wrap-around for negative indices, no IndexError beyond the end) -/
def projWorkAt (c : CalEnv) (i : Int) : Bool :=
  if 0 ≤ i ∧ i < c.size then defaultWorking c (c.time i) else false

/-- `ResourceScenario.onShift(sb_idx)` -/
def onShiftAt (c : CalEnv) (rc : ResCal) (i : Int) : Bool :=
  let t := c.time i
  if inAny c.gvac t then false
  else if inAny c.gleaves t then false
  else if inAny rc.leaves t then false
  else match rc.hours with
    | some h =>
      let lt := match rc.zone with
        | some tbl => t + offsetAt tbl t
        | none => t
      h.on (weekday lt) (minuteOfDay lt)
    | none => projWorkAt c i

/-- `initScoreboard` marks the slots `range(max(idx(a), 0), min(idx(b), size))` of every global leave and
    resource leave `[a, b)` with leave bits (after the `fix:` a leave that begins before the project start
    no longer wraps around to the end of the table).
    A marked slot with no time used yet is not available even if its first instant is on shift
    (only possible when the leave boundary lies inside the slot: calendars not aligned to the grid). -/
def leaveMarkedAt (c : CalEnv) (rc : ResCal) (n : Int) : Bool :=
  (c.gleaves ++ rc.leaves).any (fun iv =>
    let lo := max (Int.tdiv (iv.1 - c.start) c.G) 0
    let hi := min (Int.tdiv (iv.2 - c.start) c.G) c.size
    decide (lo ≤ n) && decide (n < hi))

/-- daily limit period: calendar-day difference to the project start -/
def dayIdxAt (c : CalEnv) (i : Int) : Int := dayOf (c.time i) - dayOf c.start

/-- weekly limit period: number of Mondays between the start's week and the slot's week -/
def weekIdxAt (c : CalEnv) (i : Int) : Int := (mondayOf (dayOf (c.time i)) - mondayOf (dayOf c.start)) / 7

end SP
