/-
Model/Slots.lean — slot ↔ time conversion.

Models
  scheduler/scoreboard.py : Scoreboard.__init__ (size), idxToDate, dateToIdx         (`py*`)
  _cython/scoreboard_cy.pyx : date_to_idx_fast, idx_to_date_fast                      (`cy*`)
  core/project.py : Project.dateToIdx / idxToDate / scoreboardSize                    (`proj*`)
  _cython/time_utils_cy.pyx : project_date_to_idx, project_idx_to_date, scoreboard_size

Python `int(a / b)` on floats truncates toward zero: `Int.tdiv`.  `math.ceil(a / b)`: `ceilDiv`.
The double division is exact enough for |a| < 2^53 / b (trusted base; checked by the tie).
C `int` arithmetic in the compiled variants is modelled by an explicit range guard: a value
outside [-2^31, 2^31) yields `Res.overflow` (CPython raises OverflowError on argument conversion;
internal wrap-around is undefined behaviour and never defaulted here).
-/
namespace SP

inductive Res (α : Type) where
  | ok : α → Res α
  | indexError : Res α
  | overflow : Res α
  deriving Repr, DecidableEq, BEq

structure Board where
  start : Int      -- startDate (seconds)
  stop  : Int      -- endDate
  G     : Int      -- resolution in seconds, > 0
  deriving Repr, DecidableEq

def ceilDiv (a b : Int) : Int := -((-a) / b)

/-- `Scoreboard.size = ceil((end - start) / G) + 1` -/
def Board.size (b : Board) : Int := ceilDiv (b.stop - b.start) b.G + 1

/-- the time of slot `i` with no checks -/
def Board.time (b : Board) (i : Int) : Int := b.start + i * b.G

/-- raw index of instant `t`: truncation toward zero (Python `int(diff / G)`) -/
def Board.rawIdx (b : Board) (t : Int) : Int := Int.tdiv (t - b.start) b.G

/-- pure-Python `Scoreboard.idxToDate(idx, forceIntoProject)` -/
def pyIdxToDate (b : Board) (i : Int) (force : Bool) : Res Int :=
  if force then
    if i < 0 then .ok b.start
    else if i ≥ b.size then .ok b.stop
    else .ok (b.time i)
  else if i < 0 ∨ i ≥ b.size then .indexError
  else .ok (b.time i)

/-- pure-Python `Scoreboard.dateToIdx(date, forceIntoProject)` -/
def pyDateToIdx (b : Board) (t : Int) (force : Bool) : Res Int :=
  let idx := b.rawIdx t
  if force then
    if idx < 0 then .ok 0
    else if idx ≥ b.size then .ok (b.size - 1)
    else .ok idx
  else if idx < 0 ∨ idx ≥ b.size then .indexError
  else .ok idx

def inCInt (x : Int) : Bool := decide (-2147483648 ≤ x) && decide (x < 2147483648)

/-- compiled path of `Scoreboard.idxToDate`: the Python wrapper's range check, then
    `idx_to_date_fast` with C-int arguments -/
def cyIdxToDate (b : Board) (i : Int) (force : Bool) : Res Int :=
  if !force && (decide (i < 0) || decide (i ≥ b.size)) then .indexError
  else if !(inCInt i && inCInt b.G && inCInt b.size) then .overflow
  else if force && decide (i < 0) then .ok b.start
  else if force && decide (i ≥ b.size) then .ok b.stop
  else if !inCInt (i * b.G) then .overflow
  else .ok (b.start + i * b.G)

/-- compiled path of `Scoreboard.dateToIdx`: `date_to_idx_fast`, then the wrapper's check -/
def cyDateToIdx (b : Board) (t : Int) (force : Bool) : Res Int :=
  if !(inCInt b.G && inCInt b.size) then .overflow
  else
    let idx := b.rawIdx t
    if !inCInt idx then .overflow
    else
      let r := if force then (if idx < 0 then 0 else if idx ≥ b.size then b.size - 1 else idx) else idx
      if !force && (decide (r < 0) || decide (r ≥ b.size)) then .indexError
      else .ok r

/-! Project-level conversions (no clamping, no range check) -/

structure Grid where
  start : Int
  G : Int
  deriving Repr, DecidableEq

def Grid.time (g : Grid) (i : Int) : Int := g.start + i * g.G
def Grid.idx (g : Grid) (t : Int) : Int := Int.tdiv (t - g.start) g.G

/-- `project_idx_to_date` / `project_date_to_idx` with C ints -/
def cyProjIdxToDate (g : Grid) (i : Int) : Res Int :=
  if !(inCInt i && inCInt g.G) then .overflow
  else if !inCInt (i * g.G) then .overflow
  else .ok (g.start + i * g.G)

def cyProjDateToIdx (g : Grid) (t : Int) : Res Int :=
  if !inCInt g.G then .overflow
  else if !inCInt (g.idx t) then .overflow
  else .ok (g.idx t)

/-- `Project.scoreboardSize()` before the scoreboard exists: `int(diff / G) + 1` -/
def projSizeNoBoard (start stop G : Int) : Int := Int.tdiv (stop - start) G + 1

end SP
