import Model.Time
/-!
Model/Report.lean — the task-report pipeline, written from the source text of

* `scriptplan/report/task_report.py`  : `TaskReport._prepare_task_list/_generate_header/_generate_task_list/_generate_task_line`
* `scriptplan/report/table_report.py` : `TableReport.generate_header_cell/generate_cell/_get_cell_value/_get_cost_value/_format_value`,
                                        `ReportTable.to_json/to_csv`, `PROPERTIES_BY_ID`
* `scriptplan/core/task_scenario.py`  : `TaskScenario.getCost`           (repaired behaviour, finding F28)
* `scriptplan/report/report.py`       : `Report.generate` (which renderings are written), `ReportContext.push/pop`
* `datetime.strftime` for `%Y %m %d %H %M %S %%` + ASCII literals; `str(datetime)`; `"%.2f" % float`.

Input = an already scheduled project as plain data.  Everything the model does not cover is an
explicit error result (`CellErr`), never a default.
-/
namespace SP.Report
open SP

/-! ## values and cells -/

/-- the Python values that reach `_format_value` -/
inductive Value where
  | none
  | bool (b : Bool)
  /-- naive `datetime`, seconds since 1970-01-01T00:00 -/
  | time (t : Int)
  /-- the exact value of the double -/
  | float (q : Rat)
  | int (n : Int)
  | str (s : String)
  /-- list elements are given already `str()`-ed -/
  | list (l : List String)
  deriving DecidableEq, Repr

inductive CellErr where
  /-- a `strftime` directive (or character) outside the modelled set -/
  | unsupportedDirective
  /-- instant outside the modelled year range 1000 … 9999 -/
  | outOfRange
  /-- a column or attribute whose value the model is not given (never rendered as "-") -/
  | unmodelled
  deriving DecidableEq, Repr

/-- text of a table cell, or why the model declines to say -/
abbrev Cell := Except CellErr String

instance : DecidableEq Cell := fun a b =>
  match a, b with
  | .ok x, .ok y => if h : x = y then isTrue (by rw [h]) else isFalse (by intro e; cases e; exact h rfl)
  | .error x, .error y => if h : x = y then isTrue (by rw [h]) else isFalse (by intro e; cases e; exact h rfl)
  | .ok _, .error _ => isFalse (by intro e; cases e)
  | .error _, .ok _ => isFalse (by intro e; cases e)

/-! ## `strftime`, `str(datetime)`, `"%.2f"` -/

def pad2 (n : Int) : String := if n < 10 then "0" ++ toString n else toString n

/-- civil fields of an instant: (year, month, day, hour, minute, second) -/
structure Civil where
  y : Int
  mo : Int
  d : Int
  h : Int
  mi : Int
  s : Int
  deriving DecidableEq, Repr

def civilOf (t : Int) : Civil :=
  let (y, m, d) := civilFromDays (dayOf t)
  let sod := secOfDay t
  ⟨y, m, d, sod / 3600, (sod / 60) % 60, sod % 60⟩

def yearOk (c : Civil) : Bool := 1000 ≤ c.y && c.y ≤ 9999

/-- expansion of a format (as characters) for given civil fields; `none` = outside the modelled set -/
def expand (c : Civil) : List Char → Option String
  | [] => some ""
  | '%' :: 'Y' :: r => (expand c r).map (toString c.y ++ ·)
  | '%' :: 'm' :: r => (expand c r).map (pad2 c.mo ++ ·)
  | '%' :: 'd' :: r => (expand c r).map (pad2 c.d ++ ·)
  | '%' :: 'H' :: r => (expand c r).map (pad2 c.h ++ ·)
  | '%' :: 'M' :: r => (expand c r).map (pad2 c.mi ++ ·)
  | '%' :: 'S' :: r => (expand c r).map (pad2 c.s ++ ·)
  | '%' :: '%' :: r => (expand c r).map ("%" ++ ·)
  | '%' :: _ => none
  | ch :: r => if 32 ≤ ch.toNat ∧ ch.toNat < 127 then (expand c r).map (String.singleton ch ++ ·) else none

/-- `datetime.strftime(fmt)` -/
def strftime (fmt : String) (t : Int) : Cell :=
  let c := civilOf t
  if !yearOk c then .error .outOfRange else
  match expand c fmt.toList with
  | some s => .ok s
  | none => .error .unsupportedDirective

/-- `str(datetime)` for a datetime without microseconds -/
def isoStr (t : Int) : Cell :=
  let c := civilOf t
  if !yearOk c then .error .outOfRange else
  .ok (toString c.y ++ "-" ++ pad2 c.mo ++ "-" ++ pad2 c.d ++ " " ++ pad2 c.h ++ ":" ++ pad2 c.mi ++ ":" ++ pad2 c.s)

/-- Python `round` (half to even) of a rational -/
def roundHalfEven (x : Rat) : Int :=
  let f := x.floor
  let r := x - (f : Rat)
  if r < 1/2 then f else if 1/2 < r then f + 1 else if f % 2 = 0 then f else f + 1

/-- hundredths shown by `"%.2f"` for `|q|` -/
def cents (q : Rat) : Int := roundHalfEven ((if q < 0 then -q else q) * 100)

/-- `"%.2f" % q` (the double is given by its exact value, so this is the correctly rounded rendering) -/
def fmt2 (q : Rat) : String :=
  let n := cents q
  (if q < 0 then "-" else "") ++ toString (n / 100) ++ "." ++ pad2 (n % 100)

/-! ## project data -/

structure Task where
  /-- `fullId`, what `get("id")` returns -/
  id : String
  name : String
  /-- `seqno` (declaration order) -/
  seq : Nat
  leaf : Bool
  scheduled : Bool
  start : Option Int
  stop : Option Int
  /-- `get("effort", 0)`: `int 0` when unset, hours as float otherwise -/
  effort : Value
  priority : Int
  /-- further scenario-specific attribute values supplied by the caller -/
  scen : List (String × Value)
  /-- further non-scenario attribute values supplied by the caller -/
  plain : List (String × Value)
  deriving DecidableEq, Repr

structure Resource where
  id : String
  /-- `resource.get("rate", 0) or 0.0` -/
  rate : Rat
  deriving DecidableEq, Repr

/-- one ledger line: seconds booked on `res` for `task` (sum over slots of `slotTaskUsage`) -/
structure Booking where
  res : String
  task : String
  secs : Rat
  deriving DecidableEq, Repr

structure Project where
  tasks : List Task
  resources : List Resource
  ledger : List Booking
  deriving DecidableEq, Repr

structure Column where
  id : String
  /-- `options["title"]` of the column definition, if any -/
  title : Option String
  deriving DecidableEq, Repr

inductive Format where | json | csv
  deriving DecidableEq, Repr

structure Spec where
  columns : List Column
  /-- report-level `timeformat`, if given -/
  timeFormat : Option String
  /-- project-level `timeformat`, if given -/
  projectTimeformat : Option String
  leafTasksOnly : Bool
  /-- `formats` of the report definition (parser default `[json]` when none given) -/
  formats : List Format
  deriving DecidableEq, Repr

/-! ## tables of the implementation (checked against the source on every run by the `reptables` op) -/

/-- `TableReport.PROPERTIES_BY_ID`: (id, header, scenario specific) -/
def propertiesById : List (String × String × Bool) := [
  ("activetasks", "Active Tasks", true), ("alert", "Alert", false), ("alertmessages", "Alert Messages", false),
  ("alertsummaries", "Alert Summaries", false), ("alerttrend", "Alert Trend", false), ("bsi", "BSI", false),
  ("children", "Children", false), ("closedtasks", "Closed Tasks", true), ("complete", "Completion", true),
  ("cost", "Cost", true), ("duration", "Duration", true), ("effort", "Effort", true),
  ("effortdone", "Effort Done", true), ("effortleft", "Effort Left", true), ("end", "End", true),
  ("followers", "Followers", true), ("freetime", "Free Time", true), ("freework", "Free Work", true),
  ("fte", "FTE", true), ("headcount", "Headcount", true), ("id", "Id", false), ("inputs", "Inputs", true),
  ("journal", "Journal", false), ("line", "Line No.", false), ("name", "Name", false), ("no", "No.", false),
  ("opentasks", "Open Tasks", true), ("precursors", "Precursors", true), ("priority", "Priority", true),
  ("rate", "Rate", true), ("resources", "Resources", true), ("responsible", "Responsible", true),
  ("revenue", "Revenue", true), ("scenario", "Scenario", true), ("scheduling", "Scheduling Mode", true),
  ("start", "Start", true), ("status", "Status", true), ("targets", "Targets", true)]

/-- attribute definitions of the task property set: (id, scenario specific)
    (`PropertySet.__init__` + `Project._define_task_attributes`) -/
def taskAttrDefs : List (String × Bool) := [
  ("id", false), ("name", false), ("seqno", false),
  ("allocate", true), ("assignedresources", true), ("booking", true), ("bsi", false), ("charge", true),
  ("chargeset", true), ("complete", true), ("competitors", true), ("criticalness", true), ("depends", true),
  ("duration", true), ("effort", true), ("effortdone", true), ("effortleft", true), ("end", true),
  ("flags", true), ("forward", true), ("gauge", true), ("index", false), ("length", true), ("limits", true),
  ("maxend", true), ("maxstart", true), ("minend", true), ("minstart", true), ("milestone", true),
  ("pathcriticalness", true), ("precedes", true), ("priority", true), ("projectionmode", true),
  ("responsible", true), ("scheduled", true), ("shifts", true), ("start", true), ("status", true)]

/-- columns without a fixed title -/
def specialColumns : List String := ["chart", "hourly", "daily", "weekly", "monthly", "quarterly", "yearly"]

/-- `TableReport.default_column_title` (`none` = Python `None`) -/
def defaultColumnTitle (cid : String) : Option String :=
  if specialColumns.contains cid then some ""
  else (propertiesById.find? (·.1 == cid)).map (·.2.1)

/-- `TableReport.is_scenario_specific` -/
def isScenarioSpecific (cid : String) : Bool :=
  match propertiesById.find? (·.1 == cid) with
  | some e => e.2.2
  | none => false

/-! ## row selection: `TaskReport._prepare_task_list` -/

/-- insertion into a list sorted by `seq`, before equal keys (stable for a right fold) -/
def insSeq (t : Task) : List Task → List Task
  | [] => [t]
  | u :: r => if t.seq ≤ u.seq then t :: u :: r else u :: insSeq t r

/-- `PropertyList.sort()` with the single criterion `seqno` ascending (Python's sort is stable) -/
def sortSeq : List Task → List Task
  | [] => []
  | t :: r => insSeq t (sortSeq r)

/-- statement by statement: `PropertyList(project.tasks)` sorts; `includeAdopted()` appends nothing and
    sorts; `filter_task_list` copies (no `taskRoot`, `hideTask`, `rollupTask`, `openNodes`);
    `_sort_task_list` sorts; with `leafTasksOnly` the leaves are appended one by one to an empty
    list, which sorts after every append. -/
def prepareTaskList (p : Project) (leafOnly : Bool) : List Task :=
  let l0 := sortSeq p.tasks
  let l1 := sortSeq (l0 ++ [])
  let l2 := sortSeq l1
  if leafOnly then
    l2.foldl (fun acc t => if t.leaf then sortSeq (acc ++ [t]) else acc) []
  else l2

/-! ## header: `_generate_header` / `generate_header_cell` -/

/-- `title = options.get("title")`; `if not title: title = default_column_title(id) or id` -/
def headerCell (c : Column) : String :=
  let dflt := match defaultColumnTitle c.id with
    | some d => if d ≠ "" then d else c.id
    | none => c.id
  match c.title with
  | some t => if t ≠ "" then t else dflt
  | none => dflt

/-! ## cell values: `_get_cell_value`, `_get_cost_value`, `TaskScenario.getCost` -/

/-- outcome of `property_node.get(...)` inside the `try` of `_get_cell_value` -/
inductive Lookup where
  | val (v : Value)
  /-- `ValueError` (unknown attribute / wrong scenario-specificity) → the placeholder `"-"` -/
  | unknown
  /-- attribute is defined for tasks but the model was not given its value -/
  | unmodelled
  deriving DecidableEq, Repr

def optTime : Option Int → Value
  | some t => .time t
  | none => .none

/-- the value the model knows for a defined attribute -/
def Task.attr? (t : Task) (cid : String) : Option Value :=
  if cid == "id" then some (.str t.id)
  else if cid == "name" then some (.str t.name)
  else if cid == "seqno" then some (.int t.seq)
  else if cid == "start" then some (optTime t.start)
  else if cid == "end" then some (optTime t.stop)
  else if cid == "effort" then some t.effort
  else if cid == "priority" then some (.int t.priority)
  else if cid == "scheduled" then some (.bool t.scheduled)
  else match t.scen.find? (·.1 == cid) with
    | some e => some e.2
    | none => (t.plain.find? (·.1 == cid)).map (·.2)

/-- `PropertyTreeNode.get(cid, scenarioIdx)` when `scen`, `get(cid)` otherwise -/
def lookupAttr (t : Task) (scen : Bool) (cid : String) : Lookup :=
  match taskAttrDefs.find? (·.1 == cid) with
  | none => .unknown
  | some d =>
    if d.2 != scen then .unknown
    else match t.attr? cid with
      | some v => .val v
      | none => .unmodelled

def rateOf (p : Project) (rid : String) : Rat :=
  match p.resources.find? (·.id == rid) with
  | some r => r.rate
  | none => 0

/-- seconds booked on resource `rid` for task `tid`: the inner loops of `getCost` over `slotTaskUsage` -/
def bookedSecs (p : Project) (rid tid : String) : Rat :=
  ((p.ledger.filter (fun b => b.res == rid && b.task == tid)).map (·.secs)).sum

/-- `TaskScenario.getCost` (repaired, F28): every resource of the project with a non-zero rate
    contributes `booked seconds / 3600 · rate` -/
def getCost (p : Project) (tid : String) : Rat :=
  ((p.resources.filter (fun r => r.rate != 0)).map (fun r => bookedSecs p r.id tid / 3600 * r.rate)).sum

/-- `_get_cost_value`: `cost if cost and cost > 0 else None` -/
def costValue (p : Project) (t : Task) : Value :=
  let c := getCost p t.id
  if 0 < c then .float c else .none

/-- `_get_cell_value` for a task in scenario 0 (repaired, F19: the dates of a task that is not
    scheduled are `None`) -/
def cellValue (p : Project) (t : Task) (cid : String) : Lookup :=
  if cid == "revenue" then .unmodelled
  else if cid == "cost" then .val (costValue p t)
  else if (cid == "start" || cid == "end") && !t.scheduled then .val .none
  else lookupAttr t (isScenarioSpecific cid) cid

/-! ## formatting: `_format_value` -/

/-- `timeformat = a("timeFormat")` (default "%Y-%m-%d"); if it equals the default and the project has a
    non-empty `timeformat`, that one is used -/
def effectiveFormat (s : Spec) : String :=
  let tf := s.timeFormat.getD "%Y-%m-%d"
  if tf == "%Y-%m-%d" then
    match s.projectTimeformat with
    | some pf => if pf ≠ "" then pf else tf
    | none => tf
  else tf

def formatValue (fmt : String) : Value → Cell
  | .none => .ok ""
  | .bool b => .ok (if b then "Yes" else "No")
  | .time t => if fmt ≠ "" then strftime fmt t else isoStr t
  | .float q => .ok (fmt2 q)
  | .list l => .ok (", ".intercalate l)
  | .int n => .ok (toString n)
  | .str s => .ok s

def formatLookup (fmt : String) : Lookup → Cell
  | .val v => formatValue fmt v
  | .unknown => .ok "-"
  | .unmodelled => .error .unmodelled

/-- `generate_cell(...).text` for a dict column definition -/
def cell (p : Project) (s : Spec) (t : Task) (c : Column) : Cell :=
  formatLookup (effectiveFormat s) (cellValue p t c.id)

/-! ## the intermediate table and its renderings -/

structure Table where
  header : List String
  body : List (List Cell)
  deriving DecidableEq, Repr

/-- `TaskReport.generate_intermediate_format` -/
def generate (p : Project) (s : Spec) : Table :=
  { header := s.columns.map headerCell
    body := (prepareTaskList p s.leafTasksOnly).map (fun t => s.columns.map (cell p s t)) }

/-- Python `record[k] = v` on an insertion-ordered dict -/
def dictSet (d : List (String × Cell)) (k : String) (v : Cell) : List (String × Cell) :=
  match d with
  | [] => [(k, v)]
  | (k', v') :: r => if k' == k then (k', v) :: r else (k', v') :: dictSet r k v

structure JsonTable where
  columns : List String
  data : List (List (String × Cell))
  deriving DecidableEq, Repr

/-- length of the longest string of a list -/
def maxLen (l : List String) : Nat := l.foldl (fun m s => max m s.length) 0

/-- `while key in column_names: key += "_"` (the fuel `maxLen seen + 1` is never exhausted: a key longer than every
    name seen so far is fresh) -/
def freshKey (seen : List String) : Nat → String → String
  | 0, k => k
  | f + 1, k => if seen.contains k then freshKey seen f (k ++ "_") else k

/-- the JSON keys of `to_json` (after the repair of F20): the lower-cased title, a repeated title qualified with its
    column position (`id`, `start`, `end`, `id_4`), and underscores appended while that still collides -/
def uniqNames (names : List String) : List String :=
  names.zipIdx.foldl (fun acc ni =>
    let k0 := if acc.contains ni.1 then ni.1 ++ "_" ++ toString (ni.2 + 1) else ni.1
    acc ++ [freshKey acc (maxLen acc + 1) k0]) []

/-- `ReportTable.to_json`: keys = `uniqNames` of the lower-cased header texts; cells beyond the header are dropped -/
def toJson (tb : Table) : JsonTable :=
  let names := uniqNames (tb.header.map String.toLower)
  { columns := names
    data := tb.body.map (fun line => (names.zip line).foldl (fun d kv => dictSet d kv.1 kv.2) []) }

/-- `ReportTable.to_csv`: header line, body lines (no footer lines in a task report) -/
def toCsv (tb : Table) : List (List Cell) :=
  tb.header.map Except.ok :: tb.body

/-- the cells a JSON record carries, in order -/
def jsonCells (j : JsonTable) : List (List Cell) := j.data.map (·.map (·.2))

/-! ## `Report.generate`: what is written, and the state it touches -/

inductive Rendering where
  | json (j : JsonTable)
  | csv (rows : List (List Cell))
  deriving DecidableEq, Repr

/-- `_generate_json` / `_generate_csv` -/
def render (tb : Table) : Format → Rendering
  | .json => .json (toJson tb)
  | .csv => .csv (toCsv tb)

/-- the renderings written by `Report.generate()`, in the order of `formats` -/
def renderings (p : Project) (s : Spec) : List Rendering :=
  s.formats.map (render (generate p s))

/-- the mutable state report generation runs in: the scheduled project, the stack of report
    contexts, and `Report.content` -/
structure GenState where
  project : Project
  contexts : List String
  content : Option Table
  deriving DecidableEq, Repr

/-- `ReportContext(project, report).push(); report.generate(); context.pop()` -/
def generateStep (st : GenState) (s : Spec) : GenState × List Rendering :=
  let pushed := { st with contexts := "0" :: st.contexts }
  let tb := generate pushed.project s
  let st' := { pushed with content := some tb }
  ({ st' with contexts := st'.contexts.tail }, renderings st'.project s)

/-- generate the reports `specs` one after the other -/
def generateAll (st : GenState) : List Spec → GenState × List (List Rendering)
  | [] => (st, [])
  | s :: r =>
    let (st1, out) := generateStep st s
    let (st2, outs) := generateAll st1 r
    (st2, out :: outs)

end SP.Report
