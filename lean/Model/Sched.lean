/-
Model/Sched.lean — the scheduler core: task placement (forward / backward walk) and the scenario loop.

Models, statement by statement where it matters (after the `fix:` commits in known_findings.json):
  core/task_scenario.py : readyForScheduling, schedule, scheduleSlot, bookResources, bookResource,
                          _selectBestResources, _estimateCompletionTime, _isResourceAvailable,
                          limitsOk / incLimits, _calculatePreciseEndTimeAndRelease, scheduleContainer
  core/resource_scenario.py : available, book
  core/project.py : prepareScenario (project-level alap, _propagateContainerEndDates), scheduleScenario
                    (milestone pre-pass, _propagateALAPMode, sort key, pick-first-ready loop, deadlock
                    branch), _updateContainerTaskStatus, finishScenario

The scheduler is written against an environment `Env` that contains only functions of the slot index
(calendar view) and plain data; `Model/Calendar.lean` computes the view, `Model/Elab.lean` the data.
Not modelled (never emitted by the generators): `contiguous`, `maxgapduration`,
`duration`/`length` tasks, journal, accounts.
-/
import Model.Ledger
import Model.Slots
namespace SP

structure Dep where
  target : Nat
  gap : Int := 0          -- gapduration in calendar seconds
  onstart : Bool := false
  hasOpts : Bool := false -- stored as dict (some option given): only such entries carry a gap in the ALAP lookup
  glen : Int := 0         -- gaplength in seconds of project working time (0 when a gapduration is given: it wins)
  deriving Repr, BEq, Inhabited

structure LimitD where
  weekly : Bool
  value : Int             -- slots: int(hours / slotHours)
  res : Option Nat := none
  deriving Repr, BEq, Inhabited

structure ResD where
  parent : Option Nat := none
  leaf : Bool := true
  eff : Rat := 1          -- `efficiency or 1.0`
  limits : List Nat := [] -- own limit ids
  deriving Repr, BEq, Inhabited

structure TaskD where
  parent : Option Nat := none
  leaf : Bool := true
  effort : Rat := 0               -- hours (`effort or 0`)
  hasAlloc : Bool := false        -- `allocate` attribute truthy
  alloc : List Nat := []          -- resolved primaries
  alt : List Nat := []            -- resolved alternatives
  deps : List Dep := []           -- the `depends` attribute (own, or inherited copy)
  allDeps : List Dep := []        -- getAllDependencies: deps ++ every ancestor's deps attribute
  prio : Int := 500               -- `priority or 500`
  start : Option Int := none      -- `start` attribute (own or inherited)
  startProvided : Bool := false
  stop : Option Int := none       -- `end` attribute (never inherited)
  milestone : Bool := false
  forward : Bool := true
  explicitMode : Bool := false    -- `_explicit_scheduling`
  limits : List Nat := []         -- own limit ids
  children : List Nat := []
  deriving Repr, BEq, Inhabited

structure Env where
  G : Int
  start : Int
  stop : Int                       -- project end after horizon extension
  size : Int                       -- scoreboard size
  projAlap : Bool := false
  onShift : Nat → Int → Bool       -- resource, slot
  projWork : Int → Bool            -- project scoreboard is free at slot (list semantics incl. wrap-around)
  leaveMark : Nat → Int → Bool := fun _ _ => false   -- resource scoreboard slot carries leave bits
  dayIdx : Int → Int
  weekIdx : Int → Int
  res : Array ResD
  limits : Array LimitD
  tasks : Array TaskD

/-- a date attribute is "truthy" when present (a datetime is never falsy) -/
structure TSt where
  scheduled : Bool := false
  start : Option Int := none
  stop : Option Int := none
  forward : Bool := true
  done : Bool := false            -- internal `self.scheduled`
  runaway : Bool := false
  deriving Repr, BEq, Inhabited

structure St where
  led : Ledger := {}
  marks : Marks := {}
  cnt : Counters := {}
  ts : Array TSt := #[]
  warnings : List String := []

namespace Env

def time (e : Env) (i : Int) : Int := e.start + i * e.G
def idx (e : Env) (t : Int) : Int := Int.tdiv (t - e.start) e.G
def upper (e : Env) : Int := e.idx e.stop

/-- Python list index normalisation of the resource scoreboard (`sb[-1]` is the last slot) -/
def norm (e : Env) (i : Int) : Int := if i < 0 then e.size + i else i

def resD (e : Env) (r : Nat) : ResD := e.res.getD r {}
def taskD (e : Env) (t : Nat) : TaskD := e.tasks.getD t {}
def limitD (e : Env) (l : Nat) : LimitD := e.limits.getD l { weekly := false, value := 0 }

/-- `[r, parent r, …]` (fuel = number of resources) -/
def resChainAux (e : Env) : Nat → Nat → List Nat
  | 0, r => [r]
  | f + 1, r => match (e.resD r).parent with
    | none => [r]
    | some p => r :: resChainAux e f p

def resChain (e : Env) (r : Nat) : List Nat := resChainAux e e.res.size r

def taskChainAux (e : Env) : Nat → Nat → List Nat
  | 0, t => [t]
  | f + 1, t => match (e.taskD t).parent with
    | none => [t]
    | some p => t :: taskChainAux e f p

def taskChain (e : Env) (t : Nat) : List Nat := taskChainAux e e.tasks.size t

def period (e : Env) (l : LimitD) (i : Int) : Int := if l.weekly then e.weekIdx i else e.dayIdx i

end Env

def St.tst (σ : St) (t : Nat) : TSt := σ.ts.getD t {}
def St.setT (σ : St) (t : Nat) (x : TSt) : St := { σ with ts := σ.ts.setIfInBounds t x }

/-! ### limits -/

/-- `Limit.ok(index, upper=True, resource)` -/
def limitOk (e : Env) (σ : St) (lid : Nat) (i : Int) (r : Option Nat) : Bool :=
  let l := e.limitD lid
  if l.res.isSome && l.res != r then true
  else
    let k := e.period l i
    if k < 0 then true else decide (σ.cnt.get lid k < l.value)

/-- `Limit.inc(index, resource)` -/
def limitInc (e : Env) (σ : St) (lid : Nat) (i : Int) (r : Option Nat) : St :=
  let l := e.limitD lid
  if l.res.isSome && l.res != r then σ
  else
    let k := e.period l i
    if k < 0 then σ else { σ with cnt := σ.cnt.set lid k (σ.cnt.get lid k + 1) }

/-- all limit ids a booking of resource `r` consults at resource level: own and every ancestor's -/
def resLimitIds (e : Env) (r : Nat) : List Nat := (e.resChain r).flatMap (fun x => (e.resD x).limits)

/-- `TaskScenario.getAllLimits`: own and every enclosing task's -/
def taskLimitIds (e : Env) (t : Nat) : List Nat := (e.taskChain t).flatMap (fun x => (e.taskD x).limits)

def taskLimitsOk (e : Env) (σ : St) (t : Nat) (i : Int) (r : Nat) : Bool :=
  (taskLimitIds e t).all (fun lid => limitOk e σ lid i (some r))

/-! ### availability and booking -/

/-- `ResourceScenario.available(sb_idx)` -/
def available (e : Env) (σ : St) (r : Nat) (i : Int) : Bool :=
  let s := σ.led.get r i
  let a := availSecs e.G s
  (e.resD r).leaf && e.onShift r i && decide (a > 0) &&
  !((σ.marks.get r (e.norm i) || e.leaveMark r (e.norm i)) && decide (a ≥ (e.G : Rat))) &&
  (resLimitIds e r).all (fun lid => limitOk e σ lid i none)

/-- the state change of `ResourceScenario.book` (called only when `available`): returns effort gained -/
def bookSlot (e : Env) (σ : St) (r : Nat) (i : Int) (t : Nat) : St × Rat :=
  let s := σ.led.get r i
  let a := availSecs e.G s
  let σ1 : St := { σ with led := σ.led.set r i (s.book e.G t), marks := σ.marks.set r (e.norm i) }
  let σ2 := (resLimitIds e r).foldl (fun acc lid => limitInc e acc lid i none) σ1
  let σ3 := (taskLimitIds e t).foldl (fun acc lid => limitInc e acc lid i (some r)) σ2
  (σ3, a / 3600 * (e.resD r).eff)

/-! ### the walk of one task -/

structure Walk where
  cur : Int
  done : Rat := 0
  offset : Rat := 0
  selected : Option (List Nat) := none
  last : Option Nat := none
  firstBooked : Option Int := none
  deriving Repr, Inhabited

/-- `TaskScenario.bookResource(resource)` -/
def bookResource (e : Env) (σ : St) (t : Nat) (w : Walk) (r : Nat) : St × Rat :=
  let σ1 : St :=
    if w.offset > 0 && w.done == 0 then
      { σ with led := σ.led.set r w.cur ((σ.led.get r w.cur).reserve w.offset) }
    else σ
  if available e σ1 r w.cur && taskLimitsOk e σ1 t w.cur r then bookSlot e σ1 r w.cur t
  else (σ1, 0)

/-- `_estimateCompletionTime`: simulate from `cur` with the first resource only; `none` = cannot finish.
    Returns the index one past the last slot counted. -/
def estimateAux (e : Env) (σ : St) (r : Nat) (perSlot : Rat) : Nat → Int → Rat → Option Int
  | 0, _, _ => none
  | f + 1, cur, remaining =>
    if remaining > 0 && decide (cur < e.size) then
      let rem' := if available e σ r cur then remaining - perSlot else remaining
      estimateAux e σ r perSlot f (cur + 1) rem'
    else if remaining > 0 then none else some cur

def estimate (e : Env) (σ : St) (rs : List Nat) (effort : Rat) (cur : Int) : Option Int :=
  match rs with
  | [] => none
  | r :: _ =>
    if effort ≤ 0 then none
    else
      let perSlot := (e.G : Rat) / 3600 * (e.resD r).eff
      (estimateAux e σ r perSlot (e.size.toNat + 2) cur effort).map (fun c => e.time (c - 1) + e.G)

/-- `_selectBestResources` -/
def selectBest (e : Env) (σ : St) (prim alt : List Nat) (effort : Rat) (cur : Int) : List Nat :=
  if prim.isEmpty && alt.isEmpty then []
  else if alt.isEmpty then prim
  else if prim.isEmpty then alt
  else
    match estimate e σ alt effort cur, estimate e σ prim effort cur with
    | some a, none => alt
    | some a, some p => if a < p then alt else prim
    | none, _ => prim

structure BookAcc where
  σ : St
  total : Rat := 0
  last : Option Nat := none
  any : Bool := false

/-- one iteration of the booking loop of `bookResources` -/
def bookOne (e : Env) (t : Nat) (w : Walk) (a : BookAcc) (r : Nat) : BookAcc :=
  let res := bookResource e a.σ t w r
  if res.2 > 0 then { σ := res.1, total := max a.total res.2, last := some r, any := true }
  else { a with σ := res.1 }

def bookAll (e : Env) (σ : St) (t : Nat) (w : Walk) (sel : List Nat) : BookAcc :=
  sel.foldl (bookOne e t w) { σ := σ, last := w.last }

/-- `_countTeamMember(+1)`: count a booking of `r` by `t` in every limit a real booking increments -/
def countMember (e : Env) (σ : St) (t : Nat) (i : Int) (r : Nat) : St :=
  let σ2 := (resLimitIds e r).foldl (fun acc lid => limitInc e acc lid i none) σ
  (taskLimitIds e t).foldl (fun acc lid => limitInc e acc lid i (some r)) σ2

/-- the members of a team are checked one after the other, those already checked being counted
    provisionally (the counts are taken back afterwards: the gate only answers yes or no) -/
def teamGateOk (e : Env) (t : Nat) (i : Int) : St → List Nat → Bool
  | _, [] => true
  | σ, r :: rs =>
    available e σ r i && taskLimitsOk e σ t i r && teamGateOk e t i (countMember e σ t i r) rs

/-- an effort task with more than one selected resource -/
def isTeam (e : Env) (t : Nat) (sel : List Nat) : Bool :=
  decide ((e.taskD t).effort > 0) && decide (sel.length > 1)

/-- team gate: with more than one selected resource all must be available (and within the limits,
    counting the whole team) -/
def teamGateFails (e : Env) (σ : St) (t : Nat) (w : Walk) (sel : List Nat) : Bool :=
  isTeam e t sel && !teamGateOk e t w.cur σ sel

/-- seconds used in slot `cur` by the busiest member -/
def teamCommon (σ : St) (cur : Int) (sel : List Nat) : Rat :=
  sel.foldl (fun m r => max m (σ.led.get r cur).used) 0

def reserveAt (σ : St) (r : Nat) (i : Int) (off : Rat) : St :=
  { σ with led := σ.led.set r i ((σ.led.get r i).reserve off) }

/-- the team works the same instants: every member starts where the busiest one becomes free -/
def levelTeam (σ : St) (cur : Int) (sel : List Nat) : St :=
  sel.foldl (fun acc r => reserveAt acc r cur (teamCommon σ cur sel)) σ

/-- on the first successful booking of a forward effort task: `start := t(cur) + offset` -/
def markStart (e : Env) (σ : St) (t : Nat) (w : Walk) : St :=
  if decide ((e.taskD t).effort > 0) && w.done == 0 && (σ.tst t).forward then
    σ.setT t { σ.tst t with start := some (e.time w.cur + (if w.offset > 0 then w.offset.floor else 0)) }
  else σ

/-- state in which the members are booked: levelled for a team, unchanged otherwise -/
def leveled (e : Env) (σ : St) (t : Nat) (cur : Int) (sel : List Nat) : St :=
  if isTeam e t sel then levelTeam σ cur sel else σ

def selectedOf (e : Env) (σ : St) (t : Nat) (w : Walk) : List Nat :=
  match w.selected with
  | some s => s
  | none => selectBest e σ (e.taskD t).alloc (e.taskD t).alt (e.taskD t).effort w.cur

/-- `TaskScenario.bookResources()` -/
def bookResources (e : Env) (σ : St) (t : Nat) (w : Walk) : St × Walk :=
  if !(e.taskD t).hasAlloc then (σ, w)
  else
    let sel := selectedOf e σ t w
    let w' : Walk := { w with selected := some sel }
    if sel.isEmpty then (σ, w')
    else if teamGateFails e σ t w' sel then (σ, w')
    else
      let acc := bookAll e (leveled e σ t w'.cur sel) t w' sel
      if acc.any then (markStart e acc.σ t w', { w' with done := w'.done + acc.total, last := acc.last })
      else (acc.σ, { w' with last := acc.last })

/-- Python `round()` on the exact value: half to even -/
def roundHalfEven (x : Rat) : Int :=
  let f := x.floor
  let r := x - f
  if r < 1/2 then f else if r > 1/2 then f + 1 else if f % 2 == 0 then f else f + 1

/-- release the tail of task `t` in slot `cur` on every selected member other than `r` -/
def releaseOthers (σ : St) (t : Nat) (cur : Int) (r : Nat) (need : Rat) (sel : List Nat) : St :=
  sel.foldl (fun (acc : St) m =>
    if m == r then acc
    else
      match usageOf (acc.led.get m cur).usage t with
      | none => acc
      | some secs => { acc with led := acc.led.set m cur ((acc.led.get m cur).release t (min need secs)) }) σ

/-- seconds of the final slot the task needs (clamped to the slot and to what it booked there) -/
def needSecs (e : Env) (σ : St) (t : Nat) (w : Walk) (before : Rat) (r : Nat) : Rat :=
  let eff := (e.resD r).eff
  let need0 := if eff > 0 then ((e.taskD t).effort - before) / (eff / 3600) else (e.G : Rat)
  let booked := (usageOf (σ.led.get r w.cur).usage t).getD (e.G : Rat)
  min (min need0 (e.G : Rat)) booked

/-- `_calculatePreciseEndTimeAndRelease(effort, before, forward)`: returns the date and the new state -/
def finishTask (e : Env) (σ : St) (t : Nat) (w : Walk) (before : Rat) (fwd : Bool) : St × Int :=
  match w.last with
  | none =>
    -- no resource was ever booked (cannot happen for effort > 0 finishing); mirror the fallback
    let need := min (((e.taskD t).effort - before) * 3600) (e.G : Rat)
    (σ, if fwd then e.time w.cur + roundHalfEven need else e.time w.cur + e.G - roundHalfEven need)
  | some r =>
    let s := σ.led.get r w.cur
    let usedBefore := match usageOf s.usage t with
      | some b => s.used - b
      | none => 0
    let need := needSecs e σ t w before r
    let rounded := roundHalfEven (usedBefore + need)
    let date := if fwd then e.time w.cur + rounded else e.time w.cur + e.G - rounded
    let σ1 : St := { σ with led := σ.led.set r w.cur (s.release t need) }
    (releaseOthers σ1 t w.cur r need (w.selected.getD []), date)

/-- is the amount the finishing date is rounded from an exact `.5` tie?  (Python rounds the *double*;
    at an exact tie the double may sit on either side, so such cases are not compared) -/
def finishIsTie (e : Env) (σ : St) (t : Nat) (w : Walk) (before : Rat) : Bool :=
  match w.last with
  | none => false
  | some r =>
    let s := σ.led.get r w.cur
    let usedBefore := match usageOf s.usage t with
      | some b => s.used - b
      | none => 0
    let x := usedBefore + needSecs e σ t w before r
    x - x.floor == 1 / 2

/-- `TaskScenario.scheduleSlot()`; the Bool is the loop condition (True = go on) -/
def scheduleSlot (e : Env) (σ : St) (t : Nat) (w : Walk) : St × Walk × Bool :=
  let d := e.taskD t
  let ts := σ.tst t
  if d.milestone || d.effort == 0 then
    if ts.forward then
      if ts.start.isSome && d.startProvided then
        (σ.setT t { ts with stop := ts.start }, w, false)
      else
        let date := e.time w.cur + (if w.offset > 0 then w.offset.floor else 0)
        (σ.setT t { ts with start := some date, stop := some date }, w, false)
    else
      if ts.stop.isSome then
        (σ.setT t { ts with start := ts.stop }, w, false)
      else
        let date := e.time w.cur
        (σ.setT t { ts with start := some date, stop := some date }, w, false)
  else
    let before := w.done
    let (σ1, w1) := bookResources e σ t w
    if w1.done ≥ d.effort then
      let (σ2, date) := finishTask e σ1 t w1 before ts.forward
      let ts2 := σ2.tst t
      let σ3 := σ2.setT t (if ts.forward then { ts2 with stop := some date } else { ts2 with start := some date })
      ({ σ3 with warnings := if finishIsTie e σ1 t w1 before then σ3.warnings ++ ["rounding-tie"] else σ3.warnings }, w1, false)
    else (σ1, w1, true)

/-- bookkeeping after a slot that did not finish the task: remember the first booked slot of a
    backward walk, move the cursor -/
def advance (fwd : Bool) (w w1 : Walk) : Walk :=
  { w1 with
    firstBooked := if !fwd && w1.firstBooked.isNone && decide (w1.done > w.done) then some w1.cur else w1.firstBooked,
    cur := w1.cur + (if fwd then 1 else -1),
    -- the dependency bound lies inside the first slot only (`slotStartOffset = 0` after the first slot)
    offset := 0 }

/-- the `while self.scheduleSlot(): …` loop; the Bool is False for a run-away task -/
def walkLoop (e : Env) (t : Nat) (fwd : Bool) : Nat → St → Walk → St × Walk × Bool
  | 0, σ, w => (σ, w, false)
  | f + 1, σ, w =>
    let r := scheduleSlot e σ t w
    if !r.2.2 then
      -- the slot in which the task finished may also be the first one it booked
      let fb := if !fwd && r.2.1.firstBooked.isNone && decide (r.2.1.done > w.done) then some r.2.1.cur else r.2.1.firstBooked
      (r.1, { r.2.1 with firstBooked := fb }, true)
    else
      let w2 := advance fwd w r.2.1
      if w2.cur < 0 || w2.cur > e.upper then (r.1, w2, false)
      else walkLoop e t fwd f r.1 w2

/-- `_isResourceAvailable`: some allocated resource (primaries then alternatives) is on shift -/
def anyOnShift (e : Env) (t : Nat) (i : Int) : Bool :=
  let d := e.taskD t
  (d.alloc ++ d.alt).any (fun r => e.onShift r i)

/-- the two `while cur > lower and not …: cur -= 1` loops of the ALAP branch -/
def backToWork (e : Env) (p : Int → Bool) : Nat → Int → Int
  | 0, cur => cur
  | f + 1, cur => if cur > 0 && !p cur then backToWork e p f (cur - 1) else cur

def fwdToWork (e : Env) : Nat → Int → Int
  | 0, cur => cur
  | f + 1, cur => if cur < e.upper && !e.projWork cur then fwdToWork e f (cur + 1) else cur

/-- `_getSuccessors`: leaf tasks one of whose dependencies (own or inherited from an enclosing
    container) names `t` or one of `t`'s enclosing containers -/
def successors (e : Env) (t : Nat) : List Nat :=
  let targets := e.taskChain t
  (List.range e.tasks.size).filter (fun s =>
    (e.taskD s).leaf && s != t && (e.taskD s).allDeps.any (fun dp => targets.contains dp.target))

/-- `gaplength`: the instant at which `rem` seconds of project working time have passed since `dt` (`i` = the slot `dt` lies
    in; a working slot of the project calendar counts from `dt` to its end); beyond the horizon nothing is working time and
    the walk stops at the start of the first slot outside -/
def lenWalk (e : Env) : Nat → Int → Int → Int → Int
  | 0, _, _, dt => dt
  | f + 1, rem, i, dt =>
    if rem > 0 && i ≤ e.upper then
      if e.projWork i then
        if e.G - (dt - e.time i) ≥ rem then dt + rem
        else lenWalk e f (rem - (e.G - (dt - e.time i))) (i + 1) (e.time (i + 1))
      else lenWalk e f rem (i + 1) (e.time (i + 1))
    else dt

/-- the date a dependency contributes to the forward bound: (start | end) + gapduration, or — when no gapduration is given
    (`if gapduration: … elif gaplength: …`; the caller sets `glen` only then) — moved on by `gaplength` of project working time -/
def depDate (e : Env) (dp : Dep) (dt : Int) : Int :=
  if dp.glen > 0 && dp.gap == 0 then lenWalk e (e.size.toNat + 3) dp.glen (e.idx dt) dt else dt + dp.gap

/-- forward bound: the latest of `base` and every dependency's date -/
def earliestStart (e : Env) (σ : St) (deps : List Dep) (base : Int) : Int :=
  deps.foldl (fun acc dp =>
    match (if dp.onstart then (σ.tst dp.target).start else (σ.tst dp.target).stop) with
    | some dt => max acc (depDate e dp dt)
    | none => acc) base

/-- slot of the bound and the offset of the bound inside that slot -/
def cursorOf (e : Env) (earliest : Int) : Int × Rat :=
  (e.idx earliest, if earliest > e.time (e.idx earliest) then ((earliest - e.time (e.idx earliest) : Int) : Rat) else 0)

/-- backward deadline when the task has no end of its own -/
def latestEnd (e : Env) (σ : St) (t : Nat) : Int :=
  let d := e.taskD t
  let l1 := d.allDeps.foldl (fun acc dp =>
    if dp.onstart then
      match (σ.tst dp.target).start with
      | some ps => min acc (ps - dp.gap)
      | none => acc
    else acc) e.stop
  (successors e t).foldl (fun acc s =>
    match (σ.tst s).start with
    | none => acc
    | some ss =>
      -- the largest gap among the finish-to-start entries naming `t` or an enclosing container
      let g := (e.taskD s).allDeps.foldl (fun m dp =>
        if dp.hasOpts && (e.taskChain t).contains dp.target && !dp.onstart then max m dp.gap else m) 0
      min acc (ss - g)) l1

/-- cursor initialisation of `schedule()`: returns (cur, offset) -/
def initCursor (e : Env) (σ : St) (t : Nat) : Int × Rat :=
  let d := e.taskD t
  let ts := σ.tst t
  if ts.forward then
    match ts.start with
    | some s =>
      if d.startProvided then (e.idx s, 0)
      else cursorOf e (earliestStart e σ d.allDeps (max e.start s))
    | none => cursorOf e (earliestStart e σ d.allDeps e.start)
  else
    let endDate := match ts.stop with
      | some x => x
      | none => latestEnd e σ t
    let c0 := e.idx endDate - 1
    let fuel := (e.size.toNat + 2)
    if d.effort > 0 && d.hasAlloc then (backToWork e (anyOnShift e t) fuel c0, 0)
    else (backToWork e e.projWork fuel c0, 0)

/-- effort > 0 without allocations, forward, no start: the cursor moves to the first project
    working slot and `start` is set there (the task then runs away: nothing can be booked) -/
def preStartCursor (e : Env) (σ : St) (t : Nat) (c0 : Int) : Int :=
  let d := e.taskD t
  let ts := σ.tst t
  if ts.forward && ts.start.isNone && !(d.milestone || d.effort == 0) && !d.hasAlloc then
    fwdToWork e (e.size.toNat + 2) c0
  else c0

def preStartT (e : Env) (σ : St) (t : Nat) (c0 : Int) : TSt :=
  let d := e.taskD t
  let ts := σ.tst t
  if ts.forward && ts.start.isNone && !(d.milestone || d.effort == 0) && !d.hasAlloc then
    { ts with start := some (e.time (fwdToWork e (e.size.toNat + 2) c0)) }
  else ts

/-- the attribute updates at the end of `schedule()` -/
def finalT (e : Env) (t : Nat) (fwd : Bool) (c1 : Int) (ts1 : TSt) (w1 : Walk) : TSt :=
  let d := e.taskD t
  let ts2 :=
    if fwd then
      if ts1.start.isNone then { ts1 with start := some (e.time c1) } else ts1
    else
      let a := if ts1.start.isNone then { ts1 with start := some (e.time w1.cur) } else ts1
      let endSlot := w1.firstBooked.getD c1
      if d.effort > 0 || a.stop.isNone then { a with stop := some (e.time (endSlot + 1)) } else a
  { ts2 with done := true, scheduled := true }

/-- `TaskScenario.schedule()`; Bool = return value -/
def scheduleTask (e : Env) (σ : St) (t : Nat) : St × Bool :=
  let ts := σ.tst t
  if ts.done then (σ, true)
  else
    let ic := initCursor e σ t
    let c1 := preStartCursor e σ t ic.1
    let σ0 := σ.setT t (preStartT e σ t ic.1)
    -- the cursor must lie inside the horizon before the first slot is tried
    if c1 < 0 || c1 > e.upper then (σ0.setT t { σ0.tst t with runaway := true }, false)
    else
      let r := walkLoop e t ts.forward (e.size.toNat + 3) σ0 { cur := c1, offset := ic.2 }
      if !r.2.2 then (r.1.setT t { r.1.tst t with runaway := true }, false)
      else (r.1.setT t (finalT e t ts.forward c1 (r.1.tst t) r.2.1), true)

/-! ### readiness -/

def asapReady (e : Env) (σ : St) (t : Nat) : Bool :=
  (e.taskD t).allDeps.all (fun dp => (σ.tst dp.target).scheduled)

def alapReady (e : Env) (σ : St) (t : Nat) : Bool :=
  if (σ.tst t).stop.isSome then true
  else if (e.taskD t).allDeps.any (fun dp => dp.onstart && !(σ.tst dp.target).scheduled) then false
  else (successors e t).all (fun s => (σ.tst s).scheduled)

def ready (e : Env) (σ : St) (t : Nat) : Bool :=
  if (σ.tst t).forward then asapReady e σ t else alapReady e σ t

/-! ### roll-up -/

def minOpt (a : Option Int) (b : Int) : Option Int := match a with | none => some b | some x => some (min x b)
def maxOpt (a : Option Int) (b : Int) : Option Int := match a with | none => some b | some x => some (max x b)

def childMinStart (σ : St) (children : List Nat) : Option Int :=
  children.foldl (fun m c => match (σ.tst c).start with | some s => minOpt m s | none => m) none
def childMaxEnd (σ : St) (children : List Nat) : Option Int :=
  children.foldl (fun m c => match (σ.tst c).stop with | some s => maxOpt m s | none => m) none

/-- new attributes of container `t` in one pass of `_updateContainerTaskStatus` -/
def rollupT (e : Env) (σ : St) (t : Nat) : TSt :=
  let d := e.taskD t
  let ts := σ.tst t
  if d.leaf || ts.scheduled || d.children.isEmpty then ts
  else if !(d.children.all (fun c => (σ.tst c).scheduled)) then ts
  else
    let ts := match childMinStart σ d.children with | some s => { ts with start := some s } | none => ts
    let ts := match childMaxEnd σ d.children with | some s => { ts with stop := some s } | none => ts
    { ts with scheduled := true }

/-- `_updateContainerTaskStatus` (children-first after the fix: task list walked backwards) -/
def updateContainers (e : Env) (σ : St) : St :=
  (List.range e.tasks.size).reverse.foldl (fun (acc : St) t => acc.setT t (rollupT e acc t)) σ

/-- new attributes of container `t` in `scheduleContainer` (children already finished) -/
def containerT (e : Env) (σ : St) (t : Nat) : TSt :=
  let d := e.taskD t
  let ts := σ.tst t
  if ts.done || d.leaf then ts
  else
    -- abort if a child is unscheduled or lacks a date
    if d.children.any (fun c => !(σ.tst c).scheduled || (σ.tst c).start.isNone || (σ.tst c).stop.isNone) then ts
    else
      let mn := childMinStart σ d.children
      let mx := childMaxEnd σ d.children
      let ts1 := match mn with
        | some s => if ts.start.isNone || decide (ts.start.getD s > s) then { ts with start := some s } else ts
        | none => ts
      let ts2 := match mx with
        | some s => if ts1.stop.isNone || decide (ts1.stop.getD s < s) then { ts1 with stop := some s } else ts1
        | none => ts1
      if mn.isSome && mx.isSome then { ts2 with done := true, scheduled := true } else ts2

def scheduleContainer (e : Env) (σ : St) (t : Nat) : St := σ.setT t (containerT e σ t)

/-- `finishScenario`: children-first = task list backwards (children are created after parents) -/
def finishScenario (e : Env) (σ : St) : St :=
  (List.range e.tasks.size).reverse.foldl (fun acc t => if (e.taskD t).leaf then acc else scheduleContainer e acc t) σ

/-! ### prepare / ALAP propagation -/

/-- `_propagateContainerEndDates`: the nearest dated ancestor's end, for roots that carry an end -/
def inheritedEnd (e : Env) (σ : St) (t : Nat) : Option Int :=
  -- walk from the root down: chain is [t, parent, …, root]
  let chain := (e.taskChain t).reverse   -- root first, t last
  match chain with
  | [] => none
  | root :: rest =>
    -- effective_end = task_end if task_end else container_end, going down from the root (dated or
    -- not); stop before t itself
    (rest.dropLast).foldl (fun acc x => match (σ.tst x).stop with | some v => some v | none => acc) (σ.tst root).stop

def containerEndT (e : Env) (σ0 acc : St) (t : Nat) : TSt :=
  let leaves := (List.range e.tasks.size).filter (fun t => (e.taskD t).leaf)
  let hasFsSucc := leaves.any (fun s => (e.taskD s).allDeps.any (fun dp => (e.taskChain t).contains dp.target && !dp.onstart))
  let hasOnstart := (e.taskD t).allDeps.any (fun dp => dp.onstart)
  let d := e.taskD t
  let ts := acc.tst t
  if !d.leaf || d.parent.isNone then ts
  else if !ts.forward && ts.stop.isNone && !hasFsSucc && !hasOnstart then
    match inheritedEnd e σ0 t with
    | some ce => { ts with stop := some ce }
    | none => ts
  else ts

def propagateContainerEnds (e : Env) (σ : St) : St :=
  (List.range e.tasks.size).foldl (fun (acc : St) t => acc.setT t (containerEndT e σ acc t)) σ

/-- `_markTaskALAP` (DFS with a processed set; fuel = number of tasks squared is ample) -/
def markAlap (e : Env) : Nat → List Nat → List Nat → St → St × List Nat
  | 0, _, processed, σ => (σ, processed)
  | _, [], processed, σ => (σ, processed)
  | f + 1, t :: stack, processed, σ =>
    if processed.contains t then markAlap e f stack processed σ
    else
      let processed := t :: processed
      let d := e.taskD t
      if !d.leaf then markAlap e f stack processed σ
      else
        let ts := σ.tst t
        if ts.forward && ts.start.isSome then markAlap e f stack processed σ
        else
          let σ1 := σ.setT t { ts with forward := false }
          markAlap e f (d.deps.map (·.target) ++ stack) processed σ1

def propagateAlap (e : Env) (σ : St) : St :=
  let n := e.tasks.size
  let anchors := (List.range n).filter (fun t => (e.taskD t).leaf && !(σ.tst t).forward && (σ.tst t).stop.isSome)
  (anchors.foldl (fun (acc : St × List Nat) a =>
    let processed := if acc.2.contains a then acc.2 else a :: acc.2
    let preds := ((e.taskD a).deps.map (·.target)).filter (fun p => !processed.contains p)
    markAlap e (n * n + n + 1) preds processed acc.1) (σ, [])).1

/-! ### the scenario -/

def initState (e : Env) : St :=
  { ts := e.tasks.map (fun d => { start := d.start, stop := d.stop, forward := d.forward }) }

def projAlapT (e : Env) (σ : St) (t : Nat) : TSt :=
  let d := e.taskD t
  if e.projAlap && d.leaf && !d.explicitMode then { σ.tst t with forward := false } else σ.tst t

def prepare (e : Env) (σ : St) : St :=
  propagateContainerEnds e
    ((List.range e.tasks.size).foldl (fun (acc : St) t => acc.setT t (projAlapT e acc t)) σ)

def prepassT (e : Env) (σ : St) (t : Nat) : TSt :=
  let d := e.taskD t
  let ts := σ.tst t
  if !d.leaf then ts
  else
    let start := if d.startProvided then ts.start else none
    let stop := ts.stop
    let implicit := (start.isSome || stop.isSome) && d.effort == 0
    if d.milestone || implicit then
      match start, stop with
      | some s, none => { ts with stop := some s, scheduled := true }
      | none, some x => { ts with start := some x, scheduled := true }
      | some _, some _ => { ts with scheduled := true }
      | none, none => ts
    else ts

/-- milestone pre-pass of `scheduleScenario` -/
def milestonePrepass (e : Env) (σ : St) : St :=
  (List.range e.tasks.size).foldl (fun (acc : St) t => acc.setT t (prepassT e acc t)) σ

def prioLe (e : Env) (a b : Nat) : Bool :=
  let pa := (e.taskD a).prio
  let pb := (e.taskD b).prio
  decide (pa > pb) || (pa == pb && decide (a ≤ b))

/-- the pick-first-ready loop; `failed` accumulates tasks whose `schedule()` returned False -/
def pickLoop (e : Env) : Nat → List Nat → List Nat → St → St × List Nat
  | 0, _, failed, σ => (σ, failed)
  | f + 1, tasks, failed, σ =>
    if tasks.isEmpty then (σ, failed)
    else
      match tasks.find? (fun t => ready e σ t) with
      | some t =>
        let (σ1, ok) := scheduleTask e σ t
        let failed := if ok then failed else failed ++ [t]
        pickLoop e f (tasks.erase t) failed (updateContainers e σ1)
      | none =>
        if failed.isEmpty then ({ σ with warnings := σ.warnings ++ ["deadlock"] }, failed ++ tasks)
        else (σ, failed)

/-- everything `scheduleScenario` does before its main loop -/
def preLoop (e : Env) (σ : St) : St := updateContainers e (propagateAlap e (milestonePrepass e σ))

/-- the work list: unscheduled leaves sorted by (priority descending, declaration order) -/
def todoOf (e : Env) (σ : St) : List Nat :=
  ((List.range e.tasks.size).filter (fun t => (e.taskD t).leaf && !(σ.tst t).scheduled)).mergeSort (prioLe e)

def scheduleScenario (e : Env) (σ : St) : St :=
  let σ2 := preLoop e σ
  let r := pickLoop e ((todoOf e σ2).length + 1) (todoOf e σ2) [] σ2
  if r.2.isEmpty then r.1 else { r.1 with warnings := r.1.warnings ++ ["unscheduled_tasks"] }

/-- one scenario, start to finish -/
def runScenario (e : Env) : St :=
  finishScenario e (scheduleScenario e (prepare e (initState e)))

end SP
