/-
Model/Macro.lean — the macro preprocessor (`scriptplan/parser/macro_processor.py`):
`strip_shell_comments`, `MacroProcessor._extract_macros`, `_expand_once`, `_expand_macros`,
`_expand_macro_call`, over `List Char`, written from the source statement by statement.

* The alphabet is ASCII (code points < 128): `isSpace` = Python `str.isspace()` = regex `\s`,
  `isWord` = regex `\w`, on that range (checked exhaustively by the harness on every run).
* Index loops `while i < n: … i = j; continue … i += 1` become structural recursion with a *skip
  counter* (`go (skip+1) (_ :: cs) = go skip cs`): no fuel, total, and evaluable by `decide`.
* `${projectstart}`, `${projectend}`, the `now` attribute and today's date are ENVIRONMENT INPUTS
  (`Env`): `_extract_project_dates` (two regex searches, `relativedelta`, the wall clock) is not modelled.
* `_expand_once`/`_expand_macros` are modelled AS REPAIRED by `notes/patches/F14.diff`: a pass raises
  `MacroExpansionError` as soon as the text it is building exceeds `MAX_EXPANDED_SIZE` (`cap = some n`).
  `cap = none` is the pinned expander (no bound).
-/
namespace SP.Macro

/-- Python `str.isspace()` and regex `\s` on ASCII: TAB LF VT FF CR, FS GS RS US, SPACE -/
def isSpace (c : Char) : Bool :=
  let n := c.toNat
  (decide (9 ≤ n) && decide (n ≤ 13)) || (decide (28 ≤ n) && decide (n ≤ 32))

/-- regex `\w` on ASCII -/
def isWord (c : Char) : Bool := c.isAlphanum || c == '_'

/-- Python `str.strip()` -/
def strip (s : List Char) : List Char :=
  ((s.dropWhile isSpace).reverse.dropWhile isSpace).reverse

/-- Python `str.split()` (no argument): maximal runs of non-whitespace -/
def splitWsGo : List Char → List Char → List (List Char)
  | cur, [] => if cur.isEmpty then [] else [cur.reverse]
  | cur, c :: cs =>
    if isSpace c then (if cur.isEmpty then splitWsGo [] cs else cur.reverse :: splitWsGo [] cs)
    else splitWsGo (c :: cur) cs

def splitWs (s : List Char) : List (List Char) := splitWsGo [] s

/-! ### strip_shell_comments -/

inductive StripSt where
  | normal
  | str (q : Char)
  | comment
  deriving Repr, DecidableEq

def stripGo : StripSt → List Char → List Char
  | _, [] => []
  | .normal, c :: cs =>
    if c = '"' ∨ c = '\'' then c :: stripGo (.str c) cs
    else if c = '#' then stripGo .comment cs
    else c :: stripGo .normal cs
  | .str q, c :: cs =>
    if c = q then c :: stripGo .normal cs else c :: stripGo (.str q) cs
  | .comment, c :: cs =>
    if c = '\n' then c :: stripGo .normal cs else stripGo .comment cs

def stripShellComments (s : List Char) : List Char := stripGo .normal s

/-! ### blank_comments -/

/-- scanner states of `blank_comments`; `copy k rich` = copy the next `k` characters (the rest of a `-8<-` / `->8-` marker),
    then continue inside (`rich = true`) or outside a rich text block -/
inductive BlankSt where
  | normal
  | str (q : Char)
  | rich
  | copy (k : Nat) (rich : Bool)
  | line
  | blockOpen
  | block
  | blockClose
  deriving Repr, DecidableEq

/-- `blank_comments`: comments (`# …`, `// …`, `/* … */`) become blanks, newlines are kept; strings and `-8<- … ->8-` rich text
    blocks are copied -/
def blankGo : BlankSt → List Char → List Char
  | _, [] => []
  | .normal, c :: cs =>
    if c = '"' ∨ c = '\'' then c :: blankGo (.str c) cs
    else if c = '-' ∧ cs.take 3 = ['8', '<', '-'] then c :: blankGo (.copy 3 true) cs
    else if c = '#' then ' ' :: blankGo .line cs
    else if c = '/' ∧ cs.head? = some '/' then ' ' :: blankGo .line cs
    else if c = '/' ∧ cs.head? = some '*' then ' ' :: blankGo .blockOpen cs
    else c :: blankGo .normal cs
  | .str q, c :: cs => if c = q then c :: blankGo .normal cs else c :: blankGo (.str q) cs
  | .rich, c :: cs =>
    if c = '-' ∧ cs.take 3 = ['>', '8', '-'] then c :: blankGo (.copy 3 false) cs else c :: blankGo .rich cs
  | .copy k r, c :: cs =>
    if k ≤ 1 then c :: blankGo (if r then .rich else .normal) cs else c :: blankGo (.copy (k - 1) r) cs
  | .line, c :: cs => if c = '\n' then c :: blankGo .normal cs else ' ' :: blankGo .line cs
  | .blockOpen, _ :: cs => ' ' :: blankGo .block cs
  | .block, c :: cs =>
    if c = '*' ∧ cs.head? = some '/' then ' ' :: blankGo .blockClose cs
    else (if c = '\n' then c else ' ') :: blankGo .block cs
  | .blockClose, _ :: cs => ' ' :: blankGo .normal cs

def blankComments (s : List Char) : List Char := blankGo .normal s

/-! ### bracket / brace matching -/

/-- `count = d; while j < n and count > 0: (+1 on open, -1 on close); j += 1` started with `d ≥ 1`:
    `some (inside, rest)` when the count reaches 0 (`inside` excludes the final close), else `none` -/
def scanClose (o c : Char) : Nat → List Char → Option (List Char × List Char)
  | _, [] => none
  | d, x :: xs =>
    if x = o then (scanClose o c (d + 1) xs).map (fun p => (x :: p.1, p.2))
    else if x = c then
      (if d ≤ 1 then some ([], xs) else (scanClose o c (d - 1) xs).map (fun p => (x :: p.1, p.2)))
    else (scanClose o c d xs).map (fun p => (x :: p.1, p.2))

/-! ### _extract_macros -/

def stripPrefix? : List Char → List Char → Option (List Char)
  | [], s => some s
  | _ :: _, [] => none
  | p :: ps, c :: cs => if p = c then stripPrefix? ps cs else none

/-- `re.match(r"\s*macro\s+(\w+)\s*\[", s)`: the macro name and the text after the `[`.
    (No backtracking alternative exists: the classes that follow each other are disjoint.) -/
def matchMacroHead (s : List Char) : Option (List Char × List Char) :=
  match stripPrefix? ['m', 'a', 'c', 'r', 'o'] (s.dropWhile isSpace) with
  | none => none
  | some s2 =>
    match s2 with
    | [] => none
    | c2 :: _ =>
      if !isSpace c2 then none else
      let s3 := s2.dropWhile isSpace
      let name := s3.takeWhile isWord
      if name.isEmpty then none else
      match (s3.dropWhile isWord).dropWhile isSpace with
      | '[' :: rest => some (name, rest)
      | _ => none

abbrev Defs := List (List Char × List Char)

/-- the loop of `_extract_macros`; returns the definitions in text order and the remaining text -/
def extractGo : Nat → List Char → Defs × List Char
  | _, [] => ([], [])
  | skip + 1, _ :: cs => extractGo skip cs
  | 0, c :: cs =>
    match matchMacroHead (c :: cs) with
    | some (name, afterOpen) =>
      match scanClose '[' ']' 1 afterOpen with
      | some (body, rest) =>
        let r := extractGo (cs.length - rest.length) cs
        ((name, strip (stripShellComments body)) :: r.1, r.2)
      | none => let r := extractGo 0 cs; (r.1, c :: r.2)
    | none => let r := extractGo 0 cs; (r.1, c :: r.2)

def extractMacros (s : List Char) : Defs × List Char := extractGo 0 s

/-- `self._macros[name]`: the LAST definition of a name wins (dict assignment) -/
def lookup : Defs → List Char → Option (List Char)
  | [], _ => none
  | (n, b) :: ds, name =>
    match lookup ds name with
    | some b' => some b'
    | none => if n = name then some b else none

/-! ### _expand_macro_call -/

structure Env where
  defs : Defs := []
  projectStart : Option (List Char) := none
  projectEnd : Option (List Char) := none
  nowAttr : Option (List Char) := none
  today : List Char := []

/-- Python `str.replace(pat, rep)` for a non-empty `pat`: leftmost, non-overlapping -/
def replaceGo (pat rep : List Char) : Nat → List Char → List Char
  | _, [] => []
  | skip + 1, _ :: cs => replaceGo pat rep skip cs
  | 0, c :: cs =>
    if pat.isPrefixOf (c :: cs) then rep ++ replaceGo pat rep (pat.length - 1) cs
    else c :: replaceGo pat rep 0 cs

def replaceAll (pat rep s : List Char) : List Char := replaceGo pat rep 0 s

/-- `for i, arg in enumerate(args, 1): expansion = expansion.replace(f"${i}", arg)` -/
def substArgs : List Char → Nat → List (List Char) → List Char
  | body, _, [] => body
  | body, i, a :: as => substArgs (replaceAll ('$' :: (Nat.repr i).toList) a body) (i + 1) as

def kwProjectStart : List Char := "projectstart".toList
def kwProjectEnd : List Char := "projectend".toList
def kwNow : List Char := "now".toList
def kwToday : List Char := "today".toList

def orEmpty : Option (List Char) → List Char
  | some s => s
  | none => []

def expandCall (E : Env) (call : List Char) : List Char :=
  match splitWs call with
  | [] => []
  | name :: args =>
    if name = kwProjectStart then orEmpty E.projectStart
    else if name = kwProjectEnd then orEmpty E.projectEnd
    else if name = kwNow then
      (match E.nowAttr with
       | some s => if s.isEmpty then E.today else s
       | none => E.today)
    else if name = kwToday then E.today
    else
      match lookup E.defs name with
      | some body => substArgs body 1 args
      | none => '$' :: '{' :: (call ++ ['}'])

/-! ### _expand_once -/

/-- what one pass sees at each position -/
inductive Seg where
  | plain (c : Char)              -- `result.append(content[i]); i += 1`
  | call (inner : List Char)      -- `${ … }` with its matching brace: the text between them
  | unmatched                     -- `${` without a matching `}`: the `$` is copied, the scan moves on
  deriving Repr, DecidableEq

def segGo : Nat → List Char → List Seg
  | _, [] => []
  | skip + 1, _ :: cs => segGo skip cs
  | 0, c :: cs =>
    if c = '$' then
      match cs with
      | '{' :: t =>
        match scanClose '{' '}' 1 t with
        | some (inner, rest) => .call inner :: segGo (cs.length - rest.length) cs
        | none => .unmatched :: segGo 0 cs
      | _ => .plain c :: segGo 0 cs
    else .plain c :: segGo 0 cs

def segments (s : List Char) : List Seg := segGo 0 s

def Seg.render (E : Env) : Seg → List Char
  | .plain c => [c]
  | .call inner => expandCall E (strip inner)
  | .unmatched => ['$']

/-! ### predicates used by the theorems -/

/-- a text in which every `${` finds its closing brace and which does not end in `$`: a pass over
    `x ++ y` treats `x` and `y` separately -/
def Closed (x : List Char) : Bool :=
  !(segments x).contains Seg.unmatched && x.getLast? != some '$'

def builtinNames : List (List Char) := [kwProjectStart, kwProjectEnd, kwNow, kwToday]

/-- a call text `${m}` that is just a name: non-empty, no whitespace, no braces (every `\w+` name is one) -/
def PlainName (m : List Char) : Prop :=
  m ≠ [] ∧ ∀ x ∈ m, isSpace x = false ∧ x ≠ '{' ∧ x ≠ '}'

instance (m : List Char) : Decidable (PlainName m) := by unfold PlainName; infer_instance

/-- `macro NAME [RAW]` (one space each) at the start of a text -/
def defText (name raw : List Char) : List Char :=
  ['m', 'a', 'c', 'r', 'o', ' '] ++ name ++ [' ', '['] ++ raw ++ [']']

/-- one pass without a size bound (pinned `_expand_once`) -/
def expandOnce (E : Env) (s : List Char) : List Char :=
  (segments s).flatMap (Seg.render E)

/-- REPAIRED pass: the running size is checked after every expansion and once at the end of the
    pass; `none` = `MacroExpansionError`.  `cap = none` switches the check off (pinned code). -/
def renderB (E : Env) (cap : Option Nat) : List Seg → List Char → Option (List Char)
  | [], acc =>
    (match cap with
     | some n => if acc.length > n then none else some acc.reverse
     | none => some acc.reverse)
  | .call inner :: ss, acc =>
    let acc' := (expandCall E (strip inner)).reverse ++ acc
    (match cap with
     | some n => if acc'.length > n then none else renderB E cap ss acc'
     | none => renderB E cap ss acc')
  | sg :: ss, acc => renderB E cap ss ((sg.render E).reverse ++ acc)

def expandOnceB (E : Env) (cap : Option Nat) (s : List Char) : Option (List Char) :=
  renderB E cap (segments s) []

/-! ### _expand_macros -/

/-- `"${" in content` -/
def hasCall : List Char → Bool
  | [] => false
  | [_] => false
  | c :: d :: cs => (c == '$' && d == '{') || hasCall (d :: cs)

inductive Outcome where
  | ok (text : List Char)
  | tooLarge                       -- `MacroExpansionError`
  deriving Repr, DecidableEq

/-- `while "${" in content and iteration < max_iterations: content = self._expand_once(content)` -/
def expandLoop (E : Env) (cap : Option Nat) : Nat → List Char → Outcome
  | 0, s => .ok s
  | n + 1, s =>
    if hasCall s then
      match expandOnceB E cap s with
      | none => .tooLarge
      | some s' => expandLoop E cap n s'
    else .ok s

def maxIterations : Nat := 100

def expandMacros (E : Env) (cap : Option Nat) (s : List Char) : Outcome :=
  expandLoop E cap maxIterations s

/-- `MacroProcessor.process`: extract definitions, (environment), expand -/
def process (env : Env) (cap : Option Nat) (text : List Char) : Outcome :=
  let r := extractMacros text
  expandMacros { env with defs := r.1 } cap r.2

/-- `MacroProcessor.process` on a text: comments are blanked first -/
def processText (env : Env) (cap : Option Nat) (text : List Char) : Outcome := process env cap (blankComments text)

/-- the contents after each pass (for the bound theorem) -/
def expandTrace (E : Env) (cap : Option Nat) : Nat → List Char → List (List Char)
  | 0, _ => []
  | n + 1, s =>
    if hasCall s then
      match expandOnceB E cap s with
      | none => []
      | some s' => s' :: expandTrace E cap n s'
    else []

/-! ### the F14 witness family -/

/-- `macro a [${a} ${a}]` -/
def selfDouble : Env := { defs := [(['a'], ['$', '{', 'a', '}', ' ', '$', '{', 'a', '}'])] }

/-- `${a}`, `${a} ${a}`, `${a} ${a} ${a} ${a}`, … -/
def blow : Nat → List Char
  | 0 => ['$', '{', 'a', '}']
  | k + 1 => blow k ++ ' ' :: blow k

end SP.Macro
