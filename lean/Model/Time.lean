/-
Model/Time.lean — civil-calendar arithmetic used by the scheduler
(models the parts of Python's `datetime` the code relies on: `.weekday()`, `.hour`,
`.minute`, `.date()`, `.isocalendar()`, `timedelta` arithmetic).

Time = Int seconds since 1970-01-01T00:00 (the code's naive datetimes are naive-UTC).
Day  = Int days since 1970-01-01.
`/` and `%` on Int are floor division / non-negative remainder for positive divisors.
-/
namespace SP

/-- days since 1970-01-01 of the proleptic Gregorian date y-m-d -/
def daysFromCivil (y m d : Int) : Int :=
  let y' := if m ≤ 2 then y - 1 else y
  let era := y' / 400
  let yoe := y' - era * 400
  let mp := (m + 9) % 12
  let doy := (153 * mp + 2) / 5 + d - 1
  let doe := yoe * 365 + yoe / 4 - yoe / 100 + doy
  era * 146097 + doe - 719468

/-- (year, month, day) of a day number -/
def civilFromDays (z0 : Int) : Int × Int × Int :=
  let z := z0 + 719468
  let era := z / 146097
  let doe := z - era * 146097
  let yoe := (doe - doe / 1460 + doe / 36524 - doe / 146096) / 365
  let y := yoe + era * 400
  let doy := doe - (365 * yoe + yoe / 4 - yoe / 100)
  let mp := (5 * doy + 2) / 153
  let d := doy - (153 * mp + 2) / 5 + 1
  let m := if mp < 10 then mp + 3 else mp - 9
  (if m ≤ 2 then y + 1 else y, m, d)

/-- Python `date.weekday()`: Monday = 0 … Sunday = 6.  1970-01-01 was a Thursday. -/
def weekdayOfDay (day : Int) : Int := (day + 3) % 7

/-- day number of an instant (Python `dt.date()`), floor -/
def dayOf (t : Int) : Int := t / 86400

/-- seconds since local midnight -/
def secOfDay (t : Int) : Int := t % 86400

def weekday (t : Int) : Int := weekdayOfDay (dayOf t)
def hourOf (t : Int) : Int := secOfDay t / 3600
def minuteOfDay (t : Int) : Int := secOfDay t / 60

/-- Monday (day number) of the ISO week containing `day` -/
def mondayOf (day : Int) : Int := day - weekdayOfDay day

/-- Python `date.isocalendar()[:2]` : (ISO year, ISO week) -/
def isoYearWeek (day : Int) : Int × Int :=
  let thursday := mondayOf day + 3
  let y := (civilFromDays thursday).1
  let jan1 := daysFromCivil y 1 1
  (y, (thursday - jan1) / 7 + 1)

/-- number of ISO weeks of a year = ISO week of Dec 28 -/
def isoWeeksInYear (y : Int) : Int := (isoYearWeek (daysFromCivil y 12 28)).2

end SP
