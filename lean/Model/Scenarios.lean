/-
Model/Scenarios.lean — several scenarios of one project.

Models core/project.py : Project.schedule (loop over scenarios; after the per-scenario horizon `fix:`
every scenario is prepared, scheduled and finished on state of its own: per-scenario attribute
values, ResourceScenario ledgers, Limits copies) and the parser's handling of `scenario:attribute`
(plain attributes are written to every scenario, `id:attr` only to that scenario).
-/
import Model.Elab
namespace SP

/-- scenario-specific overrides of one task -/
structure Override where
  task : Nat
  effort : Option Rat := none
  start : Option Int := none
  stop : Option Int := none
  deriving Repr, Inhabited

structure Multi where
  base : RawProj
  scenarios : List (List Override)      -- one override list per scenario, in declaration order
  deriving Repr, Inhabited

def applyOne (ts : List RawTask) (o : Override) : List RawTask :=
  (ts.zipIdx).map (fun (t, i) =>
    if i == o.task then
      { t with effort := (match o.effort with | some v => some v | none => t.effort),
               start := (match o.start with | some v => some v | none => t.start),
               stop := (match o.stop with | some v => some v | none => t.stop) }
    else t)

/-- the single-scenario project a scenario amounts to -/
def projection (b : RawProj) (ovs : List Override) : RawProj := { b with tasks := ovs.foldl applyOne b.tasks }

/-- schedule every scenario: each on its own projection -/
def runAll (m : Multi) : List St := m.scenarios.map (fun ovs => runScenario (elaborate (projection m.base ovs)).env)

end SP
