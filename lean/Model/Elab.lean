/-
Model/Elab.lean — from the flattened project description to the scheduler environment.

Models
  core/property.py : PropertyTreeNode.inheritAttributes (provided / inherited values, top-down) for the
                     attributes the scheduler reads (efficiency, timezone, workinghours, shifts, leaves;
                     allocate, priority, start, effort, milestone, forward, depends)
  core/task_scenario.py : getAllDependencies
  core/project.py : _extendProjectEndIfNeeded (per scenario), Scoreboard size
  core/limits.py  : Limits.setLimit (value in slots is computed by the caller: `int(hours / slotHours)`)

Input lists are in creation order; a parent always precedes its children.
-/
import Model.Sched
import Model.Calendar
namespace SP

structure RawLimit where
  weekly : Bool
  value : Int
  res : Option Nat := none
  deriving Repr, Inhabited

structure RawRes where
  parent : Option Nat := none
  eff : Option Rat := none
  zone : Option (List (Int × Int)) := none
  hours : Option Hours := none          -- own `workinghours`
  shift : Option Hours := none          -- hours of the shift referenced by `workinghours <id>`
  leaves : Option Intervals := none     -- own leaves / vacations / bookings (some = provided)
  limits : List RawLimit := []
  deriving Repr, Inhabited

structure RawTask where
  parent : Option Nat := none
  effort : Option Rat := none
  alloc : Option (List Nat × List Nat) := none   -- (primaries, alternatives); some = `allocate` given
  deps : List Dep := []
  prio : Option Int := none
  start : Option Int := none
  stop : Option Int := none
  milestone : Bool := false
  mode : Option Bool := none            -- `scheduling asap` = some true
  limits : List RawLimit := []
  deriving Repr, Inhabited

structure RawProj where
  G : Int
  start : Int
  stop : Int                            -- declared end
  projAlap : Bool := false
  gvac : Intervals := []
  gleaves : Intervals := []
  res : List RawRes := []
  tasks : List RawTask := []
  deriving Repr, Inhabited

/-- top-down inheritance of an optional attribute: own value if given, else the parent's effective value
    (`PropertyTreeNode.inheritAttributes`; parents precede children) -/
def inheritOpt {α : Type} (parents : List (Option Nat)) (own : List (Option α)) : Array (Option α) :=
  (parents.zip own).foldl (fun (acc : Array (Option α)) po =>
    acc.push (match po.2 with
      | some v => some v
      | none => po.1.bind (fun i => (acc[i]?).join))) #[]

/-- inheritance of the `depends` list: own list if non-empty, else the parent's effective list -/
def inheritDeps (parents : List (Option Nat)) (own : List (List Dep)) : Array (List Dep) :=
  (parents.zip own).foldl (fun (acc : Array (List Dep)) po =>
    acc.push (if po.2.isEmpty then (po.1.bind (fun i => acc[i]?)).getD [] else po.2)) #[]

/-- inheritance of a flag that is set once some ancestor sets it -/
def inheritFlag (parents : List (Option Nat)) (own : List Bool) : Array Bool :=
  (parents.zip own).foldl (fun (acc : Array Bool) po =>
    acc.push (po.2 || (po.1.bind (fun i => acc[i]?)).getD false)) #[]

structure EffTask where
  effort : Option Rat
  alloc : Option (List Nat × List Nat)
  deps : List Dep
  prio : Option Int
  start : Option Int
  milestone : Bool
  forward : Option Bool
  deriving Inhabited

def elabTasks (ts : List RawTask) : Array EffTask :=
  let par := ts.map (·.parent)
  let effort := inheritOpt par (ts.map (·.effort))
  let alloc := inheritOpt par (ts.map (·.alloc))
  let deps := inheritDeps par (ts.map (·.deps))
  let prio := inheritOpt par (ts.map (·.prio))
  let start := inheritOpt par (ts.map (·.start))
  let ms := inheritFlag par (ts.map (·.milestone))
  let fwd := inheritOpt par (ts.map (·.mode))
  (List.range ts.length).toArray.map (fun i =>
    { effort := (effort.getD i none), alloc := (alloc.getD i none), deps := deps.getD i [], prio := prio.getD i none,
      start := start.getD i none, milestone := ms.getD i false, forward := fwd.getD i none })

/-- dependencies of the task and of every enclosing container (`getAllDependencies`) -/
def allDepsOf (ts : Array RawTask) (eff : Array EffTask) : Nat → Nat → List Dep
  | 0, t => (eff.getD t default).deps
  | f + 1, t =>
    (eff.getD t default).deps ++ (match (ts.getD t {}).parent with
      | some p => allDepsOf ts eff f p
      | none => [])

def childrenOf (ts : List RawTask) (t : Nat) : List Nat :=
  (List.range ts.length).filter (fun c => (ts.getD c {}).parent == some t)

/-- horizon extension: `int((effort_s / 21600 + gap_s / 86400) * 1.5) + 7` days (exact arithmetic) -/
def horizonDays (ts : List RawTask) (eff : Array EffTask) : Int :=
  let leaves := (List.range ts.length).filter (fun t => (childrenOf ts t).isEmpty)
  let effortH : Rat := leaves.foldl (fun acc t => acc + ((eff.getD t default).effort.getD 0)) 0
  let gapS : Int := leaves.foldl (fun acc t =>
    acc + ((eff.getD t default).deps.foldl (fun a dp => if dp.hasOpts then a + dp.gap else a) 0)) 0
  (((effortH * 3600 / 21600 + (gapS : Rat) / 86400) * (3 / 2)).floor) + 7

structure Elab where
  env : Env
  cal : CalEnv
  rcal : Array ResCal

/-- tasks with their pinned dates made relative to the project start -/
def relTasks (p : RawProj) : List RawTask :=
  p.tasks.map (fun t => { t with start := t.start.map (· - p.start), stop := t.stop.map (· - p.start) })

/-- the calendar a resource declares itself: the hours of the shift it refers to, else its own working hours -/
def ownCal (sh : Option Hours × Option Hours) : Option Hours :=
  match sh.1 with
  | some h => some h
  | none => sh.2

/-- per-resource calendars: zone, hours and leaves, each inherited; the hours are those of the NEAREST declaration — the
    resource's own (a shift reference before inline hours), else those of the closest enclosing group that declares any
    (`ResourceScenario.onShift` after the repair of finding F55; before it an inherited shift beat a resource's own hours) -/
def resCalsCore (par : List (Option Nat)) (zones : List (Option (List (Int × Int)))) (hours shifts : List (Option Hours))
    (leaves : List (Option Intervals)) (n : Nat) : Array ResCal :=
  let zone := inheritOpt par zones
  let hrs := inheritOpt par ((shifts.zip hours).map ownCal)
  let lvs := inheritOpt par leaves
  (List.range n).toArray.map (fun i =>
    { zone := zone.getD i none,
      hours := hrs.getD i none,
      leaves := (lvs.getD i none).getD [] })

def resCals (rs : List RawRes) : Array ResCal :=
  resCalsCore (rs.map (·.parent)) (rs.map (·.zone)) (rs.map (·.hours)) (rs.map (·.shift)) (rs.map (·.leaves)) rs.length

/-- date-free part of the environment -/
def resDsCore (par : List (Option Nat)) (effs : List (Option Rat)) (limLens : List Nat) : Array ResD :=
  let eff := inheritOpt par effs
  let resLim := limLens.foldl (fun (acc : List (List Nat) × Nat) n =>
      (acc.1 ++ [(List.range n).map (· + acc.2)], acc.2 + n)) ([], 0)
  (par.zipIdx).toArray.map (fun (pr, i) =>
    { parent := pr, leaf := !(par.any (fun c => c == some i)),
      eff := (match eff.getD i none with | some v => if v == 0 then 1 else v | none => 1),
      limits := resLim.1.getD i [] })

def resDs (rs : List RawRes) : Array ResD :=
  resDsCore (rs.map (·.parent)) (rs.map (·.eff)) (rs.map (·.limits.length))

def taskDs (nResLimits : Nat) (ts : List RawTask) : Array TaskD :=
  let et := elabTasks ts
  let rawT := ts.toArray
  let nT := ts.length
  let taskLim := ts.foldl (fun (acc : List (List Nat) × Nat) t =>
      (acc.1 ++ [(List.range t.limits.length).map (· + acc.2)], acc.2 + t.limits.length)) ([], nResLimits)
  (ts.zipIdx).toArray.map (fun (t, i) =>
    let x := et.getD i default
    let ch := childrenOf ts i
    { parent := t.parent, leaf := ch.isEmpty, effort := x.effort.getD 0,
      hasAlloc := (match x.alloc with | some (a, b) => !(a.isEmpty && b.isEmpty) | none => false),
      alloc := (x.alloc.map (·.1)).getD [], alt := (x.alloc.map (·.2)).getD [],
      deps := x.deps, allDeps := allDepsOf rawT et nT i,
      prio := (match x.prio with | some v => if v == 0 then 500 else v | none => 500),
      start := x.start, startProvided := t.start.isSome, stop := t.stop,
      milestone := x.milestone, forward := x.forward.getD true, explicitMode := t.mode.isSome,
      limits := taskLim.1.getD i [], children := ch })

/-- relative project end after the horizon extension -/
def stopRelOf (p : RawProj) : Int :=
  let ts := relTasks p
  let et := elabTasks ts
  let nT := ts.length
  let days := if nT == 0 then 0 else
    (if ((List.range nT).filter (fun t => (childrenOf ts t).isEmpty)).isEmpty then 0 else horizonDays ts et)
  max (p.stop - p.start) (days * 86400)

/-- The scheduler environment works with times *relative to the project start* (`env.start = 0`);
    only the calendar functions look at absolute instants (`cal.start = p.start`).  Reported dates are
    `p.start +` the relative ones (`Elab.abs`). -/
def elaborate (p : RawProj) : Elab :=
  let stopRel := stopRelOf p
  let size := ceilDiv stopRel p.G + 1
  let cal : CalEnv := { start := p.start, G := p.G, size := size, gvac := p.gvac, gleaves := p.gleaves }
  let rcal := resCals p.res
  let limits : Array LimitD :=
    ((p.res.flatMap (·.limits)) ++ (p.tasks.flatMap (·.limits))).toArray.map
      (fun l => { weekly := l.weekly, value := l.value, res := l.res })
  let env : Env := {
    G := p.G, start := 0, stop := stopRel, size := size, projAlap := p.projAlap,
    onShift := fun r i => onShiftAt cal (rcal.getD r {}) i,
    projWork := projWorkAt cal, dayIdx := dayIdxAt cal, weekIdx := weekIdxAt cal,
    leaveMark := fun r n => leaveMarkedAt cal (rcal.getD r {}) n,
    res := resDs p.res, limits := limits,
    tasks := taskDs ((p.res.map (·.limits.length)).sum) (relTasks p) }
  { env := env, cal := cal, rcal := rcal }

/-- absolute instant of a relative one -/
def Elab.abs (p : RawProj) (d : Int) : Int := p.start + d

end SP
