/-
Model/Elab.lean — from the flattened project description to the scheduler environment.

Models
  core/property.py : PropertyTreeNode.inheritAttributes (provided / inherited values, top-down) for the
                     attributes the scheduler reads (efficiency, timezone, workinghours, shifts, leaves;
                     allocate, priority, start, effort, milestone, forward, depends)
  core/task_scenario.py : getAllDependencies
  core/project.py : _extendProjectEndIfNeeded (per scenario), Scoreboard size
  core/limits.py  : Limits.setLimit (value in slots is computed by the caller: `int(hours / slotHours)`)

Input lists are in creation order; a parent always precedes its children.
-/
import Model.Sched
import Model.Calendar
namespace SP

structure RawLimit where
  weekly : Bool
  value : Int
  res : Option Nat := none
  deriving Repr, Inhabited

structure RawRes where
  parent : Option Nat := none
  eff : Option Rat := none
  zone : Option (List (Int × Int)) := none
  hours : Option Hours := none          -- own `workinghours`
  shift : Option Hours := none          -- hours of the shift referenced by `workinghours <id>`
  leaves : Option Intervals := none     -- own leaves / vacations / bookings (some = provided)
  limits : List RawLimit := []
  deriving Repr, Inhabited

structure RawTask where
  parent : Option Nat := none
  effort : Option Rat := none
  alloc : Option (List Nat × List Nat) := none   -- (primaries, alternatives); some = `allocate` given
  deps : List Dep := []
  prio : Option Int := none
  start : Option Int := none
  stop : Option Int := none
  milestone : Bool := false
  mode : Option Bool := none            -- `scheduling asap` = some true
  limits : List RawLimit := []
  deriving Repr, Inhabited

structure RawProj where
  G : Int
  start : Int
  stop : Int                            -- declared end
  projAlap : Bool := false
  gvac : Intervals := []
  gleaves : Intervals := []
  res : List RawRes := []
  tasks : List RawTask := []
  deriving Repr, Inhabited

/-- effective (own or inherited) resource attributes, computed top-down -/
structure EffRes where
  eff : Option Rat
  zone : Option (List (Int × Int))
  hours : Option Hours
  shift : Option Hours
  leaves : Option Intervals
  deriving Inhabited

def elabRes (rs : List RawRes) : Array EffRes :=
  rs.foldl (fun (acc : Array EffRes) r =>
    let p : Option EffRes := r.parent.bind (fun i => acc[i]?)
    let inh {α} (own : Option α) (f : EffRes → Option α) : Option α :=
      match own with | some v => some v | none => p.bind f
    acc.push { eff := inh r.eff (·.eff), zone := inh r.zone (·.zone), hours := inh r.hours (·.hours),
               shift := inh r.shift (·.shift), leaves := inh r.leaves (·.leaves) }) #[]

structure EffTask where
  effort : Option Rat
  alloc : Option (List Nat × List Nat)
  deps : List Dep
  prio : Option Int
  start : Option Int
  milestone : Bool
  forward : Option Bool
  deriving Inhabited

def elabTasks (ts : List RawTask) : Array EffTask :=
  ts.foldl (fun (acc : Array EffTask) t =>
    let p : Option EffTask := t.parent.bind (fun i => acc[i]?)
    let inh {α} (own : Option α) (f : EffTask → Option α) : Option α :=
      match own with | some v => some v | none => p.bind f
    acc.push { effort := inh t.effort (·.effort), alloc := inh t.alloc (·.alloc),
               deps := if t.deps.isEmpty then (p.map (·.deps)).getD [] else t.deps,
               prio := inh t.prio (·.prio), start := inh t.start (·.start),
               milestone := t.milestone || (p.map (·.milestone)).getD false,
               forward := inh t.mode (·.forward) }) #[]

/-- dependencies of the task and of every enclosing container (`getAllDependencies`) -/
def allDepsOf (ts : Array RawTask) (eff : Array EffTask) : Nat → Nat → List Dep
  | 0, t => (eff.getD t default).deps
  | f + 1, t =>
    (eff.getD t default).deps ++ (match (ts.getD t {}).parent with
      | some p => allDepsOf ts eff f p
      | none => [])

def childrenOf (ts : List RawTask) (t : Nat) : List Nat :=
  (List.range ts.length).filter (fun c => (ts.getD c {}).parent == some t)

/-- horizon extension: `int((effort_s / 21600 + gap_s / 86400) * 1.5) + 7` days (exact arithmetic) -/
def horizonDays (ts : List RawTask) (eff : Array EffTask) : Int :=
  let leaves := (List.range ts.length).filter (fun t => (childrenOf ts t).isEmpty)
  let effortH : Rat := leaves.foldl (fun acc t => acc + ((eff.getD t default).effort.getD 0)) 0
  let gapS : Int := leaves.foldl (fun acc t =>
    acc + ((eff.getD t default).deps.foldl (fun a dp => if dp.hasOpts then a + dp.gap else a) 0)) 0
  (((effortH * 3600 / 21600 + (gapS : Rat) / 86400) * (3 / 2)).floor) + 7

structure Elab where
  env : Env
  cal : CalEnv
  rcal : Array ResCal

def elaborate (p : RawProj) : Elab :=
  let er := elabRes p.res
  let et := elabTasks p.tasks
  let rawT := p.tasks.toArray
  let nT := p.tasks.length
  let days := if nT == 0 then 0 else
    (if ((List.range nT).filter (fun t => (childrenOf p.tasks t).isEmpty)).isEmpty then 0 else horizonDays p.tasks et)
  let stop := max p.stop (p.start + days * 86400)
  let size := ceilDiv (stop - p.start) p.G + 1
  let cal : CalEnv := { start := p.start, G := p.G, size := size, gvac := p.gvac, gleaves := p.gleaves }
  let rcal : Array ResCal := er.map (fun x =>
    { zone := x.zone, hours := (match x.shift with | some h => some h | none => x.hours), leaves := x.leaves.getD [] })
  -- limit ids: resources first, then tasks, in declaration order
  let resLim := p.res.foldl (fun (acc : List (List Nat) × Nat) r =>
      (acc.1 ++ [(List.range r.limits.length).map (· + acc.2)], acc.2 + r.limits.length)) ([], 0)
  let taskLim := p.tasks.foldl (fun (acc : List (List Nat) × Nat) t =>
      (acc.1 ++ [(List.range t.limits.length).map (· + acc.2)], acc.2 + t.limits.length)) ([], resLim.2)
  let limits : Array LimitD :=
    ((p.res.flatMap (·.limits)) ++ (p.tasks.flatMap (·.limits))).toArray.map
      (fun l => { weekly := l.weekly, value := l.value, res := l.res })
  let resD : Array ResD := (p.res.zipIdx).toArray.map (fun (r, i) =>
    { parent := r.parent, leaf := !(p.res.any (fun c => c.parent == some i)),
      eff := (match (er.getD i default).eff with | some v => if v == 0 then 1 else v | none => 1),
      limits := resLim.1.getD i [] })
  let taskD : Array TaskD := (p.tasks.zipIdx).toArray.map (fun (t, i) =>
    let x := et.getD i default
    let ch := childrenOf p.tasks i
    { parent := t.parent, leaf := ch.isEmpty, effort := x.effort.getD 0,
      hasAlloc := (match x.alloc with | some (a, b) => !(a.isEmpty && b.isEmpty) | none => false),
      alloc := (x.alloc.map (·.1)).getD [], alt := (x.alloc.map (·.2)).getD [],
      deps := x.deps, allDeps := allDepsOf rawT et nT i,
      prio := (match x.prio with | some v => if v == 0 then 500 else v | none => 500),
      start := x.start, startProvided := t.start.isSome, stop := t.stop,
      milestone := x.milestone, forward := x.forward.getD true, explicitMode := t.mode.isSome,
      limits := taskLim.1.getD i [], children := ch })
  let env : Env := {
    G := p.G, start := p.start, stop := stop, size := size, projAlap := p.projAlap,
    onShift := fun r i => onShiftAt cal (rcal.getD r {}) i,
    projWork := projWorkAt cal, dayIdx := dayIdxAt cal, weekIdx := weekIdxAt cal,
    leaveMark := fun r n => leaveMarkedAt cal (rcal.getD r {}) n,
    res := resD, limits := limits, tasks := taskD }
  { env := env, cal := cal, rcal := rcal }

end SP
