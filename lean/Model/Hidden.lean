/-
Model/Hidden.lean — the process-global ("hidden") state of scriptplan and every read / write of it
on the API entry points, as a small state machine (C12).

Source inventory (every item the static scan `harness/implops_hidden.py:scan_tree` finds is listed in
`inventory`; the check compares the two lists on every run):

* `AttributeBase._mode` (core/property.py:697).  Written by `AttributeBase.setMode` only; callers:
  `Project.__init__` (⇒ 0, project.py:64), `Project.schedule` (⇒ 1 before `prepareScenario`, ⇒ 2 before
  `scheduleScenario`, once per active scenario that is still to be scheduled), `TaskScenario.__init__` of a
  parentless task (`m = mode(); setMode(1); …; setMode(m)`, task_scenario.py:70).  Read by
  `AttributeBase.set` / `ListAttributeBase.set` (mode 0 ⇒ `_provided := True`, mode 1 ⇒ `_inherited := True`,
  else no flag) and by `mode()`.  The flags are read by `PropertyTreeNode.inheritAttributes` (called by
  `ModelBuilder._inherit_all_attributes` only) and by `provided()/inherited()` (no caller).
* `DataCache._instance` (utils/data_cache.py): created on first `DataCache.instance()`
  (`ResourceScenario.__init__`); `cached()` never stores, has no caller; `flush()` has no caller ⇒ contents = {}.
* `MessageHandlerInstance._instance` (utils/message_handler.py): created by the first message;
  `_messages` / `_errors` only grow (`Project.warning("deadlock" | "unscheduled_tasks")`); the configuration
  (`_output_level`, `_log_level`, `_log_file`, `_hide_scenario`, `_app_name`, `_abort_on_warning`,
  `_baseline_sfi`, `_trap_setup`) is READ by `_add_message` and written by nobody outside the class
  (setters and `reset()` have no caller in the package).
* `TjTime._tz` (utils/time.py): read by `Project.__init__` (`attributes["timezone"]`, default of the shift
  attribute `timezone`); `setTimeZone` has no caller (the two calls in report.py are commented out).
* `Log.*` class variables (utils/logger.py): no importer uses `Log`; listed, constant.
* import-time constants (`_USE_CYTHON`, `HAS_ZONEINFO`, `CYTHON_AVAILABLE`, …) and constant tables.
* environment reads (`datetime.now` in `TjTime()`, `${now}`/`${today}`; `random.shuffle` in the dead class
  `Allocation`): environment inputs, excluded from generated texts.

`Project.schedule` is modelled AFTER the repair of F21 (notes/patches/F21.diff): a scenario is scheduled
once (`_scheduledScenarios`); the pinned behaviour (every call prepares and schedules every active
scenario again) is kept as `schedProgPinned` for the refutation lemma in Properties/C12.lean.

Not modelled: set iteration order, GC timing, threads.
-/
namespace SP.Hidden

/-- (item, kind) exactly as printed by the static scan of the implementation -/
def inventory : List (String × String) := [
  ("_cython/__init__.py:CYTHON_AVAILABLE", "import-const"),
  ("cli/main.py:run_scriptplan:logging.getLogger().setLevel", "stdlib-global-write"),
  ("cli/main.py:setup_logging:logging.basicConfig", "stdlib-global-write"),
  ("cli/main.py:setup_logging:logging.getLogger().setLevel", "stdlib-global-write"),
  ("cli/main.py:setup_logging:logging.getLogger(f'scriptplan.{module}').setLevel", "stdlib-global-write"),
  ("cli/plan.py:create_auto_report_file:secrets.token_hex()", "environment-read"),
  ("cli/plan.py:setup_logging:logging.basicConfig", "stdlib-global-write"),
  ("core/allocation.py:Allocation.candidates:random.shuffle()", "environment-read"),
  ("core/leave.py:Leave.Types", "constant-table"),
  ("core/project.py:_USE_CYTHON", "import-const"),
  ("core/property.py:AttributeBase._mode", "rebound-at-runtime"),
  ("core/working_hours.py:HAS_PYTZ", "import-const"),
  ("core/working_hours.py:HAS_ZONEINFO", "import-const"),
  ("core/working_hours.py:WorkingHours.DAY_MAP", "constant-table"),
  ("core/working_hours.py:_USE_CYTHON", "import-const"),
  ("parser/macro_processor.py:MacroProcessor._expand_macro_call:datetime.now()", "environment-read"),
  ("report/table_report.py:TableReport.PROPERTIES_BY_ID", "constant-table"),
  ("scheduler/scoreboard.py:_USE_CYTHON", "import-const"),
  ("utils/data_cache.py:DataCache._instance", "rebound-at-runtime"),
  ("utils/logger.py:Log._instance", "rebound-at-runtime"),
  ("utils/logger.py:Log._level", "rebound-at-runtime"),
  ("utils/logger.py:Log._lock", "constant-table"),
  ("utils/logger.py:Log._progress", "rebound-at-runtime"),
  ("utils/logger.py:Log._progressMeter", "rebound-at-runtime"),
  ("utils/logger.py:Log._segments", "rebound-at-runtime"),
  ("utils/logger.py:Log._silent", "rebound-at-runtime"),
  ("utils/logger.py:Log._stack", "mutable-container"),
  ("utils/message_handler.py:Message.VALID_TYPES", "constant-table"),
  ("utils/message_handler.py:MessageHandlerInstance.LOG_LEVELS", "constant-table"),
  ("utils/message_handler.py:MessageHandlerInstance._instance", "rebound-at-runtime"),
  ("utils/message_handler.py:MessageHandlerInstance._lock", "constant-table"),
  ("utils/message_handler.py:MessageHandlerInstance._log:datetime.now()", "environment-read"),
  ("utils/message_handler.py:MessageHandlerInstance._log:os.getpid()", "environment-read"),
  ("utils/time.py:TjTime.MON_MAX", "constant-table"),
  ("utils/time.py:TjTime.__init__:datetime.now()", "environment-read"),
  ("utils/time.py:TjTime._tz", "rebound-at-runtime")
]

/-- how the model treats each stateful item of the inventory (documentation, printed by the driver) -/
def roles : List (String × String) := [
  ("core/property.py:AttributeBase._mode", "HState.mode: written before read by every run"),
  ("utils/data_cache.py:DataCache._instance", "HState.cacheInst/cacheLen: create-once, contents never stored nor read"),
  ("utils/message_handler.py:MessageHandlerInstance._instance", "HState.mhInst/msgs/errors/cfg: log append-only and never read; cfg read, never written"),
  ("utils/time.py:TjTime._tz", "HState.tz: read by Project.__init__, never written"),
  ("utils/logger.py:Log.*", "no importer: constant"),
  ("environment-read", "environment input (wall clock, pid, PRNG of the dead class Allocation): excluded from generated texts"),
  ("stdlib-global-write", "CLI only (logging configuration): outside the API entry points of C12")
]

/-- the configuration of the message handler, values of `MessageHandlerInstance.reset()` -/
structure MhCfg where
  outputLevel : Nat := 4
  logLevel : Nat := 3
  logFile : Option String := none
  hideScenario : Bool := true
  appName : String := "unknown"
  abortOnWarning : Bool := false
  baselineSfi : Nat := 0
  trapSetup : Nat := 0
  deriving DecidableEq, Repr, Inhabited

/-- the process-global state -/
structure HState where
  mode : Nat := 0                 -- AttributeBase._mode
  cacheInst : Bool := false       -- DataCache._instance is not None
  cacheLen : Nat := 0             -- len(DataCache._instance._cache)
  mhInst : Bool := false          -- MessageHandlerInstance._instance is not None
  msgs : List String := []        -- ids of MessageHandlerInstance._messages
  errors : Nat := 0               -- MessageHandlerInstance._errors
  cfg : MhCfg := {}               -- configuration read by `_add_message`
  tz : String := "UTC"            -- TjTime._tz
  deriving DecidableEq, Repr, Inhabited

/-- `_provided` / `_inherited` of one attribute object -/
structure AFlag where
  provided : Bool := false
  inherited : Bool := false
  deriving DecidableEq, Repr, Inhabited

/-- flags of the attributes of the project object under construction (project state, not hidden state) -/
abbrev Flags := List (String × AFlag)

def Flags.get (f : Flags) (a : String) : AFlag := (f.lookup a).getD {}

/-- canonical update: writing the value that is already there changes nothing -/
def Flags.set (f : Flags) (a : String) (v : AFlag) : Flags :=
  if Flags.get f a = v then f else (a, v) :: f

/-- one access of hidden state, as it occurs in the source -/
inductive Act
  | setMode (v : Nat)        -- AttributeBase.setMode(v)
  | saveSetRestore           -- TaskScenario.__init__ of a root task: m = mode(); setMode(1); …; setMode(m)
  | attrSet (a : String)     -- AttributeBase.set / ListAttributeBase.set on attribute `a`: reads the mode
  | flagRead (a : String)    -- inheritAttributes reads provided/inherited of `a`
  | tzRead                   -- TjTime.timeZone()
  | cacheInstance            -- DataCache.instance()
  | warn (id : String)       -- MessageHandlerInstance()._add_message(WARNING, id, …)
  deriving DecidableEq, Repr

/-- values read from hidden state (or from flags derived from it) that the rest of a run is computed from -/
inductive Obs
  | flag (a : String) (f : AFlag)
  | tz (z : String)
  | savedMode (m : Nat)
  | warnCfg (c : MhCfg)
  deriving DecidableEq, Repr

/-- trace of accesses to the mode variable, for the read/write table -/
inductive Ev
  | modeW (v : Nat)
  | modeR (who : String)
  deriving DecidableEq, Repr

structure Ctx where
  h : HState
  f : Flags
  deriving DecidableEq, Repr

def flagAfterSet (mode : Nat) (fl : AFlag) : AFlag :=
  if mode = 0 then { fl with provided := true }
  else if mode = 1 then { fl with inherited := true }
  else fl

def execAct (c : Ctx) : Act → Ctx × List Obs × List Ev
  | .setMode v => ({ c with h := { c.h with mode := v } }, [], [.modeW v])
  | .saveSetRestore => (c, [.savedMode c.h.mode], [.modeR "mode()", .modeW 1, .modeW c.h.mode])
  | .attrSet a =>
    ({ c with f := c.f.set a (flagAfterSet c.h.mode (c.f.get a)) }, [], [.modeR a])
  | .flagRead a => (c, [.flag a (c.f.get a)], [])
  | .tzRead => (c, [.tz c.h.tz], [])
  | .cacheInstance => ({ c with h := { c.h with cacheInst := true } }, [], [])
  | .warn id => ({ c with h := { c.h with mhInst := true, msgs := c.h.msgs ++ [id] } }, [.warnCfg c.h.cfg], [])

def execProg (c : Ctx) : List Act → Ctx × List Obs × List Ev
  | [] => (c, [], [])
  | a :: as =>
    let r1 := execAct c a
    let r2 := execProg r1.1 as
    (r2.1, r1.2.1 ++ r2.2.1, r1.2.2 ++ r2.2.2)

/-! ### what the state machine needs to know about a project text -/

/-- accesses during `ModelBuilder.build` after `Project(...)`: no `setMode` here -/
inductive BAct
  | set (a : String)         -- an attribute written from the text (mode 0)
  | rootInit                 -- TaskScenario.__init__ of a parentless task
  | resInit                  -- ResourceScenario.__init__
  | inheritRead (a : String) -- inheritAttributes
  deriving DecidableEq, Repr

def BAct.act : BAct → Act
  | .set a => .attrSet a
  | .rootInit => .saveSetRestore
  | .resInit => .cacheInstance
  | .inheritRead a => .flagRead a

structure ScenAbs where
  prepSets : List String := ["forward", "end"]              -- prepareScenario (mode 1)
  schedSets : List String := ["start", "end", "scheduled"]  -- scheduleScenario / finishScenario (mode 2)
  warns : List String := []                                 -- "deadlock", "unscheduled_tasks"
  deriving DecidableEq, Repr

structure TextAbs where
  lexOk : Bool := true            -- macro expansion, Lark and the transformer succeed and a project header exists
  newSets : List String := ["id", "name", "seqno"]   -- Project.__init__: Scenario("plan")
  build : List BAct := []
  props : Nat := 0                -- accounts + shifts + resources + tasks: `bsi` forced by PropertySet.index()
  hasTasks : Bool := true
  scens : List ScenAbs := [{}]    -- active scenarios, in order
  reportSets : Nat := 0           -- `index` forced by PropertyList.index() while reports sort their lists
  deriving DecidableEq, Repr

/-- `Project.__init__` -/
def newProg (t : TextAbs) : List Act :=
  [.setMode 0, .tzRead, .tzRead] ++ t.newSets.map .attrSet

def buildProg (t : TextAbs) : List Act := t.build.map BAct.act

/-- head of `Project.schedule()` : `for p in […]: p.index()` -/
def topProg (t : TextAbs) : List Act := List.replicate t.props (.attrSet "bsi")

inductive Phase | prepare | sched | finish
  deriving DecidableEq, Repr

/-- one pass of the scenario loop, cut at `ph` when an exception interrupts it there -/
def scenProg (s : ScenAbs) : Option Phase → List Act
  | some .prepare => [.setMode 1] ++ s.prepSets.map .attrSet
  | some .sched => [.setMode 1] ++ s.prepSets.map .attrSet ++ [.setMode 2]
  | some .finish => [.setMode 1] ++ s.prepSets.map .attrSet ++ [.setMode 2] ++ s.schedSets.map .attrSet ++ s.warns.map .warn
  | none => [.setMode 1] ++ s.prepSets.map .attrSet ++ [.setMode 2] ++ s.schedSets.map .attrSet ++ s.warns.map .warn

/-- scenarios `k, k+1, …` of `ss` whose index is not yet in `_scheduledScenarios`;
    `fail = some (j, ph)`: the pass of scenario `j` is interrupted in phase `ph` -/
def loopProg : List ScenAbs → List Bool → Nat → Option (Nat × Phase) → List Act
  | [], _, _, _ => []
  | s :: ss, done, k, fail =>
    if done.getD k false then loopProg ss done (k + 1) fail
    else match fail with
      | some (j, ph) => if j = k then scenProg s (some ph) else scenProg s none ++ loopProg ss done (k + 1) fail
      | none => scenProg s none ++ loopProg ss done (k + 1) none

/-- `_scheduledScenarios` after the loop -/
def loopDone : List ScenAbs → List Bool → Nat → Option (Nat × Phase) → List Bool
  | [], _, _, _ => []
  | _ :: ss, done, k, fail =>
    if done.getD k false then true :: loopDone ss done (k + 1) fail
    else match fail with
      | some (j, _) => if j = k then false :: (List.range ss.length).map (fun i => done.getD (k + 1 + i) false)
                       else true :: loopDone ss done (k + 1) fail
      | none => true :: loopDone ss done (k + 1) none

/-- passes started per scenario -/
def loopRuns : List ScenAbs → List Bool → List Nat → Nat → Option (Nat × Phase) → List Nat
  | [], _, _, _, _ => []
  | _ :: ss, done, runs, k, fail =>
    if done.getD k false then runs.getD k 0 :: loopRuns ss done runs (k + 1) fail
    else match fail with
      | some (j, _) => if j = k then (runs.getD k 0 + 1) :: (List.range ss.length).map (fun i => runs.getD (k + 1 + i) 0)
                       else (runs.getD k 0 + 1) :: loopRuns ss done runs (k + 1) fail
      | none => (runs.getD k 0 + 1) :: loopRuns ss done runs (k + 1) none

/-- a project object kept by the caller -/
structure ProjSt where
  t : TextAbs
  f : Flags := []
  done : List Bool := []     -- per active scenario: member of `_scheduledScenarios`
  runs : List Nat := []      -- per active scenario: prepare/schedule passes started (what the memo protects)
  deriving DecidableEq, Repr

def anyDone (d : List Bool) : Bool := d.any id
def allDone (n : Nat) (d : List Bool) : Bool := (List.range n).all (fun i => d.getD i false)

/-- `Project.schedule()` after the repair: nothing left to schedule ⇒ return at once -/
def schedProg (p : ProjSt) (fail : Option (Nat × Phase)) : List Act :=
  if anyDone p.done && allDone p.t.scens.length p.done then []
  else topProg p.t ++ (if p.t.hasTasks then loopProg p.t.scens p.done 0 fail else [])

def schedDone (p : ProjSt) (fail : Option (Nat × Phase)) : List Bool :=
  if anyDone p.done && allDone p.t.scens.length p.done then p.done
  else if p.t.hasTasks then loopDone p.t.scens p.done 0 fail else p.done

def schedRuns (p : ProjSt) (fail : Option (Nat × Phase)) : List Nat :=
  if anyDone p.done && allDone p.t.scens.length p.done then p.runs
  else if p.t.hasTasks then loopRuns p.t.scens p.done p.runs 0 fail else p.runs

/-- the pinned `Project.schedule()` (before F21's repair): every call runs every active scenario again -/
def schedProgPinned (p : ProjSt) : List Act :=
  topProg p.t ++ (if p.t.hasTasks then loopProg p.t.scens [] 0 none else [])

def schedRunsPinned (p : ProjSt) : List Nat :=
  if p.t.hasTasks then loopRuns p.t.scens [] p.runs 0 none else p.runs

def reportProg (t : TextAbs) : List Act := List.replicate t.reportSets (.attrSet "index")

/-- `ProjectFileParser.parse(text)` incl. `project.schedule()` -/
def runProg (t : TextAbs) : List Act :=
  if t.lexOk then
    newProg t ++ buildProg t ++ topProg t ++ (if t.hasTasks then loopProg t.scens [] 0 none else [])
  else []

/-- `parse(text, schedule=False)` -/
def parseProg (t : TextAbs) : List Act :=
  if t.lexOk then newProg t ++ buildProg t else []

/-- where an exception interrupts `parse(text)` -/
inductive Point
  | lex                          -- before `Project(...)`: macro, Lark, transformer, "No project definition found"
  | afterNew                     -- right after `Project.__init__`
  | build (k : Nat)              -- inside ModelBuilder.build, after k of its accesses
  | schedTop                     -- inside schedule() before the scenario loop
  | scen (k : Nat) (ph : Phase)  -- inside the pass of the k-th active scenario
  deriving DecidableEq, Repr

def failProg (t : TextAbs) : Point → List Act
  | .lex => []
  | .afterNew => newProg t
  | .build k => newProg t ++ (buildProg t).take k
  | .schedTop => newProg t ++ buildProg t ++ topProg t
  | .scen k ph => newProg t ++ buildProg t ++ topProg t ++ (if t.hasTasks then loopProg t.scens [] 0 (some (k, ph)) else [])

/-! ### histories -/

inductive Op
  | run (t : TextAbs) (keep : Option Nat)       -- parse(text) incl. schedule(); the caller may keep the project
  | parseOnly (t : TextAbs) (keep : Option Nat) -- parse(text, schedule=False) or a project built through the API
  | failRun (t : TextAbs) (at_ : Point)         -- parse(text) interrupted by an exception
  | schedule (slot : Nat) (fail : Option (Nat × Phase))   -- Project.schedule() on a kept project
  | report (slot : Nat)                         -- generate every report of a kept project
  deriving DecidableEq, Repr

structure World where
  h : HState := {}
  slots : List (Nat × ProjSt) := []
  deriving DecidableEq, Repr

def World.init : World := {}

def World.put (w : World) (keep : Option Nat) (p : ProjSt) (h : HState) : World :=
  match keep with
  | some s => { h := h, slots := (s, p) :: w.slots.filter (fun x => x.1 ≠ s) }
  | none => { w with h := h }

/-- `Project.schedule()` applied to a kept project -/
def schedApply (h : HState) (p : ProjSt) (fail : Option (Nat × Phase)) : (HState × ProjSt) × List Obs × List Ev :=
  let r := execProg ⟨h, p.f⟩ (schedProg p fail)
  ((r.1.h, { p with f := r.1.f, done := schedDone p fail, runs := schedRuns p fail }), r.2)

def step (w : World) : Op → World × List Obs × List Ev
  | .run t keep =>
    if t.lexOk then
      let r := execProg ⟨w.h, []⟩ (runProg t)
      let p : ProjSt := { t := t, f := r.1.f,
                          done := if t.hasTasks then loopDone t.scens [] 0 none else [],
                          runs := if t.hasTasks then loopRuns t.scens [] [] 0 none else [] }
      (w.put keep p r.1.h, r.2)
    else (w, [], [])
  | .parseOnly t keep =>
    if t.lexOk then
      let r := execProg ⟨w.h, []⟩ (parseProg t)
      (w.put keep { t := t, f := r.1.f } r.1.h, r.2)
    else (w, [], [])
  | .failRun t pt =>
    if t.lexOk then
      let r := execProg ⟨w.h, []⟩ (failProg t pt)
      ({ w with h := r.1.h }, r.2)
    else (w, [], [])
  | .schedule s fail =>
    match w.slots.lookup s with
    | none => (w, [], [])
    | some p =>
      let r := schedApply w.h p fail
      (w.put (some s) r.1.2 r.1.1, r.2)
  | .report s =>
    match w.slots.lookup s with
    | none => (w, [], [])
    | some p =>
      let r := execProg ⟨w.h, p.f⟩ (reportProg p.t)
      (w.put (some s) { p with f := r.1.f } r.1.h, r.2)

def runHist (w : World) : List Op → World
  | [] => w
  | o :: os => runHist (step w o).1 os

/-- everything a run of `t` reads from hidden state (or from flags computed from it), in order:
    the run's schedule and reports are a function of the text and of this list -/
def probeProg (t : TextAbs) : List Act :=
  if t.lexOk then .setMode 0 :: ((newProg t).drop 1 ++ buildProg t ++ topProg t ++
      (if t.hasTasks then loopProg t.scens [] 0 none else []) ++ reportProg t)
  else []

def obsRun (w : World) (t : TextAbs) : List Obs :=
  (execProg ⟨w.h, []⟩ (probeProg t)).2.1

/-- output of the last op of a history `h ++ [run t]`, started in a fresh process -/
def out (h : List Op) (t : TextAbs) : List Obs := obsRun (runHist World.init h) t

/-! ### read / write table of an op (driver) -/

def modeWrites (evs : List Ev) : List Nat :=
  evs.filterMap (fun e => match e with | .modeW v => some v | _ => none)

/-- who read the mode before the first write of the op -/
def readsBeforeWrite : List Ev → List String
  | [] => []
  | .modeW _ :: _ => []
  | .modeR a :: es => a :: readsBeforeWrite es

end SP.Hidden
