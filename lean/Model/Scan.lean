/-
Model/Scan.lean — `Scoreboard.collectIntervals` (scheduler/scoreboard.py) and
`collect_intervals_fast` (_cython/scoreboard_cy.pyx), at index level.

Inputs: the table as the list of predicate values `pat` (length = size), the query window as the
clamped indices `sIdx eIdx` (both produced by `dateToIdx(·, force=True)`), `m` = minDurationSlots ≥ 1.
Output: list of (startIdx, endIdx) pairs; the code wraps them with `idxToDate`.

The loop is modelled statement by statement (after the `fix:` of the index-0 sentinel: a run starts
when `duration == 0`, not when `start == 0`).
-/
namespace SP

structure ScanSt where
  dur : Nat
  start : Int
  acc : List (Int × Int)
  deriving Repr, DecidableEq

def patAt (pat : List Bool) (i : Int) : Bool :=
  if i < 0 then false else pat.getD i.toNat false

/-- one iteration of the `while idx <= endIdx` loop body -/
def scanStep (pat : List Bool) (sIdx eIdx endIdx : Int) (m : Nat) (st : ScanSt) (idx : Int) : ScanSt :=
  if patAt pat idx && decide (idx < endIdx) then
    { st with start := if st.dur = 0 then idx else st.start, dur := st.dur + 1 }
  else if st.dur > 0 then
    { dur := 0, start := 0,
      acc := if st.dur ≥ m then st.acc ++ [(max st.start sIdx, min idx eIdx)] else st.acc }
  else st

/-- scan range: the window widened by `m` on both sides, clipped to the table -/
def scanLo (sIdx : Int) (m : Nat) : Int := max 0 (sIdx - m)
def scanHi (eIdx size : Int) (m : Nat) : Int := min (size - 1) (eIdx + m)

/-- pure-Python loop -/
def pyScan (pat : List Bool) (sIdx eIdx : Int) (m : Nat) : List (Int × Int) :=
  let size : Int := pat.length
  let lo := scanLo sIdx m
  let hi := scanHi eIdx size m
  let idxs := (List.range (hi - lo + 1).toNat).map (fun (k : Nat) => lo + (k : Int))
  (idxs.foldl (scanStep pat sIdx eIdx hi m) { dur := 0, start := 0, acc := [] }).acc

/-- compiled loop: `pred_result = predicate(val) if idx < end_idx else False`; the rest is the same
    statement sequence.  Modelled separately so that C13 is a theorem and not a definition. -/
def cyScanStep (pat : List Bool) (sIdx eIdx endIdx : Int) (m : Nat) (st : ScanSt) (idx : Int) : ScanSt :=
  let pred := if idx < endIdx then patAt pat idx else false
  if pred then
    { st with start := if st.dur = 0 then idx else st.start, dur := st.dur + 1 }
  else if st.dur > 0 then
    { dur := 0, start := 0,
      acc := if st.dur ≥ m then st.acc ++ [(max st.start sIdx, min idx eIdx)] else st.acc }
  else st

def cyScan (pat : List Bool) (sIdx eIdx : Int) (m : Nat) : List (Int × Int) :=
  let size : Int := pat.length
  let lo := scanLo sIdx m
  let hi := scanHi eIdx size m
  let idxs := (List.range (hi - lo + 1).toNat).map (fun (k : Nat) => lo + (k : Int))
  (idxs.foldl (cyScanStep pat sIdx eIdx hi m) { dur := 0, start := 0, acc := [] }).acc

end SP
