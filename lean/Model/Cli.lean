/-
Model/Cli.lean — `plan report` (scriptplan/cli/plan.py:report, create_auto_report_file) as an effect
program over an abstract file system, with `run_scriptplan` (scriptplan/cli/main.py) as one opaque
step that has a *declared write list* (`engineOps`).

The program is modelled statement by statement as a small-step machine: one step per file-system
effect, an exception edge after every effect (`Fault` says which single effect fails in this run),
and the three `except` handlers with their cleanup (`h1`/`h2`/`h3`).

`Variant` selects, per recorded defect, the pinned or the repaired program text:
  f17  select `D/<auto id>.<ext>`           (pinned: `glob("*.<ext>")[0]`, directory order = oracle input)
  f18  engine generates only `--report <auto id>`   (pinned: every report of the project)
  f26  `OSError` while hashing the input ⇒ own `FileNotFoundError` ⇒ exit 1   (pinned: `Exception` ⇒ 2)
  f43  `create_auto_report_file` reads the input before `mkstemp` and unlinks its temp file when the
       write fails   (pinned: mkstemp first, nothing unlinked: the caller never learns the name)
`Variant.repaired` is the program after notes/patches/F17,F18,F26,F43.diff.

Abstractions (DESIGN §3.3, notes/design-cli.md): bytes `B` and report bodies `R` are opaque; SHA-256,
"is blank", "is empty", the engine's verdict on a text and the rendered report bodies are functions in
`Env`.  The body of the auto report is a function of the *original* bytes and the format only (the
header comment, the temp-file name and the random id do not influence the schedule) — this is an
assumption of the model, checked by the correspondence stream (file vs stdin, solo vs concurrent).
Names returned by `mkstemp`/`mkdtemp` to process `pid` are `Path.tmp pid k`: distinct processes and
distinct purposes get distinct names (the OS contract: O_EXCL creation of a name that does not exist).
Not modelled: click's argument parsing, stderr text, encodings, signals, the verbose and quiet flags.
-/
namespace SP.Cli

abbrev Name := List Char

inductive Channel | file | stdin
  deriving DecidableEq, Repr

inductive Fmt | json | csv
  deriving DecidableEq, Repr

def Fmt.ext : Fmt → Name
  | .json => ['j', 's', 'o', 'n']
  | .csv => ['c', 's', 'v']

/-! ### report output names (`Report._get_output_path`: outputDir joined with `"{name or id}.{ext}"`) -/

/-- components of a name split at the slash character -/
def comps : Name → List Name
  | [] => [[]]
  | c :: cs =>
    match comps cs with
    | [] => [[c]]            -- unreachable: `comps` is never empty
    | h :: t => if c = '/' then [] :: h :: t else (c :: h) :: t

inductive NameKind
  | plain      -- a file directly in the output directory
  | subdir     -- below the output directory (`makedirs(parent, exist_ok=True)`)
  | escaping   -- absolute, or with a `..` component: may land outside the output directory
  deriving DecidableEq, Repr

def kindOf (n : Name) : NameKind :=
  if n.head? = some '/' then .escaping
  else if (comps n).any (· == ['.', '.']) then .escaping
  else if '/' ∈ n then .subdir
  else .plain

/-- a report definition of the project file, as far as `plan` can observe it -/
structure RSpec where
  id : Name
  name : Name          -- `name or id`
  fmts : List Fmt
  deriving DecidableEq, Repr

/-! ### file system -/

inductive TmpKind
  | stdinCopy    -- `plan_stdin_*.tjp`
  | autoCopy     -- `plan_auto_*.tjp`
  | outDir       -- `plan_output_*/`
  deriving DecidableEq, Repr

inductive Path
  | user (n : Nat)                       -- anything that exists independently of `plan`: inputs, cwd entries, `-o` targets
  | tmp (pid : Nat) (k : TmpKind)        -- the name the OS handed to process `pid` for purpose `k`
  | inDir (pid : Nat) (file : Name)      -- an entry below `tmp pid .outDir`
  | outside (file : Name)                -- where an escaping report name lands (shared by all processes!)
  deriving DecidableEq, Repr

/-- what `plan` finally emits: JSON carries a `report_id`, CSV does not -/
structure Emitted (R : Type) where
  fmt : Fmt
  reportId : Option String
  body : R
  deriving DecidableEq, Repr

inductive Content (B R : Type)
  | raw (b : B)                                   -- a user's file
  | blank                                         -- freshly created by `mkstemp`, nothing written yet
  | combined (b : B) (rid : Name) (fmt : Fmt)     -- header + original text + auto report definition
  | report (idField : Name) (body : R)            -- a report file written by the engine
  | final (e : Emitted R)                         -- a `-o` output file
  deriving DecidableEq, Repr

inductive Node (B R : Type)
  | dir
  | file (c : Content B R)
  deriving DecidableEq, Repr

abbrev FS (B R : Type) := Path → Option (Node B R)

inductive Op (B R : Type)
  | set (p : Path) (n : Node B R)    -- create or overwrite
  | del (p : Path)                   -- unlink
  | rmtree (pid : Nat)               -- `shutil.rmtree(tmp pid .outDir)`
  deriving DecidableEq, Repr

def inTree (pid : Nat) : Path → Bool
  | .tmp q .outDir => q == pid
  | .inDir q _ => q == pid
  | _ => false

def Op.apply {B R : Type} (fs : FS B R) : Op B R → FS B R
  | .set p n => fun q => if q = p then some n else fs q
  | .del p => fun q => if q = p then none else fs q
  | .rmtree pid => fun q => if inTree pid q then none else fs q

def applyOps {B R : Type} (fs : FS B R) (ops : List (Op B R)) : FS B R := ops.foldl Op.apply fs

/-- ghost: paths created and not (yet) removed, computed from the trace of write operations -/
def leftoverStep {B R : Type} (acc : List Path) : Op B R → List Path
  | .set p _ => if p ∈ acc then acc else acc ++ [p]
  | .del p => acc.filter (· ≠ p)
  | .rmtree pid => acc.filter (fun q => !inTree pid q)

def leftover {B R : Type} (trace : List (Op B R)) : List Path := trace.foldl leftoverStep []

/-! ### environment, configuration -/

structure Env (B R : Type) where
  H : B → String                       -- hashlib.sha256(bytes).hexdigest()
  blank : B → Bool                     -- `not text.strip()`
  empty : B → Bool                     -- `st_size == 0`
  stdinCopy : B → B                    -- bytes of the temp file written from the text read on stdin
  engineOk : B → Bool                  -- parse + schedule ×2 + generate succeed (`app.run() == 0`)
  reports : B → List RSpec             -- the reports the text itself defines
  autoBody : B → Fmt → R               -- rendered `columns id, start, end` report of all tasks
  userBody : B → RSpec → Fmt → R       -- rendered user report

inductive Fault
  | none
  | stdinMkstemp      -- `mkstemp(prefix="plan_stdin_")` raises
  | stdinWrite        -- writing the stdin text to it raises
  | readInput         -- `open(tjp_path, "rb")` / `.read()` raises OSError (unreadable input)
  | mkdtemp           -- `mkdtemp(prefix="plan_output_")` raises
  | copyRead          -- `open(tjp_path).read()` in `create_auto_report_file` raises (e.g. not UTF-8)
  | mkstempAuto       -- `mkstemp(prefix="plan_auto_")` raises
  | copyWrite         -- writing the combined text raises
  | engineRaise       -- the engine raises inside `run_scriptplan` (caught there ⇒ `(False, msg)`)
  | engineNoOutput    -- the engine reports success but wrote nothing
  | readReport        -- `open(primary_output).read()` raises
  | echo              -- writing to stdout raises
  deriving DecidableEq, Repr

structure Variant where
  f17 : Bool
  f18 : Bool
  f26 : Bool
  f43 : Bool
  deriving DecidableEq, Repr

def Variant.repaired : Variant := ⟨true, true, true, true⟩
def Variant.pinned : Variant := ⟨false, false, false, false⟩

structure Config (B : Type) where
  pid : Nat
  channel : Channel
  inPath : Path                   -- the <tjp-file> argument (file channel)
  stdin : B                       -- what stdin delivers (stdin channel)
  fmt : Fmt
  out : Option (Path × Bool)      -- `-o path`, `--force`
  tok : List (Fin 16)             -- `secrets.token_hex(8)` as hex digits
  fault : Fault
  dirOrder : List Name            -- order in which the OS lists a directory (used by the pinned `glob` only)

def hexDigit (d : Fin 16) : Char :=
  ['0', '1', '2', '3', '4', '5', '6', '7', '8', '9', 'a', 'b', 'c', 'd', 'e', 'f'].getD d.val '0'

/-- `report_id = f"plan_auto_{token_hex}"` -/
def ridPrefix : Name := ['p', 'l', 'a', 'n', '_', 'a', 'u', 't', 'o', '_']
def Config.rid {B : Type} (c : Config B) : Name := ridPrefix ++ c.tok.map hexDigit

def fileName (base : Name) (f : Fmt) : Name := base ++ '.' :: f.ext

/-- `_get_output_path` for process `pid`'s output directory -/
def outPath (pid : Nat) (name : Name) (f : Fmt) : Path :=
  match kindOf name with
  | .escaping => .outside (fileName name f)
  | _ => .inDir pid (fileName name f)

def autoSpec (rid : Name) (f : Fmt) : RSpec := { id := rid, name := rid, fmts := [f] }

/-! ### the engine step: `run_scriptplan(temp_file, temp_output_dir[, report_ids=[auto id]])` -/

/-- `ScriptPlan.generate_reports`: the reports in declaration order (the auto report is appended to
    the text, so it is last), filtered by `--report` when given; one file per listed format -/
def engineOps {B R : Type} (env : Env B R) (v : Variant) (pid : Nat) (b : B) (rid : Name) (f : Fmt) :
    List (Op B R) :=
  let user := (env.reports b).flatMap (fun r =>
    if v.f18 && r.id != rid then [] else
      r.fmts.map (fun g => Op.set (outPath pid r.name g) (.file (.report r.id (env.userBody b r g)))))
  user ++ [Op.set (outPath pid rid f) (.file (.report rid (env.autoBody b f)))]

/-- the declared write footprint of the engine: everything it writes is below the output directory -/
def Footprint {B R : Type} (env : Env B R) (v : Variant) (pid : Nat) (b : B) (rid : Name) (f : Fmt) : Prop :=
  ∀ op ∈ engineOps env v pid b rid f, ∃ file n, op = Op.set (.inDir pid file) n

/-! ### the process -/

inductive Exc
  | fnf        -- the module's own `FileNotFoundError(PlanError)`            ⇒ exit 1
  | gen        -- `ReportGenerationError`                                    ⇒ exit 2
  | other      -- anything else caught by `except Exception`                 ⇒ exit 2
  | gap        -- outside the model (an input path holding something that is not a user's file)
  deriving DecidableEq, Repr

def Exc.code : Exc → Nat
  | .fnf => 1
  | .gen => 2
  | .other => 2
  | .gap => 99

inductive Pc
  | start | stdinMk | stdinWrite | validate | hash | mkOutDir
  | autoA | autoB | autoC | engine | select | readRep | emit
  | rmOut | rmAuto | rmIn
  | h1 (e : Exc) | h2 (e : Exc) | h3 (e : Exc)
  | exited
  deriving DecidableEq, Repr

structure Local (B R : Type) where
  pc : Pc := .start
  finSet : Bool := false          -- `stdin_temp_file` is not None
  fautoSet : Bool := false        -- `temp_file` is not None
  dirSet : Bool := false          -- `temp_output_dir` is not None
  orig : Option B := none         -- `original_content` inside create_auto_report_file
  hash : Option String := none    -- `file_hash`
  sel : Option Name := none       -- `primary_output` (entry of the output directory)
  content : Option (Emitted R) := none   -- `report_content` after the report_id replacement
  stdout : List (Emitted R) := []
  exit : Option Nat := none
  trace : List (Op B R) := []     -- ghost: every write operation performed so far

/-- what a step may look at: only the process's own names, its input and its `-o` target -/
structure View (B R : Type) where
  inp : Option (Node B R)
  tmp : TmpKind → Option (Node B R)
  dirFile : Name → Option (Node B R)
  outp : Option (Node B R)

def viewOf {B R : Type} (c : Config B) (fs : FS B R) : View B R :=
  { inp := fs c.inPath
    tmp := fun k => fs (.tmp c.pid k)
    dirFile := fun f => fs (.inDir c.pid f)
    outp := match c.out with | some o => fs o.1 | none => none }

def isFile {B R : Type} : Option (Node B R) → Bool
  | some (.file _) => true
  | _ => false

/-- `tjp_path`: the validated argument, or the stdin temp file -/
def tjpNode {B R : Type} (c : Config B) (w : View B R) : Option (Node B R) :=
  match c.channel with
  | .file => w.inp
  | .stdin => w.tmp .stdinCopy

variable {B R : Type}

def raise (l : Local B R) (e : Exc) : Local B R × List (Op B R) := ({ l with pc := .h1 e }, [])

def goto (l : Local B R) (pc : Pc) : Local B R × List (Op B R) := ({ l with pc := pc }, [])

/-- `Path(tmp pid k)` -/
def tp (c : Config B) (k : TmpKind) : Path := .tmp c.pid k

/-- One step of `plan report`: new local state and the write operations to perform.
    Comments quote plan.py. -/
def stepCore (env : Env B R) (v : Variant) (c : Config B) (l : Local B R) (w : View B R) :
    Local B R × List (Op B R) :=
  match l.pc with
  | .start =>
    match c.channel with
    | .stdin =>
      -- stdin_content = sys.stdin.read(); if not stdin_content.strip(): raise FileNotFoundError(...)
      if env.blank c.stdin then raise l .fnf else goto l .stdinMk
    | .file => goto l .validate
  | .stdinMk =>
    -- temp_fd, temp_path = tempfile.mkstemp(suffix=".tjp", prefix="plan_stdin_"); stdin_temp_file = Path(temp_path)
    if c.fault = .stdinMkstemp then raise l .other
    else ({ l with pc := .stdinWrite, finSet := true }, [.set (tp c .stdinCopy) (.file .blank)])
  | .stdinWrite =>
    -- with os.fdopen(temp_fd, "w") as f: f.write(stdin_content); tjp_path = stdin_temp_file
    if c.fault = .stdinWrite then raise l .other
    else ({ l with pc := .hash }, [.set (tp c .stdinCopy) (.file (.raw (env.stdinCopy c.stdin)))])
  | .validate =>
    -- validate_tjp_file: exists / is_file / st_size
    match w.inp with
    | none => raise l .fnf
    | some .dir => raise l .fnf
    | some (.file (.raw b)) => if env.empty b then raise l .fnf else goto l .hash
    | some (.file _) => raise l .gap
  | .hash =>
    -- with open(tjp_path, "rb") as f: file_hash = hashlib.sha256(f.read()).hexdigest()
    -- repaired: wrapped in try/except OSError -> raise FileNotFoundError
    let unreadable := if v.f26 then Exc.fnf else Exc.other
    if c.fault = .readInput then raise l unreadable else
    match tjpNode c w with
    | some (.file (.raw b)) => ({ l with pc := .mkOutDir, hash := some (env.H b) }, [])
    | some (.file _) => raise l .gap
    | _ => raise l unreadable
  | .mkOutDir =>
    -- temp_output_dir = Path(tempfile.mkdtemp(prefix="plan_output_"))
    if c.fault = .mkdtemp then raise l .other
    else ({ l with pc := .autoA, dirSet := true }, [.set (tp c .outDir) .dir])
  -- create_auto_report_file(tjp_path, output_format):
  --   repaired: A = read original, B = mkstemp, C = write (unlink on failure)
  --   pinned:   A = mkstemp, B = read original, C = write
  | .autoA =>
    if v.f43 then
      if c.fault = .copyRead then raise l .other else
      match tjpNode c w with
      | some (.file (.raw b)) => ({ l with pc := .autoB, orig := some b }, [])
      | some (.file _) => raise l .gap
      | _ => raise l .other
    else
      if c.fault = .mkstempAuto then raise l .other
      else ({ l with pc := .autoB }, [.set (tp c .autoCopy) (.file .blank)])
  | .autoB =>
    if v.f43 then
      if c.fault = .mkstempAuto then raise l .other
      else ({ l with pc := .autoC }, [.set (tp c .autoCopy) (.file .blank)])
    else
      if c.fault = .copyRead then raise l .other else
      match tjpNode c w with
      | some (.file (.raw b)) => ({ l with pc := .autoC, orig := some b }, [])
      | some (.file _) => raise l .gap
      | _ => raise l .other
  | .autoC =>
    match l.orig with
    | none => ({ l with pc := .h1 .gap }, if v.f43 then [.del (tp c .autoCopy)] else [])
    | some b =>
      if c.fault = .copyWrite then
        -- repaired: except BaseException: temp_file.unlink(missing_ok=True); raise
        ({ l with pc := .h1 .other }, if v.f43 then [.del (tp c .autoCopy)] else [])
      else
        -- return temp_file, report_id   (only now does `report` learn the name)
        ({ l with pc := .engine, fautoSet := true },
         [.set (tp c .autoCopy) (.file (.combined b c.rid c.fmt))])
  | .engine =>
    -- success, error_msg = run_scriptplan(str(temp_file), str(temp_output_dir)[, report_ids=[auto_report_id]])
    -- if not success: raise ReportGenerationError(...)
    if c.fault = .engineRaise then raise l .gen
    else if c.fault = .engineNoOutput then goto l .select
    else
      match w.tmp .autoCopy with
      | some (.file (.combined b rid f)) =>
        -- the file is the one this process wrote: its auto report is (c.rid, c.fmt)
        if rid ≠ c.rid ∨ f ≠ c.fmt then raise l .gap
        else if env.engineOk b then ({ l with pc := .select }, engineOps env v c.pid b c.rid c.fmt)
        else raise l .gen
      | _ => raise l .gen
  | .select =>
    -- repaired: output_files = list(temp_output_dir.glob(f"{auto_report_id}.{output_format}"))
    -- pinned:   output_files = list(temp_output_dir.glob("*.json" | "*.csv"))
    -- if not output_files: raise ReportGenerationError(...); primary_output = output_files[0]
    let files : List Name :=
      if v.f17 then (if isFile (w.dirFile (fileName c.rid c.fmt)) then [fileName c.rid c.fmt] else [])
      else c.dirOrder.filter (fun n => isFile (w.dirFile n) && ('.' :: c.fmt.ext).isSuffixOf n && !('/' ∈ n))
    match files with
    | [] => raise l .gen
    | n :: _ => ({ l with pc := .readRep, sel := some n }, [])
  | .readRep =>
    -- with open(primary_output) as f: report_content = f.read()
    -- JSON: report_data["report_id"] = file_hash; report_content = json.dumps(report_data, indent=2)
    if c.fault = .readReport then raise l .other else
    match l.sel with
    | none => raise l .gap
    | some n =>
      match w.dirFile n with
      | some (.file (.report _ body)) =>
        let rid := match c.fmt with | .json => l.hash | .csv => none
        ({ l with pc := .emit, content := some ⟨c.fmt, rid, body⟩ }, [])
      | _ => raise l .other
  | .emit =>
    match l.content with
    | none => raise l .gap
    | some e =>
      match c.out with
      | none =>
        -- click.echo(report_content)
        if c.fault = .echo then raise l .other
        else ({ l with pc := .rmOut, stdout := l.stdout ++ [e] }, [])
      | some (p, force) =>
        -- if output_path.exists() and not force: raise ReportGenerationError(...)   (exit 2; the help says 3)
        if w.outp.isSome && !force then raise l .gen
        else ({ l with pc := .rmOut }, [.set p (.file (.final e))])
  -- success path: rmtree(temp_output_dir); temp_file.unlink(); stdin_temp_file.unlink(); sys.exit(0)
  | .rmOut => ({ l with pc := .rmAuto }, if l.dirSet then [.rmtree c.pid] else [])
  | .rmAuto => ({ l with pc := .rmIn }, if l.fautoSet then [.del (tp c .autoCopy)] else [])
  | .rmIn => ({ l with pc := .exited, exit := some 0 }, if l.finSet then [.del (tp c .stdinCopy)] else [])
  -- every `except` clause: unlink temp_file, unlink stdin_temp_file, rmtree temp_output_dir; sys.exit(code)
  | .h1 e => ({ l with pc := .h2 e }, if l.fautoSet then [.del (tp c .autoCopy)] else [])
  | .h2 e => ({ l with pc := .h3 e }, if l.finSet then [.del (tp c .stdinCopy)] else [])
  | .h3 e => ({ l with pc := .exited, exit := some e.code }, if l.dirSet then [.rmtree c.pid] else [])
  | .exited => (l, [])

/-- a step of one process on the shared file system -/
def step (env : Env B R) (v : Variant) (c : Config B) (s : Local B R × FS B R) : Local B R × FS B R :=
  match stepCore env v c s.1 (viewOf c s.2) with
  | (l, ops) => ({ l with trace := l.trace ++ ops }, applyOps s.2 ops)

def iter (env : Env B R) (v : Variant) (c : Config B) : Nat → Local B R × FS B R → Local B R × FS B R
  | 0, s => s
  | n + 1, s => step env v c (iter env v c n s)

/-- the longest path through the program has 15 steps; 20 is the fuel used everywhere -/
def fuel : Nat := 20

/-- a solitary run to completion -/
def run (env : Env B R) (v : Variant) (c : Config B) (fs : FS B R) : Local B R × FS B R :=
  iter env v c fuel ({}, fs)

/-! ### N processes on one file system -/

structure Global (B R : Type) where
  fs : FS B R
  locals : Nat → Local B R

/-- process `i` takes one step -/
def gstep (env : Env B R) (v : Variant) (cfg : Nat → Config B) (g : Global B R) (i : Nat) : Global B R :=
  match step env v (cfg i) (g.locals i, g.fs) with
  | (l, fs) => { fs := fs, locals := fun j => if j = i then l else g.locals j }

/-- an interleaving is the list of process ids in the order in which they take steps -/
def exec (env : Env B R) (v : Variant) (cfg : Nat → Config B) (g : Global B R) (σ : List Nat) : Global B R :=
  σ.foldl (gstep env v cfg) g

end SP.Cli
