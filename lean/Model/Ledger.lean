/-
Model/Ledger.lean — the per-resource, per-slot usage ledger and the limit counters.

Models (after the `fix:` commits recorded in known_findings.json)
  core/resource_scenario.py : slotSecondsUsed, slotTaskUsage, scoreboard marker,
                              getAvailableSecondsInSlot, available, book
  core/limits.py            : Limit._scoreboard / inc / ok (upper limits), counters grown on demand
  core/task_scenario.py     : start-offset reservation in bookResource,
                              tail release in _calculatePreciseEndTimeAndRelease

Booked seconds are exact rationals (the code uses doubles; deviations surface in the tie).
Finite maps are `Std.HashMap`s accessed only through `get`/`set`, whose two lemmas
(`get_set_same`, `get_set_other`) are all the proofs use.
-/
import Std.Data.HashMap
namespace SP

/-- one slot of one resource: seconds used and the per-task usage list (task index, seconds) -/
structure Slot where
  used : Rat := 0
  usage : List (Nat × Rat) := []
  deriving Repr, BEq, Inhabited

abbrev Key := Nat × Int

structure Ledger where
  m : Std.HashMap Key Slot := {}

def Ledger.get (L : Ledger) (r : Nat) (i : Int) : Slot := L.m.getD (r, i) {}
def Ledger.set (L : Ledger) (r : Nat) (i : Int) (s : Slot) : Ledger := ⟨L.m.insert (r, i) s⟩

structure Counters where
  m : Std.HashMap Key Int := {}

def Counters.get (C : Counters) (lid : Nat) (k : Int) : Int := C.m.getD (lid, k) 0
def Counters.set (C : Counters) (lid : Nat) (k : Int) (v : Int) : Counters := ⟨C.m.insert (lid, k) v⟩

structure Marks where
  m : Std.HashMap Key Bool := {}

def Marks.get (M : Marks) (r : Nat) (i : Int) : Bool := M.m.getD (r, i) false
def Marks.set (M : Marks) (r : Nat) (i : Int) : Marks := ⟨M.m.insert (r, i) true⟩

/-- `getAvailableSecondsInSlot`: `max(0, G - used)`, a remainder below a microsecond counting as none -/
def availSecs (G : Int) (s : Slot) : Rat :=
  let a := max 0 ((G : Rat) - s.used)
  if a < 1 / 1000000 then 0 else a

/-- the ledger part of `ResourceScenario.book`: take everything that is left of the slot -/
def Slot.book (G : Int) (s : Slot) (t : Nat) : Slot :=
  let a := availSecs G s
  { used := s.used + a, usage := s.usage ++ [(t, a)] }

/-- start-offset reservation of `TaskScenario.bookResource` -/
def Slot.reserve (s : Slot) (off : Rat) : Slot :=
  if s.used < off then { s with used := off } else s

/-- seconds of the first usage entry of task `t` -/
def usageOf (u : List (Nat × Rat)) (t : Nat) : Option Rat :=
  (u.find? (fun e => e.1 == t)).map (·.2)

/-- replace the seconds of the first usage entry of task `t` -/
def setUsage (u : List (Nat × Rat)) (t : Nat) (v : Rat) : List (Nat × Rat) :=
  match u with
  | [] => []
  | e :: es => if e.1 == t then (t, v) :: es else e :: setUsage es t v

/-- tail release: task `t` keeps `actual ≤ booked` seconds of what it booked in this slot -/
def Slot.release (s : Slot) (t : Nat) (actual : Rat) : Slot :=
  match usageOf s.usage t with
  | none => s
  | some booked =>
    if booked - actual > 0 then
      { used := s.used - booked + actual, usage := setUsage s.usage t actual }
    else s

end SP
