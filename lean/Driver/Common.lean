import Model
/-! helpers shared by the driver modules -/
namespace SPD
open SP

def parseInt? (s : String) : Option Int := s.toInt?
def parseNat? (s : String) : Option Nat := s.toNat?

def showRes (r : Res Int) : String :=
  match r with
  | .ok v => s!"ok {v}"
  | .indexError => "IndexError"
  | .overflow => "Overflow"

def parseBool? (s : String) : Option Bool :=
  if s == "1" then some true else if s == "0" then some false else none

def parsePat (s : String) : Option (List Bool) :=
  s.toList.mapM (fun c => if c == '1' then some true else if c == '0' then some false else none)

def showPairs (l : List (Int × Int)) : String :=
  " ".intercalate (l.map (fun p => s!"{p.1},{p.2}"))

def ints? (l : List String) : Option (List Int) := l.mapM parseInt?

end SPD
