import Lean.Data.Json
import Driver.Common
import Model.Elab
import Model.Scenarios
import Proofs.WFCheck
import Proofs.Containers
import Proofs.Aligned
import Proofs.BackGlobal
import Proofs.Counted
import Proofs.NoIdleGlobal
import Proofs.EarliestFit
import Proofs.DepMile
import Proofs.NoIdleBack
import Proofs.OneSet
import Proofs.TeamSame
import Proofs.TeamFit
import Proofs.EffortAlt
import Properties.C09
/-! driver command `J {"op":"sched", …}`: run the scheduler model on one scenario projection -/
namespace SPD
open SP Lean

def jInt? (j : Json) : Option Int := (j.getInt?).toOption
def jNat? (j : Json) : Option Nat := (j.getNat?).toOption
def jBool (j : Json) (k : String) : Bool := ((j.getObjValAs? Bool k).toOption).getD false
def jField? (j : Json) (k : String) : Option Json :=
  match j.getObjVal? k with
  | .ok .null => none
  | .ok v => some v
  | .error _ => none
def jArr (j : Json) (k : String) : List Json :=
  match jField? j k with
  | some (.arr a) => a.toList
  | _ => []
def jIntF (j : Json) (k : String) (d : Int := 0) : Int := ((jField? j k).bind jInt?).getD d
def jIntF? (j : Json) (k : String) : Option Int := (jField? j k).bind jInt?
def jNatF? (j : Json) (k : String) : Option Nat :=
  match jIntF? j k with
  | some v => if v < 0 then none else some v.toNat
  | none => none

/-- rational as [num, den] -/
def jRat? (j : Json) : Option Rat :=
  match j with
  | .arr a => match a.toList with
    | [n, d] => match jInt? n, jInt? d with
      | some n, some d => if d == 0 then none else some ((n : Rat) / (d : Rat))
      | _, _ => none
    | _ => none
  | _ => none

def jPairs (l : List Json) : List (Int × Int) :=
  l.filterMap (fun x => match x with
    | .arr a => match a.toList with
      | [p, q] => match jInt? p, jInt? q with
        | some p, some q => some (p, q)
        | _, _ => none
      | _ => none
    | _ => none)

def jHours? (j : Json) : Option Hours :=
  match j with
  | .arr a => some { days := a.toList.map (fun d => match d with | .arr x => jPairs x.toList | _ => []) }
  | _ => none

def jLimits (l : List Json) : List RawLimit :=
  l.map (fun x => { weekly := jBool x "weekly", value := jIntF x "value", res := jNatF? x "res" })

def jDeps (l : List Json) : List Dep :=
  l.filterMap (fun x => match jNatF? x "t" with
    | some t => some { target := t, gap := jIntF x "gap", onstart := jBool x "onstart", hasOpts := jBool x "opts", glen := jIntF x "glen" }
    | none => none)

def jNats (l : List Json) : List Nat := l.filterMap jNat?

def parseProj (j : Json) : RawProj :=
  { G := jIntF j "G" 3600, start := jIntF j "start", stop := jIntF j "end", projAlap := jBool j "projAlap",
    gvac := jPairs (jArr j "gvac"), gleaves := jPairs (jArr j "gleaves"),
    res := (jArr j "res").map (fun r =>
      { parent := jNatF? r "parent", eff := (jField? r "eff").bind jRat?,
        zone := (jField? r "zone").map (fun z => match z with | .arr a => jPairs a.toList | _ => []),
        hours := (jField? r "hours").bind jHours?, shift := (jField? r "shift").bind jHours?,
        leaves := (jField? r "leaves").map (fun z => match z with | .arr a => jPairs a.toList | _ => []),
        limits := jLimits (jArr r "limits") }),
    tasks := (jArr j "tasks").map (fun t =>
      { parent := jNatF? t "parent", effort := (jField? t "effort").bind jRat?,
        alloc := (jField? t "alloc").map (fun _ => (jNats (jArr t "alloc"), jNats (jArr t "alt"))),
        deps := jDeps (jArr t "deps"), prio := jIntF? t "prio", start := jIntF? t "start", stop := jIntF? t "stop",
        milestone := jBool t "milestone",
        mode := (match jField? t "mode" with | some (.bool b) => some b | _ => none),
        limits := jLimits (jArr t "limits") }) }

def ratJson (q : Rat) : Json := Json.arr #[Json.num (JsonNumber.fromInt q.num), Json.num (JsonNumber.fromInt q.den)]
def optInt (o : Option Int) : Json := match o with | some v => Json.num (JsonNumber.fromInt v) | none => Json.null

/-- decidable form of `Elig` for the common case: one allocated resource, no alternative -/
def eligB (e : Env) (t : Nat) : Bool :=
  let d := e.taskD t
  d.leaf && d.hasAlloc && !d.milestone && decide (d.effort > 0) && d.alloc.length == 1 && d.alt.isEmpty

/-- decidable form of `TeamElig` (hypotheses of `C03.teamElig_of_alloc`): several different allocated resources with one
    common positive efficiency, no alternative -/
def teamEligB (e : Env) (t : Nat) : Bool :=
  let d := e.taskD t
  d.leaf && d.hasAlloc && !d.milestone && decide (d.effort > 0) && decide (d.alloc.length > 1) && d.alt.isEmpty &&
    decide d.alloc.Nodup && d.alloc.all (fun r => (e.resD r).eff == (e.resD (d.alloc.headD 0)).eff) &&
    decide ((e.resD (d.alloc.headD 0)).eff > 0)

/-- decidable form of `EligU` (hypotheses of `C08.eligU_of_single`) -/
def eligUB (e : Env) (t : Nat) : Bool :=
  let d := e.taskD t
  eligB e t && !d.startProvided && (e.resD (d.alloc.headD 0)).leaf

/-- decidable form of `Exhausted` -/
def exhaustedB (e : Env) (σ : St) (t r : Nat) (i : Int) : Bool :=
  (resLimitIds e r).any (fun lid => !limitOk e σ lid i none) || (taskLimitIds e t).any (fun lid => !limitOk e σ lid i (some r))

/-- decidable form of `Tight` / `TeamTight` (`Proofs/TeamLimits`) -/
def tightB (e : Env) (σ : St) (lid : Nat) (i : Int) (ro : Option Nat) (c : Int) : Bool :=
  !((e.limitD lid).res.isSome && (e.limitD lid).res != ro) && decide (0 ≤ e.period (e.limitD lid) i) &&
    decide ((e.limitD lid).value ≤ σ.cnt.get lid (e.period (e.limitD lid) i) + c)

def teamTightB (e : Env) (σ : St) (t : Nat) (sel : List Nat) (i : Int) : Bool :=
  sel.any (fun m => (resLimitIds e m).any (fun lid => tightB e σ lid i none ((sel.length : Int) - 1)) ||
    (taskLimitIds e t).any (fun lid => tightB e σ lid i (some m) ((sel.length : Int) - 1)))

/-- decidable form of `Framed`: the first and the last slot in which the task holds time on `r` frame the reported dates -/
def framedB (e : Env) (σ : St) (t r : Nat) : Bool :=
  let booked := (σ.led.m.toList.filter (fun (ks : Key × Slot) => ks.1.1 == r && (usageOf ks.2.usage t).isSome)).map (fun ks => ks.1.2)
  match booked with
  | [] => false
  | i0 :: rest =>
    let fb := rest.foldl min i0
    let last := rest.foldl max i0
    (match (σ.tst t).start with
      | some v => decide (e.time fb ≤ v) && decide (v ≤ e.time (fb + 1))
      | none => false) &&
    (match (σ.tst t).stop with
      | some v => decide (e.time last ≤ v) && decide (v ≤ e.time (last + 1))
      | none => false)

/-- the project calendar as maximal runs `[lo, hi)` of slots of the table in which `Project.isWorkingTime` holds -/
def projRuns (e : Env) : List Json :=
  let n := e.size.toNat
  let step := fun (acc : List (Int × Int) × Option Int) (k : Nat) =>
    let i : Int := k
    let w := e.projWork i
    match acc.2, w with
    | none, true => (acc.1, some i)
    | some lo, false => ((lo, i) :: acc.1, none)
    | x, _ => (acc.1, x)
  let r := (List.range n).foldl step ([], none)
  let runs := match r.2 with
    | some lo => (lo, (n : Int)) :: r.1
    | none => r.1
  runs.reverse.map (fun p => Json.arr #[Json.num (JsonNumber.fromInt p.1), Json.num (JsonNumber.fromInt p.2)])

/-- decidable form of `FwdEff` -/
def fwdEffB (e : Env) (t : Nat) : Bool :=
  let d := e.taskD t
  d.leaf && d.hasAlloc && !d.milestone && decide (d.effort > 0) && !d.startProvided

/-- the order in which the loop places the tasks, latest first (a replica of `pickLoop` that records the picks; used only to
    evaluate the conclusion of `C07.earliest_fit_in_placement_order` with the order the theorem's proof uses) -/
def pickOrder (e : Env) : Nat → List Nat → St → List Nat → List Nat
  | 0, _, _, acc => acc
  | f + 1, tasks, σ, acc =>
    if tasks.isEmpty then acc
    else match tasks.find? (fun t => ready e σ t) with
      | some t => pickOrder e f (tasks.erase t) (updateContainers e (scheduleTask e σ t).1) (t :: acc)
      | none => acc

def runSched (j : Json) : Json :=
  let p := parseProj j
  let el := elaborate p
  let e := el.env
  let σ := runScenario e
  let tasks := (List.range e.tasks.size).map (fun t =>
    let x := σ.tst t
    Json.mkObj [("scheduled", Json.bool x.scheduled), ("start", optInt (x.start.map (Elab.abs p))), ("end", optInt (x.stop.map (Elab.abs p))),
                ("forward", Json.bool x.forward), ("runaway", Json.bool x.runaway)])
  let led := σ.led.m.toList.map (fun (k, s) =>
    Json.mkObj [("r", Json.num (JsonNumber.fromNat k.1)), ("i", Json.num (JsonNumber.fromInt k.2)), ("used", ratJson s.used),
                ("usage", Json.arr (s.usage.map (fun u => Json.arr #[Json.num (JsonNumber.fromNat u.1), ratJson u.2])).toArray)])
  let cnt := σ.cnt.m.toList.map (fun (k, v) =>
    Json.arr #[Json.num (JsonNumber.fromNat k.1), Json.num (JsonNumber.fromInt k.2), Json.num (JsonNumber.fromInt v)])
  -- instances of the global theorems on this run: hypotheses counted, conclusions evaluated
  let eligs := (List.range e.tasks.size).filter (fun t => eligB e t)
  let eligSched := eligs.filter (fun t => (σ.tst t).scheduled)
  let effortFail := eligSched.filter (fun t =>
    let r := (e.taskD t).alloc.headD 0
    let secs := σ.led.m.toList.foldl (fun (acc : Rat) (ks : Key × Slot) =>
      if ks.1.1 == r then acc + (usageOf ks.2.usage t).getD 0 else acc) 0
    !(secs / 3600 * (e.resD r).eff == (e.taskD t).effort))
  -- teams: every member sums to the effort and all members hold the same seconds in every slot
  let teams := (List.range e.tasks.size).filter (fun t => teamEligB e t && (σ.tst t).scheduled)
  let teamFail := teams.filter (fun t =>
    let sel := (e.taskD t).alloc
    let η := (e.resD (sel.headD 0)).eff
    let entries := σ.led.m.toList
    let sumOf (r : Nat) : Rat := entries.foldl (fun (acc : Rat) (ks : Key × Slot) =>
      if ks.1.1 == r then acc + (usageOf ks.2.usage t).getD 0 else acc) 0
    let slots := (entries.filter (fun ks => sel.contains ks.1.1 && (usageOf ks.2.usage t).isSome)).map (fun ks => ks.1.2)
    !(sel.all (fun r => sumOf r / 3600 * η == (e.taskD t).effort) &&
      slots.all (fun i => sel.all (fun r =>
        usageOf (σ.led.get r i).usage t == usageOf (σ.led.get (sel.headD 0) i).usage t))))
  -- C06.start_end_frame_bookings (both modes, single resource) and C06.team_framed (teams of one efficiency, both modes, every member)
  let framedPairs := eligSched.map (fun t => (t, (e.taskD t).alloc.headD 0)) ++
    teams.flatMap (fun t => (e.taskD t).alloc.map (fun r => (t, r)))
  let framedFail := framedPairs.filter (fun tr => !framedB e σ tr.1 tr.2)
  let fwds := (List.range e.tasks.size).filter (fun t => fwdEffB e t && (σ.tst t).scheduled && (σ.tst t).forward)
  let depPairs := fwds.flatMap (fun t => ((e.taskD t).allDeps.filter (fun dp => (e.taskD dp.target).leaf)).map (fun dp => (t, dp)))
  -- milestones the loop placed (done), forward, without own start: all edges
  let miles := (List.range e.tasks.size).filter (fun t =>
    let d := e.taskD t
    d.leaf && (d.milestone || d.effort == 0) && !d.startProvided && (σ.tst t).done && (σ.tst t).forward)
  let milePairs := miles.flatMap (fun t => (e.taskD t).allDeps.map (fun dp => (t, dp)))
  let mileFail := milePairs.filter (fun (td : Nat × Dep) =>
    let dt := if td.2.onstart then (σ.tst td.2.target).start else (σ.tst td.2.target).stop
    match dt, (σ.tst td.1).start with
    | some d, some v => !((σ.tst td.2.target).scheduled && decide (depDate e td.2 d ≤ v))
    | _, _ => !(σ.tst td.2.target).scheduled)
  let depPairsAll := fwds.flatMap (fun t => (e.taskD t).allDeps.map (fun dp => (t, dp)))
  let depFailAll := depPairsAll.filter (fun (td : Nat × Dep) =>
    let dt := if td.2.onstart then (σ.tst td.2.target).start else (σ.tst td.2.target).stop
    match dt, (σ.tst td.1).start with
    | some d, some v => !((σ.tst td.2.target).scheduled && decide (depDate e td.2 d ≤ v))
    | _, _ => !(σ.tst td.2.target).scheduled)
  let depFail := depPairs.filter (fun (td : Nat × Dep) =>
    let dt := if td.2.onstart then (σ.tst td.2.target).start else (σ.tst td.2.target).stop
    match dt, (σ.tst td.1).start with
    | some d, some v => !((σ.tst td.2.target).scheduled && decide (depDate e td.2 d ≤ v))
    | _, _ => !(σ.tst td.2.target).scheduled)
  -- backward tasks whose deadline comes from their successors: end + gap <= start of every successor
  let σp := prepare e (initState e)
  let backs := (List.range e.tasks.size).filter (fun t =>
    let d := e.taskD t
    d.leaf && decide (d.effort > 0) && !d.milestone && (σp.tst t).stop.isNone && (σ.tst t).scheduled && !(σ.tst t).forward)
  let backPairs := backs.flatMap (fun t => (successors e t).map (fun s => (t, s)))
  let backFail := backPairs.filter (fun (ts : Nat × Nat) =>
    match (σ.tst ts.2).start, (σ.tst ts.1).stop with
    | some ss, some v => !((σ.tst ts.2).scheduled && decide (v + succGap e ts.1 ts.2 ≤ ss))
    | _, _ => !(σ.tst ts.2).scheduled)
  -- limits: per limit and period, the covered ledger entries number at most the counter and the value, their seconds <= value x G
  let trips : List Trip := σ.led.m.toList.flatMap (fun (ks : Key × Slot) =>
    ((ks.2.usage.map (·.1)).eraseDups).map (fun t => (ks.1.1, ks.1.2, t)))
  let limChecks := (List.range e.limits.size).flatMap (fun lid =>
    let cov := trips.filter (fun x => (bookPairs e x.1 x.2.2).any (fun q => q.1 == lid && applies e q))
    let periods := (cov.map (fun x => e.period (e.limitD lid) x.2.1)).eraseDups.filter (fun p => decide (0 ≤ p))
    periods.map (fun p =>
      let L := cov.filter (fun x => e.period (e.limitD lid) x.2.1 == p)
      let ok := decide ((L.length : Int) ≤ σ.cnt.get lid p) && decide ((L.length : Int) ≤ max 0 (e.limitD lid).value) &&
        decide (sumTrips σ L ≤ (max 0 (e.limitD lid).value : Int) * (e.G : Rat))
      (lid, p, ok)))
  let limFail := limChecks.filter (fun x => !x.2.2)
  -- C08.no_idle_final: between the bound slot and the last booked slot every working slot of the resource carries an entry
  let idleTasks := (List.range e.tasks.size).filter (fun t => eligUB e t && (σ.tst t).scheduled && (σ.tst t).forward)
  let idleFail := idleTasks.filter (fun t =>
    let r := (e.taskD t).alloc.headD 0
    let booked := (σ.led.m.toList.filter (fun (ks : Key × Slot) => ks.1.1 == r && (usageOf ks.2.usage t).isSome)).map (fun ks => ks.1.2)
    let b := boundSlot e σ t
    match booked.foldl (fun (m : Option Int) i => match m with | none => some i | some x => some (max x i)) none with
    | none => false
    | some L =>
      !((List.range (L - b + 1).toNat).all (fun k =>
        let i := b + (k : Int)
        !(e.onShift r i && !e.leaveMark r i) || !(σ.led.get r i).usage.isEmpty || exhaustedB e σ t r i)))
  -- C08.no_idle_final_alap: between the first booked slot and the last slot before the deadline
  let alapTasks := (List.range e.tasks.size).filter (fun t =>
    eligB e t && (e.resD ((e.taskD t).alloc.headD 0)).leaf && (σ.tst t).scheduled && !(σ.tst t).forward)
  let alapEndFail := alapTasks.filter (fun t =>
    match (σ.tst t).stop with
    | some v => !decide (v ≤ deadlineG e (loopStart e) σ t)
    | none => true)
  let alapFail := alapTasks.filter (fun t =>
    let r := (e.taskD t).alloc.headD 0
    let booked := (σ.led.m.toList.filter (fun (ks : Key × Slot) => ks.1.1 == r && (usageOf ks.2.usage t).isSome)).map (fun ks => ks.1.2)
    let hi := e.idx (deadlineG e (loopStart e) σ t) - 1
    match booked.foldl (fun (m : Option Int) i => match m with | none => some i | some x => some (min x i)) none with
    | none => false
    | some L =>
      !((List.range (hi - L + 1).toNat).all (fun k =>
        let i := L + (k : Int)
        !(e.onShift r i && !e.leaveMark r i) || !(σ.led.get r i).usage.isEmpty || exhaustedB e σ t r i)))
  let idleUnlimited := (idleTasks.filter (fun t => (resLimitIds e ((e.taskD t).alloc.headD 0)).isEmpty && (taskLimitIds e t).isEmpty)).length
  -- C07.earliest_fit_in_placement_order, with the loop's own order: a working slot in [bound, last] carries the task or an earlier one
  let σ0 := preLoop e (prepare e (initState e))
  let order := pickOrder e ((todoOf e σ0).length + 1) (todoOf e σ0) σ0 []
  let fitFail := idleTasks.filter (fun t =>
    let r := (e.taskD t).alloc.headD 0
    let pre := (order.dropWhile (fun x => x != t)).drop 1
    let booked := (σ.led.m.toList.filter (fun (ks : Key × Slot) => ks.1.1 == r && (usageOf ks.2.usage t).isSome)).map (fun ks => ks.1.2)
    let b := boundSlot e σ t
    match booked.foldl (fun (m : Option Int) i => match m with | none => some i | some x => some (max x i)) none with
    | none => false
    | some L =>
      !(order.contains t && (List.range (L - b + 1).toNat).all (fun k =>
        let i := b + (k : Int)
        !(e.onShift r i && !e.leaveMark r i) || (usageOf (σ.led.get r i).usage t).isSome ||
          pre.any (fun t' => (usageOf (σ.led.get r i).usage t').isSome) || exhaustedB e σ t r i)))
  -- C07.list_schedule_in_priority_order, order clause, with the loop's own order: for t0 placed and t placed later or never
  let todo0 := todoOf e σ0
  let restT := todo0.filter (fun t => !order.contains t)
  let ordFail := (List.range order.length).filter (fun k =>
    let t0 := order.getD k 0
    let post := order.take k
    let pre := order.drop (k + 1)
    !((restT ++ post).all (fun t =>
      prioLe e t0 t || !(σ.tst t).forward ||
      (e.taskD t).allDeps.any (fun dp => !(e.taskD dp.target).leaf || !pre.contains dp.target ||
        (pre.contains dp.target && !(σ.tst dp.target).scheduled)))))
  -- C03.team_same_instants: any team (several different allocated resources, no alternative)
  let anyTeams := (List.range e.tasks.size).filter (fun t =>
    let d := e.taskD t
    d.leaf && d.hasAlloc && !d.milestone && decide (d.effort > 0) && decide (d.alloc.length > 1) && d.alt.isEmpty && decide d.alloc.Nodup)
  let sameFail := anyTeams.filter (fun t =>
    let sel := (e.taskD t).alloc
    let slots := ((σ.led.m.toList.filter (fun (ks : Key × Slot) => sel.contains ks.1.1 && (usageOf ks.2.usage t).isSome)).map (fun ks => ks.1.2)).eraseDups
    !(slots.all (fun i => sel.all (fun r => usageOf (σ.led.get r i).usage t == usageOf (σ.led.get (sel.headD 0) i).usage t))))
  -- C03.effort_exact_with_alternative: one primary, one alternative
  let altTasks := (List.range e.tasks.size).filter (fun t =>
    let d := e.taskD t
    d.leaf && d.hasAlloc && !d.milestone && decide (d.effort > 0) && d.alloc.length == 1 && d.alt.length == 1 && (σ.tst t).scheduled)
  let altFail := altTasks.filter (fun t =>
    let cands := (e.taskD t).alloc ++ (e.taskD t).alt
    !(cands.any (fun r =>
      let secs := σ.led.m.toList.foldl (fun (acc : Rat) (ks : Key × Slot) =>
        if ks.1.1 == r then acc + (usageOf ks.2.usage t).getD 0 else acc) 0
      secs / 3600 * (e.resD r).eff == (e.taskD t).effort)))
  -- C08.no_idle_final_with_alternative: forward, no own start, both candidates leaves: no idle slot on one of the two
  let altIdleTasks := altTasks.filter (fun t =>
    let d := e.taskD t
    (σ.tst t).forward && !d.startProvided && (d.alloc ++ d.alt).all (fun r => (e.resD r).leaf))
  let altIdleFail := altIdleTasks.filter (fun t =>
    !(((e.taskD t).alloc ++ (e.taskD t).alt).any (fun r =>
      let booked := (σ.led.m.toList.filter (fun (ks : Key × Slot) => ks.1.1 == r && (usageOf ks.2.usage t).isSome)).map (fun ks => ks.1.2)
      let b := boundSlot e σ t
      match booked.foldl (fun (m : Option Int) i => match m with | none => some i | some x => some (max x i)) none with
      | none => false
      | some L =>
        (List.range (L - b + 1).toNat).all (fun k =>
          let i := b + (k : Int)
          !(e.onShift r i && !e.leaveMark r i) || !(σ.led.get r i).usage.isEmpty || exhaustedB e σ t r i))))
  -- C08.no_idle_final_alap_with_alternative: backward, both candidates leaves
  let altAlapTasks := altTasks.filter (fun t =>
    let d := e.taskD t
    !(σ.tst t).forward && (d.alloc ++ d.alt).all (fun r => (e.resD r).leaf))
  let altAlapEndFail := altAlapTasks.filter (fun t =>
    match (σ.tst t).stop with
    | some v => !decide (v ≤ deadlineG e (loopStart e) σ t)
    | none => true)
  let altAlapIdleFail := altAlapTasks.filter (fun t =>
    !(((e.taskD t).alloc ++ (e.taskD t).alt).any (fun r =>
      let booked := (σ.led.m.toList.filter (fun (ks : Key × Slot) => ks.1.1 == r && (usageOf ks.2.usage t).isSome)).map (fun ks => ks.1.2)
      let hi := e.idx (deadlineG e (loopStart e) σ t) - 1
      match booked.foldl (fun (m : Option Int) i => match m with | none => some i | some x => some (min x i)) none with
      | none => false
      | some L =>
        (List.range (hi - L + 1).toNat).all (fun k =>
          let i := L + (k : Int)
          !(e.onShift r i && !e.leaveMark r i) || !(σ.led.get r i).usage.isEmpty || exhaustedB e σ t r i))))
  -- C07.alternative_earliest_fit, with the loop's own order
  let altFitFail := altIdleTasks.filter (fun t =>
    let pre := (order.dropWhile (fun x => x != t)).drop 1
    !(order.contains t && ((e.taskD t).alloc ++ (e.taskD t).alt).any (fun r =>
      let booked := (σ.led.m.toList.filter (fun (ks : Key × Slot) => ks.1.1 == r && (usageOf ks.2.usage t).isSome)).map (fun ks => ks.1.2)
      let b := boundSlot e σ t
      match booked.foldl (fun (m : Option Int) i => match m with | none => some i | some x => some (max x i)) none with
      | none => false
      | some L =>
        (List.range (L - b + 1).toNat).all (fun k =>
          let i := b + (k : Int)
          !(e.onShift r i && !e.leaveMark r i) || (usageOf (σ.led.get r i).usage t).isSome ||
            pre.any (fun t' => (usageOf (σ.led.get r i).usage t').isSome) || exhaustedB e σ t r i))))
  -- C11.bookings_inside_horizon / scheduled_dates_inside_horizon
  let horizonFail := (σ.led.m.toList.filter (fun (ks : Key × Slot) =>
    !ks.2.usage.isEmpty && !(decide (0 ≤ ks.1.2) && decide (ks.1.2 ≤ e.upper)))).length +
    (eligSched.filter (fun t =>
      match (σ.tst t).start, (σ.tst t).stop with
      | some s, some v => !(decide (e.time 0 ≤ s) && decide (v ≤ e.time (e.upper + 1)))
      | _, _ => true)).length
  -- C06.start_le_end (single resource, one primary + one alternative, teams of one efficiency)
  let orderedFail := (eligSched ++ altTasks ++ teams).filter (fun t =>
    match (σ.tst t).start, (σ.tst t).stop with
    | some s, some v => !decide (s ≤ v)
    | _, _ => true)
  -- C06.framed_with_alternative: framed on one of the two candidates
  let altFrameFail := altTasks.filter (fun t =>
    !(((e.taskD t).alloc ++ (e.taskD t).alt).any (fun r => framedB e σ t r)))
  -- C03.bookings_on_one_candidate_set
  let oneSetFail := (List.range e.tasks.size).filter (fun t =>
    let rs := ((σ.led.m.toList.filter (fun (ks : Key × Slot) => (usageOf ks.2.usage t).isSome)).map (fun ks => ks.1.1)).eraseDups
    !(rs.all (fun r => (e.taskD t).alloc.contains r) || rs.all (fun r => (e.taskD t).alt.contains r)))
  -- C07.team_earliest_fit: forward teams (limits allowed)
  let teamUs := anyTeams.filter (fun t =>
    let d := e.taskD t
    !d.startProvided && d.alloc.all (fun m => (e.resD m).leaf) && (σ.tst t).scheduled && (σ.tst t).forward)
  let teamLimited := (fun (t : Nat) => !((e.taskD t).alloc.all (fun m => (resLimitIds e m).isEmpty) && (taskLimitIds e t).isEmpty))
  let teamFitFail := teamUs.filter (fun t =>
    let sel := (e.taskD t).alloc
    let pre := (order.dropWhile (fun x => x != t)).drop 1
    let booked := (σ.led.m.toList.filter (fun (ks : Key × Slot) => sel.contains ks.1.1 && (usageOf ks.2.usage t).isSome)).map (fun ks => ks.1.2)
    let b := boundSlot e σ t
    match booked.foldl (fun (m : Option Int) i => match m with | none => some i | some x => some (max x i)) none with
    | none => false
    | some L =>
      !(order.contains t && (List.range (L - b + 1).toNat).all (fun k =>
        let i := b + (k : Int)
        !(sel.all (fun m => e.onShift m i && !e.leaveMark m i)) ||
          sel.all (fun m => (usageOf (σ.led.get m i).usage t).isSome) ||
          sel.any (fun m => pre.any (fun t' => (usageOf (σ.led.get m i).usage t').isSome)) ||
          teamTightB e σ t sel i)))
  -- how often only the third case (a limit without room for the whole team) explains a skipped all-working slot
  let teamTightSlots := (teamUs.map (fun t =>
    let sel := (e.taskD t).alloc
    let pre := (order.dropWhile (fun x => x != t)).drop 1
    let booked := (σ.led.m.toList.filter (fun (ks : Key × Slot) => sel.contains ks.1.1 && (usageOf ks.2.usage t).isSome)).map (fun ks => ks.1.2)
    let b := boundSlot e σ t
    match booked.foldl (fun (m : Option Int) i => match m with | none => some i | some x => some (max x i)) none with
    | none => 0
    | some L =>
      ((List.range (L - b + 1).toNat).filter (fun (k : Nat) =>
        let i : Int := b + (k : Int)
        sel.all (fun m => e.onShift m i && !e.leaveMark m i) &&
          !sel.all (fun m => (usageOf (σ.led.get m i).usage t).isSome) &&
          !sel.any (fun m => pre.any (fun t' => (usageOf (σ.led.get m i).usage t').isSome)))).length)).foldl (· + ·) 0
  -- C08.no_idle_final_alap_team: backward teams (limits allowed)
  let teamUBs := anyTeams.filter (fun t =>
    let d := e.taskD t
    d.alloc.all (fun m => (e.resD m).leaf) && (σ.tst t).scheduled && !(σ.tst t).forward)
  let teamAlapEndFail := teamUBs.filter (fun t =>
    match (σ.tst t).stop with
    | some v => !decide (v ≤ deadlineG e (loopStart e) σ t)
    | none => true)
  let teamAlapIdleFail := teamUBs.filter (fun t =>
    let sel := (e.taskD t).alloc
    let booked := (σ.led.m.toList.filter (fun (ks : Key × Slot) => sel.contains ks.1.1 && (usageOf ks.2.usage t).isSome)).map (fun ks => ks.1.2)
    let hi := e.idx (deadlineG e (loopStart e) σ t) - 1
    match booked.foldl (fun (m : Option Int) i => match m with | none => some i | some x => some (min x i)) none with
    | none => false
    | some L =>
      !((List.range (hi - L + 1).toNat).all (fun k =>
        let i := L + (k : Int)
        !(sel.all (fun m => e.onShift m i && !e.leaveMark m i)) ||
          sel.all (fun m => (usageOf (σ.led.get m i).usage t).isSome) ||
          sel.any (fun m => !(σ.led.get m i).usage.isEmpty) || teamTightB e σ t sel i)))
  -- containers: scheduled => children scheduled and dates = min / max; all children scheduled => scheduled
  let conts := (List.range e.tasks.size).filter (fun c => !(e.taskD c).leaf && !(e.taskD c).children.isEmpty)
  let contFail := conts.filter (fun c =>
    let cs := (e.taskD c).children
    let allSched := cs.all (fun ch => (σ.tst ch).scheduled)
    if (σ.tst c).scheduled then
      !(allSched &&
        (match childMinStart σ cs with | some s => (σ.tst c).start == some s | none => true) &&
        (match childMaxEnd σ cs with | some s => (σ.tst c).stop == some s | none => true))
    else allSched)
  -- calendars: resources whose calendar is aligned with the grid (hypothesis of C02.booked_every_second)
  let nAligned := ((List.range e.res.size).filter (fun r => calAlignedB el.cal (el.rcal.getD r {}))).length
  let thm := Json.mkObj [("resources", Json.num (JsonNumber.fromNat e.res.size)), ("resources_aligned", Json.num (JsonNumber.fromNat nAligned)),
                         ("back_edges", Json.num (JsonNumber.fromNat backPairs.length)), ("back_fail", Json.num (JsonNumber.fromNat backFail.length)),
                         ("idle_tasks", Json.num (JsonNumber.fromNat idleTasks.length)), ("idle_fail", Json.num (JsonNumber.fromNat idleFail.length)),
                         ("idle_tasks_unlimited", Json.num (JsonNumber.fromNat idleUnlimited)),
                         ("alap_tasks", Json.num (JsonNumber.fromNat alapTasks.length)), ("alap_idle_fail", Json.num (JsonNumber.fromNat alapFail.length)),
                         ("alap_end_fail", Json.num (JsonNumber.fromNat alapEndFail.length)),
                         ("fit_fail", Json.num (JsonNumber.fromNat fitFail.length)),
                         ("team_fit_tasks", Json.num (JsonNumber.fromNat teamUs.length)), ("team_fit_fail", Json.num (JsonNumber.fromNat teamFitFail.length)),
                         ("team_fit_limited", Json.num (JsonNumber.fromNat (teamUs.filter teamLimited).length)),
                         ("team_tight_slots", Json.num (JsonNumber.fromNat teamTightSlots)),
                         ("team_alap_limited", Json.num (JsonNumber.fromNat (teamUBs.filter teamLimited).length)),
                         ("team_alap_tasks", Json.num (JsonNumber.fromNat teamUBs.length)), ("team_alap_idle_fail", Json.num (JsonNumber.fromNat teamAlapIdleFail.length)),
                         ("team_alap_end_fail", Json.num (JsonNumber.fromNat teamAlapEndFail.length)),
                         ("placed", Json.num (JsonNumber.fromNat order.length)), ("order_fail", Json.num (JsonNumber.fromNat ordFail.length)),
                         ("limit_periods", Json.num (JsonNumber.fromNat limChecks.length)), ("limit_fail", Json.num (JsonNumber.fromNat limFail.length)),
                         ("containers", Json.num (JsonNumber.fromNat conts.length)), ("container_fail", Json.num (JsonNumber.fromNat contFail.length)),
                         ("elig", Json.num (JsonNumber.fromNat eligs.length)), ("elig_scheduled", Json.num (JsonNumber.fromNat eligSched.length)),
                         ("effort_exact_fail", Json.num (JsonNumber.fromNat effortFail.length)),
                         ("framed_pairs", Json.num (JsonNumber.fromNat framedPairs.length)), ("framed_fail", Json.num (JsonNumber.fromNat framedFail.length)),
                         ("teams_scheduled", Json.num (JsonNumber.fromNat teams.length)), ("team_exact_fail", Json.num (JsonNumber.fromNat teamFail.length)),
                         ("one_set_fail", Json.num (JsonNumber.fromNat oneSetFail.length)),
                         ("alt_tasks", Json.num (JsonNumber.fromNat altTasks.length)), ("alt_effort_fail", Json.num (JsonNumber.fromNat altFail.length)),
                         ("alt_framed_fail", Json.num (JsonNumber.fromNat altFrameFail.length)),
                         ("ordered_fail", Json.num (JsonNumber.fromNat orderedFail.length)),
                         ("horizon_fail", Json.num (JsonNumber.fromNat horizonFail)),
                         ("alt_idle_tasks", Json.num (JsonNumber.fromNat altIdleTasks.length)), ("alt_idle_fail", Json.num (JsonNumber.fromNat altIdleFail.length)),
                         ("alt_fit_fail", Json.num (JsonNumber.fromNat altFitFail.length)),
                         ("alt_alap_tasks", Json.num (JsonNumber.fromNat altAlapTasks.length)), ("alt_alap_idle_fail", Json.num (JsonNumber.fromNat altAlapIdleFail.length)),
                         ("alt_alap_end_fail", Json.num (JsonNumber.fromNat altAlapEndFail.length)),
                         ("teams_any", Json.num (JsonNumber.fromNat anyTeams.length)), ("team_same_fail", Json.num (JsonNumber.fromNat sameFail.length)),
                         ("fwd_scheduled", Json.num (JsonNumber.fromNat fwds.length)), ("dep_edges", Json.num (JsonNumber.fromNat depPairs.length)),
                         ("dep_fail", Json.num (JsonNumber.fromNat depFail.length)),
                         ("dep_edges_all", Json.num (JsonNumber.fromNat depPairsAll.length)), ("dep_all_fail", Json.num (JsonNumber.fromNat depFailAll.length)),
                         ("milestone_edges", Json.num (JsonNumber.fromNat milePairs.length)), ("milestone_fail", Json.num (JsonNumber.fromNat mileFail.length))]
  Json.mkObj [("end", Json.num (JsonNumber.fromInt (Elab.abs p e.stop))), ("wf", Json.bool (wfCheck e && treeCheck e)), ("size", Json.num (JsonNumber.fromInt e.size)), ("thm", thm),
              ("tasks", Json.arr tasks.toArray), ("ledger", Json.arr led.toArray), ("counters", Json.arr cnt.toArray),
              ("warnings", Json.arr (σ.warnings.map Json.str).toArray),
              ("order", Json.arr (order.reverse.map (fun t => Json.num (JsonNumber.fromNat t))).toArray),
              ("projwork", Json.arr (projRuns e).toArray)]

/-- C09: the base project and the project with one more task; are the hypotheses of
    `C09.lowest_priority_intruder_harmless_checked` met, and does its conclusion evaluate to true on the two model runs? -/
def runIntruder (j : Json) : Json :=
  let e := (elaborate (parseProj (j.getObjValD "base"))).env
  let e' := (elaborate (parseProj (j.getObjValD "plus"))).env
  let n := e.tasks.size
  let zd := e'.taskD n
  -- the environment of the extended project is `ext e zd` (first-order fields; calendars come from identical resource sections)
  let isExt := e'.tasks == e.tasks.push zd && e'.limits == e.limits && e'.res == e.res && e'.G == e.G && e'.start == e.start &&
    e'.stop == e.stop && e'.size == e.size && e'.projAlap == e.projAlap
  let applies := isExt && C09.intrCheck e zd && treeCheck e && wfCheck e
  let σ := runScenario e
  let σ' := runScenario e'
  let agree := (List.range n).all (fun t => σ'.tst t == σ.tst t)
  Json.mkObj [("is_ext", Json.bool isExt), ("applies", Json.bool applies), ("agree", Json.bool agree),
              ("added_scheduled", Json.bool (σ'.tst n).scheduled)]

def jOverride (x : Json) : Option Override :=
  match jNatF? x "task" with
  | some t => some { task := t, effort := (jField? x "effort").bind jRat?, start := jIntF? x "start", stop := jIntF? x "stop" }
  | none => none

/-- C16: the model's `projection` of the base project under a scenario's override list against the single-scenario
    project the harness wrote for that scenario (the text the real code is run on): are they the same raw project? -/
def runProj (j : Json) : Json :=
  let b := parseProj (j.getObjValD "base")
  let want := parseProj (j.getObjValD "want")
  let ovs := (jArr j "ovs").filterMap jOverride
  let got := projection b ovs
  let same := reprStr got == reprStr want
  let first := (List.range (max got.tasks.length want.tasks.length)).find? (fun i => reprStr (got.tasks[i]?) != reprStr (want.tasks[i]?))
  Json.mkObj [("same", Json.bool same), ("tasks", Json.num (JsonNumber.fromNat got.tasks.length)),
              ("overrides", Json.num (JsonNumber.fromNat ovs.length)),
              ("first", match first with | some i => Json.num (JsonNumber.fromNat i) | none => Json.null)]

def jsonOps : List (String × (Json → Json)) := [("sched", runSched), ("intruder", runIntruder), ("proj", runProj)]

def handleJson (ops : List (String × (Json → Json))) (line : String) : String :=
  match Json.parse line with
  | .error _ => "bad-op"
  | .ok j =>
    match (j.getObjValAs? String "op").toOption with
    | none => "bad-op"
    | some op =>
      match ops.find? (fun x => x.1 == op) with
      | some h => "J " ++ (h.2 j).compress
      | none => "bad-op"

end SPD
